(* DecodeSplit.v — split_args undoes intercalate ", " on rendered arguments. *)
From WD Require Import Base Wire Decode Render LetterIdProofs DecodeBasics DecodeArgs.
From Coq Require Import Lia ZifyBool ZifyNat ZifyN.
Open Scope N_scope.

(* one step of the scanner outside a string, with the look-ahead made explicit *)
Lemma step0 c r cur acc :
  split_args_go (c :: r) O cur acc =
  if N.eqb c 44 && match r with c' :: _ => N.eqb c' 32 | [] => false end
  then split_args_go (tl r) O [] (rev cur :: acc)
  else if N.eqb c 34 then split_args_go r 1%nat (c :: cur) acc
       else split_args_go r O (c :: cur) acc.
Proof.
  cbn [split_args_go]. destruct (N.eqb c 44); [|reflexivity].
  destruct r as [|c' r']; [reflexivity|]. cbn [andb tl].
  char_cases c'.
Qed.

Lemma step1 c r cur acc :
  split_args_go (c :: r) 1%nat cur acc =
  if N.eqb c 34 then split_args_go r O (c :: cur) acc
  else if N.eqb c 92 then split_args_go r 2%nat (c :: cur) acc
  else split_args_go r 1%nat (c :: cur) acc.
Proof. reflexivity. Qed.

(* [good inside s]: scanning s never splits, never meets a backslash, and ends outside a string *)
Fixpoint good (inside : bool) (s : str) : bool :=
  match s with
  | [] => negb inside
  | c :: r =>
      if inside then
        if N.eqb c 34 then good false r else if N.eqb c 92 then false else good true r
      else
        if N.eqb c 44 then match r with [] => false | c' :: _ => negb (N.eqb c' 32) && good false r end
        else if N.eqb c 34 then good true r else good false r
  end.

Lemma scan_good x : forall inside cur acc rest,
  good inside x = true ->
  split_args_go (x ++ rest) (if inside then 1%nat else O) cur acc = split_args_go rest O (rev x ++ cur) acc.
Proof.
  induction x as [|c x IH]; intros inside cur acc rest G.
  - destruct inside; [discriminate|reflexivity].
  - cbn [good] in G. cbn [app rev]. rewrite <- app_assoc. cbn [app]. destruct inside.
    + rewrite step1. destruct (N.eqb c 34).
      * apply (IH false). exact G.
      * destruct (N.eqb c 92); [discriminate|]. apply (IH true). exact G.
    + rewrite step0. destruct (N.eqb c 44) eqn:E44.
      * destruct x as [|c' x']; [discriminate|]. apply andb_true_iff in G. destruct G as [G1 G2].
        cbn [app]. apply negb_true_iff in G1. rewrite G1. cbn [andb].
        assert (E34 : N.eqb c 34 = false) by lia. rewrite E34.
        apply (IH false). exact G2.
      * cbn [andb]. destruct (N.eqb c 34).
        -- apply (IH true). exact G.
        -- apply (IH false). exact G.
Qed.

Definition sep : str := [44; 32].

Lemma split_intercalate xs : forall acc,
  xs <> [] -> Forall (fun x => x <> [] /\ good false x = true) xs ->
  split_args_go (intercalate sep xs) O [] acc = rev acc ++ xs.
Proof.
  induction xs as [|x xs IH]; intros acc Hne Hall; [congruence|].
  inversion Hall as [|x0 xs0 [Nx Gx] Hrest]; subst.
  destruct xs as [|y ys].
  - cbn [intercalate]. rewrite <- (app_nil_r x) at 1.
    rewrite (scan_good x false [] acc [] Gx). cbn [split_args_go]. rewrite app_nil_r.
    destruct (rev x) as [|r0 rs] eqn:Er.
    + exfalso. apply Nx. apply (f_equal (@rev char)) in Er. rewrite rev_involutive in Er. exact Er.
    + rewrite <- Er. rewrite rev_involutive. reflexivity.
  - change (intercalate sep (x :: y :: ys)) with (x ++ sep ++ intercalate sep (y :: ys)).
    rewrite (scan_good x false [] acc _ Gx). rewrite app_nil_r.
    unfold sep at 1. cbn [app]. rewrite step0. cbn [andb tl].
    change (N.eqb 44 44 && N.eqb 32 32) with true. cbv iota.
    rewrite rev_involutive. rewrite IH; [|discriminate|exact Hrest].
    cbn [rev]. rewrite <- app_assoc. reflexivity.
Qed.

(* ---- rendered arguments are good ------------------------------------------------------------ *)
Definition plain (c : char) : bool := negb (N.eqb c 34) && negb (N.eqb c 44).

Lemma good_plain_app a r : forallb plain a = true -> good false (a ++ r) = good false r.
Proof.
  induction a as [|c a IH]; intros H; [reflexivity|].
  cbn [forallb] in H. apply andb_true_iff in H. destruct H as [H1 H2].
  cbn [app good]. unfold plain in H1.
  assert (E1 : N.eqb c 44 = false) by lia. assert (E2 : N.eqb c 34 = false) by lia.
  rewrite E1, E2. apply IH. exact H2.
Qed.

Lemma good_plain a : forallb plain a = true -> good false a = true.
Proof. intros H. rewrite <- (app_nil_r a). rewrite good_plain_app by exact H. reflexivity. Qed.

Lemma good_string s : str_ok s = true -> good true (s ++ [34]) = true.
Proof.
  induction s as [|c s IH]; intros H; [reflexivity|].
  unfold str_ok in H. cbn [forallb] in H. apply andb_true_iff in H. destruct H as [H1 H2].
  cbn [app good].
  assert (E1 : N.eqb c 34 = false) by lia. assert (E2 : N.eqb c 92 = false) by lia.
  rewrite E1, E2. apply IH. exact H2.
Qed.

Lemma digit_plain c : is_digit c = true -> plain c = true.
Proof. unfold plain. cc. Qed.
Lemma word_plain c : is_word c = true -> plain c = true.
Proof. unfold plain. cc. Qed.
Lemma digits_plain s : forallb is_digit s = true -> forallb plain s = true.
Proof. apply forallb_impl, digit_plain. Qed.
Lemma words_plain s : forallb is_word s = true -> forallb plain s = true.
Proof. apply forallb_impl, word_plain. Qed.

Lemma z_to_dec_plain z : forallb plain (z_to_dec z) = true.
Proof.
  rewrite z_to_dec_abs. rewrite forallb_app. rewrite (digits_plain _ (n_to_dec_digits _)).
  destruct (z <? 0)%Z; reflexivity.
Qed.

Lemma sign_plain (b : bool) : forallb plain (if b then [45] else []) = true.
Proof. destruct b; reflexivity. Qed.

Lemma sep_plain d : plain (sep_char d) = true.
Proof. unfold sep_char. destruct (d_hash d); reflexivity. Qed.

Lemma z_to_dec_nonempty z : z_to_dec z <> [].
Proof.
  rewrite z_to_dec_abs. intros H. apply app_eq_nil in H. destruct H as [_ H].
  exact (n_to_dec_nonempty _ H).
Qed.

(* sign ++ digits ++ mark :: digits *)
Lemma good_fixed_shape (neg : bool) ip mark fp :
  forallb is_digit ip = true -> fp <> [] -> forallb is_digit fp = true -> (mark = 46 \/ mark = 44) ->
  good false ((if neg then [45] else []) ++ ip ++ mark :: fp) = true.
Proof.
  intros Di Nf Df Hm. rewrite good_plain_app by apply sign_plain.
  rewrite good_plain_app by (apply digits_plain; exact Di).
  destruct Hm as [-> | ->].
  - apply (good_plain (46 :: fp)). cbn [forallb]. rewrite (digits_plain _ Df). reflexivity.
  - destruct fp as [|f0 fp']; [congruence|].
    change (good false (44 :: f0 :: fp')) with (negb (N.eqb f0 32) && good false (f0 :: fp')).
    pose proof Df as D0. cbn [forallb] in D0. apply andb_true_iff in D0. destruct D0 as [D0 _].
    assert (E : N.eqb f0 32 = false) by cc. rewrite E. cbn [negb andb].
    apply good_plain. apply digits_plain. exact Df.
Qed.

Lemma render_fixed_good d k : render_fixed d k <> [] /\ good false (render_fixed d k) = true.
Proof.
  unfold render_fixed. destruct (d_fixed8 d).
  - split.
    + intros H. apply app_eq_nil in H. destruct H as [_ H]. apply app_eq_nil in H. destruct H as [H _].
      exact (z_to_dec_nonempty _ H).
    + rewrite z_to_dec_nonneg by lia.
      apply good_fixed_shape; [apply n_to_dec_digits|apply dec_pad_nonempty|apply dec_pad_digits|auto].
  - split.
    + intros H. apply app_eq_nil in H. destruct H as [_ H]. apply app_eq_nil in H. destruct H as [H _].
      exact (z_to_dec_nonempty _ H).
    + rewrite z_to_dec_nonneg by lia.
      apply good_fixed_shape; [apply n_to_dec_digits|apply dec_pad_nonempty|apply dec_pad_digits|apply mark_cases].
Qed.

Lemma render_arg_good d a : wf_warg a = true ->
  render_arg d a <> [] /\ good false (render_arg d a) = true.
Proof.
  intros Hwf. destruct a as [v|k|s| |i id|[i|] id|v|n]; cbn [render_arg wf_warg] in *.
  - split; [apply z_to_dec_nonempty|]. apply good_plain, z_to_dec_plain.
  - apply render_fixed_good.
  - split; [discriminate|]. cbn [app good]. change (N.eqb 34 44) with false.
    change (N.eqb 34 34) with true. cbv iota. apply good_string. exact Hwf.
  - split; [discriminate|reflexivity].
  - apply andb_true_iff in Hwf. destruct Hwf as [Hwf _]. apply andb_true_iff in Hwf. destruct Hwf as [Hi _].
    apply is_word_str_spec in Hi. destruct Hi as [Ni Wi]. split.
    + intros H. apply app_eq_nil in H. tauto.
    + apply good_plain. rewrite !forallb_app. rewrite (words_plain _ Wi), z_to_dec_plain.
      cbn [forallb]. rewrite sep_plain. reflexivity.
  - apply andb_true_iff in Hwf. destruct Hwf as [Hwf _]. apply andb_true_iff in Hwf. destruct Hwf as [Hi _].
    apply is_word_str_spec in Hi. destruct Hi as [Ni Wi]. split.
    + discriminate.
    + apply good_plain. rewrite !forallb_app. rewrite (words_plain _ Wi), z_to_dec_plain.
      cbn [forallb]. rewrite sep_plain. reflexivity.
  - split.
    + discriminate.
    + apply good_plain. rewrite !forallb_app. rewrite z_to_dec_plain.
      cbn [forallb]. rewrite sep_plain. reflexivity.
  - split; [discriminate|]. apply good_plain. rewrite forallb_app, z_to_dec_plain. reflexivity.
  - destruct (d_array_n d); [|split; [discriminate|reflexivity]]. split; [discriminate|].
    apply good_plain. rewrite !forallb_app. rewrite (digits_plain _ (n_to_dec_digits _)). reflexivity.
Qed.

Theorem split_render d args : forallb wf_warg args = true ->
  split_args (intercalate (s2l ", ") (map (render_arg d) args)) = map (render_arg d) args.
Proof.
  intros Hwf. unfold split_args. change (s2l ", ") with sep.
  destruct args as [|a args]; [reflexivity|].
  rewrite split_intercalate; [reflexivity|discriminate|].
  apply Forall_forall. intros x Hx. apply in_map_iff in Hx. destruct Hx as [b [<- Hb]].
  apply render_arg_good. rewrite forallb_forall in Hwf. apply Hwf. exact Hb.
Qed.

Theorem mapM_argument_render d args : forallb wf_warg args = true ->
  mapM argument (map (render_arg d) args) = Ok (map (denote_arg d) args).
Proof.
  induction args as [|a args IH]; intros Hwf; [reflexivity|].
  cbn [forallb] in Hwf. apply andb_true_iff in Hwf. destruct Hwf as [H1 H2].
  cbn [map mapM]. rewrite (argument_render d a H1). cbn [bind]. rewrite (IH H2). reflexivity.
Qed.
