(* JoinSteps.v — C12 for command sequences of ANY length.

   The tool's `filter TEXT` / `breakpoint TEXT` commands do
       cur := simplify (join (parse TEXT) cur)        (cur unchanged when TEXT does not parse).
   MatcherProofs.v has the one-step facts.  Here:

   Part 1 (exact, no side condition): an accumulator [acc] (a constant, or a list of alternatives and
     a list of exclusions), the reading [abs] of the accumulator off the matcher the tool holds, and a
     step function [acc_step] on accumulators such that   abs (step cur p) = acc_step (abs cur) p
     for EVERY cur and EVERY parsed p; hence the same for whole command sequences.
   Part 2 (the plain reading of the property): the accumulator that just appends what the commands
     gave ([raw_step]); the tool's state is exactly its elementwise simplification, for every
     sequence of commands that are resets, literal constants or "plain" ([PlainCmd]).
   Part 3: closed form of the raw accumulator, the text-level wrapper (a text that does not parse
     changes nothing), examples, and corner examples outside [PlainCmd] where the raw reading and the
     tool differ. *)
From WD Require Import Base Wire Conn Color Matcher MatcherParse MatcherProofs.
From Coq Require Import Lia.
Close Scope N_scope.
Open Scope Z_scope.

(* ---- the state the tool really holds ------------------------------------------------------------ *)
Definition step (cur p : mt) : mt := simplify (join p cur).
Definition Good (cur : mt) : Prop := simplify cur = cur.

Definition lift {A} (f : A -> mt -> A) (a : A) (o : option mt) : A :=
  match o with Some p => f a p | None => a end.
(* [None] is a text that failed to parse *)
Definition run (ps : list (option mt)) (cur0 : mt) : mt := fold_left (lift step) ps cur0.

Lemma good_const b : Good (MAlways b).
Proof. reflexivity. Qed.
Lemma good_simplify m : Good (simplify m).
Proof. apply simplify_idempotent. Qed.
Lemma good_step cur p : Good (step cur p).
Proof. apply simplify_idempotent. Qed.

Lemma run_good ps : forall cur0, Good cur0 -> Good (run ps cur0).
Proof.
  unfold run. induction ps as [|o ps IH]; intros cur0 H; [exact H|].
  cbn [fold_left]. apply IH. destruct o as [p|]; [apply good_step|exact H].
Qed.

(* ---- Part 1: the accumulator ---------------------------------------------------------------------- *)
Inductive acc := AConst (b : bool) | ALists (alts excls : list mt).

Definition hit (l : list mt) (v : val) : bool := existsb (fun m => matches m v) l.

(* selected iff some alternative matches and no exclusion matches *)
Definition sel_acc (a : acc) (v : val) : bool :=
  match a with
  | AConst b => b
  | ALists alts excls => hit alts v && negb (hit excls v)
  end.

Definition abs (cur : mt) : acc :=
  match cur with
  | MAlways b => AConst b
  | MList p n => ALists p n
  | _ => ALists [cur] []
  end.

Theorem abs_sound cur v : matches cur v = sel_acc (abs cur) v.
Proof.
  destruct cur;
    try (cbn [abs sel_acc hit existsb negb]; rewrite orb_false_r, andb_true_r; reflexivity).
  - reflexivity.
  - reflexivity.
Qed.

Definition is_star : mt -> bool := is_always true.
Definition is_bang : mt -> bool := is_always false.
Definition dropstar (l : list mt) : list mt := filter (fun p => negb (is_always true p)) l.
Definition dropbang (l : list mt) : list mt := filter (fun p => negb (is_always false p)) l.
Definition star_or (l : list mt) : list mt := match l with [] => [MAlways true] | _ => l end.

(* what a list of alternatives and a list of exclusions settle to, once every element is simplified:
   an exclusion that is `*` excludes everything; an alternative that is `*` makes the alternatives
   just `*`; elements that are `!` drop out; no alternative left selects nothing; a single
   alternative without exclusions is that matcher itself *)
Definition settle (alts excls : list mt) : acc :=
  match alts with
  | [] => AConst false
  | _ =>
      let alts1 := map simplify alts in
      let excls1 := map simplify excls in
      if existsb (is_always true) excls1 then AConst false else
      let alts2 := if existsb (is_always true) alts1 then [MAlways true] else alts1 in
      match dropbang alts2, dropbang excls1 with
      | [], _ => AConst false
      | [q], [] => abs q
      | a3, e3 => ALists a3 e3
      end
  end.

Definition acc_step (a : acc) (p : mt) : acc :=
  let np := fst (as_list p) in
  let nn := snd (as_list p) in
  match a with
  | AConst _ => settle np nn                                   (* replaced *)
  | ALists alts excls =>
      match always p with
      | Some b => AConst b                                     (* literally `*` / `!`: replaced *)
      | None => settle (star_or (dropstar (np ++ alts))) (nn ++ excls)
      end
  end.

Lemma last_star l :
  match last_such (is_always true) l with Some p => [p] | None => l end
  = if existsb (is_always true) l then [MAlways true] else l.
Proof.
  destruct (last_such (is_always true) l) as [p|] eqn:E.
  - apply last_such_some in E. destruct E as [Hin Hp].
    assert (Ex : existsb (is_always true) l = true) by (apply existsb_exists; exists p; split; assumption).
    rewrite Ex. apply is_always_spec in Hp. subst p. reflexivity.
  - apply last_such_none in E. rewrite E. reflexivity.
Qed.

Lemma settle_abs a e : abs (simplify (MList a e)) = settle a e.
Proof.
  rewrite simplify_list_eq. destruct a as [|x a]; [reflexivity|].
  unfold list_body, settle. rewrite last_star.
  set (alts1 := map simplify (x :: a)). set (excls1 := map simplify e).
  destruct (existsb (is_always true) excls1); [reflexivity|].
  unfold dropbang.
  destruct (filter (fun p => negb (is_always false p))
              (if existsb (is_always true) alts1 then [MAlways true] else alts1)) as [|q [|q2 qs]];
    destruct (filter (fun p => negb (is_always false p)) excls1); reflexivity.
Qed.

Lemma simplify_singleton p : simplify (MList [p] []) = simplify p.
Proof.
  rewrite simplify_list_eq. unfold list_body. cbn [map existsb]. rewrite last_star.
  cbn [existsb]. rewrite orb_false_r.
  destruct (is_always true (simplify p)) eqn:E.
  - apply is_always_spec in E. rewrite E. reflexivity.
  - cbn [filter]. destruct (is_always false (simplify p)) eqn:E2; cbn [negb].
    + apply is_always_spec in E2. rewrite E2. reflexivity.
    + reflexivity.
Qed.

Lemma given_abs p : abs (simplify p) = settle (fst (as_list p)) (snd (as_list p)).
Proof.
  destruct p; try (cbn [as_list fst snd]; rewrite <- settle_abs, simplify_singleton; reflexivity).
  cbn [as_list fst snd]. apply settle_abs.
Qed.

Lemma always_some m b : always m = Some b -> m = MAlways b.
Proof. destruct m; cbn; intros H; try discriminate. injection H as ->. reflexivity. Qed.

Lemma join_lists p cur :
  always cur = None -> always p = None ->
  join p cur = MList (star_or (dropstar (fst (as_list p) ++ fst (as_list cur))))
                     (snd (as_list p) ++ snd (as_list cur)).
Proof.
  intros Hc Hp. destruct cur; try discriminate; destruct p; try discriminate; reflexivity.
Qed.

Lemma abs_lists cur : always cur = None -> abs cur = ALists (fst (as_list cur)) (snd (as_list cur)).
Proof. destruct cur; intros H; try discriminate; reflexivity. Qed.

(* one command, exactly, for every current matcher and every parsed matcher *)
Theorem cmd_step_exact cur p : abs (step cur p) = acc_step (abs cur) p.
Proof.
  unfold step. destruct (always cur) as [b|] eqn:EC.
  - apply always_some in EC. subst cur. cbn [join abs acc_step]. apply given_abs.
  - rewrite (abs_lists _ EC). cbn [acc_step].
    destruct (always p) as [b|] eqn:EP.
    + apply always_some in EP. subst p.
      rewrite join_replaces by (right; exists b; reflexivity). reflexivity.
    + rewrite (join_lists _ _ EC EP). apply settle_abs.
Qed.

(* the meaning of [settle]: some alternative matches, no exclusion matches *)
Lemma sel_settle a e v : sel_acc (settle a e) v = sel a e v.
Proof.
  destruct a as [|x a]; [reflexivity|].
  rewrite <- settle_abs, <- abs_sound, simplify_list_sem. reflexivity.
Qed.

Theorem cmd_step_sound cur p v : matches (step cur p) v = sel_acc (acc_step (abs cur) p) v.
Proof. rewrite abs_sound, cmd_step_exact. reflexivity. Qed.

(* ... spelled out: which alternatives and exclusions decide after the command *)
Theorem acc_step_sel a p v :
  sel_acc (acc_step a p) v =
  match a with
  | AConst _ => sel (fst (as_list p)) (snd (as_list p)) v
  | ALists alts excls =>
      match always p with
      | Some b => b
      | None => sel (star_or (dropstar (fst (as_list p) ++ alts))) (snd (as_list p) ++ excls) v
      end
  end.
Proof.
  destruct a as [b|alts excls]; cbn [acc_step].
  - apply sel_settle.
  - destruct (always p); [reflexivity|apply sel_settle].
Qed.

(* whole sequences *)
Theorem run_cmds_exact ps : forall cur0,
  abs (run ps cur0) = fold_left (lift acc_step) ps (abs cur0).
Proof.
  unfold run. induction ps as [|o ps IH]; intros cur0; [reflexivity|].
  cbn [fold_left]. rewrite IH. destruct o as [p|]; cbn [lift]; [rewrite cmd_step_exact|]; reflexivity.
Qed.

Theorem run_cmds_sound ps cur0 v :
  matches (run ps cur0) v = sel_acc (fold_left (lift acc_step) ps (abs cur0)) v.
Proof. rewrite abs_sound, run_cmds_exact. reflexivity. Qed.

(* the accumulated elements are stable: re-simplifying them (as [settle] does at every later
   command) leaves them as they are *)
Lemma nonlist_simplify m a e : simplify m = MList a e -> exists pos neg, m = MList pos neg.
Proof.
  destruct m; cbn [simplify]; intros H; try discriminate.
  - destruct (always (simplify m1)), (always (simplify m2)); try discriminate.
    destruct (Bool.eqb b b0); discriminate.
  - eexists; eexists; reflexivity.
  - destruct (existsb (is_always true) (map simplify neg)); [discriminate|].
    destruct (existsb (is_always false) (map simplify pos)); [discriminate|].
    destruct (forallb (is_always true) (map simplify pos) &&
              match filter (fun p => negb (is_always false p)) (map simplify neg) with
              | [] => true | _ => false end); discriminate.
  - destruct (always (simplify m)); discriminate.
  - destruct (is_always false (simplify m1) || is_always false (simplify m2)
              || is_always false (simplify m3) || is_always false (simplify m4)); [discriminate|].
    destruct (is_always true (simplify m1) && is_always true (simplify m2)
              && is_always true (simplify m3) && is_always true (simplify m4)); discriminate.
Qed.

Lemma Forall_simp_map l : Forall Simp (map simplify l).
Proof. induction l; cbn; constructor; [apply simplify_idempotent|assumption]. Qed.

Lemma simplify_lists : forall m a e, simplify m = MList a e -> Forall Simp a /\ Forall Simp e.
Proof.
  apply (mt_ind' (fun m => forall a e, simplify m = MList a e -> Forall Simp a /\ Forall Simp e));
    try (intros; match goal with H : simplify _ = MList _ _ |- _ =>
                   apply nonlist_simplify in H; destruct H as (? & ? & H); discriminate end).
  intros pos neg HP _ a e H.
  rewrite simplify_list_eq in H. destruct pos as [|x pos]; [discriminate|].
  unfold list_body in H. rewrite last_star in H.
  set (alts1 := map simplify (x :: pos)) in *. set (excls1 := map simplify neg) in *.
  destruct (existsb (is_always true) excls1); [discriminate|].
  set (alts2 := if existsb (is_always true) alts1 then [MAlways true] else alts1) in *.
  assert (H2 : Forall Simp alts2).
  { unfold alts2. destruct (existsb (is_always true) alts1).
    - constructor; [reflexivity|constructor].
    - apply Forall_simp_map. }
  assert (H3 : Forall Simp (filter (fun p => negb (is_always false p)) alts2))
    by (apply Forall_filter; exact H2).
  assert (HN : Forall Simp (filter (fun p => negb (is_always false p)) excls1))
    by (apply Forall_filter, Forall_simp_map).
  destruct (filter (fun p => negb (is_always false p)) alts2) as [|q [|q2 qs]] eqn:EF.
  - discriminate.
  - destruct (filter (fun p => negb (is_always false p)) excls1) as [|r rs] eqn:EN.
    + (* the single alternative is itself a list: it came from an element of pos *)
      subst q.
      assert (Hin : In (MList a e) alts2).
      { assert (Hf : In (MList a e) (filter (fun p => negb (is_always false p)) alts2))
          by (rewrite EF; left; reflexivity).
        apply filter_In in Hf. apply Hf. }
      unfold alts2 in Hin. destruct (existsb (is_always true) alts1).
      * destruct Hin as [Hin|[]]; discriminate.
      * unfold alts1 in Hin. apply in_map_iff in Hin. destruct Hin as (y & Hy & Hyin).
        rewrite Forall_forall in HP. exact (HP y Hyin a e Hy).
    + injection H as <- <-. split; assumption.
  - injection H as <- <-. split; assumption.
Qed.

Theorem good_acc_stable cur a e :
  Good cur -> abs cur = ALists a e -> map simplify a = a /\ map simplify e = e.
Proof.
  intros HG HA.
  assert (HS : Forall Simp a /\ Forall Simp e).
  { destruct cur; cbn [abs] in HA; try discriminate;
      try (injection HA as <- <-; split; constructor; [exact HG|constructor]).
    injection HA as <- <-. exact (simplify_lists _ _ _ HG). }
  destruct HS as [Ha He]. split; apply map_simplify_fixed; assumption.
Qed.

Lemma filter_app_dropstar a b : dropstar (a ++ b) = dropstar a ++ dropstar b.
Proof. apply filter_app. Qed.

(* what an alternative that FOLDS to `*` (without literally being `*`) does to a non-constant
   accumulator: every earlier alternative is wiped, the exclusions stay *)
Theorem star_alternative_wipes a e p :
  always p = None ->
  existsb (fun x => is_always true (simplify x)) (dropstar (fst (as_list p))) = true ->
  existsb (fun n => is_always true (simplify n)) (snd (as_list p) ++ e) = false ->
  acc_step (ALists a e) p =
  match dropbang (map simplify (snd (as_list p) ++ e)) with
  | [] => AConst true
  | e3 => ALists [MAlways true] e3
  end.
Proof.
  intros HA HS HE. cbn [acc_step]. rewrite HA.
  rewrite filter_app_dropstar.
  destruct (dropstar (fst (as_list p))) as [|x l] eqn:EL; [discriminate|].
  change (star_or ((x :: l) ++ dropstar a)) with ((x :: l) ++ dropstar a).
  unfold settle. change ((x :: l) ++ dropstar a) with (x :: (l ++ dropstar a)) at 1.
  cbv iota beta. rewrite (existsb_map _ simplify (snd (as_list p) ++ e)), HE.
  rewrite (existsb_map _ simplify ((x :: l) ++ dropstar a)), existsb_app, HS. cbn [orb].
  assert (E : dropbang [MAlways true] = [MAlways true]) by reflexivity. rewrite E.
  destruct (dropbang (map simplify (snd (as_list p) ++ e))); reflexivity.
Qed.

(* ---- Part 2: the plain reading — just append what the commands gave ------------------------------- *)
(* [Specific x]: x does not fold to a constant *)
Definition Specific (x : mt) : Prop := always (simplify x) = None.
Definition NonList (m : mt) : Prop := match m with MList _ _ => False | _ => True end.

(* alternatives/exclusions none of which folds to a constant; the alternatives may also be the
   single literal `*` of a pure-exclusion command `! e1, e2` *)
Definition PlainLists (a e : list mt) : Prop :=
  Forall Specific e /\
  ((a = [MAlways true] /\ e <> []) \/
   (Forall Specific a /\ a <> [] /\ (forall x, a = [x] -> e = [] -> NonList x))).

(* a reset: some exclusion is (equivalent to) `*`, as in the text `!` *)
Definition is_reset (p : mt) : bool :=
  existsb (fun n => is_always true (simplify n)) (snd (as_list p)).

Definition PlainCmd (p : mt) : Prop :=
  is_reset p = true \/ (exists b, p = MAlways b) \/ PlainLists (fst (as_list p)) (snd (as_list p)).

Definition raw_step (r : acc) (p : mt) : acc :=
  if is_reset p then AConst false else
  match always p with
  | Some b => AConst b
  | None =>
      match r with
      | AConst _ => ALists (fst (as_list p)) (snd (as_list p))
      | ALists a e => ALists (star_or (dropstar (fst (as_list p) ++ a))) (snd (as_list p) ++ e)
      end
  end.

Definition simp_acc (r : acc) : acc :=
  match r with AConst b => AConst b | ALists a e => ALists (map simplify a) (map simplify e) end.
(* the raw accumulator selects with the elements' simplified meaning, like [sel] *)
Definition sel_raw (r : acc) (v : val) : bool :=
  match r with AConst b => b | ALists a e => sel a e v end.
Definition PlainAcc (r : acc) : Prop :=
  match r with AConst _ => True | ALists a e => PlainLists a e end.

Lemma sel_simp_acc r v : sel_acc (simp_acc r) v = sel_raw r v.
Proof.
  destruct r as [b|a e]; [reflexivity|]. cbn [simp_acc sel_acc sel_raw]. unfold hit, sel.
  rewrite !existsb_map. reflexivity.
Qed.

Lemma specific_not_always b x : Specific x -> is_always b (simplify x) = false.
Proof.
  intros H. destruct (is_always b (simplify x)) eqn:E; [|reflexivity].
  apply is_always_spec in E. unfold Specific in H. rewrite E in H. discriminate.
Qed.
Lemma specific_not_star x : Specific x -> is_always true x = false.
Proof.
  intros H. destruct (is_always true x) eqn:E; [|reflexivity].
  apply is_always_spec in E. subst x. discriminate.
Qed.
Lemma specific_simplify x : Specific x -> Specific (simplify x).
Proof. unfold Specific. rewrite simplify_idempotent. trivial. Qed.
Lemma Forall_specific_map l : Forall Specific l -> Forall Specific (map simplify l).
Proof. induction 1; cbn; constructor; [apply specific_simplify|]; assumption. Qed.

Lemma existsb_always_specific b l : Forall Specific l -> existsb (is_always b) (map simplify l) = false.
Proof.
  induction 1 as [|x l Hx _ IH]; [reflexivity|]. cbn [map existsb].
  rewrite (specific_not_always b x Hx), IH. reflexivity.
Qed.
Lemma dropbang_specific l : Forall Specific l -> dropbang (map simplify l) = map simplify l.
Proof.
  induction 1 as [|x l Hx _ IH]; [reflexivity|]. unfold dropbang in *. cbn [map filter].
  rewrite (specific_not_always false x Hx). cbn [negb]. rewrite IH. reflexivity.
Qed.
Lemma dropstar_specific l : Forall Specific l -> dropstar l = l.
Proof.
  induction 1 as [|x l Hx _ IH]; [reflexivity|]. unfold dropstar in *. cbn [filter].
  rewrite (specific_not_star x Hx). cbn [negb]. rewrite IH. reflexivity.
Qed.
Lemma dropstar_app a b : dropstar (a ++ b) = dropstar a ++ dropstar b.
Proof. apply filter_app. Qed.
Lemma map_simplify_idem l : map simplify (map simplify l) = map simplify l.
Proof. apply map_simplify_fixed, Forall_simp_map. Qed.
Lemma map_star_or l : map simplify (star_or l) = star_or (map simplify l).
Proof. destruct l; reflexivity. Qed.

Lemma simplify_nonlist x : NonList x -> NonList (simplify x).
Proof.
  intros H. destruct (simplify x) eqn:E; try exact I.
  apply nonlist_simplify in E. destruct E as (p & n & ->). exact H.
Qed.

Lemma abs_specific_nonlist x : Specific x -> NonList x -> abs (simplify x) = ALists [simplify x] [].
Proof.
  intros HS HN. apply simplify_nonlist in HN. unfold Specific in HS.
  destruct (simplify x); try reflexivity; [discriminate|contradiction].
Qed.

Lemma settle_plain a e : PlainLists a e -> settle a e = ALists (map simplify a) (map simplify e).
Proof.
  intros [He [[-> Hne]|(Ha & Hne & Hsingle)]].
  - unfold settle. cbn [map simplify existsb is_always Bool.eqb orb].
    rewrite (existsb_always_specific true e He), (dropbang_specific e He).
    destruct e as [|y e]; [contradiction|]. reflexivity.
  - unfold settle. destruct a as [|x a]; [contradiction|].
    rewrite (existsb_always_specific true e He), (existsb_always_specific true _ Ha).
    rewrite (dropbang_specific e He), (dropbang_specific _ Ha).
    destruct a as [|x2 a]; [|reflexivity].
    destruct e as [|y e]; [|reflexivity].
    cbn [map]. apply abs_specific_nonlist; [inversion Ha; assumption|apply Hsingle; reflexivity].
Qed.

Lemma settle_ext a a' e e' :
  map simplify a = map simplify a' -> map simplify e = map simplify e' -> settle a e = settle a' e'.
Proof.
  intros Ha He. unfold settle. rewrite Ha, He.
  destruct a, a'; cbn in Ha; try discriminate; reflexivity.
Qed.

Lemma plain_join np nn a e :
  PlainLists np nn -> PlainLists a e -> PlainLists (star_or (dropstar (np ++ a))) (nn ++ e).
Proof.
  intros [Hnn Hnp] [He Ha]. split; [apply Forall_app; split; assumption|].
  rewrite dropstar_app.
  destruct Hnp as [[-> Hnn0]|(Hnp & Hnp0 & _)]; destruct Ha as [[-> He0]|(Ha & Ha0 & _)].
  - left. split; [reflexivity|]. destruct nn; [contradiction|discriminate].
  - right. rewrite (dropstar_specific a Ha).
    assert (E : dropstar [MAlways true] = []) by reflexivity. rewrite E. cbn [app].
    destruct a as [|x a]; [contradiction|]. cbn [star_or].
    split; [exact Ha|]. split; [discriminate|]. intros z _ Hn. destruct nn; [contradiction|discriminate].
  - right. rewrite (dropstar_specific np Hnp).
    assert (E : dropstar [MAlways true] = []) by reflexivity. rewrite E, app_nil_r.
    destruct np as [|x np]; [contradiction|]. cbn [star_or].
    split; [exact Hnp|]. split; [discriminate|]. intros z _ Hn.
    apply app_eq_nil in Hn. destruct Hn as [_ Hn]. contradiction.
  - right. rewrite (dropstar_specific np Hnp), (dropstar_specific a Ha).
    assert (Hne : np ++ a <> []).
    { intros H. apply app_eq_nil in H. destruct H as [H _]. contradiction. }
    assert (Es : star_or (np ++ a) = np ++ a) by (destruct (np ++ a); [contradiction|reflexivity]).
    rewrite Es. split; [apply Forall_app; split; assumption|]. split; [exact Hne|].
    intros z Hz _. exfalso. apply (f_equal (@List.length mt)) in Hz. rewrite app_length in Hz.
    destruct np; [contradiction|]. destruct a; [contradiction|]. cbn [List.length] in Hz. lia.
Qed.

Lemma reset_step a p : is_reset p = true -> acc_step a p = AConst false.
Proof.
  intros H. unfold is_reset in H.
  assert (G : forall l l2, l <> [] -> settle l (snd (as_list p) ++ l2) = AConst false).
  { intros l l2 Hl. unfold settle. destruct l as [|x l]; [contradiction|].
    rewrite map_app, existsb_app, existsb_map, H. reflexivity. }
  destruct a as [b|alts excls]; cbn [acc_step].
  - destruct (fst (as_list p)) as [|x l] eqn:E; [reflexivity|].
    rewrite <- (app_nil_r (snd (as_list p))). apply G. discriminate.
  - destruct (always p) as [b|] eqn:EA.
    + apply always_some in EA. subst p. discriminate.
    + apply G. destruct (dropstar (fst (as_list p) ++ alts)); discriminate.
Qed.

Lemma plain_not_const a e b : PlainLists a e -> a <> [MAlways b] \/ e <> [].
Proof.
  intros [_ [[-> He]|(Ha & _ & _)]]; [right; exact He|].
  left. intros ->. inversion Ha as [|? ? Hx _]. discriminate.
Qed.

(* one plain command: the tool's accumulator is the raw one, elementwise simplified *)
Theorem raw_step_exact r p :
  PlainAcc r -> PlainCmd p ->
  acc_step (simp_acc r) p = simp_acc (raw_step r p) /\ PlainAcc (raw_step r p).
Proof.
  intros Hr Hp. unfold raw_step.
  destruct (is_reset p) eqn:ER.
  { rewrite (reset_step _ _ ER). split; [reflexivity|exact I]. }
  destruct (always p) as [b|] eqn:EA.
  { apply always_some in EA. subst p. split; [|exact I].
    destruct r as [b0|a e]; [|reflexivity]. destruct b; reflexivity. }
  destruct Hp as [Hp|[[b ->]|Hp]]; [congruence|discriminate|].
  destruct r as [b0|a e]; cbn [simp_acc acc_step PlainAcc] in *.
  - split; [apply settle_plain; exact Hp|exact Hp].
  - rewrite EA. split; [|apply plain_join; assumption].
    rewrite <- (settle_plain _ _ (plain_join _ _ _ _ Hp Hr)).
    apply settle_ext.
    + rewrite !map_star_or, !dropstar_app, !map_app. f_equal. f_equal.
      destruct Hr as [_ [[-> _]|(Ha & _ & _)]]; [reflexivity|].
      rewrite (dropstar_specific _ Ha), (dropstar_specific _ (Forall_specific_map _ Ha)).
      apply map_simplify_idem.
    + rewrite !map_app, map_simplify_idem. reflexivity.
Qed.

Definition PlainOpt (o : option mt) : Prop := match o with Some p => PlainCmd p | None => True end.

Theorem run_raw_exact ps : forall cur0 r0,
  Forall PlainOpt ps -> PlainAcc r0 -> abs cur0 = simp_acc r0 ->
  abs (run ps cur0) = simp_acc (fold_left (lift raw_step) ps r0).
Proof.
  unfold run. induction ps as [|o ps IH]; intros cur0 r0 HP Hr HA; [exact HA|].
  inversion HP as [|? ? Ho HP']; subst. cbn [fold_left].
  destruct o as [p|]; cbn [lift].
  - destruct (raw_step_exact r0 p Hr Ho) as [E Hr'].
    apply IH; [exact HP'|exact Hr'|]. rewrite cmd_step_exact, HA. exact E.
  - apply IH; assumption.
Qed.

(* from the initial `*` (filter) or `!` (breakpoint): a message is selected iff it matches some
   accumulated alternative and no accumulated exclusion *)
Theorem run_raw_sound ps b v :
  Forall PlainOpt ps ->
  matches (run ps (MAlways b)) v = sel_raw (fold_left (lift raw_step) ps (AConst b)) v.
Proof.
  intros HP. rewrite abs_sound, (run_raw_exact ps (MAlways b) (AConst b) HP I eq_refl).
  apply sel_simp_acc.
Qed.

(* ---- Part 3a: closed form of the raw accumulator over a run of non-constant, non-reset commands --- *)
Definition alts_of (ps : list mt) : list mt := List.concat (rev (map (fun p => fst (as_list p)) ps)).
Definition excls_of (ps : list mt) : list mt := List.concat (rev (map (fun p => snd (as_list p)) ps)).
Definition Accumulating (p : mt) : Prop := is_reset p = false /\ always p = None.

Lemma dropstar_idem l : dropstar (dropstar l) = dropstar l.
Proof. apply filter_idem. Qed.
Lemma dropstar_star_or l : dropstar (star_or (dropstar l)) = dropstar l.
Proof.
  destruct (dropstar l) eqn:E; [reflexivity|]. cbn [star_or]. rewrite <- E. apply dropstar_idem.
Qed.

Theorem raw_run_closed ps : forall a e,
  Forall Accumulating ps -> ps <> [] ->
  fold_left raw_step ps (ALists a e) =
  ALists (star_or (dropstar (alts_of ps ++ a))) (excls_of ps ++ e).
Proof.
  induction ps as [|p ps IH]; intros a e HA Hne; [contradiction|].
  inversion HA as [|? ? [Hr Hc] HA']; subst. cbn [fold_left].
  assert (E1 : raw_step (ALists a e) p =
               ALists (star_or (dropstar (fst (as_list p) ++ a))) (snd (as_list p) ++ e))
    by (unfold raw_step; rewrite Hr, Hc; reflexivity).
  rewrite E1. unfold alts_of, excls_of. cbn [map rev]. rewrite !concat_app. cbn [List.concat].
  rewrite !app_nil_r, <- !app_assoc.
  destruct ps as [|p2 ps]; [reflexivity|].
  rewrite IH by (assumption || discriminate). unfold alts_of, excls_of. f_equal.
  rewrite dropstar_app, dropstar_star_or. symmetry. rewrite dropstar_app. reflexivity.
Qed.

(* ---- Part 3b: the commands as texts; a text that does not parse changes nothing -------------------- *)
Definition cmd (cur : mt) (t : str) : mt :=
  match parse t with Ok p => step cur p | Raise _ _ => cur end.
Definition parsed (t : str) : option mt :=
  match parse t with Ok p => Some p | Raise _ _ => None end.

Theorem cmd_unparsed cur t e m : parse t = Raise e m -> cmd cur t = cur.
Proof. unfold cmd. intros ->. reflexivity. Qed.

Theorem cmd_parsed cur t p : parse t = Ok p -> cmd cur t = simplify (join p cur).
Proof. unfold cmd. intros ->. reflexivity. Qed.

Theorem run_texts_as_cmds ts : forall cur, fold_left cmd ts cur = run (map parsed ts) cur.
Proof.
  unfold run. induction ts as [|t ts IH]; intros cur; [reflexivity|].
  cbn [fold_left map]. rewrite IH. unfold cmd, parsed. destruct (parse t); reflexivity.
Qed.

Theorem run_texts_exact ts cur0 :
  abs (fold_left cmd ts cur0) = fold_left (lift acc_step) (map parsed ts) (abs cur0).
Proof. rewrite run_texts_as_cmds. apply run_cmds_exact. Qed.

Theorem run_texts_sound ts cur0 v :
  matches (fold_left cmd ts cur0) v = sel_acc (fold_left (lift acc_step) (map parsed ts) (abs cur0)) v.
Proof. rewrite run_texts_as_cmds. apply run_cmds_sound. Qed.

Theorem run_texts_raw_sound ts b v :
  Forall PlainOpt (map parsed ts) ->
  matches (fold_left cmd ts (MAlways b)) v
  = sel_raw (fold_left (lift raw_step) (map parsed ts) (AConst b)) v.
Proof. intros H. rewrite run_texts_as_cmds. apply run_raw_sound. exact H. Qed.

(* ---- a checker for [PlainCmd], so the side condition can be computed -------------------------------- *)
Definition specificb (x : mt) : bool := match always (simplify x) with None => true | Some _ => false end.
Definition nonlistb (m : mt) : bool := match m with MList _ _ => false | _ => true end.
Definition plain_listsb (a e : list mt) : bool :=
  forallb specificb e &&
  (match a, e with [MAlways true], _ :: _ => true | _, _ => false end
   || (forallb specificb a &&
       match a, e with
       | [], _ => false
       | [x], [] => nonlistb x
       | _, _ => true
       end)).
Definition plain_cmdb (p : mt) : bool :=
  is_reset p || match p with MAlways _ => true | _ => false end
  || plain_listsb (fst (as_list p)) (snd (as_list p)).
Definition plain_optb (o : option mt) : bool := match o with Some p => plain_cmdb p | None => true end.

Lemma specificb_ok l : forallb specificb l = true -> Forall Specific l.
Proof.
  intros H. apply Forall_forall. intros x Hx. rewrite forallb_forall in H. specialize (H x Hx).
  unfold specificb in H. unfold Specific. destruct (always (simplify x)); [discriminate|reflexivity].
Qed.

Lemma plain_listsb_ok a e : plain_listsb a e = true -> PlainLists a e.
Proof.
  unfold plain_listsb. intros H. apply andb_true_iff in H. destruct H as [He H].
  split; [apply specificb_ok; exact He|]. apply orb_true_iff in H. destruct H as [H|H].
  - left. destruct a as [|[[|]| | | | | | | | |] [|]]; try discriminate.
    destruct e; [discriminate|]. split; [reflexivity|discriminate].
  - right. apply andb_true_iff in H. destruct H as [Ha H].
    split; [apply specificb_ok; exact Ha|]. destruct a as [|x a]; [discriminate|].
    split; [discriminate|]. intros z Hz Hnil. injection Hz as -> ->. subst e.
    destruct z; try exact I. discriminate.
Qed.

Lemma plain_cmdb_ok p : plain_cmdb p = true -> PlainCmd p.
Proof.
  unfold plain_cmdb. intros H. apply orb_true_iff in H. destruct H as [H|H].
  - apply orb_true_iff in H. destruct H as [H|H]; [left; exact H|].
    right; left. destruct p; try discriminate. eexists; reflexivity.
  - right; right. apply plain_listsb_ok. exact H.
Qed.

Lemma plain_optb_ok os : forallb plain_optb os = true -> Forall PlainOpt os.
Proof.
  intros H. apply Forall_forall. intros o Ho. rewrite forallb_forall in H. specialize (H o Ho).
  destruct o as [p|]; [apply plain_cmdb_ok; exact H|exact I].
Qed.

(* ---- examples ------------------------------------------------------------------------------------------- *)
Definition T (s : string) : str := s2l s.
Definition msg (ty name : string) : val :=
  VM (mkVmsg (Some (T "A")) (mkVobj 3 (Some 0%N) (Some (T ty))) (T name) [] None).

Definition ex_texts : list str :=
  [T "wl_pointer ! .motion"; T ".commit ! .frame"; T "("; T "! .enter"; T "wl_surface.attach"].

(* non-vacuity: five commands (one does not parse); all are plain, so [run_texts_raw_sound] applies;
   alternatives and exclusions of all four parsed commands are in the state; then `!` resets to
   nothing and the next matcher replaces it *)
Example ex_run :
  forallb plain_optb (map parsed ex_texts) = true
  /\ parsed (T "(") = None
  /\ mshow false (fold_left cmd ex_texts (MAlways true))
     = T "[wl_surface.attach(*), *.commit(*), [wl_pointer.*(*), *.*(*=wl_pointer)] ! *.enter(*), *.frame(*), *.motion(*)]"
  /\ fold_left (lift raw_step) (map parsed ex_texts) (AConst true)
     = match map parsed ex_texts with
       | [Some p1; Some p2; None; Some p3; Some p4] =>
           ALists (fst (as_list p4) ++ fst (as_list p2) ++ fst (as_list p1))
                  (snd (as_list p3) ++ snd (as_list p2) ++ snd (as_list p1))
       | _ => AConst false
       end
  /\ abs (fold_left cmd ex_texts (MAlways true))
     = simp_acc (fold_left (lift raw_step) (map parsed ex_texts) (AConst true))
  /\ map (matches (fold_left cmd ex_texts (MAlways true)))
       [msg "wl_surface" "attach"; msg "wl_surface" "commit"; msg "wl_pointer" "button";
        msg "wl_pointer" "motion"; msg "wl_pointer" "enter"; msg "wl_surface" "frame";
        msg "wl_keyboard" "key"]
     = [true; true; true; false; false; false; false]
  /\ fold_left cmd (ex_texts ++ [T "!"]) (MAlways true) = MAlways false
  /\ mshow false (fold_left cmd (ex_texts ++ [T "!"; T "wl_keyboard"]) (MAlways true))
     = T "[wl_keyboard.*(*), *.*(*=wl_keyboard)]"
  /\ forallb plain_optb (map parsed (ex_texts ++ [T "!"; T "wl_keyboard"])) = true.
Proof. vm_compute. repeat split. Qed.

(* corner 1 (outside PlainCmd): the text `*` is not literally the constant — it parses to two
   patterns that each FOLD to `*`.  Given while exclusions exist, it keeps the exclusions but
   wipes every earlier alternative: after the next specific alternative, `wl_pointer` is gone.
   (A pure-exclusion command `! .frame`, whose `*` is literal, keeps the alternatives.) *)
Definition corner1_texts : list str := [T "wl_pointer ! .motion"; T "*"; T "wl_surface"].
Example raw_reading_corner_star :
  option_map plain_cmdb (parsed (T "*")) = Some false
  /\ mshow false (fold_left cmd [T "wl_pointer ! .motion"; T "*"] (MAlways true)) = T "[ ! *.motion(*)]"
  /\ mshow false (fold_left cmd corner1_texts (MAlways true))
     = T "[wl_surface.*(*), *.*(*=wl_surface) ! *.motion(*)]"
  /\ matches (fold_left cmd corner1_texts (MAlways true)) (msg "wl_pointer" "button") = false
  /\ sel_raw (fold_left (lift raw_step) (map parsed corner1_texts) (AConst true))
       (msg "wl_pointer" "button") = true
  /\ mshow false (fold_left cmd [T "wl_pointer ! .motion"; T "! .frame"; T "wl_surface"] (MAlways true))
     = T "[wl_surface.*(*), *.*(*=wl_surface), [wl_pointer.*(*), *.*(*=wl_pointer)] ! *.frame(*), *.motion(*)]".
Proof. vm_compute. repeat split. Qed.

(* corner 2: the same with an explicit `*` alternative next to new exclusions *)
Definition corner2_texts : list str := [T "wl_pointer"; T "* ! .frame"; T "wl_surface"].
Example raw_reading_corner_star_excl :
  option_map plain_cmdb (parsed (T "* ! .frame")) = Some false
  /\ mshow false (fold_left cmd corner2_texts (MAlways true))
     = T "[wl_surface.*(*), *.*(*=wl_surface) ! *.frame(*)]"
  /\ matches (fold_left cmd corner2_texts (MAlways true)) (msg "wl_pointer" "button") = false
  /\ sel_raw (fold_left (lift raw_step) (map parsed corner2_texts) (AConst true))
       (msg "wl_pointer" "button") = true.
Proof. vm_compute. repeat split. Qed.

(* corner 3: `*` given with no exclusions around folds the whole state to the constant `*`, so the
   next matcher replaces everything (consistent with "given while the current one is `*`") *)
Example raw_reading_corner_star_const :
  fold_left cmd [T "wl_pointer"; T "*"] (MAlways true) = MAlways true
  /\ mshow false (fold_left cmd [T "wl_pointer"; T "*"; T "wl_surface"] (MAlways true))
     = T "[wl_surface.*(*), *.*(*=wl_surface)]".
Proof. vm_compute. repeat split. Qed.

Print Assumptions cmd_step_exact.
Print Assumptions run_cmds_sound.
Print Assumptions good_acc_stable.
Print Assumptions star_alternative_wipes.
Print Assumptions run_raw_exact.
Print Assumptions run_texts_raw_sound.
Print Assumptions raw_run_closed.
Print Assumptions run_texts_sound.
Print Assumptions ex_run.
