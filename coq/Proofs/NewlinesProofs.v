(* NewlinesProofs.v - the lines read do not depend on how the input was cut into reads, line ends
   included (part of C13): the incremental universal-newline translator of Model/Newlines.v, fed any
   pieces, produces exactly what translating the whole text at once produces - a CR LF pair cut by a
   read boundary is ONE line end, a bare CR is a line end - and so does its composition with the
   incremental UTF-8 decoder (what a Python text file with newline=None does to a byte stream). *)
From WD Require Import Base Runner Utf8 Newlines Utf8ProofsA.
From Coq Require Import Lia.
Open Scope N_scope.

(* ---- the equations of translate ------------------------------------------------------------------- *)
Lemma translate_cr_end : translate [13] = [10].
Proof. reflexivity. Qed.

Lemma translate_cr_lf r : translate (13 :: 10 :: r) = 10 :: translate r.
Proof. reflexivity. Qed.

Lemma translate_cr_other d r : d <> 10 -> translate (13 :: d :: r) = 10 :: translate (d :: r).
Proof.
  intros Hd. apply N.eqb_neq in Hd.
  change (translate (13 :: d :: r))
    with (if d =? 10 then 10 :: translate r else 10 :: translate (d :: r)).
  rewrite Hd. reflexivity.
Qed.

Lemma translate_other c r : c <> 13 -> translate (c :: r) = c :: translate r.
Proof. intros Hc. apply N.eqb_neq in Hc. cbn [translate]. rewrite Hc. reflexivity. Qed.

Lemma nfinish_pend st : nfinish st = translate (pend st ++ []).
Proof. destruct st; reflexivity. Qed.

(* ---- the heart: translating a ++ b = what the scanner decides on a, then translating
        (held CR ++ b) ---------------------------------------------------------------------------- *)
Lemma translate_app_nscan a :
  forall b, translate (a ++ b) = fst (nscan a) ++ translate (pend (snd (nscan a)) ++ b).
Proof.
  induction a as [a IH] using list_len_ind. intros b.
  assert (FIN : forall c r, (List.length r < List.length a)%nat ->
            c :: translate (r ++ b)
            = fst (nemit c (nscan r)) ++ translate (pend (snd (nemit c (nscan r))) ++ b)).
  { intros c r Hlen. cbn [nemit fst snd app]. rewrite <- (IH r Hlen b). reflexivity. }
  destruct a as [|c r]; [reflexivity|].
  cbn [nscan translate app].
  destruct (c =? 13) eqn:Ec.
  - destruct r as [|d r'].
    + apply N.eqb_eq in Ec. subst c. reflexivity.
    + cbn [app]. destruct (d =? 10) eqn:Ed.
      * apply FIN. cbn [List.length]. lia.
      * apply (FIN 10 (d :: r')). cbn [List.length]. lia.
  - apply FIN. cbn [List.length]. lia.
Qed.

(* the same for the scanner itself *)
Lemma nscan_app a :
  forall b, nscan (a ++ b)
            = (fst (nscan a) ++ fst (nscan (pend (snd (nscan a)) ++ b)),
               snd (nscan (pend (snd (nscan a)) ++ b))).
Proof.
  induction a as [a IH] using list_len_ind. intros b.
  assert (FIN : forall c r, (List.length r < List.length a)%nat ->
            nemit c (nscan (r ++ b))
            = (fst (nemit c (nscan r)) ++ fst (nscan (pend (snd (nemit c (nscan r))) ++ b)),
               snd (nscan (pend (snd (nemit c (nscan r))) ++ b)))).
  { intros c r Hlen. rewrite (IH r Hlen b). reflexivity. }
  destruct a as [|c r]; [cbn [nscan app fst snd pend]; apply surjective_pairing|].
  cbn [nscan app].
  destruct (c =? 13) eqn:Ec.
  - destruct r as [|d r'].
    + apply N.eqb_eq in Ec. subst c. cbn [app fst snd pend].
      change (nscan (13 :: b))
        with (match b with
              | [] => ([], true)
              | d :: r' => if d =? 10 then nemit 10 (nscan r') else nemit 10 (nscan b)
              end).
      destruct b as [|d r']; [reflexivity|]. apply surjective_pairing.
    + cbn [app]. destruct (d =? 10) eqn:Ed.
      * apply FIN. cbn [List.length]. lia.
      * apply (FIN 10 (d :: r')). cbn [List.length]. lia.
  - apply FIN. cbn [List.length]. lia.
Qed.

(* translating a text = what is decided, then the flush of what is held *)
Lemma translate_nscan s : translate s = fst (nscan s) ++ nfinish (snd (nscan s)).
Proof.
  rewrite nfinish_pend, <- translate_app_nscan, app_nil_r. reflexivity.
Qed.

(* ---- the translator's state ------------------------------------------------------------------------ *)
(* state composition: feeding a ++ b is feeding a, then feeding b to the state reached *)
Theorem nfeed_app st a b :
  nfeed st (a ++ b)
  = (fst (nfeed (fst (nfeed st a)) b), snd (nfeed st a) ++ snd (nfeed (fst (nfeed st a)) b)).
Proof. unfold nfeed. cbn [fst snd]. rewrite app_assoc, nscan_app. reflexivity. Qed.

(* an empty piece changes nothing: a held CR stays held *)
Theorem nfeed_nil st : nfeed st [] = (st, []).
Proof. destruct st; reflexivity. Qed.

(* a CR is held exactly when the last character seen is a CR *)
Lemma nscan_held s : snd (nscan s) = (last s 0 =? 13).
Proof.
  induction s as [s IH] using list_len_ind.
  destruct s as [|c r]; [reflexivity|].
  cbn [nscan]. destruct (c =? 13) eqn:Ec.
  - destruct r as [|d r'].
    + cbn [last snd]. rewrite Ec. reflexivity.
    + destruct (d =? 10) eqn:Ed; cbn [nemit snd].
      * rewrite (IH r') by (cbn [List.length]; lia).
        destruct r' as [|e r'']; [|reflexivity].
        apply N.eqb_eq in Ed. subst d. reflexivity.
      * rewrite (IH (d :: r')) by (cbn [List.length]; lia). reflexivity.
  - cbn [nemit snd]. rewrite (IH r) by (cbn [List.length]; lia).
    destruct r as [|d r']; [|reflexivity].
    cbn [last]. rewrite Ec. reflexivity.
Qed.

Theorem nfeed_held st piece :
  fst (nfeed st piece) = match piece with [] => st | _ => last piece 0 =? 13 end.
Proof.
  unfold nfeed. cbn [fst]. rewrite nscan_held.
  destruct piece as [|c r]; [destruct st; reflexivity|].
  destruct st; reflexivity.
Qed.

(* ---- chunking is irrelevant: text pieces -------------------------------------------------------------- *)
Lemma nfeed_all_spec chunks :
  forall st, nfeed_all st chunks = translate (pend st ++ List.concat chunks).
Proof.
  induction chunks as [|c cs IH]; intros st; cbn [nfeed_all List.concat].
  - apply nfinish_pend.
  - unfold nfeed. cbn [fst snd]. rewrite IH, app_assoc. symmetry. apply translate_app_nscan.
Qed.

(* MAIN 1: whatever the pieces, the incremental translator yields the translation of the whole text *)
Theorem translate_chunks_concat chunks : translate_chunks chunks = translate (List.concat chunks).
Proof. unfold translate_chunks, nstate0. rewrite nfeed_all_spec. reflexivity. Qed.

Theorem translate_chunking_irrelevant c1 c2 :
  List.concat c1 = List.concat c2 -> translate_chunks c1 = translate_chunks c2.
Proof. intros Heq. rewrite !translate_chunks_concat, Heq. reflexivity. Qed.

(* ---- chunking is irrelevant: byte pieces through both decoders ----------------------------------------- *)
Lemma read_last_spec d n : read_last d n = translate (pend n ++ decode_utf8 d).
Proof.
  unfold read_last, nfeed, finish. cbn [fst snd]. symmetry. apply translate_nscan.
Qed.

Lemma read_all_spec bchunks :
  forall d n, read_all d n bchunks = translate (pend n ++ decode_utf8 (d ++ List.concat bchunks)).
Proof.
  induction bchunks as [|c cs IH]; intros d n; cbn [read_all List.concat].
  - rewrite app_nil_r. apply read_last_spec.
  - rewrite IH. unfold feed, nfeed. cbn [fst snd].
    rewrite <- translate_app_nscan, <- app_assoc, <- decode_app_scan, app_assoc. reflexivity.
Qed.

(* MAIN 2: whatever the pieces the bytes arrive in, the text read is the universal-newline translation
   of the decoding of the whole byte string *)
Theorem read_text_chunks_concat bchunks :
  read_text_chunks bchunks = translate (decode_utf8 (List.concat bchunks)).
Proof. unfold read_text_chunks, dstate0, nstate0. rewrite read_all_spec. reflexivity. Qed.

Theorem read_chunking_irrelevant c1 c2 :
  List.concat c1 = List.concat c2 -> read_text_chunks c1 = read_text_chunks c2.
Proof. intros Heq. rewrite !read_text_chunks_concat, Heq. reflexivity. Qed.

(* ... and so are the lines: file (one piece, or pieces of 8192 bytes), pipe and run mode (pieces as
   the program's writes happen to arrive) show the same lines *)
Corollary read_lines_chunking_irrelevant c1 c2 :
  List.concat c1 = List.concat c2 ->
  lines_of (read_text_chunks c1) = lines_of (read_text_chunks c2).
Proof. intros Heq. rewrite (read_chunking_irrelevant c1 c2 Heq). reflexivity. Qed.

(* the two layers can be looked at one after the other *)
Theorem read_text_chunks_layers bchunks :
  read_text_chunks bchunks = translate (decode_chunks bchunks).
Proof. rewrite read_text_chunks_concat, decode_chunks_concat. reflexivity. Qed.

(* read_trace / nfeed_trace (used by the correspondence test) are the same computations *)
Lemma read_trace_total bchunks : forall d n,
  List.concat (map fst (fst (read_trace d n bchunks))) ++ snd (read_trace d n bchunks)
  = read_all d n bchunks.
Proof.
  induction bchunks as [|c cs IH]; intros d n; cbn [read_trace read_all fst snd map List.concat].
  - reflexivity.
  - rewrite <- app_assoc, IH. reflexivity.
Qed.

Lemma nfeed_trace_total chunks : forall st,
  List.concat (map fst (fst (nfeed_trace st chunks))) ++ snd (nfeed_trace st chunks)
  = nfeed_all st chunks.
Proof.
  induction chunks as [|c cs IH]; intros st; cbn [nfeed_trace nfeed_all fst snd map List.concat].
  - reflexivity.
  - rewrite <- app_assoc, IH. reflexivity.
Qed.

(* ---- what the translation is ---------------------------------------------------------------------------- *)
(* no CR is left: every line end the viewer sees is a LF *)
Theorem translate_no_cr s : ~ In 13 (translate s).
Proof.
  induction s as [s IH] using list_len_ind.
  destruct s as [|c r]; [intros []|].
  cbn [translate]. destruct (c =? 13) eqn:Ec.
  - destruct r as [|d r'].
    + intros [H|[]]. discriminate H.
    + destruct (d =? 10); intros [H|H]; try discriminate H.
      * revert H. apply IH. cbn [List.length]. lia.
      * revert H. apply IH. cbn [List.length]. lia.
  - intros [H|H].
    + subst c. rewrite N.eqb_refl in Ec. discriminate Ec.
    + revert H. apply IH. cbn [List.length]. lia.
Qed.

(* a text without CR is untouched *)
Theorem translate_id s : ~ In 13 s -> translate s = s.
Proof.
  induction s as [|c r IH]; intros Hno; [reflexivity|].
  cbn [translate]. destruct (c =? 13) eqn:Ec.
  - apply N.eqb_eq in Ec. subst c. exfalso. apply Hno. left. reflexivity.
  - rewrite IH; [reflexivity|]. intros Hin. apply Hno. right. exact Hin.
Qed.

Theorem translate_idempotent s : translate (translate s) = translate s.
Proof. apply translate_id, translate_no_cr. Qed.

(* in front of a text without CR nothing changes *)
Lemma translate_app_no_cr a b : ~ In 13 a -> translate (a ++ b) = a ++ translate b.
Proof.
  induction a as [|c r IH]; intros Hno; [reflexivity|].
  cbn [app]. rewrite translate_other.
  - rewrite IH; [reflexivity|]. intros Hin. apply Hno. right. exact Hin.
  - intros Hc. apply Hno. left. exact Hc.
Qed.

(* a CR LF pair cut by a read boundary is ONE line end ... *)
Corollary crlf_split_is_one_line_end a b :
  ~ In 13 a -> translate_chunks [a ++ [13]; 10 :: b] = a ++ 10 :: translate b.
Proof.
  intros Hno. rewrite translate_chunks_concat. cbn [List.concat]. rewrite app_nil_r, <- app_assoc.
  rewrite (translate_app_no_cr a _ Hno). reflexivity.
Qed.

(* ... and a CR followed (in the next read, or never) by something else is a line end, too *)
Corollary bare_cr_is_a_line_end a d b :
  ~ In 13 a -> d <> 10 ->
  translate_chunks [a ++ [13]; d :: b] = a ++ 10 :: translate (d :: b).
Proof.
  intros Hno Hd. rewrite translate_chunks_concat. cbn [List.concat]. rewrite app_nil_r, <- app_assoc.
  rewrite (translate_app_no_cr a _ Hno). cbn [app]. rewrite (translate_cr_other d b Hd). reflexivity.
Qed.

Corollary last_cr_is_a_line_end a : ~ In 13 a -> translate_chunks [a ++ [13]] = a ++ [10].
Proof.
  intros Hno. rewrite translate_chunks_concat. cbn [List.concat]. rewrite app_nil_r.
  rewrite (translate_app_no_cr a _ Hno). reflexivity.
Qed.

(* ---- non-vacuity: the cases named in the property ------------------------------------------------------- *)
(* a = 97, b = 98, CR = 13, LF = 10 *)
Example ex_crlf_split_text : translate_chunks [[97; 13]; [10; 98]] = [97; 10; 98].
Proof. vm_compute. reflexivity. Qed.
Example ex_crlf_split_bytes : read_text_chunks [[97; 13]; [10; 98]] = [97; 10; 98].
Proof. vm_compute. reflexivity. Qed.
Example ex_crlf_split_lines :
  lines_of (read_text_chunks [[97; 13]; [10; 98]]) = [[97; 10]; [98]]
  /\ lines_of (read_text_chunks [[97; 13; 10; 98]]) = [[97; 10]; [98]].
Proof. vm_compute. split; reflexivity. Qed.
Example ex_held_cr_state : nfeed nstate0 [97; 13] = (true, [97]) /\ nfeed true [10; 98] = (false, [10; 98]).
Proof. vm_compute. split; reflexivity. Qed.
Example ex_bare_cr_split : read_text_chunks [[97; 13]; [98]] = [97; 10; 98].
Proof. vm_compute. reflexivity. Qed.
Example ex_bare_cr_lines : lines_of (read_text_chunks [[97; 13]; [98]]) = [[97; 10]; [98]].
Proof. vm_compute. reflexivity. Qed.
Example ex_final_lone_cr : read_text_chunks [[97; 13]] = [97; 10] /\ translate_chunks [[97; 13]; []] = [97; 10].
Proof. vm_compute. split; reflexivity. Qed.
Example ex_cr_cr_lf :
  translate [13; 13; 10] = [10; 10]
  /\ read_text_chunks [[13]; [13]; [10]] = [10; 10]
  /\ read_text_chunks [[13; 13]; [10]] = [10; 10]
  /\ read_text_chunks [[13]; [13; 10]] = [10; 10].
Proof. vm_compute. repeat split; reflexivity. Qed.
Example ex_lf_cr : translate [10; 13] = [10; 10] /\ translate [13; 10; 13; 10] = [10; 10].
Proof. vm_compute. split; reflexivity. Qed.
(* e-acute = C3 A9 cut in two, followed by a CR LF pair cut in two *)
Example ex_cr_and_multibyte_split : read_text_chunks [[195]; [169; 13]; [10; 98]] = [233; 10; 98].
Proof. vm_compute. reflexivity. Qed.
(* a CR held by the translator while a lead byte is held by the decoder *)
Example ex_both_pending : read_text_chunks [[97; 13; 195]; [169]] = [97; 10; 233].
Proof. vm_compute. reflexivity. Qed.
Example ex_both_pending_at_end : read_text_chunks [[97; 13; 195]] = [97; 10; 65533].
Proof. vm_compute. reflexivity. Qed.
(* a CR inside a cut-off multi-byte character: the damaged character is replaced, the line end stays one *)
Example ex_cr_inside_multibyte : read_text_chunks [[226; 130]; [13]; [10; 172]] = [65533; 10; 65533].
Proof. vm_compute. reflexivity. Qed.
(* were the pair counted twice, or the held CR dropped, these would differ *)
Example ex_not_trivial :
  translate [97; 13; 10; 98] <> [97; 10; 10; 98] /\ translate [97; 13; 98] <> [97; 98]
  /\ translate [97; 13; 98] <> [97; 13; 98].
Proof. vm_compute. repeat split; discriminate. Qed.

Print Assumptions translate_chunks_concat.
Print Assumptions read_text_chunks_concat.
Print Assumptions read_lines_chunking_irrelevant.
Print Assumptions translate_no_cr.
Print Assumptions translate_id.
Print Assumptions translate_idempotent.
Print Assumptions nfeed_app.
Print Assumptions nfeed_held.
Print Assumptions crlf_split_is_one_line_end.
Print Assumptions bare_cr_is_a_line_end.
