(* C17 lifted to the session, part J: message lines without any hypothesis on the names.
   Type names, message names, argument names and enum labels are printed inside colour sequences
   as they are; whatever characters they contain (ESC included), the coloured line stripped equals
   the plain line stripped, because what follows such a name always starts with a barrier character. *)
From WD Require Import Base Wire Conn Color LetterId Matcher Show.
From WD Require Import LetterIdProofs ColorProofs ShowProofs SessionColorA.
From Coq Require Import Lia.
Open Scope N_scope.

(* the scanner is back in its ground state after [a], whatever follows *)
Definition closed (a : list N) : Prop := forall x : list N, nc (a ++ x) = nc a ++ nc x.
(* equal after stripping when started in the ground state and followed by a barrier *)
Definition LG (a b : list N) : Prop := forall k : list N, bhead k -> nc (a ++ k) = nc (b ++ k).
Definition LGC (a b : list N) : Prop := LG a b /\ closed a /\ closed b.
(* fixed text in a colour: strips to clean text, starts with a barrier on both sides *)
Definition Simple (a b : list N) : Prop := Strips a b /\ bstart a /\ bstart b.

Lemma LG_nc a b : LG a b -> nc a = nc b.
Proof. intros H. specialize (H [] I). rewrite !app_nil_r in H. exact H. Qed.
Lemma LG_refl a : LG a a.
Proof. intros k _. reflexivity. Qed.

Lemma closed_nil : closed [].
Proof. intros x. reflexivity. Qed.
Lemma closed_esc_free a : esc_free a -> closed a.
Proof. intros H x. pose proof (no_color_esc_free a x H) as G. pose proof (no_color_esc_free' a H) as G'. norm. rewrite G, G'. reflexivity. Qed.
Lemma closed_Strips a b : Strips a b -> closed a.
Proof.
  intros [_ H] x. pose proof (H x) as G. pose proof (H []) as G'. norm. rewrite app_nil_r in G'.
  change (nc []) with (@nil N) in G'. rewrite app_nil_r in G'. rewrite G, G'. reflexivity.
Qed.
Lemma closed_app a b : closed a -> closed b -> closed (a ++ b).
Proof. intros Ha Hb x. rewrite <- app_assoc, (Ha (b ++ x)), (Hb x), (Ha b), app_assoc. reflexivity. Qed.
Lemma closed_absorb (a b : list N) : bstart b -> closed b -> closed (a ++ b).
Proof.
  intros Hs Hb x. rewrite <- app_assoc.
  rewrite (nc_split a (b ++ x)) by (apply bhead_app_l; exact Hs).
  rewrite (nc_split a b) by (apply bstart_bhead; exact Hs). rewrite (Hb x), app_assoc. reflexivity.
Qed.

Lemma LGC_refl a : closed a -> LGC a a.
Proof. intros H. split; [apply LG_refl|split; exact H]. Qed.
Lemma LGC_nil : LGC [] [].
Proof. apply LGC_refl, closed_nil. Qed.
Lemma LGC_Strips a b : Strips a b -> LGC a b.
Proof.
  intros H. split; [|split; [apply (closed_Strips a b H)|apply closed_esc_free; apply H]].
  intros k _. apply (TR_of_Strips a b H).
Qed.
Lemma LGC_LG a b : LGC a b -> LG a b.
Proof. intros H. apply H. Qed.

Lemma LG_app_C a b a' b' : LGC a b -> LG a' b' -> LG (a ++ a') (b ++ b').
Proof.
  intros (H & Ca & Cb) H' k Hk. rewrite <- !app_assoc, (Ca (a' ++ k)), (Cb (b' ++ k)), (H' k Hk), (LG_nc a b H). reflexivity.
Qed.
Lemma LG_app_B (a b a' b' : list N) : LG a b -> LG a' b' -> bstart a' -> bstart b' -> LG (a ++ a') (b ++ b').
Proof.
  intros H H' Ba Bb k Hk. rewrite <- !app_assoc. rewrite (H (a' ++ k)) by (apply bhead_app_l; exact Ba).
  rewrite (nc_split b (a' ++ k)) by (apply bhead_app_l; exact Ba).
  rewrite (nc_split b (b' ++ k)) by (apply bhead_app_l; exact Bb). rewrite (H' k Hk). reflexivity.
Qed.
Lemma LGC_app a b a' b' : LGC a b -> LGC a' b' -> LGC (a ++ a') (b ++ b').
Proof.
  intros H H'. split; [apply LG_app_C; [exact H|apply H']|]. destruct H as (_ & Ca & Cb). destruct H' as (_ & Ca' & Cb').
  split; apply closed_app; assumption.
Qed.
Lemma LGC_absorb (x x0 y y0 : list N) : LG x x0 -> LGC y y0 -> bstart y -> bstart y0 -> LGC (x ++ y) (x0 ++ y0).
Proof.
  intros Hx (Hy & Cy & Cy0) By By0. split; [apply LG_app_B; assumption|]. split; apply closed_absorb; assumption.
Qed.
Lemma TR_LGC a b : LGC a b -> TR a b.
Proof. intros (H & Ca & Cb) k. rewrite (Ca k), (Cb k), (LG_nc a b H). reflexivity. Qed.

Lemma Simple_LGC a b : Simple a b -> LGC a b.
Proof. intros H. apply LGC_Strips, H. Qed.
Lemma Simple_color code s : code_ok code -> esc_free s -> bstart s -> Simple (color true code s) (color false code s).
Proof.
  intros Hc Hs Hb. split; [apply Strips_color_plain; assumption|]. rewrite color_off. split; [|exact Hb].
  destruct s as [|x s]; [destruct Hb|]. unfold color. destruct code; reflexivity.
Qed.
Lemma Simple_app a b a' b' : Simple a b -> Strips a' b' -> Simple (a ++ a') (b ++ b').
Proof. intros (H & Ba & Bb) H'. split; [apply Strips_app; assumption|split; apply bstart_app; assumption]. Qed.

(* any text at all inside a colour *)
Lemma LG_color_any code (t : list N) : code_ok code -> LG (color true code t) (color false code t).
Proof.
  intros Hc. rewrite color_off. destruct t as [|x s]; [apply LG_refl|]. intros k Hk.
  assert (R : Strips reset []) by (apply Strips_csi; reflexivity).
  assert (Hend : forall post : list N, Strips post [] -> bhead (post ++ k) -> nc ((x :: s) ++ post ++ k) = nc ((x :: s) ++ k)).
  { intros post [_ Hp] Hb. rewrite (nc_split (x :: s) (post ++ k) Hb), (nc_split (x :: s) k Hk). f_equal. apply (Hp k). }
  unfold color. destruct code as [c|].
  - cbn [code_ok] in Hc. pose proof (no_color_csi c (((x :: s) ++ match c with [] => [] | _ :: _ => reset end) ++ k) Hc) as G.
    norm. rewrite <- !app_assoc in *. rewrite G. destruct c as [|y c].
    + apply (Hend []); [apply Strips_nil|exact Hk].
    + apply (Hend reset R). reflexivity.
  - pose proof (proj2 R (((x :: s) ++ []) ++ k)) as G. norm. rewrite <- !app_assoc in *. cbn [app] in G. exact G.
Qed.

Lemma LG_intercalate (sa sb : list N) (la lb : list (list N)) :
  Simple sa sb -> Forall2 LG la lb -> LG (intercalate sa la) (intercalate sb lb).
Proof.
  intros Hs H. induction H as [|a b la lb Hab Hl IH]; [apply LG_refl|].
  destruct Hl as [|a2 b2 la2 lb2 H2 Hl2]; [exact Hab|]. cbn [intercalate] in *.
  destruct Hs as (Hs & Ba & Bb). apply LG_app_B; [exact Hab| |apply bstart_app; exact Ba|apply bstart_app; exact Bb].
  apply LG_app_C; [apply LGC_Strips; exact Hs|exact IH].
Qed.

(* a separated list followed by a closing symbol: closed as a whole *)
Lemma LGC_intercalate_close (sa sb ca cb : list N) (la lb : list (list N)) :
  Simple sa sb -> Simple ca cb -> Forall2 LG la lb -> LGC (intercalate sa la ++ ca) (intercalate sb lb ++ cb).
Proof.
  intros Hs Hc H. induction H as [|a b la lb Hab Hl IH]; [apply Simple_LGC; exact Hc|].
  destruct Hl as [|a2 b2 la2 lb2 H2 Hl2].
  - cbn [intercalate]. apply LGC_absorb; [exact Hab|apply Simple_LGC; exact Hc|apply Hc|apply Hc].
  - cbn [intercalate] in *. rewrite <- !app_assoc. destruct Hs as (Hs & Ba & Bb).
    apply LGC_absorb; [exact Hab| |apply bstart_app; exact Ba|apply bstart_app; exact Bb].
    apply LGC_app; [apply LGC_Strips; exact Hs|exact IH].
Qed.

(* ---- objects, arguments, messages: no hypothesis ------------------------------------------------------------------ *)
Lemma Forall2_map_same {A B} (R : B -> B -> Prop) (f g : A -> B) l : (forall x, R (f x) (g x)) -> Forall2 R (map f l) (map g l).
Proof. intros H. induction l; cbn [map]; constructor; auto. Qed.

Lemma color_none_on (s : list N) : s <> [] -> color true symbol_color s = reset ++ s.
Proof. destruct s as [|x s]; [congruence|]. intros _. unfold color, symbol_color. rewrite app_nil_r. reflexivity. Qed.

Lemma LGC_obj_parts id gen ty : LGC (show_obj_parts true id gen ty) (show_obj_parts false id gen ty).
Proof.
  unfold show_obj_parts.
  assert (Hid : esc_free (64 :: z_to_dec id)) by (change (64 :: z_to_dec id) with ([64] ++ z_to_dec id); apply esc_free_app; split; [reflexivity|apply z_to_dec_esc_free]).
  assert (Hq : LG (color true bad_color (color true bad_color (s2l "???"))) (color false bad_color (color false bad_color (s2l "???")))).
  { apply LGC_LG, LGC_Strips. apply Strips_color; [reflexivity|]. apply Strips_color_plain; reflexivity. }
  apply LGC_absorb.
  - destruct ty as [[|c t]|]; [exact Hq|apply LG_color_any; reflexivity|exact Hq].
  - destruct gen as [g|].
    + apply Simple_LGC, Simple_color; [reflexivity| |reflexivity].
      change (64 :: z_to_dec id ++ n2l false g) with ((64 :: z_to_dec id) ++ n2l false g). apply esc_free_app. split; [exact Hid|apply n2l_esc_free].
    + apply LGC_app; apply Simple_LGC, Simple_color; try reflexivity. exact Hid.
  - destruct gen; reflexivity.
  - destruct gen; reflexivity.
Qed.

Lemma LGC_ref d r : LGC (show_ref true d r) (show_ref false d r).
Proof.
  destruct r as [id g|id ty]; cbn [show_ref]; [apply LGC_obj_parts|].
  apply LGC_app; [apply Simple_LGC, Simple_color; reflexivity|apply LGC_obj_parts].
Qed.

Lemma LG_int v labels : LG (show_int true v labels) (show_int false v labels).
Proof.
  unfold show_int.
  assert (Hd : LGC (color true int_color (z_to_dec v)) (color false int_color (z_to_dec v))).
  { apply LGC_Strips, Strips_color_plain; [reflexivity|apply z_to_dec_esc_free]. }
  destruct labels as [ls|]; [|apply Hd].
  apply LG_app_C; [exact Hd|]. apply LG_app_C; [apply Simple_LGC, Simple_color; reflexivity|].
  apply LG_intercalate; [apply Simple_color; reflexivity|]. apply Forall2_map_same. intros l. apply LG_color_any. reflexivity.
Qed.

Lemma LG_val d v : LG (show_val true d v) (show_val false d v).
Proof.
  destruct v as [z l|x|s|ty|o n|z|[vs|]|[s|]]; cbn [show_val].
  - apply LG_int.
  - apply LGC_LG, LGC_Strips, Strips_color_plain; [reflexivity|apply dec_to_str_esc_free].
  - apply LGC_LG, LGC_Strips, Strips_color_plain; [reflexivity|apply py_repr_esc_free].
  - apply LG_color_any. reflexivity.
  - destruct n; [|apply LGC_LG, LGC_ref]. apply LG_app_C; [apply Simple_LGC, Simple_color; reflexivity|apply LGC_LG, LGC_ref].
  - apply LGC_LG, LGC_Strips, Strips_color_plain; [reflexivity|]. apply esc_free_app. split; [reflexivity|apply z_to_dec_esc_free].
  - apply LG_app_C; [apply LGC_Strips, Strips_color_plain; reflexivity|]. apply LGC_LG.
    apply LGC_intercalate_close; [apply Simple_color; reflexivity|apply Simple_color; reflexivity|].
    apply Forall2_map_same. intros p. apply LG_int.
  - apply LGC_LG, LGC_Strips, Strips_color_plain; reflexivity.
  - apply LGC_LG, LGC_Strips, Strips_color_plain; [reflexivity|]. apply esc_free_app. split; [reflexivity|apply py_repr_esc_free].
  - apply LGC_LG, LGC_Strips, Strips_color_plain; reflexivity.
Qed.

Lemma LGC_name (n : list N) : LGC (color true symbol_color (n ++ [61])) (color false symbol_color (n ++ [61])).
Proof.
  rewrite color_off, color_none_on by (destruct n; discriminate).
  assert (R : Strips reset []) by (apply Strips_csi; reflexivity).
  assert (C : closed (n ++ [61])) by (apply closed_absorb; [reflexivity|apply closed_esc_free; reflexivity]).
  split; [|split; [apply closed_app; [apply (closed_Strips _ _ R)|exact C]|exact C]].
  intros k _. rewrite <- app_assoc. apply (proj2 R).
Qed.

Lemma LG_arg d a : LG (show_arg true d a) (show_arg false d a).
Proof. unfold show_arg. destruct (a_name a) as [n|]; [|apply LG_val]. apply LG_app_C; [apply LGC_name|apply LG_val]. Qed.

Lemma LGC_body fmt d m : (forall b z, esc_free (fmt b z)) ->
  LGC (line_str fmt (show_msg_body true d m)) (line_str fmt (show_msg_body false d m)).
Proof.
  intros Hfmt. assert (TS : valid_code (s2l "2;37")) by reflexivity.
  unfold show_msg_body. rewrite !line_str_app. apply LGC_app; [|apply LGC_app].
  - unfold line_str. cbn [flat_map seg_str]. rewrite !app_nil_r.
    apply LGC_app; [destruct (m_sent m); [apply Simple_LGC, Simple_color; reflexivity|apply LGC_nil]|].
    apply LGC_app; [apply LGC_ref|].
    apply LGC_absorb; [apply LG_color_any; reflexivity| |reflexivity|reflexivity].
    apply LGC_app; [apply Simple_LGC, Simple_color; reflexivity|].
    apply LGC_intercalate_close; [apply Simple_color; reflexivity|apply Simple_color; reflexivity|].
    apply Forall2_map_same. intros a. apply LG_arg.
  - destruct (m_destroyed m) as [r|]; [|apply LGC_nil].
    rewrite !line_str_app. apply LGC_app.
    + unfold line_str. cbn [flat_map seg_str]. rewrite !app_nil_r.
      apply LGC_app; [apply Simple_LGC, Simple_color; reflexivity|].
      apply LGC_app; [apply LGC_ref|apply Simple_LGC, Simple_color; reflexivity].
    + destruct (lifespan d r) as [l|]; [|apply LGC_nil]. apply LGC_Strips.
      unfold line_str. cbn [flat_map seg_str app]. rewrite !app_nil_r.
      apply Strips_pre; [apply (Strips_csi _ TS)|].
      apply Strips_app; [apply Strips_plain; reflexivity|].
      apply Strips_app; [apply Strips_plain; apply Hfmt|].
      change (115 :: reset) with ([115] ++ reset).
      apply Strips_post; [apply Strips_plain; reflexivity|apply (Strips_csi [48]); reflexivity].
  - unfold line_str. cbn [flat_map seg_str]. rewrite !app_nil_r.
    destruct (m_sent m); [apply LGC_nil|apply Simple_LGC, Simple_color; reflexivity].
Qed.

(* C17 for message lines, every message, every object table, every connection name *)
Theorem show_msg_LGC fmt d cn m : (forall b z, esc_free (fmt b z)) ->
  LGC (line_str fmt (show_msg true d cn m)) (line_str fmt (show_msg false d cn m)).
Proof.
  intros Hfmt. assert (TS : valid_code (s2l "2;37")) by reflexivity.
  unfold show_msg. rewrite !line_str_app. apply LGC_app; [|apply LGC_body; exact Hfmt].
  assert (E1 : forall (pre post c : list N), line_str fmt [Txt pre; Time7 (m_time m); Txt post; Txt (32 :: c ++ s2l ": ")]
                 = (pre ++ fmt true (m_time m) ++ post) ++ (32 :: c) ++ s2l ": ").
  { intros. unfold line_str. cbn [flat_map seg_str]. rewrite app_nil_r, <- !app_assoc. reflexivity. }
  rewrite !E1. apply LGC_app.
  - apply LGC_Strips. change ([] ++ fmt true (m_time m) ++ []) with (fmt true (m_time m) ++ []).
    apply Strips_pre; [apply (Strips_csi _ TS)|].
    apply Strips_app; [apply Strips_plain; apply Hfmt|apply (Strips_csi [48]); reflexivity].
  - apply LGC_refl. apply closed_absorb; [reflexivity|apply closed_esc_free; reflexivity].
Qed.

Corollary show_msg_TR fmt d cn m : (forall b z, esc_free (fmt b z)) ->
  TR (line_str fmt (show_msg true d cn m)) (line_str fmt (show_msg false d cn m)).
Proof. intros H. apply TR_LGC, show_msg_LGC, H. Qed.
Corollary show_msg_body_TR fmt d m : (forall b z, esc_free (fmt b z)) ->
  TR (line_str fmt (show_msg_body true d m)) (line_str fmt (show_msg_body false d m)).
Proof. intros H. apply TR_LGC, LGC_body, H. Qed.
