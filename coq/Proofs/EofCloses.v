(* EofCloses.v — C18 (log mode): at end of input every connection that was opened is reported
   closed.  Log mode = events EMsg / EText / ECmd (and EEof itself); the gdb events and the
   sink-interface events do not maintain Parser.known_connections and are excluded by [log_event]
   (Example [sink_open_survives_eof] shows the exclusion is necessary). *)
From WD Require Import Base Wire Protocol Conn Color LetterId Matcher MatcherParse Show Session.
From WD Require Import ProtocolProofs SessionProofs ConnMgrProofs.
From Coq Require Import Lia Permutation List.
Import ListNotations.
Open Scope Z_scope.

(* ---- vocabulary ---------------------------------------------------------------------------------- *)
(* the update close_conn applies to the connection it found *)
Definition closef (c : connst) : connst :=
  mkConn (c_id c) (c_name c) (c_server c) false (c_title c) (c_app_id c) (c_db c) (c_msgs c).

Definition is_open_id (id : str) (c : connst) : bool := c_open c && str_eqb (c_id c) id.
Definition opens (id : str) (cs : list connst) : list connst := filter (is_open_id id) cs.
Definition close_if (id : str) (c : connst) : connst := if is_open_id id c then closef c else c.

Definition notice (on : bool) (c : connst) : oline := closed_conn_line on (c_server c) (c_name c).

(* identifier and open flag of every connection: all the invariants depend on *)
Definition sig (cs : list connst) : list (str * bool) := map (fun c => (c_id c, c_open c)) cs.

(* list-level invariants *)
Definition known_ok (cs : list connst) (known : list str) : Prop :=
  forall c, In c cs -> c_open c = true -> In (c_id c) known.
Definition uniq_ok (cs : list connst) : Prop :=
  forall id, (List.length (opens id cs) <= 1)%nat.

(* every open connection's identifier is in Parser.known_connections *)
Definition open_known (s : sess) : Prop := known_ok (s_conns s) (s_known s).
(* at most one open connection per identifier *)
Definition open_unique (s : sess) : Prop := uniq_ok (s_conns s).

Definition log_event (e : event) : Prop :=
  match e with
  | EMsg _ _ | EText _ | ECmd _ | EEof => True
  | _ => False
  end.

(* ---- small facts ---------------------------------------------------------------------------------- *)
Lemma closef_closed c : c_open c = false -> closef c = c.
Proof. destruct c as [i n sv o t a d ms]. cbn. intros ->. reflexivity. Qed.

Lemma closef_map_closed cs : Forall (fun c => c_open c = false) (map closef cs).
Proof. induction cs as [|c cs IH]; cbn [map]; constructor; [reflexivity|exact IH]. Qed.

Lemma is_open_id_closef id c : is_open_id id (closef c) = false.
Proof. reflexivity. Qed.

Lemma opens_nil_map id cs : opens id cs = [] -> map (close_if id) cs = cs.
Proof.
  induction cs as [|c cs IH]; intros H; [reflexivity|].
  unfold opens in H. cbn [filter] in H. cbn [map]. unfold close_if at 1.
  destruct (is_open_id id c); [discriminate|]. rewrite IH by exact H. reflexivity.
Qed.

Lemma opens_after_close id cs : opens id (map (close_if id) cs) = [].
Proof.
  induction cs as [|c cs IH]; [reflexivity|]. cbn [map]. unfold opens. cbn [filter].
  unfold close_if at 1. destruct (is_open_id id c) eqn:E.
  - rewrite is_open_id_closef. exact IH.
  - rewrite E. exact IH.
Qed.

Lemma opens_close_le id id' cs :
  (List.length (opens id' (map (close_if id) cs)) <= List.length (opens id' cs))%nat.
Proof.
  induction cs as [|c cs IH]; [apply Nat.le_refl|]. cbn [map]. unfold opens in *. cbn [filter].
  unfold close_if at 1. destruct (is_open_id id c) eqn:E.
  - rewrite is_open_id_closef. destruct (is_open_id id' c); cbn [List.length]; lia.
  - destruct (is_open_id id' c); cbn [List.length]; lia.
Qed.

Lemma opens_sig id cs :
  List.length (opens id cs) = List.length (filter (fun p => snd p && str_eqb (fst p) id) (sig cs)).
Proof.
  induction cs as [|c cs IH]; [reflexivity|]. unfold opens, sig in *. cbn [filter map fst snd].
  unfold is_open_id at 1. destruct (c_open c && str_eqb (c_id c) id); cbn [List.length]; rewrite IH; reflexivity.
Qed.

Lemma uniq_ok_sig cs cs' : sig cs' = sig cs -> uniq_ok cs -> uniq_ok cs'.
Proof. intros E H id. rewrite opens_sig, E, <- opens_sig. apply H. Qed.

Lemma known_ok_sig cs cs' known : sig cs' = sig cs -> known_ok cs known -> known_ok cs' known.
Proof.
  intros E H c Hin Ho.
  assert (X : In (c_id c, c_open c) (sig cs')) by (unfold sig; apply (in_map (fun c => (c_id c, c_open c))); exact Hin).
  rewrite E in X. unfold sig in X. apply in_map_iff in X. destruct X as (c0 & Heq & Hin0).
  injection Heq as Hid Hop. rewrite <- Hid. apply H; [exact Hin0|congruence].
Qed.

Lemma update_nth_sig (c' : connst) l : forall n c,
  nth_error l n = Some c -> c_id c' = c_id c -> c_open c' = c_open c ->
  sig (update_nth n (fun _ => c') l) = sig l.
Proof.
  induction l as [|x l IH]; intros [|n] c Hn Hi Ho; cbn in *; try discriminate.
  - injection Hn as ->. rewrite Hi, Ho. reflexivity.
  - f_equal. exact (IH n c Hn Hi Ho).
Qed.

(* ---- find_open / close_conn under uniqueness -------------------------------------------------------- *)
Lemma find_open_from_unique cs : forall i0 id,
  (List.length (opens id cs) <= 1)%nat ->
  match find_open_from i0 cs id with
  | None => opens id cs = []
  | Some j => exists c, (i0 <= j)%nat /\ nth_error cs (j - i0) = Some c /\ opens id cs = [c] /\
                        update_nth (j - i0) closef cs = map (close_if id) cs
  end.
Proof.
  induction cs as [|c cs IH]; intros i0 id Hle; cbn [find_open_from]; [reflexivity|].
  assert (Hcons : opens id (c :: cs) = if is_open_id id c then c :: opens id cs else opens id cs) by reflexivity.
  assert (Hle' : (List.length (opens id cs) <= 1)%nat).
  { rewrite Hcons in Hle. destruct (is_open_id id c); cbn [List.length] in Hle; lia. }
  specialize (IH (S i0) id Hle').
  destruct (find_open_from (S i0) cs id) as [j|].
  - destruct IH as (c' & Hj & Hn & Ho & Hu).
    assert (Hhd : is_open_id id c = false).
    { destruct (is_open_id id c) eqn:E; [|reflexivity]. rewrite Hcons, Ho in Hle. cbn [List.length] in Hle. lia. }
    exists c'. replace (j - i0)%nat with (S (j - S i0)) by lia. cbn [nth_error update_nth map].
    rewrite Hcons, Hhd. unfold close_if at 1. rewrite Hhd.
    split; [lia|]. split; [exact Hn|]. split; [exact Ho|]. rewrite Hu. reflexivity.
  - fold (is_open_id id c). destruct (is_open_id id c) eqn:E.
    + exists c. rewrite Nat.sub_diag. cbn [nth_error update_nth map]. rewrite Hcons, IH.
      unfold close_if at 1. rewrite E. rewrite (opens_nil_map _ _ IH).
      split; [lia|]. split; [reflexivity|]. split; reflexivity.
    + rewrite Hcons. exact IH.
Qed.

Lemma set_conns_same s : set_conns s (s_conns s) = s.
Proof. destruct s; reflexivity. Qed.

(* with at most one open connection per identifier, close_conn closes every open connection with
   this identifier, and prints one notice for each *)
Lemma close_conn_spec_u s id :
  open_unique s ->
  close_conn s id = (set_conns s (map (close_if id) (s_conns s)),
                     map (notice (s_color s)) (opens id (s_conns s))).
Proof.
  intros Hu. unfold close_conn, find_open.
  pose proof (find_open_from_unique (s_conns s) 0 id (Hu id)) as H.
  destruct (find_open_from 0 (s_conns s) id) as [j|].
  - destruct H as (c & _ & Hn & Ho & Hup). rewrite Nat.sub_0_r in Hn, Hup. rewrite Hn.
    change (fun c0 : connst => mkConn (c_id c0) (c_name c0) (c_server c0) false (c_title c0) (c_app_id c0) (c_db c0) (c_msgs c0)) with closef.
    rewrite Hup, Ho. reflexivity.
  - rewrite H, (opens_nil_map _ _ H), set_conns_same. reflexivity.
Qed.

Lemma close_conn_fields s id :
  let s' := fst (close_conn s id) in
  s_known s' = s_known s /\ s_color s' = s_color s /\ s_next s' = s_next s /\ s_parse s' = s_parse s.
Proof.
  unfold close_conn. destruct (find_open s id) as [i|]; [|repeat split].
  destruct (nth_error (s_conns s) i); repeat split.
Qed.

Lemma uniq_ok_close id cs : uniq_ok cs -> uniq_ok (map (close_if id) cs).
Proof. intros H id'. eapply Nat.le_trans; [apply opens_close_le|apply H]. Qed.

Lemma known_ok_close id cs known : known_ok cs known -> known_ok (map (close_if id) cs) known.
Proof.
  intros H c Hin Ho. apply in_map_iff in Hin. destruct Hin as (c0 & <- & Hin0).
  unfold close_if in *. destruct (is_open_id id c0); [discriminate|]. apply H; assumption.
Qed.

Lemma close_conn_unique s id : open_unique s -> open_unique (fst (close_conn s id)).
Proof. intros H. rewrite (close_conn_spec_u s id H). cbn [fst set_conns]. unfold open_unique. cbn [s_conns]. apply uniq_ok_close. exact H. Qed.

Lemma close_conn_known s id : open_unique s -> open_known s -> open_known (fst (close_conn s id)).
Proof.
  intros Hu H. rewrite (close_conn_spec_u s id Hu). cbn [fst set_conns]. unfold open_known. cbn [s_conns s_known].
  apply known_ok_close. exact H.
Qed.

(* ---- open_conn ---------------------------------------------------------------------------------------- *)
Lemma open_conn_spec_u s id sv :
  open_unique s ->
  s_conns (fst (open_conn s id sv)) =
    map (close_if id) (s_conns s) ++ [mkConn id (conn_name (s_next s)) sv true None None db_init []] /\
  s_known (fst (open_conn s id sv)) = s_known s.
Proof.
  intros Hu. destruct (open_conn_spec s id sv) as (Hc & _). rewrite Hc.
  rewrite (close_conn_spec_u s id Hu). cbn [fst set_conns s_conns]. split; [reflexivity|].
  unfold open_conn. pose proof (close_conn_fields s id) as F. destruct (close_conn s id) as [s1 o1].
  cbn [fst s_known] in *. apply F.
Qed.

Lemma opens_app id a b : opens id (a ++ b) = opens id a ++ opens id b.
Proof. apply filter_app. Qed.

Lemma uniq_ok_open id cs c :
  c_id c = id -> uniq_ok cs -> uniq_ok (map (close_if id) cs ++ [c]).
Proof.
  intros Hid H id'. rewrite opens_app, app_length.
  destruct (str_eqb id id') eqn:E.
  - apply str_eqb_eq in E. subst id'. rewrite opens_after_close. unfold opens. cbn [filter List.length].
    destruct (is_open_id id c); cbn [List.length]; lia.
  - assert (X : opens id' [c] = []).
    { unfold opens. cbn [filter]. unfold is_open_id. rewrite Hid, E, andb_false_r. reflexivity. }
    rewrite X. cbn [List.length]. pose proof (opens_close_le id id' cs). specialize (H id'). lia.
Qed.

Lemma known_ok_open id cs known c :
  c_id c = id -> known_ok cs known -> known_ok (map (close_if id) cs ++ [c]) (known ++ [id]).
Proof.
  intros Hid H c' Hin Ho. apply in_or_app. apply in_app_or in Hin. destruct Hin as [Hin|[<-|[]]].
  - left. exact (known_ok_close id cs known H c' Hin Ho).
  - right. left. symmetry. exact Hid.
Qed.

Lemma open_conn_unique s id sv : open_unique s -> open_unique (fst (open_conn s id sv)).
Proof.
  intros H. destruct (open_conn_spec_u s id sv H) as [Hc _]. unfold open_unique. rewrite Hc.
  apply uniq_ok_open; [reflexivity|exact H].
Qed.

(* ---- conn_message: identifiers, open flags and known identifiers are untouched ------------------------- *)
Section WithP.
Variable P : pdb.

Lemma title_update_sig c m : c_id (title_update c m) = c_id c /\ c_open (title_update c m) = c_open c.
Proof.
  unfold title_update.
  repeat match goal with
         | |- context [if ?b then _ else _] => destruct b
         | |- context [match ?x with _ => _ end] => destruct x
         end; split; reflexivity.
Qed.

Lemma conn_message_sig s id rel m :
  let s' := fst (fst (fst (conn_message P s id rel m))) in
  sig (s_conns s') = sig (s_conns s) /\ s_known s' = s_known s.
Proof.
  unfold conn_message. destruct (find_open s id) as [i|]; [|split; reflexivity].
  destruct (nth_error (s_conns s) i) as [c|] eqn:En; [|split; reflexivity].
  destruct (resolve_msg P (c_db c) rel m) as [[d' rm] err].
  destruct err as [e|].
  - cbn [fst set_conns s_conns s_known]. split; [|reflexivity].
    eapply update_nth_sig; [exact En|reflexivity|reflexivity].
  - destruct (ctrl_on_message _ _ _ _ _ _) as [[k' outs] stop]. cbn [fst].
    assert (G : forall sX, s_conns (if stop then set_pause sX true (s_quit sX) else sX) = s_conns sX /\
                           s_known (if stop then set_pause sX true (s_quit sX) else sX) = s_known sX)
      by (intros; destruct stop; split; reflexivity).
    destruct (G (set_ctrl (set_conns s (update_nth i (fun _ => title_update
              (mkConn (c_id c) (c_name c) (c_server c) (c_open c) (c_title c) (c_app_id c) d' (c_msgs c ++ [rm])) rm) (s_conns s))) k')) as [G1 G2].
    rewrite G1, G2. cbn [set_ctrl set_conns s_conns s_known]. split; [|reflexivity].
    destruct (title_update_sig (mkConn (c_id c) (c_name c) (c_server c) (c_open c) (c_title c) (c_app_id c) d' (c_msgs c ++ [rm])) rm) as [T1 T2].
    eapply update_nth_sig; [exact En|exact T1|exact T2].
Qed.

Lemma conn_message_unique s id rel m :
  open_unique s -> open_unique (fst (fst (fst (conn_message P s id rel m)))).
Proof. intros H. destruct (conn_message_sig s id rel m) as [E _]. eapply uniq_ok_sig; [exact E|exact H]. Qed.

Lemma conn_message_known s id rel m :
  open_known s -> open_known (fst (fst (fst (conn_message P s id rel m)))).
Proof.
  intros H. destruct (conn_message_sig s id rel m) as [E K]. unfold open_known. rewrite K.
  eapply known_ok_sig; [exact E|exact H].
Qed.

(* ---- log_message ------------------------------------------------------------------------------------------ *)
Definition inv (s : sess) : Prop := open_known s /\ open_unique s.

Lemma inv_same s s' : s_conns s' = s_conns s -> s_known s' = s_known s -> inv s -> inv s'.
Proof. unfold inv, open_known, open_unique. intros -> ->. exact (fun H => H). Qed.

Lemma conn_message_inv s id rel m : inv s -> inv (fst (fst (fst (conn_message P s id rel m)))).
Proof. intros [A B]. split; [apply conn_message_known; exact A|apply conn_message_unique; exact B]. Qed.

Lemma log_message_inv s id rel m : inv s -> inv (fst (log_message P s id rel m)).
Proof.
  intros H. unfold log_message. destruct (negb (s_parse s)); [exact H|].
  set (s1 := mkSess _ _ _ _ rel _ _ _ _ _ _ _).
  assert (H1 : inv s1) by exact H.
  destruct (existsb (str_eqb id) (s_known s1)).
  - pose proof (conn_message_inv s1 id rel m H1) as G.
    destruct (conn_message P s1 id rel m) as [[[s3 o2] err] st]. cbn [fst] in G.
    destruct err as [[[] msg]|]; cbn [fst]; exact G.
  - destruct H1 as [K1 U1].
    destruct (open_conn_spec_u s1 id (is_get_registry m) U1) as [Hc Hk].
    destruct (open_conn s1 id (is_get_registry m)) as [sa oa]. cbn [fst] in Hc, Hk.
    set (s2 := mkSess _ _ _ (s_known sa ++ [id]) _ _ _ _ _ _ _ _).
    assert (H2 : inv s2).
    { unfold inv, open_known, open_unique, s2. cbn [s_conns s_known]. rewrite Hc, Hk. split.
      - apply known_ok_open; [reflexivity|exact K1].
      - apply uniq_ok_open; [reflexivity|exact U1]. }
    pose proof (conn_message_inv s2 id rel m H2) as G.
    destruct (conn_message P s2 id rel m) as [[[s3 o2] err] st]. cbn [fst] in G.
    destruct err as [[[] msg]|]; cbn [fst]; exact G.
Qed.

(* ---- end of input -------------------------------------------------------------------------------------------- *)
Definition eof_fold (ids : list str) (acc : sess * list oline) : sess * list oline :=
  fold_left (fun acc id => let '(s1, o1) := close_conn (fst acc) id in (s1, snd acc ++ o1)) ids acc.

Definition open_in (ids : list str) (c : connst) : bool := c_open c && existsb (str_eqb (c_id c)) ids.
Definition close_in (ids : list str) (c : connst) : connst := if open_in ids c then closef c else c.

Lemma close_in_step id ids c : close_in ids (close_if id c) = close_in (id :: ids) c.
Proof.
  unfold close_in, close_if, open_in, is_open_id. cbn [existsb].
  destruct (c_open c) eqn:Eo; cbn [andb].
  - destruct (str_eqb (c_id c) id) eqn:Ei; cbn [orb andb].
    + reflexivity.
    + rewrite Eo. cbn [andb]. reflexivity.
  - rewrite Eo. cbn [andb]. reflexivity.
Qed.

Lemma open_in_cons id ids c : open_in (id :: ids) c = is_open_id id c || open_in ids c.
Proof. unfold open_in, is_open_id. cbn [existsb]. apply andb_orb_distrib_r. Qed.

Lemma open_in_close_if id ids c : open_in ids (close_if id c) = negb (is_open_id id c) && open_in ids c.
Proof. unfold close_if. destruct (is_open_id id c); reflexivity. Qed.

Lemma notice_perm_step on id ids cs :
  Permutation (map (notice on) (opens id cs) ++ map (notice on) (filter (open_in ids) (map (close_if id) cs)))
              (map (notice on) (filter (open_in (id :: ids)) cs)).
Proof.
  induction cs as [|c cs IH]; [constructor|].
  unfold opens in *. cbn [filter map]. rewrite open_in_cons, open_in_close_if.
  destruct (is_open_id id c) eqn:E1; cbn [negb andb orb map app].
  - apply perm_skip. exact IH.
  - assert (Ec : close_if id c = c) by (unfold close_if; rewrite E1; reflexivity). rewrite Ec.
    destruct (open_in ids c); cbn [map].
    + eapply perm_trans; [apply Permutation_sym, Permutation_middle|]. apply perm_skip. exact IH.
    + exact IH.
Qed.

Lemma eof_fold_spec ids : forall s o,
  open_unique s ->
  let r := eof_fold ids (s, o) in
  fst r = set_conns s (map (close_in ids) (s_conns s)) /\
  exists o', snd r = o ++ o' /\
             Permutation o' (map (notice (s_color s)) (filter (open_in ids) (s_conns s))).
Proof.
  induction ids as [|id ids IH]; intros s o Hu; cbn zeta.
  - cbn [eof_fold fold_left fst snd]. split.
    + assert (E : map (close_in []) (s_conns s) = s_conns s).
      { clear. induction (s_conns s) as [|c cs IHc]; [reflexivity|]. cbn [map]. rewrite IHc.
        unfold close_in, open_in. cbn [existsb]. rewrite andb_false_r. reflexivity. }
      rewrite E, set_conns_same. reflexivity.
    + exists []. split; [symmetry; apply app_nil_r|].
      assert (E : filter (open_in []) (s_conns s) = []).
      { clear. induction (s_conns s) as [|c cs IHc]; [reflexivity|]. cbn [filter].
        unfold open_in at 1. cbn [existsb]. rewrite andb_false_r. exact IHc. }
      rewrite E. constructor.
  - unfold eof_fold. cbn [fold_left fst snd]. rewrite (close_conn_spec_u s id Hu).
    set (s1 := set_conns s (map (close_if id) (s_conns s))).
    assert (Hu1 : open_unique s1) by (unfold open_unique, s1; cbn [set_conns s_conns]; apply uniq_ok_close; exact Hu).
    destruct (IH s1 (o ++ map (notice (s_color s)) (opens id (s_conns s))) Hu1) as [A (o' & B & C)].
    unfold eof_fold in A, B. split.
    + rewrite A. unfold s1, set_conns. cbn [s_conns s_next s_ctrl s_known s_last_time s_parse s_paused s_quit s_gdb s_color s_unprocessed s_in_gdb].
      rewrite map_map. f_equal. apply map_ext. intros c. apply close_in_step.
    + exists (map (notice (s_color s)) (opens id (s_conns s)) ++ o'). split.
      * rewrite B, <- app_assoc. reflexivity.
      * eapply perm_trans; [apply Permutation_app_head; exact C|].
        unfold s1. cbn [set_conns s_conns s_color]. apply notice_perm_step.
Qed.

Lemma log_eof_fold s : log_eof s = eof_fold (s_known s) (s, []).
Proof. reflexivity. Qed.

Lemma in_existsb id ids : In id ids -> existsb (str_eqb id) ids = true.
Proof. intros H. apply existsb_exists. exists id. split; [exact H|apply str_eqb_refl]. Qed.

(* Main lemma on end of input.  Under the two invariants:
   - the new connection list is the old one with every connection marked closed, nothing else changes;
   - the notices printed are, as a multiset, exactly one `Closed ... connection <name>` per connection
     that was open. *)
Theorem eof_closes_exact s :
  open_known s -> open_unique s ->
  fst (log_eof s) = set_conns s (map closef (s_conns s)) /\
  Permutation (snd (log_eof s)) (map (notice (s_color s)) (filter c_open (s_conns s))).
Proof.
  intros Hk Hu. rewrite log_eof_fold.
  destruct (eof_fold_spec (s_known s) s [] Hu) as [A (o' & B & C)]. cbn zeta in *.
  assert (Hin : forall c, In c (s_conns s) -> open_in (s_known s) c = c_open c).
  { intros c Hc. unfold open_in. destruct (c_open c) eqn:Eo; [|reflexivity]. cbn [andb].
    apply in_existsb. apply Hk; assumption. }
  split.
  - rewrite A. f_equal. apply map_ext_in. intros c Hc. unfold close_in. rewrite (Hin c Hc).
    destruct (c_open c) eqn:Eo; [reflexivity|]. symmetry. apply closef_closed. exact Eo.
  - rewrite B. cbn [app]. eapply perm_trans; [exact C|].
    rewrite (filter_ext_in _ _ _ Hin). apply Permutation_refl.
Qed.

(* the form asked for: no connection left open, one notice per previously open connection *)
Theorem eof_closes_all s :
  open_known s -> open_unique s ->
  let (s', o) := log_eof s in
  Forall (fun c => c_open c = false) (s_conns s') /\
  List.length o = List.length (filter c_open (s_conns s)) /\
  Permutation o (map (fun c => closed_conn_line (s_color s) (c_server c) (c_name c)) (filter c_open (s_conns s))).
Proof.
  intros Hk Hu. destruct (eof_closes_exact s Hk Hu) as [A B].
  destruct (log_eof s) as [s' o]. cbn [fst snd] in A, B. subst s'. cbn [set_conns s_conns].
  split; [apply closef_map_closed|]. split; [|exact B].
  rewrite (Permutation_length B). apply map_length.
Qed.

Lemma log_eof_inv s : inv s -> inv (fst (log_eof s)).
Proof.
  intros [Hk Hu]. destruct (eof_closes_exact s Hk Hu) as [A _]. rewrite A.
  unfold inv, open_known, open_unique. cbn [set_conns s_conns s_known]. split.
  - intros c Hin Ho. apply in_map_iff in Hin. destruct Hin as (c0 & <- & _). discriminate.
  - intros id. assert (E : opens id (map closef (s_conns s)) = []).
    { clear. induction (s_conns s) as [|c cs IHc]; [reflexivity|]. cbn [map]. unfold opens. cbn [filter].
      rewrite is_open_id_closef. exact IHc. }
    rewrite E. cbn [List.length]. lia.
Qed.

(* ---- steps and runs ---------------------------------------------------------------------------------------------- *)
Lemma inv_init d st c u g : inv (init_sess d st c u g).
Proof.
  split.
  - intros x [].
  - intros id. cbn. lia.
Qed.

Lemma record_inv s s' : record_of s' = record_of s -> inv s -> inv s'.
Proof. unfold record_of. intros E. injection E as E1 _ _ E4 _. apply inv_same; assumption. Qed.

(* events covered: EMsg, EText, ECmd, EEof *)
Theorem step_inv T e : log_event e -> inv (t_sess T) -> inv (t_sess (fst (step P T e))).
Proof.
  intros Hl H. destruct T as [b s]. cbn [t_sess] in H.
  destruct e as [id m|t|cm| |id th m|id|cm|id sv|id|id m]; try contradiction; unfold step; cbn [t_base t_sess].
  - destruct (rel_time b (p_time m)) as [b' rel].
    pose proof (log_message_inv s id rel m H) as G. destruct (log_message P s id rel m). exact G.
  - exact H.
  - cbn [fst t_sess]. eapply record_inv; [apply process_command_record|exact H].
  - cbn [fst t_sess]. apply log_eof_inv. exact H.
Qed.

Theorem run_inv evs : forall T,
  Forall log_event evs -> inv (t_sess T) -> inv (t_sess (fst (run P T evs))).
Proof.
  induction evs as [|e evs IH]; intros T Hl H; cbn [run]; [exact H|].
  inversion Hl as [|? ? He Hes]; subst.
  pose proof (step_inv T e He H) as G. destruct (step P T e) as [T1 o]. cbn [fst] in G.
  specialize (IH T1 Hes G). destruct (run P T1 evs). exact IH.
Qed.

(* bonus: uniqueness of the open connection per identifier holds for EVERY event (gdb and sink too) *)
Lemma step_unique T e : open_unique (t_sess T) -> open_unique (t_sess (fst (step P T e))).
Proof.
  intros H. destruct T as [b s]. cbn [t_sess] in H.
  assert (R : forall s1 s2, record_of s2 = record_of s1 -> open_unique s1 -> open_unique s2).
  { unfold record_of, open_unique. intros s1 s2 E. injection E as -> _ _ _ _. exact (fun X => X). }
  destruct e as [id m|t|cm| |id th m|id|cm|id sv|id|id m]; unfold step; cbn [t_base t_sess].
  - destruct (rel_time b (p_time m)) as [b' rel]. unfold log_message.
    destruct (negb (s_parse s)); [exact H|].
    set (s1 := mkSess _ _ _ _ rel _ _ _ _ _ _ _). assert (H1 : open_unique s1) by exact H.
    destruct (existsb (str_eqb id) (s_known s1)).
    + pose proof (conn_message_unique s1 id rel m H1) as G.
      destruct (conn_message P s1 id rel m) as [[[s3 o2] err] st]. cbn [fst] in G.
      destruct err as [[[] msg]|]; cbn [fst t_sess]; exact G.
    + pose proof (open_conn_unique s1 id (is_get_registry m) H1) as G0.
      destruct (open_conn s1 id (is_get_registry m)) as [sa oa]. cbn [fst] in G0.
      set (s2 := mkSess _ _ _ (s_known sa ++ [id]) _ _ _ _ _ _ _ _). assert (H2 : open_unique s2) by exact G0.
      pose proof (conn_message_unique s2 id rel m H2) as G.
      destruct (conn_message P s2 id rel m) as [[[s3 o2] err] st]. cbn [fst] in G.
      destruct err as [[[] msg]|]; cbn [fst t_sess]; exact G.
  - exact H.
  - cbn [fst t_sess]. eapply R; [apply process_command_record|exact H].
  - cbn [fst t_sess]. rewrite log_eof_fold.
    destruct (eof_fold_spec (s_known s) s [] H) as [A _]. cbn zeta in A. rewrite A.
    unfold open_unique. cbn [set_conns s_conns]. intros id.
    eapply Nat.le_trans; [|apply (H id)].
    clear. induction (s_conns s) as [|c cs IHc]; [apply Nat.le_refl|]. cbn [map]. unfold opens in *. cbn [filter].
    unfold close_in at 1. destruct (open_in (s_known s) c).
    + rewrite is_open_id_closef. destruct (is_open_id id c); cbn [List.length]; lia.
    + destruct (is_open_id id c); cbn [List.length]; lia.
  - destruct (rel_time b (p_time m)) as [b' rel]. unfold gdb_message.
    set (s1 := set_pause s false (s_quit s)). assert (H1 : open_unique s1) by exact H.
    destruct (gdb_get (s_gdb s1) id).
    + pose proof (conn_message_unique s1 id rel m H1) as G.
      destruct (conn_message P s1 id rel m) as [[[s3 o2] err] st]. cbn [fst] in G. destruct err as [[e msg]|]; exact G.
    + pose proof (open_conn_unique s1 id (is_get_registry m) H1) as G0.
      destruct (open_conn s1 id (is_get_registry m)) as [sa oa]. cbn [fst] in G0.
      set (s2 := set_gdb sa _). assert (H2 : open_unique s2) by exact G0.
      pose proof (conn_message_unique s2 id rel m H2) as G.
      destruct (conn_message P s2 id rel m) as [[[s3 o2] err] st]. cbn [fst] in G. destruct err as [[e msg]|]; exact G.
  - cbn [fst t_sess]. unfold gdb_destroy.
    assert (H1 : open_unique (set_gdb s (gdb_del (s_gdb s) id))) by exact H.
    pose proof (close_conn_unique _ id H1) as G. destruct (close_conn _ id). exact G.
  - cbn [fst t_sess]. unfold gdb_command.
    pose proof (process_command_record command_fuel (set_pause s true (s_quit s)) cm) as G.
    destruct (process_command command_fuel _ cm) as [s1 o]. cbn [fst] in *.
    eapply R; [exact G|exact H].
  - destruct id as [|c0 id]; [exact H|]. cbn [fst t_sess]. apply open_conn_unique. exact H.
  - cbn [fst t_sess]. apply close_conn_unique. exact H.
  - destruct (rel_time b (p_time m)) as [b' rel].
    pose proof (conn_message_unique s id rel m H) as G.
    destruct (conn_message P s id rel m) as [[[s1 o] err] st]. exact G.
Qed.

(* ---- the property ------------------------------------------------------------------------------------------------ *)
(* Any log-mode input followed by end of input: no connection is left open; the connection list is
   the one reached before end of input with every connection marked closed; and end of input prints,
   as a multiset, exactly one `Closed ... connection` notice for each connection that was open. *)
Theorem run_then_eof_exact evs d st c u g :
  Forall log_event evs ->
  let T0 := mkTop None (init_sess d st c u g) in
  let T1 := fst (run P T0 evs) in
  let r := run P T0 (evs ++ [EEof]) in
  s_conns (t_sess (fst r)) = map closef (s_conns (t_sess T1)) /\
  Forall (fun x => c_open x = false) (s_conns (t_sess (fst r))) /\
  exists o, snd r = snd (run P T0 evs) ++ [o] /\
            Permutation o (map (notice (s_color (t_sess T1))) (filter c_open (s_conns (t_sess T1)))).
Proof.
  intros Hl T0 T1 r.
  pose proof (run_inv evs T0 Hl (inv_init d st c u g)) as [Hk Hu]. fold T1 in Hk, Hu.
  destruct (eof_closes_exact (t_sess T1) Hk Hu) as [A B].
  assert (E : r = (mkTop (t_base T1) (fst (log_eof (t_sess T1))), snd (run P T0 evs) ++ [snd (log_eof (t_sess T1))])).
  { unfold r. rewrite run_app. unfold T1. destruct (run P T0 evs) as [Ta oa]. cbn [fst snd run].
    unfold step. cbn [fst snd]. reflexivity. }
  rewrite E. cbn [fst snd t_sess]. rewrite A. cbn [set_conns s_conns].
  split; [reflexivity|]. split; [apply closef_map_closed|].
  exists (snd (log_eof (t_sess T1))). split; [reflexivity|exact B].
Qed.

Theorem run_then_eof evs d st c u g :
  Forall log_event evs ->
  Forall (fun x => c_open x = false)
         (s_conns (t_sess (fst (run P (mkTop None (init_sess d st c u g)) (evs ++ [EEof]))))).
Proof. intros Hl. destruct (run_then_eof_exact evs d st c u g Hl) as (_ & H & _). exact H. Qed.

End WithP.

(* ---- non-vacuity ---------------------------------------------------------------------------------------------------- *)
Definition gr' (t : Z) : pmsg :=
  mkPmsg t (Some (s2l "wl_display")) 1 true (s2l "get_registry") [PObj 2 (Some (s2l "wl_registry")) true].
Definition T0' : top := mkTop None (init_sess (MAlways true) (MAlways false) false true false).
Definition evs' : list event :=
  [EMsg (s2l "x") (gr' 0); EText (s2l "noise"); EMsg (s2l "y") (gr' 5); EMsg (s2l "x") (gr' 7)].

Example evs'_log : Forall log_event evs'.
Proof. repeat constructor. Qed.

(* two identifiers, the first used again later: two connections, both open before end of input ... *)
Example eof_ex_before :
  map (fun c => (c_id c, c_name c, c_open c)) (s_conns (t_sess (fst (run [] T0' evs')))) =
  [(s2l "x", s2l "A", true); (s2l "y", s2l "B", true)].
Proof. vm_compute. reflexivity. Qed.

(* ... both closed afterwards, with exactly one notice each *)
Example eof_ex_after :
  let r := run [] T0' (evs' ++ [EEof]) in
  map (fun c => (c_id c, c_name c, c_open c)) (s_conns (t_sess (fst r))) =
    [(s2l "x", s2l "A", false); (s2l "y", s2l "B", false)] /\
  last (snd r) [] = [closed_conn_line false (Some false) (s2l "A"); closed_conn_line false (Some false) (s2l "B")].
Proof. vm_compute. split; reflexivity. Qed.

(* the side condition [log_event] is necessary: a connection opened through the sink interface (or by
   the gdb plugin) is not in Parser.known_connections, and end of input leaves it open *)
Example sink_open_survives_eof :
  map c_open (s_conns (t_sess (fst (run [] T0' [EOpen (s2l "z") None; EEof])))) = [true].
Proof. vm_compute. reflexivity. Qed.

Example gdb_open_survives_eof :
  map c_open (s_conns (t_sess (fst (run [] T0' [EGdbMsg (s2l "z") 1 (gr' 0); EEof])))) = [true].
Proof. vm_compute. reflexivity. Qed.

Print Assumptions run_then_eof_exact.
Print Assumptions run_then_eof.
Print Assumptions eof_closes_all.
Print Assumptions step_unique.
