(* HistorySpecC.v — the NAIVE reading of "creation" and the well-formedness condition under which
   it is the right one.

   HistorySpecA counts ACCEPTED creations (a typed new-id for an id that is still alive and not in
   the server range is skipped by the tool).  The property text says "the number of creations of
   that id that precede it": read naively, every typed new-id argument the walk reaches is a
   creation.  [ntrace] is the trace under that naive reading (same order of events, same rules for
   delete_id, wl_registry.bind and protocol-lookup failures; no acceptance test at all, not even
   1 < id).

   [wf_hist P h] is a boolean computed from the naive trace alone (no table): every naive creation
   event is acceptable at its point, i.e. 1 < id and (id not alive — by event order — or id in the
   server range).

     wf_trace            wf_hist P h = true  ->  trace P h = ntrace P h
     attrib_refines_wf   under wf_hist, message k of the model agrees with the naive
                         specification: incarnation = (number of typed new-id arguments for the id
                         reached before the mention) - 1
   HistorySpecD.v shows by example that the hypothesis is needed. *)
From WD Require Import Base Wire Protocol Conn ConnProofs HistorySpecA HistorySpecB.
From Coq Require Import Lia ZifyBool ZifyNat ZifyN.
Open Scope Z_scope.

Section Gen.
Variable P : pdb.
Variable acc : list ev -> Z -> bool.     (* is a typed new-id for id a creation at this point *)

Definition g_arg_events (tr : list ev) (a : parg) : list ev :=
  match a with
  | PObj id (Some t) true => if acc tr id then [ECre id t] else []
  | _ => []
  end.

Fixpoint g_spec_args (tr : list ev) (tty : option str) (mn : str) (idx : nat) (args : list parg)
  : list ev * list (option oref) :=
  match args with
  | [] => ([], [])
  | a :: rest =>
      if lookups_ok P tty mn idx a then
        let evs := g_arg_events tr a in
        let '(evs2, refs) := g_spec_args (tr ++ evs) tty mn (S idx) rest in
        (evs ++ evs2, arg_ref (tr ++ evs) a :: refs)
      else ([], map unres_ref args)
  end.

Definition g_spec_msg (tr : list ev) (m : pmsg) : mspec :=
  let target := spec_ref tr (p_id m) (p_type m) in
  let aborted := mkMspec [] target (map unres_ref (p_args m)) None in
  match spec_eff_args tr m with
  | Raise _ _ => aborted
  | Ok args =>
      if on_display tr m && (str_eqb (p_name m) (s2l "delete_id")
                             && negb (match args with [] => true | _ => false end)) then
        match args with
        | PInt v :: _ =>
            if (ncre tr v =? 0)%nat then aborted
            else
              let '(evs, refs) := g_spec_args (tr ++ [EDel v]) (spec_tty tr m) (p_name m) 0 args in
              mkMspec (EDel v :: evs) target refs (Some (Resolved v (N.of_nat (ncre tr v - 1))))
        | _ => aborted
        end
      else
        let '(evs, refs) := g_spec_args tr (spec_tty tr m) (p_name m) 0 args in
        mkMspec evs target refs None
  end.

(* the events a history adds after tr *)
Fixpoint g_events_from (tr : list ev) (h : list (Z * pmsg)) : list ev :=
  match h with
  | [] => []
  | (_, m) :: h' =>
      let evs := ms_events (g_spec_msg tr m) in evs ++ g_events_from (tr ++ evs) h'
  end.

Lemma g_events_from_app h1 : forall tr h2,
  g_events_from tr (h1 ++ h2) =
  g_events_from tr h1 ++ g_events_from (tr ++ g_events_from tr h1) h2.
Proof.
  induction h1 as [|[t m] h1 IH]; intros tr h2.
  - cbn [app g_events_from]. rewrite app_nil_r. reflexivity.
  - cbn [app g_events_from]. rewrite IH, <- !app_assoc. reflexivity.
Qed.
End Gen.

(* the faithful instance is HistorySpecA's specification *)
Lemma g_args_faithful P args : forall tr tty mn idx,
  g_spec_args P accepts tr tty mn idx args = spec_args P tr tty mn idx args.
Proof.
  induction args as [|a rest IH]; intros tr tty mn idx; [reflexivity|].
  cbn [g_spec_args spec_args]. destruct (lookups_ok P tty mn idx a); [|reflexivity].
  change (g_arg_events accepts tr a) with (arg_events tr a). rewrite IH. reflexivity.
Qed.

Lemma g_msg_faithful P tr m : g_spec_msg P accepts tr m = spec_msg P tr m.
Proof.
  unfold g_spec_msg, spec_msg. destruct (spec_eff_args tr m) as [args|]; [|reflexivity].
  rewrite !g_args_faithful.
  destruct (on_display tr m && _); [|reflexivity].
  destruct args as [|[v| | | | | | |] rest]; reflexivity.
Qed.

Lemma g_events_faithful P h : forall tr, trace_from P tr h = tr ++ g_events_from P accepts tr h.
Proof.
  induction h as [|[t m] h IH]; intros tr; cbn [trace_from g_events_from].
  - rewrite app_nil_r. reflexivity.
  - rewrite g_msg_faithful, IH, app_assoc. reflexivity.
Qed.

(* ---- the naive reading and well-formedness -------------------------------------------------- *)
Definition naive : list ev -> Z -> bool := fun _ _ => true.

Definition ntrace (P : pdb) (h : list (Z * pmsg)) : list ev := tr0 ++ g_events_from P naive tr0 h.

(* every creation event of [rest] is acceptable after the events before it *)
Fixpoint wf_events (pre rest : list ev) : bool :=
  match rest with
  | [] => true
  | e :: rest' =>
      match e with ECre id _ => accepts pre id | EDel _ => true end && wf_events (pre ++ [e]) rest'
  end.

Definition wf_hist (P : pdb) (h : list (Z * pmsg)) : bool :=
  wf_events tr0 (g_events_from P naive tr0 h).

Lemma wf_events_app a : forall pre b,
  wf_events pre (a ++ b) = wf_events pre a && wf_events (pre ++ a) b.
Proof.
  induction a as [|e a IH]; intros pre b.
  - cbn [app wf_events andb]. rewrite app_nil_r. reflexivity.
  - cbn [app wf_events]. rewrite IH, <- app_assoc, andb_assoc. reflexivity.
Qed.

Lemma wf_args P args : forall tr tty mn idx,
  wf_events tr (fst (g_spec_args P naive tr tty mn idx args)) = true ->
  spec_args P tr tty mn idx args = g_spec_args P naive tr tty mn idx args.
Proof.
  induction args as [|a rest IH]; intros tr tty mn idx H; [reflexivity|].
  cbn [g_spec_args spec_args] in *. destruct (lookups_ok P tty mn idx a); [|reflexivity].
  assert (E : arg_events tr a = g_arg_events naive tr a /\
              wf_events (tr ++ g_arg_events naive tr a)
                        (fst (g_spec_args P naive (tr ++ g_arg_events naive tr a) tty mn (S idx) rest)) = true).
  { destruct (g_spec_args P naive (tr ++ g_arg_events naive tr a) tty mn (S idx) rest) as [evs2 refs].
    cbn [fst] in *. rewrite wf_events_app in H. apply andb_true_iff in H. destruct H as [H1 H2].
    split; [|exact H2].
    destruct a as [v|x|s|ty|id ty is_new|v|vs|s]; try reflexivity.
    destruct ty as [ty|]; [|reflexivity]. destruct is_new; [|reflexivity].
    unfold arg_events, g_arg_events, naive in *. cbn [wf_events] in H1.
    apply andb_true_iff in H1. destruct H1 as [H1 _]. rewrite H1. reflexivity. }
  destruct E as [E1 E2]. rewrite E1. rewrite (IH _ _ _ _ E2). reflexivity.
Qed.

Lemma wf_msg P tr m :
  wf_events tr (ms_events (g_spec_msg P naive tr m)) = true ->
  spec_msg P tr m = g_spec_msg P naive tr m.
Proof.
  unfold g_spec_msg, spec_msg. destruct (spec_eff_args tr m) as [args|]; [|reflexivity].
  destruct (on_display tr m && _).
  - destruct args as [|[v| | | | | | |] rest]; try reflexivity.
    destruct (ncre tr v =? 0)%nat; [reflexivity|]. intros H.
    rewrite (wf_args P (PInt v :: rest) (tr ++ [EDel v]) (spec_tty tr m) (p_name m) 0%nat); [reflexivity|].
    destruct (g_spec_args P naive (tr ++ [EDel v]) (spec_tty tr m) (p_name m) 0 (PInt v :: rest)) as [evs refs].
    cbn [ms_events wf_events andb fst] in *. exact H.
  - intros H. rewrite (wf_args P args tr (spec_tty tr m) (p_name m) 0%nat); [reflexivity|].
    destruct (g_spec_args P naive tr (spec_tty tr m) (p_name m) 0 args) as [evs refs]. exact H.
Qed.

Lemma wf_events_from P h : forall tr,
  wf_events tr (g_events_from P naive tr h) = true ->
  g_events_from P accepts tr h = g_events_from P naive tr h.
Proof.
  induction h as [|[t m] h IH]; intros tr H; [reflexivity|].
  cbn [g_events_from] in *. rewrite wf_events_app in H. apply andb_true_iff in H.
  destruct H as [H1 H2]. rewrite g_msg_faithful, (wf_msg P tr m H1). rewrite (IH _ H2). reflexivity.
Qed.

(* under well-formedness the faithful trace is the naive one *)
Theorem wf_trace P h : wf_hist P h = true -> trace P h = ntrace P h.
Proof.
  intros H. unfold trace, ntrace. rewrite g_events_faithful. f_equal. apply wf_events_from. exact H.
Qed.

(* well-formedness is inherited by prefixes *)
Lemma wf_hist_prefix P h1 h2 : wf_hist P (h1 ++ h2) = true -> wf_hist P h1 = true.
Proof.
  unfold wf_hist. rewrite g_events_from_app, wf_events_app. intros H.
  apply andb_true_iff in H. apply H.
Qed.

Lemma wf_hist_firstn P h k : wf_hist P h = true -> wf_hist P (firstn k h) = true.
Proof. intros H. apply wf_hist_prefix with (h2 := skipn k h). rewrite firstn_skipn. exact H. Qed.

(* C02 under the naive reading.  If the history never creates an id that is still alive (except
   in the server range) and never "creates" an id <= 1, then message k of the model is attributed
   as the naive specification says, [ntrace P (firstn k h)] being the events of the first k
   messages where EVERY typed new-id argument reached counts as a creation. *)
Theorem attrib_refines_wf P h k t m rm :
  wf_hist P h = true ->
  nth_error h k = Some (t, m) ->
  nth_error (snd (conn_run P db_init h)) k = Some rm ->
  let tr := ntrace P (firstn k h) in
  m_obj rm = spec_ref tr (p_id m) (p_type m) /\
  map arg_oref (m_args rm) = ms_args (g_spec_msg P naive tr m) /\
  m_destroyed rm = ms_destroyed (g_spec_msg P naive tr m).
Proof.
  intros Hwf Hh Hr tr.
  destruct (attrib_refines P h k t m rm Hh Hr) as (H1 & H2 & H3).
  assert (Htr : trace P (firstn k h) = tr) by (apply wf_trace, wf_hist_firstn, Hwf).
  rewrite Htr in H1, H2, H3.
  assert (Hm : spec_msg P tr m = g_spec_msg P naive tr m).
  { apply wf_msg.
    pose proof (wf_hist_firstn P h (S k) Hwf) as HS.
    rewrite (firstn_S_nth _ _ _ Hh) in HS. unfold wf_hist in HS.
    rewrite g_events_from_app, wf_events_app in HS. apply andb_true_iff in HS. destruct HS as [_ HS].
    cbn [g_events_from] in HS. rewrite app_nil_r in HS. exact HS. }
  rewrite Hm in H2, H3. split; [exact H1|split; assumption].
Qed.

(* ... and the alive interval over the naive trace *)
Theorem alive_interval_wf P h id g :
  wf_hist P h = true ->
  (exists o, lookup_obj (fst (conn_run P db_init h)) id g = Some o /\ o_alive o = true) <->
  (exists tr1 ty tr2, ntrace P h = tr1 ++ ECre id ty :: tr2 /\
                      ncre tr1 id = N.to_nat g /\ quiet id tr2 = true).
Proof. intros H. rewrite <- (wf_trace P h H). apply alive_interval. Qed.

Print Assumptions wf_trace.
Print Assumptions attrib_refines_wf.
Print Assumptions alive_interval_wf.
