(* DocLayB.v — T1 for every whitespace placement, level by level: text, object, argument value, item. *)
From WD Require Import Base Wire Conn Color LetterId Matcher MatcherParse Doc DocLay.
From WD Require Import LetterIdProofs DecodeBasics ColorProofs ProtocolProofs MatcherProofs
  DocParseA DocParseB DocParseC DocParseD DocParseE DocParseF DocLayA.
From Coq Require Import Lia ZifyBool ZifyNat ZifyN.
Open Scope N_scope.

Lemma Forall2_impl' {A B} (P Q : A -> B -> Prop) xs ys : (forall x y, P x y -> Q x y) -> Forall2 P xs ys -> Forall2 Q xs ys.
Proof. intros K H. induction H; constructor; auto. Qed.

Lemma Forall2_In_l {A B} (P : A -> B -> Prop) xs ys y : Forall2 P xs ys -> In y ys -> exists x, In x xs /\ P x y.
Proof.
  intros H. induction H as [|a b xs ys Hab Hr IH]; intros Hy; [contradiction|].
  destruct Hy as [->|Hy]; [exists a; split; [left; reflexivity|exact Hab]|].
  destruct (IH Hy) as [x [Hx Px]]. exists x. split; [right; exact Hx|exact Px].
Qed.

(* ---- text ------------------------------------------------------------------------------------------------- *)
Definition TF (t : dtext) (s : str) : Prop :=
  Good s /\ strip s = s /\ s <> [] /\ (forall d, delim_ok d -> Chunk d s) /\ HasDepth s (nest_text t).

Lemma Rtext_facts : forall t, wf_text t = true -> forall s, Rtext t s -> TF t s.
Proof.
  induction t as [w|pos neg IHp IHn] using dtext_ind'; intros W s H.
  - inversion H; subst. destruct (text_facts [] blank_nil (TWord s) W) as [A [B [C D]]].
    split; [exact A|]. split; [exact B|]. split; [exact C|]. split; [exact D|].
    exact (text_depth [] blank_nil (TWord s) W).
  - inversion H as [|pos' neg' ps ns b F1 F2 HB]; subst.
    cbn [wf_text] in W. apply andb_true_iff in W. destruct W as [W W3].
    apply andb_true_iff in W. destruct W as [W1 W2].
    pose proof (Forall2_lift wf_text Rtext TF pos ps IHp W1 F1) as T1.
    pose proof (Forall2_lift wf_text Rtext TF neg ns IHn W2 F2) as T2.
    assert (G : Good b).
    { apply (PB_Good _ _ _ HB); [apply (Forall2_r_Forall TF _ _ _ T1)|apply (Forall2_r_Forall TF _ _ _ T2)]; intros x s K; apply K. }
    split; [apply Good_sq, G|]. split; [apply strip_sq|]. split; [apply sq_ne_nil|]. split.
    + intros d [_ [D2 _]]. apply Chunk_sq; assumption.
    + change (nest_text (TList pos neg)) with (S (Nat.max (lmax nest_text pos) (lmax nest_text neg))).
      apply HasDepth_sq. apply (PB_depth nest_text _ _ _ _ _ HB).
      * revert T1. apply Forall2_impl'. intros x s K. apply K.
      * revert T2. apply Forall2_impl'. intros x s K. apply K.
Qed.

Theorem TR_text : forall t, wf_text t = true -> forall s, Rtext t s -> forall f, (cnt91 s <= f)%nat ->
  parse_text_matcher (parse_list f) s = Ok (elab_text t).
Proof.
  induction t as [w|pos neg IHp IHn] using dtext_ind'; intros W s H f Hf.
  - inversion H; subst. apply ptm_tword. exact W.
  - inversion H as [|pos' neg' ps ns b F1 F2 HB]; subst.
    cbn [wf_text] in W. apply andb_true_iff in W. destruct W as [W W3].
    apply andb_true_iff in W. destruct W as [W1 W2].
    destruct (fuel_pos_sq _ _ Hf) as [f' ->]. cbn [elab_text].
    unfold parse_text_matcher. rewrite bracketed_sq, strip_ends_sq.
    apply (level_listR_eq Rtext KText elab_text pos neg ps ns b f' F1 F2 HB); [| |reflexivity|apply ne_of_match, W3].
    + intros x s Hx Hs Hr. pose proof (forallb_In_app _ _ _ _ W1 W2 Hx) as Wx.
      destruct (Rtext_facts x Wx s Hr) as [_ [_ [_ [C _]]]]. split; apply C; [apply delim_33|apply delim_44].
    + intros x s Hx Hs Hr. pose proof (forallb_In_app _ _ _ _ W1 W2 Hx) as Wx.
      destruct (Rtext_facts x Wx s Hr) as [_ [S _]]. rewrite S. cbn [parse_item].
      apply (Forall_In_app _ _ _ _ IHp IHn Hx Wx s Hr). exact (fuel_childR ps ns b f' s HB Hf Hs).
Qed.

(* ---- objects ---------------------------------------------------------------------------------------------- *)
Definition OF (o : dobj) (s : str) : Prop :=
  Good s /\ strip s = s /\ (forall d, delim_ok d -> Chunk d s) /\ HasDepth s (nest_obj o) /\ (o <> OAny -> s <> []).

Definition is_olist (o : dobj) : bool := match o with OList _ _ => true | _ => false end.

Lemma Robj_atom o s : Robj o s -> is_olist o = false -> s = r_obj [] o.
Proof. intros H Hl. destruct H; try reflexivity. discriminate. Qed.

Lemma OF_atom o : is_olist o = false -> wf_obj o = true -> OF o (r_obj [] o).
Proof.
  intros Hl W. destruct (obj_facts [] blank_nil o W) as [A [B C]].
  split; [exact A|]. split; [exact B|]. split; [exact C|]. split; [exact (obj_depth [] blank_nil o W)|].
  apply obj_ne. exact W.
Qed.

Lemma Robj_facts : forall o, wf_obj o = true -> forall s, Robj o s -> OF o s.
Proof.
  induction o as [|w|a id l| |pos neg IHp IHn] using dobj_ind'; intros W s H;
    try (rewrite (Robj_atom _ _ H eq_refl); apply OF_atom; [reflexivity|exact W]).
  inversion H as [| | | |pos' neg' ps ns b F1 F2 HB]; subst.
  cbn [wf_obj] in W. apply andb_true_iff in W. destruct W as [W W3].
  apply andb_true_iff in W. destruct W as [W1 W2].
  pose proof (Forall2_lift wf_obj Robj OF pos ps IHp W1 F1) as T1.
  pose proof (Forall2_lift wf_obj Robj OF neg ns IHn W2 F2) as T2.
  assert (G : Good b).
  { apply (PB_Good _ _ _ HB); [apply (Forall2_r_Forall OF _ _ _ T1)|apply (Forall2_r_Forall OF _ _ _ T2)]; intros x s K; apply K. }
  split; [apply Good_sq, G|]. split; [apply strip_sq|]. split; [|split].
  - intros d [_ [D2 _]]. apply Chunk_sq; assumption.
  - change (nest_obj (OList pos neg)) with (S (Nat.max (lmax nest_obj pos) (lmax nest_obj neg))).
    apply HasDepth_sq. apply (PB_depth nest_obj _ _ _ _ _ HB).
    + revert T1. apply Forall2_impl'. intros x s K. apply K.
    + revert T2. apply Forall2_impl'. intros x s K. apply K.
  - intros _. apply sq_ne_nil.
Qed.

Theorem TR_obj : forall o, wf_obj o = true -> forall s, Robj o s -> forall f, (cnt91 s <= f)%nat ->
  parse_obj_matcher (parse_list f) s = Ok (elab_obj o).
Proof.
  induction o as [|w|a id l| |pos neg IHp IHn] using dobj_ind'; intros W s H f Hf;
    try (rewrite (Robj_atom _ _ H eq_refl) in *; apply (T_obj [] blank_nil _ W f Hf)).
  inversion H as [| | | |pos' neg' ps ns b F1 F2 HB]; subst.
  cbn [wf_obj] in W. apply andb_true_iff in W. destruct W as [W W3].
  apply andb_true_iff in W. destruct W as [W1 W2].
  destruct (fuel_pos_sq _ _ Hf) as [f' ->]. cbn [elab_obj].
  unfold parse_obj_matcher. rewrite bracketed_sq, strip_ends_sq.
  apply (level_listR_eq Robj KObj elab_obj pos neg ps ns b f' F1 F2 HB); [| |reflexivity|apply ne_of_match, W3].
  + intros x s Hx Hs Hr. pose proof (forallb_In_app _ _ _ _ W1 W2 Hx) as Wx.
    destruct (Robj_facts x Wx s Hr) as [_ [_ [C _]]]. split; apply C; [apply delim_33|apply delim_44].
  + intros x s Hx Hs Hr. pose proof (forallb_In_app _ _ _ _ W1 W2 Hx) as Wx.
    destruct (Robj_facts x Wx s Hr) as [_ [S _]]. rewrite S. cbn [parse_item].
    apply (Forall_In_app _ _ _ _ IHp IHn Hx Wx s Hr). exact (fuel_childR ps ns b f' s HB Hf Hs).
Qed.

(* ---- argument values -------------------------------------------------------------------------------------- *)
Definition VF (v : dval) (s : str) : Prop :=
  Good s /\ strip s = s /\ s <> [] /\ (forall d, vdelim d -> Chunk d s) /\
  (is_vlist v = false -> bracketed s = false) /\ HasDepth s (nest_val v).

Lemma Rval_atom v s : Rval v s -> is_vlist v = false -> s = r_val [] v.
Proof. intros H Hl. destruct H; try reflexivity. discriminate. Qed.

Lemma VF_atom v : wf_val v = true -> VF v (r_val [] v).
Proof.
  intros W. destruct (val_facts [] blank_nil v W) as [A [B [C [D E]]]].
  split; [exact A|]. split; [exact B|]. split; [exact C|]. split; [exact D|]. split; [exact E|].
  exact (val_depth [] blank_nil v W).
Qed.

Lemma Rval_facts : forall v, wf_val v = true -> forall s, Rval v s -> VF v s.
Proof.
  induction v as [|z|n ip fp|s0|w|c id l| |pos neg IHp IHn] using dval_ind'; intros W s H;
    try (rewrite (Rval_atom _ _ H eq_refl); apply VF_atom; exact W).
  inversion H as [| | | | | | |pos' neg' ps ns b F1 F2 HB]; subst.
  cbn [wf_val] in W. apply andb_true_iff in W. destruct W as [W W3].
  apply andb_true_iff in W. destruct W as [W1 W2].
  pose proof (Forall2_lift wf_val Rval VF pos ps IHp W1 F1) as T1.
  pose proof (Forall2_lift wf_val Rval VF neg ns IHn W2 F2) as T2.
  assert (G : Good b).
  { apply (PB_Good _ _ _ HB); [apply (Forall2_r_Forall VF _ _ _ T1)|apply (Forall2_r_Forall VF _ _ _ T2)]; intros x s K; apply K. }
  split; [apply Good_sq, G|]. split; [apply strip_sq|]. split; [apply sq_ne_nil|]. split; [|split].
  - intros d Hd. apply Chunk_sq; [destruct Hd as [-> | [-> | ->]]; discriminate|exact G].
  - discriminate.
  - change (nest_val (VList pos neg)) with (S (Nat.max (lmax nest_val pos) (lmax nest_val neg))).
    apply HasDepth_sq. apply (PB_depth nest_val _ _ _ _ _ HB).
    + revert T1. apply Forall2_impl'. intros x s K. apply K.
    + revert T2. apply Forall2_impl'. intros x s K. apply K.
Qed.

Theorem TR_val : forall v, wf_val v = true -> mok_val v = true -> forall s, Rval v s ->
  forall f, (cnt91 s <= f)%nat ->
  exists m, parse_arg_value_matcher (parse_list f) s = Ok m /\ seq m (elab_val v).
Proof.
  induction v as [|z|n ip fp|s0|w|c id l| |pos neg IHp IHn] using dval_ind'; intros W M s H f Hf;
    try (rewrite (Rval_atom _ _ H eq_refl) in *; apply (T_val [] blank_nil _ W M f Hf)).
  inversion H as [| | | | | | |pos' neg' ps ns b F1 F2 HB]; subst.
  cbn [wf_val] in W. apply andb_true_iff in W. destruct W as [W W3].
  apply andb_true_iff in W. destruct W as [W1 W2].
  cbn [mok_val] in M. apply andb_true_iff in M. destruct M as [M1 M2].
  destruct (fuel_pos_sq _ _ Hf) as [f' ->]. cbn [elab_val].
  unfold parse_arg_value_matcher. rewrite bracketed_sq, strip_ends_sq.
  apply (level_listR_seq Rval KArgValue elab_val pos neg ps ns b f' (MWrap WInt (MAlways true)) F1 F2 HB);
    [| |reflexivity|reflexivity|apply ne_of_match, W3].
  + intros x s Hx Hs Hr. pose proof (forallb_In_app _ _ _ _ W1 W2 Hx) as Wx.
    destruct (Rval_facts x Wx s Hr) as [_ [_ [_ [C _]]]]. split; apply C; [left|right; left]; reflexivity.
  + intros x s Hx Hs Hr. pose proof (forallb_In_app _ _ _ _ W1 W2 Hx) as Wx.
    pose proof (forallb_In_app _ _ _ _ M1 M2 Hx) as Mx.
    destruct (Rval_facts x Wx s Hr) as [_ [S _]]. rewrite S. cbn [parse_item].
    apply (Forall_In_app _ _ _ _ IHp IHn Hx Wx Mx s Hr). exact (fuel_childR ps ns b f' s HB Hf Hs).
Qed.

(* ---- items --------------------------------------------------------------------------------------------------- *)
Definition VOF (v : option dval) (s : str) : Prop :=
  Good s /\ strip s = s /\ (forall d, vdelim d -> Chunk d s) /\ HasDepth s (nest_opt nest_val v).

Lemma Rvopt_facts v s : match v with Some d => wf_val d | None => true end = true -> Rvopt v s -> VOF v s.
Proof.
  intros W H. destruct v as [d|]; cbn [Rvopt] in H.
  - destruct (Rval_facts d W s H) as [A [B [_ [C [_ D]]]]]. split; [exact A|]. split; [exact B|]. split; [exact C|exact D].
  - subst s. split; [apply Good_nil|]. split; [reflexivity|]. split; [intros d _; constructor|apply HasDepth_nil].
Qed.

Lemma Rvopt_parse v s f : match v with Some d => wf_val d | None => true end = true ->
  match v with Some d => mok_val d | None => true end = true -> Rvopt v s -> (cnt91 s <= f)%nat ->
  exists m, parse_arg_value_matcher (parse_list f) s = Ok m /\
            seq m (match v with Some d => elab_val d | None => MWrap WInt (MAlways true) end).
Proof.
  intros W M H Hf. destruct v as [d|]; cbn [Rvopt] in H.
  - apply TR_val; assumption.
  - subst s. eexists. split; [apply pavm_empty|reflexivity].
Qed.

Definition IF (i : ditem) (s : str) : Prop :=
  Good s /\ (forall d, ldelim d -> Chunk d s) /\ strip s <> [] /\ HasDepth s (nest_item i).

Lemma nest_item_opt name v : nest_item (IItem name v) = nest_opt nest_val v.
Proof. destruct v; reflexivity. Qed.

Lemma Ritem_facts : forall i, wf_item i = true -> forall s, Ritem i s -> IF i s.
Proof.
  induction i as [name v|pos neg IHp IHn] using ditem_ind'; intros W s H.
  - destruct (wf_item_inv name v W) as [W1 [W2 W3]]. unfold IF. rewrite nest_item_opt.
    inversion H as [w v' p1 p2 sv B1 B2 Hv|v' sv Hv|]; subst.
    + destruct (Rvopt_facts v sv W2 Hv) as [G [_ [C D]]]. destruct (wf_tword_inv w W1) as [Hn Hi].
      change (61 :: p2 ++ sv) with ([61] ++ p2 ++ sv). split; [|split; [|split]].
      * apply Good_app; [apply Good_ident, Hi|]. apply Good_app; [apply Good_blank, B1|].
        apply Good_app; [apply Good_one; reflexivity|]. apply Good_app; [apply Good_blank, B2|exact G].
      * intros d Hd. pose proof (vdelim_ok d (ldelim_v d Hd)) as [D1 [D2 [D3 _]]].
        apply Chunk_app; [apply Chunk_plain, ident_plain; assumption|]. apply Chunk_app; [apply Chunk_blank; assumption|].
        apply Chunk_app; [apply Chunk_one; [destruct Hd as [-> | ->]; discriminate|reflexivity]|].
        apply Chunk_app; [apply Chunk_blank; assumption|apply C, ldelim_v, Hd].
      * destruct w as [|c r]; [congruence|]. cbn [app]. apply strip_ne_cons.
        cbn [forallb] in Hi. apply andb_true_iff in Hi. destruct Hi as [Hc _]. ccx.
      * apply (HasDepth_eq _ (Nat.max 0 (Nat.max 0 (Nat.max 0 (Nat.max 0 (nest_opt nest_val v)))))); [lia|].
        apply HasDepth_app; [apply ident_flat, Hi|]. apply HasDepth_app; [apply HasDepth_blank, B1|].
        apply HasDepth_app; [apply HasDepth_one; discriminate|]. apply HasDepth_app; [apply HasDepth_blank, B2|exact D].
    + destruct v as [d|]; [|discriminate W3]. cbn [Rvopt] in Hv.
      destruct (Rval_facts d W2 s Hv) as [A [B [N [C [_ D]]]]].
      split; [exact A|]. split; [intros x Hx; apply C, ldelim_v, Hx|]. split; [rewrite B; exact N|exact D].
  - inversion H as [| |pos' neg' ps ns b F1 F2 HB]; subst.
    cbn [wf_item] in W. apply andb_true_iff in W. destruct W as [W W3].
    apply andb_true_iff in W. destruct W as [W1 W2].
    pose proof (Forall2_lift wf_item Ritem IF pos ps IHp W1 F1) as T1.
    pose proof (Forall2_lift wf_item Ritem IF neg ns IHn W2 F2) as T2.
    assert (G : Good b).
    { apply (PB_Good _ _ _ HB); [apply (Forall2_r_Forall IF _ _ _ T1)|apply (Forall2_r_Forall IF _ _ _ T2)]; intros x s K; apply K. }
    split; [apply Good_sq, G|]. split; [|split].
    + intros d Hd. apply Chunk_sq; [destruct Hd as [-> | ->]; discriminate|exact G].
    + rewrite strip_sq. apply sq_ne_nil.
    + change (nest_item (IList pos neg)) with (S (Nat.max (lmax nest_item pos) (lmax nest_item neg))).
      apply HasDepth_sq. apply (PB_depth nest_item _ _ _ _ _ HB).
      * revert T1. apply Forall2_impl'. intros x s K. apply K.
      * revert T2. apply Forall2_impl'. intros x s K. apply K.
Qed.

Lemma pam_namedR rec w p1 p2 sv m : blank p1 -> blank p2 -> wf_tword w = true ->
  strip sv = sv -> Chunk 61 sv ->
  parse_arg_value_matcher rec sv = Ok m ->
  parse_arg_matcher rec (strip (w ++ p1 ++ 61 :: p2 ++ sv)) = Ok (arg_matcher (str_matcher w) m).
Proof.
  intros B1 B2 W1 S C Hm. destruct (wf_tword_inv w W1) as [Hn Hi].
  set (text0 := w ++ p1 ++ 61 :: p2 ++ sv).
  assert (B : bracketed (strip text0) = false).
  { unfold text0. destruct w as [|c r]; [congruence|]. cbn [app].
    assert (Hc : ident_char c = true) by (cbn [forallb] in Hi; apply andb_true_iff in Hi; tauto).
    destruct (strip_cons_nonblank c (r ++ p1 ++ 61 :: p2 ++ sv)) as [s' E]; [ccx|].
    rewrite E. apply bracketed_ne. ccx. }
  unfold parse_arg_matcher. rewrite B. rewrite split_pair_strip by reflexivity. unfold text0.
  rewrite app_assoc. rewrite split_pair_two; [|reflexivity| |].
  - rewrite strip_app_blank by exact B1. rewrite strip_blank_app by exact B2.
    rewrite (strip_nonblank_all w (ident_nonblank w Hi)), S. cbn [bind].
    rewrite (ptm_tword _ w W1). cbn [bind]. rewrite Hm. reflexivity.
  - apply Chunk_app; [apply Chunk_plain, ident_plain; [reflexivity|exact Hi]|apply Chunk_blank; [reflexivity|exact B1]].
  - apply Chunk_app; [apply Chunk_blank; [reflexivity|exact B2]|exact C].
Qed.

Theorem TR_item : forall i, wf_item i = true -> mok_item i = true -> forall s, Ritem i s ->
  forall f, (cnt91 s <= f)%nat ->
  exists m, parse_arg_matcher (parse_list f) (strip s) = Ok m /\ seq m (elab_item i).
Proof.
  induction i as [name v|pos neg IHp IHn] using ditem_ind'; intros W M s H f Hf.
  - destruct (wf_item_inv name v W) as [W1 [W2 W3]].
    assert (M2 : match v with Some d => mok_val d | None => true end = true) by (destruct v; exact M).
    inversion H as [w v' p1 p2 sv B1 B2 Hv|v' sv Hv|]; subst.
    + destruct (Rvopt_facts v sv W2 Hv) as [G [S [C D]]].
      destruct (Rvopt_parse v sv f W2 M2 Hv) as [m [E Q]].
      { change (61 :: p2 ++ sv) with ([61] ++ p2 ++ sv) in Hf. rewrite !cnt91_app in Hf. lia. }
      exists (arg_matcher (str_matcher w) m). split.
      * apply pam_namedR; try assumption. apply C. right. right. reflexivity.
      * cbn [elab_item]. apply seq_arg_matcher; [reflexivity|exact Q].
    + destruct v as [d|]; [|discriminate W3]. cbn [Rvopt] in Hv.
      assert (Hl : is_vlist d = false) by (destruct d; try reflexivity; discriminate).
      destruct (Rval_facts d W2 s Hv) as [_ [S [_ [C [B _]]]]].
      destruct (TR_val d W2 M2 s Hv f Hf) as [m [E Q]].
      exists (arg_matcher (MAlways true) m). split.
      * rewrite S. unfold parse_arg_matcher. rewrite (B Hl).
        rewrite split_pair_none by (apply C; right; right; reflexivity). cbn [bind]. rewrite E. reflexivity.
      * cbn [elab_item]. apply seq_arg_matcher; [reflexivity|exact Q].
  - inversion H as [| |pos' neg' ps ns b F1 F2 HB]; subst.
    cbn [wf_item] in W. apply andb_true_iff in W. destruct W as [W W3].
    apply andb_true_iff in W. destruct W as [W1 W2].
    cbn [mok_item] in M. apply andb_true_iff in M. destruct M as [M1 M2].
    destruct (fuel_pos_sq _ _ Hf) as [f' ->]. cbn [elab_item].
    rewrite strip_sq. unfold parse_arg_matcher. rewrite bracketed_sq, strip_ends_sq.
    apply (level_listR_seq Ritem KArg elab_item pos neg ps ns b f' (arg_matcher (MAlways true) (MWrap WInt (MAlways true))) F1 F2 HB);
      [| |reflexivity|reflexivity|apply ne_of_match, W3].
    + intros x s Hx Hs Hr. pose proof (forallb_In_app _ _ _ _ W1 W2 Hx) as Wx.
      destruct (Ritem_facts x Wx s Hr) as [_ [C _]]. split; apply C; [left|right]; reflexivity.
    + intros x s Hx Hs Hr. pose proof (forallb_In_app _ _ _ _ W1 W2 Hx) as Wx.
      pose proof (forallb_In_app _ _ _ _ M1 M2 Hx) as Mx. cbn [parse_item].
      apply (Forall_In_app _ _ _ _ IHp IHn Hx Wx Mx s Hr). exact (fuel_childR ps ns b f' s HB Hf Hs).
Qed.
