(* DocLayC.v — T1 for every whitespace placement: argument lists, message patterns, the top level,
   [parse]; final theorem parse_renders. *)
From WD Require Import Base Wire Conn Color LetterId Matcher MatcherParse Doc DocLay.
From WD Require Import LetterIdProofs DecodeBasics ColorProofs ProtocolProofs MatcherProofs
  DocParseA DocParseB DocParseC DocParseD DocParseE DocParseF DocLayA DocLayB.
From Coq Require Import Lia ZifyBool ZifyNat ZifyN.
Open Scope N_scope.

(* ---- argument lists ------------------------------------------------------------------------------------------ *)
Lemma items_facts xs ss : forallb wf_item xs = true -> Forall2 Ritem xs ss -> Forall2 IF xs ss.
Proof.
  intros W F. induction F as [|x s xs ss Hxs Hr IH]; [constructor|].
  cbn [forallb] in W. apply andb_true_iff in W. destruct W as [W1 W2].
  constructor; [apply Ritem_facts; assumption|apply IH, W2].
Qed.

Lemma Rargs_facts d s : wf_args d = true -> Rargs d s -> Good s /\ HasDepth s (nest_args d).
Proof.
  intros W H. destruct H as [p Hp|p1 p2 H1 H2|pos neg ps ns b F1 F2 HB]; cbn [nest_args].
  - split; [apply Good_blank, Hp|apply HasDepth_blank, Hp].
  - change (33 :: p2) with ([33] ++ p2). split.
    + apply Good_app; [apply Good_blank, H1|]. apply Good_app; [apply Good_one; reflexivity|apply Good_blank, H2].
    + apply (HasDepth_eq _ (Nat.max 0 (Nat.max 0 0))); [reflexivity|].
      apply HasDepth_app; [apply HasDepth_blank, H1|]. apply HasDepth_app; [apply HasDepth_one; discriminate|apply HasDepth_blank, H2].
  - cbn [wf_args] in W. apply andb_true_iff in W. destruct W as [W W3].
    apply andb_true_iff in W. destruct W as [W1 W2].
    pose proof (items_facts pos ps W1 F1) as T1. pose proof (items_facts neg ns W2 F2) as T2. split.
    + apply (PB_Good _ _ _ HB); [apply (Forall2_r_Forall IF _ _ _ T1)|apply (Forall2_r_Forall IF _ _ _ T2)]; intros x s K; apply K.
    + apply (PB_depth nest_item _ _ _ _ _ HB).
      * revert T1. apply Forall2_impl'. intros x s K. apply K.
      * revert T2. apply Forall2_impl'. intros x s K. apply K.
Qed.

Lemma items_parseR f xs ss : forallb wf_item xs = true -> forallb mok_item xs = true -> Forall2 Ritem xs ss ->
  (forall s, In s ss -> (cnt91 s <= f)%nat) ->
  exists ms, mapM (parse_arg_matcher (parse_list f)) (map strip ss) = Ok ms /\ Forall2 seq ms (map elab_item xs).
Proof.
  intros W M F Hf.
  destruct (exists_Forall2R Ritem (fun s m => parse_arg_matcher (parse_list f) (strip s) = Ok m) seq elab_item xs ss F) as [ms [P1 P2]].
  { intros x s Hx Hs Hr. apply TR_item; [exact (forallb_In _ _ _ W Hx)|exact (forallb_In _ _ _ M Hx)|exact Hr|apply Hf, Hs]. }
  exists ms. split; [|exact P2]. apply mapM_strip_Forall2. exact P1.
Qed.

Lemma IF_chunks (d : char) xs ss : ldelim d -> Forall2 IF xs ss -> Forall (Chunk d) ss.
Proof. intros Hd F. apply (Forall2_r_Forall IF _ _ _ F). intros x s K. apply K, Hd. Qed.

Lemma IF_first_ne xs x r : Forall2 IF xs (x :: r) -> strip x <> [].
Proof. intros F. inversion F; subst. match goal with K : IF _ x |- _ => apply K end. Qed.

Lemma split_on_true_PJ ss s : PJ ss s -> Forall (Chunk 44) ss -> (forall x r, ss = x :: r -> strip x <> []) ->
  split_on s 44 true = Ok (map strip ss).
Proof.
  intros H C N. destruct ss as [|x r].
  - cbn [map]. apply split_on_true_blank, PJ_nil_blank, H.
  - rewrite split_on_true_ne by (apply (PJ_strip_ne x r s H), (N x r eq_refl)).
    apply PJ_split; [exact H|discriminate|exact C].
Qed.

Theorem TR_args : forall d, wf_args d = true -> mok_args d = true -> forall s, Rargs d s ->
  forall f, (cnt91 s <= f)%nat ->
  exists m, parse_args_list (parse_list f) (lstrip s) = Ok m /\ args_rel m (elab_args d).
Proof.
  intros d W M s H f Hf. destruct H as [p Hp|p1 p2 H1 H2|pos neg ps ns b F1 F2 HB].
  - unfold lstrip. rewrite dp_drop_while_all by exact Hp.
    exists (MAlways true). split; [reflexivity|split; reflexivity].
  - rewrite lstrip_blank_app by exact H1. rewrite lstrip_cons by reflexivity.
    exists (MAlways false). split; [|split; reflexivity].
    unfold parse_args_list. rewrite split_pair_lead; [|reflexivity|apply Chunk_blank; [reflexivity|exact H2]].
    cbn [bind]. rewrite strip_idem, (strip_blank p2 H2). reflexivity.
  - cbn [wf_args] in W. apply andb_true_iff in W. destruct W as [W W3].
    apply andb_true_iff in W. destruct W as [W1 W2].
    cbn [mok_args] in M. apply andb_true_iff in M. destruct M as [M1 M2].
    cbn [elab_args]. apply ne_of_match in W3.
    pose proof (items_facts pos ps W1 F1) as T1. pose proof (items_facts neg ns W2 F2) as T2.
    assert (Hfx : forall s, In s (ps ++ ns) -> (cnt91 s <= f)%nat).
    { intros s Hs. pose proof (PB_cnt91 _ _ _ _ HB Hs). lia. }
    destruct (items_parseR f pos ps W1 M1 F1) as [ms1 [EP QP]]; [intros s Hs; apply Hfx, in_or_app; left; exact Hs|].
    destruct (items_parseR f neg ns W2 M2 F2) as [ms2 [EN QN]]; [intros s Hs; apply Hfx, in_or_app; right; exact Hs|].
    pose proof (IF_chunks 33 _ _ (or_introl eq_refl) T1) as P33. pose proof (IF_chunks 33 _ _ (or_introl eq_refl) T2) as N33.
    pose proof (IF_chunks 44 _ _ (or_intror eq_refl) T1) as P44. pose proof (IF_chunks 44 _ _ (or_intror eq_refl) T2) as N44.
    assert (NP : forall x r, ps = x :: r -> strip x <> []) by (intros x r ->; apply (IF_first_ne _ _ _ T1)).
    assert (NN : forall x r, ns = x :: r -> strip x <> []) by (intros x r ->; apply (IF_first_ne _ _ _ T2)).
    assert (SB : strip b <> []).
    { destruct HB as [ps s HJ|ps n ns a b' Ha Hb].
      - destruct ps as [|x r].
        + exfalso. inversion F1; subst. inversion F2; subst. destruct W3; congruence.
        + apply (PJ_strip_ne x r s HJ), (NP x r eq_refl).
      - apply strip_ne_r, strip_ne_cons. reflexivity. }
    exists (MArgsList ms1 ms2). split.
    + unfold parse_args_list. destruct (lstrip b) as [|c0 r0] eqn:EL.
      { exfalso. apply SB. rewrite <- strip_lstrip, EL. reflexivity. }
      rewrite <- EL. rewrite split_pair_lstrip by reflexivity.
      destruct HB as [ps s HJ|ps n ns a b' Ha Hb].
      * rewrite split_pair_none by (apply (PJ_Chunk33 _ _ HJ P33)). cbn [bind].
        rewrite split_on_lstrip by reflexivity. rewrite (split_on_true_PJ _ _ HJ P44 NP).
        cbn [bind]. rewrite EP. cbn [bind map mapM] in *. injection EN as <-. reflexivity.
      * rewrite split_pair_two; [|reflexivity|apply (PJ_Chunk33 _ _ Ha P33)|apply (PJ_Chunk33 _ _ Hb N33)].
        cbn [bind]. rewrite !strip_idem.
        destruct (strip b') as [|cb rb] eqn:EB; [exfalso; exact (PJ_strip_ne n ns b' Hb (NN n ns eq_refl) EB)|].
        assert (EM : forall (A : Type) (sa : str) (x y : A),
                   match sa, cb :: rb with [], [] => x | _, _ => y end = y) by (intros A [|? ?] x y; reflexivity).
        rewrite (EM _ _ (Ok (MAlways false))). rewrite <- EB. rewrite !split_on_strip by reflexivity.
        rewrite (split_on_true_PJ _ _ Ha P44 NP), (split_on_true_PJ _ _ Hb N44 NN).
        cbn [bind]. rewrite EP. cbn [bind]. rewrite EN. reflexivity.
    + split; [apply seq_args; assumption|]. rewrite !matches_args_nil. destruct QP; reflexivity.
Qed.

(* ---- the pieces of a pattern ------------------------------------------------------------------------------- *)
Lemma esc_free_blank p : blank p -> esc_free p.
Proof. intros H. apply Good_esc, Good_blank, H. Qed.

Lemma conn_factsR c sc : match c with Some t => wf_text t | None => true end = true -> Rconn c sc ->
  (forall d, delim_ok d -> d <> 58 -> Chunk d sc) /\ esc_free sc /\ HasDepth sc (nest_opt nest_text c).
Proof.
  intros W H. destruct H as [|t st p1 p2 Ht B1 B2]; cbn [nest_opt].
  - split; [intros; constructor|]. split; [reflexivity|apply HasDepth_nil].
  - destruct (Rtext_facts t W st Ht) as [G [_ [_ [C D]]]]. change (58 :: p2) with ([58] ++ p2). split; [|split].
    + intros d Hd H58. pose proof Hd as [_ [_ [D3 _]]].
      apply Chunk_app; [apply C, Hd|]. apply Chunk_app; [apply Chunk_blank; assumption|].
      apply Chunk_app; [apply Chunk_one; [congruence|reflexivity]|apply Chunk_blank; assumption].
    + repeat (apply esc_free_app; split); try (apply esc_free_blank; assumption); try reflexivity. apply Good_esc, G.
    + apply (HasDepth_eq _ (Nat.max (nest_text t) (Nat.max 0 (Nat.max 0 0)))); [lia|].
      apply HasDepth_app; [exact D|]. apply HasDepth_app; [apply HasDepth_blank, B1|].
      apply HasDepth_app; [apply HasDepth_one; discriminate|apply HasDepth_blank, B2].
Qed.

Lemma name_factsR n sn : match n with Some t => wf_text t | None => true end = true -> Rname n sn ->
  (forall d, delim_ok d -> d <> 46 -> Chunk d sn) /\ esc_free sn /\ HasDepth sn (nest_opt nest_text n).
Proof.
  intros W H. destruct H as [|t st p1 p2 Ht B1 B2]; cbn [nest_opt].
  - split; [intros; constructor|]. split; [reflexivity|apply HasDepth_nil].
  - destruct (Rtext_facts t W st Ht) as [G [_ [_ [C D]]]]. change (46 :: p2 ++ st) with ([46] ++ p2 ++ st). split; [|split].
    + intros d Hd H46. pose proof Hd as [_ [_ [D3 _]]].
      apply Chunk_app; [apply Chunk_blank; assumption|].
      apply Chunk_app; [apply Chunk_one; [congruence|reflexivity]|].
      apply Chunk_app; [apply Chunk_blank; assumption|apply C, Hd].
    + repeat (apply esc_free_app; split); try (apply esc_free_blank; assumption); try reflexivity. apply Good_esc, G.
    + apply (HasDepth_eq _ (Nat.max 0 (Nat.max 0 (Nat.max 0 (nest_text t))))); [lia|].
      apply HasDepth_app; [apply HasDepth_blank, B1|]. apply HasDepth_app; [apply HasDepth_one; discriminate|].
      apply HasDepth_app; [apply HasDepth_blank, B2|exact D].
Qed.

Lemma paren_factsR a sa : match a with Some d => wf_args d | None => true end = true -> Rparen a sa ->
  (forall d : char, is_space d = false -> d <> 40 -> Chunk d sa) /\ esc_free sa /\ HasDepth sa (nest_opt nest_args a).
Proof.
  intros W H. destruct H as [|d sd p Hd B]; cbn [nest_opt].
  - split; [intros; constructor|]. split; [reflexivity|apply HasDepth_nil].
  - destruct (Rargs_facts d sd W Hd) as [G D]. split; [|split].
    + intros x Hx H40. apply Chunk_app; [apply Chunk_blank; assumption|].
      apply (Chunk_paren x sd []); [exact H40|apply Good_Bal4041, G|constructor].
    + change (40 :: sd ++ [41]) with ([40] ++ sd ++ [41]).
      repeat (apply esc_free_app; split); try (apply esc_free_blank; assumption); try reflexivity. apply Good_esc, G.
    + change (40 :: sd ++ [41]) with ([40] ++ sd ++ [41]).
      apply (HasDepth_eq _ (Nat.max 0 (Nat.max 0 (Nat.max (nest_args d) 0)))); [lia|].
      apply HasDepth_app; [apply HasDepth_blank, B|]. apply HasDepth_app; [apply HasDepth_one; discriminate|].
      apply HasDepth_app; [exact D|apply HasDepth_one; discriminate].
Qed.

Definition wf_body (b : dbody) : Prop :=
  match b with
  | BBare o => wf_obj o = true
  | BFull o n a => wf_obj o = true /\ match n with Some t => wf_text t | None => true end = true /\
                   match a with Some x => wf_args x | None => true end = true
  end.

Lemma body_factsR b sb : wf_body b -> Rbody b sb ->
  (forall d, delim_ok d -> d <> 46 -> d <> 40 -> Chunk d sb) /\ esc_free sb /\ HasDepth sb (nest_body b).
Proof.
  intros W H. destruct H as [o so Ho|o n a so sn sa Ho Hn Ha]; cbn [nest_body wf_body] in *.
  - destruct (Robj_facts o W so Ho) as [G [_ [C [D _]]]]. split; [intros d Hd _ _; apply C, Hd|]. split; [apply Good_esc, G|exact D].
  - destruct W as [W1 [W2 W3]]. destruct (Robj_facts o W1 so Ho) as [G [_ [C [D _]]]].
    destruct (name_factsR n sn W2 Hn) as [Cn [En Dn]]. destruct (paren_factsR a sa W3 Ha) as [Ca [Ea Da]].
    split; [|split].
    + intros d Hd H46 H40. pose proof Hd as [_ [_ [D3 _]]].
      apply Chunk_app; [apply C, Hd|]. apply Chunk_app; [apply Cn; assumption|apply Ca; assumption].
    + repeat (apply esc_free_app; split); try assumption. apply Good_esc, G.
    + apply HasDepth_app; [exact D|]. apply HasDepth_app; assumption.
Qed.

Lemma body_strip_neR b sb :
  match b with
  | BBare o => wf_obj o = true /\ o <> OAny
  | BFull o n a => n <> None \/ a <> None
  end -> Rbody b sb -> strip sb <> [].
Proof.
  intros W H. destruct H as [o so Ho|o n a so sn sa Ho Hn Ha].
  - destruct W as [W1 W2]. destruct (Robj_facts o W1 so Ho) as [_ [S [_ [_ N]]]]. rewrite S. apply N, W2.
  - apply strip_ne_r. destruct Hn as [|t st p1 p2 Ht B1 B2].
    + destruct Ha as [|d sd p Hd B]; [destruct W; congruence|]. apply strip_ne_r, strip_ne_r, strip_ne_cons. reflexivity.
    + apply strip_ne_l, strip_ne_r, strip_ne_cons. reflexivity.
Qed.

Lemma Rpat_facts p s : wf_pat p = true -> Rpat p s ->
  (forall d, delim_ok d -> d <> 46 -> d <> 40 -> d <> 58 -> Chunk d s) /\ esc_free s /\ HasDepth s (nest_pat p) /\ strip s <> [].
Proof.
  intros W H. destruct H as [p sc sb Hc Hb].
  destruct (wf_pat_body_inv p W) as [W1 W2]. pose proof (wf_body_of p W) as W3.
  destruct (conn_factsR _ _ W1 Hc) as [Cc [Ec Dc]]. destruct (body_factsR _ _ W3 Hb) as [Cb [Eb Db]].
  split; [|split; [|split]].
  - intros d Hd H46 H40 H58. apply Chunk_app; [apply Cc; assumption|apply Cb; assumption].
  - apply esc_free_app. split; assumption.
  - unfold nest_pat. apply HasDepth_app; assumption.
  - remember (dp_conn p) as c eqn:Eqc. destruct Hc as [|t st p1 p2 Ht B1 B2].
    + apply strip_ne_r. apply (body_strip_neR _ _) with (2 := Hb). destruct (dp_body p) as [o|o n a].
      * destruct W2 as [X1 X2]. split; [exact X1|]. intros E. apply (X2 E). reflexivity.
      * destruct W2 as [_ [_ [_ X4]]]. exact X4.
    + apply strip_ne_l, strip_ne_l.
      destruct (Rtext_facts t W1 st Ht) as [_ [S [N _]]]. rewrite S. exact N.
Qed.

(* ---- the parser on the pieces ------------------------------------------------------------------------------- *)
Lemma colon_someR rec st p1 p2 sb : strip st = st -> Chunk 58 st -> blank p1 -> blank p2 -> Chunk 58 sb ->
  strip ((st ++ p1 ++ 58 :: p2) ++ sb) <> [] ->
  parse_message_pattern rec (strip ((st ++ p1 ++ 58 :: p2) ++ sb)) = pmp_rest rec st (strip sb).
Proof.
  intros S C B1 B2 Cb N. rewrite pmp_unfold by exact N. rewrite split_pair_strip by reflexivity.
  replace ((st ++ p1 ++ 58 :: p2) ++ sb) with ((st ++ p1) ++ 58 :: (p2 ++ sb))
    by (repeat rewrite <- app_assoc; reflexivity).
  rewrite split_pair_two; [|reflexivity| |].
  - cbn [bind]. rewrite (strip_app_blank st p1 B1), (strip_blank_app p2 sb B2), S. reflexivity.
  - apply Chunk_app; [exact C|apply Chunk_blank; [reflexivity|exact B1]].
  - apply Chunk_app; [apply Chunk_blank; [reflexivity|exact B2]|exact Cb].
Qed.

Lemma colon_noneR rec sb : Chunk 58 sb -> strip sb <> [] ->
  parse_message_pattern rec (strip sb) = pmp_rest rec [42] (strip sb).
Proof.
  intros Cb N. rewrite pmp_unfold by exact N. rewrite split_pair_strip by reflexivity.
  rewrite split_pair_none by exact Cb. reflexivity.
Qed.

Lemma rest_bareR rec ct so : strip so = so -> Chunk 46 so -> Chunk 40 so ->
  pmp_rest rec ct (strip so) = pmp_bare rec ct so.
Proof.
  intros S C46 C40. rewrite S. unfold pmp_rest. rewrite split_pair_none by exact C46. cbn [bind].
  rewrite split_peren_none by exact C40. reflexivity.
Qed.

Lemma rest_dotR rec ct so p1 p2 rest : strip so = so -> Chunk 46 so -> blank p1 -> blank p2 -> Chunk 46 rest ->
  pmp_rest rec ct (strip (so ++ (p1 ++ 46 :: p2 ++ rest))) =
  (do per <- split_peren_at_end rest;
   match per with
   | Some (nt, at') => pmp_full rec ct so nt at'
   | None => pmp_full rec ct so (strip rest) []
   end).
Proof.
  intros S C B1 B2 Cr. unfold pmp_rest. rewrite split_pair_strip by reflexivity.
  replace (so ++ p1 ++ 46 :: p2 ++ rest) with ((so ++ p1) ++ 46 :: (p2 ++ rest))
    by (repeat rewrite <- app_assoc; reflexivity).
  rewrite split_pair_two; [|reflexivity| |].
  - cbn [bind]. rewrite (strip_app_blank so p1 B1), (strip_blank_app p2 rest B2), S.
    rewrite split_peren_strip. reflexivity.
  - apply Chunk_app; [exact C|apply Chunk_blank; [reflexivity|exact B1]].
  - apply Chunk_app; [apply Chunk_blank; [reflexivity|exact B2]|exact Cr].
Qed.

Lemma peren_someR x p sd : strip x = x -> Chunk 40 x -> blank p -> Bal 40 41 sd ->
  split_peren_at_end (x ++ p ++ 40 :: sd ++ [41]) = Ok (Some (x, lstrip sd)).
Proof.
  intros S C B Hb. rewrite app_assoc. rewrite split_peren_some; [|apply Chunk_app; [exact C|apply Chunk_blank; [reflexivity|exact B]]|exact Hb].
  rewrite (strip_app_blank x p B), S. reflexivity.
Qed.

Lemma rest_nodotR rec ct so p sd : strip so = so -> Chunk 46 so -> Chunk 40 so -> blank p -> Bal 40 41 sd ->
  pmp_rest rec ct (strip (so ++ p ++ 40 :: sd ++ [41])) = pmp_full rec ct so [] (lstrip sd).
Proof.
  intros S C46 C40 B Hb. unfold pmp_rest. rewrite split_pair_strip by reflexivity.
  rewrite split_pair_none.
  - cbn [bind]. rewrite split_peren_strip. rewrite peren_someR by assumption. reflexivity.
  - apply Chunk_app; [exact C46|]. apply Chunk_app; [apply Chunk_blank; [reflexivity|exact B]|].
    apply (Chunk_paren 46 sd []); [discriminate|exact Hb|constructor].
Qed.

Lemma full_okS f ct cm0 so om nt nm at' am ea :
  parse_text_matcher (parse_list f) ct = Ok cm0 -> parse_obj_matcher (parse_list f) so = Ok om ->
  parse_text_matcher (parse_list f) nt = Ok nm -> parse_args_list (parse_list f) at' = Ok am -> args_rel am ea ->
  exists m, pmp_full (parse_list f) ct so nt at' = Ok m /\ seq m (mk_pattern (MWrap WConn cm0) om nm ea).
Proof.
  intros H1 H2 H3 H4 [Q1 Q2]. unfold pmp_full. rewrite H1, H2, H3, H4. cbn [bind].
  eexists. split; [reflexivity|]. unfold mk_pattern. rewrite Q2. apply seq_pattern; try reflexivity. exact Q1.
Qed.

Lemma args_rel_true : args_rel (MAlways true) (MAlways true).
Proof. split; reflexivity. Qed.

(* ---- message patterns ----------------------------------------------------------------------------------------- *)
Theorem TR_pat p : wf_pat p = true -> mok_pat p = true -> forall s, Rpat p s ->
  forall f, (cnt91 s <= f)%nat ->
  exists m, parse_message_pattern (parse_list f) (strip s) = Ok m /\ seq m (elab_pat p).
Proof.
  intros W M s H f Hf.
  destruct (Rpat_facts p s W H) as [_ [_ [_ NE]]].
  destruct H as [p sc sb Hc Hb].
  destruct (wf_pat_body_inv p W) as [W1 W2]. pose proof (wf_body_of p W) as W3.
  destruct (body_factsR _ _ W3 Hb) as [Cb _].
  assert (C58 : Chunk 58 sb) by (apply Cb; [apply delim_58|discriminate|discriminate]).
  rewrite cnt91_app in Hf. unfold elab_pat, mok_pat in *. cbv zeta.
  set (cmx := match dp_conn p with Some t => elab_text t | None => MAlways true end).
  assert (CS : exists ct, parse_message_pattern (parse_list f) (strip (sc ++ sb)) = pmp_rest (parse_list f) ct (strip sb)
                 /\ parse_text_matcher (parse_list f) ct = Ok cmx).
  { unfold cmx. clear cmx. remember (dp_conn p) as c eqn:Eqc. destruct Hc as [|t st p1 p2 Ht B1 B2].
    - exists [42]. cbn [app] in *. split; [apply colon_noneR; assumption|reflexivity].
    - exists st. destruct (Rtext_facts t W1 st Ht) as [_ [S [_ [C _]]]]. split.
      + apply colon_someR; try assumption. apply C, delim_58.
      + apply TR_text; [exact W1|exact Ht|]. rewrite !cnt91_app in Hf. lia. }
  destruct CS as [ct [E1 E2]]. rewrite E1. clear E1 NE.
  remember (dp_body p) as b eqn:Eqb. destruct Hb as [o so Ho|o n a so sn sa Ho Hn Ha].
  - destruct W2 as [Wo _]. destruct (Robj_facts o Wo so Ho) as [_ [S [C _]]].
    rewrite rest_bareR; [|exact S|apply C, delim_46|apply C, delim_40].
    unfold pmp_bare. rewrite E2. cbn [bind]. rewrite (TR_obj o Wo so Ho f) by lia. cbn [bind].
    eexists. split; reflexivity.
  - destruct W2 as [Wo [Wn [Wa Hna]]]. destruct (Robj_facts o Wo so Ho) as [_ [S [C _]]].
    assert (EO : parse_obj_matcher (parse_list f) so = Ok (elab_obj o)) by (apply TR_obj; [exact Wo|exact Ho|rewrite !cnt91_app in Hf; lia]).
    destruct Hn as [|t st p1 p2 Ht B1 B2].
    + destruct Ha as [|d sd p0 Hd B]; [destruct Hna; congruence|]. cbn [app].
      destruct (Rargs_facts d sd Wa Hd) as [Gd _].
      rewrite rest_nodotR; [|exact S|apply C, delim_46|apply C, delim_40|exact B|apply Good_Bal4041, Gd].
      destruct (TR_args d Wa M sd Hd f) as [am [EA QA]].
      { change (40 :: sd ++ [41]) with ([40] ++ sd ++ [41]) in Hf. rewrite !cnt91_app in Hf. lia. }
      apply (full_okS f ct cmx so (elab_obj o) [] (MAlways true) (lstrip sd) am (elab_args d)); try assumption. reflexivity.
    + destruct (Rtext_facts t Wn st Ht) as [_ [St [_ [Ct _]]]].
      assert (ET : parse_text_matcher (parse_list f) st = Ok (elab_text t)).
      { apply TR_text; [exact Wn|exact Ht|]. change (46 :: p2 ++ st) with ([46] ++ p2 ++ st) in Hf. rewrite !cnt91_app in Hf. lia. }
      destruct (paren_factsR a sa Wa Ha) as [Ca _].
      replace (so ++ (p1 ++ 46 :: p2 ++ st) ++ sa) with (so ++ (p1 ++ 46 :: p2 ++ (st ++ sa)))
        by (rewrite <- ?app_assoc; cbn [app]; rewrite <- ?app_assoc; reflexivity).
      rewrite rest_dotR; [|exact S|apply C, delim_46|exact B1|exact B2|apply Chunk_app; [apply Ct, delim_46|apply Ca; [reflexivity|discriminate]]].
      destruct Ha as [|d sd p0 Hd B].
      * rewrite app_nil_r. rewrite split_peren_none by (apply Ct, delim_40). cbn [bind]. rewrite St.
        apply (full_okS f ct cmx so (elab_obj o) st (elab_text t) [] (MAlways true) (MAlways true)); try assumption; [reflexivity|apply args_rel_true].
      * destruct (Rargs_facts d sd Wa Hd) as [Gd _].
        rewrite peren_someR; [|exact St|apply Ct, delim_40|exact B|apply Good_Bal4041, Gd]. cbn [bind].
        destruct (TR_args d Wa M sd Hd f) as [am [EA QA]].
        { change (40 :: sd ++ [41]) with ([40] ++ sd ++ [41]) in Hf. rewrite !cnt91_app in Hf. lia. }
        apply (full_okS f ct cmx so (elab_obj o) st (elab_text t) (lstrip sd) am (elab_args d)); assumption.
Qed.

(* ---- the top level ------------------------------------------------------------------------------------------------ *)
Definition PF (p : dpat) (s : str) : Prop :=
  Chunk 33 s /\ Chunk 44 s /\ esc_free s /\ HasDepth s (nest_pat p) /\ strip s <> [].

Lemma pats_facts xs ss : forallb wf_pat xs = true -> Forall2 Rpat xs ss -> Forall2 PF xs ss.
Proof.
  intros W F. induction F as [|x s xs ss Hxs Hr IH]; [constructor|].
  cbn [forallb] in W. apply andb_true_iff in W. destruct W as [W1 W2].
  constructor; [|apply IH, W2]. destruct (Rpat_facts x s W1 Hxs) as [C [E [D N]]].
  split; [apply C; try discriminate; apply delim_33|]. split; [apply C; try discriminate; apply delim_44|]. auto.
Qed.

Lemma pats_strip_neR ps ns b : PB ps ns b -> (ps <> [] \/ ns <> []) -> (forall x r, ps = x :: r -> strip x <> []) -> strip b <> [].
Proof.
  intros HB Hne NP. destruct HB as [ps s HJ|ps n ns a b' Ha Hb].
  - destruct ps as [|x r]; [destruct Hne; congruence|]. apply (PJ_strip_ne x r s HJ), (NP x r eq_refl).
  - apply strip_ne_r, strip_ne_cons. reflexivity.
Qed.

Theorem parse_renders : forall e s, wf_top e = true -> mok_top e = true -> bracket_depth_ok e -> Renders e s ->
  exists m, parse s = Ok m /\ simplify m = simplify (elab e).
Proof.
  intros e s W M D H. destruct H as [p1 p2 B1 B2|p1 p2 B1 B2|pos neg ps ns b F1 F2 HB].
  - assert (He : esc_free (p1 ++ 42 :: p2)).
    { change (42 :: p2) with ([42] ++ p2). repeat (apply esc_free_app; split); try (apply esc_free_blank; assumption). reflexivity. }
    assert (S : strip (p1 ++ 42 :: p2) = [42]).
    { rewrite strip_blank_app by exact B1. change (42 :: p2) with ([42] ++ p2). rewrite strip_app_blank by exact B2. reflexivity. }
    rewrite (parse_unfold _ [42] He S); [|discriminate|reflexivity].
    eexists. split; [vm_compute; reflexivity|vm_compute; reflexivity].
  - assert (He : esc_free (p1 ++ 33 :: p2)).
    { change (33 :: p2) with ([33] ++ p2). repeat (apply esc_free_app; split); try (apply esc_free_blank; assumption). reflexivity. }
    assert (S : strip (p1 ++ 33 :: p2) = [33]).
    { rewrite strip_blank_app by exact B1. change (33 :: p2) with ([33] ++ p2). rewrite strip_app_blank by exact B2. reflexivity. }
    rewrite (parse_unfold _ [33] He S); [|discriminate|reflexivity].
    eexists. split; [vm_compute; reflexivity|vm_compute; reflexivity].
  - cbn [wf_top] in W. apply andb_true_iff in W. destruct W as [W W3].
    apply andb_true_iff in W. destruct W as [W1 W2].
    cbn [mok_top] in M. apply andb_true_iff in M. destruct M as [M1 M2].
    apply ne_of_match in W3.
    pose proof (pats_facts pos ps W1 F1) as T1. pose proof (pats_facts neg ns W2 F2) as T2.
    assert (He : esc_free b).
    { apply (PB_esc_free _ _ _ HB); [apply (Forall2_r_Forall PF _ _ _ T1)|apply (Forall2_r_Forall PF _ _ _ T2)]; intros x s K; apply K. }
    assert (Hne : ps <> [] \/ ns <> []).
    { destruct W3 as [W3|W3]; [left|right]; intros E; [apply (Forall2_nil_iff _ _ _ F1) in E|apply (Forall2_nil_iff _ _ _ F2) in E]; congruence. }
    assert (NE : strip b <> []).
    { apply (pats_strip_neR _ _ _ HB Hne). intros x r ->. inversion T1; subst. match goal with K : PF _ x |- _ => apply K end. }
    assert (HD : HasDepth b (Nat.max (lmax nest_pat pos) (lmax nest_pat neg))).
    { apply (PB_depth nest_pat _ _ _ _ _ HB).
      - revert T1. apply Forall2_impl'. intros x s K. apply K.
      - revert T2. apply Forall2_impl'. intros x s K. apply K. }
    assert (DD : Nat.leb (bracket_depth (strip b) 0 0) max_depth = true).
    { rewrite bd_strip, (HasDepth_total _ _ HD). apply Nat.leb_le. exact D. }
    rewrite (parse_unfold b (strip b) He eq_refl NE DD).
    cbn [parse_list]. rewrite pml_strip.
    change (parse_matcher_list_with (parse_list (List.length (strip b))) KPattern b)
      with (parse_list (S (List.length (strip b))) KPattern b).
    cbn [elab].
    apply (level_listR_seq Rpat KPattern elab_pat pos neg ps ns b _ (MAlways true) F1 F2 HB);
      [| |reflexivity|reflexivity|exact W3].
    + intros x s Hx Hs Hr. pose proof (forallb_In_app _ _ _ _ W1 W2 Hx) as Wx.
      destruct (Rpat_facts x s Wx Hr) as [C _]. split; apply C; try discriminate; [apply delim_33|apply delim_44].
    + intros x s Hx Hs Hr. pose proof (forallb_In_app _ _ _ _ W1 W2 Hx) as Wx.
      pose proof (forallb_In_app _ _ _ _ M1 M2 Hx) as Mx. cbn [parse_item].
      apply TR_pat; try assumption.
      pose proof (PB_cnt91 _ _ _ _ HB Hs). pose proof (cnt91_le_length (strip b)). rewrite cnt91_strip in *. lia.
Qed.

Print Assumptions parse_renders.
