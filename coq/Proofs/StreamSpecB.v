(* StreamSpecB.v — C08 and C06 lifted to whole streams, part B: streams from the initial state.

   A REFERENCE RESOLVER ([rstate], [ref_arrive]) says what a message line is resolved to, with no
   controller, no notices, no separators and no commands in it: the connections are the distinct
   identifiers in order of first appearance (index i is named by the i-th letter word), each with
   its own object table; a line tagged [id] is resolved by [resolve_msg] against the table of
   [id]'s connection at the time stamp relative to the first message of the stream; an exception
   other than RuntimeError switches decoding off for the rest of the stream.

   [ref_exact]           the model's per-connection step agrees with the reference resolver on every
                         message line of every stream of message lines, text lines and commands.
   [one_item_per_line]   C08: filter `*`, no selection, breakpoint `!`: event by event, the items
                         of the run are [ref_items]: text line -> its passthrough item; message
                         line -> the message item (connection index, resolved message, rendering),
                         or the RuntimeError text in passthrough shape, or the traceback + error
                         line; nothing once decoding is off.
   [supress_removes_exactly_passthrough]  the --supress variant.
   [exactly_one_item]    decoding still on at the end (e.g. all messages [wf_msg]) and no
                         --supress: every line yields exactly one item.
   [live_view_event_ref] C06 over whole streams with commands: the message items printed by the
                         k-th event are the reference resolver's (ci, m) iff it matches the filter
                         and passes the selection in force just before event k. *)
From WD Require Import Base Wire Protocol Conn Color LetterId Matcher MatcherParse Show Session.
From WD Require Import ProtocolProofs LetterIdProofs ControllerProofs SessionProofs ConnMgrProofs IsolationRuns.
From WD Require Import StreamSpecA.
From Coq Require Import Lia.
Open Scope Z_scope.

(* ---- the reference resolver -------------------------------------------------------------------- *)
Record rstate := mkR {
  r_base : option Z;               (* time of the first message line *)
  r_conns : list (str * db);       (* identifier and object table, in order of first appearance *)
  r_on : bool }.                   (* decoding still on *)
Definition R0 : rstate := mkR None [] true.

Fixpoint index_of (id : str) (l : list (str * db)) : option (nat * db) :=
  match l with
  | [] => None
  | (k, d) :: l' =>
      if str_eqb k id then Some (O, d)
      else match index_of id l' with Some (j, d') => Some (S j, d') | None => None end
  end.

Section Ref.
Variable P : pdb.

Definition ref_arrive (R : rstate) (id : str) (m : pmsg) : rstate * outcome :=
  let b' := fst (rel_time (r_base R) (p_time m)) in
  let rel := snd (rel_time (r_base R) (p_time m)) in
  if negb (r_on R) then (mkR b' (r_conns R) false, AOff) else
  let '(ci, d, conns1) :=
    match index_of id (r_conns R) with
    | Some (i, d) => (i, d, r_conns R)
    | None => (List.length (r_conns R), db_init, r_conns R ++ [(id, db_init)])
    end in
  let res := resolve_msg P d rel m in
  let d' := fst (fst res) in
  let rm := snd (fst res) in
  let conns' := update_nth ci (fun p => (fst p, d')) conns1 in
  match snd res with
  | None => (mkR b' conns' true, ADelivered ci (conn_name (N.of_nat ci)) d' rm)
  | Some (RuntimeError, msg) => (mkR b' conns' true, ASoft msg)
  | Some _ => (mkR b' conns' false, AHard)
  end.

Definition ref_step (R : rstate) (e : event) : rstate :=
  match e with EMsg id m => fst (ref_arrive R id m) | _ => R end.
Definition ref_run (R : rstate) (evs : list event) : rstate := fold_left ref_step evs R.

(* the items the property demands, event by event *)
Fixpoint ref_items (on unprocessed : bool) (R : rstate) (evs : list event) : list (list oline) :=
  match evs with
  | [] => []
  | e :: evs' =>
      (match e with
       | EMsg id m => line_items on unprocessed (snd (ref_arrive R id m))
       | EText t => pass_items on unprocessed t
       | _ => []
       end) :: ref_items on unprocessed (ref_step R e) evs'
  end.

(* ---- lists ---------------------------------------------------------------------------------------- *)
Lemma str_eqb_sym a b : str_eqb a b = str_eqb b a.
Proof.
  destruct (str_eqb a b) eqn:E.
  - apply str_eqb_eq in E. subst. symmetry. apply str_eqb_refl.
  - apply str_eqb_neq in E. symmetry. apply str_eqb_neq. congruence.
Qed.

Lemma existsb_str_in id l : existsb (str_eqb id) l = true <-> In id l.
Proof.
  rewrite existsb_exists. split.
  - intros (x & Hin & E). apply str_eqb_eq in E. subst. exact Hin.
  - intros H. exists id. split; [exact H|apply str_eqb_refl].
Qed.

Lemma index_of_none id l : index_of id l = None <-> ~ In id (map fst l).
Proof.
  induction l as [|[k d] l IH]; cbn [index_of map fst In]; [tauto|].
  destruct (str_eqb k id) eqn:E.
  - apply str_eqb_eq in E. split; [discriminate|]. intros H. exfalso. apply H. left. exact E.
  - apply str_eqb_neq in E. destruct (index_of id l) as [[j d']|].
    + split; [discriminate|]. intros H. exfalso. apply (proj1 (not_iff_compat IH)); [discriminate|].
      intros Hin. apply H. right. exact Hin.
    + split; [|reflexivity]. intros _ [H|H]; [contradiction|]. apply (proj1 IH eq_refl). exact H.
Qed.

Lemma index_of_some id l : forall j d, index_of id l = Some (j, d) -> nth_error l j = Some (id, d).
Proof.
  induction l as [|[k d0] l IH]; intros j d H; cbn [index_of] in H; [discriminate|].
  destruct (str_eqb k id) eqn:E.
  - injection H as <- <-. apply str_eqb_eq in E. subst. reflexivity.
  - destruct (index_of id l) as [[j' d']|]; [|discriminate]. injection H as <- <-.
    cbn [nth_error]. apply IH. reflexivity.
Qed.

Lemma index_of_app_new id l d : index_of id l = None -> index_of id (l ++ [(id, d)]) = Some (List.length l, d).
Proof.
  induction l as [|[k d0] l IH]; intros H; cbn [index_of app List.length] in *.
  - rewrite str_eqb_refl. reflexivity.
  - destruct (str_eqb k id); [discriminate|].
    destruct (index_of id l) as [[j d']|]; [discriminate|]. rewrite IH by reflexivity. reflexivity.
Qed.

Lemma NoDup_snoc {A} (l : list A) x : NoDup l -> ~ In x l -> NoDup (l ++ [x]).
Proof.
  induction l as [|a l IH]; intros Hd Hn; cbn [app].
  - constructor; [intros []|constructor].
  - inversion Hd as [|a' l' Ha Hl]; subst. constructor.
    + intros Hin. apply in_app_or in Hin. destruct Hin as [H|[H|[]]]; [contradiction|].
      subst. apply Hn. left. reflexivity.
    + apply IH; [exact Hl|]. intros H. apply Hn. right. exact H.
Qed.

Definition cview (c : connst) : str * db := (c_id c, c_db c).

Lemma map_fst_cview cs : map fst (map cview cs) = map c_id cs.
Proof. rewrite map_map. reflexivity. Qed.

(* with every connection open and identifiers distinct, the model's lookup is the index of the
   identifier *)
Lemma find_open_index cs : forall i0 id,
  Forall (fun c => c_open c = true) cs -> NoDup (map c_id cs) ->
  find_open_from i0 cs id =
  match index_of id (map cview cs) with Some (j, _) => Some (i0 + j)%nat | None => None end.
Proof.
  induction cs as [|c cs IH]; intros i0 id Ho Hd; [reflexivity|].
  inversion Ho as [|c' cs' Hoc Hocs]; subst. inversion Hd as [|c' cs' Hni Hnd]; subst.
  cbn [find_open_from map index_of]. unfold cview at 1. rewrite (IH (S i0) id Hocs Hnd).
  destruct (str_eqb (c_id c) id) eqn:E.
  - apply str_eqb_eq in E. subst id.
    assert (X : index_of (c_id c) (map cview cs) = None).
    { apply index_of_none. rewrite map_fst_cview. exact Hni. }
    rewrite X, Hoc. cbn [andb]. f_equal. lia.
  - destruct (index_of id (map cview cs)) as [[j d']|].
    + f_equal. lia.
    + rewrite andb_false_r. reflexivity.
Qed.

Lemma update_nth_map {A B} (f : A -> B) (g : A -> A) (h : B -> B) l :
  (forall a, f (g a) = h (f a)) -> forall n, map f (update_nth n g l) = update_nth n h (map f l).
Proof.
  intros H. induction l as [|x l IH]; intros [|n]; cbn [update_nth map]; try reflexivity.
  - rewrite H. reflexivity.
  - rewrite IH. reflexivity.
Qed.

Lemma update_nth_forall {A} (Q : A -> Prop) (g : A -> A) l :
  (forall a, Q a -> Q (g a)) -> Forall Q l -> forall n, Forall Q (update_nth n g l).
Proof.
  intros H F. induction F as [|x l Hx F IH]; intros [|n]; cbn [update_nth]; constructor; auto.
Qed.

(* update_nth n (fun _ => g c) where c is the element at n: the same as update_nth n g *)
Lemma update_nth_const {A} (g : A -> A) l : forall n c, nth_error l n = Some c ->
  update_nth n (fun _ => g c) l = update_nth n g l.
Proof.
  induction l as [|x l IH]; intros [|n] c H; cbn [nth_error update_nth] in *; try discriminate.
  - injection H as ->. reflexivity.
  - f_equal. apply IH. exact H.
Qed.

Lemma names_ok_nth s k c : names_ok s -> nth_error (s_conns s) k = Some c -> c_name c = conn_name (N.of_nat k).
Proof.
  intros [A _] Hk.
  assert (X : nth_error (map c_name (s_conns s)) k = Some (c_name c)) by (rewrite nth_error_map, Hk; reflexivity).
  rewrite A in X. unfold names_list in X. rewrite nth_error_map in X.
  assert (Hlt : (k < List.length (s_conns s))%nat) by (apply nth_error_Some; congruence).
  rewrite (nth_error_nth' _ 0%nat) in X by (rewrite seq_length; exact Hlt).
  rewrite seq_nth in X by exact Hlt. cbn in X. injection X as X. symmetry. exact X.
Qed.

(* ---- the simulation invariant -------------------------------------------------------------------- *)
(* only what [record_of] keeps enters: commands cannot disturb it *)
Definition sims (s : sess) (conns : list (str * db)) (on : bool) : Prop :=
  s_parse s = on /\
  map cview (s_conns s) = conns /\
  Forall (fun c => c_open c = true) (s_conns s) /\
  names_ok s /\
  s_known s = map c_id (s_conns s) /\
  NoDup (s_known s).

Definition sim (T : top) (R : rstate) : Prop :=
  t_base T = r_base R /\ sims (t_sess T) (r_conns R) (r_on R).

Lemma sims_record s s' conns on : record_of s' = record_of s -> sims s conns on -> sims s' conns on.
Proof.
  unfold record_of. intros E. injection E as E1 E2 _ E4 E5.
  unfold sims, names_ok. rewrite E1, E2, E4, E5. exact (fun H => H).
Qed.

Lemma sim_init d st c u g : sim (top0 d st c u g) R0.
Proof.
  split; [reflexivity|]. unfold sims. cbn. repeat split; try constructor.
Qed.

Lemma sims_lookup s conns on id :
  sims s conns on ->
  match index_of id conns with
  | None => known s id = false /\ find_open s id = None
  | Some (i, d) =>
      known s id = true /\ find_open s id = Some i /\
      exists c, nth_error (s_conns s) i = Some c /\ c_id c = id /\ c_db c = d /\
                c_name c = conn_name (N.of_nat i)
  end.
Proof.
  intros (Hp & Hc & Ho & Hn & Hk & Hd).
  assert (F : find_open s id = match index_of id conns with Some (j, _) => Some j | None => None end).
  { unfold find_open. rewrite find_open_index; [|exact Ho|rewrite <- Hk; exact Hd]. rewrite Hc.
    destruct (index_of id conns) as [[j d]|]; reflexivity. }
  destruct (index_of id conns) as [[i d]|] eqn:E.
  - pose proof (index_of_some _ _ _ _ E) as Hnth. rewrite <- Hc in Hnth. rewrite nth_error_map in Hnth.
    destruct (nth_error (s_conns s) i) as [c|] eqn:En; [|discriminate]. cbn [option_map] in Hnth.
    unfold cview in Hnth. injection Hnth as Hid Hdb.
    split; [|split; [exact F|]].
    + unfold known. apply existsb_str_in. rewrite Hk, <- Hid.
      apply in_map. eapply nth_error_In. exact En.
    + exists c. repeat split; try assumption. eapply names_ok_nth; eassumption.
  - split; [|exact F]. unfold known.
    destruct (existsb (str_eqb id) (s_known s)) eqn:Ex; [|reflexivity].
    apply existsb_str_in in Ex. apply index_of_none in E. exfalso. apply E.
    rewrite <- Hc, map_fst_cview, <- Hk. exact Ex.
Qed.

(* ---- the step before delivery: a new identifier gets a connection ----------------------------- *)
Definition open_ref (id : str) (conns : list (str * db)) : list (str * db) :=
  match index_of id conns with Some _ => conns | None => conns ++ [(id, db_init)] end.

Lemma close_conn_none s id : find_open s id = None -> close_conn s id = (s, []).
Proof. intros H. unfold close_conn. rewrite H. reflexivity. Qed.

Lemma pre_open_sims s conns on id rel m :
  sims s conns on ->
  sims (pre_open s id rel m) (open_ref id conns) on /\
  Forall (fun o => is_open_notice o = true) (notices s id rel m).
Proof.
  intros H. pose proof (sims_lookup s conns on id H) as L.
  unfold pre_open, notices, open_ref.
  destruct (index_of id conns) as [[i d]|] eqn:E.
  - destruct L as (-> & _). split; [exact H|constructor].
  - destruct L as (Hkn & Hf). rewrite Hkn.
    set (s1 := set_last s rel).
    assert (H1 : sims s1 conns on) by exact H.
    assert (Hf1 : find_open s1 id = None) by exact Hf.
    destruct (open_conn_spec s1 id (is_get_registry m)) as (Hc & Hnx & Hout).
    rewrite (close_conn_none s1 id Hf1) in Hc, Hout. cbn [fst snd app] in Hc, Hout.
    pose proof (open_conn_names s1 id (is_get_registry m) (proj1 (proj2 (proj2 (proj2 H1))))) as Hnames.
    destruct (open_conn_block s1 id (is_get_registry m)) as (_ & Hkn' & Hp' & _). cbn zeta in Hkn', Hp'.
    destruct H1 as (Hp & Hcv & Ho & _ & Hk & Hd).
    split.
    + unfold sims, add_known. cbn [s_parse s_conns s_known].
      split; [rewrite Hp'; exact Hp|].
      split; [rewrite Hc, map_app, Hcv; reflexivity|].
      split; [rewrite Hc; apply Forall_app; split; [exact Ho|constructor; [reflexivity|constructor]]|].
      split; [exact Hnames|].
      split; [rewrite Hc, Hkn', map_app, Hk; reflexivity|].
      rewrite Hkn'. apply NoDup_snoc; [exact Hd|].
      intros Hin. apply existsb_str_in in Hin. unfold known in Hkn. unfold s1, set_last in Hin.
      cbn [s_known] in Hin. congruence.
    + rewrite Hout. constructor; [apply is_open_notice_new|constructor].
Qed.


(* ---- delivery ------------------------------------------------------------------------------------ *)
Lemma conn_step_db c rel m : c_db (conn_step P c rel m) = fst (fst (resolve_msg P (c_db c) rel m)).
Proof.
  unfold conn_step. destruct (resolve_msg P (c_db c) rel m) as [[d' rm] err]. cbn [fst].
  destruct err; [reflexivity|]. unfold title_update. cbn [c_id c_title c_app_id c_name c_server c_open c_db c_msgs].
  repeat match goal with
         | |- context [if ?b then _ else _] => destruct b
         | |- context [match ?x with _ => _ end] => destruct x
         end; reflexivity.
Qed.

Lemma finish_fields r :
  let s' := fst (fst (fst r)) in
  s_conns (finish r) = s_conns s' /\ s_next (finish r) = s_next s' /\ s_known (finish r) = s_known s' /\
  s_parse (finish r) = s_parse s' && negb (fatal (snd (fst r))).
Proof.
  unfold finish. destruct (fatal (snd (fst r))); cbn [parse_off s_conns s_next s_known s_parse negb];
    rewrite ?andb_true_r, ?andb_false_r; repeat split.
Qed.

Lemma map_update_nth_at {A B} (f : A -> B) (h : B -> B) (c' : A) l : forall n c,
  nth_error l n = Some c -> f c' = h (f c) ->
  map f (update_nth n (fun _ => c') l) = update_nth n h (map f l).
Proof.
  induction l as [|x l IH]; intros [|n] c Hn Hf; cbn [nth_error update_nth map] in *; try discriminate.
  - injection Hn as ->. rewrite Hf. reflexivity.
  - f_equal. exact (IH n c Hn Hf).
Qed.

Lemma map_update_nth_same {A B} (f : A -> B) (c' : A) l : forall n c,
  nth_error l n = Some c -> f c' = f c -> map f (update_nth n (fun _ => c') l) = map f l.
Proof.
  induction l as [|x l IH]; intros [|n] c Hn Hf; cbn [nth_error update_nth map] in *; try discriminate.
  - injection Hn as ->. rewrite Hf. reflexivity.
  - f_equal. exact (IH n c Hn Hf).
Qed.

Lemma deliver_sims s2 conns1 id rel m ci d :
  sims s2 conns1 true -> index_of id conns1 = Some (ci, d) ->
  let res := resolve_msg P d rel m in
  sims (finish (conn_message P s2 id rel m))
       (update_nth ci (fun p => (fst p, fst (fst res))) conns1) (negb (fatal (snd res))) /\
  exists c, find_open s2 id = Some ci /\ nth_error (s_conns s2) ci = Some c /\ c_db c = d /\
            c_name c = conn_name (N.of_nat ci).
Proof.
  intros H E res. pose proof (sims_lookup s2 conns1 true id H) as L. rewrite E in L.
  destruct L as (_ & Hf & c & Hn & Hid & Hdb & Hname).
  pose proof (conn_message_cases P s2 id rel m) as C. rewrite Hf in C.
  destruct C as (c0 & Hn0 & _ & Hcs & Hkn & Hpp & Herr). rewrite Hn in Hn0. injection Hn0 as <-.
  cbn zeta in Hcs, Hkn, Hpp, Herr.
  destruct H as (Hp & Hcv & Ho & Hnm & Hk & Hd).
  pose proof (conn_message_names P s2 id rel m Hnm) as Hnm'.
  destruct (finish_fields (conn_message P s2 id rel m)) as (F1 & F2 & F3 & F4). cbn zeta in F1, F2, F3, F4.
  split; [|exists c; repeat split; assumption].
  unfold sims.
  split; [rewrite F4, Hpp, Hp, Herr, Hdb; reflexivity|].
  split.
  { rewrite F1, Hcs, <- Hcv. apply (map_update_nth_at cview _ _ _ ci c Hn).
    unfold cview. rewrite conn_step_id, conn_step_db, Hdb. reflexivity. }
  split.
  { rewrite F1, Hcs. apply update_nth_forall; [|exact Ho]. intros _ _. rewrite conn_step_open.
    rewrite Forall_forall in Ho. apply Ho. eapply nth_error_In. exact Hn. }
  split.
  { destruct Hnm' as [N1 N2]. unfold names_ok. rewrite F1, F2. split; assumption. }
  split.
  { rewrite F3, F1, Hkn, Hk, Hcs. symmetry. apply (map_update_nth_same c_id _ _ ci c Hn). apply conn_step_id. }
  rewrite F3, Hkn. exact Hd.
Qed.

Lemma ref_arrive_base R id m : r_base (fst (ref_arrive R id m)) = fst (rel_time (r_base R) (p_time m)).
Proof.
  unfold ref_arrive. destruct (negb (r_on R)); [reflexivity|].
  destruct (index_of id (r_conns R)) as [[i d]|].
  - destruct (snd (resolve_msg P d _ m)) as [[[] msg]|]; reflexivity.
  - destruct (snd (resolve_msg P db_init _ m)) as [[[] msg]|]; reflexivity.
Qed.

(* one message line: the model's state follows the reference resolver, and the model's
   per-connection step resolves exactly what the reference resolver says *)
Lemma log_message_sims s R id m :
  let rel := snd (rel_time (r_base R) (p_time m)) in
  sims s (r_conns R) (r_on R) ->
  sims (fst (log_message P s id rel m)) (r_conns (fst (ref_arrive R id m))) (r_on (fst (ref_arrive R id m))) /\
  arrival P s id rel m = snd (ref_arrive R id m) /\
  Forall (fun o => is_open_notice o = true) (notices s id rel m).
Proof.
  intros rel H. destruct (pre_open_sims s _ _ id rel m H) as [H2 Hnot].
  split; [|split; [|exact Hnot]]; unfold ref_arrive; fold rel; destruct (r_on R) eqn:Eon; cbn [negb].
  - assert (Hp : s_parse s = true) by exact (proj1 H).
    rewrite (log_message_eq P s id rel m Hp).
    assert (X : exists ci d, match index_of id (r_conns R) with
                             | Some (i, d) => (i, d, r_conns R)
                             | None => (List.length (r_conns R), db_init, r_conns R ++ [(id, db_init)])
                             end = (ci, d, open_ref id (r_conns R)) /\
                             index_of id (open_ref id (r_conns R)) = Some (ci, d)).
    { unfold open_ref. destruct (index_of id (r_conns R)) as [[i d]|] eqn:E.
      - exists i, d. split; [reflexivity|exact E].
      - eexists _, _. split; [reflexivity|]. apply index_of_app_new. exact E. }
    destruct X as (ci & d & -> & E).
    destruct (deliver_sims _ _ id rel m ci d H2 E) as (S & _). cbn zeta in S.
    destruct (resolve_msg P d rel m) as [[d' rm] err]. cbn [fst snd] in *.
    destruct err as [[[] msg]|]; cbn [fst r_conns r_on fatal negb] in *; exact S.
  - assert (Hp : s_parse s = false) by exact (proj1 H).
    rewrite (log_message_off P s id rel m Hp). exact H.
  - assert (Hp : s_parse s = true) by exact (proj1 H).
    assert (X : exists ci d, match index_of id (r_conns R) with
                             | Some (i, d) => (i, d, r_conns R)
                             | None => (List.length (r_conns R), db_init, r_conns R ++ [(id, db_init)])
                             end = (ci, d, open_ref id (r_conns R)) /\
                             index_of id (open_ref id (r_conns R)) = Some (ci, d)).
    { unfold open_ref. destruct (index_of id (r_conns R)) as [[i d]|] eqn:E.
      - exists i, d. split; [reflexivity|exact E].
      - eexists _, _. split; [reflexivity|]. apply index_of_app_new. exact E. }
    destruct X as (ci & d & -> & E).
    destruct (deliver_sims _ _ id rel m ci d H2 E) as (_ & c & Hf & Hn & Hdb & Hname).
    pose proof (arrival_cases P s id rel m Hp ci c Hf Hn) as AC. rewrite Hdb in AC.
    destruct (resolve_msg P d rel m) as [[d' rm] err]. cbn [fst snd]. rewrite AC, Hname.
    destruct err as [[[] msg]|]; reflexivity.
  - assert (Hp : s_parse s = false) by exact (proj1 H).
    unfold arrival. rewrite Hp. reflexivity.
Qed.

Lemma sim_step_msg T R id m :
  sim T R ->
  sim (fst (step P T (EMsg id m))) (fst (ref_arrive R id m)) /\
  arrival_top P T id m = snd (ref_arrive R id m) /\
  Forall (fun o => is_open_notice o = true)
         (notices (t_sess T) id (snd (rel_time (t_base T) (p_time m))) m).
Proof.
  intros [Hb Hs]. destruct (step_msg P T id m) as [S1 S2].
  unfold arrival_top. rewrite Hb.
  destruct (log_message_sims (t_sess T) R id m Hs) as (A1 & A2 & A3). cbn zeta in A1, A2, A3.
  split; [|split; assumption].
  split; [rewrite S1, Hb, ref_arrive_base; reflexivity|]. rewrite S2, Hb. exact A1.
Qed.

Lemma sim_step_other T R e : log_event e = true -> (forall i m, e <> EMsg i m) ->
  sim T R -> sim (fst (step P T e)) R.
Proof.
  intros Hl Hn [Hb Hs]. destruct (step_nonmsg P T e Hl Hn) as [B Rc]. cbn zeta in B, Rc.
  split; [rewrite B; exact Hb|]. eapply sims_record; [exact Rc|exact Hs].
Qed.

Lemma sim_step T R e : log_event e = true -> sim T R -> sim (fst (step P T e)) (ref_step R e).
Proof.
  intros Hl H. destruct e as [id m|t|cm| | | | | | | ]; try discriminate.
  - apply sim_step_msg. exact H.
  - apply sim_step_other; [reflexivity|intros; discriminate|exact H].
  - apply sim_step_other; [reflexivity|intros; discriminate|exact H].
Qed.

Lemma sim_run evs : forall T R, forallb log_event evs = true -> sim T R ->
  sim (fst (run P T evs)) (ref_run R evs).
Proof.
  induction evs as [|e evs IH]; intros T R Hl H; [exact H|].
  cbn [forallb] in Hl. apply andb_true_iff in Hl. destruct Hl as [Hle Hl].
  rewrite run_cons. cbn [ref_run fold_left]. apply IH; [exact Hl|]. apply sim_step; assumption.
Qed.

Lemma forallb_firstn {A} (f : A -> bool) l : forall n, forallb f l = true -> forallb f (firstn n l) = true.
Proof.
  induction l as [|x l IH]; intros [|n] H; cbn [firstn forallb] in *; try reflexivity.
  apply andb_true_iff in H. destruct H as [H1 H2]. rewrite H1, (IH n H2). reflexivity.
Qed.

(* THE MODEL'S PER-CONNECTION STEP IS THE REFERENCE RESOLVER, on every message line of every stream
   of message lines, text lines and commands from the initial state *)
Theorem ref_exact d st c u g evs k id m :
  forallb log_event evs = true -> nth_error evs k = Some (EMsg id m) ->
  arrival_top P (fst (run P (top0 d st c u g) (firstn k evs))) id m =
  snd (ref_arrive (ref_run R0 (firstn k evs)) id m).
Proof.
  intros Hl _.
  pose proof (sim_run (firstn k evs) (top0 d st c u g) R0 (forallb_firstn _ _ k Hl) (sim_init d st c u g)) as S.
  apply (sim_step_msg _ _ id m S).
Qed.

(* ---- C06 over whole streams, closed form --------------------------------------------------------- *)
Theorem live_view_event_ref d st c u g evs k id m :
  forallb log_event evs = true -> nth_error evs k = Some (EMsg id m) ->
  let T0 := top0 d st c u g in
  let kc := s_ctrl (t_sess (fst (run P T0 (firstn k evs)))) in
  exists o, nth_error (snd (run P T0 evs)) k = Some o /\
            shown_msgs o = live_spec kc (snd (ref_arrive (ref_run R0 (firstn k evs)) id m)).
Proof.
  intros Hl He T0 kc. destruct (live_view_event P T0 evs k id m He) as (o & Ho & Hs).
  exists o. split; [exact Ho|]. rewrite Hs. unfold T0. rewrite (ref_exact d st c u g evs k id m Hl He).
  reflexivity.
Qed.

(* ---- C08 over whole streams ------------------------------------------------------------------------ *)
Definition line_event (e : event) : bool :=
  match e with EMsg _ _ | EText _ => true | _ => false end.

Definition flags (on u : bool) (s : sess) : Prop :=
  star_ctrl (s_ctrl s) /\ s_color s = on /\ s_unprocessed s = u.

Lemma conn_message_keeps s id rel m :
  let s' := fst (fst (fst (conn_message P s id rel m))) in
  k_display (s_ctrl s') = k_display (s_ctrl s) /\ k_stop (s_ctrl s') = k_stop (s_ctrl s) /\
  k_current (s_ctrl s') = k_current (s_ctrl s) /\ s_color s' = s_color s /\ s_unprocessed s' = s_unprocessed s.
Proof.
  unfold conn_message. destruct (find_open s id) as [i|]; [|repeat split].
  destruct (nth_error (s_conns s) i) as [c|]; [|repeat split].
  destruct (resolve_msg P (c_db c) rel m) as [[d' rm] err]. destruct err as [e|]; [repeat split|].
  pose proof (ctrl_on_message_keeps (s_color s) (s_ctrl s) i d' (c_name c) rm) as K. cbn zeta in K.
  destruct (ctrl_on_message (s_color s) (s_ctrl s) i d' (c_name c) rm) as [[k' outs] stop].
  cbn [fst] in K. destruct K as (K1 & K2 & K3).
  destruct stop; cbn [fst set_pause set_ctrl set_conns s_ctrl s_color s_unprocessed]; repeat split; assumption.
Qed.

Lemma log_message_flags on u s id rel m : flags on u s -> flags on u (fst (log_message P s id rel m)).
Proof.
  intros ((Hd & Hs & Hc) & Hcol & Hun). destruct (s_parse s) eqn:Hp.
  2: { rewrite log_message_off by exact Hp. repeat split; assumption. }
  rewrite log_message_eq by exact Hp.
  destruct (pre_open_misc s id rel m) as (Pk & Pc & Pu). cbn zeta in Pk, Pc, Pu.
  destruct (conn_message_keeps (pre_open s id rel m) id rel m) as (K1 & K2 & K3 & K4 & K5).
  cbn zeta in K1, K2, K3, K4, K5. rewrite Pk in K1, K2, K3. rewrite Pc in K4. rewrite Pu in K5.
  unfold finish. destruct (fatal _); unfold flags, star_ctrl, parse_off; cbn [s_ctrl s_color s_unprocessed];
    rewrite K1, K2, K3, K4, K5; repeat split; assumption.
Qed.

Lemma items_run on u evs : forall T R,
  forallb line_event evs = true -> sim T R -> flags on u (t_sess T) ->
  map items1 (snd (run P T evs)) = ref_items on u R evs.
Proof.
  induction evs as [|e evs IH]; intros T R Hl Hsim Hfl; [reflexivity|].
  cbn [forallb] in Hl. apply andb_true_iff in Hl. destruct Hl as [Hle Hl].
  rewrite run_snd_cons. cbn [map ref_items].
  destruct Hfl as (Hstar & Hcol & Hun).
  destruct e as [id m|t| | | | | | | | ]; try discriminate.
  - destruct (sim_step_msg T R id m Hsim) as (Hsim' & Ha & Hn). unfold arrival_top in Ha.
    f_equal.
    + rewrite step_msg_out. rewrite (star_line_items P _ _ _ _ Hstar Hn). rewrite Ha, Hcol, Hun. reflexivity.
    + apply IH; [exact Hl|exact Hsim'|]. destruct (step_msg P T id m) as [_ S2]. rewrite S2.
      apply log_message_flags. exact (conj Hstar (conj Hcol Hun)).
  - rewrite text_passthrough. cbn [fst snd ref_step]. rewrite Hcol, Hun. f_equal.
    + exact (items1_pass on u t).
    + apply IH; [exact Hl|exact Hsim|exact (conj Hstar (conj Hcol Hun))].
Qed.

Lemma flags_init on u g : flags on u (t_sess (top0 (MAlways true) (MAlways false) on u g)).
Proof. repeat split. Qed.

(* C08.  Filter `*`, no selection, breakpoint `!`; any colour switch, any --supress switch.
   For every stream of message lines and text lines, EVENT BY EVENT, what the run prints apart from
   connection-opened notices and time-gap separators is what the reference resolver demands:
     text line t                         -> the passthrough item of t          (nothing under --supress)
     message line, decoding on, resolved -> the message item: connection index, resolved message, rendering
     message line, RuntimeError msg      -> the passthrough item of msg        (nothing under --supress)
     message line, other exception       -> traceback + error line; decoding goes off
     message line, decoding off          -> nothing *)
Theorem one_item_per_line on u g evs :
  forallb line_event evs = true ->
  map items1 (snd (run P (top0 (MAlways true) (MAlways false) on u g) evs)) = ref_items on u R0 evs.
Proof. intros Hl. apply items_run; [exact Hl|apply sim_init|apply flags_init]. Qed.

(* the same as one flat list: same items, same order, nothing lost or duplicated *)
Corollary one_item_per_line_flat on u g evs :
  forallb line_event evs = true ->
  items (snd (run P (top0 (MAlways true) (MAlways false) on u g) evs)) = List.concat (ref_items on u R0 evs).
Proof. intros Hl. unfold items. rewrite flat_map_concat_map, one_item_per_line by exact Hl. reflexivity. Qed.

(* ---- --supress --------------------------------------------------------------------------------------- *)
(* passthrough shape: one text segment on the out stream *)
Definition is_pass_shape (o : oline) : bool := match o with OOut [Txt _] => true | _ => false end.
Definition drop_pass (l : list oline) : list oline := filter (fun o => negb (is_pass_shape o)) l.

Lemma line_items_supress on a : line_items on false a = drop_pass (line_items on true a).
Proof. destruct a; reflexivity. Qed.

Lemma ref_items_supress on evs : forall R,
  ref_items on false R evs = map drop_pass (ref_items on true R evs).
Proof.
  induction evs as [|e evs IH]; intros R; [reflexivity|]. cbn [ref_items map]. rewrite IH. f_equal.
  destruct e; try reflexivity. apply line_items_supress.
Qed.

(* --supress removes exactly the items of passthrough shape, event by event, and changes nothing
   else.  (Those are the text lines AND the message lines whose resolution raised RuntimeError.) *)
Theorem supress_removes_exactly_passthrough on g evs :
  forallb line_event evs = true ->
  map items1 (snd (run P (top0 (MAlways true) (MAlways false) on false g) evs)) =
  map drop_pass (map items1 (snd (run P (top0 (MAlways true) (MAlways false) on true g) evs))).
Proof. intros Hl. rewrite !one_item_per_line by exact Hl. apply ref_items_supress. Qed.

(* under --supress a text line contributes nothing and a resolved message line exactly its item *)
Theorem supress_items on g evs :
  forallb line_event evs = true ->
  map items1 (snd (run P (top0 (MAlways true) (MAlways false) on false g) evs)) = ref_items on false R0 evs.
Proof. apply one_item_per_line. Qed.

(* ---- exactly one ---------------------------------------------------------------------------------------- *)
Lemma ref_arrive_on R id m :
  match snd (ref_arrive R id m) with
  | AOff | AHard => r_on (fst (ref_arrive R id m)) = false
  | _ => True
  end.
Proof.
  unfold ref_arrive. destruct (negb (r_on R)); [reflexivity|].
  destruct (index_of id (r_conns R)) as [[i d]|].
  - destruct (snd (resolve_msg P d _ m)) as [[[] msg]|]; cbn [fst snd r_on]; trivial.
  - destruct (snd (resolve_msg P db_init _ m)) as [[[] msg]|]; cbn [fst snd r_on]; trivial.
Qed.

Lemma ref_arrive_off R id m : r_on R = false -> r_on (fst (ref_arrive R id m)) = false.
Proof. intros H. unfold ref_arrive. rewrite H. reflexivity. Qed.

Lemma ref_off_stays evs : forall R, r_on R = false -> r_on (ref_run R evs) = false.
Proof.
  induction evs as [|e evs IH]; intros R H; [exact H|]. cbn [ref_run fold_left]. apply IH.
  destruct e; try exact H. cbn [ref_step]. apply ref_arrive_off. exact H.
Qed.

Lemma ref_run_cons R e evs : ref_run R (e :: evs) = ref_run (ref_step R e) evs.
Proof. reflexivity. Qed.

Lemma ref_items_one on evs : forall R,
  forallb line_event evs = true -> r_on (ref_run R evs) = true ->
  Forall (fun l => List.length l = 1%nat) (ref_items on true R evs).
Proof.
  induction evs as [|e evs IH]; intros R Hl Hon; [constructor|].
  cbn [forallb] in Hl. apply andb_true_iff in Hl. destruct Hl as [Hle Hl].
  rewrite ref_run_cons in Hon. cbn [ref_items]. constructor; [|apply IH; assumption].
  destruct e as [id m|t| | | | | | | | ]; try discriminate; [|reflexivity].
  pose proof (ref_arrive_on R id m) as A. cbn [ref_step] in Hon.
  destruct (snd (ref_arrive R id m)) as [|ci cn d rm|msg|]; try reflexivity;
    rewrite (ref_off_stays evs _ A) in Hon; discriminate.
Qed.

(* No --supress, and decoding still on at the end of the stream: every line read yields EXACTLY
   ONE item (the message item, or the RuntimeError text for a message line that failed to resolve). *)
Theorem exactly_one_item on g evs :
  forallb line_event evs = true ->
  s_parse (t_sess (fst (run P (top0 (MAlways true) (MAlways false) on true g) evs))) = true ->
  Forall (fun l => List.length l = 1%nat)
         (map items1 (snd (run P (top0 (MAlways true) (MAlways false) on true g) evs))).
Proof.
  intros Hl Hp. rewrite one_item_per_line by exact Hl. apply ref_items_one; [exact Hl|].
  assert (Hlog : forallb log_event evs = true).
  { clear -Hl. induction evs as [|e evs IH]; [reflexivity|]. cbn [forallb] in *.
    apply andb_true_iff in Hl. destruct Hl as [H1 H2]. rewrite (IH H2), andb_true_r.
    destruct e; try discriminate; reflexivity. }
  destruct (sim_run evs _ R0 Hlog (sim_init (MAlways true) (MAlways false) on true g)) as (_ & S & _).
  rewrite <- S. exact Hp.
Qed.

(* ... in particular when every message has the two shapes right ([wf_msg]) *)
Corollary exactly_one_item_wf on g evs :
  forallb line_event evs = true -> forallb wf_event evs = true ->
  Forall (fun l => List.length l = 1%nat)
         (map items1 (snd (run P (top0 (MAlways true) (MAlways false) on true g) evs))).
Proof.
  intros Hl Hw. apply exactly_one_item; [exact Hl|]. apply wf_run_parse_on; [|exact Hw].
  clear -Hl. induction evs as [|e evs IH]; [reflexivity|]. cbn [forallb] in *.
  apply andb_true_iff in Hl. destruct Hl as [H1 H2]. rewrite (IH H2), andb_true_r.
  destruct e; try discriminate; reflexivity.
Qed.

End Ref.

Print Assumptions ref_exact.
Print Assumptions live_view_event_ref.
Print Assumptions one_item_per_line.
Print Assumptions one_item_per_line_flat.
Print Assumptions supress_removes_exactly_passthrough.
Print Assumptions exactly_one_item.
Print Assumptions exactly_one_item_wf.

(* ---- non-vacuity: concrete streams, empty protocol database, checked by computation ------------- *)
Module StreamExamples.
Import Examples.

(* a summary of an output line: kind, connection index, message name / text *)
Definition tag (o : oline) : Z * nat * str :=
  match o with
  | OMsg ci rm _ => (1, ci, m_name rm)
  | OOut [Txt s] => (2, O, s)
  | OOut _ => (3, O, [])
  | OErr _ => (4, O, [])
  | _ => (5, O, [])
  end.
Definition msg_tag (ci : nat) (name : string) : Z * nat * str := (1, ci, s2l name).
Definition pass_tag (t : string) : Z * nat * str := (2, O, s2l "       |  " ++ s2l t).

Definition Tstar (u : bool) : top := top0 (MAlways true) (MAlways false) false u false.

(* two connections interleaved, a text line, a delete_id of an id that does not exist (resolution
   raises RuntimeError), and a gap of more than one second before the last line *)
Definition evs1 : list event :=
  [EMsg x (m_gr 100); EText (s2l "noise"); EMsg y (m_gr 105); EMsg x (m_bind 110 "wl_compositor");
   EMsg x (m_del 2000000 77); EMsg y (m_bind 3000000 "wl_shm")].

Example ex1_hypotheses : forallb line_event evs1 = true /\ forallb wf_event evs1 = true.
Proof. vm_compute. split; reflexivity. Qed.

(* raw output per line: notice+message, text, notice+message, message, error text, separator+message *)
Example ex1_raw : map (fun l => List.length l) (snd (run [] (Tstar true) evs1)) = [2; 1; 2; 1; 1; 2]%nat.
Proof. vm_compute. reflexivity. Qed.

(* the items: one per line, in order, with connection index and message *)
Example ex1_items :
  map (map tag) (map items1 (snd (run [] (Tstar true) evs1))) =
  [[msg_tag 0 "get_registry"]; [pass_tag "noise"]; [msg_tag 1 "get_registry"]; [msg_tag 0 "bind"];
   [pass_tag "Id 77 not in object database"]; [msg_tag 1 "bind"]].
Proof. vm_compute. reflexivity. Qed.

(* the theorem on this instance, both sides computed *)
Example ex1_theorem :
  map items1 (snd (run [] (Tstar true) evs1)) = ref_items [] false true R0 evs1 /\
  items (snd (run [] (Tstar true) evs1)) = List.concat (ref_items [] false true R0 evs1) /\
  map (fun l => List.length l) (ref_items [] false true R0 evs1) = [1; 1; 1; 1; 1; 1]%nat.
Proof. vm_compute. repeat split; reflexivity. Qed.

(* CORNER 1: under --supress the text line is omitted, and so is the fifth line, which IS a message
   line (its resolution raised RuntimeError): "only the non-message lines are omitted" fails for it *)
Example corner_supress_drops_message_line :
  map (map tag) (map items1 (snd (run [] (Tstar false) evs1))) =
  [[msg_tag 0 "get_registry"]; []; [msg_tag 1 "get_registry"]; [msg_tag 0 "bind"]; []; [msg_tag 1 "bind"]] /\
  nth_error evs1 4 = Some (EMsg x (m_del 2000000 77)).
Proof. vm_compute. split; reflexivity. Qed.

(* CORNER 2: a line whose handling raises another exception (here the assertion on delete_id's
   argument) yields a traceback and an error line and switches decoding off: the next MESSAGE line
   yields nothing at all, while text lines still pass through *)
Definition evs2 : list event :=
  [EMsg x (m_gr 0); EMsg y (m_bad 5); EMsg x (m_bind 10 "wl_compositor"); EText (s2l "t")].

Example corner_decoding_off :
  map (map tag) (map items1 (snd (run [] (Tstar true) evs2))) =
  [[msg_tag 0 "get_registry"]; [(3, O, []); (4, O, [])]; []; [pass_tag "t"]] /\
  map items1 (snd (run [] (Tstar true) evs2)) = ref_items [] false true R0 evs2 /\
  s_parse (t_sess (fst (run [] (Tstar true) evs2))) = false /\ wf_msg (m_bad 5) = false.
Proof. vm_compute. repeat split; reflexivity. Qed.

(* C06 with commands in the stream: filter set to .bind after the first line, connection B
   selected after the fourth; the `list` command at the end prints message items as well, which
   are not part of the live view *)
Definition evs3 : list event :=
  [EMsg x (m_gr 100); ECmd (s2l "filter .bind"); EMsg y (m_gr 105); EMsg x (m_bind 110 "wl_compositor");
   ECmd (s2l "connection B"); EMsg x (m_bind 120 "wl_shm"); EMsg y (m_bind 130 "wl_seat"); ECmd (s2l "list")].

Definition names (l : list (nat * rmsg)) : list (nat * str) := map (fun p => (fst p, m_name (snd p))) l.

Example ex3_live_view :
  forallb log_event evs3 = true /\
  map names (map shown_msgs (snd (run [] (Tstar true) evs3))) =
  [[(0%nat, s2l "get_registry")]; []; []; [(0%nat, s2l "bind")]; []; []; [(1%nat, s2l "bind")];
   [(1%nat, s2l "bind")]] /\
  names (live_shown evs3 (snd (run [] (Tstar true) evs3))) =
  [(0%nat, s2l "get_registry"); (0%nat, s2l "bind"); (1%nat, s2l "bind")].
Proof. vm_compute. repeat split; reflexivity. Qed.

(* the right-hand side of [live_view_event_ref] at every position of evs3 *)
Definition expected_at (k : nat) : list (nat * rmsg) :=
  match nth_error evs3 k with
  | Some (EMsg id m) =>
      live_spec (s_ctrl (t_sess (fst (run [] (Tstar true) (firstn k evs3)))))
                (snd (ref_arrive [] (ref_run [] R0 (firstn k evs3)) id m))
  | _ => []
  end.
Example ex3_theorem :
  map names (map expected_at [0; 2; 3; 5; 6]%nat) =
  [[(0%nat, s2l "get_registry")]; []; [(0%nat, s2l "bind")]; []; [(1%nat, s2l "bind")]] /\
  live_shown evs3 (snd (run [] (Tstar true) evs3)) = live_expected [] (Tstar true) evs3.
Proof. vm_compute. split; reflexivity. Qed.

End StreamExamples.
