(* C18: the exception discipline of the model. *)
From WD Require Import Base Wire Conn Color LetterId Matcher MatcherParse.
From WD Require Import LetterIdProofs.
From Coq Require Import Lia.
Open Scope N_scope.

(* the only exceptions that may leave matcher.parse: RuntimeError (rejected with a diagnostic),
   or the model's own OutOfModel / OutOfFuel markers *)
Definition okx {A} (r : res A) : Prop :=
  match r with
  | Ok _ => True
  | Raise e _ => e = RuntimeError \/ e = OutOfModel \/ e = OutOfFuel
  end.

Lemma okx_bind {A B} (r : res A) (f : A -> res B) : okx r -> (forall a, okx (f a)) -> okx (bind r f).
Proof. destruct r as [a|e m]; cbn; intros H Hf; [apply Hf|exact H]. Qed.

Lemma okx_mapM {A B} (f : A -> res B) l : (forall a, okx (f a)) -> okx (mapM f l).
Proof.
  intros Hf. induction l as [|x l IH]; cbn [mapM]; [exact I|].
  apply okx_bind; [apply Hf|]. intros y. apply okx_bind; [exact IH|]. intros ys. exact I.
Qed.

Lemma okx_split_on_go d s : forall skip cur acc, okx (split_on_go d s skip cur acc).
Proof.
  induction s as [|c s IH]; intros skip cur acc; cbn [split_on_go]; [exact I|].
  destruct skip; [|apply IH]. destruct (is_brace c); [|apply IH].
  destruct (find_close c (closing_of c) s 1); [apply IH|cbn; auto].
Qed.

Lemma okx_split_on t d e : okx (split_on t d e).
Proof. unfold split_on. destruct (strip t); destruct e; try exact I; apply okx_split_on_go. Qed.

Lemma okx_split_pair t d : okx (split_pair t d).
Proof.
  unfold split_pair. apply okx_bind; [apply okx_split_on|]. intros r.
  destruct r as [|a [|b [|c r]]]; cbn; auto.
Qed.

Lemma okx_split_peren t : okx (split_peren_at_end t).
Proof.
  unfold split_peren_at_end. apply okx_bind; [apply okx_split_pair|]. intros p. destruct p as [[a b]|]; [|exact I].
  destruct (ends_with [41] b); cbn; auto.
Qed.

Lemma py_int_exn t e m : py_int t = Raise e m -> e = ValueError \/ e = OutOfModel.
Proof.
  unfold py_int.
  repeat match goal with
         | |- context [if ?b then _ else _] => destruct b
         | |- context [match ?x with _ => _ end] => destruct x
         end; intros E; try discriminate; injection E as <- _; auto.
Qed.

Lemma okx_py_int_matcher t : okx (parse_int_matcher t).
Proof.
  unfold parse_int_matcher. destruct (str_eqb t [42] || str_eqb t []); [exact I|].
  destruct (py_int t) as [z|e m] eqn:E; [exact I|].
  destruct (py_int_exn _ _ _ E) as [-> | ->]; cbn; auto.
Qed.

Lemma okx_float_matcher t : okx (parse_float_matcher t).
Proof.
  unfold parse_float_matcher. destruct (py_float t) as [d|e m] eqn:E; [exact I|].
  destruct e; cbn; auto;
  (* py_float raises only ValueError or OutOfModel *)
  exfalso; revert E; unfold py_float;
  repeat match goal with
         | |- context [if ?b then _ else _] => destruct b
         | |- context [match ?x with _ => _ end] => destruct x
         end; intros E; discriminate.
Qed.

Lemma okx_string_matcher t : okx (parse_string_matcher t).
Proof. unfold parse_string_matcher. destruct (_ && _); cbn; auto. Qed.

Lemma okx_identifier t : okx (identifier_matcher t).
Proof. unfold identifier_matcher. destruct (forallb is_ident_char t); cbn; auto. Qed.

Lemma okx_or_else r k : okx r -> (okx (k tt)) -> okx (or_else r k).
Proof. destruct r as [a|e m]; cbn; intros H Hk; [exact I|]. destruct e; try exact H; exact Hk. Qed.

(* the letters split off an object id are letters: the generation never fails to convert *)
Lemma take_while_forallb {A} (f : A -> bool) l : forallb f (take_while f l) = true.
Proof. induction l as [|x l IH]; [reflexivity|]. cbn. destruct (f x) eqn:E; [cbn; rewrite E; exact IH|reflexivity]. Qed.

Lemma letters_convert l : l <> [] -> forallb is_letter l = true -> exists k, letter_id_to_number l = Ok k.
Proof.
  intros Hne Hl. unfold letter_id_to_number.
  assert (Hasc : all_ascii l = true).
  { unfold all_ascii. rewrite forallb_forall in *. intros c Hc. specialize (Hl c Hc).
    unfold is_letter, is_lower, is_upper, in_range, is_ascii in *. lia. }
  rewrite Hasc. cbn [negb].
  assert (Hlow : lower_letters (lower l)).
  { unfold lower_letters, lower. rewrite forallb_forall. intros c Hc. apply in_map_iff in Hc. destruct Hc as (x & <- & Hx).
    rewrite forallb_forall in Hl. specialize (Hl x Hx). unfold lower_char, is_letter, is_lower, is_upper, in_range in *.
    destruct ((65 <=? x) && (x <=? 90)) eqn:E; lia. }
  destruct (lower l) as [|c r] eqn:El; [destruct l; [contradiction|discriminate]|].
  rewrite <- El in *. rewrite (l2n_loop_Tval _ Hlow). rewrite El. eexists. reflexivity.
Qed.

Section WithRec.
Variable rec : pkind -> str -> res mt.
Hypothesis Hrec : forall k t, okx (rec k t).

Lemma okx_text t : okx (parse_text_matcher rec t).
Proof. unfold parse_text_matcher. destruct (bracketed t); [apply Hrec|]. destruct t; [exact I|apply okx_identifier]. Qed.

Lemma okx_obj_id t : okx (parse_obj_id_matcher t).
Proof.
  unfold parse_obj_id_matcher. destruct (str_eqb t (s2l "nil")); [exact I|].
  unfold trailing_letters. set (letters := rev (take_while is_letter (rev t))).
  destruct letters as [|c r] eqn:El.
  - apply okx_bind; [apply okx_py_int_matcher|]. intros a. exact I.
  - apply okx_bind; [apply okx_py_int_matcher|]. intros a.
    assert (Hl : forallb is_letter (c :: r) = true).
    { rewrite <- El. unfold letters. rewrite forallb_forall. intros x Hx. apply in_rev in Hx.
      pose proof (take_while_forallb is_letter (rev t)) as H. rewrite forallb_forall in H. apply H. exact Hx. }
    destruct (letters_convert (c :: r)) as [k Hk]; [discriminate|exact Hl|]. rewrite Hk. exact I.
Qed.

Lemma okx_obj t : okx (parse_obj_matcher rec t).
Proof.
  unfold parse_obj_matcher. destruct (bracketed t); [apply Hrec|].
  apply okx_bind; [apply okx_split_pair|]. intros h.
  apply okx_bind; [destruct h; [exact I|apply okx_split_pair]|]. intros at_split.
  destruct (match at_split with Some (n, i) => (n, i) | None => _ end) as [name_text id_text].
  destruct name_text as [|n ns]; destruct id_text as [|i is]; try (cbn; auto; fail).
  - apply okx_bind; [apply okx_obj_id|]. intros; exact I.
  - apply okx_bind; [apply okx_text|]. intros; exact I.
Qed.

Lemma okx_arg_value t : okx (parse_arg_value_matcher rec t).
Proof.
  unfold parse_arg_value_matcher. destruct (bracketed t); [apply Hrec|].
  apply okx_or_else; [apply okx_bind; [apply okx_py_int_matcher|intros; exact I]|].
  apply okx_or_else; [apply okx_bind; [apply okx_float_matcher|intros; exact I]|].
  apply okx_or_else; [apply okx_bind; [apply okx_string_matcher|intros; exact I]|].
  apply okx_or_else; [destruct (str_eqb t (s2l "nil")); [cbn; auto|apply okx_bind; [apply okx_text|intros; exact I]]|].
  apply okx_or_else; [apply okx_bind; [apply okx_obj|intros; exact I]|]. cbn; auto.
Qed.

Lemma okx_arg t : okx (parse_arg_matcher rec t).
Proof.
  unfold parse_arg_matcher. destruct (bracketed t); [apply Hrec|].
  apply okx_bind; [apply okx_split_pair|]. intros [[n v]|].
  - apply okx_bind; [apply okx_text|]. intros nm. apply okx_bind; [apply okx_arg_value|]. intros; exact I.
  - apply okx_bind; [apply okx_arg_value|]. intros; exact I.
Qed.

Lemma okx_args_list t : okx (parse_args_list rec t).
Proof.
  unfold parse_args_list. destruct t as [|c t]; [exact I|].
  apply okx_bind; [apply okx_split_pair|]. intros [[a b]|].
  - destruct (strip a); destruct (strip b); try exact I;
      (apply okx_bind; [apply okx_split_on|]; intros pt; apply okx_bind; [apply okx_split_on|]; intros nt;
       apply okx_bind; [apply okx_mapM; apply okx_arg|]; intros p; apply okx_bind; [apply okx_mapM; apply okx_arg|]; intros; exact I).
  - apply okx_bind; [apply okx_split_on|]. intros pt. apply okx_bind; [apply okx_mapM; apply okx_arg|]. intros; exact I.
Qed.

Lemma okx_pattern t : okx (parse_message_pattern rec t).
Proof.
  unfold parse_message_pattern. destruct t as [|c0 t0]; [exact I|].
  apply okx_bind; [apply okx_split_pair|]. intros colon.
  destruct (match colon with Some (c, m) => (c, m) | None => _ end) as [conn_text message_text].
  apply okx_bind; [apply okx_split_pair|]. intros dot.
  assert (Hfull : forall o n a, okx (do c <- parse_text_matcher rec conn_text; do o' <- parse_obj_matcher rec o;
                                      do n' <- parse_text_matcher rec n; do a' <- parse_args_list rec a;
                                      Ok (mk_pattern (MWrap WConn c) o' n' a'))).
  { intros o n a. apply okx_bind; [apply okx_text|]. intros. apply okx_bind; [apply okx_obj|]. intros.
    apply okx_bind; [apply okx_text|]. intros. apply okx_bind; [apply okx_args_list|]. intros; exact I. }
  destruct dot as [[obj_text name_and_arg]|].
  - apply okx_bind; [apply okx_split_peren|]. intros [[nt at_]|]; apply Hfull.
  - apply okx_bind; [apply okx_split_peren|]. intros [[ot at_]|]; [apply Hfull|].
    apply okx_bind; [apply okx_text|]. intros c. apply okx_bind; [apply okx_obj|]. intros; exact I.
Qed.

Lemma okx_item k t : okx (parse_item rec k t).
Proof. destruct k; cbn [parse_item]; [apply okx_pattern|apply okx_arg|apply okx_arg_value|apply okx_text|apply okx_obj]. Qed.

Lemma okx_list_with k t : okx (parse_matcher_list_with rec k t).
Proof.
  unfold parse_matcher_list_with. apply okx_bind; [apply okx_split_pair|]. intros [[a b]|].
  - apply okx_bind; [apply okx_split_on|]. intros pt. apply okx_bind; [apply okx_mapM; apply okx_item|]. intros p.
    apply okx_bind; [apply okx_split_on|]. intros nt. apply okx_bind; [apply okx_mapM; apply okx_item|]. intros; exact I.
  - apply okx_bind; [apply okx_split_on|]. intros pt. apply okx_bind; [apply okx_mapM; apply okx_item|]. intros p.
    destruct p as [|x [|y p]]; exact I.
Qed.
End WithRec.

Lemma okx_parse_list fuel : forall k t, okx (parse_list fuel k t).
Proof.
  induction fuel as [|f IH]; intros k t; cbn [parse_list]; [cbn; auto|]. apply okx_list_with. exact IH.
Qed.

(* C18: arbitrary text given as a matcher is either accepted or rejected with a diagnostic
   (RuntimeError): no other exception leaves matcher.parse *)
Theorem parse_raises_only_runtime_error t : okx (parse t).
Proof.
  unfold parse. destruct (strip (no_color t)) as [|c s]; [cbn; auto|].
  destruct (Nat.ltb max_depth (bracket_depth (c :: s) 0 0)); [cbn; auto|]. apply okx_parse_list.
Qed.
