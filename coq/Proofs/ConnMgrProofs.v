(* Proofs about connection bookkeeping (C04, C15): names A, B, C, ... in order of opening, closed
   connections stay listed, a re-opened identifier is a fresh connection. *)
From WD Require Import Base Wire Protocol Conn Color LetterId Matcher MatcherParse Show Session.
From WD Require Import LetterIdProofs SessionProofs.
From Coq Require Import Lia.
Open Scope Z_scope.

Definition names_list (n : nat) : list str := map (fun i => conn_name (N.of_nat i)) (seq 0 n).

Definition names_ok (s : sess) : Prop :=
  map c_name (s_conns s) = names_list (List.length (s_conns s)) /\
  s_next s = N.of_nat (List.length (s_conns s)).

Lemma names_list_S n : names_list (S n) = names_list n ++ [conn_name (N.of_nat n)].
Proof. unfold names_list. rewrite seq_S, map_app. reflexivity. Qed.

Lemma update_nth_length {A} (f : A -> A) l : forall n, List.length (update_nth n f l) = List.length l.
Proof. induction l as [|x l IH]; intros [|n]; cbn; try reflexivity. rewrite IH. reflexivity. Qed.

Lemma update_nth_names (f : connst -> connst) l : forall n,
  (forall c, c_name (f c) = c_name c) -> map c_name (update_nth n f l) = map c_name l.
Proof.
  induction l as [|x l IH]; intros [|n] H; cbn; try reflexivity.
  - rewrite H. reflexivity.
  - rewrite IH by exact H. reflexivity.
Qed.

Lemma update_nth_const_names (c' : connst) l : forall n c,
  nth_error l n = Some c -> c_name c' = c_name c ->
  map c_name (update_nth n (fun _ => c') l) = map c_name l.
Proof.
  induction l as [|x l IH]; intros [|n] c Hn Hc; cbn in *; try discriminate.
  - injection Hn as ->. rewrite Hc. reflexivity.
  - rewrite (IH n c Hn Hc). reflexivity.
Qed.

Lemma names_ok_same s s' :
  map c_name (s_conns s') = map c_name (s_conns s) -> List.length (s_conns s') = List.length (s_conns s) ->
  s_next s' = s_next s -> names_ok s -> names_ok s'.
Proof. intros H1 H2 H3 [A B]. unfold names_ok. rewrite H1, H2, H3. split; assumption. Qed.

Lemma close_conn_names s id : names_ok s -> names_ok (fst (close_conn s id)).
Proof.
  intros H. unfold close_conn. destruct (find_open s id) as [i|]; [|exact H].
  destruct (nth_error (s_conns s) i) as [c|]; [|exact H]. cbn [fst].
  eapply names_ok_same; [| | |exact H]; unfold set_conns; cbn [s_conns s_next].
  - apply update_nth_names. reflexivity.
  - apply update_nth_length.
  - reflexivity.
Qed.

(* opening: any live connection with the same identifier is closed first (and stays listed);
   the new connection gets the next name and an empty object table *)
Theorem open_conn_spec s id sv :
  let s0 := fst (close_conn s id) in
  s_conns (fst (open_conn s id sv)) =
    s_conns s0 ++ [mkConn id (conn_name (s_next s)) sv true None None db_init []] /\
  s_next (fst (open_conn s id sv)) = (s_next s + 1)%N /\
  snd (open_conn s id sv) = snd (close_conn s id) ++ [new_conn_line (s_color s) sv (conn_name (s_next s))].
Proof.
  unfold open_conn. destruct (close_conn s id) as [s1 o1] eqn:E. cbn [fst snd s_conns s_next].
  assert (Hn : s_next s1 = s_next s /\ s_color s1 = s_color s).
  { unfold close_conn in E. destruct (find_open s id); [|injection E as <- _; split; reflexivity].
    destruct (nth_error (s_conns s) n); injection E as <- _; split; reflexivity. }
  destruct Hn as [-> ->]. repeat split.
Qed.

Lemma open_conn_names s id sv : names_ok s -> names_ok (fst (open_conn s id sv)).
Proof.
  intros H. pose proof (close_conn_names s id H) as [A B].
  destruct (open_conn_spec s id sv) as (Hc & Hn & _). unfold names_ok. rewrite Hc, Hn.
  assert (Hnext : s_next (fst (close_conn s id)) = s_next s).
  { unfold close_conn. destruct (find_open s id); [|reflexivity]. destruct (nth_error _ _); reflexivity. }
  rewrite Hnext in B.
  rewrite map_app, app_length, A. cbn [List.length map c_name]. rewrite Nat.add_1_r, names_list_S, B.
  split; [reflexivity|lia].
Qed.

Section WithP.
Variable P : pdb.

Lemma conn_message_names s id rel m :
  names_ok s -> names_ok (fst (fst (fst (conn_message P s id rel m)))).
Proof.
  intros H. unfold conn_message. destruct (find_open s id) as [i|]; [|exact H].
  destruct (nth_error (s_conns s) i) as [c|] eqn:En; [|exact H].
  destruct (resolve_msg P (c_db c) rel m) as [[d' rm] err].
  destruct err as [e|].
  - cbn [fst]. eapply names_ok_same; [| | |exact H]; unfold set_conns; cbn [s_conns s_next].
    + eapply update_nth_const_names; [exact En|reflexivity].
    + apply update_nth_length.
    + reflexivity.
  - destruct (ctrl_on_message _ _ _ _ _ _) as [[k' outs] stop]. cbn [fst].
    assert (G : names_ok (set_ctrl (set_conns s (update_nth i (fun _ => title_update
              (mkConn (c_id c) (c_name c) (c_server c) (c_open c) (c_title c) (c_app_id c) d' (c_msgs c ++ [rm])) rm) (s_conns s))) k')).
    { eapply names_ok_same; [| | |exact H]; unfold set_ctrl, set_conns; cbn [s_conns s_next].
      - eapply update_nth_const_names; [exact En|].
        unfold title_update. cbn [c_name].
        repeat match goal with |- context [if ?b then _ else _] => destruct b | |- context [match ?x with _ => _ end] => destruct x end; reflexivity.
      - apply update_nth_length.
      - reflexivity. }
    destruct stop; [|exact G]. destruct G as [A B]. split; assumption.
Qed.

Lemma log_message_names s id rel m : names_ok s -> names_ok (fst (log_message P s id rel m)).
Proof.
  intros H. unfold log_message. destruct (negb (s_parse s)); [exact H|].
  set (s1 := mkSess _ _ _ _ rel _ _ _ _ _ _ _).
  assert (H1 : names_ok s1) by exact H.
  destruct (existsb (str_eqb id) (s_known s1)).
  - pose proof (conn_message_names s1 id rel m H1) as G.
    destruct (conn_message P s1 id rel m) as [[[s3 o2] err] st]. cbn [fst] in G.
    destruct err as [[[] msg]|]; cbn [fst]; exact G.
  - pose proof (open_conn_names s1 id (is_get_registry m) H1) as G0.
    destruct (open_conn s1 id (is_get_registry m)) as [sa oa]. cbn [fst] in G0.
    set (s2 := mkSess _ _ _ (s_known sa ++ [id]) _ _ _ _ _ _ _ _).
    assert (H2 : names_ok s2) by exact G0.
    pose proof (conn_message_names s2 id rel m H2) as G.
    destruct (conn_message P s2 id rel m) as [[[s3 o2] err] st]. cbn [fst] in G.
    destruct err as [[[] msg]|]; cbn [fst]; exact G.
Qed.

Lemma log_eof_names s : names_ok s -> names_ok (fst (log_eof s)).
Proof.
  unfold log_eof.
  assert (G : forall ids acc, names_ok (fst acc) ->
            names_ok (fst (fold_left (fun acc id => let '(s1, o1) := close_conn (fst acc) id in (s1, snd acc ++ o1)) ids acc))).
  { induction ids as [|id ids IH]; intros acc H; cbn [fold_left]; [exact H|].
    apply IH. pose proof (close_conn_names (fst acc) id H) as X. destruct (close_conn (fst acc) id). exact X. }
  intros H. apply G. exact H.
Qed.

Lemma gdb_message_names s id th rel m : names_ok s -> names_ok (fst (gdb_message P s id th rel m)).
Proof.
  intros H. unfold gdb_message.
  set (s1 := set_pause s false (s_quit s)). assert (H1 : names_ok s1) by exact H.
  destruct (gdb_get (s_gdb s1) id).
  - pose proof (conn_message_names s1 id rel m H1) as G.
    destruct (conn_message P s1 id rel m) as [[[s3 o2] err] st]. cbn [fst] in G. destruct err as [[e msg]|]; exact G.
  - pose proof (open_conn_names s1 id (is_get_registry m) H1) as G0.
    destruct (open_conn s1 id (is_get_registry m)) as [sa oa]. cbn [fst] in G0.
    set (s2 := set_gdb sa _). assert (H2 : names_ok s2) by exact G0.
    pose proof (conn_message_names s2 id rel m H2) as G.
    destruct (conn_message P s2 id rel m) as [[[s3 o2] err] st]. cbn [fst] in G. destruct err as [[e msg]|]; exact G.
Qed.

Lemma record_names s s' : record_of s' = record_of s -> names_ok s -> names_ok s'.
Proof. unfold record_of. intros E H. injection E as E1 E2 _ _ _. unfold names_ok. rewrite E1, E2. exact H. Qed.

Lemma step_names T e : names_ok (t_sess T) -> names_ok (t_sess (fst (step P T e))).
Proof.
  intros H. destruct T as [b s]. cbn [t_sess] in H. destruct e as [id m|t|cm| |id th m|id|cm|id sv|id|id m]; unfold step; cbn [t_base t_sess].
  - destruct (rel_time b (p_time m)) as [b' rel].
    pose proof (log_message_names s id rel m H) as G. destruct (log_message P s id rel m). exact G.
  - exact H.
  - cbn [fst t_sess]. eapply record_names; [apply process_command_record|exact H].
  - cbn [fst t_sess]. apply log_eof_names. exact H.
  - destruct (rel_time b (p_time m)) as [b' rel].
    pose proof (gdb_message_names s id th rel m H) as G. destruct (gdb_message P s id th rel m). exact G.
  - cbn [fst t_sess]. unfold gdb_destroy.
    pose proof (close_conn_names (set_gdb s (gdb_del (s_gdb s) id)) id H) as G.
    destruct (close_conn _ id). exact G.
  - cbn [fst t_sess]. unfold gdb_command.
    pose proof (process_command_record command_fuel (set_pause s true (s_quit s)) cm) as G.
    destruct (process_command command_fuel _ cm) as [s1 o]. cbn [fst] in *.
    eapply record_names; [exact G|exact H].
  - destruct id as [|c0 id]; [exact H|]. cbn [fst t_sess]. apply open_conn_names. exact H.
  - cbn [fst t_sess]. apply close_conn_names. exact H.
  - destruct (rel_time b (p_time m)) as [b' rel].
    pose proof (conn_message_names s id rel m H) as G.
    destruct (conn_message P s id rel m) as [[[s1 o] err] st]. exact G.
Qed.

(* C04: in every reachable state (log mode and gdb mode, any events) the i-th connection ever
   opened is named by the i-th letter word A, B, ..., Z, AA, ... *)
Theorem names_sequential es : forall T, names_ok (t_sess T) -> names_ok (t_sess (fst (run P T es))).
Proof.
  induction es as [|e es IH]; intros T H; cbn [run]; [exact H|].
  pose proof (step_names T e H) as G. destruct (step P T e) as [T1 o]. cbn [fst] in G.
  specialize (IH T1 G). destruct (run P T1 es). exact IH.
Qed.

Lemma names_ok_init d st c u g : names_ok (init_sess d st c u g).
Proof. split; reflexivity. Qed.

End WithP.

(* names are pairwise distinct *)
Theorem names_distinct s i j ci cj :
  names_ok s -> nth_error (s_conns s) i = Some ci -> nth_error (s_conns s) j = Some cj ->
  c_name ci = c_name cj -> i = j.
Proof.
  intros [A _] Hi Hj E.
  assert (N : forall k c, nth_error (s_conns s) k = Some c -> c_name c = conn_name (N.of_nat k)).
  { intros k c Hk. assert (X : nth_error (map c_name (s_conns s)) k = Some (c_name c)) by (rewrite nth_error_map, Hk; reflexivity).
    rewrite A in X. unfold names_list in X. rewrite nth_error_map in X.
    assert (Hlt : (k < List.length (s_conns s))%nat) by (apply nth_error_Some; congruence).
    rewrite (nth_error_nth' _ 0%nat) in X by (rewrite seq_length; exact Hlt).
    rewrite seq_nth in X by exact Hlt. cbn in X. injection X as X. symmetry. exact X. }
  rewrite (N _ _ Hi), (N _ _ Hj) in E. apply n2l_caps_inj in E. lia.
Qed.

(* ---- isolation (C04): an event tagged with one connection identifier never touches a
   connection with another identifier; what it does to its own connection depends only on that
   connection's state and the message ------------------------------------------------------------ *)
Lemma update_nth_other {A} (f : A -> A) l : forall n j, j <> n -> nth_error (update_nth n f l) j = nth_error l j.
Proof.
  induction l as [|x l IH]; intros [|n] [|j] H; cbn; try reflexivity; try contradiction.
  apply IH. intros E. apply H. f_equal. exact E.
Qed.

Lemma update_nth_same {A} (f : A -> A) l : forall n x, nth_error l n = Some x -> nth_error (update_nth n f l) n = Some (f x).
Proof.
  induction l as [|y l IH]; intros [|n] x H; cbn in *; try discriminate.
  - injection H as ->. reflexivity.
  - apply IH. exact H.
Qed.

Lemma find_open_from_spec cs : forall i0 id j,
  find_open_from i0 cs id = Some j ->
  exists c, nth_error cs (j - i0) = Some c /\ c_id c = id /\ c_open c = true /\ (i0 <= j)%nat.
Proof.
  induction cs as [|c cs IH]; intros i0 id j H; cbn [find_open_from] in H; [discriminate|].
  destruct (find_open_from (S i0) cs id) as [k|] eqn:E.
  - injection H as <-. destruct (IH _ _ _ E) as (c' & Hn & Hid & Ho & Hle).
    exists c'. replace (k - i0)%nat with (S (k - S i0)) by lia. cbn. repeat split; try assumption. lia.
  - destruct (c_open c && str_eqb (c_id c) id) eqn:Ec; [|discriminate]. injection H as <-.
    apply andb_true_iff in Ec. destruct Ec as [Ho Hid]. exists c. rewrite Nat.sub_diag. cbn.
    repeat split; try assumption; try lia.
    clear -Hid. revert Hid. unfold str_eqb. generalize (c_id c). intros a. revert id.
    induction a as [|x a IH]; intros [|y b]; cbn; intros H; try discriminate; try reflexivity.
    apply andb_true_iff in H. destruct H as [H1 H2]. apply N.eqb_eq in H1. subst. f_equal. apply IH. exact H2.
Qed.

Lemma find_open_spec s id j : find_open s id = Some j ->
  exists c, nth_error (s_conns s) j = Some c /\ c_id c = id /\ c_open c = true.
Proof.
  unfold find_open. intros H. destruct (find_open_from_spec _ _ _ _ H) as (c & Hn & Hid & Ho & _).
  rewrite Nat.sub_0_r in Hn. exists c. repeat split; assumption.
Qed.

Definition others_untouched (id : str) (s s' : sess) : Prop :=
  forall j c, nth_error (s_conns s) j = Some c -> c_id c <> id -> nth_error (s_conns s') j = Some c.

Lemma close_conn_others s id : others_untouched id s (fst (close_conn s id)).
Proof.
  intros j c Hj Hne. unfold close_conn. destruct (find_open s id) as [i|] eqn:E; [|exact Hj].
  destruct (find_open_spec _ _ _ E) as (ci & Hi & Hid & _). rewrite Hi. cbn [fst set_conns s_conns].
  rewrite update_nth_other; [exact Hj|]. intros ->. rewrite Hi in Hj. injection Hj as <-. contradiction.
Qed.

Lemma open_conn_others s id sv : others_untouched id s (fst (open_conn s id sv)).
Proof.
  intros j c Hj Hne. destruct (open_conn_spec s id sv) as (Hc & _). rewrite Hc.
  pose proof (close_conn_others s id j c Hj Hne) as X.
  rewrite nth_error_app1; [exact X|]. apply nth_error_Some. congruence.
Qed.

Section WithP2.
Variable P : pdb.

(* what a delivered message does to its own connection *)
Definition conn_step (c : connst) (rel : Z) (m : pmsg) : connst :=
  let '(d', rm, err) := resolve_msg P (c_db c) rel m in
  let c1 := mkConn (c_id c) (c_name c) (c_server c) (c_open c) (c_title c) (c_app_id c) d' (c_msgs c ++ [rm]) in
  match err with Some _ => c1 | None => title_update c1 rm end.

Theorem conn_message_frame s id rel m i :
  find_open s id = Some i ->
  let s' := fst (fst (fst (conn_message P s id rel m))) in
  (forall j, j <> i -> nth_error (s_conns s') j = nth_error (s_conns s) j) /\
  (forall c, nth_error (s_conns s) i = Some c -> nth_error (s_conns s') i = Some (conn_step c rel m)).
Proof.
  intros E. destruct (find_open_spec _ _ _ E) as (c & Hi & _). unfold conn_message. rewrite E, Hi.
  destruct (resolve_msg P (c_db c) rel m) as [[d' rm] err] eqn:ER.
  destruct err as [e|].
  - cbn [fst set_conns s_conns]. split.
    + intros j Hj. apply update_nth_other. exact Hj.
    + intros c0 Hc0. injection Hc0 as <-.
      rewrite (update_nth_same _ _ _ _ Hi). unfold conn_step. rewrite ER. reflexivity.
  - destruct (ctrl_on_message _ _ _ _ _ _) as [[k' outs] stop]. cbn [fst].
    assert (G : forall sX, s_conns (if stop then set_pause sX true (s_quit sX) else sX) = s_conns sX) by (intros; destruct stop; reflexivity).
    rewrite G. cbn [set_ctrl set_conns s_conns]. split.
    + intros j Hj. apply update_nth_other. exact Hj.
    + intros c0 Hc0. injection Hc0 as <-.
      rewrite (update_nth_same _ _ _ _ Hi). unfold conn_step. rewrite ER. reflexivity.
Qed.

Theorem conn_message_others s id rel m :
  others_untouched id s (fst (fst (fst (conn_message P s id rel m)))).
Proof.
  intros j c Hj Hne. destruct (find_open s id) as [i|] eqn:E.
  - destruct (conn_message_frame s id rel m i E) as [F _]. rewrite F; [exact Hj|].
    intros ->. destruct (find_open_spec _ _ _ E) as (ci & Hi & Hid & _). rewrite Hi in Hj. injection Hj as <-. contradiction.
  - unfold conn_message. rewrite E. exact Hj.
Qed.

Lemma others_trans id a b c : others_untouched id a b -> others_untouched id b c -> others_untouched id a c.
Proof. intros H1 H2 j x Hj Hne. apply H2; [apply H1; assumption|assumption]. Qed.

(* a log line tagged [id] leaves every connection with another identifier exactly as it was:
   objects, incarnations, alive flags, role, messages, title *)
Theorem log_message_isolation s id rel m : others_untouched id s (fst (log_message P s id rel m)).
Proof.
  unfold log_message. destruct (negb (s_parse s)); [intros j c Hj _; exact Hj|].
  set (s1 := mkSess _ _ _ _ rel _ _ _ _ _ _ _).
  assert (H1 : others_untouched id s s1) by (intros j c Hj _; exact Hj).
  destruct (existsb (str_eqb id) (s_known s1)).
  - pose proof (conn_message_others s1 id rel m) as G.
    destruct (conn_message P s1 id rel m) as [[[s3 o2] err] st]. cbn [fst] in G.
    eapply others_trans; [exact H1|]. destruct err as [[[] msg]|]; cbn [fst]; exact G.
  - pose proof (open_conn_others s1 id (is_get_registry m)) as G0.
    destruct (open_conn s1 id (is_get_registry m)) as [sa oa]. cbn [fst] in G0.
    set (s2 := mkSess _ _ _ (s_known sa ++ [id]) _ _ _ _ _ _ _ _).
    assert (H2 : others_untouched id s1 s2) by exact G0.
    pose proof (conn_message_others s2 id rel m) as G.
    destruct (conn_message P s2 id rel m) as [[[s3 o2] err] st]. cbn [fst] in G.
    eapply others_trans; [exact H1|]. eapply others_trans; [exact H2|].
    destruct err as [[[] msg]|]; cbn [fst]; exact G.
Qed.

End WithP2.
