(* NoRaiseB.v — C18, session side: in log mode (message lines, other lines, commands, end of
   input) no step ever emits an [ORaise] line, from ANY start state and for ANY protocol database.

   [ORaise e] is the model's way of saying "exception e escapes to the caller".  What the log-mode
   steps do with the exceptions they meet:
     - message resolution (conn_message): RuntimeError is reported as an unprocessed-text line; any
       other class (AssertionError for an unknown connection, KeyError/IndexError/ValueError from
       resolve_msg) is caught by Parser's blanket handler: decoding is switched off (s_parse :=
       false) and an error line is printed ([log_message_caught]);
     - commands: matcher text is either accepted or rejected with an error line; int() after `~`
       prints an error line; a first word made only of colour sequences is ignored (it tripped an
       assertion before the repair of D13, which the model had treated as out of model); where the model does not follow (non-ASCII int text, matcher recursion
       deeper than the fuel, more than [command_fuel] = 200 `w` / `wl` prefixes, which stands for
       Python's recursion limit: the recorded finding D9) the step emits [OOM], never [ORaise]
       ([deep_prefix_is_oom]);
     - end of input only prints `Closed` notices.
   The gdb-mode and sink-interface events are different: they do emit ORaise ([gdb_event_can_raise]). *)
From WD Require Import Base Wire Protocol Conn Color LetterId Matcher MatcherParse Show Session Decode.
From WD Require Import TotalityProofs SessionProofs EofCloses NoRaiseA.
From Coq Require Import Lia.
Open Scope Z_scope.

Definition noraise (o : oline) : Prop := match o with ORaise _ => False | _ => True end.
Notation NR := (Forall noraise).

Lemma nr_app a b : NR a -> NR b -> NR (a ++ b).
Proof. intros Ha Hb. apply Forall_app. split; assumption. Qed.

Ltac nr :=
  repeat match goal with
         | |- Forall noraise [] => constructor
         | |- Forall noraise (_ :: _) => constructor
         | |- noraise (if ?b then _ else _) => destruct b
         | |- noraise (match ?x with _ => _ end) => destruct x
         | |- noraise _ => exact I
         | |- Forall noraise (_ ++ _) => apply nr_app
         | |- Forall noraise (if ?b then _ else _) => destruct b
         | |- Forall noraise (match ?x with _ => _ end) => destruct x
         | |- _ => assumption
         end.

(* ---- connection manager ------------------------------------------------------------------------ *)
Lemma close_conn_nr s id : NR (snd (close_conn s id)).
Proof.
  unfold close_conn. destruct (find_open s id) as [i|]; [|constructor].
  destruct (nth_error (s_conns s) i); cbn [snd]; unfold closed_conn_line; nr.
Qed.

Lemma open_conn_nr s id sv : NR (snd (open_conn s id sv)).
Proof.
  unfold open_conn. pose proof (close_conn_nr s id) as H. destruct (close_conn s id) as [s1 o1].
  cbn [snd] in *. unfold new_conn_line. nr.
Qed.

Lemma unprocessed_line_nr s t : NR (unprocessed_line s t).
Proof. unfold unprocessed_line. nr. Qed.

Lemma show_message_nr on ci d cn last m : NR (fst (show_message on ci d cn last m)).
Proof. unfold show_message. cbn [fst]. nr. Qed.

Lemma ctrl_on_message_nr on k ci d cn m : NR (snd (fst (ctrl_on_message on k ci d cn m))).
Proof.
  unfold ctrl_on_message. cbv zeta.
  destruct (match k_current k with Some j => Nat.eqb j ci | None => true end); [|constructor].
  destruct (matches (k_display k) _).
  - pose proof (show_message_nr on ci d cn (k_last_shown k) m) as H.
    destruct (show_message on ci d cn (k_last_shown k) m) as [o1 l1]. cbn [fst snd] in *. nr.
  - cbn [fst snd]. nr.
Qed.

Section WithP.
Variable P : pdb.

Lemma conn_message_nr s id rel m : NR (snd (fst (fst (conn_message P s id rel m)))).
Proof.
  unfold conn_message. destruct (find_open s id) as [i|]; [|constructor].
  destruct (nth_error (s_conns s) i) as [c|]; [|constructor].
  destruct (resolve_msg P (c_db c) rel m) as [[d' rm] err]. destruct err as [e|]; [constructor|].
  pose proof (ctrl_on_message_nr (s_color s) (s_ctrl s) i d' (c_name c) rm) as H.
  destruct (ctrl_on_message (s_color s) (s_ctrl s) i d' (c_name c) rm) as [[k' outs] stop]. exact H.
Qed.

(* one decoded line: whatever message resolution raises is caught *)
Lemma log_message_nr s id rel m : NR (snd (log_message P s id rel m)).
Proof.
  unfold log_message. destruct (negb (s_parse s)); [constructor|]. cbv zeta.
  match goal with |- context [if ?b then (?x, []) else _] => destruct b; [set (s1 := x)|] end.
  - pose proof (conn_message_nr s1 id rel m) as H.
    destruct (conn_message P s1 id rel m) as [[[s3 o2] err] st]. cbn [fst snd] in H.
    destruct err as [[e msg]|]; [destruct e|]; cbn [snd]; unfold error_line; nr; apply unprocessed_line_nr.
  - match goal with |- context [open_conn ?a ?b ?c] =>
      pose proof (open_conn_nr a b c) as Ho; destruct (open_conn a b c) as [sa oa] end.
    cbn [snd] in Ho.
    match goal with |- context [conn_message P ?a id rel m] =>
      pose proof (conn_message_nr a id rel m) as H; destruct (conn_message P a id rel m) as [[[s3 o2] err] st] end.
    cbn [fst snd] in H.
    destruct err as [[e msg]|]; [destruct e|]; cbn [snd]; unfold error_line; nr; apply unprocessed_line_nr.
Qed.

End WithP.

Lemma log_eof_nr s : NR (snd (log_eof s)).
Proof.
  eapply Forall_impl; [|apply eof_only_close_notices]. intros o (on & sv & nm & ->). exact I.
Qed.

(* ---- commands --------------------------------------------------------------------------------- *)
Lemma get_command'_nr on c : NR (snd (get_command' on c)).
Proof.
  unfold get_command'. destruct (filter (starts_with c) command_names) as [|x [|y r]]; cbn [snd]; unfold error_line; nr.
Qed.

Lemma fold_show_nr s on : forall ms acc,
  NR (fst acc) ->
  NR (fst (fold_left (fun (acc : list oline * option Z) (p : nat * rmsg) =>
                        match nth_error (s_conns s) (fst p) with
                        | Some c =>
                            let '(o, l) := show_message on (fst p) (c_db c) (c_name c) (snd acc) (snd p) in
                            (fst acc ++ o, l)
                        | None => acc
                        end) ms acc)).
Proof.
  induction ms as [|p ms IH]; intros acc H; cbn [fold_left]; [exact H|]. apply IH.
  destruct (nth_error (s_conns s) (fst p)) as [c|]; [|exact H].
  pose proof (show_message_nr on (fst p) (c_db c) (c_name c) (snd acc) (snd p)) as Hs.
  destruct (show_message on (fst p) (c_db c) (c_name c) (snd acc) (snd p)) as [o l]. cbn [fst] in *. nr.
Qed.

Lemma show_messages_nr s m cap : NR (snd (show_messages s m cap)).
Proof.
  unfold show_messages. cbv zeta.
  destruct (scan_matching _ _ _ _ _ _) as [[matching didnt] ns].
  destruct matching as [|x matching]; [cbn [snd]; nr|].
  match goal with |- context [fold_left ?f ?l ?a] =>
    pose proof (fold_show_nr s (s_color s) l a) as H; destruct (fold_left f l a) as [outs lst] end.
  cbn [fst snd] in *. nr. apply H. constructor.
Qed.

Lemma list_connections_nr s : NR (list_connections s).
Proof.
  unfold list_connections. generalize 0%nat. induction (s_conns s) as [|c cs IH]; intros i; [constructor|].
  constructor; [exact I|apply IH].
Qed.

Lemma parse_and_join_nr s t old m errs : parse_and_join s t old = Ok (m, errs) -> NR errs.
Proof.
  unfold parse_and_join. destruct (parse t) as [p|e msg].
  - intros H. injection H as _ <-. constructor.
  - destruct e; try discriminate. intros H. injection H as _ <-. unfold error_line. nr.
Qed.

Lemma cmd_help_nr s a : NR (snd (cmd_help s a)).
Proof.
  unfold cmd_help. destruct a as [|c a]; [cbn [snd]; nr|]. cbv zeta.
  destruct (str_eqb _ (s2l "matcher")); [cbn [snd]; nr|].
  match goal with |- context [get_command' ?on ?x] =>
    pose proof (get_command'_nr on x) as H; destruct (get_command' on x) as [r errs] end.
  cbn [snd] in *. nr.
Qed.

Lemma cmd_list_nr s a : NR (snd (cmd_list s a)).
Proof.
  unfold cmd_list. cbv zeta.
  match goal with |- context [match ?cap with Ok _ => _ | Raise _ _ => _ end] => destruct cap as [cap'|e msg] end.
  - destruct (match split_tilde a with x :: _ => x | [] => [] end) as [|c0 t0]; [apply show_messages_nr|].
    destruct (parse_and_join s (c0 :: t0) None) as [[m errs]|e msg] eqn:E; [|cbn [snd]; nr].
    pose proof (parse_and_join_nr _ _ _ _ _ E) as He. pose proof (show_messages_nr s m cap') as Hs.
    destruct (show_messages s m cap') as [s1 o]. cbn [snd] in *. nr.
  - destruct e; cbn [snd]; unfold error_line; nr.
Qed.

Lemma cmd_filter_nr s a : NR (snd (cmd_filter s a)).
Proof.
  unfold cmd_filter. cbv zeta. destruct a as [|c a]; [cbn [snd]; nr|].
  destruct (parse_and_join s (c :: a) _) as [[m errs]|e msg] eqn:E; [|cbn [snd]; nr].
  pose proof (parse_and_join_nr _ _ _ _ _ E) as He. cbn [snd]. nr.
Qed.

Lemma cmd_break_nr s a : NR (snd (cmd_break s a)).
Proof.
  unfold cmd_break. cbv zeta. destruct a as [|c a]; [cbn [snd]; nr|].
  destruct (parse_and_join s (c :: a) _) as [[m errs]|e msg] eqn:E; [|cbn [snd]; nr].
  pose proof (parse_and_join_nr _ _ _ _ _ E) as He. cbn [snd]. nr.
Qed.

Lemma cmd_matcher_nr s a : NR (snd (cmd_matcher s a)).
Proof.
  unfold cmd_matcher. cbv zeta. destruct a as [|c a]; [cbn [snd]; nr|].
  destruct (parse (c :: a)) as [p|e msg].
  - destruct (parse (mshow (s_color s) p)) as [p2|e msg]; [|destruct e]; cbn [snd]; unfold error_line; nr.
  - destruct e; cbn [snd]; unfold error_line; nr.
Qed.

Lemma cmd_connection_nr s a : NR (snd (cmd_connection s a)).
Proof.
  unfold cmd_connection. cbv zeta. destruct a as [|c a]; [apply list_connections_nr|].
  destruct (str_eqb (c :: a) (s2l "all")); [cbn [snd]; nr|].
  destruct (negb (all_ascii (c :: a))); [cbn [snd]; nr|].
  match goal with |- context [match ?f with Some _ => _ | None => (s, _) end] => destruct f as [i|] end.
  - destruct (nth_error (s_conns s) i); cbn [snd]; nr.
  - cbn [snd]. unfold error_line. constructor; [exact I|apply list_connections_nr].
Qed.

Lemma run_command_nr s name arg : NR (snd (run_command s name arg)).
Proof.
  unfold run_command.
  destruct (str_eqb name (s2l "help")); [apply cmd_help_nr|].
  destruct (str_eqb name (s2l "list")); [apply cmd_list_nr|].
  destruct (str_eqb name (s2l "filter")); [apply cmd_filter_nr|].
  destruct (str_eqb name (s2l "breakpoint")); [apply cmd_break_nr|].
  destruct (str_eqb name (s2l "matcher")); [apply cmd_matcher_nr|].
  destruct (str_eqb name (s2l "connection")); [apply cmd_connection_nr|].
  destruct (str_eqb name (s2l "resume")); [constructor|].
  destruct (str_eqb name (s2l "quit")); constructor.
Qed.

(* generic fuel: the recursion on `w` / `wl` prefixes *)
Lemma resolve_cmd_nr on : forall fuel input, NR (fst (resolve_cmd fuel on input)).
Proof.
  induction fuel as [|f IH]; intros input; cbn [resolve_cmd]; [cbn [fst]; nr|].
  destruct (split_first_space (strip input)) as [a0 a1].
  set (first := strip (no_color a0)).
  set (second := match a1 with Some r => strip (no_color r) | None => [] end).
  assert (G : forall first1 pre, NR pre ->
            NR (fst (if str_eqb first1 [119%N] || str_eqb first1 (s2l "wl")
                     then let '(o, r) := resolve_cmd f on second in (pre ++ o, r)
                     else let first2 := if starts_with (s2l "wl") first1 then skipn 2 first1 else first1 in
                          let '(cmd, errs) := get_command' on first2 in
                          match cmd with
                          | Some name => (pre ++ errs, Some (name, second))
                          | None => (pre ++ errs, None)
                          end))).
  { intros first1 pre Hpre. destruct (_ || _).
    - pose proof (IH second) as H. destruct (resolve_cmd f on second) as [o r]. cbn [fst] in *. nr.
    - cbv zeta.
      match goal with |- context [get_command' on ?x] =>
        pose proof (get_command'_nr on x) as H; destruct (get_command' on x) as [cmd errs] end.
      cbn [snd] in H. destruct cmd; cbn [fst]; nr. }
  destruct first as [|c0 t0].
  - destruct second as [|d0 u0]; [|apply IH]. apply G. unfold error_line. nr.
  - apply G. constructor.
Qed.

Lemma process_command_nr fuel s input : NR (snd (process_command fuel s input)).
Proof.
  unfold process_command. pose proof (resolve_cmd_nr (s_color s) fuel input) as H.
  destruct (resolve_cmd fuel (s_color s) input) as [pre [[name arg]|]]; cbn [fst snd] in *; [|exact H].
  pose proof (run_command_nr s name arg) as Hr. destruct (run_command s name arg) as [s1 o]. cbn [snd] in *. nr.
Qed.

(* ---- the theorems ------------------------------------------------------------------------------ *)
(* 2a. one log-mode step, from any state *)
Theorem log_step_never_raises P T e : log_event e -> NR (snd (step P T e)).
Proof.
  destruct T as [b s]. destruct e as [id m|t|c| |id th m|id|c|id sv|id|id m]; intros He; try contradiction;
    unfold step; cbn [t_sess t_base].
  - destruct (rel_time b (p_time m)) as [b' rel]. pose proof (log_message_nr P s id rel m) as H.
    destruct (log_message P s id rel m) as [s1 o]. exact H.
  - exact (unprocessed_line_nr s t).
  - pose proof (process_command_nr command_fuel s c) as H. destruct (process_command command_fuel s c) as [s1 o]. exact H.
  - pose proof (log_eof_nr s) as H. destruct (log_eof s) as [s1 o]. exact H.
Qed.

(* 2b. any list of log-mode events, from any start state, for any protocol database: no output line
   is an ORaise *)
Theorem log_run_never_raises P : forall evs T, Forall log_event evs -> Forall NR (snd (run P T evs)).
Proof.
  induction evs as [|e evs IH]; intros T H; cbn [run]; [constructor|].
  inversion H as [|? ? He Hes]; subst.
  pose proof (log_step_never_raises P T e He) as Hs. destruct (step P T e) as [T1 o].
  specialize (IH T1 Hes). destruct (run P T1 evs) as [T2 os]. cbn [snd] in *. constructor; assumption.
Qed.

(* the same as a statement about membership *)
Corollary log_run_no_oraise P evs T ol e :
  Forall log_event evs -> In ol (snd (run P T evs)) -> ~ In (ORaise e) ol.
Proof.
  intros H Hin Hr. pose proof (log_run_never_raises P evs T H) as G.
  rewrite Forall_forall in G. specialize (G ol Hin). rewrite Forall_forall in G. exact (G _ Hr).
Qed.

(* what becomes of an exception of message resolution: RuntimeError is printed as text, anything else
   switches decoding off and prints an error; in both cases the output has no ORaise (above) *)
Theorem log_message_caught P s id rel m :
  s_parse s = true ->
  let r := log_message P s id rel m in
  s_parse (fst r) = true \/
  (s_parse (fst r) = false /\ exists o, snd r = o ++ [OOut [AnyText]; error_line (s_color (fst r)) [AnyText]]).
Proof.
  intros Hp. unfold log_message. replace (negb (s_parse s)) with false by (rewrite Hp; reflexivity). cbv zeta.
  assert (Hconn : forall s' , s_parse s' = true ->
            s_parse (fst (fst (fst (conn_message P s' id rel m)))) = true).
  { intros s' Hs'. unfold conn_message. destruct (find_open s' id) as [i|]; [|exact Hs'].
    destruct (nth_error (s_conns s') i) as [c|]; [|exact Hs'].
    destruct (resolve_msg P (c_db c) rel m) as [[d' rm] err]. destruct err as [e|]; [exact Hs'|].
    destruct (ctrl_on_message _ _ _ _ _ _) as [[k' outs] stop]. destruct stop; exact Hs'. }
  match goal with |- context [if ?b then (?x, []) else _] => destruct b; [set (s1 := x)|] end.
  - specialize (Hconn s1 Hp). destruct (conn_message P s1 id rel m) as [[[s3 o2] err] st]. cbn [fst] in Hconn.
    destruct err as [[e msg]|]; [destruct e|]; cbn [fst snd s_parse s_color];
      try (left; exact Hconn); right; (split; [reflexivity|]); exists o2; reflexivity.
  - match goal with |- context [open_conn ?a ?b ?c] =>
      assert (Ho : s_parse (fst (open_conn a b c)) = true)
        by (unfold open_conn; destruct (close_conn a id) as [sx ox] eqn:Ec; cbn [fst s_parse];
            revert Ec; unfold close_conn; destruct (find_open a id); [destruct (nth_error _ _)|];
            intros Ec; injection Ec as <- _; exact Hp);
      destruct (open_conn a b c) as [sa oa] end.
    cbn [fst] in Ho.
    match goal with |- context [conn_message P ?a id rel m] =>
      specialize (Hconn a Ho); destruct (conn_message P a id rel m) as [[[s3 o2] err] st] end.
    cbn [fst] in Hconn.
    destruct err as [[e msg]|]; [destruct e|]; cbn [fst snd s_parse s_color];
      try (left; exact Hconn); right; (split; [reflexivity|]); exists (oa ++ o2); rewrite app_assoc; reflexivity.
Qed.

(* ---- 3. text level: from a log line to its event ------------------------------------------------- *)
(* Entry.v's session entry takes events, not lines (the harness pairs lines and events itself), so
   this mapping is stated here; it is parse.into_sink's: a decoded message goes to the sink, a line
   the decoder rejects with RuntimeError is shown as unprocessed text.  Lines on which the decoder
   leaves the model (OutOfModel) or raises AssertionError (zero ids, NoRaiseA) have no event. *)
Definition line_event (l : str) : option event :=
  match message l with
  | Ok (id, m) => Some (EMsg id m)
  | Raise RuntimeError msg => Some (EText msg)
  | Raise _ _ => None
  end.

Lemma line_event_log l e : line_event l = Some e -> log_event e.
Proof.
  unfold line_event. destruct (message l) as [[id m]|ex msg]; [|destruct ex]; intros H; try discriminate;
    injection H as <-; exact I.
Qed.

(* every line without a zero id that stays inside the model has an event *)
Lemma line_event_total l : ~ zero_id_line l -> line_event l <> None \/ exists m, message l = Raise OutOfModel m.
Proof.
  intros Hn. pose proof (decode_exn_classes l) as H. pose proof (decode_assertion_only_zero_id l) as Ha.
  unfold line_event. destruct (message l) as [[id m]|ex msg]; [left; discriminate|].
  cbn in H. destruct H as [->|[->| ->]]; [left; discriminate|right; eexists; reflexivity|].
  exfalso. apply Hn. eapply Ha. reflexivity.
Qed.

Corollary line_step_never_raises P T l e : line_event l = Some e -> NR (snd (step P T e)).
Proof. intros H. apply log_step_never_raises. eapply line_event_log. exact H. Qed.

Fixpoint lines_events (ls : list str) : list event :=
  match ls with
  | [] => []
  | l :: ls' => match line_event l with Some e => e :: lines_events ls' | None => lines_events ls' end
  end.

Corollary lines_run_never_raises P T ls : Forall NR (snd (run P T (lines_events ls ++ [EEof]))).
Proof.
  apply log_run_never_raises. apply Forall_app. split; [|constructor; [exact I|constructor]].
  induction ls as [|l ls IH]; cbn [lines_events]; [constructor|].
  destruct (line_event l) as [e|] eqn:E; [|exact IH]. constructor; [eapply line_event_log; exact E|exact IH].
Qed.

(* ---- 4. non-vacuity ------------------------------------------------------------------------------ *)
Definition is_oraise (o : oline) : bool := match o with ORaise _ => true | _ => false end.
Definition is_oom (o : oline) : bool := match o with OOM => true | _ => false end.
Definition T0 : top := mkTop None (init_sess (MAlways true) (MAlways false) false true false).

(* the side condition is necessary: outside log mode ORaise is emitted *)
Example gdb_event_can_raise :
  existsb is_oraise (snd (step [] T0 (EOpen [] None))) = true /\
  existsb is_oraise (snd (step [] T0 (ESinkMsg (s2l "A") (mkPmsg 0 (Some (s2l "wl_a")) 1 false (s2l "b") [])))) = true.
Proof. vm_compute. split; reflexivity. Qed.

(* D9 in the model: more `w` prefixes than command_fuel is an OOM step, not an ORaise *)
Definition w_prefixes (n : nat) : str := List.concat (List.repeat (s2l "w ") n) ++ s2l "help".
Example deep_prefix_is_oom :
  snd (step [] T0 (ECmd (w_prefixes 200))) = [OOM] /\
  existsb is_oom (snd (step [] T0 (ECmd (w_prefixes 199)))) = false.
Proof. vm_compute. split; reflexivity. Qed.

(* a session over garbage lines: every line has an event or is a zero-id / out-of-model line; the
   run prints something and no ORaise *)
Definition garbage_lines : list str :=
  [ []; s2l "["; s2l "[1e5] wl_a@1.b()"; s2l "[1.0] wl_a@1.b(""unbalanced)";
    s2l "[1.0] wl_display@1.get_registry(new id wl_registry@2)";
    s2l "[1.0] wl_a@99999999999999999999999999.b(1, 2, 3, 4, 5, 6, 7, 8, 9, 10, 11, 12, 13, 14, 15, 16, 17, 18, 19, 20, 21, 22, 23, 24, 25, 26, 27, 28, 29, 30)";
    s2l "[2.0] <B> wl_display@1.delete_id(""x"")";
    s2l "[1.0] wl_surface@0.commit()";
    s2l "[3.0] wl_a@1.b()" ].

Example garbage_session :
  List.length (lines_events garbage_lines) = 8%nat /\
  let out := snd (run [] T0 (lines_events garbage_lines ++ [ECmd (s2l "list"); ECmd (s2l "f [("); ECmd (s2l "l ~x"); EEof])) in
  existsb is_oraise (List.concat out) = false /\ Nat.ltb 10 (List.length (List.concat out)) = true.
Proof. vm_compute. repeat split. Qed.

Print Assumptions log_step_never_raises.
Print Assumptions log_run_never_raises.
Print Assumptions log_message_caught.
Print Assumptions lines_run_never_raises.
