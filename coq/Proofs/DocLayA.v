(* DocLayA.v — T1 for every whitespace placement, generic part: properties of the padded joins PJ / PB
   of DocLay.v (balanced, chunks, fuel, depth), parse_matcher_list_with on such a text. *)
From WD Require Import Base Wire Conn Color LetterId Matcher MatcherParse Doc DocLay.
From WD Require Import LetterIdProofs DecodeBasics ColorProofs ProtocolProofs MatcherProofs
  DocParseA DocParseB DocParseC DocParseD DocParseE DocParseF.
From Coq Require Import Lia ZifyBool ZifyNat ZifyN.
Open Scope N_scope.

Lemma blank_str_blank p : blank_str p -> blank p.
Proof. exact (fun H => H). Qed.
Global Hint Resolve blank_str_blank : core.

(* ---- square brackets ------------------------------------------------------------------------------------- *)
Lemma sq_bracket b : sq b = bracket b [].
Proof. reflexivity. Qed.

Lemma bracketed_sq b : bracketed (sq b) = true.
Proof. apply (bracketed_bracket b []). Qed.
Lemma strip_ends_sq b : strip_ends (sq b) = b.
Proof. rewrite sq_bracket, strip_ends_bracket. cbn [app]. apply app_nil_r. Qed.
Lemma Good_sq b : Good b -> Good (sq b).
Proof. apply (Good_bracket b []). reflexivity. Qed.
Lemma Chunk_sq (d : char) b : d <> 91 -> Good b -> Chunk d (sq b).
Proof. intros H G. apply (Chunk_bracket d b []); [exact H|reflexivity|exact G]. Qed.
Lemma cnt91_sq b : (S (cnt91 b) <= cnt91 (sq b))%nat.
Proof. apply (cnt91_bracket b []). Qed.
Lemma strip_sq b : strip (sq b) = sq b.
Proof. apply (strip_bracket b []). Qed.
Lemma sq_ne_nil b : sq b <> [].
Proof. discriminate. Qed.
Lemma HasDepth_sq b D : HasDepth b D -> HasDepth (sq b) (S D).
Proof. apply (HasDepth_bracket b []). reflexivity. Qed.
Lemma fuel_pos_sq b f : (cnt91 (sq b) <= f)%nat -> exists f', f = S f'.
Proof. apply (fuel_pos b []). Qed.

(* ---- padded joins ------------------------------------------------------------------------------------------ *)
Section Closed.
  Variable P : str -> Prop.
  Hypothesis Papp : forall a b, P a -> P b -> P (a ++ b).
  Hypothesis Pblank : forall p, blank p -> P p.

  Lemma PJ_closed : P [44] -> forall ss s, PJ ss s -> Forall P ss -> P s.
  Proof.
    intros P44 ss s H. induction H as [p Hp|p1 x p2 H1 H2|p1 x p2 y r s H1 H2 Hs IH]; intros F.
    - apply Pblank, Hp.
    - inversion F; subst. apply Papp; [apply Pblank, H1|]. apply Papp; [assumption|apply Pblank, H2].
    - inversion F; subst. apply Papp; [apply Pblank, H1|]. apply Papp; [assumption|].
      apply Papp; [apply Pblank, H2|]. change (44 :: s) with ([44] ++ s). apply Papp; [exact P44|]. apply IH. assumption.
  Qed.

  Lemma PB_closed : P [44] -> P [33] -> forall ps ns s, PB ps ns s -> Forall P ps -> Forall P ns -> P s.
  Proof.
    intros P44 P33 ps ns s H F1 F2. destruct H as [ps s H|ps n ns a b Ha Hb].
    - apply (PJ_closed P44 ps s H F1).
    - apply Papp; [apply (PJ_closed P44 ps a Ha F1)|]. change (33 :: b) with ([33] ++ b).
      apply Papp; [exact P33|apply (PJ_closed P44 _ b Hb F2)].
  Qed.
End Closed.

Lemma PB_Good ps ns s : PB ps ns s -> Forall Good ps -> Forall Good ns -> Good s.
Proof.
  apply (PB_closed Good Good_app Good_blank); apply Good_one; reflexivity.
Qed.

Lemma PB_esc_free ps ns s : PB ps ns s -> Forall esc_free ps -> Forall esc_free ns -> esc_free s.
Proof.
  apply (PB_closed esc_free).
  - intros a b Ha Hb. apply esc_free_app. split; assumption.
  - intros p Hp. apply Good_esc, Good_blank, Hp.
  - reflexivity.
  - reflexivity.
Qed.

Lemma PJ_Chunk (d : char) ss s : is_space d = false -> d <> 44 -> is_brace d = false \/ True ->
  PJ ss s -> Forall (Chunk d) ss -> Chunk d s.
Proof.
  intros Hd H44 _. apply (PJ_closed (Chunk d) (Chunk_app d)).
  - intros p Hp. apply Chunk_blank; assumption.
  - apply Chunk_one; [congruence|reflexivity].
Qed.

Lemma PJ_cnt91 ss s x : PJ ss s -> In x ss -> (cnt91 x <= cnt91 s)%nat.
Proof.
  intros H. induction H as [p Hp|p1 y p2 H1 H2|p1 y p2 z r s H1 H2 Hs IH]; intros Hx.
  - contradiction.
  - destruct Hx as [->|[]]. rewrite !cnt91_app. lia.
  - rewrite !cnt91_app. change (44 :: s) with ([44] ++ s). rewrite cnt91_app.
    destruct Hx as [->|Hx]; [lia|]. specialize (IH Hx). lia.
Qed.

Lemma PB_cnt91 ps ns s x : PB ps ns s -> In x (ps ++ ns) -> (cnt91 x <= cnt91 s)%nat.
Proof.
  intros H Hx. apply in_app_or in Hx. destruct H as [ps s H|ps n ns a b Ha Hb].
  - destruct Hx as [Hx|[]]. apply (PJ_cnt91 _ _ _ H Hx).
  - rewrite cnt91_app. change (33 :: b) with ([33] ++ b). rewrite cnt91_app.
    destruct Hx as [Hx|Hx]; [pose proof (PJ_cnt91 _ _ _ Ha Hx)|pose proof (PJ_cnt91 _ _ _ Hb Hx)]; lia.
Qed.

Lemma PJ_depth {A} (d : A -> nat) ss s : PJ ss s -> forall xs,
  Forall2 (fun x s0 => HasDepth s0 (d x)) xs ss -> HasDepth s (lmax d xs).
Proof.
  intros H. induction H as [p Hp|p1 y p2 H1 H2|p1 y p2 z r s H1 H2 Hs IH]; intros xs F.
  - inversion F; subst. cbn [lmax]. apply HasDepth_blank, Hp.
  - inversion F as [|x0 s0 xr sr Hx Hr]; subst. inversion Hr; subst. cbn [lmax].
    apply (HasDepth_eq _ (Nat.max 0 (Nat.max (d x0) 0))); [lia|].
    apply HasDepth_app; [apply HasDepth_blank, H1|]. apply HasDepth_app; [exact Hx|apply HasDepth_blank, H2].
  - inversion F as [|x0 s0 xr sr Hx Hr]; subst. cbn [lmax].
    apply (HasDepth_eq _ (Nat.max 0 (Nat.max (d x0) (Nat.max 0 (Nat.max 0 (lmax d xr)))))); [lia|].
    apply HasDepth_app; [apply HasDepth_blank, H1|]. apply HasDepth_app; [exact Hx|].
    apply HasDepth_app; [apply HasDepth_blank, H2|]. change (44 :: s) with ([44] ++ s).
    apply HasDepth_app; [apply HasDepth_one; discriminate|]. apply IH. exact Hr.
Qed.

Lemma PB_depth {A} (d : A -> nat) ps ns s pos neg : PB ps ns s ->
  Forall2 (fun x s0 => HasDepth s0 (d x)) pos ps -> Forall2 (fun x s0 => HasDepth s0 (d x)) neg ns ->
  HasDepth s (Nat.max (lmax d pos) (lmax d neg)).
Proof.
  intros H F1 F2. destruct H as [ps s H|ps n ns a b Ha Hb].
  - inversion F2; subst. cbn [lmax]. apply (HasDepth_eq _ (lmax d pos)); [lia|]. apply (PJ_depth d _ _ H _ F1).
  - apply (HasDepth_eq _ (Nat.max (lmax d pos) (Nat.max 0 (lmax d neg)))); [lia|].
    apply HasDepth_app; [apply (PJ_depth d _ _ Ha _ F1)|]. change (33 :: b) with ([33] ++ b).
    apply HasDepth_app; [apply HasDepth_one; discriminate|apply (PJ_depth d _ _ Hb _ F2)].
Qed.

(* the segments seen by the splitter on 44 *)
Definition Pd (x seg : str) : Prop := exists p1 p2, blank p1 /\ blank p2 /\ seg = p1 ++ x ++ p2.

Lemma PJ_segs ss s : PJ ss s -> ss <> [] ->
  exists seg segs, s = seg ++ flat 44 segs /\ Forall2 Pd ss (seg :: segs).
Proof.
  intros H. induction H as [p Hp|p1 y p2 H1 H2|p1 y p2 z r s H1 H2 Hs IH]; intros Hn.
  - congruence.
  - exists (p1 ++ y ++ p2), []. split; [unfold flat; cbn [map List.concat]; rewrite app_nil_r; reflexivity|].
    constructor; [|constructor]. exists p1, p2. auto.
  - destruct IH as [seg [segs [E F]]]; [discriminate|].
    exists (p1 ++ y ++ p2), (seg :: segs). split.
    + rewrite flat_cons, E. repeat rewrite <- app_assoc. reflexivity.
    + constructor; [|exact F]. exists p1, p2. auto.
Qed.

Lemma Pd_strip x seg : Pd x seg -> strip seg = strip x.
Proof. intros [p1 [p2 [H1 [H2 ->]]]]. rewrite strip_blank_app by exact H1. apply strip_app_blank, H2. Qed.

Lemma Pd_Chunk (d : char) x seg : is_space d = false -> Pd x seg -> Chunk d x -> Chunk d seg.
Proof.
  intros Hd [p1 [p2 [H1 [H2 ->]]]] Hx. apply Chunk_app; [apply Chunk_blank; assumption|].
  apply Chunk_app; [exact Hx|apply Chunk_blank; assumption].
Qed.

Lemma Forall2_Pd_strip ss segs : Forall2 Pd ss segs -> map strip segs = map strip ss.
Proof. intros H. induction H as [|x y xs ys Hxy Hr IH]; [reflexivity|]. cbn [map]. rewrite (Pd_strip _ _ Hxy), IH. reflexivity. Qed.

Lemma Forall2_Pd_Chunk (d : char) ss segs : is_space d = false -> Forall2 Pd ss segs -> Forall (Chunk d) ss -> Forall (Chunk d) segs.
Proof.
  intros Hd H. induction H as [|x y xs ys Hxy Hr IH]; intros F; [constructor|].
  inversion F; subst. constructor; [apply (Pd_Chunk d x y Hd Hxy); assumption|apply IH; assumption].
Qed.

Lemma PJ_split ss s : PJ ss s -> ss <> [] -> Forall (Chunk 44) ss -> split_on s 44 false = Ok (map strip ss).
Proof.
  intros H Hn F. destruct (PJ_segs ss s H Hn) as [seg [segs [E F2]]]. subst s.
  pose proof (Forall2_Pd_Chunk 44 _ _ eq_refl F2 F) as C. inversion C; subst.
  rewrite split_on_segs by (try reflexivity; assumption).
  change (strip seg :: map strip segs) with (map strip (seg :: segs)). rewrite (Forall2_Pd_strip _ _ F2). reflexivity.
Qed.

Lemma PJ_nil_blank s : PJ [] s -> blank s.
Proof. intros H. inversion H; subst. assumption. Qed.

Lemma PJ_strip_ne x r s : PJ (x :: r) s -> strip x <> [] -> strip s <> [].
Proof.
  intros H Hx. inversion H; subst.
  - apply strip_ne_r, strip_ne_l, Hx.
  - apply strip_ne_r, strip_ne_l, Hx.
Qed.

(* ---- parse_matcher_list_with on a padded list ------------------------------------------------------------------ *)
Lemma PJ_Chunk33 ss s : PJ ss s -> Forall (Chunk 33) ss -> Chunk 33 s.
Proof. apply PJ_Chunk; [reflexivity|discriminate|right; exact I]. Qed.

Lemma split_on_blank s : blank s -> split_on s 44 false = Ok [[]].
Proof.
  intros H. rewrite split_on_false. rewrite sog_blank_only; [reflexivity|reflexivity|exact H].
Qed.

Lemma pml_PB rec k ps ns s ms1 ms2 m0 :
  PB ps ns s -> Forall (Chunk 33) (ps ++ ns) -> Forall (Chunk 44) (ps ++ ns) ->
  Forall2 (fun x m => parse_item rec k (strip x) = Ok m) ps ms1 ->
  Forall2 (fun x m => parse_item rec k (strip x) = Ok m) ns ms2 ->
  parse_item rec k [] = Ok m0 -> (ps <> [] \/ ns <> []) ->
  parse_matcher_list_with rec k s = Ok (assemble m0 ms1 ms2).
Proof.
  intros H H33 H44 Hps Hns H0 Hne.
  apply Forall_app in H33. destruct H33 as [P33 N33].
  apply Forall_app in H44. destruct H44 as [P44 N44].
  unfold parse_matcher_list_with. destruct H as [ps s H|ps n ns a b Ha Hb].
  - inversion Hns; subst. destruct Hne as [Hne|Hne]; [|congruence].
    rewrite split_pair_none by (apply (PJ_Chunk33 _ _ H P33)). cbn [bind].
    rewrite (PJ_split _ _ H Hne P44). cbn [bind].
    rewrite (mapM_strip_Forall2 _ _ _ Hps). cbn [bind assemble].
    destruct ms1 as [|x [|y r]]; reflexivity.
  - rewrite split_pair_two; [|reflexivity|apply (PJ_Chunk33 _ _ Ha P33)|apply (PJ_Chunk33 _ _ Hb N33)].
    cbn [bind]. rewrite !split_on_strip by reflexivity.
    rewrite (PJ_split _ _ Hb) by (try assumption; discriminate).
    destruct ps as [|p0 ps].
    + inversion Hps; subst. rewrite (split_on_blank a (PJ_nil_blank a Ha)).
      cbn [bind mapM]. rewrite H0. cbn [bind].
      rewrite (mapM_strip_Forall2 _ _ _ Hns). cbn [bind assemble].
      inversion Hns; subst. reflexivity.
    + rewrite (PJ_split _ _ Ha) by (try assumption; discriminate).
      cbn [bind]. rewrite (mapM_strip_Forall2 _ _ _ Hps). cbn [bind].
      rewrite (mapM_strip_Forall2 _ _ _ Hns). cbn [bind assemble].
      inversion Hns; subst. inversion Hps; subst. reflexivity.
Qed.

(* ---- the list case of every level ------------------------------------------------------------------------------- *)
Lemma exists_Forall2R {A} (R : A -> str -> Prop) (F : str -> mt -> Prop) (Rel : mt -> mt -> Prop) (el : A -> mt) xs ss :
  Forall2 R xs ss ->
  (forall x s, In x xs -> In s ss -> R x s -> exists m, F s m /\ Rel m (el x)) ->
  exists ms, Forall2 F ss ms /\ Forall2 Rel ms (map el xs).
Proof.
  intros H. induction H as [|x s xs ss Hxs Hr IH]; intros K.
  - exists []. split; constructor.
  - destruct (K x s (or_introl eq_refl) (or_introl eq_refl) Hxs) as [m [H1 H2]].
    destruct IH as [ms [I1 I2]]; [intros y t Hy Ht; apply K; right; assumption|].
    exists (m :: ms). split; constructor; assumption.
Qed.

Lemma Forall2_Forall_r {A} (R : A -> str -> Prop) (Q : str -> Prop) xs ss :
  Forall2 R xs ss -> (forall x s, In x xs -> In s ss -> R x s -> Q s) -> Forall Q ss.
Proof.
  intros H. induction H as [|x s xs ss Hxs Hr IH]; intros K; [constructor|].
  constructor; [apply (K x s (or_introl eq_refl) (or_introl eq_refl) Hxs)|apply IH; intros y t Hy Ht; apply K; right; assumption].
Qed.

Lemma Forall2_nil_iff {A B} (R : A -> B -> Prop) xs ys : Forall2 R xs ys -> (xs = [] <-> ys = []).
Proof. intros H. destruct H; split; intros; try reflexivity; discriminate. Qed.

Lemma level_listR {A} (R : A -> str -> Prop) (Rel : mt -> mt -> Prop) k (el : A -> mt) pos neg ps ns b f m0 :
  Forall2 R pos ps -> Forall2 R neg ns -> PB ps ns b ->
  (forall x s, In x (pos ++ neg) -> In s (ps ++ ns) -> R x s -> Chunk 33 s /\ Chunk 44 s) ->
  (forall x s, In x (pos ++ neg) -> In s (ps ++ ns) -> R x s ->
     exists m, parse_item (parse_list f) k (strip s) = Ok m /\ Rel m (el x)) ->
  parse_item (parse_list f) k [] = Ok m0 ->
  (pos <> [] \/ neg <> []) ->
  exists ms1 ms2, parse_list (S f) k b = Ok (assemble m0 ms1 ms2)
    /\ Forall2 Rel ms1 (map el pos) /\ Forall2 Rel ms2 (map el neg).
Proof.
  intros F1 F2 HB Hch Hpar H0 Hne.
  destruct (exists_Forall2R R (fun s m => parse_item (parse_list f) k (strip s) = Ok m) Rel el pos ps F1) as [ms1 [P1 P2]].
  { intros x s Hx Hs. apply Hpar; apply in_or_app; left; assumption. }
  destruct (exists_Forall2R R (fun s m => parse_item (parse_list f) k (strip s) = Ok m) Rel el neg ns F2) as [ms2 [N1 N2]].
  { intros x s Hx Hs. apply Hpar; apply in_or_app; right; assumption. }
  exists ms1, ms2. split; [|split; assumption]. cbn [parse_list].
  apply (pml_PB _ k ps ns b ms1 ms2 m0 HB); try assumption.
  - apply Forall_app. split.
    + apply (Forall2_Forall_r R _ _ _ F1). intros x s Hx Hs Hr. apply (Hch x s); [apply in_or_app; left; exact Hx|apply in_or_app; left; exact Hs|exact Hr].
    + apply (Forall2_Forall_r R _ _ _ F2). intros x s Hx Hs Hr. apply (Hch x s); [apply in_or_app; right; exact Hx|apply in_or_app; right; exact Hs|exact Hr].
  - apply Forall_app. split.
    + apply (Forall2_Forall_r R _ _ _ F1). intros x s Hx Hs Hr. apply (Hch x s); [apply in_or_app; left; exact Hx|apply in_or_app; left; exact Hs|exact Hr].
    + apply (Forall2_Forall_r R _ _ _ F2). intros x s Hx Hs Hr. apply (Hch x s); [apply in_or_app; right; exact Hx|apply in_or_app; right; exact Hs|exact Hr].
  - destruct Hne as [Hne|Hne]; [left|right]; intros E.
    + apply (Forall2_nil_iff _ _ _ F1) in E. congruence.
    + apply (Forall2_nil_iff _ _ _ F2) in E. congruence.
Qed.

Lemma level_listR_eq {A} (R : A -> str -> Prop) k (el : A -> mt) pos neg ps ns b f :
  Forall2 R pos ps -> Forall2 R neg ns -> PB ps ns b ->
  (forall x s, In x (pos ++ neg) -> In s (ps ++ ns) -> R x s -> Chunk 33 s /\ Chunk 44 s) ->
  (forall x s, In x (pos ++ neg) -> In s (ps ++ ns) -> R x s -> parse_item (parse_list f) k (strip s) = Ok (el x)) ->
  parse_item (parse_list f) k [] = Ok (MAlways true) ->
  (pos <> [] \/ neg <> []) ->
  parse_list (S f) k b = Ok (list_or_single (map el pos) (map el neg)).
Proof.
  intros F1 F2 HB Hch Hpar H0 Hne.
  destruct (level_listR R (fun m e => m = e) k el pos neg ps ns b f (MAlways true) F1 F2 HB Hch) as [ms1 [ms2 [E [P N]]]]; try assumption.
  { intros x s Hx Hs Hr. exists (el x). split; [apply (Hpar x s Hx Hs Hr)|reflexivity]. }
  apply Forall2_eq_id in P, N. subst. rewrite E. reflexivity.
Qed.

Lemma level_listR_seq {A} (R : A -> str -> Prop) k (el : A -> mt) pos neg ps ns b f m0 :
  Forall2 R pos ps -> Forall2 R neg ns -> PB ps ns b ->
  (forall x s, In x (pos ++ neg) -> In s (ps ++ ns) -> R x s -> Chunk 33 s /\ Chunk 44 s) ->
  (forall x s, In x (pos ++ neg) -> In s (ps ++ ns) -> R x s ->
     exists m, parse_item (parse_list f) k (strip s) = Ok m /\ seq m (el x)) ->
  parse_item (parse_list f) k [] = Ok m0 -> simplify m0 = MAlways true ->
  (pos <> [] \/ neg <> []) ->
  exists m, parse_list (S f) k b = Ok m /\ seq m (list_or_single (map el pos) (map el neg)).
Proof.
  intros F1 F2 HB Hch Hpar H0 Hs Hne.
  destruct (level_listR R seq k el pos neg ps ns b f m0 F1 F2 HB Hch Hpar H0 Hne) as [ms1 [ms2 [E [P N]]]].
  exists (assemble m0 ms1 ms2). split; [exact E|]. apply seq_assemble; assumption.
Qed.

(* fuel for the children *)
Lemma fuel_childR ps ns b f s : PB ps ns b -> (cnt91 (sq b) <= S f)%nat -> In s (ps ++ ns) -> (cnt91 s <= f)%nat.
Proof. intros HB Hf Hs. pose proof (cnt91_sq b). pose proof (PB_cnt91 _ _ _ _ HB Hs). lia. Qed.

(* properties of all children of a list, by the induction hypothesis *)
Lemma Forall2_lift {A} (wf : A -> bool) (R : A -> str -> Prop) (Q : A -> str -> Prop) xs ss :
  Forall (fun x => wf x = true -> forall s, R x s -> Q x s) xs -> forallb wf xs = true ->
  Forall2 R xs ss -> Forall2 Q xs ss.
Proof.
  intros IH W F. induction F as [|x s xs ss Hxs Hr IHF]; [constructor|].
  inversion IH; subst. cbn [forallb] in W. apply andb_true_iff in W. destruct W as [W1 W2].
  constructor; auto.
Qed.

Lemma Forall2_r_Forall {A} (Q : A -> str -> Prop) (P : str -> Prop) xs ss :
  Forall2 Q xs ss -> (forall x s, Q x s -> P s) -> Forall P ss.
Proof. intros H K. induction H; constructor; eauto. Qed.
