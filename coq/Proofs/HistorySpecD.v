(* HistorySpecD.v — non-vacuity and corner cases of HistorySpecA/B/C, all by vm_compute.
   [view] of a recorded message = (target, object arguments, destroyed-annotation). *)
From WD Require Import Base Wire Protocol Conn ConnProofs HistorySpecA HistorySpecB HistorySpecC.
Open Scope Z_scope.

Definition M (ty : string) (id : Z) (sent : bool) (name : string) (args : list parg) : Z * pmsg :=
  (0, mkPmsg 0 (Some (s2l ty)) id sent (s2l name) args).
Definition NewT (id : Z) (ty : string) : parg := PObj id (Some (s2l ty)) true.
Definition C (id : Z) (ty : string) : ev := ECre id (s2l ty).
Definition U (id : Z) (ty : string) : oref := Unresolved id (Some (s2l ty)).
(* alive flags of incarnations 0,1,2 of each listed id, read from the model's table *)
Definition alive_tab (P : pdb) (h : list (Z * pmsg)) (ids : list Z) : list (list (option bool)) :=
  map (fun id => map (fun g => option_map o_alive (lookup_obj (fst (conn_run P db_init h)) id g))
                     [0; 1; 2]%N) ids.

Definition pre : list (Z * pmsg) := [
  M "wl_display" 1 true "get_registry" [NewT 2 "wl_registry"];
  M "wl_registry" 2 true "bind" [PInt 1; PStr (s2l "wl_compositor"); PInt 4; PObj 3 None true] ].

(* ---- 1. an id reused three times, with a zombie mention -------------------------------------- *)
Definition h_reuse : list (Z * pmsg) := pre ++ [
  M "wl_compositor" 3 true "create_surface" [NewT 4 "wl_surface"];
  M "wl_display" 1 false "delete_id" [PInt 3];
  M "wl_compositor" 3 true "zombie" [];                         (* after its delete_id: still 3a *)
  M "wl_registry" 2 true "bind" [PInt 2; PStr (s2l "wl_shm"); PInt 1; PObj 3 None true];
  M "wl_shm" 3 false "format" [PInt 0];
  M "wl_display" 1 false "delete_id" [PInt 3];
  M "wl_registry" 2 true "bind" [PInt 3; PStr (s2l "wl_seat"); PInt 1; PObj 3 None true];
  M "wl_seat" 3 false "name" [PStr (s2l "x"); PObj 4 None false] ].

Example ex_reuse :
  map view (snd (conn_run [] db_init h_reuse)) =
    [ (Resolved 1 0, [Some (Resolved 2 0)], None);
      (Resolved 2 0, [None; None; None; Some (Resolved 3 0)], None);
      (Resolved 3 0, [Some (Resolved 4 0)], None);
      (Resolved 1 0, [None], Some (Resolved 3 0));
      (Resolved 3 0, [], None);                                  (* zombie mention -> 3a *)
      (Resolved 2 0, [None; None; None; Some (Resolved 3 1)], None);
      (Resolved 3 1, [None], None);
      (Resolved 1 0, [None], Some (Resolved 3 1));
      (Resolved 2 0, [None; None; None; Some (Resolved 3 2)], None);
      (Resolved 3 2, [None; Some (Resolved 4 0)], None) ] /\
  map sview (spec_run [] tr0 h_reuse) = map view (snd (conn_run [] db_init h_reuse)) /\
  trace [] h_reuse =
    [ C 1 "wl_display"; C 2 "wl_registry"; C 3 "wl_compositor"; C 4 "wl_surface"; EDel 3;
      C 3 "wl_shm"; EDel 3; C 3 "wl_seat" ] /\
  ncre (trace [] h_reuse) 3 = 3%nat /\
  alive_tab [] h_reuse [3; 4] = [[Some false; Some false; Some true]; [Some true; None; None]] /\
  (* after 5 messages (the zombie mention is message 4): 3a exists, is dead, is still the latest *)
  alive_tab [] (firstn 5 h_reuse) [3] = [[Some false; None; None]] /\
  alive (trace [] (firstn 5 h_reuse)) 3 = false /\
  wf_hist [] h_reuse = true /\ ntrace [] h_reuse = trace [] h_reuse.
Proof. vm_compute. repeat split. Qed.

(* ---- 2. a server-range id announced again without delete_id ------------------------------- *)
Definition S0 : Z := 4278190080.     (* 0xff000000 *)
Definition h_server : list (Z * pmsg) := pre ++ [
  M "wl_compositor" 3 false "data_offer" [NewT S0 "wl_data_offer"];
  M "wl_data_offer" S0 false "offer" [PStr (s2l "text/plain")];
  M "wl_compositor" 3 false "data_offer" [NewT S0 "wl_data_offer"];
  M "wl_data_offer" S0 false "offer" [PStr (s2l "x")] ].

Example ex_server :
  map view (snd (conn_run [] db_init h_server)) =
    [ (Resolved 1 0, [Some (Resolved 2 0)], None);
      (Resolved 2 0, [None; None; None; Some (Resolved 3 0)], None);
      (Resolved 3 0, [Some (Resolved S0 0)], None);
      (Resolved S0 0, [None], None);
      (Resolved 3 0, [Some (Resolved S0 1)], None);              (* re-announced: incarnation b *)
      (Resolved S0 1, [None], None) ] /\
  trace [] h_server =
    [ C 1 "wl_display"; C 2 "wl_registry"; C 3 "wl_compositor"; C S0 "wl_data_offer"; C S0 "wl_data_offer" ] /\
  alive_tab [] h_server [S0] = [[Some false; Some true; None]] /\   (* a died implicitly, no annotation *)
  wf_hist [] h_server = true.
Proof. vm_compute. repeat split. Qed.

(* ---- 3. CORNER: a client-range id "created" while still alive ------------------------------- *)
(* the tool skips the creation silently: the new-id mention is attributed to the OLD incarnation
   (or left unresolved when the interface differs) and later mentions too.  The naive count of
   typed new-id arguments (3) is not the number of incarnations (1): wf_hist is needed for the
   naive reading, and fails here. *)
Definition h_reject : list (Z * pmsg) := pre ++ [
  M "wl_compositor" 3 true "create_surface" [NewT 4 "wl_surface"];
  M "wl_compositor" 3 true "create_surface" [NewT 4 "wl_surface"];
  M "wl_compositor" 3 true "create_region" [NewT 4 "wl_region"];
  M "wl_surface" 4 true "commit" [] ].

Example ex_reject :
  map view (snd (conn_run [] db_init h_reject)) =
    [ (Resolved 1 0, [Some (Resolved 2 0)], None);
      (Resolved 2 0, [None; None; None; Some (Resolved 3 0)], None);
      (Resolved 3 0, [Some (Resolved 4 0)], None);
      (Resolved 3 0, [Some (Resolved 4 0)], None);               (* "new" 4 = the old 4a *)
      (Resolved 3 0, [Some (U 4 "wl_region")], None);            (* "new" 4 unresolved *)
      (Resolved 4 0, [], None) ] /\
  map sview (spec_run [] tr0 h_reject) = map view (snd (conn_run [] db_init h_reject)) /\
  alive_tab [] h_reject [4] = [[Some true; None; None]] /\
  ncre (trace [] h_reject) 4 = 1%nat /\ ncre (ntrace [] h_reject) 4 = 3%nat /\
  wf_hist [] h_reject = false /\
  (* the naive reading is wrong from message 3 on: after it, it expects incarnation 4b *)
  spec_ref (ntrace [] (firstn 4 h_reject)) 4 (Some (s2l "wl_surface")) = Resolved 4 1 /\
  spec_ref (trace [] (firstn 4 h_reject)) 4 (Some (s2l "wl_surface")) = Resolved 4 0.
Proof. vm_compute. repeat split. Qed.

(* ---- 4. CORNERS around delete_id and mentions ------------------------------------------------- *)
Definition h_corner : list (Z * pmsg) := pre ++ [
  M "wl_display" 1 false "delete_id" [PInt 3];
  M "wl_display" 1 false "delete_id" [PInt 3];                   (* again: annotated again, same 3a *)
  M "wl_display" 1 false "delete_id" [PInt 9];                   (* never created: no annotation *)
  M "wl_registry" 2 true "frob" [PObj 7 None true];              (* untyped new id: no creation *)
  M "wl_shm" 3 true "frob" [];                                   (* printed interface contradicts: unresolved *)
  M "wl_display" 1 false "delete_id" [PInt 3; NewT 3 "wl_x"];    (* delete first, then the arguments *)
  M "wl_display" 1 false "delete_id" [PInt 1];                   (* the display itself *)
  M "wl_display" 1 true "sync" [NewT 8 "wl_callback"];           (* dead display still resolves *)
  M "wl_registry" 2 true "bind" [PInt 1; PStr (s2l "x")];        (* malformed bind: abandoned *)
  M "wl_*" 8 true "glob" [] ].                                   (* '*' in a printed interface is a wildcard *)

Example ex_corner :
  map view (snd (conn_run [] db_init h_corner)) =
    [ (Resolved 1 0, [Some (Resolved 2 0)], None);
      (Resolved 2 0, [None; None; None; Some (Resolved 3 0)], None);
      (Resolved 1 0, [None], Some (Resolved 3 0));
      (Resolved 1 0, [None], Some (Resolved 3 0));
      (Resolved 1 0, [None], None);
      (Resolved 2 0, [Some (Unresolved 7 None)], None);
      (U 3 "wl_shm", [], None);
      (Resolved 1 0, [None; Some (Resolved 3 1)], Some (Resolved 3 0));
      (Resolved 1 0, [None], Some (Resolved 1 0));
      (Resolved 1 0, [Some (Resolved 8 0)], None);
      (Resolved 2 0, [None; None], None);
      (Resolved 8 0, [], None) ] /\
  map sview (spec_run [] tr0 h_corner) = map view (snd (conn_run [] db_init h_corner)) /\
  trace [] h_corner =
    [ C 1 "wl_display"; C 2 "wl_registry"; C 3 "wl_compositor"; EDel 3; EDel 3; EDel 3; C 3 "wl_x";
      EDel 1; C 8 "wl_callback" ] /\
  alive_tab [] h_corner [1; 3; 7; 8] =
    [[Some false; None; None]; [Some false; Some true; None]; [None; None; None]; [Some true; None; None]] /\
  wf_hist [] h_corner = true.
Proof. vm_compute. repeat split. Qed.

(* ---- 5. CORNER: a protocol-database lookup that raises cuts the argument walk short ------------ *)
(* the database knows wl_compositor.create_surface with ONE argument; a line with two arguments:
   argument 1 and everything after it stay unresolved and create nothing (RuntimeError escapes) *)
Definition P1 : pdb :=
  [mkPIface (s2l "wl_compositor") 4
     [mkPMsg (s2l "create_surface") [mkPArg (s2l "id") (s2l "new_id") (Some (s2l "wl_surface")) None]] []].
Definition h_cut : list (Z * pmsg) := pre ++ [
  M "wl_compositor" 3 true "create_surface" [PInt 5; NewT 4 "wl_surface"];
  M "wl_surface" 4 true "commit" [] ].

Example ex_cut :
  map view (snd (conn_run P1 db_init h_cut)) =
    [ (Resolved 1 0, [Some (Resolved 2 0)], None);
      (Resolved 2 0, [None; None; None; Some (Resolved 3 0)], None);
      (Resolved 3 0, [None; Some (U 4 "wl_surface")], None);
      (U 4 "wl_surface", [], None) ] /\
  map sview (spec_run P1 tr0 h_cut) = map view (snd (conn_run P1 db_init h_cut)) /\
  ncre (trace P1 h_cut) 4 = 0%nat /\
  (* with an empty database the same history does create 4 *)
  ncre (trace [] h_cut) 4 = 1%nat /\
  map view (snd (conn_run [] db_init h_cut)) =
    [ (Resolved 1 0, [Some (Resolved 2 0)], None);
      (Resolved 2 0, [None; None; None; Some (Resolved 3 0)], None);
      (Resolved 3 0, [None; Some (Resolved 4 0)], None);
      (Resolved 4 0, [], None) ].
Proof. vm_compute. repeat split. Qed.

(* ---- 6. the theorems instantiated (not by computation) ------------------------------------------- *)
(* message 9 of h_reuse: the target is incarnation (3 creations of id 3) - 1 = c *)
Example ex_inst rm :
  nth_error (snd (conn_run [] db_init h_reuse)) 9 = Some rm -> m_obj rm = Resolved 3 2.
Proof.
  intros H.
  destruct (attrib_refines [] h_reuse 9 0
              (mkPmsg 0 (Some (s2l "wl_seat")) 3 false (s2l "name") [PStr (s2l "x"); PObj 4 None false])
              rm eq_refl H) as [E _].
  rewrite E. vm_compute. reflexivity.
Qed.

(* 3c is alive at the end because its creation is the last event about id 3 *)
Example ex_alive_inst :
  exists o, lookup_obj (fst (conn_run [] db_init h_reuse)) 3 2 = Some o /\ o_alive o = true.
Proof.
  apply alive_interval.
  exists [C 1 "wl_display"; C 2 "wl_registry"; C 3 "wl_compositor"; C 4 "wl_surface"; EDel 3;
          C 3 "wl_shm"; EDel 3], (s2l "wl_seat"), [].
  vm_compute. repeat split.
Qed.

(* ... and with message numbers: created by message 8, nothing about id 3 afterwards *)
Example ex_alive_msgs :
  exists o, lookup_obj (fst (conn_run [] db_init (firstn 10 h_reuse))) 3 2 = Some o /\ o_alive o = true.
Proof.
  apply alive_interval_msgs; [discriminate|]. exists 8%nat.
  split; [repeat constructor|]. split; [vm_compute; repeat constructor|]. split; [vm_compute; reflexivity|].
  intros k1 Hk. assert (k1 = 9%nat) by (destruct Hk as [A B]; apply le_S_n in B;
    apply PeanoNat.Nat.le_antisymm; [exact B|exact A]). subst k1. vm_compute. reflexivity.
Qed.

(* labels follow creation order: incarnations 0,1,2 of id 3 are shown as 3a, 3b, 3c *)
From WD Require Import LetterId.
Example ex_labels : map (id_label 3) [0; 1; 2]%N = [s2l "3a"; s2l "3b"; s2l "3c"].
Proof. vm_compute. reflexivity. Qed.
