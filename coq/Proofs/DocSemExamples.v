(* DocSemExamples.v — the side condition of simplified_means_doc cannot be dropped: concrete
   well-formed expressions and messages on which the simplified matcher and the documented meaning
   disagree, one for each clause of the side condition; and expressions that the refined side
   condition accepts although they contain trivially-true items. *)
From WD Require Import Base Wire Conn Color LetterId Matcher MatcherParse Doc.
From WD Require Import MatcherProofs DocSemLevels DocSemTop.
Open Scope Z_scope.

Definition ex_obj : vobj := mkVobj 3 (Some 0%N) (Some (s2l "wl_surface")).
Definition ex_new : vobj := mkVobj 7 (Some 0%N) (Some (s2l "wl_buffer")).
Definition star_item : ditem := IItem None (Some VAny).                       (* `*` *)
Definition x_item : ditem := IItem (Some (s2l "x")) (Some (VInt 0)).          (* `x=0` *)

(* a message without arguments, and one that creates an object *)
Definition msg_noargs : vmsg := mkVmsg (Some (s2l "A")) ex_obj (s2l "commit") [] None.
Definition msg_creates : vmsg :=
  mkVmsg (Some (s2l "A")) ex_obj (s2l "attach") [mkVarg (Some (s2l "id")) (VAObj ex_new true)] None.

(* (1) `wl_surface( * )` : every item trivially true, no exclusion.  simplify folds the argument list
   to `*`, which then selects a message without arguments; the documentation wants an argument. *)
Definition e_star_args : dtop :=
  TPats [mkDpat None (BFull (OType (s2l "wl_surface")) None (Some (AItems [star_item] [])))] [].

Example star_args_mismatch :
  wf_top e_star_args = true /\ side_ok e_star_args msg_noargs = false
  /\ matches (simplify (elab e_star_args)) (VM msg_noargs) = true
  /\ denote e_star_args msg_noargs = false.
Proof. vm_compute. repeat split; reflexivity. Qed.

(* the same expression on a message that has an argument is inside the side condition *)
Example star_args_ok_with_argument : side_ok e_star_args msg_creates = true.
Proof. vm_compute. reflexivity. Qed.

(* (2) `.new( ! * )` : a trivially-true exclusion and no positive item.  simplify folds the pattern to
   never; the documented meaning (and the match_new flag, computed from the unsimplified matchers
   on the empty argument list) says a message creating an object is selected. *)
Definition e_new_excl : dtop :=
  TPats [mkDpat None (BFull OAny (Some (TWord (s2l "new"))) (Some (AItems [] [star_item])))] [].

Example new_excl_mismatch :
  wf_top e_new_excl = true /\ side_ok e_new_excl msg_creates = false
  /\ matches (simplify (elab e_new_excl)) (VM msg_creates) = false
  /\ matches (elab e_new_excl) (VM msg_creates) = true
  /\ denote e_new_excl msg_creates = true.
Proof. vm_compute. repeat split; reflexivity. Qed.

(* (2') `.commit( ! * )` on a message without arguments *)
Definition e_commit_excl : dtop :=
  TPats [mkDpat None (BFull OAny (Some (TWord (s2l "commit"))) (Some (AItems [] [star_item])))] [].

Example commit_excl_mismatch :
  wf_top e_commit_excl = true /\ side_ok e_commit_excl msg_noargs = false
  /\ matches (simplify (elab e_commit_excl)) (VM msg_noargs) = false
  /\ denote e_commit_excl msg_noargs = true.
Proof. vm_compute. repeat split; reflexivity. Qed.

(* accepted by the side condition used, rejected by the simpler one:
   `(x=0 ! * )` (a trivially-true exclusion next to a positive item: never, on both sides) and
   `(x=0, * )` on a message without arguments (not folded, since `x=0` is a real test) *)
Definition e_pos_and_excl : dtop :=
  TPats [mkDpat None (BFull OAny None (Some (AItems [x_item] [star_item])))] [].
Definition e_mixed : dtop :=
  TPats [mkDpat None (BFull OAny None (Some (AItems [x_item; star_item] [])))] [].

Example refined_accepts_more :
  side_ok e_pos_and_excl msg_noargs = true /\ simple_side_ok e_pos_and_excl msg_noargs = false
  /\ side_ok e_pos_and_excl msg_creates = true
  /\ side_ok e_mixed msg_noargs = true /\ simple_side_ok e_mixed msg_noargs = false.
Proof. vm_compute. repeat split; reflexivity. Qed.
