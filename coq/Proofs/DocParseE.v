(* DocParseE.v — T1 stage D: argument lists, message patterns, the top level and [parse]. *)
From WD Require Import Base Wire Conn Color LetterId Matcher MatcherParse Doc.
From WD Require Import LetterIdProofs DecodeBasics ColorProofs ProtocolProofs MatcherProofs
  DocParseA DocParseB DocParseC DocParseD.
From Coq Require Import Lia ZifyBool ZifyNat ZifyN.
Open Scope N_scope.

Definition mok_args (d : dargs) : bool :=
  match d with AItems pos neg => forallb mok_item pos && forallb mok_item neg | _ => true end.
Definition mok_pat (p : dpat) : bool :=
  match dp_body p with BFull _ _ (Some d) => mok_args d | _ => true end.
Definition mok_top (t : dtop) : bool :=
  match t with TPats pos neg => forallb mok_pat pos && forallb mok_pat neg | _ => true end.

Ltac fin := match goal with
  | Hw : forallb ?p ?xs = true, Hx : In ?x ?xs |- ?p ?x = true => exact (forallb_In p xs x Hw Hx)
  end.

(* ---- more about blanks --------------------------------------------------------------------------------- *)
Lemma strip_nil_blank s : strip s = [] -> blank s.
Proof.
  intros H. destruct (strip_decomp s) as [b1 [b2 [H1 [H2 E]]]]. rewrite H in E. cbn [app] in E.
  rewrite E. apply blank_app; assumption.
Qed.

Lemma blank_app_inv a b : blank (a ++ b) -> blank a /\ blank b.
Proof. unfold blank. rewrite forallb_app. intros H. apply andb_true_iff in H. exact H. Qed.

Lemma strip_ne_l a b : strip a <> [] -> strip (a ++ b) <> [].
Proof. intros H E. apply strip_nil_blank, blank_app_inv in E. destruct E as [E _]. apply H, strip_blank, E. Qed.

Lemma strip_ne_r a b : strip b <> [] -> strip (a ++ b) <> [].
Proof. intros H E. apply strip_nil_blank, blank_app_inv in E. destruct E as [_ E]. apply H, strip_blank, E. Qed.

Lemma strip_ne_cons (c : char) s : is_space c = false -> strip (c :: s) <> [].
Proof. intros H. destruct (strip_cons_nonblank c s H) as [s' E]. rewrite E. discriminate. Qed.

Lemma lstrip_decomp t : exists b, blank b /\ t = b ++ lstrip t.
Proof. apply dp_drop_while_split. Qed.

Lemma strip_lstrip t : strip (lstrip t) = strip t.
Proof.
  destruct (lstrip_decomp t) as [b [Hb E]]. rewrite E at 2. rewrite strip_blank_app by exact Hb. reflexivity.
Qed.

Lemma sog_lstrip d t : is_space d = false -> split_on_go d (lstrip t) 0 [] [] = split_on_go d t 0 [] [].
Proof.
  intros Hd. destruct (lstrip_decomp t) as [b [Hb E]]. rewrite E at 2.
  rewrite sog_chunk by (apply Chunk_blank; assumption). rewrite app_nil_r. symmetry.
  exact (sog_lead_blank d b Hb (lstrip t) 0%nat [] []).
Qed.

Lemma split_on_lstrip t d ae : is_space d = false -> split_on (lstrip t) d ae = split_on t d ae.
Proof. intros Hd. unfold split_on. rewrite strip_lstrip, sog_lstrip by exact Hd. reflexivity. Qed.

Lemma split_pair_lstrip t d : is_space d = false -> split_pair (lstrip t) d = split_pair t d.
Proof. intros Hd. unfold split_pair. rewrite split_on_lstrip by exact Hd. reflexivity. Qed.

Lemma split_on_true_ne t d : strip t <> [] -> split_on t d true = split_on t d false.
Proof. intros H. unfold split_on. destruct (strip t); [congruence|reflexivity]. Qed.

Lemma split_on_true_blank t d : blank t -> split_on t d true = Ok [].
Proof. intros H. unfold split_on. rewrite (strip_blank t H). reflexivity. Qed.

Lemma rlist_some' pos neg pad : neg <> [] ->
  pad ++ rlist pos neg pad ++ pad =
  (pad ++ join_with (sep44 pad) pos ++ pad) ++ 33 :: (pad ++ join_with (sep44 pad) neg ++ pad).
Proof. intros H. destruct neg as [|n0 neg]; [congruence|]. apply rlist_some. Qed.

(* ---- items never render to blanks --------------------------------------------------------------------- *)
Lemma item_strip_ne pad i : blank pad -> wf_item i = true -> strip (r_item pad i) <> [].
Proof.
  intros Hp W. destruct i as [name v|pos neg].
  - destruct (wf_item_inv name v W) as [W1 [W2 W3]]. destruct name as [w|].
    + destruct (wf_tword_inv w W1) as [Hn Hi]. rewrite named_eq. destruct w as [|c r]; [congruence|].
      cbn [app]. apply strip_ne_cons. cbn [forallb] in Hi. apply andb_true_iff in Hi. destruct Hi as [Hc _]. ccx.
    + destruct v as [d|]; [|discriminate]. cbn [r_item].
      destruct (val_facts pad Hp d W2) as [_ [S [N _]]]. rewrite S. exact N.
  - cbn [r_item]. rewrite strip_bracket. apply bracket_ne_nil.
Qed.

Lemma join_strip_ne sep x more : strip x <> [] -> strip (join_with sep (x :: more)) <> [].
Proof. intros H. cbn [join_with]. destruct more; [exact H|apply strip_ne_l, H]. Qed.

Lemma padded_join_ne pad sep (x : str) more : strip x <> [] -> strip (pad ++ join_with sep (x :: more) ++ pad) <> [].
Proof. intros H. apply strip_ne_r, strip_ne_l, join_strip_ne, H. Qed.

(* ---- matches on the empty argument list ---------------------------------------------------------------- *)
Lemma matches_args_nil ps ns : matches (MArgsList ps ns) (VAs []) = match ps with [] => true | _ => false end.
Proof.
  cbn [matches existsb].
  assert (E : existsb (fun _ : mt => false) ns = false) by (induction ns; [reflexivity|assumption]).
  rewrite E. destruct ps; reflexivity.
Qed.

(* ---- argument lists --------------------------------------------------------------------------------------- *)
Lemma args_Good pad d : blank pad -> wf_args d = true -> Good (r_args pad d).
Proof.
  intros Hp W. destruct d as [| |pos neg]; cbn [r_args].
  - apply Good_blank, Hp.
  - apply Good_sep; [exact Hp|reflexivity].
  - cbn [wf_args] in W. apply andb_true_iff in W. destruct W as [W W3].
    apply andb_true_iff in W. destruct W as [W1 W2].
    apply Good_app; [apply Good_blank, Hp|]. apply Good_app; [|apply Good_blank, Hp].
    apply Good_rlist; [exact Hp| |]; apply Forall_map'; apply Forall_forall; intros x Hx.
    + apply (item_facts pad Hp x). fin.
    + apply (item_facts pad Hp x). fin.
Qed.

Definition args_rel (m e : mt) : Prop := seq m e /\ matches m (VAs []) = matches e (VAs []).

Lemma Forall2_length' {A B} (R : A -> B -> Prop) xs ys : Forall2 R xs ys -> xs = [] <-> ys = [].
Proof. intros H. destruct H; split; intros; try reflexivity; discriminate. Qed.

Lemma items_parse pad f xs : blank pad -> forallb wf_item xs = true -> forallb mok_item xs = true ->
  (forall x, In x xs -> (cnt91 (r_item pad x) <= f)%nat) ->
  exists ms, mapM (parse_arg_matcher (parse_list f)) (map strip (map (r_item pad) xs)) = Ok ms /\
             Forall2 seq ms (map elab_item xs).
Proof.
  intros Hp W M Hf.
  destruct (exists_Forall2 (fun x m => parse_arg_matcher (parse_list f) (strip (r_item pad x)) = Ok m) seq elab_item xs) as [ms [P1 P2]].
  { intros x Hx. apply T_item; [exact Hp|fin|fin|apply Hf, Hx]. }
  exists ms. split; [|exact P2]. apply mapM_strip_Forall2. apply Forall2_map_l. exact P1.
Qed.

Theorem T_args pad : blank pad -> forall d, wf_args d = true -> mok_args d = true ->
  forall f, (cnt91 (r_args pad d) <= f)%nat ->
  exists m, parse_args_list (parse_list f) (lstrip (r_args pad d)) = Ok m /\ args_rel m (elab_args d).
Proof.
  intros Hp d W M f Hf. destruct d as [| |pos neg].
  - cbn [r_args]. unfold lstrip. rewrite dp_drop_while_all by exact Hp.
    exists (MAlways true). split; [reflexivity|split; reflexivity].
  - cbn [r_args]. rewrite lstrip_blank_app by exact Hp. cbn [app]. rewrite lstrip_cons by reflexivity.
    exists (MAlways false). split; [|split; reflexivity].
    unfold parse_args_list. rewrite split_pair_lead; [|reflexivity|apply Chunk_blank; [reflexivity|exact Hp]].
    cbn [bind]. rewrite strip_idem, (strip_blank pad Hp). reflexivity.
  - cbn [wf_args] in W. apply andb_true_iff in W. destruct W as [W W3].
    apply andb_true_iff in W. destruct W as [W1 W2].
    cbn [mok_args] in M. apply andb_true_iff in M. destruct M as [M1 M2].
    cbn [r_args elab_args] in *.
    set (T := pad ++ rlist (map (r_item pad) pos) (map (r_item pad) neg) pad ++ pad) in *.
    assert (Hfx : forall x, In x (pos ++ neg) -> (cnt91 (r_item pad x) <= f)%nat).
    { intros x Hx. assert (I : In (r_item pad x) (map (r_item pad) pos ++ map (r_item pad) neg)) by (rewrite <- map_app; apply in_map; exact Hx).
      pose proof (cnt91_rlist _ _ pad _ I). unfold T in Hf. rewrite !cnt91_app in Hf. lia. }
    destruct (items_parse pad f pos Hp W1 M1) as [ps [EP QP]]; [intros x Hx; apply Hfx, in_or_app; left; exact Hx|].
    destruct (items_parse pad f neg Hp W2 M2) as [ns [EN QN]]; [intros x Hx; apply Hfx, in_or_app; right; exact Hx|].
    assert (C33 : forall xs, forallb wf_item xs = true -> Forall (Chunk 33) (map (r_item pad) xs)).
    { intros xs Wx. apply Forall_map', Forall_forall. intros x Hx. apply (item_facts pad Hp x); [fin|left; reflexivity]. }
    assert (C44 : forall xs, forallb wf_item xs = true -> Forall (Chunk 44) (map (r_item pad) xs)).
    { intros xs Wx. apply Forall_map', Forall_forall. intros x Hx. apply (item_facts pad Hp x); [fin|right; reflexivity]. }
    assert (CA : forall xs, Forall (Chunk 33) xs -> Chunk 33 (pad ++ join_with (sep44 pad) xs ++ pad)).
    { intros xs Hx. apply Chunk_app; [apply Chunk_blank; [reflexivity|exact Hp]|].
      apply Chunk_app; [|apply Chunk_blank; [reflexivity|exact Hp]].
      apply Chunk_join; [apply Chunk_sep44; [reflexivity|discriminate|exact Hp]|exact Hx]. }
    assert (NE : forall x more, wf_item x = true ->
                 strip (pad ++ join_with (sep44 pad) (map (r_item pad) (x :: more)) ++ pad) <> []).
    { intros x more Wx. cbn [map]. apply padded_join_ne, item_strip_ne; assumption. }
    exists (MArgsList ps ns). split.
    + unfold parse_args_list. destruct (lstrip T) as [|c0 r0] eqn:EL.
      { exfalso. assert (ST : strip T = []) by (rewrite <- strip_lstrip, EL; reflexivity). revert ST. unfold T.
        destruct neg as [|n0 neg'].
        - destruct pos as [|p0 pos']; [discriminate|]. rewrite rlist_none. apply NE.
          cbn [forallb] in W1. apply andb_true_iff in W1. tauto.
        - cbn [map]. rewrite rlist_some. apply strip_ne_r. apply strip_ne_cons. reflexivity. }
      rewrite <- EL. rewrite split_pair_lstrip by reflexivity. unfold T.
      destruct neg as [|n0 neg'].
      * destruct pos as [|p0 pos']; [discriminate|].
        assert (Wp0 : wf_item p0 = true) by (cbn [forallb] in W1; apply andb_true_iff in W1; tauto).
        rewrite rlist_none. rewrite split_pair_none by (apply CA, C33, W1). cbn [bind].
        rewrite split_on_lstrip by reflexivity. rewrite split_on_true_ne by (apply NE, Wp0).
        rewrite split_on_joined; [|exact Hp|apply C44, W1|discriminate].
        cbn [bind]. rewrite EP. cbn [bind mapM] in *. injection EN as <-. reflexivity.
      * assert (Wn0 : wf_item n0 = true) by (cbn [forallb] in W2; apply andb_true_iff in W2; tauto).
        rewrite rlist_some' by discriminate. rewrite split_pair_two; [|reflexivity|apply CA, C33, W1|apply CA, C33, W2].
        cbn [bind]. rewrite !strip_idem.
        destruct (strip (pad ++ join_with (sep44 pad) (map (r_item pad) (n0 :: neg')) ++ pad)) as [|cb rb] eqn:EB;
          [exfalso; exact (NE n0 neg' Wn0 EB)|].
        assert (EM : forall (A : Type) (sa : str) (x y : A),
                   match sa, cb :: rb with [], [] => x | _, _ => y end = y) by (intros A [|? ?] x y; reflexivity).
        rewrite (EM _ _ (Ok (MAlways false))). rewrite <- EB. rewrite !split_on_strip by reflexivity.
        rewrite (split_on_true_ne (pad ++ join_with (sep44 pad) (map (r_item pad) (n0 :: neg')) ++ pad)) by (apply NE, Wn0).
        rewrite (split_on_joined pad (map (r_item pad) (n0 :: neg'))); [|exact Hp|apply C44, W2|discriminate].
        destruct pos as [|p0 pos'].
        -- change (map (r_item pad) []) with (@nil str). cbn [join_with].
           rewrite split_on_true_blank by (apply blank_app; [exact Hp|exact Hp]).
           cbn [bind]. rewrite EN. cbn [map mapM] in EP. injection EP as <-. reflexivity.
        -- assert (Wp0 : wf_item p0 = true) by (cbn [forallb] in W1; apply andb_true_iff in W1; tauto).
           rewrite split_on_true_ne by (apply NE, Wp0).
           rewrite split_on_joined; [|exact Hp|apply C44, W1|discriminate].
           cbn [bind]. rewrite EP. cbn [bind]. rewrite EN. reflexivity.
    + split; [apply seq_args; assumption|]. rewrite !matches_args_nil.
      destruct QP; reflexivity.
Qed.

(* ---- message patterns: the parser cut into steps ---------------------------------------------------------- *)
Definition pmp_full (rec : pkind -> str -> res mt) (conn_text obj_text name_text arg_text : str) : res mt :=
  do c <- parse_text_matcher rec conn_text;
  do o <- parse_obj_matcher rec obj_text;
  do n <- parse_text_matcher rec name_text;
  do a <- parse_args_list rec arg_text;
  Ok (mk_pattern (MWrap WConn c) o n a).

Definition pmp_bare (rec : pkind -> str -> res mt) (conn_text message_text : str) : res mt :=
  do c <- parse_text_matcher rec conn_text;
  do o <- parse_obj_matcher rec message_text;
  let cm := MWrap WConn c in
  let self_m := mk_pattern cm o (MAlways true) (MAlways true) in
  let args := MArgsList [arg_matcher (MAlways true) (MWrap WObjArg o)] [] in
  let arg_m := mk_pattern cm (MAlways true) (MAlways true) args in
  Ok (MList [self_m; arg_m] []).

Definition pmp_rest (rec : pkind -> str -> res mt) (conn_text message_text : str) : res mt :=
  do dot <- split_pair message_text 46;
  match dot with
  | Some (obj_text, name_and_arg) =>
      do per <- split_peren_at_end name_and_arg;
      match per with
      | Some (name_text, arg_text) => pmp_full rec conn_text obj_text name_text arg_text
      | None => pmp_full rec conn_text obj_text name_and_arg []
      end
  | None =>
      do per <- split_peren_at_end message_text;
      match per with
      | Some (obj_text, arg_text) => pmp_full rec conn_text obj_text [] arg_text
      | None => pmp_bare rec conn_text message_text
      end
  end.

Lemma pmp_unfold rec text : text <> [] -> parse_message_pattern rec text =
  do colon <- split_pair text 58;
  match colon with Some (c, m) => pmp_rest rec c m | None => pmp_rest rec [42] text end.
Proof.
  destruct text as [|c0 r0]; [congruence|]. intros _. unfold parse_message_pattern.
  destruct (split_pair (c0 :: r0) 58) as [[[c m]|]|]; reflexivity.
Qed.

Lemma split_peren_strip x : split_peren_at_end (strip x) = split_peren_at_end x.
Proof. unfold split_peren_at_end. rewrite split_pair_strip by reflexivity. reflexivity. Qed.

(* ---- the pieces of a rendered pattern ---------------------------------------------------------------------- *)
Definition conn_str (pad : str) (c : option dtext) : str :=
  match c with Some t => r_text pad t ++ pad ++ [58] ++ pad | None => [] end.
Definition npart (pad : str) (n : option dtext) : str :=
  match n with Some t => pad ++ [46] ++ pad ++ r_text pad t | None => [] end.
Definition apart (pad : str) (a : option dargs) : str :=
  match a with Some d => pad ++ [40] ++ r_args pad d ++ [41] | None => [] end.
Definition body_str (pad : str) (b : dbody) : str :=
  match b with
  | BBare o => r_obj pad o
  | BFull o n a => r_obj pad o ++ npart pad n ++ apart pad a
  end.

Lemma r_pat_eq pad p : r_pat pad p = conn_str pad (dp_conn p) ++ body_str pad (dp_body p).
Proof. reflexivity. Qed.

Lemma Good_Bal4041 s : Good s -> Bal 40 41 s.
Proof. intros [_ [H _]]. apply Bal_free, H. Qed.

Lemma apart_chunk (d : char) pad a : blank pad -> is_space d = false -> d <> 40 ->
  match a with Some x => wf_args x | None => true end = true -> Chunk d (apart pad a).
Proof.
  intros Hp Hd H40 W. destruct a as [x|]; [|constructor]. unfold apart.
  apply Chunk_app; [apply Chunk_blank; assumption|]. cbn [app].
  apply (Chunk_paren d (r_args pad x) []); [exact H40|apply Good_Bal4041, args_Good; assumption|constructor].
Qed.

Lemma npart_chunk (d : char) pad n : blank pad -> delim_ok d -> d <> 46 ->
  match n with Some t => wf_text t | None => true end = true -> Chunk d (npart pad n).
Proof.
  intros Hp Hd H46 W. destruct n as [t|]; [|constructor]. unfold npart.
  pose proof Hd as [_ [_ [D3 _]]].
  apply Chunk_app; [apply Chunk_blank; assumption|].
  apply Chunk_app; [apply Chunk_one; [congruence|reflexivity]|].
  apply Chunk_app; [apply Chunk_blank; assumption|]. apply (text_facts pad Hp t W). exact Hd.
Qed.

Lemma wf_pat_body_inv p : wf_pat p = true ->
  match dp_conn p with Some t => wf_text t | None => true end = true /\
  match dp_body p with
  | BBare o => wf_obj o = true /\ (o = OAny -> dp_conn p <> None)
  | BFull o n a => wf_obj o = true /\ match n with Some t => wf_text t | None => true end = true /\
                   match a with Some d => wf_args d | None => true end = true /\ (n <> None \/ a <> None)
  end.
Proof.
  unfold wf_pat. intros H. apply andb_true_iff in H. destruct H as [H1 H2]. split; [exact H1|].
  destruct (dp_body p) as [o|o n a].
  - apply andb_true_iff in H2. destruct H2 as [H2 H3]. split; [exact H2|]. intros ->.
    destruct (dp_conn p); [discriminate|discriminate].
  - apply andb_true_iff in H2. destruct H2 as [H2 H5]. apply andb_true_iff in H2. destruct H2 as [H2 H4].
    apply andb_true_iff in H2. destruct H2 as [H2 H3]. repeat split; try assumption.
    destruct n; [left; discriminate|]. destruct a; [right; discriminate|discriminate].
Qed.

Lemma body_chunk (d : char) pad b : blank pad -> delim_ok d -> d <> 46 -> d <> 40 ->
  match b with
  | BBare o => wf_obj o = true
  | BFull o n a => wf_obj o = true /\ match n with Some t => wf_text t | None => true end = true /\
                   match a with Some x => wf_args x | None => true end = true
  end -> Chunk d (body_str pad b).
Proof.
  intros Hp Hd H46 H40 W. pose proof Hd as [_ [_ [D3 _]]]. destruct b as [o|o n a]; cbn [body_str].
  - apply (obj_facts pad Hp o W). exact Hd.
  - destruct W as [W1 [W2 W3]]. apply Chunk_app; [apply (obj_facts pad Hp o W1); exact Hd|].
    apply Chunk_app; [apply npart_chunk; assumption|apply apart_chunk; assumption].
Qed.

Lemma conn_chunk (d : char) pad c : blank pad -> delim_ok d -> d <> 58 ->
  match c with Some t => wf_text t | None => true end = true -> Chunk d (conn_str pad c).
Proof.
  intros Hp Hd H58 W. pose proof Hd as [_ [_ [D3 _]]]. destruct c as [t|]; [|constructor]. unfold conn_str.
  apply Chunk_app; [apply (text_facts pad Hp t W); exact Hd|].
  apply Chunk_app; [apply Chunk_blank; assumption|].
  apply Chunk_app; [apply Chunk_one; [congruence|reflexivity]|apply Chunk_blank; assumption].
Qed.

Lemma wf_body_of p : wf_pat p = true ->
  match dp_body p with
  | BBare o => wf_obj o = true
  | BFull o n a => wf_obj o = true /\ match n with Some t => wf_text t | None => true end = true /\
                   match a with Some x => wf_args x | None => true end = true
  end.
Proof.
  intros W. destruct (wf_pat_body_inv p W) as [_ H]. destruct (dp_body p) as [o|o n a]; [tauto|].
  destruct H as [H1 [H2 [H3 _]]]. auto.
Qed.

Lemma pat_chunk (d : char) pad p : blank pad -> delim_ok d -> d <> 46 -> d <> 40 -> d <> 58 ->
  wf_pat p = true -> Chunk d (r_pat pad p).
Proof.
  intros Hp Hd H46 H40 H58 W. rewrite r_pat_eq. destruct (wf_pat_body_inv p W) as [W1 _].
  apply Chunk_app; [apply conn_chunk; assumption|apply body_chunk; try assumption]. apply wf_body_of, W.
Qed.

(* ESC-freeness of the whole pattern *)
Lemma esc_free_one (c : char) : c <> 27 -> esc_free [c].
Proof. intros H. unfold esc_free. cbn [forallb]. apply N.eqb_neq in H. rewrite H. reflexivity. Qed.

Lemma Good_esc s : Good s -> esc_free s.
Proof. intros [_ [_ H]]. exact H. Qed.

Lemma pat_esc_free pad p : blank pad -> wf_pat p = true -> esc_free (r_pat pad p).
Proof.
  intros Hp W. rewrite r_pat_eq. destruct (wf_pat_body_inv p W) as [W1 _]. pose proof (wf_body_of p W) as W2.
  pose proof (Good_esc pad (Good_blank pad Hp)) as Ep.
  apply esc_free_app. split.
  - destruct (dp_conn p) as [t|]; [|reflexivity]. unfold conn_str.
    repeat (apply esc_free_app; split); try assumption; try reflexivity.
    apply Good_esc, (text_facts pad Hp t W1).
  - destruct (dp_body p) as [o|o n a]; cbn [body_str].
    + apply Good_esc, (obj_facts pad Hp o W2).
    + destruct W2 as [X1 [X2 X3]]. apply esc_free_app. split; [apply Good_esc, (obj_facts pad Hp o X1)|].
      apply esc_free_app. split.
      * destruct n as [t|]; [|reflexivity]. unfold npart.
        repeat (apply esc_free_app; split); try assumption; try reflexivity.
        apply Good_esc, (text_facts pad Hp t X2).
      * destruct a as [x|]; [|reflexivity]. unfold apart.
        repeat (apply esc_free_app; split); try assumption; try reflexivity.
        apply Good_esc, args_Good; assumption.
Qed.

(* ---- message patterns --------------------------------------------------------------------------------------- *)
Lemma obj_ne pad o : wf_obj o = true -> o <> OAny -> r_obj pad o <> [].
Proof.
  intros W H. destruct o as [|w|a id l| |pos neg]; cbn [r_obj].
  - congruence.
  - cbn [wf_obj] in W. destruct (wf_word_inv w W) as [c [r [E _]]]. rewrite E. discriminate.
  - unfold r_id. destruct (z_to_dec_first id) as [c [r [E _]]]. rewrite E. destruct a; discriminate.
  - discriminate.
  - apply bracket_ne_nil.
Qed.

Lemma body_strip_ne pad b : blank pad ->
  match b with
  | BBare o => wf_obj o = true /\ o <> OAny
  | BFull o n a => wf_obj o = true /\ (n <> None \/ a <> None)
  end -> strip (body_str pad b) <> [].
Proof.
  intros Hp H. destruct b as [o|o n a]; cbn [body_str].
  - destruct H as [W H]. destruct (obj_facts pad Hp o W) as [_ [S _]]. rewrite S. apply obj_ne; assumption.
  - destruct H as [W H]. apply strip_ne_r. destruct n as [t|].
    + apply strip_ne_l. unfold npart. apply strip_ne_r. cbn [app]. apply strip_ne_cons. reflexivity.
    + destruct a as [d|]; [|destruct H; congruence]. apply strip_ne_r. unfold apart. apply strip_ne_r.
      cbn [app]. apply strip_ne_cons. reflexivity.
Qed.

Lemma pat_strip_ne pad p : blank pad -> wf_pat p = true -> strip (r_pat pad p) <> [].
Proof.
  intros Hp W. rewrite r_pat_eq. destruct (wf_pat_body_inv p W) as [W1 W2].
  destruct (dp_conn p) as [t|] eqn:Ec.
  - apply strip_ne_l. unfold conn_str. apply strip_ne_l.
    destruct (text_facts pad Hp t W1) as [_ [S [N _]]]. rewrite S. exact N.
  - apply strip_ne_r. apply body_strip_ne; [exact Hp|]. destruct (dp_body p) as [o|o n a].
    + destruct W2 as [X1 X2]. split; [exact X1|]. intros E. apply (X2 E). reflexivity.
    + destruct W2 as [X1 [_ [_ X4]]]. split; assumption.
Qed.

Definition conn_text_of (pad : str) (c : option dtext) : str :=
  match c with Some t => r_text pad t | None => [42] end.

Lemma colon_step rec pad p : blank pad -> wf_pat p = true ->
  parse_message_pattern rec (strip (r_pat pad p)) =
  pmp_rest rec (conn_text_of pad (dp_conn p)) (strip (body_str pad (dp_body p))).
Proof.
  intros Hp W. rewrite pmp_unfold by (apply pat_strip_ne; assumption).
  rewrite split_pair_strip by reflexivity. rewrite r_pat_eq.
  destruct (wf_pat_body_inv p W) as [W1 _]. pose proof (wf_body_of p W) as W2.
  assert (CB : Chunk 58 (body_str pad (dp_body p))).
  { apply body_chunk; [exact Hp|apply delim_58|discriminate|discriminate|exact W2]. }
  destruct (dp_conn p) as [t|]; cbn [conn_str conn_text_of].
  - replace ((r_text pad t ++ pad ++ [58] ++ pad) ++ body_str pad (dp_body p))
      with ((r_text pad t ++ pad) ++ 58 :: (pad ++ body_str pad (dp_body p)))
      by (repeat rewrite <- app_assoc; reflexivity).
    destruct (text_facts pad Hp t W1) as [_ [S [_ C]]].
    rewrite split_pair_two; [|reflexivity| |].
    + cbn [bind]. rewrite strip_app_blank, strip_blank_app by exact Hp. rewrite S. reflexivity.
    + apply Chunk_app; [apply C, delim_58|apply Chunk_blank; [reflexivity|exact Hp]].
    + apply Chunk_app; [apply Chunk_blank; [reflexivity|exact Hp]|exact CB].
  - cbn [app]. rewrite split_pair_none by exact CB. reflexivity.
Qed.

Lemma rest_bare rec pad ct o : blank pad -> wf_obj o = true ->
  pmp_rest rec ct (strip (r_obj pad o)) = pmp_bare rec ct (r_obj pad o).
Proof.
  intros Hp W. destruct (obj_facts pad Hp o W) as [_ [S C]]. rewrite S. unfold pmp_rest.
  rewrite split_pair_none by (apply C, delim_46). cbn [bind].
  rewrite split_peren_none by (apply C, delim_40). reflexivity.
Qed.

Definition name_text_of (pad : str) (n : option dtext) : str := match n with Some t => r_text pad t | None => [] end.
Definition arg_text_of (pad : str) (a : option dargs) : str := match a with Some d => lstrip (r_args pad d) | None => [] end.

Lemma rest_full rec pad ct o n a : blank pad -> wf_obj o = true ->
  match n with Some t => wf_text t | None => true end = true ->
  match a with Some d => wf_args d | None => true end = true -> (n <> None \/ a <> None) ->
  pmp_rest rec ct (strip (body_str pad (BFull o n a))) =
  pmp_full rec ct (r_obj pad o) (name_text_of pad n) (arg_text_of pad a).
Proof.
  intros Hp Wo Wn Wa Hna. destruct (obj_facts pad Hp o Wo) as [_ [So Co]].
  unfold pmp_rest. rewrite split_pair_strip by reflexivity. cbn [body_str].
  assert (Ca : forall d : char, is_space d = false -> d <> 40 -> Chunk d (apart pad a)).
  { intros d H1 H2. apply apart_chunk; assumption. }
  destruct n as [tn|].
  - destruct (text_facts pad Hp tn Wn) as [_ [Sn [_ Cn]]]. unfold npart.
    replace (r_obj pad o ++ (pad ++ [46] ++ pad ++ r_text pad tn) ++ apart pad a)
      with ((r_obj pad o ++ pad) ++ 46 :: (pad ++ r_text pad tn ++ apart pad a))
      by (repeat rewrite <- app_assoc; reflexivity).
    rewrite split_pair_two; [|reflexivity| |].
    + cbn [bind]. rewrite (strip_app_blank (r_obj pad o) pad Hp), (strip_blank_app pad _ Hp). rewrite So.
      rewrite split_peren_strip. destruct a as [d|]; cbn [apart name_text_of arg_text_of].
      * replace (r_text pad tn ++ pad ++ [40] ++ r_args pad d ++ [41])
          with ((r_text pad tn ++ pad) ++ 40 :: r_args pad d ++ [41])
          by (repeat rewrite <- app_assoc; reflexivity).
        rewrite split_peren_some; [|apply Chunk_app; [apply Cn, delim_40|apply Chunk_blank; [reflexivity|exact Hp]]
                                   |apply Good_Bal4041, args_Good; assumption].
        cbn [bind]. rewrite strip_app_blank by exact Hp. rewrite Sn. reflexivity.
      * rewrite app_nil_r. rewrite split_peren_none by (apply Cn, delim_40). cbn [bind]. rewrite Sn. reflexivity.
    + apply Chunk_app; [apply Co, delim_46|apply Chunk_blank; [reflexivity|exact Hp]].
    + apply Chunk_app; [apply Chunk_blank; [reflexivity|exact Hp]|].
      apply Chunk_app; [apply Cn, delim_46|apply Ca; [reflexivity|discriminate]].
  - destruct a as [d|]; [|destruct Hna; congruence]. cbn [npart app name_text_of arg_text_of].
    rewrite split_pair_none by (apply Chunk_app; [apply Co, delim_46|apply Ca; [reflexivity|discriminate]]).
    cbn [bind]. rewrite split_peren_strip. unfold apart.
    replace (r_obj pad o ++ pad ++ [40] ++ r_args pad d ++ [41])
      with ((r_obj pad o ++ pad) ++ 40 :: r_args pad d ++ [41])
      by (repeat rewrite <- app_assoc; reflexivity).
    rewrite split_peren_some; [|apply Chunk_app; [apply Co, delim_40|apply Chunk_blank; [reflexivity|exact Hp]]
                               |apply Good_Bal4041, args_Good; assumption].
    cbn [bind]. rewrite strip_app_blank by exact Hp. rewrite So. reflexivity.
Qed.

Lemma full_ok pad f ct cm0 o n a : blank pad ->
  parse_text_matcher (parse_list f) ct = Ok cm0 ->
  wf_obj o = true -> (cnt91 (r_obj pad o) <= f)%nat ->
  match n with Some t => wf_text t | None => true end = true ->
  (cnt91 (name_text_of pad n) <= f)%nat ->
  match a with Some d => wf_args d | None => true end = true ->
  match a with Some d => mok_args d | None => true end = true ->
  (match a with Some d => cnt91 (r_args pad d) | None => O end <= f)%nat ->
  exists m, pmp_full (parse_list f) ct (r_obj pad o) (name_text_of pad n) (arg_text_of pad a) = Ok m /\
    seq m (mk_pattern (MWrap WConn cm0) (elab_obj o)
             (match n with Some t => elab_text t | None => MAlways true end)
             (match a with Some d => elab_args d | None => MAlways true end)).
Proof.
  intros Hp Hc Wo Fo Wn Fn Wa Ma Fa. unfold pmp_full. rewrite Hc. cbn [bind].
  rewrite (T_obj pad Hp o Wo f Fo). cbn [bind].
  assert (EN : parse_text_matcher (parse_list f) (name_text_of pad n) =
               Ok (match n with Some t => elab_text t | None => MAlways true end)).
  { destruct n as [t|]; cbn [name_text_of] in *; [apply T_text; assumption|reflexivity]. }
  rewrite EN. cbn [bind].
  assert (EA : exists am, parse_args_list (parse_list f) (arg_text_of pad a) = Ok am /\
                 args_rel am (match a with Some d => elab_args d | None => MAlways true end)).
  { destruct a as [d|]; cbn [arg_text_of].
    - apply T_args; assumption.
    - exists (MAlways true). split; [reflexivity|split; reflexivity]. }
  destruct EA as [am [E [Q1 Q2]]]. rewrite E. cbn [bind].
  eexists. split; [reflexivity|]. unfold mk_pattern. rewrite Q2.
  apply seq_pattern; try reflexivity. exact Q1.
Qed.

Theorem T_pat pad : blank pad -> forall p, wf_pat p = true -> mok_pat p = true ->
  forall f, (cnt91 (r_pat pad p) <= f)%nat ->
  exists m, parse_message_pattern (parse_list f) (strip (r_pat pad p)) = Ok m /\ seq m (elab_pat p).
Proof.
  intros Hp p W M f Hf. rewrite colon_step by assumption.
  destruct (wf_pat_body_inv p W) as [W1 W2]. rewrite r_pat_eq, cnt91_app in Hf.
  set (cm0 := match dp_conn p with Some t => elab_text t | None => MAlways true end).
  assert (Hc : parse_text_matcher (parse_list f) (conn_text_of pad (dp_conn p)) = Ok cm0).
  { unfold cm0. destruct (dp_conn p) as [t|]; cbn [conn_text_of]; [|reflexivity].
    apply T_text; [exact Hp|exact W1|]. cbn [conn_str] in Hf. rewrite !cnt91_app in Hf. lia. }
  unfold elab_pat, mok_pat in *. fold cm0. destruct (dp_body p) as [o|o n a].
  - destruct W2 as [Wo _]. cbn [body_str] in *. rewrite rest_bare by assumption.
    unfold pmp_bare. rewrite Hc. cbn [bind]. rewrite (T_obj pad Hp o Wo f) by lia. cbn [bind].
    eexists. split; [reflexivity|]. reflexivity.
  - destruct W2 as [Wo [Wn [Wa Hna]]]. rewrite rest_full by assumption.
    cbn [body_str] in Hf. rewrite !cnt91_app in Hf.
    apply full_ok; try assumption.
    + lia.
    + destruct n as [t|]; cbn [name_text_of npart] in *; [rewrite !cnt91_app in Hf; lia|apply Nat.le_0_l].
    + destruct a as [d|]; cbn [apart] in *; [rewrite !cnt91_app in Hf; lia|apply Nat.le_0_l].
Qed.

(* ---- the top level ------------------------------------------------------------------------------------------- *)
Lemma pml_strip rec k t : parse_matcher_list_with rec k (strip t) = parse_matcher_list_with rec k t.
Proof.
  unfold parse_matcher_list_with. rewrite split_pair_strip by reflexivity.
  destruct (split_pair t 33) as [[[a b]|]|]; cbn [bind]; try reflexivity.
  rewrite split_on_strip by reflexivity. reflexivity.
Qed.

Lemma esc_free_join sep xs : esc_free sep -> Forall esc_free xs -> esc_free (join_with sep xs).
Proof.
  intros Hs H. induction H as [|x r Hx Hr IH]; [reflexivity|].
  cbn [join_with]. destruct r as [|y r']; [exact Hx|].
  apply esc_free_app. split; [exact Hx|]. apply esc_free_app. split; [exact Hs|exact IH].
Qed.

Lemma esc_free_rlist pos neg pad : blank pad -> Forall esc_free pos -> Forall esc_free neg -> esc_free (rlist pos neg pad).
Proof.
  intros Hp H1 H2. pose proof (Good_esc pad (Good_blank pad Hp)) as Ep.
  assert (Es : esc_free (pad ++ [44] ++ pad)) by (repeat (apply esc_free_app; split); try assumption; reflexivity).
  unfold rlist. apply esc_free_app. split; [apply esc_free_join; assumption|].
  destruct neg as [|n0 neg']; [reflexivity|].
  repeat (apply esc_free_app; split); try assumption; try reflexivity. apply esc_free_join; assumption.
Qed.

Definition pats_text (pad : str) (pos neg : list dpat) : str :=
  pad ++ rlist (map (r_pat pad) pos) (map (r_pat pad) neg) pad ++ pad.

Lemma pats_strip_ne pad pos neg : blank pad -> forallb wf_pat pos = true -> forallb wf_pat neg = true ->
  (pos <> [] \/ neg <> []) -> strip (pats_text pad pos neg) <> [].
Proof.
  intros Hp W1 W2 Hne. unfold pats_text. destruct neg as [|n0 neg'].
  - destruct pos as [|p0 pos']; [destruct Hne; congruence|]. rewrite rlist_none. cbn [map].
    apply padded_join_ne, pat_strip_ne; [exact Hp|]. cbn [forallb] in W1. apply andb_true_iff in W1. tauto.
  - cbn [map]. rewrite rlist_some. apply strip_ne_r, strip_ne_cons. reflexivity.
Qed.

Theorem T_pats pad pos neg f : blank pad ->
  forallb wf_pat pos = true -> forallb wf_pat neg = true ->
  forallb mok_pat pos = true -> forallb mok_pat neg = true -> (pos <> [] \/ neg <> []) ->
  (cnt91 (pats_text pad pos neg) <= f)%nat ->
  exists m, parse_list (S f) KPattern (strip (pats_text pad pos neg)) = Ok m /\
            seq m (list_or_single (map elab_pat pos) (map elab_pat neg)).
Proof.
  intros Hp W1 W2 M1 M2 Hne Hf. cbn [parse_list]. rewrite pml_strip.
  change (parse_matcher_list_with (parse_list f) KPattern (pats_text pad pos neg))
    with (parse_list (S f) KPattern (pats_text pad pos neg)).
  unfold pats_text in *.
  apply (level_list_seq KPattern (r_pat pad) elab_pat pad pos neg f (MAlways true));
    [exact Hp| | |reflexivity|reflexivity|exact Hne].
  - intros x Hx. pose proof (forallb_In_app _ _ _ _ W1 W2 Hx) as Wx.
    split; apply pat_chunk; try assumption; try discriminate; [apply delim_33|apply delim_44].
  - intros x Hx. pose proof (forallb_In_app _ _ _ _ W1 W2 Hx) as Wx.
    pose proof (forallb_In_app _ _ _ _ M1 M2 Hx) as Mx. cbn [parse_item].
    apply T_pat; try assumption.
    assert (I : In (r_pat pad x) (map (r_pat pad) pos ++ map (r_pat pad) neg)) by (rewrite <- map_app; apply in_map; exact Hx).
    pose proof (cnt91_rlist _ _ pad _ I). rewrite !cnt91_app in Hf. lia.
Qed.

Lemma parse_unfold text t : esc_free text -> strip text = t -> t <> [] ->
  Nat.leb (bracket_depth t 0 0) max_depth = true ->
  parse text = parse_list (S (List.length t)) KPattern t.
Proof.
  intros He Hs Hn Hd. unfold parse. rewrite (no_color_esc_free' text He), Hs.
  destruct t as [|c r]; [congruence|].
  assert (E : Nat.ltb max_depth (bracket_depth (c :: r) 0 0) = false).
  { apply Nat.ltb_ge. apply Nat.leb_le. exact Hd. }
  rewrite E. reflexivity.
Qed.

Lemma render_esc_free lay e : wf_top e = true -> esc_free (Doc.render lay e).
Proof.
  intros W. pose proof (blank_blanks lay) as Hp. pose proof (Good_esc _ (Good_blank _ Hp)) as Ep.
  destruct e as [| |pos neg]; cbn [Doc.render].
  - repeat (apply esc_free_app; split); try assumption; reflexivity.
  - repeat (apply esc_free_app; split); try assumption; reflexivity.
  - cbn [wf_top] in W. apply andb_true_iff in W. destruct W as [W W3].
    apply andb_true_iff in W. destruct W as [W1 W2].
    apply esc_free_app; split; [exact Ep|]. apply esc_free_app; split; [|exact Ep].
    apply esc_free_rlist; [exact Hp| |]; apply Forall_map', Forall_forall; intros x Hx;
      apply pat_esc_free; try assumption; fin.
Qed.

(* T1.  [mok_top] is the extra restriction found necessary (see the report): string literals are
   ASCII and no label word consists of float characters only — in both cases the model answers
   OutOfModel. *)
Theorem parse_render_mok : forall lay e, wf_top e = true -> mok_top e = true ->
  Nat.leb (bracket_depth (strip (Doc.render lay e)) 0 0) max_depth = true ->
  exists m, parse (Doc.render lay e) = Ok m /\ simplify m = simplify (elab e).
Proof.
  intros lay e W M D. pose proof (blank_blanks lay) as Hp.
  pose proof (render_esc_free lay e W) as He.
  destruct e as [| |pos neg].
  - assert (S : strip (Doc.render lay TStar) = [42]).
    { cbn [Doc.render]. rewrite strip_blank_app by exact Hp. cbn [app]. change (42 :: blanks lay) with ([42] ++ blanks lay).
      rewrite strip_app_blank by exact Hp. reflexivity. }
    rewrite (parse_unfold _ [42] He S); [|discriminate|reflexivity].
    eexists. split; [vm_compute; reflexivity|vm_compute; reflexivity].
  - assert (S : strip (Doc.render lay TBang) = [33]).
    { cbn [Doc.render]. rewrite strip_blank_app by exact Hp. cbn [app]. change (33 :: blanks lay) with ([33] ++ blanks lay).
      rewrite strip_app_blank by exact Hp. reflexivity. }
    rewrite (parse_unfold _ [33] He S); [|discriminate|reflexivity].
    eexists. split; [vm_compute; reflexivity|vm_compute; reflexivity].
  - cbn [wf_top] in W. apply andb_true_iff in W. destruct W as [W W3].
    apply andb_true_iff in W. destruct W as [W1 W2].
    cbn [mok_top] in M. apply andb_true_iff in M. destruct M as [M1 M2].
    apply ne_of_match in W3.
    change (Doc.render lay (TPats pos neg)) with (pats_text (blanks lay) pos neg) in *.
    rewrite (parse_unfold _ _ He eq_refl (pats_strip_ne _ pos neg Hp W1 W2 W3) D).
    cbn [elab]. apply T_pats; try assumption.
    rewrite <- cnt91_strip. apply cnt91_le_length.
Qed.

(* the restriction is necessary: the two smallest counterexamples to the unrestricted statement *)
Example cex_word : let e := TPats [mkDpat None (BFull OAny None (Some (AItems [IItem None (Some (VWord [101]))] [])))] [] in
  wf_top e = true /\ parse (Doc.render 0 e) = Raise OutOfModel [].
Proof. split; vm_compute; reflexivity. Qed.

Example cex_str : let e := TPats [mkDpat None (BFull OAny None (Some (AItems [IItem None (Some (VStr [233]))] [])))] [] in
  wf_top e = true /\ parse (Doc.render 0 e) = Raise OutOfModel [].
Proof. split; vm_compute; reflexivity. Qed.

Print Assumptions parse_render_mok.
