(* DecodeArgs.v — argument (render_arg d a) = Ok (denote_arg d a) for every well-formed argument. *)
From WD Require Import Base Wire Decode Render LetterIdProofs DecodeBasics.
From Coq Require Import Lia ZifyBool ZifyNat ZifyN.
Ltac Zify.zify_post_hook ::= Z.div_mod_to_equations.
Open Scope N_scope.

(* ---- the leading-hyphen matches ------------------------------------------------ *)
Lemma is_int_text_nohyphen c r : c <> 45 -> is_int_text (c :: r) = forallb is_digit (c :: r).
Proof. intros H. unfold is_int_text. char_cases c. Qed.

Lemma int_match_nohyphen c r : c <> 45 ->
  (match c :: r with 45 :: r' => dec_digits_z true r' | _ => dec_digits_z false (c :: r) end)
  = dec_digits_z false (c :: r).
Proof. intros H. char_cases c. Qed.

Lemma sgn_nohyphen c (r : str) : c <> 45 ->
  (match c :: r with 45 :: r' => (true, r') | _ => (false, c :: r) end) = (false, c :: r).
Proof. intros H. char_cases c. Qed.

Lemma is_int_text_first c r : c <> 45 -> is_digit c = false -> is_int_text (c :: r) = false.
Proof. intros H1 H2. rewrite is_int_text_nohyphen by exact H1. cbn [forallb]. rewrite H2. reflexivity. Qed.

Lemma forallb_mid_false {A} (p : A -> bool) a c b : p c = false -> forallb p (a ++ c :: b) = false.
Proof. intros H. rewrite forallb_app. cbn [forallb]. rewrite H. apply andb_false_r. Qed.

Lemma is_int_text_neg_false r : forallb is_digit r = false -> is_int_text (45 :: r) = false.
Proof. intros H. unfold is_int_text. cbv beta iota zeta. destruct r; [reflexivity|exact H]. Qed.

(* ---- obj_text / new_id_text -------------------------------------------------------- *)
Lemma obj_text_ok w c ds :
  w <> [] -> forallb is_word w = true -> (c = 64 \/ c = 35) ->
  ds <> [] -> forallb is_digit ds = true -> obj_text (w ++ c :: ds) = Some (w, ds).
Proof.
  intros Hw Ww Hc Hd Dd. unfold obj_text.
  assert (Wc : is_word c = false) by (destruct Hc as [-> | ->]; reflexivity).
  assert (Ec : (N.eqb c 64 || N.eqb c 35) = true) by (destruct Hc as [-> | ->]; reflexivity).
  rewrite span_app_stop by assumption.
  destruct w as [|w0 w]; [congruence|]. destruct ds as [|d0 ds]; [congruence|].
  cbv beta iota. rewrite Ec, Dd. reflexivity.
Qed.

Lemma obj_text_none_stop w c r :
  forallb is_word w = true -> is_word c = false -> N.eqb c 64 = false -> N.eqb c 35 = false ->
  obj_text (w ++ c :: r) = None.
Proof.
  intros Ww Wc E1 E2. unfold obj_text. rewrite span_app_stop by assumption.
  destruct w as [|w0 w]; [reflexivity|]. cbv beta iota. rewrite E1, E2. reflexivity.
Qed.

Lemma obj_text_none_first c r :
  is_word c = false -> obj_text (c :: r) = None.
Proof.
  intros Wc. unfold obj_text, span. cbn [take_while drop_while]. rewrite Wc. reflexivity.
Qed.

Lemma obj_text_none_all w : forallb is_word w = true -> obj_text w = None.
Proof. intros Ww. unfold obj_text. rewrite span_all by assumption. destruct w; reflexivity. Qed.

Lemma new_id_none_first c r : c <> 110 -> new_id_text (c :: r) = None.
Proof.
  intros H. unfold new_id_text. norm_lits. cbn [starts_with].
  assert (E : N.eqb 110 c = false) by lia. rewrite E. reflexivity.
Qed.

Lemma new_id_typed w c ds :
  w <> [] -> forallb is_word w = true -> (c = 64 \/ c = 35) ->
  ds <> [] -> forallb is_digit ds = true ->
  new_id_text (s2l "new id " ++ w ++ c :: ds) = Some (Some w, ds).
Proof.
  intros Hw Ww Hc Hd Dd. unfold new_id_text. rewrite starts_with_app.
  change 7%nat with (List.length (s2l "new id ")). rewrite (skipn_length_app (s2l "new id ")).
  assert (E : starts_with (s2l "[unknown]") (w ++ c :: ds) = false).
  { destruct w as [|w0 w]; [congruence|]. norm_lits. cbn [app starts_with].
    cbn [forallb] in Ww. apply andb_true_iff in Ww. destruct Ww as [W0 _].
    assert (E : N.eqb 91 w0 = false) by cc. rewrite E. reflexivity. }
  rewrite E. rewrite obj_text_ok by assumption. reflexivity.
Qed.

Lemma new_id_untyped c ds :
  (c = 64 \/ c = 35) -> ds <> [] -> forallb is_digit ds = true ->
  new_id_text (s2l "new id " ++ s2l "[unknown]" ++ c :: ds) = Some (None, ds).
Proof.
  intros Hc Hd Dd. unfold new_id_text. rewrite starts_with_app.
  change 7%nat with (List.length (s2l "new id ")). rewrite (skipn_length_app (s2l "new id ")).
  rewrite starts_with_app.
  change 9%nat with (List.length (s2l "[unknown]")). rewrite (skipn_length_app (s2l "[unknown]")).
  assert (Ec : (N.eqb c 64 || N.eqb c 35) = true) by (destruct Hc as [-> | ->]; reflexivity).
  destruct ds as [|d0 ds]; [congruence|]. rewrite Ec, Dd. reflexivity.
Qed.

(* ---- float_text ------------------------------------------------------------------------ *)
Lemma float_text_first c r : c <> 45 -> is_digit c = false -> float_text (c :: r) = None.
Proof.
  intros H1 H2. unfold float_text. rewrite sgn_nohyphen by exact H1.
  unfold span. cbn [take_while drop_while]. rewrite H2. reflexivity.
Qed.

Lemma float_body ip mark fp (neg : bool) :
  ip <> [] -> forallb is_digit ip = true -> fp <> [] -> forallb is_digit fp = true ->
  (mark = 46 \/ mark = 44) ->
  (let '(ip0, r1) := span is_digit (ip ++ mark :: fp) in
   match ip0 with
   | [] => None
   | _ =>
      let '(fp0, r2) :=
        match r1 with
        | c :: r => if N.eqb c 46 || N.eqb c 44 then
                      let '(f, r') := span is_digit r in
                      match f with [] => ([], r1) | _ => (f, r') end
                    else ([], r1)
        | [] => ([], r1)
        end in
      match r2 with
      | [] => Some (neg, ip0, fp0, None)
      | e :: r =>
          if N.eqb e 101 || N.eqb e 69 then
            let '(eneg, r') := match r with 43 :: x => (false, x) | 45 :: x => (true, x) | _ => (false, r) end in
            match r' with
            | [] => None
            | _ => if forallb is_digit r' then Some (neg, ip0, fp0, Some (eneg, r')) else None
            end
          else None
      end
   end) = Some (neg, ip, fp, @None (bool * str)).
Proof.
  intros Hi Di Hf Df Hm.
  assert (Dm : is_digit mark = false) by (destruct Hm as [-> | ->]; reflexivity).
  assert (Em : (N.eqb mark 46 || N.eqb mark 44) = true) by (destruct Hm as [-> | ->]; reflexivity).
  rewrite span_app_stop by assumption.
  destruct ip as [|i0 ip']; [congruence|]. cbv beta iota. rewrite Em.
  rewrite span_all by assumption. destruct fp as [|f0 fp']; [congruence|]. reflexivity.
Qed.

Lemma float_text_ok (neg : bool) ip mark fp :
  ip <> [] -> forallb is_digit ip = true -> fp <> [] -> forallb is_digit fp = true ->
  (mark = 46 \/ mark = 44) ->
  float_text ((if neg then [45] else []) ++ ip ++ mark :: fp) = Some (neg, ip, fp, None).
Proof.
  intros Hi Di Hf Df Hm. destruct neg.
  - change ([45] ++ ip ++ mark :: fp) with (45 :: ip ++ mark :: fp).
    unfold float_text. cbv beta iota. apply float_body; assumption.
  - change ([] ++ ip ++ mark :: fp) with (ip ++ mark :: fp).
    destruct ip as [|i0 ip']; [congruence|].
    assert (H0 : i0 <> 45).
    { cbn [forallb] in Di. apply andb_true_iff in Di. destruct Di as [D0 _]. cc. }
    change ((i0 :: ip') ++ mark :: fp) with (i0 :: (ip' ++ mark :: fp)).
    set (R := ip' ++ mark :: fp). unfold float_text. rewrite sgn_nohyphen by exact H0.
    cbv beta iota. subst R.
    change (i0 :: ip' ++ mark :: fp) with ((i0 :: ip') ++ mark :: fp).
    apply float_body; assumption.
Qed.

(* ---- argument, alternative by alternative --------------------------------------------------- *)
Lemma argument_int v : all_ascii v = true -> is_int_text v = true ->
  argument v = Ok (PInt (match v with 45 :: r => dec_digits_z true r | _ => dec_digits_z false v end)).
Proof. intros A I. unfold argument. rewrite A, I. reflexivity. Qed.

Lemma argument_obj v ty ds : all_ascii v = true -> is_int_text v = false ->
  obj_text v = Some (ty, ds) -> dec_value ds <> 0 ->
  argument v = Ok (PObj (Z.of_N (dec_value ds)) (Some ty) false).
Proof.
  intros A I O Hz. unfold argument. rewrite A, I, O. cbn [negb andb].
  assert (E : (Z.of_N (dec_value ds) =? 0)%Z = false) by lia. rewrite E. reflexivity.
Qed.

Lemma argument_new v ty ds : all_ascii v = true -> is_int_text v = false ->
  obj_text v = None -> new_id_text v = Some (ty, ds) -> dec_value ds <> 0 ->
  argument v = Ok (PObj (Z.of_N (dec_value ds)) ty true).
Proof.
  intros A I O Nw Hz. unfold argument. rewrite A, I, O, Nw. cbn [negb andb].
  assert (E : (Z.of_N (dec_value ds) =? 0)%Z = false) by lia. rewrite E. reflexivity.
Qed.

Lemma argument_nil : argument (s2l "nil") = Ok (PNull None).
Proof. reflexivity. Qed.

Lemma argument_str v :
  starts_with [34] v && ends_with [34] v && Nat.leb 2 (List.length v) = true ->
  is_int_text v = false -> obj_text v = None -> new_id_text v = None ->
  str_eqb v (s2l "nil") = false ->
  argument v = Ok (PStr (strip_ends v)).
Proof.
  intros Q I O Nw Nl. unfold argument. rewrite Q, I, O, Nw, Nl. cbn [negb]. rewrite andb_false_r. reflexivity.
Qed.

Lemma argument_float v neg ip fp : all_ascii v = true -> is_int_text v = false ->
  obj_text v = None -> new_id_text v = None -> str_eqb v (s2l "nil") = false ->
  starts_with [34] v = false -> float_text v = Some (neg, ip, fp, None) ->
  (List.length (ip ++ fp) <= 15)%nat ->
  argument v = Ok (PFloat (mkDec (dec_digits_z neg (ip ++ fp)) (N.of_nat (List.length fp)))).
Proof.
  intros A I O Nw Nl Q F L. unfold argument. rewrite A, I, O, Nw, Nl, Q, F. cbn [negb andb].
  assert (E : Nat.ltb 15 (List.length (drop_while (N.eqb 48) (ip ++ fp))) = false).
  { apply Nat.ltb_ge. eapply Nat.le_trans; [apply drop_while_length_le|exact L]. }
  rewrite E. reflexivity.
Qed.

Lemma argument_array v : all_ascii v = true -> is_int_text v = false ->
  obj_text v = None -> new_id_text v = None -> str_eqb v (s2l "nil") = false ->
  starts_with [34] v = false -> float_text v = None -> is_array_text v = true ->
  argument v = Ok (PArray None).
Proof.
  intros A I O Nw Nl Q F Ar. unfold argument. rewrite A, I, O, Nw, Nl, Q, F, Ar. reflexivity.
Qed.

Lemma argument_fd v ds : all_ascii v = true -> is_int_text v = false ->
  obj_text v = None -> new_id_text v = None -> str_eqb v (s2l "nil") = false ->
  starts_with [34] v = false -> float_text v = None -> is_array_text v = false ->
  fd_text v = Some ds ->
  argument v = Ok (PFd (Z.of_N (dec_value ds))).
Proof.
  intros A I O Nw Nl Q F Ar Fd. unfold argument. rewrite A, I, O, Nw, Nl, Q, F, Ar, Fd. reflexivity.
Qed.

(* ---- integers ------------------------------------------------------------------------------------ *)
Lemma argument_digits ds : ds <> [] -> forallb is_digit ds = true ->
  argument ds = Ok (PInt (Z.of_N (dec_value ds))).
Proof.
  intros Hd Dd. destruct ds as [|c r]; [congruence|].
  assert (H0 : c <> 45).
  { cbn [forallb] in Dd. apply andb_true_iff in Dd. destruct Dd as [D0 _]. cc. }
  rewrite argument_int.
  - rewrite int_match_nohyphen by exact H0. reflexivity.
  - apply digits_all_ascii. exact Dd.
  - rewrite is_int_text_nohyphen by exact H0. exact Dd.
Qed.

Lemma argument_neg_digits ds : ds <> [] -> forallb is_digit ds = true ->
  argument (45 :: ds) = Ok (PInt (- Z.of_N (dec_value ds))).
Proof.
  intros Hd Dd. rewrite argument_int.
  - reflexivity.
  - unfold all_ascii. cbn [forallb]. apply digits_all_ascii in Dd. unfold all_ascii in Dd. rewrite Dd. reflexivity.
  - unfold is_int_text. cbv beta iota zeta. destruct ds; [congruence|exact Dd].
Qed.

Lemma arg_int v : argument (z_to_dec v) = Ok (PInt v).
Proof.
  destruct v as [|p|p].
  - reflexivity.
  - cbn [z_to_dec]. rewrite argument_digits; [|apply n_to_dec_nonempty|apply n_to_dec_digits].
    rewrite n_to_dec_value. reflexivity.
  - cbn [z_to_dec]. rewrite argument_neg_digits; [|apply n_to_dec_nonempty|apply n_to_dec_digits].
    rewrite n_to_dec_value. reflexivity.
Qed.

(* ---- fixed ------------------------------------------------------------------------------------------- *)
Lemma sign_ascii (neg : bool) : all_ascii (if neg then [45] else []) = true.
Proof. destruct neg; reflexivity. Qed.

Lemma arg_float_shape (neg : bool) ip mark fp :
  ip <> [] -> forallb is_digit ip = true -> fp <> [] -> forallb is_digit fp = true ->
  (mark = 46 \/ mark = 44) -> (List.length ip + List.length fp <= 15)%nat ->
  argument ((if neg then [45] else []) ++ ip ++ mark :: fp)
  = Ok (PFloat (mkDec (dec_digits_z neg (ip ++ fp)) (N.of_nat (List.length fp)))).
Proof.
  intros Ni Di Nf Df Hm Hl.
  assert (Am : is_ascii mark = true) by (destruct Hm as [-> | ->]; reflexivity).
  assert (Dm : is_digit mark = false) by (destruct Hm as [-> | ->]; reflexivity).
  assert (Wm : is_word mark = false) by (destruct Hm as [-> | ->]; reflexivity).
  assert (M1 : N.eqb mark 64 = false) by (destruct Hm as [-> | ->]; reflexivity).
  assert (M2 : N.eqb mark 35 = false) by (destruct Hm as [-> | ->]; reflexivity).
  apply argument_float.
  - rewrite !all_ascii_app. rewrite sign_ascii. rewrite (digits_all_ascii _ Di).
    unfold all_ascii at 1. cbn [forallb]. rewrite Am. apply digits_all_ascii in Df. unfold all_ascii in Df.
    rewrite Df. reflexivity.
  - destruct neg.
    + change ([45] ++ ip ++ mark :: fp) with (45 :: ip ++ mark :: fp).
      apply is_int_text_neg_false. apply forallb_mid_false. exact Dm.
    + change ([] ++ ip ++ mark :: fp) with (ip ++ mark :: fp).
      destruct ip as [|i0 ip']; [congruence|]. pose proof Di as D0.
      cbn [forallb] in D0. apply andb_true_iff in D0. destruct D0 as [D0 _].
      change ((i0 :: ip') ++ mark :: fp) with (i0 :: (ip' ++ mark :: fp)).
      rewrite is_int_text_nohyphen by cc.
      change (i0 :: ip' ++ mark :: fp) with ((i0 :: ip') ++ mark :: fp).
      apply forallb_mid_false. exact Dm.
  - destruct neg.
    + change ([45] ++ ip ++ mark :: fp) with (45 :: ip ++ mark :: fp).
      apply obj_text_none_first. reflexivity.
    + change ([] ++ ip ++ mark :: fp) with (ip ++ mark :: fp).
      apply obj_text_none_stop; try assumption. apply digits_word. exact Di.
  - destruct neg.
    + apply new_id_none_first. discriminate.
    + destruct ip as [|i0 ip']; [congruence|].
      cbn [forallb] in Di. apply andb_true_iff in Di. destruct Di as [D0 _].
      cbn [app]. apply new_id_none_first. cc.
  - destruct neg.
    + reflexivity.
    + destruct ip as [|i0 ip']; [congruence|].
      cbn [forallb] in Di. apply andb_true_iff in Di. destruct Di as [D0 _].
      cbn [app]. unfold str_eqb. norm_lits. cbn [list_eqb].
      assert (E : N.eqb i0 110 = false) by cc. rewrite E. reflexivity.
  - destruct neg.
    + reflexivity.
    + destruct ip as [|i0 ip']; [congruence|].
      cbn [forallb] in Di. apply andb_true_iff in Di. destruct Di as [D0 _].
      cbn [app starts_with]. assert (E : N.eqb 34 i0 = false) by cc. rewrite E. reflexivity.
  - apply float_text_ok; assumption.
  - rewrite app_length. lia.
Qed.

Lemma arg_fixed_text (neg : bool) hi lo w mark :
  hi < 10000000 -> (1 <= w <= 8)%nat -> lo < 10 ^ N.of_nat w -> (mark = 46 \/ mark = 44) ->
  argument ((if neg then [45] else []) ++ n_to_dec hi ++ mark :: dec_pad w lo)
  = Ok (PFloat (mkDec (dec_digits_z neg (n_to_dec hi ++ dec_pad w lo)) (N.of_nat w))).
Proof.
  intros Hhi Hw Hlo Hm.
  assert (Lf : List.length (dec_pad w lo) = w) by (apply dec_pad_length; [lia|exact Hlo]).
  assert (Li : (List.length (n_to_dec hi) <= 7)%nat).
  { apply n_to_dec_len; [lia|]. change (10 ^ N.of_nat 7) with 10000000. exact Hhi. }
  rewrite arg_float_shape.
  - rewrite Lf. reflexivity.
  - apply n_to_dec_nonempty.
  - apply n_to_dec_digits.
  - apply dec_pad_nonempty.
  - apply dec_pad_digits.
  - exact Hm.
  - lia.
Qed.

Lemma dec_value_hi_lo hi lo w : lo < 10 ^ N.of_nat w -> (1 <= w)%nat ->
  dec_value (n_to_dec hi ++ dec_pad w lo) = hi * 10 ^ N.of_nat w + lo.
Proof.
  intros Hlo Hw. rewrite dec_value_app, dec_pad_length by assumption.
  rewrite n_to_dec_value, dec_pad_value. reflexivity.
Qed.

Lemma fixed6_bound k : (- 2147483648 <= k <= 2147483647)%Z ->
  (Z.abs (fixed6_mant k) <= 8388608000001)%Z /\ ((fixed6_mant k <? 0)%Z = true -> (k < 0)%Z).
Proof.
  intros Hk. unfold fixed6_mant, fixed8_mant.
  set (a := Z.abs (k * 390625)). set (q := (a / 100)%Z). set (r := (a mod 100)%Z).
  assert (Hq : (0 <= q <= 8388608000000)%Z) by (subst q a; lia).
  destruct (r <? 50)%Z, (50 <? r)%Z, (Z.even q), (k <? 0)%Z eqn:Ek; split; lia.
Qed.

Lemma mark_cases d : mark_char d = 46 \/ mark_char d = 44.
Proof. unfold mark_char. destruct (d_comma d); auto. Qed.

Lemma sep_cases d : sep_char d = 64 \/ sep_char d = 35.
Proof. unfold sep_char. destruct (d_hash d); auto. Qed.

Lemma arg_fixed d k : (- 2147483648 <= k <= 2147483647)%Z ->
  argument (render_fixed d k) = Ok (denote_arg d (WFixed k)).
Proof.
  intros Hk. unfold render_fixed. cbn [denote_arg]. destruct (d_fixed8 d).
  - rewrite z_to_dec_nonneg by lia.
    change ([46] ++ dec_pad 8 (Z.to_N (390625 * (Z.abs k mod 256))))
      with (46 :: dec_pad 8 (Z.to_N (390625 * (Z.abs k mod 256)))).
    assert (Hlo : Z.to_N (390625 * (Z.abs k mod 256)) < 10 ^ N.of_nat 8).
    { change (10 ^ N.of_nat 8) with 100000000. lia. }
    rewrite arg_fixed_text; [|lia|lia|exact Hlo|auto].
    unfold dec_digits_z. rewrite dec_value_hi_lo by (exact Hlo || lia).
    change (10 ^ N.of_nat 8) with 100000000. change (N.of_nat 8) with 8.
    do 3 f_equal. unfold fixed8_mant. destruct (k <? 0)%Z eqn:Ek; lia.
  - destruct (fixed6_bound k Hk) as [Hb Hs]. set (m := fixed6_mant k) in *.
    rewrite z_to_dec_nonneg by lia.
    change ([mark_char d] ++ dec_pad 6 (Z.to_N (Z.abs m mod 1000000)))
      with (mark_char d :: dec_pad 6 (Z.to_N (Z.abs m mod 1000000))).
    assert (Hlo : Z.to_N (Z.abs m mod 1000000) < 10 ^ N.of_nat 6).
    { change (10 ^ N.of_nat 6) with 1000000. lia. }
    rewrite arg_fixed_text; [|lia|lia|exact Hlo|apply mark_cases].
    unfold dec_digits_z. rewrite dec_value_hi_lo by (exact Hlo || lia).
    change (10 ^ N.of_nat 6) with 1000000. change (N.of_nat 6) with 6.
    do 3 f_equal. destruct (m <? 0)%Z eqn:Em; lia.
Qed.

(* ---- strings ------------------------------------------------------------------------------------------- *)
Lemma arg_str s : argument ([34] ++ s ++ [34]) = Ok (PStr s).
Proof.
  change ([34] ++ s ++ [34]) with (34 :: s ++ [34]).
  rewrite argument_str.
  - unfold strip_ends. cbn [tl]. rewrite removelast_last. reflexivity.
  - unfold ends_with. cbn [rev]. rewrite rev_app_distr. cbn [rev app starts_with].
    cbn [List.length]. rewrite app_length. cbn [List.length]. rewrite N.eqb_refl. cbn [andb].
    apply Nat.leb_le. lia.
  - apply is_int_text_first; [discriminate|reflexivity].
  - apply obj_text_none_first. reflexivity.
  - apply new_id_none_first. discriminate.
  - reflexivity.
Qed.

(* ---- objects ---------------------------------------------------------------------------------------------- *)
Lemma pos_id_digits id : (0 < id)%Z ->
  z_to_dec id <> [] /\ forallb is_digit (z_to_dec id) = true /\ dec_value (z_to_dec id) = Z.to_N id.
Proof.
  intros H. rewrite z_to_dec_nonneg by lia. split; [apply n_to_dec_nonempty|].
  split; [apply n_to_dec_digits|apply n_to_dec_value].
Qed.

Lemma word_head c w : forallb is_word (c :: w) = true -> is_word c = true.
Proof. cbn [forallb]. intros H. apply andb_true_iff in H. tauto. Qed.

Lemma arg_obj d i id : is_word_str i = true -> (0 < id)%Z ->
  argument (i ++ [sep_char d] ++ z_to_dec id) = Ok (PObj id (Some i) false).
Proof.
  intros Hi Hid. apply is_word_str_spec in Hi. destruct Hi as [Ni Wi].
  destruct (pos_id_digits id Hid) as [Nd [Dd Vd]].
  change ([sep_char d] ++ z_to_dec id) with (sep_char d :: z_to_dec id).
  pose proof (sep_cases d) as Hc.
  assert (As : is_ascii (sep_char d) = true) by (destruct Hc as [-> | ->]; reflexivity).
  assert (Ds : is_digit (sep_char d) = false) by (destruct Hc as [-> | ->]; reflexivity).
  rewrite (argument_obj _ i (z_to_dec id)).
  - rewrite Vd. f_equal. f_equal. lia.
  - rewrite all_ascii_app. rewrite (word_all_ascii _ Wi). unfold all_ascii. cbn [forallb]. rewrite As.
    apply digits_all_ascii in Dd. unfold all_ascii in Dd. rewrite Dd. reflexivity.
  - destruct i as [|i0 i']; [congruence|]. pose proof (word_head _ _ Wi) as W0. cbn [app].
    rewrite is_int_text_nohyphen by cc.
    change (i0 :: i' ++ sep_char d :: z_to_dec id) with ((i0 :: i') ++ sep_char d :: z_to_dec id).
    apply forallb_mid_false. exact Ds.
  - apply obj_text_ok; assumption.
  - rewrite Vd. lia.
Qed.

Lemma arg_new_typed d i id : is_word_str i = true -> (0 < id)%Z ->
  argument (s2l "new id " ++ i ++ [sep_char d] ++ z_to_dec id) = Ok (PObj id (Some i) true).
Proof.
  intros Hi Hid. apply is_word_str_spec in Hi. destruct Hi as [Ni Wi].
  destruct (pos_id_digits id Hid) as [Nd [Dd Vd]].
  change ([sep_char d] ++ z_to_dec id) with (sep_char d :: z_to_dec id).
  pose proof (sep_cases d) as Hc.
  assert (As : is_ascii (sep_char d) = true) by (destruct Hc as [-> | ->]; reflexivity).
  rewrite (argument_new _ (Some i) (z_to_dec id)).
  - rewrite Vd. f_equal. f_equal. lia.
  - rewrite !all_ascii_app. rewrite (word_all_ascii _ Wi). unfold all_ascii at 2. cbn [forallb]. rewrite As.
    apply digits_all_ascii in Dd. unfold all_ascii in Dd. rewrite Dd. reflexivity.
  - norm_lits. cbn [app]. apply is_int_text_first; [discriminate|reflexivity].
  - norm_lits. cbn [app].
    change (110 :: 101 :: 119 :: 32 :: 105 :: 100 :: 32 :: i ++ sep_char d :: z_to_dec id)
      with ([110; 101; 119] ++ 32 :: 105 :: 100 :: 32 :: i ++ sep_char d :: z_to_dec id).
    apply obj_text_none_stop; reflexivity.
  - apply new_id_typed; assumption.
  - rewrite Vd. lia.
Qed.

Lemma arg_new_untyped d id : (0 < id)%Z ->
  argument (s2l "new id " ++ s2l "[unknown]" ++ [sep_char d] ++ z_to_dec id) = Ok (PObj id None true).
Proof.
  intros Hid. destruct (pos_id_digits id Hid) as [Nd [Dd Vd]].
  change ([sep_char d] ++ z_to_dec id) with (sep_char d :: z_to_dec id).
  pose proof (sep_cases d) as Hc.
  assert (As : is_ascii (sep_char d) = true) by (destruct Hc as [-> | ->]; reflexivity).
  rewrite (argument_new _ None (z_to_dec id)).
  - rewrite Vd. f_equal. f_equal. lia.
  - rewrite !all_ascii_app. unfold all_ascii at 3. cbn [forallb]. rewrite As.
    apply digits_all_ascii in Dd. unfold all_ascii in Dd. rewrite Dd. reflexivity.
  - norm_lits. cbn [app]. apply is_int_text_first; [discriminate|reflexivity].
  - norm_lits. cbn [app].
    change (110 :: 101 :: 119 :: 32 :: 105 :: 100 :: 32 :: 91 :: 117 :: 110 :: 107 :: 110 :: 111 :: 119 :: 110 :: 93
            :: sep_char d :: z_to_dec id)
      with ([110; 101; 119] ++ 32 :: 105 :: 100 :: 32 :: 91 :: 117 :: 110 :: 107 :: 110 :: 111 :: 119 :: 110 :: 93
            :: sep_char d :: z_to_dec id).
    apply obj_text_none_stop; reflexivity.
  - apply new_id_untyped; assumption.
  - rewrite Vd. lia.
Qed.

(* ---- fd / array --------------------------------------------------------------------------------------------- *)
Lemma arg_fd v : (0 <= v)%Z -> argument (s2l "fd " ++ z_to_dec v) = Ok (PFd v).
Proof.
  intros Hv. rewrite z_to_dec_nonneg by exact Hv.
  pose proof (n_to_dec_nonempty (Z.to_N v)) as Nd. pose proof (n_to_dec_digits (Z.to_N v)) as Dd.
  rewrite (argument_fd _ (n_to_dec (Z.to_N v))).
  - rewrite n_to_dec_value. f_equal. f_equal. lia.
  - rewrite all_ascii_app. rewrite (digits_all_ascii _ Dd). reflexivity.
  - norm_lits. cbn [app]. apply is_int_text_first; [discriminate|reflexivity].
  - norm_lits. cbn [app].
    change (102 :: 100 :: 32 :: n_to_dec (Z.to_N v)) with ([102; 100] ++ 32 :: n_to_dec (Z.to_N v)).
    apply obj_text_none_stop; reflexivity.
  - norm_lits. cbn [app]. apply new_id_none_first. discriminate.
  - reflexivity.
  - reflexivity.
  - norm_lits. cbn [app]. apply float_text_first; [discriminate|reflexivity].
  - reflexivity.
  - unfold fd_text. rewrite starts_with_app.
    change 3%nat with (List.length (s2l "fd ")). rewrite (skipn_length_app (s2l "fd ")).
    destruct (n_to_dec (Z.to_N v)) as [|d0 ds]; [congruence|]. rewrite Dd. reflexivity.
Qed.

Lemma arg_array d n : argument (render_arg d (WArray n)) = Ok (PArray None).
Proof.
  cbn [render_arg]. destruct (d_array_n d); [|reflexivity].
  pose proof (n_to_dec_nonempty n) as Nd. pose proof (n_to_dec_digits n) as Dd.
  apply argument_array.
  - rewrite !all_ascii_app. rewrite (digits_all_ascii _ Dd). reflexivity.
  - norm_lits. cbn [app]. apply is_int_text_first; [discriminate|reflexivity].
  - norm_lits. cbn [app].
    change (97 :: 114 :: 114 :: 97 :: 121 :: 91 :: n_to_dec n ++ [93])
      with ([97; 114; 114; 97; 121] ++ 91 :: n_to_dec n ++ [93]).
    apply obj_text_none_stop; reflexivity.
  - norm_lits. cbn [app]. apply new_id_none_first. discriminate.
  - reflexivity.
  - reflexivity.
  - norm_lits. cbn [app]. apply float_text_first; [discriminate|reflexivity].
  - unfold is_array_text. norm_lits. cbn [app starts_with skipn].
    change (N.eqb 97 97 && (N.eqb 114 114 && (N.eqb 114 114 && (N.eqb 97 97 && (N.eqb 121 121 && true))))) with true.
    cbv beta iota. rewrite rev_app_distr. cbn [rev app].
    destruct (rev (n_to_dec n)) as [|r0 rs] eqn:Er.
    + exfalso. apply Nd. apply (f_equal (@rev char)) in Er. rewrite rev_involutive in Er. exact Er.
    + rewrite <- Er. rewrite forallb_rev. exact Dd.
Qed.

(* ---- all kinds ---------------------------------------------------------------------------------------------------- *)
Theorem argument_render d a : wf_warg a = true -> argument (render_arg d a) = Ok (denote_arg d a).
Proof.
  intros Hwf. destruct a as [v|k|s| |i id|[i|] id|v|n]; cbn [render_arg denote_arg wf_warg] in *.
  - apply arg_int.
  - apply arg_fixed. lia.
  - apply arg_str.
  - reflexivity.
  - apply andb_true_iff in Hwf. destruct Hwf as [Hwf _]. apply andb_true_iff in Hwf. destruct Hwf as [Hi Hid].
    apply arg_obj; [exact Hi|lia].
  - apply andb_true_iff in Hwf. destruct Hwf as [Hwf _]. apply andb_true_iff in Hwf. destruct Hwf as [Hi Hid].
    apply arg_new_typed; [exact Hi|lia].
  - apply arg_new_untyped. lia.
  - apply arg_fd. lia.
  - apply arg_array.
Qed.
