(* C17 at the level of message lines: the coloured line, stripped, is the uncoloured line. *)
From WD Require Import Base Wire Conn Color LetterId Show.
From WD Require Import LetterIdProofs ColorProofs.
From Coq Require Import Lia.
Open Scope N_scope.

(* a = coloured text, b = its plain version: stripping a gives b, whatever follows *)
Definition Strips (a b : str) : Prop := esc_free b /\ forall k, no_color (a ++ k) = b ++ no_color k.

Lemma Strips_nil : Strips [] [].
Proof. split; [reflexivity|]. intros k. reflexivity. Qed.

Lemma Strips_plain s : esc_free s -> Strips s s.
Proof. intros H. split; [exact H|]. intros k. apply no_color_esc_free. exact H. Qed.

Lemma Strips_app a b a' b' : Strips a b -> Strips a' b' -> Strips (a ++ a') (b ++ b').
Proof.
  intros [E1 H1] [E2 H2]. split; [apply esc_free_app; split; assumption|].
  intros k. rewrite <- !app_assoc, H1, H2. reflexivity.
Qed.

Lemma Strips_csi c : valid_code c -> Strips (csi c) [].
Proof. intros H. split; [reflexivity|]. intros k. apply no_color_csi. exact H. Qed.

Lemma Strips_wrap pre a post b : Strips pre [] -> Strips a b -> Strips post [] -> Strips (pre ++ a ++ post) b.
Proof.
  intros [_ H1] [E H2] [_ H3]. split; [exact E|]. intros k.
  rewrite <- !app_assoc, H1, H2, H3. reflexivity.
Qed.

Lemma Strips_pre pre a b : Strips pre [] -> Strips a b -> Strips (pre ++ a) b.
Proof. intros [_ H1] [E H2]. split; [exact E|]. intros k. rewrite <- app_assoc, H1, H2. reflexivity. Qed.

Lemma Strips_post a post b : Strips a b -> Strips post [] -> Strips (a ++ post) b.
Proof. intros [E H2] [_ H3]. split; [exact E|]. intros k. rewrite <- app_assoc, H2, H3. reflexivity. Qed.

(* color(): with colour on it wraps (possibly already coloured) text; with colour off it is the text *)
Lemma Strips_color code a b : code_ok code -> Strips a b -> Strips (color true code a) (color false code b).
Proof.
  intros Hc Hab. rewrite color_off. destruct a as [|x a].
  - cbn. destruct Hab as [E H]. specialize (H []). cbn in H. rewrite app_nil_r in H. subst b. apply Strips_nil.
  - unfold color. assert (R : Strips reset []) by (apply Strips_csi; reflexivity).
    destruct code as [c|].
    + apply Strips_wrap; [apply Strips_csi; exact Hc|exact Hab|destruct c; [apply Strips_nil|exact R]].
    + apply Strips_wrap; [exact R|exact Hab|apply Strips_nil].
Qed.

Lemma Strips_color_plain code s : code_ok code -> esc_free s -> Strips (color true code s) (color false code s).
Proof. intros Hc Hs. apply Strips_color; [exact Hc|apply Strips_plain; exact Hs]. Qed.

Lemma Strips_intercalate sa sb la lb :
  Strips sa sb -> Forall2 Strips la lb -> Strips (intercalate sa la) (intercalate sb lb).
Proof.
  intros Hs H. induction H as [|a b la lb Hab Hl IH]; [apply Strips_nil|].
  destruct Hl as [|a2 b2 la2 lb2 H2 Hl2]; [exact Hab|].
  cbn [intercalate] in *. apply Strips_app; [exact Hab|]. apply Strips_app; [exact Hs|exact IH].
Qed.

(* ---- esc-free building blocks ------------------------------------------------------------------------ *)
Lemma digits_esc_free s : forallb is_digit s = true -> esc_free s.
Proof.
  unfold esc_free. intros H. rewrite forallb_forall in *. intros c Hc. specialize (H c Hc).
  unfold is_digit, in_range in H. apply negb_true_iff. apply N.eqb_neq. lia.
Qed.

Lemma n_to_dec_esc_free n : esc_free (n_to_dec n).
Proof. apply digits_esc_free. apply n_to_dec_spec. Qed.

Lemma z_to_dec_esc_free z : esc_free (z_to_dec z).
Proof.
  destruct z as [|p|p]; [reflexivity|apply n_to_dec_esc_free|].
  cbn [z_to_dec]. change (45 :: n_to_dec (N.pos p)) with ([45] ++ n_to_dec (N.pos p)).
  apply esc_free_app. split; [reflexivity|apply n_to_dec_esc_free].
Qed.

Lemma n2l_esc_free g : esc_free (n2l false g).
Proof.
  destruct (n2l_lower_spec g) as (Hl & _ & _). unfold lower_letters in Hl. unfold esc_free.
  rewrite forallb_forall in *. intros c Hc. specialize (Hl c Hc). apply is_lower_range in Hl.
  apply negb_true_iff. apply N.eqb_neq. lia.
Qed.

Lemma esc_free_firstn n s : esc_free s -> esc_free (firstn n s).
Proof. intros H. rewrite <- (firstn_skipn n s) in H. apply esc_free_app in H. apply H. Qed.
Lemma esc_free_skipn n s : esc_free s -> esc_free (skipn n s).
Proof. intros H. rewrite <- (firstn_skipn n s) in H. apply esc_free_app in H. apply H. Qed.
Lemma esc_free_pad n s : esc_free s -> esc_free (pad_zeros n s).
Proof. intros H. induction n as [|n IH]; [exact H|]. cbn [pad_zeros]. change (48 :: pad_zeros n s) with ([48] ++ pad_zeros n s). apply esc_free_app. split; [reflexivity|exact IH]. Qed.

Lemma dec_to_str_esc_free d : esc_free (dec_to_str d).
Proof.
  unfold dec_to_str.
  set (dg := n_to_dec (Z.abs_N (d_mant (dec_norm d)))). assert (Hd : esc_free dg) by apply n_to_dec_esc_free.
  assert (Hs : esc_free (if (d_mant (dec_norm d) <? 0)%Z then [45] else [])) by (destruct (_ <? _)%Z; reflexivity).
  destruct (d_scale (dec_norm d) =? 0).
  - apply esc_free_app. split; [exact Hs|]. apply esc_free_app. split; [exact Hd|reflexivity].
  - destruct (Nat.leb _ _).
    + apply esc_free_app. split; [exact Hs|]. apply esc_free_app. split; [reflexivity|apply esc_free_pad; exact Hd].
    + apply esc_free_app. split; [exact Hs|]. apply esc_free_app. split; [apply esc_free_firstn; exact Hd|].
      apply esc_free_app. split; [reflexivity|apply esc_free_skipn; exact Hd].
Qed.

Lemma repr_char_esc_free q c : q <> 27 -> esc_free (repr_char q c).
Proof.
  intros Hq. unfold repr_char.
  destruct (N.eqb c q) eqn:E1.
  { apply N.eqb_eq in E1. subst c. unfold esc_free. cbn. apply N.eqb_neq in Hq. rewrite Hq. reflexivity. }
  destruct (N.eqb c 92); [reflexivity|]. destruct (N.eqb c 10); [reflexivity|]. destruct (N.eqb c 13); [reflexivity|].
  destruct (N.eqb c 9); [reflexivity|].
  destruct ((c <? 32) || N.eqb c 127) eqn:E6.
  { unfold esc_free. cbn [forallb]. cbn.
    assert (H : forall n, n < 16 -> negb (N.eqb (hex_digit n) 27) = true).
    { intros n Hn. unfold hex_digit. apply negb_true_iff. apply N.eqb_neq. destruct (n <? 10); lia. }
    rewrite (H (c / 16)), (H (c mod 16)); [reflexivity| apply N.mod_lt; lia|].
    apply N.div_lt_upper_bound; [lia|]. apply orb_true_iff in E6. destruct E6 as [E6|E6]; [apply N.ltb_lt in E6; lia|apply N.eqb_eq in E6; lia]. }
  destruct (c <? 127) eqn:E7; [|reflexivity].
  unfold esc_free. cbn. apply orb_false_iff in E6. destruct E6 as [E6 _]. apply N.ltb_ge in E6.
  replace (N.eqb c 27) with false by (symmetry; apply N.eqb_neq; lia). reflexivity.
Qed.

Lemma py_repr_esc_free s : esc_free (py_repr s).
Proof.
  unfold py_repr. set (q := if mem_char 39 s && negb (mem_char 34 s) then 34 else 39).
  assert (Hq : q <> 27) by (unfold q; destruct (_ && _); lia).
  change (q :: flat_map (repr_char q) s ++ [q]) with ([q] ++ flat_map (repr_char q) s ++ [q]).
  assert (Hq1 : esc_free [q]) by (unfold esc_free; cbn; replace (N.eqb q 27) with false by (symmetry; apply N.eqb_neq; exact Hq); reflexivity).
  apply esc_free_app. split; [exact Hq1|]. apply esc_free_app. split; [|exact Hq1].
  clearbody q. clear Hq1. induction s as [|c s IH]; [reflexivity|]. cbn [flat_map]. apply esc_free_app. split; [apply repr_char_esc_free; exact Hq|exact IH].
Qed.

(* ---- objects, arguments, messages ------------------------------------------------------------------------- *)
Definition oesc (o : option str) : Prop := match o with Some t => esc_free t | None => True end.

Ltac pal := first [exact (proj1 palette_ok) | reflexivity | exact I].

Lemma Strips_obj_parts id gen ty : oesc ty -> Strips (show_obj_parts true id gen ty) (show_obj_parts false id gen ty).
Proof.
  intros Ht. unfold show_obj_parts. apply Strips_app.
  - destruct ty as [[|c t]|].
    + apply Strips_color; [reflexivity|]. apply Strips_color_plain; [reflexivity|reflexivity].
    + apply Strips_color_plain; [reflexivity|exact Ht].
    + apply Strips_color; [reflexivity|]. apply Strips_color_plain; [reflexivity|reflexivity].
  - destruct gen as [g|].
    + apply Strips_color_plain; [reflexivity|].
      change (64 :: z_to_dec id ++ n2l false g) with ([64] ++ z_to_dec id ++ n2l false g).
      apply esc_free_app. split; [reflexivity|]. apply esc_free_app. split; [apply z_to_dec_esc_free|apply n2l_esc_free].
    + apply Strips_app; apply Strips_color_plain; try reflexivity.
      change (64 :: z_to_dec id) with ([64] ++ z_to_dec id). apply esc_free_app. split; [reflexivity|apply z_to_dec_esc_free].
Qed.

Definition ref_clean (d : db) (r : oref) : Prop :=
  match r with Resolved _ _ => oesc (ref_type d r) | Unresolved _ ty => oesc ty end.

Lemma Strips_ref d r : ref_clean d r -> Strips (show_ref true d r) (show_ref false d r).
Proof.
  intros H. destruct r as [id g|id ty]; cbn [show_ref ref_clean] in *.
  - apply Strips_obj_parts. exact H.
  - apply Strips_app; [apply Strips_color_plain; reflexivity|apply Strips_obj_parts; exact H].
Qed.

Lemma Strips_int v labels :
  (match labels with Some ls => Forall esc_free ls | None => True end) ->
  Strips (show_int true v labels) (show_int false v labels).
Proof.
  intros H. unfold show_int. destruct labels as [ls|].
  - apply Strips_app; [apply Strips_color_plain; [reflexivity|apply z_to_dec_esc_free]|].
    apply Strips_app; [apply Strips_color_plain; reflexivity|].
    apply Strips_intercalate; [apply Strips_color_plain; reflexivity|].
    induction H as [|l ls Hl _ IH]; cbn [map]; constructor; [apply Strips_color_plain; [reflexivity|exact Hl]|exact IH].
  - apply Strips_color_plain; [reflexivity|apply z_to_dec_esc_free].
Qed.

Definition val_clean (d : db) (v : rval) : Prop :=
  match v with
  | RInt _ (Some ls) => Forall esc_free ls
  | RNull ty => oesc ty
  | RObj o _ => ref_clean d o
  | RArray (Some vs) => Forall (fun p => match snd p with Some ls => Forall esc_free ls | None => True end) vs
  | _ => True
  end.

Lemma Strips_val d v : val_clean d v -> Strips (show_val true d v) (show_val false d v).
Proof.
  intros H. destruct v as [z l|x|s|ty|o n|z|[vs|]|[s|]]; cbn [show_val val_clean] in *.
  - apply Strips_int. destruct l; exact H.
  - apply Strips_color_plain; [reflexivity|apply dec_to_str_esc_free].
  - apply Strips_color_plain; [reflexivity|apply py_repr_esc_free].
  - apply Strips_color_plain; [reflexivity|]. apply esc_free_app. split; [reflexivity|].
    destruct ty as [[|c t]|]; [reflexivity|exact H|reflexivity].
  - apply Strips_app; [destruct n; [apply Strips_color_plain; reflexivity|apply Strips_nil]|apply Strips_ref; exact H].
  - apply Strips_color_plain; [reflexivity|]. apply esc_free_app. split; [reflexivity|apply z_to_dec_esc_free].
  - apply Strips_app; [apply Strips_color_plain; reflexivity|]. apply Strips_app; [|apply Strips_color_plain; reflexivity].
    apply Strips_intercalate; [apply Strips_color_plain; reflexivity|].
    induction H as [|p vs Hp _ IH]; cbn [map]; constructor; [apply Strips_int; exact Hp|exact IH].
  - apply Strips_color_plain; reflexivity.
  - apply Strips_color_plain; [reflexivity|]. apply esc_free_app. split; [reflexivity|apply py_repr_esc_free].
  - apply Strips_color_plain; reflexivity.
Qed.

Definition arg_clean (d : db) (a : rarg) : Prop := oesc (a_name a) /\ val_clean d (a_val a).

Lemma Strips_arg d a : arg_clean d a -> Strips (show_arg true d a) (show_arg false d a).
Proof.
  intros [Hn Hv]. unfold show_arg. destruct (a_name a) as [n|].
  - apply Strips_app; [|apply Strips_val; exact Hv]. apply Strips_color_plain; [reflexivity|].
    apply esc_free_app. split; [exact Hn|reflexivity].
  - apply Strips_val. exact Hv.
Qed.

(* the text of a line, given how the numeric time fields are printed (digits, sign, point, blanks) *)
Definition seg_str (fmt : bool -> Z -> str) (s : seg) : str :=
  match s with Txt t => t | Time7 z => fmt true z | Time0 z => fmt false z | AnyText => [] end.
Definition line_str (fmt : bool -> Z -> str) (l : line) : str := flat_map (seg_str fmt) l.

Definition msg_clean (d : db) (m : rmsg) : Prop :=
  ref_clean d (m_obj m) /\ esc_free (m_name m) /\ Forall (arg_clean d) (m_args m) /\
  match m_destroyed m with Some r => ref_clean d r | None => True end.

(* C17 for message lines: for every message whose names are free of ESC (libwayland names are
   words) - arguments of every kind, enum labels, destroyed annotation, unresolved objects -, the
   coloured line stripped of escape sequences is character for character the uncoloured line, which
   contains no escape sequence *)
Lemma line_str_app fmt a b : line_str fmt (a ++ b) = line_str fmt a ++ line_str fmt b.
Proof. unfold line_str. apply flat_map_app. Qed.

Lemma Strips_body fmt d m :
  (forall b z, esc_free (fmt b z)) -> msg_clean d m ->
  Strips (line_str fmt (show_msg_body true d m)) (line_str fmt (show_msg_body false d m)).
Proof.
  intros Hfmt (Hobj & Hname & Hargs & Hdes).
  assert (TS : valid_code (s2l "2;37")) by reflexivity.
  unfold show_msg_body. rewrite !line_str_app. apply Strips_app; [|apply Strips_app].
  - unfold line_str. cbn [flat_map seg_str]. rewrite !app_nil_r.
    apply Strips_app; [destruct (m_sent m); [apply Strips_color_plain; reflexivity|apply Strips_nil]|].
    apply Strips_app; [apply Strips_ref; exact Hobj|].
    apply Strips_app; [apply Strips_color_plain; [reflexivity|]; change (46 :: m_name m) with ([46] ++ m_name m); apply esc_free_app; split; [reflexivity|exact Hname]|].
    apply Strips_app; [apply Strips_color_plain; reflexivity|].
    apply Strips_app; [|apply Strips_color_plain; reflexivity].
    apply Strips_intercalate; [apply Strips_color_plain; reflexivity|].
    induction Hargs as [|a l Ha _ IH]; cbn [map]; constructor; [apply Strips_arg; exact Ha|exact IH].
  - destruct (m_destroyed m) as [r|]; [|apply Strips_nil].
    rewrite !line_str_app. apply Strips_app.
    + unfold line_str. cbn [flat_map seg_str]. rewrite !app_nil_r.
      apply Strips_app; [apply Strips_color_plain; reflexivity|].
      apply Strips_app; [apply Strips_ref; exact Hdes|apply Strips_color_plain; reflexivity].
    + destruct (lifespan d r) as [l|]; [|apply Strips_nil].
      unfold line_str. cbn [flat_map seg_str app]. rewrite !app_nil_r.
      apply Strips_pre; [apply (Strips_csi _ TS)|].
      apply Strips_app; [apply Strips_plain; reflexivity|].
      apply Strips_app; [apply Strips_plain; apply Hfmt|].
      change (115 :: reset) with ([115] ++ reset).
      apply Strips_post; [apply Strips_plain; reflexivity|apply (Strips_csi [48]); reflexivity].
  - unfold line_str. cbn [flat_map seg_str]. rewrite !app_nil_r.
    destruct (m_sent m); [apply Strips_nil|apply Strips_color_plain; reflexivity].
Qed.

(* C17 for message lines: for every message whose names are free of ESC (libwayland names are
   words) - arguments of every kind, enum labels, destroyed annotation, unresolved objects -, the
   coloured line stripped of escape sequences is character for character the uncoloured line, which
   contains no escape sequence *)
Theorem show_msg_strips fmt d cn m :
  (forall b z, esc_free (fmt b z)) -> esc_free cn -> msg_clean d m ->
  Strips (line_str fmt (show_msg true d cn m)) (line_str fmt (show_msg false d cn m)).
Proof.
  intros Hfmt Hcn Hm.
  assert (TS : valid_code (s2l "2;37")) by reflexivity.
  unfold show_msg. rewrite !line_str_app. apply Strips_app; [|apply Strips_body; assumption].
  unfold line_str. cbn [flat_map seg_str app]. rewrite !app_nil_r.
  apply Strips_pre; [apply (Strips_csi _ TS)|].
  apply Strips_app; [apply Strips_plain; apply Hfmt|].
  apply Strips_pre; [apply (Strips_csi [48]); reflexivity|].
  apply Strips_plain.
  change (32 :: (match m_obj m with Resolved _ _ => cn | Unresolved _ _ => [] end) ++ s2l ": ")
    with ([32] ++ (match m_obj m with Resolved _ _ => cn | Unresolved _ _ => [] end) ++ s2l ": ").
  apply esc_free_app. split; [reflexivity|]. apply esc_free_app. split; [destruct (m_obj m); [exact Hcn|reflexivity]|reflexivity].
Qed.
