(* Proofs for the modelled part of C13. *)
From WD Require Import Base Runner ProtocolProofs.
From Coq Require Import Lia.
Open Scope N_scope.

Lemma env_get_set e k v k' : env_get (env_set e k v) k' = if str_eqb k k' then Some v else env_get e k'.
Proof.
  induction e as [|[a b] e IH]; cbn [env_set env_get].
  - destruct (str_eqb k k'); reflexivity.
  - destruct (str_eqb a k) eqn:E1; cbn [env_get].
    + apply str_eqb_eq in E1. subst a. destruct (str_eqb k k'); reflexivity.
    + destruct (str_eqb a k') eqn:E2.
      * destruct (str_eqb k k') eqn:E3; [|reflexivity]. apply str_eqb_eq in E2, E3. apply str_eqb_neq in E1. congruence.
      * exact IH.
Qed.

(* the program is started with its arguments verbatim, WAYLAND_DEBUG=1, its stdout untouched, and
   every other environment variable as it was *)
Theorem spawn_transparent args lib e :
  sp_argv (spawn_spec args lib e) = args /\
  env_get (sp_env (spawn_spec args lib e)) (s2l "WAYLAND_DEBUG") = Some [49] /\
  sp_stdout_inherited (spawn_spec args lib e) = true /\
  (forall k, k <> s2l "WAYLAND_DEBUG" -> k <> s2l "LD_LIBRARY_PATH" ->
             env_get (sp_env (spawn_spec args lib e)) k = env_get e k).
Proof.
  unfold spawn_spec. cbn [sp_argv sp_env sp_stdout_inherited]. repeat split.
  - rewrite env_get_set, str_eqb_refl. reflexivity.
  - intros k H1 H2. rewrite !env_get_set.
    destruct (str_eqb (s2l "WAYLAND_DEBUG") k) eqn:E1; [apply str_eqb_eq in E1; congruence|].
    destruct (str_eqb (s2l "LD_LIBRARY_PATH") k) eqn:E2; [apply str_eqb_eq in E2; congruence|]. reflexivity.
Qed.

(* however the bytes are split into writes, the same lines are read *)
Theorem chunking_irrelevant c1 c2 : List.concat c1 = List.concat c2 -> lines_of_chunks c1 = lines_of_chunks c2.
Proof. unfold lines_of_chunks. intros ->. reflexivity. Qed.

(* no byte is lost or invented by the reassembly *)
Lemma lines_go_concat s : forall cur, List.concat (lines_go s cur) = rev cur ++ s.
Proof.
  induction s as [|c s IH]; intros cur; cbn [lines_go].
  - destruct cur; cbn; [reflexivity|]. rewrite !app_nil_r. reflexivity.
  - destruct (N.eqb c 10).
    + cbn [List.concat rev]. rewrite IH. cbn. rewrite <- app_assoc. reflexivity.
    + rewrite IH. cbn [rev]. rewrite <- app_assoc. reflexivity.
Qed.
Theorem lines_concat s : List.concat (lines_of s) = s.
Proof. unfold lines_of. rewrite lines_go_concat. reflexivity. Qed.

Theorem exit_status_is_childs st eof : run_exit_status st eof = st.
Proof. reflexivity. Qed.
