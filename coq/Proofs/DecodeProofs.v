(* Proofs about the line decoder against libwayland's printer (C01). *)
From WD Require Import Base Wire Decode Render.
From Coq Require Import Lia.
Open Scope Z_scope.

(* a line without any `[` can not contain a message *)
Lemma match_at_needs_bracket out s : (match s with 91%N :: _ => False | _ => True end) -> match_at out s = None.
Proof. destruct s as [|c s]; [reflexivity|]. destruct c as [|p]; [reflexivity|]. intros H. unfold match_at.
  do 7 (destruct p as [p|p|]; try reflexivity). contradiction. Qed.

Theorem no_bracket_no_message out s : forall pos, forallb (fun c => negb (N.eqb c 91)) s = true -> search out s pos = None.
Proof.
  induction s as [|c s IH]; intros pos H; cbn [search].
  - reflexivity.
  - cbn [forallb] in H. apply andb_true_iff in H. destruct H as [Hc Hs].
    rewrite match_at_needs_bracket.
    + apply IH. exact Hs.
    + destruct c as [|p]; [exact I|]. do 7 (destruct p as [p|p|]; try exact I). discriminate.
Qed.
