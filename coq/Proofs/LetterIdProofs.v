(* Proofs about the bijective base-26 codec (C14, C04 names, C02 labels) *)
From WD Require Import Base LetterId.
From Coq Require Import Lia ZifyBool ZifyNat ZifyN.
Ltac Zify.zify_post_hook ::= Z.div_mod_to_equations.
Open Scope N_scope.

Definition lower_letters (s : str) : Prop := forallb is_lower s = true.

(* value of a letter word, least significant letter first *)
Fixpoint Trev (r : str) : N :=
  match r with
  | [] => 0
  | c :: r' => Trev r' * 26 + (c - 97) + 1
  end.

Definition Tval (s : str) : N := Trev (rev s).

Lemma is_lower_range c : is_lower c = true <-> 97 <= c <= 122.
Proof. unfold is_lower, in_range. lia. Qed.

Lemma Tval_snoc s c : Tval (s ++ [c]) = Tval s * 26 + (c - 97) + 1.
Proof. unfold Tval. rewrite rev_app_distr. reflexivity. Qed.

Lemma lower_letters_app a b :
  lower_letters (a ++ b) <-> lower_letters a /\ lower_letters b.
Proof. unfold lower_letters. rewrite forallb_app. rewrite andb_true_iff. tauto. Qed.

(* ---- l2n_loop computes Tval ------------------------------------------- *)
Lemma l2n_loop_app s : forall t c,
  l2n_loop t (s ++ [c]) =
  match l2n_loop t s with
  | Some u => if is_lower c then Some (u * 26 + (c - 97) + 1) else None
  | None => None
  end.
Proof.
  induction s as [|d s IH]; intros t c; cbn [l2n_loop app].
  - destruct (is_lower c); reflexivity.
  - destruct (is_lower d); [apply IH | reflexivity].
Qed.

Lemma l2n_loop_Tval s : lower_letters s -> l2n_loop 0 s = Some (Tval s).
Proof.
  induction s as [|c s IH] using rev_ind; intros H.
  - reflexivity.
  - apply lower_letters_app in H. destruct H as [Hs Hc].
    rewrite l2n_loop_app, (IH Hs), Tval_snoc.
    unfold lower_letters in Hc. cbn in Hc. rewrite andb_true_r in Hc. rewrite Hc.
    reflexivity.
Qed.

Lemma l2n_loop_some_letters s : forall t u, l2n_loop t s = Some u -> lower_letters s.
Proof.
  induction s as [|c s IH]; intros t u H; [reflexivity|].
  cbn [l2n_loop] in H. unfold lower_letters. cbn [forallb].
  destruct (is_lower c) eqn:E; [|discriminate].
  apply IH in H. exact H.
Qed.

(* ---- the printing loop ---------------------------------------------------- *)
Lemma n2l_loop_spec fuel : forall v acc,
  v < 2 ^ N.of_nat fuel ->
  exists s, n2l_loop fuel 97 v acc = s ++ acc /\ lower_letters s /\ Tval s = v
            /\ (v <> 0 -> s <> []).
Proof.
  induction fuel as [|f IH]; intros v acc Hv.
  - cbn in Hv. exists []. cbn. repeat split; try reflexivity; try lia.
  - cbn [n2l_loop]. destruct (v =? 0) eqn:E.
    + exists []. cbn. repeat split; try reflexivity; try lia.
    + assert (Hq : (v - 1) / 26 < 2 ^ N.of_nat f).
      { rewrite Nat2N.inj_succ, N.pow_succ_r' in Hv.
        set (P := 2 ^ N.of_nat f) in *. clearbody P. lia. }
      destruct (IH ((v - 1) / 26) (((v - 1) mod 26 + 97) :: acc) Hq)
        as (s & Hs & Hl & Ht & _).
      exists (s ++ [(v - 1) mod 26 + 97]). repeat split.
      * rewrite Hs, <- app_assoc. reflexivity.
      * apply lower_letters_app. split; [exact Hl|].
        unfold lower_letters. cbn. rewrite andb_true_r. apply is_lower_range. lia.
      * rewrite Tval_snoc, Ht. lia.
      * intros _ Hnil. destruct s; discriminate.
Qed.

Lemma n2l_fuel n : n + 1 < 2 ^ N.of_nat (S (N.to_nat (N.log2 (n + 1)))).
Proof.
  rewrite Nat2N.inj_succ, N2Nat.id.
  apply N.log2_spec. lia.
Qed.

Lemma n2l_lower_spec n :
  lower_letters (n2l false n) /\ Tval (n2l false n) = n + 1 /\ n2l false n <> [].
Proof.
  unfold n2l. cbn [letter_base].
  destruct (n2l_loop_spec _ (n + 1) [] (n2l_fuel n)) as (s & Hs & Hl & Ht & Hne).
  rewrite Hs, app_nil_r. repeat split; try assumption. apply Hne. lia.
Qed.

(* caps only changes the base *)
Lemma n2l_loop_caps fuel : forall v acc,
  lower (n2l_loop fuel 65 v acc) = n2l_loop fuel 97 v (lower acc).
Proof.
  induction fuel as [|f IH]; intros v acc; cbn [n2l_loop]; [reflexivity|].
  destruct (v =? 0); [reflexivity|].
  rewrite IH. f_equal. cbn [lower map]. f_equal.
  unfold lower_char, is_upper, in_range.
  assert ((v - 1) mod 26 < 26) by (apply N.mod_lt; lia).
  destruct ((65 <=? (v - 1) mod 26 + 65) && ((v - 1) mod 26 + 65 <=? 90)) eqn:E; lia.
Qed.

Lemma n2l_caps_lower n : lower (n2l true n) = n2l false n.
Proof. unfold n2l. cbn [letter_base]. rewrite n2l_loop_caps. reflexivity. Qed.

Lemma lower_letters_ascii s : lower_letters s -> all_ascii s = true.
Proof.
  unfold lower_letters, all_ascii. intros H. rewrite forallb_forall in *.
  intros c Hc. specialize (H c Hc). apply is_lower_range in H. unfold is_ascii. lia.
Qed.

Lemma lower_letters_lower s : lower_letters s -> lower s = s.
Proof.
  induction s as [|c s IH]; intros H; [reflexivity|].
  unfold lower_letters in H. cbn in H. apply andb_true_iff in H. destruct H as [Hc Hs].
  cbn [lower map]. fold (lower s). rewrite (IH Hs). f_equal.
  unfold lower_char, is_upper, in_range. apply is_lower_range in Hc.
  destruct ((65 <=? c) && (c <=? 90)) eqn:E; lia.
Qed.

Lemma all_ascii_caps n : all_ascii (n2l true n) = true.
Proof.
  (* every char is (v-1) mod 26 + 65 < 128; via the lowered word *)
  pose proof (n2l_caps_lower n) as H.
  destruct (n2l_lower_spec n) as (Hl & _ & _).
  rewrite <- H in Hl. clear H.
  unfold all_ascii. rewrite forallb_forall. intros c Hc.
  unfold lower_letters in Hl. rewrite forallb_forall in Hl.
  specialize (Hl (lower_char c)).
  assert (Hin : In (lower_char c) (lower (n2l true n))) by (apply in_map; exact Hc).
  specialize (Hl Hin). apply is_lower_range in Hl.
  unfold lower_char, is_upper, in_range in Hl. unfold is_ascii.
  destruct ((65 <=? c) && (c <=? 90)) eqn:E; lia.
Qed.

(* ---- round trip 1: letters -> number ------------------------------------- *)
Theorem l2n_n2l caps n :
  letter_id_to_number (n2l caps n) = Ok (Z.of_N n).
Proof.
  destruct (n2l_lower_spec n) as (Hl & Ht & Hne).
  unfold letter_id_to_number.
  assert (Hlow : lower (n2l caps n) = n2l false n).
  { destruct caps; [apply n2l_caps_lower | apply lower_letters_lower; exact Hl]. }
  assert (Hasc : all_ascii (n2l caps n) = true).
  { destruct caps; [apply all_ascii_caps | apply lower_letters_ascii; exact Hl]. }
  rewrite Hasc, Hlow. cbn [negb].
  destruct (n2l false n) as [|c s] eqn:E; [contradiction|].
  rewrite (l2n_loop_Tval _ Hl), Ht. f_equal. lia.
Qed.

(* ---- Trev is injective on letter words ------------------------------------ *)
Lemma Trev_inj r1 : forall r2,
  lower_letters r1 -> lower_letters r2 -> Trev r1 = Trev r2 -> r1 = r2.
Proof.
  induction r1 as [|c r1 IH]; intros [|d r2] H1 H2 HT; cbn [Trev] in HT.
  - reflexivity.
  - lia.
  - lia.
  - unfold lower_letters in H1, H2. cbn [forallb] in H1, H2.
    apply andb_true_iff in H1, H2. destruct H1 as [Hc H1], H2 as [Hd H2].
    apply is_lower_range in Hc, Hd.
    assert (Trev r1 = Trev r2 /\ c = d) as [HT' Hcd] by lia.
    subst d. f_equal. apply IH; assumption.
Qed.

Lemma lower_letters_rev s : lower_letters s -> lower_letters (rev s).
Proof.
  unfold lower_letters. rewrite !forallb_forall. intros H c Hc. apply H.
  apply in_rev. exact Hc.
Qed.

Lemma Tval_inj s1 s2 :
  lower_letters s1 -> lower_letters s2 -> Tval s1 = Tval s2 -> s1 = s2.
Proof.
  intros H1 H2 HT. unfold Tval in HT.
  apply Trev_inj in HT; try (apply lower_letters_rev; assumption).
  rewrite <- (rev_involutive s1), <- (rev_involutive s2), HT. reflexivity.
Qed.

Lemma Tval_pos s : s <> [] -> 0 < Tval s.
Proof.
  intros H. destruct s as [|c s] using rev_ind; [contradiction|].
  rewrite Tval_snoc. lia.
Qed.

(* ---- round trip 2: number -> letters, onto every non-empty lower word ---- *)
Theorem n2l_l2n s k :
  s <> [] -> lower_letters s ->
  letter_id_to_number s = Ok k -> n2l false (Z.to_N k) = s /\ (0 <= k)%Z.
Proof.
  intros Hne Hl H. unfold letter_id_to_number in H.
  rewrite (lower_letters_ascii _ Hl), (lower_letters_lower _ Hl) in H. cbn [negb] in H.
  destruct s as [|c s'] eqn:Es; [contradiction|]. rewrite <- Es in *.
  rewrite (l2n_loop_Tval _ Hl) in H.
  assert (Hk : k = (Z.of_N (Tval s) - 1)%Z) by (rewrite Es in H |- *; congruence).
  pose proof (Tval_pos s Hne) as Hp.
  split; [|lia].
  destruct (n2l_lower_spec (Z.to_N k)) as (Hl' & Ht' & _).
  apply Tval_inj; try assumption. rewrite Ht'. lia.
Qed.

Theorem n2l_inj caps n m : n2l caps n = n2l caps m -> n = m.
Proof.
  intros H. pose proof (l2n_n2l caps n) as A. pose proof (l2n_n2l caps m) as B.
  rewrite H in A. rewrite A in B. injection B. lia.
Qed.

(* ---- a, b, ..., z, aa, ab, ...: the successor is the odometer step ------- *)
Fixpoint incr_rev (r : str) : str :=
  match r with
  | [] => [97]
  | c :: r' => if c =? 122 then 97 :: incr_rev r' else (c + 1) :: r'
  end.
Definition incr (s : str) : str := rev (incr_rev (rev s)).

Lemma incr_rev_spec r :
  lower_letters r -> lower_letters (incr_rev r) /\ Trev (incr_rev r) = Trev r + 1.
Proof.
  induction r as [|c r IH]; intros H.
  - split; reflexivity.
  - unfold lower_letters in H. cbn [forallb] in H. apply andb_true_iff in H.
    destruct H as [Hc Hr]. apply is_lower_range in Hc.
    cbn [incr_rev]. destruct (c =? 122) eqn:E.
    + destruct (IH Hr) as [Hl Ht]. split.
      * unfold lower_letters. cbn [forallb]. rewrite Hl. reflexivity.
      * cbn [Trev]. rewrite Ht. lia.
    + split.
      * unfold lower_letters. cbn [forallb]. rewrite Hr, andb_true_r.
        apply is_lower_range. lia.
      * cbn [Trev]. lia.
Qed.

Theorem n2l_succ n : n2l false (n + 1) = incr (n2l false n).
Proof.
  destruct (n2l_lower_spec n) as (Hl & Ht & _).
  destruct (n2l_lower_spec (n + 1)) as (Hl1 & Ht1 & _).
  destruct (incr_rev_spec (rev (n2l false n)) (lower_letters_rev _ Hl)) as [Hli Hti].
  apply Tval_inj; try assumption.
  - unfold incr. apply lower_letters_rev. exact Hli.
  - rewrite Ht1. unfold incr, Tval. rewrite rev_involutive, Hti.
    change (Trev (rev (n2l false n))) with (Tval (n2l false n)). lia.
Qed.

Theorem n2l_zero : n2l false 0 = [97].
Proof. reflexivity. Qed.

(* same for connection names *)
Theorem n2l_caps_inj n m : conn_name n = conn_name m -> n = m.
Proof. apply n2l_inj. Qed.

(* ---- decimal printing ------------------------------------------------------ *)
Lemma n_digits_rev_spec fuel : forall n,
  n < 2 ^ N.of_nat fuel ->
  forallb is_digit (n_digits_rev fuel n) = true /\
  dec_value (rev (n_digits_rev fuel n)) = n.
Proof.
  induction fuel as [|f IH]; intros n Hn.
  - cbn in Hn. assert (n = 0) by lia. subst. split; reflexivity.
  - cbn [n_digits_rev]. destruct (n <? 10) eqn:E.
    + split.
      * cbn [forallb]. rewrite andb_true_r. unfold is_digit, in_range, digit_char. lia.
      * cbn [rev app]. unfold dec_value. cbn [dec_value_acc]. unfold digit_char. lia.
    + assert (Hq : n / 10 < 2 ^ N.of_nat f).
      { rewrite Nat2N.inj_succ, N.pow_succ_r' in Hn.
        set (P := 2 ^ N.of_nat f) in *. clearbody P. lia. }
      destruct (IH _ Hq) as [Hd Hv]. split.
      * cbn [forallb]. rewrite Hd, andb_true_r.
        unfold is_digit, in_range, digit_char. lia.
      * cbn [rev]. unfold dec_value in *.
        assert (G : forall a s c, dec_value_acc a (s ++ [c]) = dec_value_acc a s * 10 + (c - 48)).
        { intros a s; revert a. induction s as [|d s IHs]; intros a c; cbn; [reflexivity|apply IHs]. }
        rewrite G, Hv. unfold digit_char. lia.
Qed.

Lemma n_to_dec_spec n :
  forallb is_digit (n_to_dec n) = true /\ dec_value (n_to_dec n) = n.
Proof.
  unfold n_to_dec.
  assert (Hf : n < 2 ^ N.of_nat (S (N.to_nat (N.log2 n)))).
  { rewrite Nat2N.inj_succ, N2Nat.id. destruct (N.eq_dec n 0) as [->|Hz]; [reflexivity|].
    apply N.log2_spec. lia. }
  destruct (n_digits_rev_spec _ n Hf) as [Hd Hv]. split; [|exact Hv].
  rewrite forallb_forall in *. intros c Hc. apply Hd. apply in_rev. exact Hc.
Qed.

Lemma n_to_dec_nonempty n : n_to_dec n <> [].
Proof.
  unfold n_to_dec. cbn [n_digits_rev]. intros H.
  apply (f_equal (@List.length char)) in H. rewrite rev_length in H.
  destruct (n <? 10); cbn [List.length] in H; discriminate.
Qed.

(* z_to_dec for positive ids is a non-empty word of digits *)
Lemma z_to_dec_pos_digits z :
  (0 <= z)%Z -> forallb is_digit (z_to_dec z) = true /\ dec_value (z_to_dec z) = Z.to_N z.
Proof.
  intros H. destruct z as [|p|p]; [split; reflexivity| |lia].
  cbn [z_to_dec]. destruct (n_to_dec_spec (Npos p)) as [A B]. split; [exact A|].
  rewrite B. reflexivity.
Qed.

(* splitting digits ++ letters is unambiguous *)
Lemma digits_letters_split d1 : forall d2 l1 l2,
  forallb is_digit d1 = true -> forallb is_digit d2 = true ->
  lower_letters l1 -> lower_letters l2 ->
  d1 ++ l1 = d2 ++ l2 -> d1 = d2 /\ l1 = l2.
Proof.
  assert (X : forall c, is_digit c = true -> is_lower c = true -> False).
  { intros c A B. unfold is_digit, is_lower, in_range in *. lia. }
  induction d1 as [|c d1 IH]; intros d2 l1 l2 H1 H2 L1 L2 E.
  - destruct d2 as [|d d2]; [split; [reflexivity|exact E]|].
    cbn [app] in E. subst l1. exfalso. cbn [forallb] in H2. apply andb_true_iff in H2.
    unfold lower_letters in L1. cbn [forallb] in L1. apply andb_true_iff in L1.
    apply (X d); tauto.
  - destruct d2 as [|d d2].
    + cbn [app] in E. subst l2. exfalso. cbn [forallb] in H1. apply andb_true_iff in H1.
      unfold lower_letters in L2. cbn [forallb] in L2. apply andb_true_iff in L2.
      apply (X c); tauto.
    + cbn [app] in E. injection E as -> E. cbn [forallb] in H1, H2.
      apply andb_true_iff in H1, H2. destruct H1 as [_ H1], H2 as [_ H2].
      destruct (IH d2 l1 l2 H1 H2 L1 L2 E) as [Ed El]. subst. split; reflexivity.
Qed.

(* displayed labels determine (id, generation) *)
Theorem label_inj id1 g1 id2 g2 :
  (0 <= id1)%Z -> (0 <= id2)%Z ->
  id_label id1 g1 = id_label id2 g2 -> id1 = id2 /\ g1 = g2.
Proof.
  intros P1 P2 E. unfold id_label in E.
  destruct (z_to_dec_pos_digits id1 P1) as [D1 V1].
  destruct (z_to_dec_pos_digits id2 P2) as [D2 V2].
  destruct (n2l_lower_spec g1) as (L1 & _ & _).
  destruct (n2l_lower_spec g2) as (L2 & _ & _).
  destruct (digits_letters_split _ _ _ _ D1 D2 L1 L2 E) as [Ed El].
  split; [|apply (n2l_inj false); exact El].
  rewrite Ed in V1. rewrite V1 in V2. lia.
Qed.
