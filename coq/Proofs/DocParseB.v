(* DocParseB.v — T1 stage B: the atoms.  Character classes of rendered atoms, py_int / py_float on
   rendered numbers, parse_text_matcher / parse_obj_id_matcher / parse_obj_matcher /
   parse_arg_value_matcher on rendered non-list atoms. *)
From WD Require Import Base Wire Conn Color LetterId Matcher MatcherParse Doc.
From WD Require Import LetterIdProofs DecodeBasics ColorProofs ProtocolProofs MatcherProofs DocParseA.
From Coq Require Import Lia ZifyBool ZifyNat ZifyN.
Open Scope N_scope.

Ltac ccx := unfold ident_char, is_ident_char, float_charset, str_char_ok, is_brace, is_space, is_word,
  is_ascii, is_letter, is_digit, is_lower, is_upper, in_range in *; lia.

(* ---- small string facts ---------------------------------------------------------------------------- *)
Lemma str_eqb_cons_ne (c d : char) (a b : str) : c <> d -> str_eqb (c :: a) (d :: b) = false.
Proof. intros H. unfold str_eqb. cbn [list_eqb]. apply N.eqb_neq in H. rewrite H. reflexivity. Qed.

Lemma str_eqb_cons_nil c a : str_eqb (c :: a) [] = false.
Proof. reflexivity. Qed.

Lemma starts_with_1_ne (c d : char) (s : str) : c <> d -> starts_with [c] (d :: s) = false.
Proof. intros H. cbn [starts_with]. apply N.eqb_neq in H. rewrite H. reflexivity. Qed.

Lemma bracketed_ne (c : char) (s : str) : c <> 91 -> bracketed (c :: s) = false.
Proof. intros H. unfold bracketed. rewrite starts_with_1_ne by congruence. reflexivity. Qed.

Lemma ends_with_snoc (c : char) (s : str) : ends_with [c] (s ++ [c]) = true.
Proof. unfold ends_with. rewrite rev_app_distr. cbn [rev app starts_with]. rewrite N.eqb_refl. reflexivity. Qed.

Lemma bracket_eq s pad : bracket s pad = (91 :: pad ++ s ++ pad) ++ [93].
Proof. unfold bracket. cbn [app]. rewrite <- !app_assoc. reflexivity. Qed.

Lemma bracketed_bracket s pad : bracketed (bracket s pad) = true.
Proof.
  unfold bracketed. rewrite bracket_eq at 2. rewrite ends_with_snoc. reflexivity.
Qed.

Lemma strip_ends_bracket s pad : strip_ends (bracket s pad) = pad ++ s ++ pad.
Proof.
  rewrite bracket_eq. unfold strip_ends. cbn [app tl]. rewrite removelast_last. reflexivity.
Qed.

(* ---- sign splitting as a function ------------------------------------------------------------------- *)
Definition sign_split (t : str) : bool * str :=
  match t with
  | 45 :: r => (true, r)
  | 43 :: r => (false, r)
  | _ => (false, t)
  end.

Lemma sign_split_other (c : char) (r : str) : c <> 45 -> c <> 43 -> sign_split (c :: r) = (false, c :: r).
Proof. intros H1 H2. unfold sign_split. char_cases c. Qed.

Lemma py_int_unfold text : py_int text =
  if negb (all_ascii text) then Raise OutOfModel [] else
  let '(neg, body) := sign_split (strip text) in
  match body with
  | [] => Raise ValueError []
  | c :: _ =>
      if is_digit c && int_body_ok false body then
        let n := dec_value (filter is_digit body) in
        Ok (if neg then (- Z.of_N n)%Z else Z.of_N n)
      else Raise ValueError []
  end.
Proof. reflexivity. Qed.

Lemma int_body_ok_digits s : forall b, forallb is_digit s = true -> (s <> [] \/ b = true) -> int_body_ok b s = true.
Proof.
  induction s as [|c s IH]; intros b H Hb.
  - destruct Hb as [Hb|Hb]; [congruence|exact Hb].
  - cbn [forallb] in H. apply andb_true_iff in H. destruct H as [H1 H2].
    cbn [int_body_ok]. rewrite H1. apply IH; auto.
Qed.

Lemma int_body_ok_stop (a : str) (c : char) (r : str) : forall b, forallb is_digit a = true -> is_digit c = false -> c <> 95 ->
  int_body_ok b (a ++ c :: r) = false.
Proof.
  induction a as [|x a IH]; intros b H Hc H95.
  - cbn [app int_body_ok]. rewrite Hc. apply N.eqb_neq in H95. rewrite H95. reflexivity.
  - cbn [forallb] in H. apply andb_true_iff in H. destruct H as [H1 H2].
    cbn [app int_body_ok]. rewrite H1. apply IH; auto.
Qed.

Lemma filter_all {A} (p : A -> bool) l : forallb p l = true -> filter p l = l.
Proof.
  induction l as [|x l IH]; [reflexivity|]. cbn [forallb filter]. intros H.
  apply andb_true_iff in H. destruct H as [H1 H2]. rewrite H1, (IH H2). reflexivity.
Qed.

Lemma digits_nonblank s : forallb is_digit s = true -> nonblank_all s = true.
Proof. unfold nonblank_all. apply forallb_impl. intros c H. ccx. Qed.

Lemma py_int_digits s : s <> [] -> forallb is_digit s = true -> py_int s = Ok (Z.of_N (dec_value s)).
Proof.
  intros Hn Hd. rewrite py_int_unfold. rewrite (digits_all_ascii s Hd). cbn [negb].
  rewrite (strip_nonblank_all s (digits_nonblank s Hd)).
  destruct s as [|c s]; [congruence|].
  assert (Hc : is_digit c = true) by (cbn [forallb] in Hd; apply andb_true_iff in Hd; tauto).
  rewrite sign_split_other by ccx. cbv beta match.
  rewrite Hc, (int_body_ok_digits (c :: s) false Hd) by (left; discriminate).
  cbn [andb]. rewrite (filter_all _ _ Hd). reflexivity.
Qed.

Lemma py_int_neg_digits (s : str) : s <> [] -> forallb is_digit s = true -> py_int (45 :: s) = Ok (- Z.of_N (dec_value s))%Z.
Proof.
  intros Hn Hd. rewrite py_int_unfold.
  assert (Ha : all_ascii (45 :: s) = true).
  { unfold all_ascii. cbn [forallb]. fold (all_ascii s). rewrite (digits_all_ascii s Hd). reflexivity. }
  rewrite Ha. cbn [negb].
  assert (Hs : strip (45 :: s) = 45 :: s).
  { apply strip_nonblank_all. unfold nonblank_all. cbn [forallb]. fold (nonblank_all s).
    rewrite (digits_nonblank s Hd). reflexivity. }
  rewrite Hs. unfold sign_split. cbv beta match.
  destruct s as [|c s]; [congruence|].
  assert (Hc : is_digit c = true) by (cbn [forallb] in Hd; apply andb_true_iff in Hd; tauto).
  rewrite Hc, (int_body_ok_digits (c :: s) false Hd) by (left; discriminate).
  cbn [andb]. rewrite (filter_all _ _ Hd). reflexivity.
Qed.

Lemma py_int_z_to_dec z : py_int (z_to_dec z) = Ok z.
Proof.
  destruct z as [|p|p].
  - reflexivity.
  - cbn [z_to_dec]. rewrite py_int_digits; [|apply n_to_dec_nonempty|apply n_to_dec_digits].
    rewrite n_to_dec_value. reflexivity.
  - cbn [z_to_dec]. rewrite py_int_neg_digits; [|apply n_to_dec_nonempty|apply n_to_dec_digits].
    rewrite n_to_dec_value. reflexivity.
Qed.

(* the characters of z_to_dec *)
Definition num_char (c : char) : bool := is_digit c || N.eqb c 45.
Lemma z_to_dec_chars z : forallb num_char (z_to_dec z) = true.
Proof.
  assert (D : forall n, forallb num_char (n_to_dec n) = true).
  { intros n. apply (forallb_impl is_digit); [|apply n_to_dec_digits]. intros c H. unfold num_char. rewrite H. reflexivity. }
  destruct z as [|p|p]; [reflexivity|apply D|]. cbn [z_to_dec forallb]. rewrite D. reflexivity.
Qed.

Lemma z_to_dec_first z : exists c r, z_to_dec z = c :: r /\ num_char c = true.
Proof.
  pose proof (z_to_dec_chars z) as H. destruct (z_to_dec z) as [|c r] eqn:E.
  - exfalso. destruct z as [|p|p]; [discriminate| |discriminate]. exact (n_to_dec_nonempty _ E).
  - exists c, r. split; [reflexivity|]. cbn [forallb] in H. apply andb_true_iff in H. tauto.
Qed.

Lemma z_to_dec_nonneg_first z : (0 <= z)%Z -> exists c r, z_to_dec z = c :: r /\ is_digit c = true /\ forallb is_digit r = true.
Proof.
  intros Hz. destruct (z_to_dec_pos_digits z Hz) as [H _]. destruct (z_to_dec z) as [|c r] eqn:E.
  - exfalso. destruct z as [|p|p]; [discriminate| |discriminate]. exact (n_to_dec_nonempty _ E).
  - exists c, r. split; [reflexivity|]. cbn [forallb] in H. apply andb_true_iff in H. exact H.
Qed.

Lemma parse_int_matcher_z z : parse_int_matcher (z_to_dec z) = Ok (MEqZ z (z_to_dec z)).
Proof.
  unfold parse_int_matcher. destruct (z_to_dec_first z) as [c [r [E Hc]]].
  assert (E1 : str_eqb (z_to_dec z) [42] = false).
  { rewrite E. apply str_eqb_cons_ne. unfold num_char in Hc. ccx. }
  assert (E2 : str_eqb (z_to_dec z) [] = false) by (rewrite E; reflexivity).
  rewrite E1, E2. cbn [orb]. rewrite py_int_z_to_dec. reflexivity.
Qed.

(* ---- py_int / py_float failing with ValueError ------------------------------------------------------- *)
Lemma py_int_bad (text : str) (c : char) (r : str) :
  all_ascii text = true -> strip text = text -> text = c :: r ->
  is_digit c = false -> c <> 45 -> c <> 43 -> py_int text = Raise ValueError [].
Proof.
  intros Ha Hs E Hd H1 H2. rewrite py_int_unfold, Ha, Hs, E. cbn [negb].
  rewrite sign_split_other by assumption. cbv beta match. rewrite Hd. reflexivity.
Qed.

Lemma pim_of_value_error (text : str) : str_eqb text [42] = false -> str_eqb text [] = false ->
  py_int text = Raise ValueError [] -> parse_int_matcher text = Raise RuntimeError [].
Proof. intros H1 H2 H3. unfold parse_int_matcher. rewrite H1, H2, H3. reflexivity. Qed.

Lemma py_float_unfold text : py_float text =
  if negb (all_ascii text) then Raise OutOfModel [] else
  let t := strip text in
  let '(neg, body) := sign_split t in
  let lw := lower body in
  if str_eqb lw (s2l "inf") || str_eqb lw (s2l "infinity") || str_eqb lw (s2l "nan") then Raise OutOfModel []
  else if negb (forallb float_charset t) then Raise ValueError []
  else
    let ip := take_while is_digit body in
    let rest := drop_while is_digit body in
    let '(fp, tail) := match rest with
                       | 46 :: r => (take_while is_digit r, drop_while is_digit r)
                       | _ => ([], rest) end in
    match tail, ip ++ fp with
    | [], _ :: _ =>
        let digits := ip ++ fp in
        let sig := drop_while (N.eqb 48) digits in
        if Nat.ltb 15 (List.length sig) then Raise OutOfModel []
        else
          let m := Z.of_N (dec_value digits) in
          let d := mkDec (if neg then (- m)%Z else m) (N.of_nat (List.length fp)) in
          if (m =? 0)%Z then Ok d
          else if Nat.ltb 16 (List.length (drop_while (N.eqb 48) ip)) then Raise OutOfModel []
          else match ip with
               | _ => if (Z.of_N (dec_value ip) =? 0)%Z &&
                         Nat.leb 4 (List.length (take_while (N.eqb 48) fp))
                      then Raise OutOfModel [] else Ok d
               end
    | [], [] => if forallb float_charset t then
                  (match t with [] => Raise ValueError [] | _ =>
                   if forallb (fun c => N.eqb c 46 || N.eqb c 43 || N.eqb c 45) t then Raise ValueError []
                   else Raise OutOfModel [] end)
                else Raise ValueError []
    | _, _ => Raise OutOfModel []
    end.
Proof. reflexivity. Qed.

Definition inf_like (body : str) : bool :=
  str_eqb (lower body) (s2l "inf") || str_eqb (lower body) (s2l "infinity") || str_eqb (lower body) (s2l "nan").

Lemma py_float_bad (text : str) (c : char) (r : str) :
  all_ascii text = true -> strip text = text -> text = c :: r -> c <> 45 -> c <> 43 ->
  inf_like text = false -> forallb float_charset text = false -> py_float text = Raise ValueError [].
Proof.
  intros Ha Hs E H1 H2 Hi Hf. rewrite py_float_unfold, Ha, Hs. cbn [negb]. cbv zeta.
  rewrite E, sign_split_other by assumption. cbv beta match. rewrite <- E.
  unfold inf_like in Hi. rewrite Hi, Hf. reflexivity.
Qed.

Lemma pfm_of_value_error (text : str) : py_float text = Raise ValueError [] -> parse_float_matcher text = Raise RuntimeError [].
Proof. intros H. unfold parse_float_matcher. rewrite H. reflexivity. Qed.

Lemma inf_like_first (c : char) (r : str) : lower_char c <> 105 -> lower_char c <> 110 -> inf_like (c :: r) = false.
Proof.
  intros H1 H2. unfold inf_like. norm_lits. unfold lower. cbn [map].
  rewrite !str_eqb_cons_ne by assumption. reflexivity.
Qed.

(* ---- py_float on a rendered float ---------------------------------------------------------------------- *)
Definition float_char (c : char) : bool := is_digit c || N.eqb c 45 || N.eqb c 46.

Lemma r_float_chars n ip fp : forallb is_digit ip = true -> forallb is_digit fp = true ->
  forallb float_char (r_float n ip fp) = true.
Proof.
  intros Hi Hf. unfold r_float.
  assert (D : forall s, forallb is_digit s = true -> forallb float_char s = true).
  { intros s. apply forallb_impl. intros c H. unfold float_char. rewrite H. reflexivity. }
  rewrite !forallb_app, (D ip Hi). cbn [forallb]. rw (D fp Hf). destruct n; reflexivity.
Qed.

Lemma float_nonblank s : forallb float_char s = true -> nonblank_all s = true.
Proof. unfold nonblank_all. apply forallb_impl. intros c H. unfold float_char in H. ccx. Qed.

Lemma sign_split_r_float n (c : char) (ip fp : str) : is_digit c = true ->
  sign_split (r_float n (c :: ip) fp) = (n, (c :: ip) ++ 46 :: fp).
Proof.
  intros Hc. unfold r_float. destruct n; cbn [app].
  - reflexivity.
  - apply sign_split_other; ccx.
Qed.

Lemma py_float_r_float n ip fp d : ip <> [] -> fp <> [] ->
  forallb is_digit ip = true -> forallb is_digit fp = true ->
  py_float (r_float n ip fp) = Ok d -> d = float_of n ip fp.
Proof.
  intros Hin Hfn Hi Hf H. rewrite py_float_unfold in H.
  destruct (negb (all_ascii (r_float n ip fp))); [discriminate|].
  rewrite (strip_nonblank_all _ (float_nonblank _ (r_float_chars n ip fp Hi Hf))) in H.
  cbv zeta in H.
  destruct ip as [|c ip]; [congruence|].
  assert (Hc : is_digit c = true) by (cbn [forallb] in Hi; apply andb_true_iff in Hi; tauto).
  rewrite (sign_split_r_float n c ip fp Hc) in H. cbv beta match in H.
  match type of H with (if ?b then _ else _) = _ => destruct b; [discriminate|] end.
  match type of H with (if ?b then _ else _) = _ => destruct b; [discriminate|] end.
  rw (take_while_app_stop is_digit (c :: ip) 46 fp Hi eq_refl) in H.
  rw (drop_while_app_stop is_digit (c :: ip) 46 fp Hi eq_refl) in H.
  cbv beta match in H.
  rw (take_while_all is_digit fp Hf) in H. rw (drop_while_all is_digit fp Hf) in H.
  cbn [app] in H. cbv beta match in H.
  match type of H with (if ?b then _ else _) = _ => destruct b; [discriminate|] end.
  unfold float_of. cbn [app].
  match type of H with (if ?b then _ else _) = _ => destruct b; [injection H as <-; reflexivity|] end.
  match type of H with (if ?b then _ else _) = _ => destruct b; [discriminate|] end.
  match type of H with (if ?b then _ else _) = _ => destruct b; [discriminate|] end.
  injection H as <-. reflexivity.
Qed.

Lemma py_int_r_float n ip fp : ip <> [] ->
  forallb is_digit ip = true -> forallb is_digit fp = true ->
  py_int (r_float n ip fp) = Raise ValueError [].
Proof.
  intros Hin Hi Hf. rewrite py_int_unfold.
  assert (Ha : all_ascii (r_float n ip fp) = true).
  { unfold all_ascii. apply (forallb_impl float_char); [|apply r_float_chars; assumption].
    intros c H. unfold float_char in H. ccx. }
  rewrite Ha. cbn [negb].
  rewrite (strip_nonblank_all _ (float_nonblank _ (r_float_chars n ip fp Hi Hf))).
  destruct ip as [|c ip]; [congruence|].
  assert (Hc : is_digit c = true) by (cbn [forallb] in Hi; apply andb_true_iff in Hi; tauto).
  rewrite (sign_split_r_float n c ip fp Hc). cbv beta match. cbn [app].
  change (c :: ip ++ 46 :: fp) with ((c :: ip) ++ 46 :: fp).
  assert (Q : int_body_ok false ((c :: ip) ++ 46 :: fp) = false) by (apply int_body_ok_stop; [exact Hi|reflexivity|discriminate]).
  rw Q.
  rewrite andb_false_r. reflexivity.
Qed.

(* ---- words ---------------------------------------------------------------------------------------------- *)
Lemma ident_char_same c : is_ident_char c = ident_char c.
Proof. unfold is_ident_char, ident_char. destruct (is_letter c), (is_digit c), (N.eqb c 42), (N.eqb c 45), (N.eqb c 95); reflexivity. Qed.

Lemma ident_all_ascii w : forallb ident_char w = true -> all_ascii w = true.
Proof. unfold all_ascii. apply forallb_impl. intros c H. ccx. Qed.

Lemma ident_nonblank w : forallb ident_char w = true -> nonblank_all w = true.
Proof. unfold nonblank_all. apply forallb_impl. intros c H. ccx. Qed.

Lemma ptm_word rec (w : str) : w <> [] -> forallb ident_char w = true ->
  parse_text_matcher rec w = Ok (str_matcher w).
Proof.
  intros Hn Hw. destruct w as [|c r]; [congruence|].
  assert (Hc : ident_char c = true) by (cbn [forallb] in Hw; apply andb_true_iff in Hw; tauto).
  unfold parse_text_matcher. rewrite bracketed_ne by ccx. unfold identifier_matcher.
  assert (E : forallb is_ident_char (c :: r) = true).
  { revert Hw. apply forallb_impl. intros x Hx. rewrite ident_char_same. exact Hx. }
  rewrite E. reflexivity.
Qed.

Lemma ptm_empty rec : parse_text_matcher rec [] = Ok (MAlways true).
Proof. reflexivity. Qed.

Lemma wf_word_inv w : wf_word w = true ->
  exists (c : char) (r : str), w = c :: r /\ (is_letter c || N.eqb c 95) = true /\ forallb ident_char w = true
    /\ str_eqb w (s2l "nil") = false /\ inf_like w = false.
Proof.
  unfold wf_word. destruct w as [|c r]; [discriminate|]. intros H.
  repeat (apply andb_true_iff in H; let H' := fresh "K" in destruct H as [H H']).
  exists c, r. split; [reflexivity|]. split; [exact H|]. split; [exact K3|].
  apply negb_true_iff in K, K0, K1, K2. split; [exact K2|].
  unfold inf_like. rewrite K1, K, K0. reflexivity.
Qed.

Lemma wf_tword_inv w : wf_tword w = true -> w <> [] /\ forallb ident_char w = true.
Proof.
  unfold wf_tword. intros H. apply orb_true_iff in H. destruct H as [H|H].
  - apply str_eqb_eq in H. subst. split; [discriminate|reflexivity].
  - destruct (wf_word_inv w H) as [c [r [E [_ [Hi _]]]]]. split; [rewrite E; discriminate|exact Hi].
Qed.

Lemma ptm_tword rec w : wf_tword w = true -> parse_text_matcher rec w = Ok (str_matcher w).
Proof. intros H. destruct (wf_tword_inv w H) as [H1 H2]. apply ptm_word; assumption. Qed.

(* ---- object ids ------------------------------------------------------------------------------------------ *)
Lemma letters_ascii l : forallb is_letter l = true -> all_ascii l = true.
Proof. unfold all_ascii. apply forallb_impl. intros c H. ccx. Qed.

Lemma lower_letters_of l : forallb is_letter l = true -> lower_letters (lower l).
Proof.
  unfold lower_letters, lower. induction l as [|c l IH]; intros H; [reflexivity|].
  cbn [forallb map] in *. apply andb_true_iff in H. destruct H as [H1 H2]. rewrite (IH H2), andb_true_r.
  unfold lower_char. destruct (is_upper c) eqn:E; ccx.
Qed.

Lemma letter_id_ok (l : str) : l <> [] -> forallb is_letter l = true ->
  exists g, letter_id_to_number l = Ok g.
Proof.
  intros Hn Hl. unfold letter_id_to_number. rewrite (letters_ascii l Hl). cbn [negb].
  rewrite (l2n_loop_Tval _ (lower_letters_of l Hl)).
  destruct l as [|c r]; [congruence|]. unfold lower. cbn [map]. eexists. reflexivity.
Qed.

Lemma trailing_letters_split (ds l : str) : ds <> [] -> forallb is_digit ds = true -> forallb is_letter l = true ->
  trailing_letters (ds ++ l) = (ds, l).
Proof.
  intros Hn Hd Hl. unfold trailing_letters. rewrite rev_app_distr.
  destruct (rev ds) as [|c r] eqn:E.
  - exfalso. apply (f_equal (@rev char)) in E. rewrite rev_involutive in E. cbn in E. congruence.
  - assert (Hr : forallb is_digit (c :: r) = true) by (rewrite <- E, forallb_rev; exact Hd).
    assert (Hc : is_letter c = false).
    { cbn [forallb] in Hr. apply andb_true_iff in Hr. destruct Hr as [Hr _]. ccx. }
    assert (Hl' : forallb is_letter (rev l) = true) by (rewrite forallb_rev; exact Hl).
    rw (take_while_app_stop is_letter (rev l) c r Hl' Hc).
    rw (drop_while_app_stop is_letter (rev l) c r Hl' Hc).
    rewrite <- E, !rev_involutive. reflexivity.
Qed.

Lemma pim_digits id : (0 <= id)%Z -> parse_int_matcher (z_to_dec id) = Ok (MEqZ id (z_to_dec id)).
Proof. intros _. apply parse_int_matcher_z. Qed.

Definition id_inner (id : Z) (l : str) : mt :=
  MPair (MEqZ id (z_to_dec id)) [] (match l with [] => MAlways true | _ => MEqZ (letters_value l) l end).

Lemma poim_id id (l : str) : (0 <= id)%Z -> wf_letters l = true ->
  parse_obj_id_matcher (z_to_dec id ++ l) = Ok (id_inner id l).
Proof.
  intros Hid Hl. unfold wf_letters in Hl. unfold parse_obj_id_matcher.
  destruct (z_to_dec_nonneg_first id Hid) as [c [r [E [Hc Hr]]]].
  assert (Hd : forallb is_digit (z_to_dec id) = true) by (rewrite E; cbn [forallb]; rewrite Hc, Hr; reflexivity).
  assert (Enil : str_eqb (z_to_dec id ++ l) (s2l "nil") = false).
  { rewrite E. norm_lits. cbn [app]. apply str_eqb_cons_ne. ccx. }
  rewrite Enil. rewrite trailing_letters_split; [|rewrite E; discriminate|exact Hd|exact Hl].
  unfold id_inner. destruct l as [|x l'].
  - rewrite app_nil_r, parse_int_matcher_z. reflexivity.
  - rewrite parse_int_matcher_z. cbn [bind].
    destruct (letter_id_ok (x :: l')) as [g Hg]; [discriminate|exact Hl|].
    unfold letters_value. rewrite Hg. reflexivity.
Qed.

(* ---- plain (bracket- and delimiter-free) atoms -------------------------------------------------------- *)
Lemma ident_plain (d : char) w : ident_char d = false -> forallb ident_char w = true -> plain_for d w = true.
Proof.
  intros Hd. unfold plain_for. apply forallb_impl. intros c Hc.
  assert (H1 : c <> d) by congruence. assert (H2 : is_brace c = false) by ccx.
  apply N.eqb_neq in H1. rewrite H1, H2. reflexivity.
Qed.

Lemma digits_ident s : forallb is_digit s = true -> forallb ident_char s = true.
Proof. apply forallb_impl. intros c H. ccx. Qed.
Lemma letters_ident s : forallb is_letter s = true -> forallb ident_char s = true.
Proof. apply forallb_impl. intros c H. ccx. Qed.

Lemma id_body_ident id l : (0 <= id)%Z -> wf_letters l = true -> forallb ident_char (z_to_dec id ++ l) = true.
Proof.
  intros Hid Hl. destruct (z_to_dec_pos_digits id Hid) as [Hd _].
  rewrite forallb_app, (digits_ident _ Hd), (letters_ident _ Hl). reflexivity.
Qed.

Lemma id_body_first id (l : str) : (0 <= id)%Z -> exists (c : char) (r : str), z_to_dec id ++ l = c :: r /\ is_digit c = true.
Proof.
  intros Hid. destruct (z_to_dec_nonneg_first id Hid) as [c [r [E [Hc _]]]].
  exists c, (r ++ l). rewrite E. split; [reflexivity|exact Hc].
Qed.

(* ---- parse_obj_matcher on the non-list objects ---------------------------------------------------------- *)
Lemma pom_empty rec : parse_obj_matcher rec [] = Ok (MAlways true).
Proof. reflexivity. Qed.

Lemma pom_nil rec : parse_obj_matcher rec (s2l "nil") = Ok (MWrap WObjId (MPair (MEqZ 0 [48]) [] (MAlways true))).
Proof. reflexivity. Qed.

Lemma pom_name rec w : wf_word w = true -> parse_obj_matcher rec w = Ok (MWrap WObjName (str_matcher w)).
Proof.
  intros H. destruct (wf_word_inv w H) as [c [r [E [Hc [Hi [Hnil _]]]]]]. subst w.
  unfold parse_obj_matcher. rewrite bracketed_ne by ccx.
  rewrite (split_pair_none 35 (c :: r)) by (apply Chunk_plain, ident_plain; [reflexivity|exact Hi]).
  cbn [bind].
  rewrite (split_pair_none 64 (c :: r)) by (apply Chunk_plain, ident_plain; [reflexivity|exact Hi]).
  cbn [bind]. rewrite Hnil.
  assert (Hd : is_digit c = false) by ccx. rewrite Hd. cbv beta match.
  rewrite ptm_word by (try discriminate; exact Hi). reflexivity.
Qed.

Lemma split_pair_lead (d : char) (b : str) : is_brace d = false -> Chunk d b ->
  split_pair (d :: b) d = Ok (Some ([], strip b)).
Proof. intros Hd Hb. exact (split_pair_two d [] b Hd (Ch_nil d) Hb). Qed.

Lemma pom_id rec a id l : (0 <= id)%Z -> wf_letters l = true ->
  match a with Some c => N.eqb c 64 || N.eqb c 35 | None => true end = true ->
  parse_obj_matcher rec (r_id a id l) = Ok (MWrap WObjId (id_inner id l)).
Proof.
  intros Hid Hl Ha. pose proof (id_body_ident id l Hid Hl) as Hi.
  pose proof (poim_id id l Hid Hl) as P.
  destruct (id_body_first id l Hid) as [c [r [E Hc]]].
  assert (Hs : strip (z_to_dec id ++ l) = z_to_dec id ++ l) by (apply strip_nonblank_all, ident_nonblank, Hi).
  assert (P35 : plain_for 35 (z_to_dec id ++ l) = true) by (apply ident_plain; [reflexivity|exact Hi]).
  assert (P64 : plain_for 64 (z_to_dec id ++ l) = true) by (apply ident_plain; [reflexivity|exact Hi]).
  unfold r_id, parse_obj_matcher. destruct a as [x|].
  - apply orb_true_iff in Ha. destruct Ha as [Ha|Ha]; apply N.eqb_eq in Ha; subst x; cbn [app].
    + rw (bracketed_ne 64 (z_to_dec id ++ l)); [|discriminate].
      rw (split_pair_none 35 (64 :: z_to_dec id ++ l)).
      2:{ apply Chunk_plain. unfold plain_for. cbn [forallb]. apply andb_true_iff. split; [reflexivity|exact P35]. }
      cbn [bind].
      rw (split_pair_lead 64 (z_to_dec id ++ l)); [|reflexivity|apply Chunk_plain; exact P64].
      cbn [bind]. rw Hs. rw E. cbv beta match. rewrite <- E. rw P. reflexivity.
    + rw (bracketed_ne 35 (z_to_dec id ++ l)); [|discriminate].
      rw (split_pair_lead 35 (z_to_dec id ++ l)); [|reflexivity|apply Chunk_plain; exact P35].
      cbn [bind]. rw Hs. rw E. cbv beta match. rewrite <- E. rw P. reflexivity.
  - cbn [app].
    assert (B : bracketed (z_to_dec id ++ l) = false) by (rewrite E; apply bracketed_ne; ccx).
    assert (Enil : str_eqb (z_to_dec id ++ l) (s2l "nil") = false) by (rewrite E; norm_lits; apply str_eqb_cons_ne; ccx).
    rw B.
    rw (split_pair_none 35 (z_to_dec id ++ l)); [|apply Chunk_plain; exact P35].
    cbn [bind].
    rw (split_pair_none 64 (z_to_dec id ++ l)); [|apply Chunk_plain; exact P64].
    cbn [bind]. rw Enil. rw E. cbv beta match. rw Hc. cbv beta match. rewrite <- E. rw P. reflexivity.
Qed.

(* ---- parse_arg_value_matcher on the non-list values ------------------------------------------------------ *)
Lemma pavm_any rec : parse_arg_value_matcher rec [42] = Ok (MWrap WInt (MAlways true)).
Proof. reflexivity. Qed.
Lemma pavm_empty rec : parse_arg_value_matcher rec [] = Ok (MWrap WInt (MAlways true)).
Proof. reflexivity. Qed.
Lemma pavm_nil rec : parse_arg_value_matcher rec (s2l "nil") =
  Ok (MWrap WObjArg (MWrap WObjId (MPair (MEqZ 0 [48]) [] (MAlways true)))).
Proof. vm_compute. reflexivity. Qed.

Lemma pavm_int rec z : parse_arg_value_matcher rec (z_to_dec z) = Ok (MWrap WInt (MEqZ z (z_to_dec z))).
Proof.
  unfold parse_arg_value_matcher. destruct (z_to_dec_first z) as [c [r [E Hc]]].
  assert (B : bracketed (z_to_dec z) = false) by (rewrite E; apply bracketed_ne; unfold num_char in Hc; ccx).
  rewrite B, parse_int_matcher_z. reflexivity.
Qed.

Lemma pavm_float rec n ip fp : wf_val (VFloat n ip fp) = true ->
  parse_arg_value_matcher rec (r_float n ip fp) = Ok (MWrap WFloat (MEqF (float_of n ip fp))).
Proof.
  cbn [wf_val]. intros H. destruct ip as [|i0 ip]; [discriminate|]. destruct fp as [|f0 fp]; [discriminate|].
  apply andb_true_iff in H. destruct H as [H Hp]. apply andb_true_iff in H. destruct H as [Hi Hf].
  destruct (py_float (r_float n (i0 :: ip) (f0 :: fp))) as [d|e m] eqn:P; [|discriminate].
  pose proof (py_float_r_float n (i0 :: ip) (f0 :: fp) d ltac:(discriminate) ltac:(discriminate) Hi Hf P) as D.
  subst d. unfold parse_arg_value_matcher.
  assert (Hc : is_digit i0 = true) by (cbn [forallb] in Hi; apply andb_true_iff in Hi; tauto).
  assert (B : bracketed (r_float n (i0 :: ip) (f0 :: fp)) = false).
  { unfold r_float. destruct n; cbn [app]; apply bracketed_ne; ccx. }
  rewrite B.
  assert (I : parse_int_matcher (r_float n (i0 :: ip) (f0 :: fp)) = Raise RuntimeError []).
  { apply pim_of_value_error.
    - unfold r_float. destruct n; cbn [app]; apply str_eqb_cons_ne; ccx.
    - unfold r_float. destruct n; reflexivity.
    - apply py_int_r_float; [discriminate|exact Hi|exact Hf]. }
  rewrite I. cbn [bind or_else]. unfold parse_float_matcher. rewrite P. reflexivity.
Qed.

Lemma str_char_ok_free s : forallb str_char_ok s = true ->
  free_of 34 34 s = true /\ free_of 40 41 s = true /\ free_of 91 93 s = true /\ esc_free s.
Proof.
  intros H. unfold free_of, esc_free. repeat split; revert H; apply forallb_impl; intros c H; ccx.
Qed.

Lemma pavm_str rec s : forallb str_char_ok s = true -> all_ascii s = true ->
  parse_arg_value_matcher rec (34 :: s ++ [34]) = Ok (MWrap WString (MEqS s)).
Proof.
  intros Hs Ha. set (text := 34 :: s ++ [34]).
  assert (Hasc : all_ascii text = true).
  { unfold text, all_ascii. cbn [forallb]. rewrite forallb_app. fold (all_ascii s). rewrite Ha. reflexivity. }
  assert (Hst : strip text = text) by (apply strip_wrap; reflexivity).
  unfold parse_arg_value_matcher.
  assert (B : bracketed text = false) by (apply bracketed_ne; discriminate). rewrite B.
  assert (I : parse_int_matcher text = Raise RuntimeError []).
  { apply pim_of_value_error; [apply str_eqb_cons_ne; discriminate|reflexivity|].
    apply (py_int_bad text 34 (s ++ [34])); try assumption; try reflexivity; discriminate. }
  rewrite I. cbn [bind or_else].
  assert (F : parse_float_matcher text = Raise RuntimeError []).
  { apply pfm_of_value_error. apply (py_float_bad text 34 (s ++ [34])); try assumption; try reflexivity; try discriminate. }
  rewrite F. cbn [bind or_else].
  unfold parse_string_matcher.
  assert (S1 : starts_with [34] text = true) by reflexivity.
  assert (S2 : ends_with [34] text = true).
  { unfold text. change (34 :: s ++ [34]) with ((34 :: s) ++ [34]). apply ends_with_snoc. }
  assert (S3 : Nat.ltb 1 (List.length text) = true).
  { unfold text. cbn [List.length]. rewrite app_length. cbn [List.length]. apply Nat.ltb_lt. lia. }
  rw S1. rw S2. rw S3. cbn [andb bind or_else].
  unfold strip_ends, text. cbn [tl]. rewrite removelast_last. reflexivity.
Qed.

Lemma pavm_word rec w : wf_word w = true -> forallb float_charset w = false ->
  parse_arg_value_matcher rec w = Ok (MWrap WLabel (str_matcher w)).
Proof.
  intros H Hfc. destruct (wf_word_inv w H) as [c [r [E [Hc [Hi [Hnil Hinf]]]]]].
  assert (CF : is_digit c = false /\ c <> 45 /\ c <> 43 /\ c <> 91 /\ c <> 42 /\ c <> 34) by (clear - Hc; ccx).
  destruct CF as [C1 [C2 [C3 [C4 [C5 C6]]]]].
  assert (Hasc := ident_all_ascii w Hi).
  assert (Hst := strip_nonblank_all w (ident_nonblank w Hi)).
  unfold parse_arg_value_matcher.
  assert (B : bracketed w = false) by (rewrite E; apply bracketed_ne; exact C4). rewrite B.
  assert (I : parse_int_matcher w = Raise RuntimeError []).
  { apply pim_of_value_error; [rewrite E; apply str_eqb_cons_ne; exact C5|rewrite E; reflexivity|].
    apply (py_int_bad w c r); assumption. }
  rewrite I. cbn [bind or_else].
  assert (F : parse_float_matcher w = Raise RuntimeError []).
  { apply pfm_of_value_error. apply (py_float_bad w c r); assumption. }
  rewrite F. cbn [bind or_else].
  assert (S : parse_string_matcher w = Raise RuntimeError []).
  { unfold parse_string_matcher. rewrite E. rewrite starts_with_1_ne by congruence. reflexivity. }
  rewrite S. cbn [bind or_else]. rewrite Hnil.
  rewrite ptm_word by (try exact Hi; rewrite E; discriminate). reflexivity.
Qed.

Lemma pavm_obj rec (c : char) id l : (0 <= id)%Z -> wf_letters l = true -> (N.eqb c 64 || N.eqb c 35) = true ->
  parse_arg_value_matcher rec (r_id (Some c) id l) = Ok (MWrap WObjArg (MWrap WObjId (id_inner id l))).
Proof.
  intros Hid Hl Hc. pose proof (pom_id rec (Some c) id l Hid Hl Hc) as PO.
  pose proof (id_body_ident id l Hid Hl) as Hi.
  set (text := r_id (Some c) id l) in *.
  assert (Et : text = c :: z_to_dec id ++ l) by reflexivity.
  assert (Hasc : all_ascii text = true).
  { rewrite Et. unfold all_ascii. cbn [forallb]. fold (all_ascii (z_to_dec id ++ l)).
    rewrite (ident_all_ascii _ Hi). rewrite andb_true_r. ccx. }
  assert (Hst : strip text = text).
  { apply strip_nonblank_all. rewrite Et. unfold nonblank_all. cbn [forallb]. fold (nonblank_all (z_to_dec id ++ l)).
    rewrite (ident_nonblank _ Hi). rewrite andb_true_r. ccx. }
  unfold parse_arg_value_matcher.
  assert (B : bracketed text = false) by (rewrite Et; apply bracketed_ne; ccx). rewrite B.
  assert (I : parse_int_matcher text = Raise RuntimeError []).
  { apply pim_of_value_error; [rewrite Et; apply str_eqb_cons_ne; ccx|rewrite Et; reflexivity|].
    apply (py_int_bad text c (z_to_dec id ++ l)); try assumption; ccx. }
  rewrite I. cbn [bind or_else].
  assert (F : parse_float_matcher text = Raise RuntimeError []).
  { apply pfm_of_value_error. apply (py_float_bad text c (z_to_dec id ++ l)); try assumption; try ccx.
    - apply inf_like_first; unfold lower_char; destruct (is_upper c) eqn:U; ccx.
    - rewrite Et. cbn [forallb]. apply andb_false_iff. left. ccx. }
  rewrite F. cbn [bind or_else].
  assert (S : parse_string_matcher text = Raise RuntimeError []).
  { unfold parse_string_matcher. rewrite Et. rewrite starts_with_1_ne by ccx. reflexivity. }
  rewrite S. cbn [bind or_else].
  assert (Enil : str_eqb text (s2l "nil") = false) by (rewrite Et; norm_lits; apply str_eqb_cons_ne; ccx).
  rewrite Enil.
  assert (T : parse_text_matcher rec text = Raise RuntimeError []).
  { unfold parse_text_matcher. rewrite B, Et. unfold identifier_matcher. cbn [forallb].
    assert (X : is_ident_char c = false) by ccx. rewrite X. reflexivity. }
  rewrite T. cbn [bind or_else]. rewrite PO. reflexivity.
Qed.
