(* HistorySpecB.v — C03 on whole histories: the alive interval and the destroyed-annotation,
   stated on the event trace of HistorySpecA.v (no table on the specification side).

     alive_interval        after h: incarnation g of id is alive  <->  the trace splits as
                           tr1 ++ ECre id ty :: tr2 with exactly g creations of id in tr1 (this is
                           the (g+1)-th creation) and NO later event about id in tr2 (neither a
                           delete_id(id) nor another creation of id)
     client_gap            two creations of a client-range id are always separated by a
                           delete_id(id): so for client ids "no later event" = "no later delete_id",
                           re-creation ends a life only for server-range ids
     alive_interval_msgs   the same, indexed by message numbers k0 < k1 < k
     incarnation_exists    incarnation g of id exists  <->  g < number of creations of id
     annotation_exact      the annotation of message k is determined by the message and the COUNT:
                           present iff target id 1 (interface compatible with wl_display), name
                           delete_id, first argument an integer v, and v created at least once;
                           it names incarnation (creations of v so far) - 1
     del_event_origin / cre_event_origin   where the events of a message come from *)
From WD Require Import Base Wire Protocol Conn ConnProofs HistorySpecA.
From Coq Require Import Lia ZifyBool ZifyNat ZifyN.
Open Scope Z_scope.

(* ---- more counting ------------------------------------------------------------------------ *)
Definition quiet (id : Z) (tr : list ev) : bool := forallb (fun e => negb (about id e)) tr.

Lemma ncre_app a b id : ncre (a ++ b) id = (ncre a id + ncre b id)%nat.
Proof. unfold ncre. rewrite filter_app, app_length. reflexivity. Qed.

Lemma ncre_cons_cre id ty tr : ncre (ECre id ty :: tr) id = S (ncre tr id).
Proof. unfold ncre. cbn [filter is_cre]. rewrite Z.eqb_refl. reflexivity. Qed.

Lemma quiet_ncre id tr : quiet id tr = true -> ncre tr id = 0%nat.
Proof.
  induction tr as [|e tr IH]; [reflexivity|]. unfold quiet. cbn [forallb]. intros H.
  apply andb_true_iff in H. destruct H as [He Ht]. unfold ncre. cbn [filter].
  replace (is_cre id e) with false by (destruct e; cbn [about is_cre] in *; [destruct (id0 =? id); [discriminate|reflexivity]|reflexivity]).
  apply IH. exact Ht.
Qed.

Lemma quiet_app id a b : quiet id (a ++ b) = quiet id a && quiet id b.
Proof. apply forallb_app. Qed.

Lemma snoc_assoc {A} (a : list A) x b y : a ++ x :: b ++ [y] = (a ++ x :: b) ++ [y].
Proof. rewrite <- app_assoc. reflexivity. Qed.

Lemma alive_split tr id :
  alive tr id = true <->
  exists tr1 ty tr2, tr = tr1 ++ ECre id ty :: tr2 /\ quiet id tr2 = true.
Proof.
  split.
  - induction tr as [|e tr IH] using rev_ind; [discriminate|].
    rewrite alive_snoc. destruct (about id e) eqn:Ea.
    + destruct e as [i ty|i]; [|discriminate]. intros _. cbn [about] in Ea.
      assert (i = id) by lia. subst i. exists tr, ty, []. split; reflexivity.
    + intros H. destruct (IH H) as (tr1 & ty & tr2 & -> & Hq).
      exists tr1, ty, (tr2 ++ [e]). split; [symmetry; apply snoc_assoc|].
      rewrite quiet_app, Hq. unfold quiet. cbn [forallb]. rewrite Ea. reflexivity.
  - intros (tr1 & ty & tr2 & -> & Hq).
    induction tr2 as [|x tr2 IH] using rev_ind.
    + rewrite alive_snoc. cbn [about]. rewrite Z.eqb_refl. reflexivity.
    + rewrite snoc_assoc, alive_snoc. rewrite quiet_app in Hq.
      apply andb_true_iff in Hq. destruct Hq as [Hq Hx]. unfold quiet in Hx. cbn [forallb] in Hx.
      destruct (about id x); [discriminate|]. apply IH. exact Hq.
Qed.

Lemma alive_false_after_cre tr1 id ty tr2 :
  alive (tr1 ++ ECre id ty :: tr2) id = false -> In (EDel id) tr2.
Proof.
  induction tr2 as [|x tr2 IH] using rev_ind.
  - rewrite alive_snoc. cbn [about]. rewrite Z.eqb_refl. discriminate.
  - rewrite snoc_assoc, alive_snoc. destruct (about id x) eqn:Ea.
    + destruct x as [i t|i]; [discriminate|]. intros _. cbn [about] in Ea.
      assert (i = id) by lia. subst i. apply in_or_app. right. left. reflexivity.
    + intros H. apply in_or_app. left. apply IH. exact H.
Qed.

(* ---- C03: the alive interval ----------------------------------------------------------------- *)
Section Hist.
Variable P : pdb.

Theorem alive_interval h id g :
  (exists o, lookup_obj (fst (conn_run P db_init h)) id g = Some o /\ o_alive o = true) <->
  (exists tr1 ty tr2, trace P h = tr1 ++ ECre id ty :: tr2 /\
                      ncre tr1 id = N.to_nat g /\ quiet id tr2 = true).
Proof.
  destruct (reachable_rel P h) as [HI HR]. specialize (HR id). unfold lookup_obj.
  destruct (db_get (fst (conn_run P db_init h)) id) as [l|] eqn:Eg.
  - destruct HR as (Hlen & Hal & _). destruct (HI _ _ Eg) as [Hne Hw].
    pose proof (last_nth l display_obj Hne) as Hlast.
    split.
    + intros (o & Hn & Ha). destruct (Hw _ _ Hn) as (_ & _ & C).
      assert (X : (N.to_nat g < List.length l)%nat) by (apply nth_error_Some; congruence).
      assert (Y : ~ (S (N.to_nat g) < List.length l)%nat) by (intros Z0; apply C in Z0; congruence).
      assert (Eg' : N.to_nat g = (List.length l - 1)%nat) by lia.
      rewrite Eg', Hlast in Hn. injection Hn as <-. rewrite Hal in Ha.
      apply alive_split in Ha. destruct Ha as (tr1 & ty & tr2 & Htr & Hq).
      exists tr1, ty, tr2. split; [exact Htr|split; [|exact Hq]].
      rewrite Htr, ncre_app, ncre_cons_cre, (quiet_ncre _ _ Hq) in Hlen. lia.
    + intros (tr1 & ty & tr2 & Htr & Hn & Hq).
      assert (Ha : alive (trace P h) id = true) by (apply alive_split; exists tr1, ty, tr2; split; assumption).
      rewrite Htr, ncre_app, ncre_cons_cre, (quiet_ncre _ _ Hq) in Hlen.
      exists (last l display_obj). split; [|congruence].
      replace (N.to_nat g) with (List.length l - 1)%nat by lia. exact Hlast.
  - destruct HR as [Hz _]. split.
    + intros (o & Hn & _). discriminate.
    + intros (tr1 & ty & tr2 & Htr & _ & _). rewrite Htr, ncre_app, ncre_cons_cre in Hz. lia.
Qed.

(* "after processing the first k messages" *)
Corollary alive_interval_at h k id g :
  (exists o, lookup_obj (fst (conn_run P db_init (firstn k h))) id g = Some o /\ o_alive o = true) <->
  (exists tr1 ty tr2, trace P (firstn k h) = tr1 ++ ECre id ty :: tr2 /\
                      ncre tr1 id = N.to_nat g /\ quiet id tr2 = true).
Proof. apply alive_interval. Qed.

(* at most one incarnation alive, and it is the latest: a direct consequence *)
Corollary alive_is_latest h id g o :
  lookup_obj (fst (conn_run P db_init h)) id g = Some o -> o_alive o = true ->
  N.to_nat g = (ncre (trace P h) id - 1)%nat.
Proof.
  intros Hl Ha. destruct (proj1 (alive_interval h id g)) as (tr1 & ty & tr2 & Htr & Hn & Hq).
  { exists o. split; assumption. }
  rewrite Htr, ncre_app, ncre_cons_cre, (quiet_ncre _ _ Hq). lia.
Qed.

Theorem incarnation_exists h id g :
  (exists o, lookup_obj (fst (conn_run P db_init h)) id g = Some o) <->
  (N.to_nat g < ncre (trace P h) id)%nat.
Proof.
  pose proof (table_counts P h id) as HC. unfold lookup_obj.
  destruct (db_get (fst (conn_run P db_init h)) id) as [l|].
  - rewrite <- HC. rewrite <- nth_error_Some. split.
    + intros (o & Hn). congruence.
    + intros Hn. destruct (nth_error l (N.to_nat g)) as [o|]; [exists o; reflexivity|contradiction].
  - rewrite HC. split; [intros (o & Hn); discriminate|lia].
Qed.

(* ---- the traces that occur -------------------------------------------------------------------- *)
Inductive reach : list ev -> Prop :=
| reach_init : reach tr0
| reach_cre tr id ty : reach tr -> accepts tr id = true -> reach (tr ++ [ECre id ty])
| reach_del tr v : reach tr -> reach (tr ++ [EDel v]).

Lemma reach_args args : forall tr tty mn idx,
  reach tr -> reach (tr ++ fst (spec_args P tr tty mn idx args)).
Proof.
  induction args as [|a rest IH]; intros tr tty mn idx HR; cbn [spec_args].
  - cbn [fst]. rewrite app_nil_r. exact HR.
  - destruct (lookups_ok P tty mn idx a); [|cbn [fst]; rewrite app_nil_r; exact HR].
    assert (HR1 : reach (tr ++ arg_events tr a)).
    { unfold arg_events. destruct a as [v|x|s|ty|id ty is_new|v|vs|s]; try (rewrite app_nil_r; exact HR).
      destruct ty as [ty|]; [|rewrite app_nil_r; exact HR].
      destruct is_new; [|rewrite app_nil_r; exact HR].
      destruct (accepts tr id) eqn:Ea; [|rewrite app_nil_r; exact HR].
      apply reach_cre; assumption. }
    specialize (IH (tr ++ arg_events tr a) tty mn (S idx) HR1).
    destruct (spec_args P (tr ++ arg_events tr a) tty mn (S idx) rest) as [evs2 refs].
    cbn [fst] in *. rewrite app_assoc. exact IH.
Qed.

Lemma reach_msg tr m : reach tr -> reach (tr ++ ms_events (spec_msg P tr m)).
Proof.
  intros HR. unfold spec_msg.
  destruct (spec_eff_args tr m) as [args|]; [|cbn [ms_events]; rewrite app_nil_r; exact HR].
  destruct (on_display tr m && _).
  - destruct args as [|[v| | | | | | |] rest]; try (cbn [ms_events]; rewrite app_nil_r; exact HR).
    destruct (ncre tr v =? 0)%nat; [cbn [ms_events]; rewrite app_nil_r; exact HR|].
    pose proof (reach_args (PInt v :: rest) (tr ++ [EDel v]) (spec_tty tr m) (p_name m) 0%nat
                           (reach_del _ v HR)) as H.
    destruct (spec_args P (tr ++ [EDel v]) (spec_tty tr m) (p_name m) 0 (PInt v :: rest)) as [evs refs].
    cbn [fst ms_events] in *. rewrite <- app_assoc in H. exact H.
  - pose proof (reach_args args tr (spec_tty tr m) (p_name m) 0%nat HR) as H.
    destruct (spec_args P tr (spec_tty tr m) (p_name m) 0 args) as [evs refs]. exact H.
Qed.

Lemma reach_trace_from h : forall tr, reach tr -> reach (trace_from P tr h).
Proof.
  induction h as [|[t m] h IH]; intros tr HR; cbn [trace_from]; [exact HR|].
  apply IH. apply reach_msg. exact HR.
Qed.

Theorem reach_trace h : reach (trace P h).
Proof. apply reach_trace_from. apply reach_init. Qed.

(* id 1 is the display, forever incarnation 0 *)
Lemma reach_display tr : reach tr -> ncre tr 1 = 1%nat /\ ltype tr 1 = Some (s2l "wl_display").
Proof.
  induction 1 as [|tr id ty HR [IH1 IH2] Ha|tr v HR [IH1 IH2]].
  - split; reflexivity.
  - rewrite ncre_snoc, ltype_snoc. cbn [is_cre]. unfold accepts in Ha.
    apply andb_true_iff in Ha. destruct Ha as [Ha _].
    assert (E : (id =? 1) = false) by lia. rewrite E, Nat.add_0_r. split; assumption.
  - rewrite ncre_snoc, ltype_snoc. cbn [is_cre]. rewrite Nat.add_0_r. split; assumption.
Qed.

(* every creation in an occurring trace was accepted at its point *)
Lemma reach_accepted tr : reach tr -> forall pre id ty post,
  tr = pre ++ ECre id ty :: post -> pre = [] \/ accepts pre id = true.
Proof.
  induction 1 as [|tr i t HR IH Ha|tr v HR IH]; intros pre id ty post E.
  - destruct pre as [|x pre]; [left; reflexivity|]. unfold tr0 in E. injection E as _ E.
    destruct pre; discriminate.
  - destruct post as [|y post _] using rev_ind.
    + apply app_inj_tail in E. destruct E as [-> E]. injection E as -> _. right. exact Ha.
    + rewrite snoc_assoc in E. apply app_inj_tail in E. destruct E as [E _]. eapply IH. exact E.
  - destruct post as [|y post _] using rev_ind.
    + apply app_inj_tail in E. destruct E as [_ E]. discriminate.
    + rewrite snoc_assoc in E. apply app_inj_tail in E. destruct E as [E _]. eapply IH. exact E.
Qed.

(* a client-range id is created again only after a delete_id for it: for client ids an
   incarnation's life ends exactly at delete_id; only server-range ids end by re-creation *)
Theorem client_gap h tr1 id ty tr2 ty' tr3 :
  trace P h = tr1 ++ ECre id ty :: tr2 ++ ECre id ty' :: tr3 ->
  owned_by_server id = false -> In (EDel id) tr2.
Proof.
  intros E Hs.
  assert (E' : trace P h = (tr1 ++ ECre id ty :: tr2) ++ ECre id ty' :: tr3).
  { rewrite E, <- app_assoc. reflexivity. }
  destruct (reach_accepted _ (reach_trace h) _ _ _ _ E') as [Hn|Ha].
  - destruct tr1; discriminate.
  - unfold accepts in Ha. rewrite Hs, orb_false_r in Ha. apply andb_true_iff in Ha.
    destruct Ha as [_ Ha]. apply alive_false_after_cre with (tr1 := tr1) (ty := ty).
    destruct (alive (tr1 ++ ECre id ty :: tr2) id); [discriminate|reflexivity].
Qed.

(* ---- the destroyed-annotation ---------------------------------------------------------------- *)
(* syntactic: is the message a delete_id on the display, and whom does it name *)
Definition delete_subject (m : pmsg) : option Z :=
  if (p_id m =? 1) && type_ok (p_type m) (Some (s2l "wl_display")) then
    if str_eqb (p_name m) (s2l "delete_id") then
      match p_args m with PInt v :: _ => Some v | _ => None end
    else None
  else None.

Lemma on_display_iff tr m : reach tr ->
  on_display tr m = (p_id m =? 1) && type_ok (p_type m) (Some (s2l "wl_display")).
Proof.
  intros HR. destruct (reach_display tr HR) as [H1 H2]. unfold on_display, spec_ref.
  destruct (p_id m =? 1) eqn:E.
  - assert (E1 : p_id m = 1) by lia. rewrite E1, H1, H2. cbn [Nat.eqb andb].
    destruct (type_ok (p_type m) (Some (s2l "wl_display"))); reflexivity.
  - cbn [andb]. generalize dependent (p_id m). intros i E.
    destruct (ncre tr i =? 0)%nat; [reflexivity|].
    destruct (type_ok (p_type m) (ltype tr i)); [|reflexivity].
    destruct i as [|[| |]|]; try reflexivity. discriminate.
Qed.

Lemma display_eff_args tr m : reach tr -> on_display tr m = true ->
  spec_eff_args tr m = Ok (p_args m).
Proof.
  intros HR. destruct (reach_display tr HR) as [_ H2]. unfold on_display, spec_eff_args, spec_tty.
  destruct (spec_ref tr (p_id m) (p_type m)) as [i g|]; [|discriminate].
  destruct i as [|[| |]|]; try discriminate. intros _. rewrite H2.
  change (str_eqb (s2l "wl_display") (s2l "wl_registry")) with false. reflexivity.
Qed.

Lemma spec_destroyed tr m : reach tr ->
  ms_destroyed (spec_msg P tr m) =
  match delete_subject m with
  | Some v => if (ncre tr v =? 0)%nat then None else Some (Resolved v (N.of_nat (ncre tr v - 1)))
  | None => None
  end.
Proof.
  intros HR. unfold delete_subject. rewrite <- (on_display_iff tr m HR).
  destruct (on_display tr m) eqn:Eo.
  - unfold spec_msg. rewrite (display_eff_args tr m HR Eo), Eo. cbn [andb].
    destruct (str_eqb (p_name m) (s2l "delete_id")); cbn [andb].
    + destruct (p_args m) as [|[v| | | | | | |] rest]; cbn [negb]; try reflexivity.
      destruct (ncre tr v =? 0)%nat; [reflexivity|].
      destruct (spec_args P _ _ _ _ _); reflexivity.
    + destruct (spec_args P tr _ _ _ _); reflexivity.
  - unfold spec_msg. rewrite Eo. destruct (spec_eff_args tr m); [|reflexivity].
    cbn [andb]. destruct (spec_args P tr _ _ _ _); reflexivity.
Qed.

(* C03: message k is annotated iff it is a delete_id on the display whose integer subject v
   has been created before; the annotation names the latest incarnation of v, i.e. number
   (creations of v before message k) - 1.  (That incarnation may be dead already: see the
   double-delete example in HistorySpecC.v.) *)
Theorem annotation_exact h k t m rm :
  nth_error h k = Some (t, m) ->
  nth_error (snd (conn_run P db_init h)) k = Some rm ->
  let tr := trace P (firstn k h) in
  m_destroyed rm =
  match delete_subject m with
  | Some v => if (ncre tr v =? 0)%nat then None else Some (Resolved v (N.of_nat (ncre tr v - 1)))
  | None => None
  end.
Proof.
  intros Hh Hr tr. destruct (attrib_refines P h k t m rm Hh Hr) as (_ & _ & H).
  rewrite H. apply spec_destroyed. apply reach_trace.
Qed.

(* ---- where events come from -------------------------------------------------------------------- *)
Lemma args_events_cre args : forall tr tty mn idx e,
  In e (fst (spec_args P tr tty mn idx args)) ->
  exists id ty, e = ECre id ty /\ In (PObj id (Some ty) true) args.
Proof.
  induction args as [|a rest IH]; intros tr tty mn idx e; cbn [spec_args].
  - intros [].
  - destruct (lookups_ok P tty mn idx a); [|intros []].
    specialize (IH (tr ++ arg_events tr a) tty mn (S idx) e).
    destruct (spec_args P (tr ++ arg_events tr a) tty mn (S idx) rest) as [evs2 refs].
    cbn [fst] in *. intros H. apply in_app_or in H. destruct H as [H|H].
    + unfold arg_events in H. destruct a as [v|x|s|ty|id ty is_new|v|vs|s]; try contradiction.
      destruct ty as [ty|]; [|contradiction]. destruct is_new; [|contradiction].
      destruct (accepts tr id); [|contradiction]. destruct H as [<-|[]].
      exists id, ty. split; [reflexivity|left; reflexivity].
    + destruct (IH H) as (id & ty & -> & Hin). exists id, ty. split; [reflexivity|right; exact Hin].
Qed.

(* a creation event of a message is a typed new-id among its effective arguments *)
Theorem cre_event_origin tr m id ty :
  In (ECre id ty) (ms_events (spec_msg P tr m)) ->
  exists args, spec_eff_args tr m = Ok args /\ In (PObj id (Some ty) true) args.
Proof.
  unfold spec_msg. destruct (spec_eff_args tr m) as [args|]; [|intros []].
  intros H. exists args. split; [reflexivity|].
  destruct (on_display tr m && _).
  - destruct args as [|[v| | | | | | |] rest]; try contradiction.
    destruct (ncre tr v =? 0)%nat; [contradiction|].
    pose proof (args_events_cre (PInt v :: rest) (tr ++ [EDel v]) (spec_tty tr m) (p_name m) 0%nat (ECre id ty)) as HA.
    destruct (spec_args P (tr ++ [EDel v]) (spec_tty tr m) (p_name m) 0 (PInt v :: rest)) as [evs refs].
    cbn [ms_events fst] in *. destruct H as [H|H]; [discriminate|].
    destruct (HA H) as (i & t0 & E & Hin). injection E as <- <-. exact Hin.
  - pose proof (args_events_cre args tr (spec_tty tr m) (p_name m) 0%nat (ECre id ty)) as HA.
    destruct (spec_args P tr (spec_tty tr m) (p_name m) 0 args) as [evs refs].
    cbn [ms_events fst] in *. destruct (HA H) as (i & t0 & E & Hin). injection E as <- <-. exact Hin.
Qed.

(* the shape of a message's events: at most one delete event, first; then creations only *)
Definition all_cre (evs : list ev) : Prop := forall e, In e evs -> exists id ty, e = ECre id ty.

Lemma msg_events_shape tr m : reach tr ->
  all_cre (ms_events (spec_msg P tr m)) \/
  exists v cres, ms_events (spec_msg P tr m) = EDel v :: cres /\ all_cre cres /\
                 delete_subject m = Some v /\ (0 < ncre tr v)%nat.
Proof.
  intros HR. pose proof (spec_destroyed tr m HR) as HD. unfold spec_msg in *.
  destruct (spec_eff_args tr m) as [args|]; [|left; intros e0 []].
  destruct (on_display tr m && _).
  - destruct args as [|[v| | | | | | |] rest]; try (left; intros e0 []).
    destruct (ncre tr v =? 0)%nat eqn:Ez; [left; intros e0 []|].
    pose proof (args_events_cre (PInt v :: rest) (tr ++ [EDel v]) (spec_tty tr m) (p_name m) 0%nat) as HA.
    destruct (spec_args P (tr ++ [EDel v]) (spec_tty tr m) (p_name m) 0 (PInt v :: rest)) as [evs refs].
    cbn [ms_events ms_destroyed fst] in *. right. exists v, evs. split; [reflexivity|]. split.
    + intros e He. destruct (HA e He) as (i & t0 & E & _). exists i, t0. exact E.
    + destruct (delete_subject m) as [v'|]; [|discriminate].
      destruct (ncre tr v' =? 0)%nat eqn:Ez'; [discriminate|]. injection HD as ->. split; [reflexivity|lia].
  - left. pose proof (args_events_cre args tr (spec_tty tr m) (p_name m) 0%nat) as HA.
    destruct (spec_args P tr (spec_tty tr m) (p_name m) 0 args) as [evs refs].
    cbn [ms_events fst] in *. intros e He. destruct (HA e He) as (i & t0 & E & _). exists i, t0. exact E.
Qed.

(* a delete event of a message comes from delete_id on the display naming that id *)
Theorem del_event_origin tr m v : reach tr ->
  In (EDel v) (ms_events (spec_msg P tr m)) -> delete_subject m = Some v /\ (0 < ncre tr v)%nat.
Proof.
  intros HR H. destruct (msg_events_shape tr m HR) as [Hc|(v' & cres & E & Hc & Hs & Hn)].
  - destruct (Hc _ H) as (i & t0 & E). discriminate.
  - rewrite E in H. destruct H as [H|H].
    + injection H as ->. split; assumption.
    + destruct (Hc _ H) as (i & t0 & E'). discriminate.
Qed.

(* ... and conversely an effective delete_id is an event *)
Theorem del_event_present tr m v : reach tr ->
  delete_subject m = Some v -> (0 < ncre tr v)%nat ->
  exists cres, ms_events (spec_msg P tr m) = EDel v :: cres.
Proof.
  intros HR Hs Hn. pose proof (spec_destroyed tr m HR) as HD. rewrite Hs in HD.
  destruct (ncre tr v =? 0)%nat eqn:Ez; [lia|].
  destruct (msg_events_shape tr m HR) as [Hc|(v' & cres & E & _ & Hs' & _)].
  - exfalso. unfold spec_msg in *.
    destruct (spec_eff_args tr m) as [args|]; [|discriminate].
    destruct (on_display tr m && _).
    + destruct args as [|[v0| | | | | | |] rest]; try discriminate.
      destruct (ncre tr v0 =? 0)%nat; [discriminate|].
      destruct (spec_args P _ _ _ _ _) as [evs refs]. cbn [ms_events] in Hc.
      destruct (Hc (EDel v0) (or_introl eq_refl)) as (i & t0 & E). discriminate.
    + destruct (spec_args P _ _ _ _ _) as [evs refs]. discriminate.
  - rewrite Hs in Hs'. injection Hs' as <-. exists cres. exact E.
Qed.

(* ---- the alive interval, indexed by message numbers --------------------------------------------- *)
Definition trace_at (h : list (Z * pmsg)) (k : nat) : list ev := trace P (firstn k h).

(* the events of message k (none past the end) *)
Definition msg_evs (h : list (Z * pmsg)) (k : nat) : list ev :=
  match nth_error h k with
  | Some (_, m) => ms_events (spec_msg P (trace_at h k) m)
  | None => []
  end.

Lemma firstn_S_nth {A} (l : list A) : forall k x, nth_error l k = Some x -> firstn (S k) l = firstn k l ++ [x].
Proof.
  induction l as [|y l IH]; intros k x H; [destruct k; discriminate|].
  destruct k as [|k].
  - injection H as ->. reflexivity.
  - cbn [nth_error] in H. change (firstn (S (S k)) (y :: l)) with (y :: firstn (S k) l).
    rewrite (IH _ _ H). reflexivity.
Qed.

Lemma trace_at_S h k : trace_at h (S k) = trace_at h k ++ msg_evs h k.
Proof.
  unfold trace_at, msg_evs. destruct (nth_error h k) as [[t m]|] eqn:E.
  - rewrite (firstn_S_nth _ _ _ E). apply trace_snoc.
  - apply nth_error_None in E. rewrite !firstn_all2 by lia. rewrite app_nil_r. reflexivity.
Qed.

Lemma reach_trace_at h k : reach (trace_at h k).
Proof. apply reach_trace. Qed.

Lemma msg_evs_shape h k :
  all_cre (msg_evs h k) \/ exists v cres, msg_evs h k = EDel v :: cres /\ all_cre cres.
Proof.
  unfold msg_evs. destruct (nth_error h k) as [[t m]|]; [|left; intros e0 []].
  destruct (msg_events_shape (trace_at h k) m (reach_trace_at h k)) as [H|(v & cres & E & Hc & _)].
  - left. exact H.
  - right. exists v, cres. split; assumption.
Qed.

Lemma alive_app_quiet tr evs id : quiet id evs = true -> alive (tr ++ evs) id = alive tr id.
Proof.
  induction evs as [|x evs IH] using rev_ind; intros Hq; [rewrite app_nil_r; reflexivity|].
  rewrite quiet_app in Hq. apply andb_true_iff in Hq. destruct Hq as [Hq Hx].
  unfold quiet in Hx. cbn [forallb] in Hx. rewrite app_assoc, alive_snoc.
  destruct (about id x); [discriminate|]. apply IH. exact Hq.
Qed.

Lemma alive_app_cres tr cres id : all_cre cres ->
  alive (tr ++ cres) id = if (ncre cres id =? 0)%nat then alive tr id else true.
Proof.
  induction cres as [|x cres IH] using rev_ind; intros Hc; [rewrite app_nil_r; reflexivity|].
  assert (Hc' : all_cre cres) by (intros e He; apply Hc; apply in_or_app; left; exact He).
  destruct (Hc x) as (i & t0 & ->); [apply in_or_app; right; left; reflexivity|].
  rewrite app_assoc, alive_snoc, ncre_snoc. cbn [about is_cre].
  destruct (i =? id).
  - replace (ncre cres id + 1 =? 0)%nat with false by (symmetry; apply Nat.eqb_neq; lia). reflexivity.
  - rewrite Nat.add_0_r. apply IH. exact Hc'.
Qed.

(* one message: the latest incarnation of id is alive afterwards iff the message is silent about
   id and it was alive before, or the message creates id *)
Lemma alive_step h k id :
  alive (trace_at h (S k)) id =
  if quiet id (msg_evs h k) then alive (trace_at h k) id
  else negb (ncre (msg_evs h k) id =? 0)%nat.
Proof.
  rewrite trace_at_S. destruct (quiet id (msg_evs h k)) eqn:Eq.
  - apply alive_app_quiet. exact Eq.
  - destruct (msg_evs_shape h k) as [Hc|(v & cres & E & Hc)].
    + rewrite (alive_app_cres _ _ id Hc).
      destruct (ncre (msg_evs h k) id =? 0)%nat eqn:Ez; [|reflexivity].
      exfalso. (* all creations, none of id: quiet *)
      assert (quiet id (msg_evs h k) = true); [|congruence].
      apply Nat.eqb_eq in Ez. clear Eq. revert Ez. generalize (msg_evs h k) Hc. intros l.
      induction l as [|e l IH]; intros Hl Ez; [reflexivity|].
      destruct (Hl e (or_introl eq_refl)) as (i & t0 & ->).
      unfold quiet. cbn [forallb about]. unfold ncre in Ez. cbn [filter is_cre] in Ez.
      destruct (i =? id); [discriminate|]. cbn [negb andb]. apply IH.
      * intros e He. apply Hl. right. exact He.
      * exact Ez.
    + rewrite E. change (EDel v :: cres) with ([EDel v] ++ cres). rewrite app_assoc.
      rewrite (alive_app_cres _ _ id Hc), alive_snoc. cbn [about].
      unfold ncre at 2. cbn [app filter is_cre]. fold (ncre cres id).
      destruct (ncre cres id =? 0)%nat eqn:Ez; [|reflexivity]. cbn [negb].
      rewrite E in Eq. unfold quiet in Eq. cbn [forallb about] in Eq.
      destruct (v =? id); [reflexivity|]. exfalso. cbn [negb andb] in Eq.
      apply Nat.eqb_eq in Ez. clear E. revert Ez Eq. generalize cres Hc. intros l.
      induction l as [|e l IH]; intros Hl Ez Eq; [discriminate|].
      destruct (Hl e (or_introl eq_refl)) as (i & t0 & ->).
      cbn [forallb about] in Eq. unfold ncre in Ez. cbn [filter is_cre] in Ez.
      destruct (i =? id); [discriminate|]. cbn [negb andb] in Eq. apply IH.
      * intros e He. apply Hl. right. exact He.
      * exact Ez.
      * exact Eq.
Qed.

Lemma ncre_step h k id : ncre (trace_at h (S k)) id = (ncre (trace_at h k) id + ncre (msg_evs h k) id)%nat.
Proof. rewrite trace_at_S. apply ncre_app. Qed.

(* C03 with message numbers.  For an id other than the display's: after the first k messages
   incarnation g of id is alive iff for some k0 < k the (g+1)-th creation of id is the last
   creation of id made by message k0, and no message strictly between k0 and k has an event
   about id (an effective delete_id(id) or a creation of id; by client_gap the latter can only
   happen first for a server-range id). *)
Theorem alive_interval_msgs h k id g : id <> 1 ->
  (exists o, lookup_obj (fst (conn_run P db_init (firstn k h))) id g = Some o /\ o_alive o = true) <->
  (exists k0, (k0 < k)%nat /\
              (ncre (trace_at h k0) id <= N.to_nat g)%nat /\
              ncre (trace_at h (S k0)) id = S (N.to_nat g) /\
              forall k1, (k0 < k1 < k)%nat -> quiet id (msg_evs h k1) = true).
Proof.
  intros Hid.
  (* first: alive in the table <-> alive in the trace and g is the latest *)
  assert (HA : (exists o, lookup_obj (fst (conn_run P db_init (firstn k h))) id g = Some o /\ o_alive o = true)
               <-> (alive (trace_at h k) id = true /\ ncre (trace_at h k) id = S (N.to_nat g))).
  { rewrite alive_interval. fold (trace_at h k). split.
    - intros (tr1 & ty & tr2 & Htr & Hn & Hq). split.
      + apply alive_split. exists tr1, ty, tr2. split; assumption.
      + rewrite Htr, ncre_app, ncre_cons_cre, (quiet_ncre _ _ Hq). lia.
    - intros [Ha Hn]. apply alive_split in Ha. destruct Ha as (tr1 & ty & tr2 & Htr & Hq).
      exists tr1, ty, tr2. split; [exact Htr|split; [|exact Hq]].
      rewrite Htr, ncre_app, ncre_cons_cre, (quiet_ncre _ _ Hq) in Hn. lia. }
  rewrite HA. clear HA.
  induction k as [|k IH].
  - split.
    + intros [Ha _]. unfold trace_at in Ha. cbn [firstn] in Ha. unfold trace, trace_from, alive, tr0 in Ha.
      cbn [rev app find about] in Ha. destruct (1 =? id) eqn:E; [lia|discriminate].
    + intros (k0 & Hk & _). lia.
  - rewrite alive_step, ncre_step.
    destruct (quiet id (msg_evs h k)) eqn:Eq.
    + rewrite (quiet_ncre _ _ Eq), Nat.add_0_r, IH. split.
      * intros (k0 & Hk & H1 & H2 & H3). exists k0. split; [lia|]. split; [exact H1|]. split; [exact H2|].
        intros k1 Hk1. destruct (Nat.eq_dec k1 k) as [->|Hne]; [exact Eq|]. apply H3. lia.
      * intros (k0 & Hk & H1 & H2 & H3). destruct (Nat.eq_dec k0 k) as [->|Hne].
        -- rewrite ncre_step, (quiet_ncre _ _ Eq) in H2. lia.
        -- exists k0. split; [lia|]. split; [exact H1|]. split; [exact H2|].
           intros k1 Hk1. apply H3. lia.
    + split.
      * intros [Hc Hn]. exists k. split; [lia|]. rewrite ncre_step.
        destruct (ncre (msg_evs h k) id =? 0)%nat eqn:Ez; [discriminate|].
        apply Nat.eqb_neq in Ez. split; [lia|]. split; [exact Hn|]. intros k1 Hk1. lia.
      * intros (k0 & Hk & H1 & H2 & H3). destruct (Nat.eq_dec k0 k) as [->|Hne].
        -- rewrite ncre_step in H2. split; [|exact H2].
           destruct (ncre (msg_evs h k) id =? 0)%nat eqn:Ez; [|reflexivity].
           apply Nat.eqb_eq in Ez. lia.
        -- assert (Hq : quiet id (msg_evs h k) = true) by (apply H3; lia). congruence.
Qed.

Lemma display_alive_tr tr : reach tr -> ~ In (EDel 1) tr -> alive tr 1 = true.
Proof.
  induction 1 as [|tr id ty HR IH Hacc|tr v HR IH]; intros Hno.
  - reflexivity.
  - rewrite alive_snoc. cbn [about]. destruct (id =? 1); [reflexivity|].
    apply IH. intros Hin. apply Hno. apply in_or_app. left. exact Hin.
  - rewrite alive_snoc. cbn [about]. destruct (v =? 1) eqn:Ev.
    + exfalso. apply Hno. apply in_or_app. right. left. f_equal. lia.
    + apply IH. intros Hin. apply Hno. apply in_or_app. left. exact Hin.
Qed.

(* the display itself: created by no message, alive until a delete_id(1) *)
Theorem display_alive h :
  (exists o, lookup_obj (fst (conn_run P db_init h)) 1 0 = Some o /\ o_alive o = true) <->
  ~ In (EDel 1) (trace P h).
Proof.
  rewrite alive_interval. destruct (reach_display _ (reach_trace h)) as [H1 _]. split.
  - intros (tr1 & ty & tr2 & Htr & Hn & Hq) Hin. rewrite Htr in Hin, H1.
    rewrite ncre_app, ncre_cons_cre, (quiet_ncre _ _ Hq) in H1. cbn in Hn.
    apply in_app_or in Hin. destruct Hin as [Hin|[Hin|Hin]]; [|discriminate|].
    + (* tr1 has no creation of 1, and every trace starts with the display's creation *)
      pose proof (reach_accepted _ (reach_trace h) tr1 1 ty tr2 Htr) as [->|Ha]; [contradiction|].
      unfold accepts in Ha. discriminate.
    + unfold quiet in Hq. rewrite forallb_forall in Hq. specialize (Hq _ Hin). discriminate.
  - intros Hno.
    pose proof (display_alive_tr _ (reach_trace h) Hno) as Ha.
    apply alive_split in Ha. destruct Ha as (tr1 & ty & tr2 & Htr & Hq).
    exists tr1, ty, tr2. split; [exact Htr|split; [|exact Hq]].
    rewrite Htr, ncre_app, ncre_cons_cre, (quiet_ncre _ _ Hq) in H1. cbn. lia.
Qed.

End Hist.

Print Assumptions alive_interval.
Print Assumptions alive_interval_msgs.
Print Assumptions client_gap.
Print Assumptions incarnation_exists.
Print Assumptions annotation_exact.
Print Assumptions del_event_origin.
Print Assumptions del_event_present.
Print Assumptions cre_event_origin.
Print Assumptions display_alive.
