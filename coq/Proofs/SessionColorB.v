(* C17 lifted to the session, part B: names stay free of ESC.  The object table, the resolved
   messages and the argument names / enum labels taken from the protocol data contain no ESC when
   the protocol data and the decoded messages contain none. *)
From WD Require Import Base Wire Protocol Conn Color LetterId Show.
From WD Require Import LetterIdProofs ColorProofs ShowProofs.
From Coq Require Import Lia.
Open Scope Z_scope.

(* ---- protocol data ------------------------------------------------------------------------------ *)
Definition parg_desc_clean (a : p_arg) : Prop := esc_free (pa_name a) /\ oesc (pa_iface a).
Definition iface_clean (i : p_iface) : Prop :=
  Forall (fun m => Forall parg_desc_clean (pm_args m)) (pi_msgs i) /\
  Forall (fun e => Forall (fun x => esc_free (pe_name x)) (pn_entries e)) (pi_enums i).
Definition pdb_clean (P : pdb) : Prop := Forall iface_clean P.

Lemma od_get_In {A} (key : A -> str) d k x : od_get key d k = Some x -> In x d.
Proof.
  induction d as [|y d IH]; cbn [od_get]; [discriminate|].
  destruct (str_eqb (key y) k); [intros E; injection E as ->; left; reflexivity|intros E; right; apply IH; exact E].
Qed.

Lemma get_arg_clean P i mn idx a : pdb_clean P -> get_arg P i mn idx = Ok (Some a) -> parg_desc_clean a.
Proof.
  intros HP. unfold get_arg. destruct (_ && _); [discriminate|].
  destruct (od_get pi_name P i) as [x|] eqn:Ei; [|discriminate].
  destruct (od_get pm_name (pi_msgs x) mn) as [m|] eqn:Em; [|discriminate].
  destruct (nth_error (pm_args m) idx) as [a'|] eqn:Ea; [|discriminate].
  intros E. injection E as ->.
  apply od_get_In in Ei, Em. apply nth_error_In in Ea.
  unfold pdb_clean in HP. rewrite Forall_forall in HP. destruct (HP x Ei) as [Hm _].
  rewrite Forall_forall in Hm. specialize (Hm m Em). rewrite Forall_forall in Hm. exact (Hm a Ea).
Qed.

Lemma base_name_clean P tty mn idx nm : pdb_clean P -> base_name P tty mn idx = Ok nm -> oesc nm.
Proof.
  intros HP. unfold base_name. destruct tty as [t|]; [|intros E; injection E as <-; exact I].
  unfold get_arg_name. destruct (get_arg P t mn idx) as [[a|]|e msg] eqn:Eg; cbn [bind option_map]; intros E; try discriminate;
    injection E as <-; [|exact I]. apply (get_arg_clean _ _ _ _ _ HP Eg).
Qed.

Lemma look_up_interface_clean P t mn idx i : pdb_clean P -> look_up_interface P t mn idx = Ok i -> oesc i.
Proof.
  intros HP. unfold look_up_interface. destruct (get_arg P t mn idx) as [[a|]|e msg] eqn:Eg; cbn [bind]; intros E; try discriminate;
    injection E as <-; [|exact I]. apply (get_arg_clean _ _ _ _ _ HP Eg).
Qed.

Lemma look_up_enum_clean P t mn idx v l : pdb_clean P -> look_up_enum P t mn idx v = Ok l -> Forall esc_free l.
Proof.
  intros HP. unfold look_up_enum. destruct (get_arg P t mn idx) as [[a|]|e msg]; cbn [bind]; try discriminate;
    [|intros E; injection E as <-; constructor].
  destruct (pa_enum a) as [path|]; [|intros E; injection E as <-; constructor].
  destruct (get_enum P t path) as [en|] eqn:Ee; [|intros E; injection E as <-; constructor].
  assert (Hen : Forall (fun x => esc_free (pe_name x)) (pn_entries en)).
  { unfold get_enum in Ee. destruct (enum_path_parts t path) as [i e]. destruct (od_get pi_name P i) as [x|] eqn:Ei; [|discriminate].
    apply od_get_In in Ei, Ee. unfold pdb_clean in HP. rewrite Forall_forall in HP. destruct (HP x Ei) as [_ Hn].
    rewrite Forall_forall in Hn. exact (Hn en Ee). }
  set (hits := map pe_name (filter _ (pn_entries en))).
  assert (Hh : Forall esc_free hits).
  { unfold hits. rewrite Forall_forall in *. intros s Hs. apply in_map_iff in Hs. destruct Hs as (x & <- & Hx).
    apply filter_In in Hx. apply Hen. apply Hx. }
  destruct hits as [|h hs]; intros E; injection E as <-; [|exact Hh].
  constructor; [destruct (pn_bitfield en); reflexivity|constructor].
Qed.

Definition labels_ok (l : option (list str)) : Prop := match l with Some ls => Forall esc_free ls | None => True end.

Lemma enum_labels_clean P tty mn idx v l : pdb_clean P -> enum_labels P tty mn idx v = Ok l -> labels_ok l.
Proof.
  intros HP. unfold enum_labels. destruct tty as [t|]; [|intros E; injection E as <-; exact I].
  destruct (look_up_enum P t mn idx v) as [ls|e msg] eqn:El; cbn [bind]; [|discriminate].
  intros E. injection E as <-. apply (look_up_enum_clean _ _ _ _ _ _ HP) in El. destruct ls; [exact I|exact El].
Qed.

(* ---- object table ---------------------------------------------------------------------------------- *)
Definition otype_ok (o : obj) : Prop := oesc (o_type o).
Definition db_clean (d : db) : Prop := Forall (fun p => Forall otype_ok (snd p)) d.

Lemma db_clean_init : db_clean db_init.
Proof. repeat constructor. Qed.

Lemma db_get_clean d id l : db_clean d -> db_get d id = Some l -> Forall otype_ok l.
Proof.
  induction d as [|[k l0] d IH]; cbn [db_get]; [discriminate|]. intros H. inversion H as [|? ? H1 H2]; subst.
  destruct (k =? id); [intros E; injection E as <-; exact H1|apply IH; exact H2].
Qed.

Lemma db_set_clean d id l : db_clean d -> Forall otype_ok l -> db_clean (db_set d id l).
Proof.
  intros H Hl. induction d as [|[k l0] d IH]; cbn [db_set]; [constructor; [exact Hl|constructor]|].
  inversion H as [|? ? H1 H2]; subst. destruct (k =? id); constructor; try assumption. apply IH. exact H2.
Qed.

Lemma map_last_clean (f : obj -> obj) l : (forall o, otype_ok o -> otype_ok (f o)) -> Forall otype_ok l -> Forall otype_ok (map_last f l).
Proof.
  intros Hf H. induction H as [|x l Hx Hl IH]; [constructor|]. cbn [map_last].
  destruct l as [|y l]; [constructor; [apply Hf; exact Hx|constructor]|constructor; [exact Hx|exact IH]].
Qed.

Lemma kill_ok t o : otype_ok o -> otype_ok (kill t o).
Proof. exact (fun H => H). Qed.

Lemma create_object_clean d t id ty d' : db_clean d -> esc_free ty -> create_object d t id ty = Ok d' -> db_clean d'.
Proof.
  intros Hd Hty. unfold create_object. destruct (id <=? 1); [discriminate|].
  assert (Hnew : forall l n, Forall otype_ok l -> Forall otype_ok (l ++ [mkObj id n (Some ty) true t None])).
  { intros l n Hl. apply Forall_app. split; [exact Hl|constructor; [exact Hty|constructor]]. }
  destruct (db_get d id) as [l|] eqn:Eg.
  - pose proof (db_get_clean _ _ _ Hd Eg) as Hl.
    destruct (o_alive (last l display_obj)).
    + destruct (_ && _); [discriminate|]. destruct (owned_by_server id); [|discriminate].
      intros E. injection E as <-. apply db_set_clean; [exact Hd|]. apply Hnew. apply map_last_clean; [apply kill_ok|exact Hl].
    + intros E. injection E as <-. apply db_set_clean; [exact Hd|]. apply Hnew. exact Hl.
  - intros E. injection E as <-. apply db_set_clean; [exact Hd|]. apply (Hnew [] _). constructor.
Qed.

(* ---- resolved messages ----------------------------------------------------------------------------- *)
Definition ref_ok (r : oref) : Prop := match r with Resolved _ _ => True | Unresolved _ ty => oesc ty end.
Definition val_ok (v : rval) : Prop :=
  match v with
  | RInt _ l => labels_ok l
  | RNull ty => oesc ty
  | RObj o _ => ref_ok o
  | RArray (Some vs) => Forall (fun p => labels_ok (snd p)) vs
  | _ => True
  end.
Definition arg_ok (a : rarg) : Prop := oesc (a_name a) /\ val_ok (a_val a).
Definition rmsg_ok (m : rmsg) : Prop :=
  ref_ok (m_obj m) /\ esc_free (m_name m) /\ Forall arg_ok (m_args m) /\
  match m_destroyed m with Some r => ref_ok r | None => True end.

Lemma ref_clean_of_ok d r : db_clean d -> ref_ok r -> ref_clean d r.
Proof.
  intros Hd Hr. destruct r as [id g|id ty]; [|exact Hr]. cbn [ref_clean ref_type]. unfold lookup_obj.
  destruct (db_get d id) as [l|] eqn:Eg; [|exact I]. destruct (nth_error l (N.to_nat g)) as [o|] eqn:En; [|exact I].
  pose proof (db_get_clean _ _ _ Hd Eg) as Hl. rewrite Forall_forall in Hl. apply (Hl o). eapply nth_error_In; eassumption.
Qed.

Lemma val_clean_of_ok d v : db_clean d -> val_ok v -> val_clean d v.
Proof.
  intros Hd Hv. destruct v as [z l|x|s|ty|o n|z|[vs|]|s]; cbn [val_ok val_clean] in *; try exact I.
  - destruct l; [exact Hv|exact I].
  - exact Hv.
  - apply ref_clean_of_ok; assumption.
  - exact Hv.
Qed.

Lemma msg_clean_of_ok d m : db_clean d -> rmsg_ok m -> msg_clean d m.
Proof.
  intros Hd (Ho & Hn & Ha & Hx). split; [apply ref_clean_of_ok; assumption|]. split; [exact Hn|]. split.
  - rewrite Forall_forall in *. intros a Hin. destruct (Ha a Hin) as [H1 H2]. split; [exact H1|apply val_clean_of_ok; assumption].
  - destruct (m_destroyed m); [apply ref_clean_of_ok; assumption|exact I].
Qed.

(* ---- decoded messages -------------------------------------------------------------------------------- *)
Definition parg_ok (a : parg) : Prop :=
  match a with
  | PNull ty => oesc ty
  | PObj _ ty _ => oesc ty
  | _ => True
  end.
(* wl_registry.bind types its new object from the interface-name string *)
Definition bind_str_ok (args : list parg) : Prop :=
  match args with [_; PStr s; _; PObj _ _ _] => esc_free s | _ => True end.
Definition pmsg_ok (m : pmsg) : Prop :=
  oesc (p_type m) /\ esc_free (p_name m) /\ Forall parg_ok (p_args m) /\
  (str_eqb (p_name m) (s2l "bind") = true -> bind_str_ok (p_args m)).

Lemma resolve_ref_ok d id ty : oesc ty -> ref_ok (resolve_ref d id ty).
Proof. intros H. unfold resolve_ref. destruct (retrieve_latest d id ty); [exact I|exact H]. Qed.

Lemma unresolved_arg_ok a : parg_ok a -> arg_ok (unresolved_arg a).
Proof.
  intros H. split; [exact I|]. destruct a as [v|x|s|ty|id ty n|v|[vs|]|s]; cbn [unresolved_arg a_val val_ok]; try exact I; try exact H.
  induction vs as [|v vs IH]; cbn [map]; [apply Forall_nil|apply Forall_cons; [exact I|apply IH; exact I]].
Qed.

Lemma unresolved_args_ok l : Forall parg_ok l -> Forall arg_ok (map unresolved_arg l).
Proof. induction 1 as [|a l Ha _ IH]; cbn [map]; constructor; [apply unresolved_arg_ok; exact Ha|exact IH]. Qed.

Lemma mapM_labels_clean P tty mn idx vs ls : pdb_clean P ->
  mapM (fun v => do l <- enum_labels P tty mn idx v; Ok (v, l)) vs = Ok ls -> Forall (fun p => labels_ok (snd p)) ls.
Proof.
  intros HP. revert ls. induction vs as [|v vs IH]; intros ls; cbn [mapM]; [intros E; injection E as <-; constructor|].
  destruct (enum_labels P tty mn idx v) as [l|e msg] eqn:El; cbn [bind]; [|discriminate].
  destruct (mapM _ vs) as [r|e msg]; cbn [bind]; [|discriminate]. intros E. injection E as <-.
  constructor; [apply (enum_labels_clean _ _ _ _ _ _ HP El)|apply IH; reflexivity].
Qed.

Lemma resolve_arg_clean P d t tty mn idx a d' ra : pdb_clean P -> db_clean d -> parg_ok a ->
  resolve_arg P d t tty mn idx a = Ok (d', ra) -> db_clean d' /\ arg_ok ra.
Proof.
  intros HP Hd Ha. unfold resolve_arg. destruct (base_name P tty mn idx) as [nm|e msg] eqn:En; cbn [bind]; [|discriminate].
  pose proof (base_name_clean _ _ _ _ _ HP En) as Hnm.
  destruct a as [v|x|s|ty|id ty n|v|[vs|]|s].
  - destruct (enum_labels P tty mn idx v) as [l|e msg] eqn:El; cbn [bind]; [|discriminate].
    intros E. injection E as <- <-. split; [exact Hd|]. split; [exact Hnm|]. apply (enum_labels_clean _ _ _ _ _ _ HP El).
  - intros E. injection E as <- <-. split; [exact Hd|]. split; [exact Hnm|exact I].
  - intros E. injection E as <- <-. split; [exact Hd|]. split; [exact Hnm|exact I].
  - destruct ty as [ty|]; [intros E; injection E as <- <-; split; [exact Hd|]; split; [exact Hnm|exact Ha]|].
    destruct tty as [tt|]; [|intros E; injection E as <- <-; split; [exact Hd|]; split; [exact Hnm|exact I]].
    destruct (look_up_interface P tt mn idx) as [i|e msg] eqn:Ei; cbn [bind]; [|discriminate].
    intros E. injection E as <- <-. split; [exact Hd|]. split; [exact Hnm|]. apply (look_up_interface_clean _ _ _ _ _ HP Ei).
  - intros E. injection E as <- <-. cbn [parg_ok] in Ha.
    assert (Hd' : db_clean (if n then match ty with None => d | Some t0 => match create_object d t id t0 with Ok d2 => d2 | Raise _ _ => d end end else d)).
    { destruct n; [|exact Hd]. destruct ty as [t0|]; [|exact Hd]. destruct (create_object d t id t0) as [d2|e msg] eqn:Ec; [|exact Hd].
      apply (create_object_clean _ _ _ _ _ Hd Ha Ec). }
    split; [exact Hd'|]. split; [exact Hnm|]. apply resolve_ref_ok. exact Ha.
  - intros E. injection E as <- <-. split; [exact Hd|]. split; [exact Hnm|exact I].
  - destruct (mapM _ vs) as [ls|e msg] eqn:Em; cbn [bind]; [|discriminate].
    intros E. injection E as <- <-. split; [exact Hd|]. split; [exact Hnm|]. apply (mapM_labels_clean _ _ _ _ _ _ HP Em).
  - intros E. injection E as <- <-. split; [exact Hd|]. split; [exact Hnm|exact I].
  - intros E. injection E as <- <-. split; [exact Hd|]. split; [exact Hnm|exact I].
Qed.

Lemma resolve_args_clean P args : forall d t tty mn idx d' ras err, pdb_clean P -> db_clean d -> Forall parg_ok args ->
  resolve_args P d t tty mn idx args = (d', ras, err) -> db_clean d' /\ Forall arg_ok ras.
Proof.
  induction args as [|a rest IH]; intros d t tty mn idx d' ras err HP Hd Ha; cbn [resolve_args].
  - intros E. injection E as <- <- _. split; [exact Hd|constructor].
  - inversion Ha as [|? ? Ha1 Ha2]; subst.
    destruct (resolve_arg P d t tty mn idx a) as [[d1 ra]|e msg] eqn:Er.
    + destruct (resolve_arg_clean _ _ _ _ _ _ _ _ _ HP Hd Ha1 Er) as [Hd1 Hra].
      destruct (resolve_args P d1 t tty mn (S idx) rest) as [[d2 ras'] err'] eqn:Es.
      intros E. injection E as <- <- _. destruct (IH _ _ _ _ _ _ _ _ HP Hd1 Ha2 Es) as [Hd2 Hras].
      split; [exact Hd2|constructor; assumption].
    + intros E. injection E as <- <- _. split; [exact Hd|]. apply (unresolved_args_ok (a :: rest)). exact Ha.
Qed.

Lemma bind_typing_ok args args' : Forall parg_ok args -> bind_str_ok args -> bind_typing args = Ok args' -> Forall parg_ok args'.
Proof.
  intros Ha Hb. unfold bind_typing. intros E.
  repeat match type of E with context [match ?x with _ => _ end] => destruct x; try discriminate E end.
  - injection E as <-. exact Ha.
  - injection E as <-. cbn [bind_str_ok] in Hb.
    inversion Ha as [|? ? H0 Ha']; subst. inversion Ha' as [|? ? H1 Ha'']; subst. inversion Ha'' as [|? ? H2 Ha3]; subst.
    repeat constructor; try assumption.
Qed.

Theorem resolve_msg_clean P d t m d' rm err : pdb_clean P -> db_clean d -> pmsg_ok m ->
  resolve_msg P d t m = (d', rm, err) -> db_clean d' /\ rmsg_ok rm.
Proof.
  intros HP Hd (Hty & Hname & Hargs & Hbind). unfold resolve_msg.
  set (target := resolve_ref d (p_id m) (p_type m)).
  assert (Htarget : ref_ok target) by (apply resolve_ref_ok; exact Hty).
  set (tty := ref_type d target).
  assert (Hbase : rmsg_ok (mkRmsg t target (p_sent m) (p_name m) (map unresolved_arg (p_args m)) None)).
  { split; [exact Htarget|]. split; [exact Hname|]. split; [|exact I]. cbn [m_args].
    apply unresolved_args_ok. exact Hargs. }
  set (is_bind := match tty with Some t0 => str_eqb t0 (s2l "wl_registry") && str_eqb (p_name m) (s2l "bind") | None => false end).
  assert (Hargs' : forall args, (if is_bind then bind_typing (p_args m) else Ok (p_args m)) = Ok args -> Forall parg_ok args).
  { intros args. destruct is_bind eqn:Eb; [|intros E; injection E as <-; exact Hargs].
    apply bind_typing_ok; [exact Hargs|]. apply Hbind. unfold is_bind in Eb. destruct tty; [|discriminate].
    apply andb_true_iff in Eb. apply Eb. }
  destruct (if is_bind then bind_typing (p_args m) else Ok (p_args m)) as [args|e msg].
  2:{ intros E. injection E as <- <- _. split; [exact Hd|exact Hbase]. }
  specialize (Hargs' args eq_refl).
  match goal with |- context [if ?c then ?a else ?b] => set (is_delete := c) end.
  match goal with |- context [match ?x with Ok _ => _ | Raise _ _ => _ end] =>
    assert (Hdel : forall d1 ds, x = Ok (d1, ds) -> db_clean d1 /\ match ds with Some r => ref_ok r | None => True end) end.
  { intros d1 ds. destruct is_delete; [|intros E; injection E as <- <-; split; [exact Hd|exact I]].
    destruct args as [|[v| | | | | | |] args0]; try discriminate.
    destruct (retrieve_latest d v None) as [o|e msg]; [|discriminate].
    destruct (db_get d v) as [l|] eqn:Eg; [|discriminate].
    intros E. injection E as <- <-. split; [|exact I]. apply db_set_clean; [exact Hd|].
    apply map_last_clean; [apply kill_ok|]. apply (db_get_clean _ _ _ Hd Eg). }
  match goal with |- context [match ?x with Ok _ => _ | Raise _ _ => _ end] => destruct x as [[d1 ds]|e msg] end.
  2:{ intros E. injection E as <- <- _. split; [exact Hd|exact Hbase]. }
  destruct (Hdel d1 ds eq_refl) as [Hd1 Hds].
  destruct (resolve_args P d1 t tty (p_name m) 0 args) as [[d2 rargs] err2] eqn:Er.
  destruct (resolve_args_clean _ _ _ _ _ _ _ _ _ _ HP Hd1 Hargs' Er) as [Hd2 Hr].
  intros E. injection E as <- <- _. split; [exact Hd2|]. split; [exact Htarget|]. split; [exact Hname|]. split; [exact Hr|exact Hds].
Qed.
