(* Proofs about the controller: live view (C06), list (C11), separators and time shift (C16). *)
From WD Require Import Base Wire Protocol Conn Color LetterId Matcher MatcherParse Show Session.
From Coq Require Import Lia.
Open Scope Z_scope.

(* ---- live view ------------------------------------------------------------------------------------ *)
Definition shown_msgs (o : list oline) : list (nat * rmsg) :=
  flat_map (fun x => match x with OMsg ci m _ => [(ci, m)] | _ => [] end) o.

Lemma shown_msgs_app a b : shown_msgs (a ++ b) = shown_msgs a ++ shown_msgs b.
Proof. unfold shown_msgs. apply flat_map_app. Qed.

Definition selected (cur : option nat) (ci : nat) : bool :=
  match cur with None => true | Some j => Nat.eqb j ci end.

Lemma show_message_shown on ci d cn last m :
  shown_msgs (fst (show_message on ci d cn last m)) = [(ci, m)].
Proof.
  unfold show_message. cbn [fst]. rewrite shown_msgs_app.
  destruct (1000000 <? match last with Some t => m_time m - t | None => 0 end);
  [|destruct (_ =? 1000000)]; reflexivity.
Qed.

(* one message: recorded always; shown iff selected and matching the filter, exactly once;
   stop requested iff selected and matching the breakpoint matcher; matchers and selection untouched *)
Theorem ctrl_on_message_spec on k ci d cn m k' outs stop :
  ctrl_on_message on k ci d cn m = (k', outs, stop) ->
  k_all k' = k_all k ++ [(ci, m)] /\
  k_display k' = k_display k /\ k_stop k' = k_stop k /\ k_current k' = k_current k /\
  shown_msgs outs = (if selected (k_current k) ci && matches (k_display k) (VM (view_msg d cn m))
                     then [(ci, m)] else []) /\
  stop = selected (k_current k) ci && matches (k_stop k) (VM (view_msg d cn m)).
Proof.
  unfold ctrl_on_message, selected. intros H.
  destruct (match k_current k with None => true | Some j => Nat.eqb j ci end) eqn:Es.
  - destruct (matches (k_display k) (VM (view_msg d cn m))) eqn:Ed.
    + destruct (show_message on ci d cn (k_last_shown k) m) as [o1 l1] eqn:Esh.
      injection H as <- <- <-. cbn [k_all k_display k_stop k_current andb].
      split; [reflexivity|]. split; [reflexivity|]. split; [reflexivity|]. split; [reflexivity|].
      split; [|reflexivity].
      rewrite shown_msgs_app.
      pose proof (show_message_shown on ci d cn (k_last_shown k) m) as X. rewrite Esh in X. cbn [fst] in X. rewrite X.
      destruct (matches (k_stop k) (VM (view_msg d cn m))); reflexivity.
    + injection H as <- <- <-. cbn [k_all k_display k_stop k_current andb].
      split; [reflexivity|]. split; [reflexivity|]. split; [reflexivity|]. split; [reflexivity|].
      split; [|reflexivity].
      destruct (matches (k_stop k) (VM (view_msg d cn m))); reflexivity.
  - injection H as <- <- <-. cbn [k_all k_display k_stop k_current andb].
    repeat split.
Qed.

(* controller-level histories: messages, filter changes, selection changes *)
Inductive cev :=
| CMsg (ci : nat) (d : db) (cn : str) (m : rmsg)
| CDisplay (f : mt)
| CSelect (c : option nat).

Definition cstep (on : bool) (k : ctrl) (e : cev) : ctrl * list oline :=
  match e with
  | CMsg ci d cn m => let '(k', o, _) := ctrl_on_message on k ci d cn m in (k', o)
  | CDisplay f => (mkCtrl f (k_stop k) (k_current k) (k_all k) (k_last_shown k), [])
  | CSelect c => (mkCtrl (k_display k) (k_stop k) c (k_all k) (k_last_shown k), [])
  end.

Fixpoint crun (on : bool) (k : ctrl) (es : list cev) : ctrl * list oline :=
  match es with
  | [] => (k, [])
  | e :: es' => let '(k1, o1) := cstep on k e in
                let '(k2, o2) := crun on k1 es' in (k2, o1 ++ o2)
  end.

(* the specification: filter and selection in force at the moment of arrival *)
Fixpoint spec_shown (disp : mt) (cur : option nat) (es : list cev) : list (nat * rmsg) :=
  match es with
  | [] => []
  | CMsg ci d cn m :: es' =>
      (if selected cur ci && matches disp (VM (view_msg d cn m)) then [(ci, m)] else [])
      ++ spec_shown disp cur es'
  | CDisplay f :: es' => spec_shown f cur es'
  | CSelect c :: es' => spec_shown disp c es'
  end.

Definition arrived (es : list cev) : list (nat * rmsg) :=
  flat_map (fun e => match e with CMsg ci _ _ m => [(ci, m)] | _ => [] end) es.

Theorem shown_exact on es : forall k,
  shown_msgs (snd (crun on k es)) = spec_shown (k_display k) (k_current k) es /\
  k_all (fst (crun on k es)) = k_all k ++ arrived es.
Proof.
  induction es as [|e es IH]; intros k; cbn [crun spec_shown arrived flat_map].
  - split; [reflexivity|symmetry; apply app_nil_r].
  - destruct e as [ci d cn m|f|c]; cbn [cstep].
    + destruct (ctrl_on_message on k ci d cn m) as [[k1 o1] st] eqn:E.
      destruct (ctrl_on_message_spec _ _ _ _ _ _ _ _ _ E) as (Hall & Hd & _ & Hc & Hs & _).
      destruct (crun on k1 es) as [k2 o2] eqn:E2. specialize (IH k1). rewrite E2 in IH. cbn [fst snd] in *.
      destruct IH as [IH1 IH2]. rewrite shown_msgs_app, Hs, IH1, Hd, Hc. split; [reflexivity|].
      rewrite IH2, Hall, <- app_assoc. reflexivity.
    + destruct (crun on _ es) as [k2 o2] eqn:E2. specialize (IH (mkCtrl f (k_stop k) (k_current k) (k_all k) (k_last_shown k))).
      rewrite E2 in IH. cbn in *. exact IH.
    + destruct (crun on _ es) as [k2 o2] eqn:E2. specialize (IH (mkCtrl (k_display k) (k_stop k) c (k_all k) (k_last_shown k))).
      rewrite E2 in IH. cbn in *. exact IH.
Qed.

(* ---- list ------------------------------------------------------------------------------------------- *)
Definition lastn {A} (n : nat) (l : list A) : list A := rev (firstn n (rev l)).

Lemma scan_matching_spec s m cap r : forall acc didnt res d ns,
  scan_matching s m cap r acc didnt = (res, d, ns) ->
  (match cap with Some c => (List.length acc < c)%nat | None => True end) ->
  let f := fun x => matches m (msg_view s x) in
  let want := match cap with
              | Some c => firstn (c - List.length acc) (filter f r)
              | None => filter f r end in
  res = rev want ++ acc /\
  (List.length res + d + ns = List.length acc + didnt + List.length r)%nat.
Proof.
  induction r as [|x r IH]; intros acc didnt res d ns H Hcap; cbn [scan_matching] in H.
  - injection H as <- <- <-. cbn zeta. cbn [filter List.length]. split; [|lia].
    destruct cap; rewrite ?firstn_nil; reflexivity.
  - cbn zeta. cbn [filter]. destruct (matches m (msg_view s x)) eqn:Em.
    + destruct cap as [c|].
      * destruct (Nat.leb c (List.length (x :: acc))) eqn:El.
        -- injection H as <- <- <-. apply Nat.leb_le in El. cbn [List.length] in *.
           assert (c - List.length acc = 1)%nat by lia. rewrite H. cbn. split; [reflexivity|lia].
        -- apply Nat.leb_gt in El. cbn [List.length] in El.
           destruct (IH _ _ _ _ _ H El) as [R1 R2]. cbn [List.length] in *.
           replace (c - List.length acc)%nat with (S (c - S (List.length acc))) by lia.
           split; [|lia]. cbn [firstn rev]. rewrite R1, <- app_assoc. reflexivity.
      * destruct (IH _ _ _ _ _ H I) as [R1 R2]. cbn [rev List.length] in *.
        split; [|lia]. rewrite R1, <- app_assoc. reflexivity.
    + destruct (IH _ _ _ _ _ H Hcap) as [R1 R2]. cbn [List.length] in *. split; [exact R1|lia].
Qed.

Lemma filter_rev {A} (f : A -> bool) l : filter f (rev l) = rev (filter f l).
Proof.
  induction l as [|x l IH]; [reflexivity|]. cbn. rewrite filter_app, IH. cbn.
  destruct (f x); cbn; [reflexivity|rewrite app_nil_r; reflexivity].
Qed.

(* `list`: exactly the matching recorded messages, oldest first; with a cap N >= 1 exactly the
   last N of them; the three counts add up to the number of recorded messages *)
Theorem list_exact s m (cap : option nat) msgs res d ns :
  (match cap with Some c => (0 < c)%nat | None => True end) ->
  scan_matching s m cap (rev msgs) [] 0 = (res, d, ns) ->
  let matching := filter (fun x => matches m (msg_view s x)) msgs in
  res = (match cap with Some c => lastn c matching | None => matching end) /\
  (List.length res + d + ns = List.length msgs)%nat.
Proof.
  intros Hc H. destruct (scan_matching_spec _ _ _ _ _ _ _ _ _ H) as [R1 R2].
  { destruct cap; cbn; [exact Hc|exact I]. }
  cbn zeta in *. rewrite app_nil_r in R1. rewrite rev_length in R2. cbn in R2. split; [|lia].
  rewrite R1. destruct cap as [c|].
  - unfold lastn. rewrite filter_rev. cbn. rewrite Nat.sub_0_r. reflexivity.
  - rewrite filter_rev, rev_involutive. reflexivity.
Qed.

(* listing is read-only: filter, breakpoint matcher, selection and every record stay as they were *)
Theorem show_messages_readonly s m cap s' o :
  show_messages s m cap = (s', o) ->
  s_conns s' = s_conns s /\ k_display (s_ctrl s') = k_display (s_ctrl s) /\
  k_stop (s_ctrl s') = k_stop (s_ctrl s) /\ k_current (s_ctrl s') = k_current (s_ctrl s) /\
  k_all (s_ctrl s') = k_all (s_ctrl s) /\ s_paused s' = s_paused s /\ s_quit s' = s_quit s.
Proof.
  unfold show_messages. intros H.
  destruct (scan_matching _ _ _ _ _ _) as [[matching d] ns].
  destruct matching.
  - injection H as <- _. repeat split.
  - destruct (fold_left _ _ _) as [outs l]. injection H as <- _. repeat split.
Qed.

(* ---- separators (C16) ------------------------------------------------------------------------------- *)
Definition is_sep (o : oline) : bool :=
  match o with OOut (_ :: Txt (32%N :: 32%N :: 32%N :: 32%N :: 9472%N :: _) :: Time0 _ :: _) => true | _ => false end.

(* a separator is printed in front of a shown message iff a message was shown before it in the
   same run and the gap exceeds one second (exactly one second: rounding decides); its text is the gap *)
Theorem separator_iff on ci d cn last m :
  let outs := fst (show_message on ci d cn last m) in
  let gap := match last with Some t => m_time m - t | None => 0 end in
  (1000000 < gap -> outs = [OOut (sep_line on gap); OMsg ci m (show_msg on d cn m)]) /\
  (gap < 1000000 -> outs = [OMsg ci m (show_msg on d cn m)]) /\
  (gap = 1000000 -> outs = [OMaybe (sep_line on gap); OMsg ci m (show_msg on d cn m)]) /\
  snd (show_message on ci d cn last m) = Some (m_time m).
Proof.
  unfold show_message. cbn [fst snd]. repeat split; intros Hg.
  - destruct (1000000 <? _) eqn:E; [reflexivity|lia].
  - destruct (1000000 <? _) eqn:E; [lia|]. destruct (_ =? 1000000) eqn:E2; [lia|reflexivity].
  - destruct (1000000 <? _) eqn:E; [lia|]. destruct (_ =? 1000000) eqn:E2; [reflexivity|lia].
Qed.
