(* LabelMatcher.v — C14, second half: a displayed label used as a matcher.  Corollary of the C05
   theorems (DocParseF.parse_render and DocSemTop.simplified_means_doc) at the two expressions the
   tool's own labels are: `NAME: ID LETTERS` and `NAME:`. *)
From WD Require Import Base Wire Conn Color LetterId Matcher MatcherParse Doc.
From WD Require Import DocLay LetterIdProofs ProtocolProofs MatcherProofs DocSemLevels DocSemTop DocParseE DocParseF DocLayC DocLayD.
From Coq Require Import Lia.
Open Scope Z_scope.

Definition label_expr (cname : str) (id : Z) (letters : str) : dtop :=
  TPats [mkDpat (Some (TWord cname)) (BBare (OId None id letters))] [].
Definition conn_expr (cname : str) : dtop :=
  TPats [mkDpat (Some (TWord cname)) (BBare OAny)] [].

(* what the message says about the object (id, generation g) *)
Definition is_obj (id : Z) (g : N) (o : vobj) : bool := (vo_id o =? id) && (gen_of o =? Z.of_N g).
Definition involves (id : Z) (g : N) (m : vmsg) : bool :=
  is_obj id g (vm_obj m)
  || existsb (fun a => match va_val a with VAObj ob true => is_obj id g ob | _ => false end) (vm_args m)
  || match vm_destroyed m with Some ob => is_obj id g ob | None => false end
  || existsb (fun a => match arg_as_obj a with Some ob => is_obj id g ob | None => false end) (vm_args m).
Definition conn_is (cname : str) (m : vmsg) : bool :=
  word_matches cname (match vm_conn m with Some n => n | None => s2l "unknown" end).

Lemma lower_is_letter s : lower_letters s -> wf_letters s = true.
Proof.
  unfold lower_letters, wf_letters. intros H. apply forallb_forall. intros c Hc.
  rewrite forallb_forall in H. unfold is_letter. rewrite (H c Hc). reflexivity.
Qed.

Lemma den_label_obj id g o : den_obj (OId None id (n2l false g)) o = is_obj id g o.
Proof.
  destruct (n2l_lower_spec g) as (_ & _ & Hne).
  cbn [den_obj]. unfold is_obj. destruct (n2l false g) as [|c s] eqn:E; [contradiction|].
  rewrite <- E. unfold letters_value. rewrite l2n_n2l. reflexivity.
Qed.

Lemma den_label cname id g m :
  denote (label_expr cname id (n2l false g)) m = conn_is cname m && involves id g m.
Proof.
  unfold label_expr, denote, den_list, den_pat, creates, destroys, mentions, involves, conn_is.
  cbn [existsb dp_conn dp_body den_conn den_text negb andb orb].
  rewrite !orb_false_r, !andb_true_r. rewrite den_label_obj. f_equal. f_equal; [f_equal; [f_equal|]|].
  - apply existsb_ext_in. intros a _. destruct (va_val a) as [| | | |ob [|]| |]; try reflexivity. apply den_label_obj.
  - destruct (vm_destroyed m); [apply den_label_obj|reflexivity].
  - apply existsb_ext_in. intros a _. destruct (arg_as_obj a); [apply den_label_obj|reflexivity].
Qed.

Lemma label_wf cname id g : wf_word cname = true -> 0 <= id -> wf_top (label_expr cname id (n2l false g)) = true.
Proof.
  intros Hc Hid. destruct (n2l_lower_spec g) as (Hl & _ & _).
  unfold label_expr, wf_top, wf_pat, wf_text, wf_tword, wf_obj. cbn [forallb dp_conn dp_body andb].
  rewrite Hc, orb_true_r, (lower_is_letter _ Hl). apply Z.leb_le in Hid. rewrite Hid. reflexivity.
Qed.

(* `NAME: 7c`, with 0, 1 or 2 blanks at every place the parser strips them *)
Theorem label_as_matcher : forall lay cname id g m,
  wf_word cname = true -> 0 <= id ->
  exists p, parse_simplify (Doc.render lay (label_expr cname id (n2l false g))) = Ok p
            /\ matches p (VM m) = conn_is cname m && involves id g m.
Proof.
  intros lay cname id g m Hc Hid.
  pose proof (label_wf cname id g Hc Hid) as W.
  destruct (parse_render lay _ W) as [p [Hp Hs]]; [reflexivity|unfold bracket_depth_ok; cbn; lia|].
  exists (simplify p). split; [unfold parse_simplify; rewrite Hp; reflexivity|].
  rewrite Hs, simplified_means_doc_simple; [apply den_label|exact W|reflexivity].
Qed.

(* `NAME:` selects exactly the messages of that connection *)
Theorem conn_as_matcher : forall lay cname m,
  wf_word cname = true ->
  exists p, parse_simplify (Doc.render lay (conn_expr cname)) = Ok p /\ matches p (VM m) = conn_is cname m.
Proof.
  intros lay cname m Hc.
  assert (W : wf_top (conn_expr cname) = true).
  { unfold conn_expr, wf_top, wf_pat, wf_text, wf_tword, wf_obj. cbn [forallb dp_conn dp_body andb]. rewrite Hc, orb_true_r. reflexivity. }
  destruct (parse_render lay _ W) as [p [Hp Hs]]; [reflexivity|unfold bracket_depth_ok; cbn; lia|].
  exists (simplify p). split; [unfold parse_simplify; rewrite Hp; reflexivity|].
  rewrite Hs, simplified_means_doc_simple; [|exact W|reflexivity].
  unfold conn_expr, denote, den_list, den_pat, conn_is. cbn. rewrite !andb_true_r, ?orb_false_r. reflexivity.
Qed.

(* the same for EVERY white-space placement, in particular the tool's own spelling `NAME: IDletters` *)
Theorem label_as_matcher_any : forall s cname id g m,
  wf_word cname = true -> 0 <= id -> Renders (label_expr cname id (n2l false g)) s ->
  exists p, parse_simplify s = Ok p /\ matches p (VM m) = conn_is cname m && involves id g m.
Proof.
  intros s cname id g m Hc Hid R.
  pose proof (label_wf cname id g Hc Hid) as W.
  destruct (parse_renders _ s W) as [p [Hp Hs]]; [reflexivity|unfold bracket_depth_ok; cbn; lia|exact R|].
  exists (simplify p). split; [unfold parse_simplify; rewrite Hp; reflexivity|].
  rewrite Hs, simplified_means_doc_simple; [apply den_label|exact W|reflexivity].
Qed.

Definition label_text_of (cname : str) (id : Z) (letters : str) : str := cname ++ s2l ": " ++ z_to_dec id ++ letters.

Lemma label_spelling_gen cname id letters : Renders (label_expr cname id letters) (label_text_of cname id letters).
Proof.
  unfold label_expr, label_text_of.
  apply (R_pats _ _ [cname ++ s2l ": " ++ z_to_dec id ++ letters] []); [|constructor|].
  - constructor; [|constructor].
    change (cname ++ s2l ": " ++ z_to_dec id ++ letters) with (cname ++ ([] ++ 58%N :: [32%N]) ++ r_id None id letters).
    rewrite app_assoc. apply Rpat_intro; cbn [dp_conn dp_body].
    + apply Rc_some; [constructor|reflexivity|reflexivity].
    + apply Rb_bare. constructor.
  - apply PB_pos.
    pose proof (PJ_one [] (cname ++ s2l ": " ++ z_to_dec id ++ letters) [] eq_refl eq_refl) as H.
    cbn [app] in H. rewrite app_nil_r in H. exact H.
Qed.

(* `B: 7c` as the tool prints it *)
Theorem displayed_label_as_matcher : forall cname id g m,
  wf_word cname = true -> 0 <= id ->
  exists p, parse_simplify (label_text_of cname id (n2l false g)) = Ok p
            /\ matches p (VM m) = conn_is cname m && involves id g m.
Proof. intros. apply label_as_matcher_any; [assumption|assumption|apply label_spelling_gen]. Qed.

Example displayed_label_text : label_text_of (s2l "B") 7 (n2l false 2) = s2l "B: 7c".
Proof. vm_compute. reflexivity. Qed.

(* a name without `*` matches by equality; connection names A, B, ..., Z, AA, ... are such words *)
Lemma word_matches_plain w s : mem_char 42%N w = false -> word_matches w s = str_eqb w s.
Proof.
  intros H. unfold word_matches. rewrite H.
  destruct (str_eqb w [42%N]) eqn:E; [|reflexivity].
  apply str_eqb_eq in E. subst w. discriminate H.
Qed.

Example label_text : Doc.render 0 (label_expr (s2l "B") 7 (n2l false 2)) = s2l "B:7c"
  /\ Doc.render 1 (label_expr (s2l "B") 7 (n2l false 2)) = s2l " B : 7c "
  /\ wf_word (conn_name 1) = true /\ wf_word (conn_name 700) = true.
Proof. vm_compute. repeat split. Qed.

Print Assumptions label_as_matcher.
Print Assumptions displayed_label_as_matcher.
Print Assumptions conn_as_matcher.
