(* PastedCommands.v — C17, third clause: coloured text pasted back as a command is understood exactly
   as the uncoloured text.

   Controller.process_command strips the typed line, splits it at the first white-space character,
   removes colour sequences from both halves, ignores a first word made only of colour sequences,
   follows `w` / `wl` prefixes and resolves the abbreviation ([resolve_cmd], Model/Session.v).
   Here: a line [c] and its colour-stripped version [no_color c] resolve to the same command, the same
   argument text and the same output lines ([pasted_command]).

   Two hypotheses, both needed (examples at the end of the file):
   - [no_color] is one left-to-right pass, so stripping `ESC [ ESC [ 0 m 0 m` leaves `ESC [ 0 m`; the
     stripped line then loses a second level.  The statement is for lines on which one pass leaves
     nothing to strip (true of everything the tool colours itself: [pasted_command_plain]).
   - a first word made only of colour sequences costs the coloured line one recursion step that the
     plain line does not pay; the statement is: if the coloured line resolves within the fuel, the plain
     line resolves to the same result with the same fuel. *)
From WD Require Import Base Color Session.
From WD Require Import ColorProofs DocParseA.
From Coq Require Import List NArith Bool Lia.
Import ListNotations.
Open Scope N_scope.

Definition has_oom (l : list oline) : bool := existsb (fun o => match o with OOM => true | _ => false end) l.

Lemma has_oom_app a b : has_oom (a ++ b) = has_oom a || has_oom b.
Proof. unfold has_oom. apply existsb_app. Qed.

(* ---- generic scanners ------------------------------------------------------------------------------ *)
Lemma pc_take_drop {A} (p : A -> bool) l : take_while p l ++ drop_while p l = l.
Proof.
  induction l as [|x l IH]; [reflexivity|]. cbn [take_while drop_while].
  destruct (p x); [|reflexivity]. cbn [app]. rewrite IH. reflexivity.
Qed.

Lemma pc_take_while_forall {A} (p : A -> bool) l : forallb p (take_while p l) = true.
Proof.
  induction l as [|x l IH]; [reflexivity|]. cbn [take_while].
  destruct (p x) eqn:Ex; [|reflexivity]. cbn [forallb]. rewrite Ex, IH. reflexivity.
Qed.

Lemma pc_drop_while_head {A} (p : A -> bool) l x r : drop_while p l = x :: r -> p x = false.
Proof.
  induction l as [|y l IH]; [discriminate|]. cbn [drop_while]. destruct (p y) eqn:Ey; [exact IH|].
  intros E. injection E as <- _. exact Ey.
Qed.

Lemma pc_take_while_stop {A} (p : A -> bool) a c r :
  forallb p a = true -> p c = false -> take_while p (a ++ c :: r) = a.
Proof.
  intros Ha Hc. induction a as [|x a IH]; cbn [app take_while].
  - rewrite Hc. reflexivity.
  - cbn [forallb] in Ha. apply andb_true_iff in Ha. destruct Ha as [H1 H2]. rewrite H1, (IH H2). reflexivity.
Qed.

Lemma pc_drop_while_stop {A} (p : A -> bool) a c r :
  forallb p a = true -> p c = false -> drop_while p (a ++ c :: r) = c :: r.
Proof.
  intros Ha Hc. induction a as [|x a IH]; cbn [app drop_while].
  - rewrite Hc. reflexivity.
  - cbn [forallb] in Ha. apply andb_true_iff in Ha. destruct Ha as [H1 H2]. rewrite H1. apply (IH H2).
Qed.

Lemma pc_take_while_all {A} (p : A -> bool) a : forallb p a = true -> take_while p a = a.
Proof.
  induction a as [|x a IH]; [reflexivity|]. cbn [forallb take_while]. intros Ha.
  apply andb_true_iff in Ha. destruct Ha as [H1 H2]. rewrite H1, (IH H2). reflexivity.
Qed.

Lemma pc_drop_while_app {A} (f : A -> bool) u v :
  drop_while f (u ++ v) = match drop_while f u with [] => drop_while f v | x :: d => (x :: d) ++ v end.
Proof.
  induction u as [|a u IH]; [reflexivity|]. cbn [app drop_while]. destruct (f a); [exact IH|reflexivity].
Qed.

Lemma app_inj_len {A} : forall (a a' b b' : list A),
  List.length a = List.length a' -> a ++ b = a' ++ b' -> a = a' /\ b = b'.
Proof.
  induction a as [|x a IH]; intros [|y a'] b b' HL E; try discriminate HL.
  - split; [reflexivity|exact E].
  - cbn [app] in E. injection E as -> E. cbn [List.length] in HL. injection HL as HL.
    destruct (IH _ _ _ HL E) as [-> ->]. split; reflexivity.
Qed.

(* ---- white space is not part of a colour sequence ------------------------------------------------- *)
Lemma space_not_esc w : is_space w = true -> w <> 27.
Proof. intros H ->. vm_compute in H. discriminate H. Qed.
Lemma space_not_bracket w : is_space w = true -> w <> 91.
Proof. intros H ->. vm_compute in H. discriminate H. Qed.
Lemma space_not_m w : is_space w = true -> w <> 109.
Proof. intros H ->. vm_compute in H. discriminate H. Qed.

Lemma space_not_body w : is_space w = true -> is_sgr_body w = false.
Proof.
  intros H. destruct (is_sgr_body w) eqn:E; [|reflexivity]. exfalso.
  unfold is_sgr_body, is_digit, in_range in E. apply orb_true_iff in E.
  rewrite andb_true_iff, !N.leb_le, N.eqb_eq in E.
  assert (K : w = 48 \/ w = 49 \/ w = 50 \/ w = 51 \/ w = 52 \/ w = 53 \/ w = 54 \/ w = 55 \/ w = 56 \/ w = 57 \/ w = 59) by lia.
  repeat (destruct K as [->|K]; [vm_compute in H; discriminate H|]). subst w. vm_compute in H. discriminate H.
Qed.

Lemma blank_esc_free b : blank b -> esc_free b.
Proof.
  unfold blank, esc_free. induction b as [|w b IH]; [reflexivity|]. cbn [forallb]. intros H.
  apply andb_true_iff in H. destruct H as [Hw Hb]. rewrite (IH Hb), andb_true_r.
  apply negb_true_iff, N.eqb_neq, space_not_esc. exact Hw.
Qed.

(* ---- no_color, one step at a time -------------------------------------------------------------------- *)
Lemma nc_esc_other d s : d <> 91 -> no_color (27 :: d :: s) = 27 :: no_color (d :: s).
Proof.
  intros Hd. unfold no_color at 1. cbn [List.length]. rewrite (nc_step_esc_other _ d s Hd). f_equal.
Qed.

Lemma nc_csi s : no_color (27 :: 91 :: s) =
  match match_sgr s with Some rest => no_color rest | None => 27 :: 91 :: no_color s end.
Proof.
  unfold no_color at 1. cbn [List.length]. rewrite nc_step_csi. destruct (match_sgr s) as [rest|] eqn:E.
  - apply no_color_unfold. apply match_sgr_len in E. lia.
  - rewrite nc_step_nonesc by discriminate. reflexivity.
Qed.

(* induction along the pass of no_color *)
Lemma nc_ind (Q : str -> str -> Prop) :
  Q [] [] ->
  (forall c s, c <> 27 -> Q s (no_color s) -> Q (c :: s) (c :: no_color s)) ->
  Q [27] [27] ->
  (forall d s, d <> 91 -> Q (d :: s) (no_color (d :: s)) -> Q (27 :: d :: s) (27 :: no_color (d :: s))) ->
  (forall s rest, match_sgr s = Some rest -> Q rest (no_color rest) -> Q (27 :: 91 :: s) (no_color rest)) ->
  (forall s, match_sgr s = None -> Q s (no_color s) -> Q (27 :: 91 :: s) (27 :: 91 :: no_color s)) ->
  forall s, Q s (no_color s).
Proof.
  intros H0 H1 H2 H3 H4 H5 s. remember (List.length s) as n eqn:En. revert s En.
  induction n as [n IH] using lt_wf_ind. intros s En.
  destruct s as [|c s]; [exact H0|]. cbn [List.length] in En.
  destruct (N.eq_dec c 27) as [->|Hc].
  - destruct s as [|d s]; [exact H2|]. cbn [List.length] in En. destruct (N.eq_dec d 91) as [->|Hd].
    + rewrite nc_csi. destruct (match_sgr s) as [rest|] eqn:E.
      * apply H4; [exact E|]. apply (IH (List.length rest)); [|reflexivity]. apply match_sgr_len in E. lia.
      * apply H5; [exact E|]. apply (IH (List.length s)); [lia|reflexivity].
    + rewrite nc_esc_other by exact Hd. apply H3; [exact Hd|].
      apply (IH (List.length (d :: s))); [cbn [List.length]; lia|reflexivity].
  - rewrite no_color_cons by exact Hc. apply H1; [exact Hc|]. apply (IH (List.length s)); [lia|reflexivity].
Qed.

Lemma match_sgr_eq s :
  match_sgr s = match skip_sgr_body s with [] => None | m :: r => if N.eqb m 109 then Some r else None end.
Proof.
  unfold match_sgr. destruct (skip_sgr_body s) as [|m r]; [reflexivity|]. destruct m as [|p]; [reflexivity|].
  do 7 (destruct p as [p|p|]; try reflexivity).
Qed.

Lemma skip_app_space a w b : is_sgr_body w = false ->
  skip_sgr_body (a ++ w :: b) = match skip_sgr_body a with [] => w :: b | x :: r => (x :: r) ++ w :: b end.
Proof.
  intros Hw. induction a as [|c a IH]; cbn [app skip_sgr_body].
  - rewrite Hw. reflexivity.
  - destruct (is_sgr_body c); [exact IH|reflexivity].
Qed.

Lemma skip_forallb (P : char -> bool) s : forallb P s = true -> forallb P (skip_sgr_body s) = true.
Proof.
  induction s as [|c s IH]; [reflexivity|]. cbn [skip_sgr_body]. destruct (is_sgr_body c); [|auto].
  cbn [forallb]. intros H. apply andb_true_iff in H. apply IH, H.
Qed.

Lemma match_sgr_forallb (P : char -> bool) s rest :
  match_sgr s = Some rest -> forallb P s = true -> forallb P rest = true.
Proof.
  rewrite match_sgr_eq. intros E H. apply (skip_forallb P) in H.
  destruct (skip_sgr_body s) as [|m r]; [discriminate E|]. destruct (N.eqb m 109); [|discriminate E].
  injection E as <-. cbn [forallb] in H. apply andb_true_iff in H. apply H.
Qed.

(* (a) a white-space character cuts the text into two independently stripped parts *)
Lemma nc_space a w b : is_space w = true -> no_color (a ++ w :: b) = no_color a ++ w :: no_color b.
Proof.
  intros Hw. pose proof (space_not_esc w Hw) as H27. pose proof (space_not_bracket w Hw) as H91.
  pose proof (space_not_m w Hw) as H109. pose proof (space_not_body w Hw) as Hb.
  assert (Hm : forall s, match_sgr (s ++ w :: b) =
                         match match_sgr s with Some rest => Some (rest ++ w :: b) | None => None end).
  { intros s. rewrite !match_sgr_eq, skip_app_space by exact Hb.
    destruct (skip_sgr_body s) as [|m r]; cbn [app].
    - apply N.eqb_neq in H109. rewrite H109. reflexivity.
    - destruct (N.eqb m 109); reflexivity. }
  apply (nc_ind (fun a r => no_color (a ++ w :: b) = r ++ w :: no_color b)).
  - cbn [app]. apply no_color_cons. exact H27.
  - intros c s Hc IH. cbn [app]. rewrite no_color_cons by exact Hc. rewrite IH. reflexivity.
  - cbn [app]. rewrite nc_esc_other by exact H91. rewrite no_color_cons by exact H27. reflexivity.
  - intros d s Hd IH. cbn [app]. rewrite nc_esc_other by exact Hd.
    change (d :: s ++ w :: b) with ((d :: s) ++ w :: b). cbn [app] in IH |- *. f_equal. exact IH.
  - intros s rest E IH. cbn [app]. rewrite nc_csi, Hm, E. exact IH.
  - intros s E IH. cbn [app]. rewrite nc_csi, Hm, E, IH. reflexivity.
Qed.

Lemma nc_pad_l b x : blank b -> no_color (b ++ x) = b ++ no_color x.
Proof. intros Hb. apply no_color_esc_free, blank_esc_free, Hb. Qed.

Lemma nc_blank b : blank b -> no_color b = b.
Proof. intros Hb. apply no_color_esc_free', blank_esc_free, Hb. Qed.

Lemma nc_pad_r x b : blank b -> no_color (x ++ b) = no_color x ++ b.
Proof.
  intros Hb. destruct b as [|w b]; [rewrite !app_nil_r; reflexivity|].
  unfold blank in Hb. cbn [forallb] in Hb. apply andb_true_iff in Hb. destruct Hb as [Hw Hb].
  rewrite nc_space by exact Hw. rewrite (nc_blank b Hb). reflexivity.
Qed.

(* (b) stripping never adds characters: what holds of every character still holds *)
Lemma nc_forallb (P : char -> bool) s : forallb P s = true -> forallb P (no_color s) = true.
Proof.
  apply (nc_ind (fun s r => forallb P s = true -> forallb P r = true)).
  - auto.
  - intros c t _ IH H. cbn [forallb] in *. apply andb_true_iff in H. destruct H as [H1 H2]. rewrite H1, (IH H2). reflexivity.
  - auto.
  - intros d t _ IH H. cbn [forallb] in H. apply andb_true_iff in H. destruct H as [H1 H2].
    change (forallb P (27 :: no_color (d :: t))) with (P 27 && forallb P (no_color (d :: t))).
    rewrite H1, (IH H2). reflexivity.
  - intros t rest E IH H. apply IH. apply (match_sgr_forallb P t rest E).
    cbn [forallb] in H. apply andb_true_iff in H. destruct H as [_ H]. apply andb_true_iff in H. apply H.
  - intros t _ IH H. cbn [forallb] in *. apply andb_true_iff in H. destruct H as [H1 H]. apply andb_true_iff in H.
    destruct H as [H2 H3]. rewrite H1, H2, (IH H3). reflexivity.
Qed.

Lemma nc_length s : (List.length (no_color s) <= List.length s)%nat.
Proof.
  apply (nc_ind (fun s r => (List.length r <= List.length s)%nat)); cbn [List.length]; intros; try lia.
  match goal with E : match_sgr _ = Some _ |- _ => apply match_sgr_len in E end. lia.
Qed.

(* ---- "one pass leaves nothing to strip" passes to the parts ------------------------------------------ *)
Definition settled (s : str) : Prop := no_color (no_color s) = no_color s.

Lemma settled_space a w b : is_space w = true -> settled (a ++ w :: b) -> settled a /\ settled b.
Proof.
  unfold settled. intros Hw H. rewrite (nc_space a w b Hw), (nc_space _ w _ Hw) in H.
  pose proof (nc_length (no_color a)) as La. pose proof (nc_length (no_color b)) as Lb.
  assert (HL : List.length (no_color (no_color a)) = List.length (no_color a)).
  { apply (f_equal (@List.length _)) in H. rewrite !app_length in H. cbn [List.length] in H. lia. }
  destruct (app_inj_len _ _ _ _ HL H) as [E1 E2]. injection E2 as E2. split; assumption.
Qed.

Lemma settled_pad_l b x : blank b -> settled (b ++ x) -> settled x.
Proof.
  unfold settled. intros Hb H. rewrite (nc_pad_l b x Hb), (nc_pad_l b _ Hb) in H.
  apply app_inv_head in H. exact H.
Qed.

Lemma settled_pad_r x b : blank b -> settled (x ++ b) -> settled x.
Proof.
  unfold settled. intros Hb H. rewrite (nc_pad_r x b Hb), (nc_pad_r _ b Hb) in H.
  apply app_inv_tail in H. exact H.
Qed.

(* ---- strip and the first word ------------------------------------------------------------------------ *)
Lemma rstrip_app p q : rstrip (p ++ q) = match rstrip q with [] => rstrip p | _ :: _ => p ++ rstrip q end.
Proof.
  unfold rstrip. rewrite rev_app_distr, pc_drop_while_app.
  destruct (drop_while is_space (rev q)) as [|d D]; [reflexivity|].
  destruct (rev (d :: D)) as [|e E] eqn:Er.
  - exfalso. cbn [rev] in Er. symmetry in Er. exact (app_cons_not_nil _ _ _ Er).
  - rewrite <- Er, rev_app_distr, rev_involutive. reflexivity.
Qed.

Lemma rstrip_decomp y : exists b, blank b /\ y = rstrip y ++ b.
Proof.
  destruct (dp_drop_while_split is_space (rev y)) as [b [Hb E]].
  exists (rev b). split; [apply blank_rev; exact Hb|].
  unfold rstrip. rewrite <- rev_app_distr, <- E, rev_involutive. reflexivity.
Qed.

Lemma rstrip_space w : is_space w = true -> rstrip [w] = [].
Proof. intros Hw. unfold rstrip. cbn [rev app drop_while]. rewrite Hw. reflexivity. Qed.

Notation nsp := (fun c : char => negb (is_space c)).

Lemma sfs_decomp l :
  forallb nsp (fst (split_first_space l)) = true /\
  match snd (split_first_space l) with
  | None => l = fst (split_first_space l)
  | Some r => exists w, is_space w = true /\ l = fst (split_first_space l) ++ w :: r
  end.
Proof.
  unfold split_first_space. pose proof (pc_take_drop nsp l) as E. pose proof (pc_take_while_forall nsp l) as F.
  destruct (drop_while nsp l) as [|w r] eqn:D; cbn [fst snd]; (split; [exact F|]).
  - rewrite app_nil_r in E. symmetry. exact E.
  - exists w. split; [|symmetry; exact E]. apply pc_drop_while_head in D. apply negb_false_iff in D. exact D.
Qed.

Lemma sfs_word a : forallb nsp a = true -> split_first_space a = (a, None).
Proof.
  intros Ha. unfold split_first_space. rewrite (dp_drop_while_all _ a Ha), (pc_take_while_all _ a Ha). reflexivity.
Qed.

Lemma sfs_word_space a w r : forallb nsp a = true -> is_space w = true ->
  split_first_space (a ++ w :: r) = (a, Some r).
Proof.
  intros Ha Hw. unfold split_first_space.
  rewrite (pc_drop_while_stop _ a w r Ha), (pc_take_while_stop _ a w r Ha) by (rewrite Hw; reflexivity). reflexivity.
Qed.

(* a non-empty word followed by a white-space character and more text: strip only shortens the tail *)
Lemma sfs_strip_word_tail x A w Y : forallb nsp (x :: A) = true -> is_space w = true ->
  split_first_space (strip ((x :: A) ++ w :: Y)) =
  (x :: A, match rstrip Y with [] => None | _ :: _ => Some (rstrip Y) end).
Proof.
  intros HA Hw.
  assert (Hx : is_space x = false).
  { cbn [forallb] in HA. apply andb_true_iff in HA. destruct HA as [HA _]. apply negb_true_iff in HA. exact HA. }
  assert (HrA : rstrip (x :: A) = x :: A).
  { pose proof (strip_nonblank_all (x :: A) HA) as S. unfold strip in S. rewrite (lstrip_cons x A Hx) in S. exact S. }
  unfold strip. cbn [app]. rewrite (lstrip_cons x _ Hx).
  change (x :: A ++ w :: Y) with ((x :: A) ++ [w] ++ Y).
  rewrite (rstrip_app (x :: A)), (rstrip_app [w] Y).
  destruct (rstrip Y) as [|y Y'].
  - rewrite (rstrip_space w Hw), HrA. apply sfs_word. exact HA.
  - cbn [app]. apply (sfs_word_space (x :: A) w (y :: Y') HA Hw).
Qed.

(* ---- one step of resolve_cmd ------------------------------------------------------------------------- *)
Definition rc_first (c : str) : str := strip (no_color (fst (split_first_space (strip c)))).
Definition rc_second (c : str) : str :=
  match snd (split_first_space (strip c)) with Some r => strip (no_color r) | None => [] end.

Notation result := (list oline * option (str * str))%type.

(* the step, given the result [v] of the recursive call on the second half *)
Definition rc_step (v : result) (on : bool) (first second : str) : result :=
  match first, second with
  | [], _ :: _ => v
  | _, _ =>
      let '(first1, pre) :=
        match first with
        | [] => (s2l "help", [error_line on (txt (s2l "No command specified"))])
        | _ => (first, [])
        end in
      if str_eqb first1 [119%N] || str_eqb first1 (s2l "wl") then
        let '(o, r) := v in (pre ++ o, r)
      else
        let first2 := if starts_with (s2l "wl") first1 then skipn 2 first1 else first1 in
        let '(cmd, errs) := get_command' on first2 in
        match cmd with
        | Some name => (pre ++ errs, Some (name, second))
        | None => (pre ++ errs, None)
        end
  end.

Lemma resolve_S f on c :
  resolve_cmd (S f) on c = rc_step (resolve_cmd f on (rc_second c)) on (rc_first c) (rc_second c).
Proof.
  unfold rc_first, rc_second. cbn [resolve_cmd]. destruct (split_first_space (strip c)) as [a0 a1]. reflexivity.
Qed.

Definition rc_tail (v : result) (on : bool) (first1 : str) (pre : list oline) (second : str) : result :=
  if str_eqb first1 [119%N] || str_eqb first1 (s2l "wl") then
    let '(o, r) := v in (pre ++ o, r)
  else
    let first2 := if starts_with (s2l "wl") first1 then skipn 2 first1 else first1 in
    let '(cmd, errs) := get_command' on first2 in
    match cmd with
    | Some name => (pre ++ errs, Some (name, second))
    | None => (pre ++ errs, None)
    end.

Lemma rc_step_eq v on fi se :
  rc_step v on fi se =
  match fi with
  | [] => match se with
          | [] => rc_tail v on (s2l "help") [error_line on (txt (s2l "No command specified"))] []
          | _ :: _ => v
          end
  | _ :: _ => rc_tail v on fi [] se
  end.
Proof. destruct fi, se; reflexivity. Qed.

(* the step looks at the recursive result only where that result's lines are part of its own *)
Lemma rc_tail_uses v v' on f1 pre se : has_oom (fst (rc_tail v on f1 pre se)) = false ->
  (has_oom (fst v) = false -> v' = v) -> rc_tail v' on f1 pre se = rc_tail v on f1 pre se.
Proof.
  unfold rc_tail. destruct (_ || _); [|reflexivity].
  destruct v as [o r]. cbn [fst]. rewrite has_oom_app. intros H K. apply orb_false_iff in H.
  rewrite (K (proj2 H)). reflexivity.
Qed.

Lemma rc_step_uses v v' on fi se : has_oom (fst (rc_step v on fi se)) = false ->
  (has_oom (fst v) = false -> v' = v) -> rc_step v' on fi se = rc_step v on fi se.
Proof.
  rewrite !rc_step_eq. destruct fi as [|x fi].
  - destruct se as [|y se]; [apply rc_tail_uses|]. intros H K. exact (K H).
  - apply rc_tail_uses.
Qed.

(* out-of-model lines come from fuel exhaustion only, and more fuel changes nothing once there are none *)
Lemma resolve_mono on : forall f c, has_oom (fst (resolve_cmd f on c)) = false ->
  resolve_cmd (S f) on c = resolve_cmd f on c.
Proof.
  induction f as [|f IH]; intros c H; [discriminate H|].
  rewrite (resolve_S (S f) on c), (resolve_S f on c). rewrite (resolve_S f on c) in H.
  apply rc_step_uses; [exact H|]. intros K. apply IH. exact K.
Qed.

(* only the stripped line matters *)
Lemma resolve_strip f on x y : strip x = strip y -> resolve_cmd f on x = resolve_cmd f on y.
Proof.
  intros E. destruct f as [|f]; [reflexivity|]. rewrite (resolve_S f on x), (resolve_S f on y).
  unfold rc_first, rc_second. rewrite E. reflexivity.
Qed.

Lemma rc_second_stripped c : strip (rc_second c) = rc_second c.
Proof. unfold rc_second. destruct (snd (split_first_space (strip c))); [apply strip_idem|reflexivity]. Qed.

(* ---- the two halves of the coloured line and of the plain line ------------------------------------------ *)
(* (c) on an already stripped line [l]: either both lines have the same two halves, or the first word
   of the coloured line is colour only and the plain line is exactly its second half *)
Lemma halves_stripped l : settled l ->
  (strip (no_color (fst (split_first_space (strip (no_color l))))) = strip (no_color (fst (split_first_space l))) /\
   match snd (split_first_space (strip (no_color l))) with Some r => strip (no_color r) | None => [] end =
   match snd (split_first_space l) with Some r => strip (no_color r) | None => [] end) \/
  (strip (no_color (fst (split_first_space l))) = [] /\
   match snd (split_first_space l) with Some r => strip (no_color r) | None => [] end <> [] /\
   strip (no_color l) = match snd (split_first_space l) with Some r => strip (no_color r) | None => [] end).
Proof.
  intros Hid. destruct (sfs_decomp l) as [Ha Ht].
  destruct (split_first_space l) as [a0 t]. cbn [fst snd] in *.
  pose proof (nc_forallb nsp a0 Ha) as HA.
  destruct t as [r|].
  - destruct Ht as [w [Hw El]]. subst l. destruct (settled_space a0 w r Hw Hid) as [Ia Ir]. unfold settled in Ia, Ir.
    rewrite (nc_space a0 w r Hw).
    destruct (no_color a0) as [|x A] eqn:EA.
    + (* the first word is colour only *)
      cbn [app]. change (w :: no_color r) with ([w] ++ no_color r).
      rewrite (strip_blank_app [w]) by (unfold blank; cbn [forallb]; rewrite Hw; reflexivity).
      destruct (strip (no_color r)) as [|y Y] eqn:ES.
      * left. split; reflexivity.
      * right. split; [reflexivity|]. split; [discriminate|reflexivity].
    + left. rewrite (sfs_strip_word_tail x A w (no_color r) HA Hw). cbn [fst snd]. rewrite Ia.
      split; [reflexivity|].
      destruct (rstrip_decomp (no_color r)) as [b [Hb Eb]].
      destruct (rstrip (no_color r)) as [|y Y'] eqn:ER.
      * cbn [app] in Eb. rewrite Eb. symmetry. apply strip_blank. exact Hb.
      * rewrite <- Ir. rewrite Eb. rewrite (nc_pad_r _ b Hb), (strip_app_blank _ b Hb). reflexivity.
  - subst l. unfold settled in Hid. left.
    rewrite (strip_nonblank_all (no_color a0) HA), (sfs_word _ HA). cbn [fst snd]. rewrite Hid, (strip_nonblank_all (no_color a0) HA).
    split; reflexivity.
Qed.

Lemma halves c : settled c ->
  (rc_first (no_color c) = rc_first c /\ rc_second (no_color c) = rc_second c) \/
  (rc_first c = [] /\ rc_second c <> [] /\ strip (no_color c) = rc_second c).
Proof.
  intros Hid. destruct (strip_decomp c) as [b1 [b2 [H1 [H2 E]]]].
  assert (Hl : settled (strip c)).
  { rewrite E in Hid. apply (settled_pad_l b1 _ H1) in Hid. apply (settled_pad_r _ b2 H2) in Hid. exact Hid. }
  assert (Es : strip (no_color c) = strip (no_color (strip c))).
  { rewrite E at 1. rewrite (nc_pad_l b1 _ H1), (nc_pad_r _ b2 H2), (strip_blank_app b1 _ H1), (strip_app_blank _ b2 H2).
    reflexivity. }
  unfold rc_first, rc_second. rewrite Es. apply halves_stripped. exact Hl.
Qed.

(* ---- the theorem -------------------------------------------------------------------------------------- *)
Theorem pasted_command : forall fuel on c,
  no_color (no_color c) = no_color c ->
  has_oom (fst (resolve_cmd fuel on c)) = false ->
  resolve_cmd fuel on (no_color c) = resolve_cmd fuel on c.
Proof.
  intros fuel on c Hid H. destruct fuel as [|f]; [discriminate H|].
  destruct (halves c Hid) as [[E1 E2]|[E1 [E2 E3]]].
  - rewrite (resolve_S f on (no_color c)), (resolve_S f on c), E1, E2. reflexivity.
  - rewrite (resolve_strip (S f) on (no_color c) (rc_second c)) by (rewrite rc_second_stripped; exact E3).
    rewrite (resolve_S f on c), rc_step_eq, E1 in *.
    destruct (rc_second c) as [|y Y]; [exfalso; apply E2; reflexivity|].
    apply resolve_mono. exact H.
Qed.

(* text without any escape character left after one pass: everything the tool colours itself *)
Corollary pasted_command_plain fuel on c :
  esc_free (no_color c) ->
  has_oom (fst (resolve_cmd fuel on c)) = false ->
  resolve_cmd fuel on (no_color c) = resolve_cmd fuel on c.
Proof. intros He. apply pasted_command. apply no_color_esc_free'. exact He. Qed.

(* the whole command, not only its resolution *)
Corollary pasted_process_command fuel s c :
  no_color (no_color c) = no_color c ->
  has_oom (fst (resolve_cmd fuel (s_color s) c)) = false ->
  process_command fuel s (no_color c) = process_command fuel s c.
Proof. intros Hid H. unfold process_command. rewrite (pasted_command fuel (s_color s) c Hid H). reflexivity. Qed.

(* ---- examples ------------------------------------------------------------------------------------------- *)
(* a colour sequence followed by a blank, then the command: the case repaired last (D13) *)
Definition ex_reset_list : str := [27; 91; 48; 109] ++ s2l " list wl_surface".
(* ESC[1;37mlistESC[0m wl_surface *)
Definition ex_white_list : str := csi (s2l "1;37") ++ s2l "list" ++ reset ++ s2l " wl_surface".

Example ex_reset_list_coloured : resolve_cmd 200 false ex_reset_list = ([], Some (s2l "list", s2l "wl_surface")).
Proof. vm_compute. reflexivity. Qed.
Example ex_reset_list_plain : resolve_cmd 200 false (no_color ex_reset_list) = ([], Some (s2l "list", s2l "wl_surface")).
Proof. vm_compute. reflexivity. Qed.
Example ex_reset_list_hyps :
  no_color (no_color ex_reset_list) = no_color ex_reset_list /\
  has_oom (fst (resolve_cmd 200 false ex_reset_list)) = false /\ no_color ex_reset_list <> ex_reset_list.
Proof. split; [vm_compute; reflexivity|]. split; [vm_compute; reflexivity|]. vm_compute. discriminate. Qed.

Example ex_white_list_coloured : resolve_cmd 200 true ex_white_list = ([], Some (s2l "list", s2l "wl_surface")).
Proof. vm_compute. reflexivity. Qed.
Example ex_white_list_plain : resolve_cmd 200 true (no_color ex_white_list) = ([], Some (s2l "list", s2l "wl_surface")).
Proof. vm_compute. reflexivity. Qed.

(* the fuel hypothesis is needed: the colour-only first word costs the coloured line one step *)
Example ex_fuel_needed :
  resolve_cmd 1 false ex_reset_list = ([OOM], None) /\
  resolve_cmd 1 false (no_color ex_reset_list) = ([], Some (s2l "list", s2l "wl_surface")).
Proof. split; vm_compute; reflexivity. Qed.

(* the first hypothesis is needed: a sequence inside a sequence survives one pass, the plain line
   then loses it and means something else *)
Definition ex_nested : str := [27; 91; 27; 91; 48; 109; 48; 109] ++ s2l "list x".
Example ex_settled_needed :
  no_color (no_color ex_nested) <> no_color ex_nested /\
  has_oom (fst (resolve_cmd 200 false ex_nested)) = false /\
  snd (resolve_cmd 200 false ex_nested) = None /\
  resolve_cmd 200 false (no_color ex_nested) = ([], Some (s2l "list", s2l "x")).
Proof.
  split; [vm_compute; discriminate|]. split; [vm_compute; reflexivity|]. split; vm_compute; reflexivity.
Qed.

Print Assumptions pasted_command.
