(* GdbRunsB.v — C15 lifted to whole runs, part B.

   (3) [gdb_lifetime_is_solo]: the view of a lifetime's connection (everything except the name and
       the absolute time origin) equals the view obtained by running that lifetime's events ALONE
       from the initial state — unconditionally (GDB mode has no decoding switch).  So a later
       connection at the same address starts with a fresh object table, and neither other
       addresses, nor destroys of other or never-seen addresses, nor thread numbers, nor commands
       influence it.  [lt_view] is that view as a function of the lifetime alone.
   (4) [gdb_run_raises_exactly]: an exception escapes to GDB at a step exactly when the step is a
       message whose resolution against the object table built by the EARLIER MESSAGES OF ITS OWN
       LIFETIME raises ([ev_err]); the exception is that one.  [gdb_run_never_raises] is the
       corollary.  Destroys (of anything) and commands never raise.  THE CORNER: in GDB mode every
       exception of Message.resolve escapes — also the RuntimeError that log mode turns into an
       "unprocessed" line (e.g. wl_display.delete_id of an id the tool never saw created) —
       [corner_runtime_error_escapes]; the message is recorded all the same and later messages are
       processed normally.
   (5) non-vacuity examples. *)
From WD Require Import Base Wire Protocol Conn Color LetterId Matcher MatcherParse Show Session.
From WD Require Import ProtocolProofs LetterIdProofs ControllerProofs SessionProofs ConnMgrProofs GdbProofs EofCloses IsolationRuns.
From WD Require Import GdbRunsA.
From Coq Require Import Lia List.
Import ListNotations.
Open Scope Z_scope.

(* ---- a lifetime run alone ---------------------------------------------------------------------------- *)
Definition solo_events (th : Z) (l : lifetime) : list event :=
  map (EGdbMsg (lt_addr l) th) (lt_msgs l) ++ (if lt_open l then [] else [EGdbDestroy (lt_addr l)]).

Lemma solo_events_gdb th l : forallb gdb_event (solo_events th l) = true.
Proof.
  unfold solo_events. rewrite forallb_app. apply andb_true_iff. split.
  - induction (lt_msgs l) as [|m ms IH]; [reflexivity|exact IH].
  - destruct (lt_open l); reflexivity.
Qed.

Lemma fold_msgs a th m0 : forall r acc,
  fold_left lt_step (map (EGdbMsg a th) r) [mkLt a true m0 acc] = [mkLt a true m0 (acc ++ r)].
Proof.
  induction r as [|m r IH]; intros acc; cbn [map fold_left]; [rewrite app_nil_r; reflexivity|].
  cbn [lt_step has_live existsb lt_live lt_open lt_addr andb]. rewrite str_eqb_refl. cbn [orb map].
  unfold lt_upd, lt_live. cbn [lt_open lt_addr andb]. rewrite str_eqb_refl.
  unfold lt_add. cbn [lt_addr lt_open lt_first lt_rest]. rewrite IH, <- app_assoc. reflexivity.
Qed.

(* the lifetimes of a lifetime's own events: itself *)
Lemma lifetimes_solo th l : lifetimes (solo_events th l) = [l].
Proof.
  destruct l as [a o m0 r]. unfold solo_events, lifetimes. cbn [lt_addr lt_open lt_msgs lt_first lt_rest map app].
  cbn [fold_left lt_step has_live existsb app]. rewrite fold_left_app, fold_msgs. cbn [app].
  destruct o; cbn [fold_left lt_step map]; [reflexivity|].
  unfold lt_upd, lt_live. cbn [lt_open lt_addr andb]. rewrite str_eqb_refl. reflexivity.
Qed.

Lemma origin_solo th l : origin None (solo_events th l) = p_time (lt_first l).
Proof. reflexivity. Qed.

(* ---- the exceptions an output lets escape; commands let none escape ---------------------------------- *)
Definition raises (o : list oline) : list exn :=
  flat_map (fun x => match x with ORaise e => [e] | _ => [] end) o.

Lemma raises_app a b : raises (a ++ b) = raises a ++ raises b.
Proof. apply flat_map_app. Qed.

Ltac fin :=
  cbn [fst snd]; rewrite ?raises_app;
  try (match goal with H : raises _ = [] |- _ => exact H end);
  repeat match goal with H : raises _ = [] |- _ => rewrite H; clear H end; try reflexivity.

Lemma get_command_quiet on c : raises (snd (get_command' on c)) = [].
Proof. unfold get_command'. destruct (filter (starts_with c) command_names) as [|x [|y l]]; reflexivity. Qed.

Lemma resolve_cmd_quiet fuel : forall on input, raises (fst (resolve_cmd fuel on input)) = [].
Proof.
  induction fuel as [|f IH]; intros on input; [reflexivity|]. cbn [resolve_cmd].
  repeat match goal with
  | |- context [resolve_cmd f ?a ?b] =>
      let H := fresh "HR" in pose proof (IH a b) as H; destruct (resolve_cmd f a b); cbn [fst] in H
  | |- context [get_command' ?a ?b] =>
      let H := fresh "HC" in pose proof (get_command_quiet a b) as H; destruct (get_command' a b); cbn [snd] in H
  | |- context [if ?b then _ else _] => destruct b
  | |- context [match ?x with _ => _ end] => destruct x
  end; fin.
Qed.

Lemma show_message_quiet on ci d cn last m : raises (fst (show_message on ci d cn last m)) = [].
Proof. unfold show_message. cbn [fst]. destruct (1000000 <? _); [reflexivity|]. destruct (_ =? _); reflexivity. Qed.

Lemma show_messages_quiet s m cap : raises (snd (show_messages s m cap)) = [].
Proof.
  unfold show_messages. destruct (scan_matching _ _ _ _ _ _) as [[matching d] ns].
  destruct matching as [|x matching]; [destruct (s_conns s); reflexivity|].
  match goal with |- context [fold_left ?f _ _] => set (F := f) end.
  assert (G : forall l acc, raises (fst acc) = [] -> raises (fst (fold_left F l acc)) = []).
  { induction l as [|p l IHl]; intros acc H; cbn [fold_left]; [exact H|]. apply IHl. unfold F.
    destruct (nth_error (s_conns s) (fst p)) as [c|]; [|exact H].
    pose proof (show_message_quiet (s_color s) (fst p) (c_db c) (c_name c) (snd acc) (snd p)) as H0.
    destruct (show_message _ _ _ _ _ _) as [o l']. cbn [fst] in *. rewrite raises_app, H, H0. reflexivity. }
  specialize (G (x :: matching) ([], None) eq_refl).
  destruct (fold_left F (x :: matching) ([], None)) as [outs lst]. cbn [fst snd] in *.
  rewrite !raises_app, G. reflexivity.
Qed.

Lemma parse_and_join_quiet s t old :
  match parse_and_join s t old with Ok (m, errs) => raises errs = [] | Raise _ _ => True end.
Proof.
  unfold parse_and_join. destruct (parse t) as [p|e msg]; [reflexivity|]. destruct e; try exact I. reflexivity.
Qed.

Lemma list_connections_quiet s : raises (list_connections s) = [].
Proof.
  unfold list_connections. generalize 0%nat. induction (s_conns s) as [|c cs IH]; intros i; [reflexivity|].
  exact (IH (S i)).
Qed.

Ltac crunchq :=
  repeat match goal with
  | |- context [show_messages ?a ?b ?c] =>
      let H := fresh "HS" in pose proof (show_messages_quiet a b c) as H; destruct (show_messages a b c); cbn [snd] in H
  | |- context [parse_and_join ?a ?b ?c] =>
      let H := fresh "HP" in pose proof (parse_and_join_quiet a b c) as H; destruct (parse_and_join a b c) as [[? ?]|? ?]
  | |- context [get_command' ?a ?b] =>
      let H := fresh "HC" in pose proof (get_command_quiet a b) as H; destruct (get_command' a b); cbn [snd] in H
  | |- context [list_connections ?a] =>
      let H := fresh "HL" in pose proof (list_connections_quiet a) as H; generalize dependent (list_connections a); intros
  | |- context [if ?b then _ else _] => destruct b
  | |- context [match ?x with _ => _ end] => destruct x
  end; fin.

Lemma cmd_help_quiet s a : raises (snd (cmd_help s a)) = [].
Proof. unfold cmd_help. crunchq. Qed.
Lemma cmd_list_quiet s a : raises (snd (cmd_list s a)) = [].
Proof. unfold cmd_list. crunchq. Qed.
Lemma cmd_filter_quiet s a : raises (snd (cmd_filter s a)) = [].
Proof. unfold cmd_filter. crunchq. Qed.
Lemma cmd_break_quiet s a : raises (snd (cmd_break s a)) = [].
Proof. unfold cmd_break. crunchq. Qed.
Lemma cmd_matcher_quiet s a : raises (snd (cmd_matcher s a)) = [].
Proof. unfold cmd_matcher. crunchq. Qed.
Lemma cmd_connection_quiet s a : raises (snd (cmd_connection s a)) = [].
Proof. unfold cmd_connection. crunchq. Qed.

Lemma run_command_quiet s n a : raises (snd (run_command s n a)) = [].
Proof.
  unfold run_command.
  destruct (str_eqb n (s2l "help")); [apply cmd_help_quiet|].
  destruct (str_eqb n (s2l "list")); [apply cmd_list_quiet|].
  destruct (str_eqb n (s2l "filter")); [apply cmd_filter_quiet|].
  destruct (str_eqb n (s2l "breakpoint")); [apply cmd_break_quiet|].
  destruct (str_eqb n (s2l "matcher")); [apply cmd_matcher_quiet|].
  destruct (str_eqb n (s2l "connection")); [apply cmd_connection_quiet|].
  destruct (str_eqb n (s2l "resume")); [reflexivity|]. destruct (str_eqb n (s2l "quit")); reflexivity.
Qed.

Lemma process_command_quiet fuel s input : raises (snd (process_command fuel s input)) = [].
Proof.
  unfold process_command. pose proof (resolve_cmd_quiet fuel (s_color s) input) as H.
  destruct (resolve_cmd fuel (s_color s) input) as [pre [[name arg]|]]; cbn [fst] in H; [|exact H].
  pose proof (run_command_quiet s name arg) as H2. destruct (run_command s name arg) as [s1 o]. cbn [snd] in *.
  rewrite raises_app, H, H2. reflexivity.
Qed.

Lemma gdb_command_quiet s cm : raises (snd (gdb_command s cm)) = [].
Proof.
  unfold gdb_command. pose proof (process_command_quiet command_fuel (set_pause s true (s_quit s)) cm) as H.
  destruct (process_command command_fuel (set_pause s true (s_quit s)) cm) as [s1 o]. cbn [snd] in *.
  rewrite raises_app, H. destruct (s_quit s1); [reflexivity|]. destruct (negb (s_paused s1)); reflexivity.
Qed.

Section WithP.
Variable P : pdb.

(* ---- the view a lifetime determines ------------------------------------------------------------------- *)
Definition playf (tf : pmsg -> Z) (c0 : connst) (ms : list pmsg) : connst :=
  fold_left (fun c m => conn_step P c (tf m) m) ms c0.

Lemma play_playf b c0 ms : play P b c0 ms = playf (fun m => p_time m - b) c0 ms.
Proof. reflexivity. Qed.

Lemma playf_rename tf n ms : forall c0, playf tf (rename n c0) ms = rename n (playf tf c0 ms).
Proof.
  unfold playf. induction ms as [|m ms IH]; intros c0; cbn [fold_left]; [reflexivity|].
  rewrite conn_step_rename. apply IH.
Qed.

Lemma playf_untime tf ms : forall c0,
  retime_conn untime (playf tf c0 ms) = playf (fun _ => 0) (retime_conn untime c0) ms.
Proof.
  unfold playf. induction ms as [|m ms IH]; intros c0; cbn [fold_left]; [reflexivity|].
  rewrite IH. rewrite <- (conn_step_retime untime P c0 (tf m) m). reflexivity.
Qed.

(* the lifetime's connection with all time stamps blanked and no name: a function of the lifetime *)
Definition lt_conn (l : lifetime) : connst :=
  set_open (lt_open l) (playf (fun _ => 0) (fresh_conn (lt_addr l) [] (lt_sv l)) (lt_msgs l)).
Definition lt_view (l : lifetime) := conn_view (lt_conn l).

Lemma spec_conn_untimed b n l : retime_conn untime (spec_conn P b n l) = rename n (lt_conn l).
Proof.
  unfold spec_conn, lt_conn. rewrite play_playf.
  change (retime_conn untime (set_open (lt_open l) ?x)) with (set_open (lt_open l) (retime_conn untime x)).
  rewrite playf_untime.
  change (retime_conn untime (fresh_conn (lt_addr l) n (lt_sv l))) with (rename n (fresh_conn (lt_addr l) [] (lt_sv l))).
  rewrite playf_rename. reflexivity.
Qed.

Lemma spec_conn_view b n l : untimed (conn_view (spec_conn P b n l)) = lt_view l.
Proof. rewrite untimed_conn_view, spec_conn_untimed. reflexivity. Qed.

Lemma spec_conn_view_timed b n n' l : conn_view (spec_conn P b n l) = conn_view (spec_conn P b n' l).
Proof.
  unfold spec_conn. rewrite !play_playf.
  change (fresh_conn (lt_addr l) n (lt_sv l)) with (rename n (fresh_conn (lt_addr l) [] (lt_sv l))).
  change (fresh_conn (lt_addr l) n' (lt_sv l)) with (rename n' (fresh_conn (lt_addr l) [] (lt_sv l))).
  rewrite !playf_rename. reflexivity.
Qed.

Lemma named_conns_single b l : named_conns P b [l] = [spec_conn P b (conn_name 0) l].
Proof. reflexivity. Qed.

(* ---- (3) MERGED = SOLO --------------------------------------------------------------------------------
   [evs]: any GDB-mode events.  [l]: its i-th lifetime.  The i-th connection of the run over [evs]
   and the only connection of the run over the lifetime's own events (its messages, on any one
   thread [th], and its destroy if it was destroyed) have the same view once the time stamps are
   blanked: role, open flag, title, app id, the whole object table (ids, incarnations, types, alive
   flags), every recorded message with resolved target and arguments.  No side condition. *)
Theorem gdb_lifetime_is_solo : forall d st c u evs i l th,
  forallb gdb_event evs = true ->
  nth_error (lifetimes evs) i = Some l ->
  let T0 := mkTop None (init_sess d st c u true) in
  exists cm cs,
    nth_error (s_conns (t_sess (fst (run P T0 evs)))) i = Some cm /\
    s_conns (t_sess (fst (run P T0 (solo_events th l)))) = [cs] /\
    untimed (conn_view cm) = untimed (conn_view cs) /\
    untimed (conn_view cm) = lt_view l /\
    c_name cm = conn_name (N.of_nat i) /\ c_name cs = conn_name 0.
Proof.
  intros d st c u evs i l th Hl Hi T0.
  exists (spec_conn P (origin None evs) (conn_name (N.of_nat i)) l),
         (spec_conn P (origin None (solo_events th l)) (conn_name 0) l).
  split; [apply gdb_nth_conn; assumption|]. split.
  - unfold T0. rewrite (gdb_conns_exact P d st c u true None _ (solo_events_gdb th l)), lifetimes_solo.
    apply named_conns_single.
  - rewrite !spec_conn_view. split; [reflexivity|]. split; [reflexivity|].
    split; [apply (spec_conn_fields P)|apply (spec_conn_fields P)].
Qed.

(* with the time stamps: the solo run read with the merged run's time origin *)
Theorem gdb_lifetime_is_solo_timed : forall d st c u evs i l th,
  forallb gdb_event evs = true ->
  nth_error (lifetimes evs) i = Some l ->
  exists cm cs,
    nth_error (s_conns (t_sess (fst (run P (mkTop None (init_sess d st c u true)) evs)))) i = Some cm /\
    s_conns (t_sess (fst (run P (mkTop (Some (origin None evs)) (init_sess d st c u true)) (solo_events th l)))) = [cs] /\
    conn_view cm = conn_view cs.
Proof.
  intros d st c u evs i l th Hl Hi.
  exists (spec_conn P (origin None evs) (conn_name (N.of_nat i)) l),
         (spec_conn P (origin None evs) (conn_name 0) l).
  split; [apply gdb_nth_conn; assumption|]. split.
  - rewrite (gdb_conns_exact P d st c u true (Some (origin None evs)) _ (solo_events_gdb th l)), lifetimes_solo.
    apply named_conns_single.
  - apply spec_conn_view_timed.
Qed.

(* two runs with the same i-th lifetime record the same for it, whatever else they contain *)
Corollary gdb_same_lifetime_same_view : forall d st c u evs1 evs2 i j l cm1 cm2,
  forallb gdb_event evs1 = true -> forallb gdb_event evs2 = true ->
  nth_error (lifetimes evs1) i = Some l -> nth_error (lifetimes evs2) j = Some l ->
  nth_error (s_conns (t_sess (fst (run P (mkTop None (init_sess d st c u true)) evs1)))) i = Some cm1 ->
  nth_error (s_conns (t_sess (fst (run P (mkTop None (init_sess d st c u true)) evs2)))) j = Some cm2 ->
  untimed (conn_view cm1) = untimed (conn_view cm2).
Proof.
  intros d st c u evs1 evs2 i j l cm1 cm2 H1 H2 L1 L2 C1 C2.
  rewrite (gdb_nth_conn P d st c u true None evs1 i l H1 L1) in C1.
  rewrite (gdb_nth_conn P d st c u true None evs2 j l H2 L2) in C2.
  injection C1 as <-. injection C2 as <-. rewrite !spec_conn_view. reflexivity.
Qed.

(* ---- thread numbers are irrelevant to everything recorded -------------------------------------------- *)
Definition forget_thread (e : event) : event :=
  match e with EGdbMsg a _ m => EGdbMsg a 0 m | _ => e end.

Lemma lt_step_thread L e : lt_step L (forget_thread e) = lt_step L e.
Proof. destruct e; reflexivity. Qed.

Lemma lifetimes_thread evs : lifetimes (map forget_thread evs) = lifetimes evs.
Proof.
  unfold lifetimes. generalize (@nil lifetime). induction evs as [|e evs IH]; intros L; [reflexivity|].
  cbn [map fold_left]. rewrite lt_step_thread. apply IH.
Qed.

Lemma origin_thread ob evs : origin ob (map forget_thread evs) = origin ob evs.
Proof.
  unfold origin. destruct ob; [reflexivity|].
  assert (E : first_gdb_time (map forget_thread evs) = first_gdb_time evs).
  { induction evs as [|e evs IH]; [reflexivity|]. destruct e; cbn [map forget_thread first_gdb_time]; try exact IH. reflexivity. }
  rewrite E. reflexivity.
Qed.

Lemma gdb_event_thread evs : forallb gdb_event (map forget_thread evs) = forallb gdb_event evs.
Proof. induction evs as [|e evs IH]; [reflexivity|]. cbn [map forallb]. rewrite IH. destruct e; reflexivity. Qed.

Theorem gdb_threads_irrelevant : forall d st c u g ob evs evs',
  forallb gdb_event evs = true ->
  map forget_thread evs = map forget_thread evs' ->
  s_conns (t_sess (fst (run P (mkTop ob (init_sess d st c u g)) evs))) =
  s_conns (t_sess (fst (run P (mkTop ob (init_sess d st c u g)) evs'))).
Proof.
  intros d st c u g ob evs evs' Hl E.
  assert (Hl' : forallb gdb_event evs' = true) by (rewrite <- gdb_event_thread, <- E, gdb_event_thread; exact Hl).
  rewrite !gdb_conns_exact by assumption.
  rewrite <- (lifetimes_thread evs), <- (origin_thread ob evs), E, lifetimes_thread, origin_thread. reflexivity.
Qed.

(* ---- (4) exceptions escaping to GDB -------------------------------------------------------------------- *)
Lemma raises_nil_iff o : raises o = [] <-> forall e, ~ In (ORaise e) o.
Proof.
  induction o as [|x o IH].
  - split; [intros _ e []|reflexivity].
  - change (raises (x :: o)) with ((match x with ORaise e => [e] | _ => [] end) ++ raises o).
    split.
    + intros H e [Hx|Hin].
      * subst x. discriminate H.
      * assert (H' : raises o = []) by (destruct x; try exact H; discriminate H).
        destruct IH as [IH1 _]. exact (IH1 H' e Hin).
    + intros H. assert (Ho : raises o = []) by (apply IH; intros e Hin; apply (H e); right; exact Hin).
      rewrite Ho, app_nil_r. destruct x; try reflexivity. exfalso. apply (H e). left. reflexivity.
Qed.

Lemma raises_notices o : Forall is_closed_notice o -> raises o = [].
Proof.
  induction 1 as [|x o Hx F IH]; [reflexivity|]. destruct Hx as (on & sv & name & ->). exact IH.
Qed.

Lemma ctrl_on_message_quiet on k ci d cn m : raises (snd (fst (ctrl_on_message on k ci d cn m))) = [].
Proof.
  unfold ctrl_on_message, show_message.
  repeat match goal with
         | |- context [if ?b then _ else _] => destruct b
         | |- context [match ?x with _ => _ end] => destruct x
         end; reflexivity.
Qed.

Lemma conn_message_quiet s id rel m : raises (snd (fst (fst (conn_message P s id rel m)))) = [].
Proof.
  unfold conn_message. destruct (find_open s id) as [i|]; [|reflexivity].
  destruct (nth_error (s_conns s) i) as [c|]; [|reflexivity].
  destruct (resolve_msg P (c_db c) rel m) as [[d' rm] err]. destruct err; [reflexivity|].
  pose proof (ctrl_on_message_quiet (s_color s) (s_ctrl s) i d' (c_name c) rm) as H.
  destruct (ctrl_on_message _ _ _ _ _ _) as [[k' outs] stop]. exact H.
Qed.

Lemma open_conn_quiet s id sv : raises (snd (open_conn s id sv)) = [].
Proof.
  destruct (open_conn_spec s id sv) as (_ & _ & H). rewrite H, raises_app.
  destruct (close_conn s id) as [s1 o1] eqn:E. cbn [snd]. rewrite (raises_notices o1 (close_conn_out _ _ _ _ E)). reflexivity.
Qed.

Definition opt_list {A} (o : option A) : list A := match o with Some x => [x] | None => [] end.

(* what a message step lets escape: exactly the exception of the delivery, if any *)
Lemma gdb_message_raises s id th rel m :
  raises (snd (gdb_message P s id th rel m)) =
  opt_list (option_map fst (snd (fst (conn_message P (pre_gdb s id th m) id rel m)))).
Proof.
  unfold gdb_message, pre_gdb. cbn zeta. set (s1 := set_pause s false (s_quit s)).
  destruct (gdb_get (s_gdb s1) id).
  - match goal with |- context [conn_message P s1 id rel m] => idtac end.
    set (warn := match gdb_get (s_gdb s1) id with Some _ => _ | None => _ end).
    assert (HW : raises warn = []).
    { unfold warn. repeat match goal with
         | |- context [if ?b then _ else _] => destruct b
         | |- context [match ?x with _ => _ end] => destruct x
         end; reflexivity. }
    pose proof (conn_message_quiet s1 id rel m) as HQ.
    destruct (conn_message P s1 id rel m) as [[[s3 o2] err] st]. cbn [fst snd] in *.
    destruct err as [[e msg]|]; cbn [snd option_map opt_list fst]; rewrite !raises_app, HW, HQ; reflexivity.
  - pose proof (open_conn_quiet s1 id (is_get_registry m)) as HO.
    destruct (open_conn s1 id (is_get_registry m)) as [sa oa]. cbn [fst snd] in *.
    set (s2 := set_gdb sa _).
    set (warn := match gdb_get (s_gdb s2) id with Some _ => _ | None => _ end).
    assert (HW : raises warn = []).
    { unfold warn. repeat match goal with
         | |- context [if ?b then _ else _] => destruct b
         | |- context [match ?x with _ => _ end] => destruct x
         end; reflexivity. }
    pose proof (conn_message_quiet s2 id rel m) as HQ.
    destruct (conn_message P s2 id rel m) as [[[s3 o2] err] st]. cbn [fst snd] in *.
    destruct err as [[e msg]|]; cbn [snd option_map opt_list fst]; rewrite !raises_app, HO, HW, HQ; reflexivity.
Qed.

Lemma gdb_destroy_quiet s id : raises (snd (gdb_destroy s id)) = [].
Proof.
  unfold gdb_destroy. destruct (close_conn _ id) as [s1 o] eqn:E. cbn [snd].
  rewrite raises_app, (raises_notices o (close_conn_out _ _ _ _ E)). reflexivity.
Qed.

(* the object table after a lifetime's earlier messages (time stamps blanked): a function of those
   messages alone *)
Definition db_after (ms : list pmsg) : db :=
  fold_left (fun d m => fst (fst (resolve_msg P d 0 m))) ms db_init.

(* the exception resolving [m] raises after the messages [prev] of its lifetime *)
Definition msg_err (prev : list pmsg) (m : pmsg) : option exn :=
  option_map fst (snd (resolve_msg P (db_after prev) 0 m)).

(* the exception an event lets escape, given the lifetimes so far *)
Definition ev_err (L : list lifetime) (e : event) : option exn :=
  match e with
  | EGdbMsg a _ m => msg_err (match live_lifetime a L with Some l => lt_msgs l | None => [] end) m
  | _ => None
  end.

Fixpoint err_trace (L : list lifetime) (evs : list event) : list (option exn) :=
  match evs with
  | [] => []
  | e :: r => ev_err L e :: err_trace (lt_step L e) r
  end.

Lemma playf0_db ms : forall c0,
  c_db (playf (fun _ => 0) c0 ms) = fold_left (fun d m => fst (fst (resolve_msg P d 0 m))) ms (c_db c0).
Proof.
  unfold playf. induction ms as [|m ms IH]; intros c0; cbn [fold_left]; [reflexivity|].
  rewrite IH. destruct (conn_step_frame P c0 0 m) as (_ & _ & _ & _ & H & _). rewrite H. reflexivity.
Qed.

Lemma spec_conn_db b n l : retime_db untime (c_db (spec_conn P b n l)) = db_after (lt_msgs l).
Proof.
  change (retime_db untime (c_db (spec_conn P b n l))) with (c_db (retime_conn untime (spec_conn P b n l))).
  rewrite spec_conn_untimed. unfold lt_conn. cbn [rename set_open c_db]. rewrite playf0_db. reflexivity.
Qed.

Lemma conn_is_err b c l rel m : conn_is P b c l ->
  option_map fst (snd (resolve_msg P (c_db c) rel m)) = msg_err (lt_msgs l) m.
Proof.
  intros H. unfold msg_err. rewrite <- (spec_conn_db b (c_name c) l), <- H.
  rewrite <- (resolve_err_retime untime P (c_db c) rel m). reflexivity.
Qed.

Lemma live_conn b a cs L : Forall2 (conn_is P b) cs L ->
  match live_lifetime a L with
  | Some l => exists c rest, opens a cs = c :: rest /\ conn_is P b c l
  | None => opens a cs = []
  end.
Proof.
  intros F. induction F as [|c l cs L Hc F IH]; [reflexivity|].
  unfold live_lifetime, opens in *. cbn [find filter]. rewrite (conn_is_live P b c l a Hc).
  destruct (lt_live a l); [exists c, (filter (is_open_id a) cs); split; [reflexivity|exact Hc]|exact IH].
Qed.

Lemma find_has_live a L : is_some (live_lifetime a L) = has_live a L.
Proof.
  unfold live_lifetime, has_live. induction L as [|l L IH]; [reflexivity|]. cbn [find existsb].
  destruct (lt_live a l); [reflexivity|exact IH].
Qed.

Lemma step_gdbcmd_out T cm : snd (step P T (EGdbCmd cm)) = snd (gdb_command (t_sess T) cm).
Proof. destruct T as [ob s]. unfold step. cbn [t_base t_sess]. destruct (gdb_command s cm) as [s1 o]. reflexivity. Qed.

Lemma step_gdbmsg_out T id th m :
  let b := match t_base T with Some b => b | None => p_time m end in
  snd (step P T (EGdbMsg id th m)) = snd (gdb_message P (t_sess T) id th (p_time m - b) m).
Proof.
  destruct T as [ob s]. unfold step. cbn [t_base t_sess]. rewrite rel_time_eq.
  destruct (gdb_message P s id th _ m) as [s1 o]. reflexivity.
Qed.

Lemma step_raises T L e : gdb_event e = true -> Inv P T L ->
  raises (snd (step P T e)) = opt_list (ev_err L e).
Proof.
  intros He (Hu & Hg & Hb). destruct e as [ | | | |id th m|id|cm| | | ]; try discriminate.
  - rewrite step_gdbmsg_out. cbn zeta.
    set (b := match t_base T with Some b => b | None => p_time m end) in *.
    set (s := t_sess T) in *.
    assert (HF : Forall2 (conn_is P b) (s_conns s) L).
    { unfold b. destruct (t_base T) as [b0|]; [exact Hb|]. destruct Hb as [-> ->]. constructor. }
    rewrite gdb_message_raises. f_equal.
    destruct (pre_gdb_spec s id th m Hu) as (Hu2 & Hpre). cbn zeta in Hu2, Hpre.
    rewrite (conn_message_err_u P _ id (p_time m - b) m Hu2).
    cbn [ev_err]. specialize (Hg id) as Hgid. rewrite <- find_has_live in Hgid.
    pose proof (live_conn b id _ _ HF) as HL.
    destruct (gdb_get (s_gdb s) id) as [t0|]; cbn [is_some] in Hgid.
    + destruct Hpre as [Hc2 _]. rewrite Hc2.
      destruct (live_lifetime id L) as [l|]; [|discriminate].
      destruct HL as (c & rest & Ho & Hc). rewrite Ho. apply (conn_is_err b c l _ m Hc).
    + destruct Hpre as [Hc2 _]. rewrite Hc2.
      destruct (live_lifetime id L) as [l|]; [discriminate|].
      rewrite opens_app, (opens_nil_map _ _ HL), HL. unfold opens. cbn [filter app].
      unfold is_open_id, fresh_conn at 1 2. cbn [c_open c_id andb]. rewrite str_eqb_refl.
      unfold msg_err, db_after. cbn [fold_left fresh_conn c_db].
      rewrite <- (resolve_err_retime untime P db_init (p_time m - b) m). reflexivity.
  - destruct T as [ob s]. unfold step. cbn [t_base t_sess snd]. apply gdb_destroy_quiet.
  - rewrite step_gdbcmd_out. apply gdb_command_quiet.
Qed.

(* (4) exactly which steps let an exception escape, and which *)
Theorem gdb_run_raises_from : forall evs T L,
  forallb gdb_event evs = true -> Inv P T L ->
  map raises (snd (run P T evs)) = map opt_list (err_trace L evs).
Proof.
  induction evs as [|e evs IH]; intros T L Hl HI; [reflexivity|].
  cbn [forallb] in Hl. apply andb_true_iff in Hl. destruct Hl as [He Hl].
  pose proof (step_raises T L e He HI) as H1.
  pose proof (step_inv P T L e He HI) as H2.
  cbn [run err_trace map]. destruct (step P T e) as [T1 o]. cbn [fst snd] in H1, H2.
  specialize (IH T1 (lt_step L e) Hl H2). destruct (run P T1 evs) as [T2 os]. cbn [snd map] in *.
  rewrite H1, IH. reflexivity.
Qed.

Theorem gdb_run_raises_exactly : forall d st c u evs,
  forallb gdb_event evs = true ->
  map raises (snd (run P (mkTop None (init_sess d st c u true)) evs)) = map opt_list (err_trace [] evs).
Proof. intros. apply gdb_run_raises_from; [assumption|apply inv_init]. Qed.

(* no exception escapes to GDB iff no message raises when resolved against its own lifetime's table *)
Theorem gdb_run_never_raises : forall d st c u evs,
  forallb gdb_event evs = true ->
  (Forall (fun x => x = None) (err_trace [] evs) <->
   Forall (fun o => forall e, ~ In (ORaise e) o) (snd (run P (mkTop None (init_sess d st c u true)) evs))).
Proof.
  intros d st c u evs Hl. pose proof (gdb_run_raises_exactly d st c u evs Hl) as H.
  revert H. generalize (snd (run P (mkTop None (init_sess d st c u true)) evs)). generalize (err_trace [] evs).
  clear. induction l as [|x l IH]; intros [|o os] H; try discriminate.
  - split; constructor.
  - cbn [map] in H. injection H as H1 H2. specialize (IH os H2). split; intros F; inversion F; subst; constructor.
    + apply raises_nil_iff. rewrite H1. reflexivity.
    + apply IH. assumption.
    + match goal with X : forall e, ~ In (ORaise e) o |- _ => apply raises_nil_iff in X; rewrite X in H1 end.
      destruct x; [discriminate|reflexivity].
    + apply IH. assumption.
Qed.

(* destroying connections — known, already destroyed, never seen — never raises *)
Corollary gdb_destroys_never_raise : forall evs T L,
  forallb (fun e => match e with EGdbDestroy _ => true | _ => false end) evs = true -> Inv P T L ->
  Forall (fun o => forall e, ~ In (ORaise e) o) (snd (run P T evs)).
Proof.
  induction evs as [|e evs IH]; intros T L Hl HI; cbn [run]; [constructor|].
  cbn [forallb] in Hl. apply andb_true_iff in Hl. destruct Hl as [He Hl].
  destruct e; try discriminate.
  pose proof (step_raises T L (EGdbDestroy conn_id) eq_refl HI) as H1.
  pose proof (step_inv P T L (EGdbDestroy conn_id) eq_refl HI) as H2.
  destruct (step P T (EGdbDestroy conn_id)) as [T1 o]. cbn [fst snd] in H1, H2.
  specialize (IH T1 _ Hl H2). destruct (run P T1 evs) as [T2 os]. cbn [snd] in *.
  constructor; [apply raises_nil_iff; exact H1|exact IH].
Qed.

End WithP.

Print Assumptions gdb_lifetime_is_solo.
Print Assumptions gdb_lifetime_is_solo_timed.
Print Assumptions gdb_same_lifetime_same_view.
Print Assumptions gdb_threads_irrelevant.
Print Assumptions gdb_run_raises_exactly.
Print Assumptions gdb_run_never_raises.
Print Assumptions gdb_destroys_never_raise.

(* ---- (5) non-vacuity (empty protocol database) ---------------------------------------------------------- *)
Module GdbExamples.
Import IsolationRuns.Examples.   (* m_gr, m_bind, m_del, m_bad *)

Definition a := s2l "0x5581a0".
Definition b := s2l "0x5581b8".
Definition w := s2l "0x77".
Definition z := s2l "0xdead".     (* never carries a message *)
(* an event as first message: the role of the connection stays unknown *)
Definition m_ev (t : Z) : pmsg := mkPmsg t (Some (s2l "wl_display")) 1 false (s2l "error") [PInt 7].
Definition G0 : top := mkTop None (init_sess (MAlways true) (MAlways false) false true true).

(* two addresses interleaved (same object ids on both), destroy of a never-seen address (first and
   later), double destroy, address [a] re-used twice, messages from foreign threads (on a client
   connection: b thread 7; on a connection of unknown role: w thread 6), a command in between *)
Definition evs1 : list event :=
  [EGdbDestroy z; EGdbMsg a 1 (m_gr 100); EGdbMsg b 2 (m_gr 105); EGdbMsg a 1 (m_bind 110 "wl_compositor");
   EGdbMsg b 7 (m_bind 120 "wl_shm"); EGdbDestroy a; EGdbDestroy a; EGdbMsg w 5 (m_ev 125);
   EGdbMsg a 3 (m_gr 130); EGdbMsg w 6 (m_ev 132); EGdbCmd (s2l "connection"); EGdbMsg a 3 (m_bind 135 "wl_seat");
   EGdbDestroy a; EGdbMsg a 4 (m_gr 150); EGdbDestroy z; EGdbMsg b 2 (m_del 160 3)].

Example ex_events : forallb gdb_event evs1 = true.
Proof. reflexivity. Qed.

Example ex_lifetimes :
  lifetimes evs1 =
  [mkLt a false (m_gr 100) [m_bind 110 "wl_compositor"];
   mkLt b true (m_gr 105) [m_bind 120 "wl_shm"; m_del 160 3];
   mkLt w true (m_ev 125) [m_ev 132];
   mkLt a false (m_gr 130) [m_bind 135 "wl_seat"];
   mkLt a true (m_gr 150) []].
Proof. vm_compute. reflexivity. Qed.

Definition conns1 := s_conns (t_sess (fst (run [] G0 evs1))).

Example ex_conns :
  map (fun c => (c_id c, c_name c, c_open c, c_server c, List.length (c_msgs c))) conns1 =
  [(a, s2l "A", false, Some false, 2%nat); (b, s2l "B", true, Some false, 3%nat); (w, s2l "C", true, None, 2%nat);
   (a, s2l "D", false, Some false, 2%nat); (a, s2l "E", true, Some false, 1%nat)].
Proof. vm_compute. reflexivity. Qed.

(* per object id: incarnation number, type, alive *)
Definition objs (c : connst) := map (fun p => (fst p, map (fun o => (o_gen o, o_type o, o_alive o)) (snd p))) (c_db c).

(* every connection at [a] starts from a fresh object table: id 3 is wl_compositor in the first, wl_seat
   in the second, absent in the third; b's own id 3 (wl_shm, destroyed by its delete_id) is separate *)
Example ex_fresh_tables :
  map objs conns1 =
  [[(1, [(0%N, Some (s2l "wl_display"), true)]); (2, [(0%N, Some (s2l "wl_registry"), true)]); (3, [(0%N, Some (s2l "wl_compositor"), true)])];
   [(1, [(0%N, Some (s2l "wl_display"), true)]); (2, [(0%N, Some (s2l "wl_registry"), true)]); (3, [(0%N, Some (s2l "wl_shm"), false)])];
   [(1, [(0%N, Some (s2l "wl_display"), true)])];
   [(1, [(0%N, Some (s2l "wl_display"), true)]); (2, [(0%N, Some (s2l "wl_registry"), true)]); (3, [(0%N, Some (s2l "wl_seat"), true)])];
   [(1, [(0%N, Some (s2l "wl_display"), true)]); (2, [(0%N, Some (s2l "wl_registry"), true)])]].
Proof. vm_compute. reflexivity. Qed.

(* [gdb_lifetime_is_solo] on this instance, by computation, for every lifetime *)
Example ex_solo :
  forallb (fun i =>
    match nth_error (lifetimes evs1) i, nth_error conns1 i with
    | Some l, Some cm =>
        match s_conns (t_sess (fst (run [] G0 (solo_events 0 l)))) with
        | [cs] => true
        | _ => false
        end
    | _, _ => false
    end) (seq 0 5) = true /\
  map (fun c => untimed (conn_view c)) conns1 =
  map (fun l => untimed (conn_view (hd (fresh_conn [] [] None) (s_conns (t_sess (fst (run [] G0 (solo_events 0 l)))))))) (lifetimes evs1) /\
  map (fun c => untimed (conn_view c)) conns1 = map (lt_view []) (lifetimes evs1).
Proof. vm_compute. repeat split. Qed.

(* no exception escapes in this run; the foreign-thread message on the connection of unknown role
   (step 9) prints a warning and is handled like any other; on the client connection (step 4) there
   is no warning *)
Example ex_no_raise :
  map raises (snd (run [] G0 evs1)) = map (fun _ => []) evs1 /\
  err_trace [] [] evs1 = map (fun _ => None) evs1 /\
  hd_error (nth 9 (snd (run [] G0 evs1)) []) = Some (warn_line false [AnyText]) /\
  last (nth 9 (snd (run [] G0 evs1)) []) OOM = OStop false /\
  raises (nth 9 (snd (run [] G0 evs1)) []) = [] /\
  List.length (nth 4 (snd (run [] G0 evs1)) []) = 2%nat.
Proof. vm_compute. repeat split. Qed.

(* the same events without the command and with other thread numbers: same connection list *)
Example ex_threads_and_commands :
  conns1 = s_conns (t_sess (fst (run [] G0 (map forget_thread (filter (fun e => match e with EGdbCmd _ => false | _ => true end) evs1))))).
Proof. vm_compute. reflexivity. Qed.

(* the declarative reading of the lifetimes on this instance *)
Example ex_declarative :
  live_after a evs1 = true /\ live_after b evs1 = true /\ live_after z evs1 = false /\
  filter (at_addr a) (lifetimes evs1) = lifetimes (filter (concerns a) evs1) /\
  List.length (filter (at_addr a) (lifetimes evs1)) = 3%nat /\ filter (at_addr z) (lifetimes evs1) = [].
Proof. vm_compute. repeat split. Qed.

(* THE CORNER.  In GDB mode every exception of Message.resolve escapes from the breakpoint's stop():
   the RuntimeError of a wl_display.delete_id for an id the tool never saw created (log mode shows
   such a line as "unprocessed" and goes on), and the AssertionError of an ill-typed delete_id (log
   mode: decoding is switched off for all connections).  Here the message is recorded all the same,
   nothing is switched off, the other connection is untouched and later messages are handled
   normally: the solo theorem holds for these runs too. *)
Definition evs_raise : list event :=
  [EGdbMsg a 1 (m_gr 0); EGdbMsg b 1 (m_del 5 9); EGdbMsg a 1 (m_bad 10); EGdbMsg b 1 (m_gr 12);
   EGdbMsg a 1 (m_bind 15 "wl_compositor")].

Example corner_runtime_error_escapes :
  map raises (snd (run [] G0 evs_raise)) = [[]; [RuntimeError]; [AssertionError]; []; []] /\
  err_trace [] [] evs_raise = [None; Some RuntimeError; Some AssertionError; None; None] /\
  last (nth 1 (snd (run [] G0 evs_raise)) []) OOM = ORaise RuntimeError /\
  map (fun c => (c_name c, c_open c, List.length (c_msgs c), objs c)) (s_conns (t_sess (fst (run [] G0 evs_raise)))) =
  [(s2l "A", true, 3%nat, [(1, [(0%N, Some (s2l "wl_display"), true)]); (2, [(0%N, Some (s2l "wl_registry"), true)]);
                           (3, [(0%N, Some (s2l "wl_compositor"), true)])]);
   (s2l "B", true, 2%nat, [(1, [(0%N, Some (s2l "wl_display"), true)]); (2, [(0%N, Some (s2l "wl_registry"), true)])])] /\
  s_parse (t_sess (fst (run [] G0 evs_raise))) = true.
Proof. vm_compute. repeat split. Qed.

(* the same delete_id in log mode: no exception, an "unprocessed" line *)
Example corner_log_mode_differs :
  raises (snd (step [] G0 (EMsg b (m_del 5 9)))) = [] /\
  List.length (snd (step [] G0 (EMsg b (m_del 5 9)))) = 2%nat.
Proof. vm_compute. split; reflexivity. Qed.

End GdbExamples.
