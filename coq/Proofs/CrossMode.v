(* CrossMode.v — GDB mode and log mode record the same for the same messages (C09 lifted to sessions).

   ONE CONNECTION ([cross_mode_single], [cross_mode_single_general]).  Messages [ms] of one
   connection, run in GDB mode ([map (EGdbMsg a th) ms]) and in log mode ([map (EMsg id) ms]), both
   from the initial state (the in-gdb flag [g] is arbitrary on both sides: it only changes how
   commands are echoed, [command_format]).  The two recorded connections are EQUAL RECORDS except
   for the identifier field [c_id] (libwayland address vs log tag): same name (A), same role, open
   flag, title, app id, same object table (ids, incarnation numbers, types, alive flags, creation and
   destruction times), same recorded messages (time stamps, resolved targets, resolved arguments,
   destroyed objects).  Nothing has to be blanked: both modes take the first message as time origin.

   Side condition, exactly: log mode has the decoding switch.  A message whose resolution raises
   something other than RuntimeError (the two assertions of Message.resolve, see [wf_msg]) is itself
   recorded — half resolved, exactly as GDB mode records it — but every LATER message is dropped by
   log mode and still recorded by GDB mode.  [log_recorded ms] is the prefix log mode records (up to
   and including the first such message); in general the log connection equals the GDB connection
   of that prefix ([cross_mode_single_general]); [log_accepts ms] says the prefix is everything, and
   follows from the shape condition [wf_msg] ([wf_log_accepts]).  A message refused with
   RuntimeError is recorded identically by both modes ([conn_step] is the same function); the only
   difference there is the OUTPUT (log mode prints an "unprocessed" line, GDB mode lets the
   exception escape: GdbRunsB.corner_runtime_error_escapes).  [ex_switch_differs] exhibits the
   difference after an ill-typed delete_id.

   SEVERAL CONNECTIONS ([cross_mode_lifetime], [cross_mode_lifetime_wf]).  Any GDB-mode events; [l]
   its i-th lifetime.  Any log (lines, text, commands) in which the lines tagged [id] are exactly
   [l]'s messages in order — whatever else the log contains, however interleaved.  Then lifetime
   i's connection in the GDB run and the connection of [id] in the log run have the same body (role,
   title, app id, object table, recorded messages) once the time stamps are blanked (the two runs
   have different time origins); identifier (address / tag), name (order of first appearance in
   either run) and open flag (GDB: not destroyed; log: always open before end of input) are stated
   separately.  Side conditions: those of [merged_is_solo] (no line of another tag switches decoding
   off) and [log_accepts] for the lifetime's own messages; both follow from [wf_event]. *)
From WD Require Import Base Wire Protocol Conn Color LetterId Matcher MatcherParse Show Session.
From WD Require Import ProtocolProofs LetterIdProofs ControllerProofs SessionProofs ConnMgrProofs GdbProofs EofCloses IsolationRuns.
From WD Require Import GdbRunsA GdbRunsB.
From Coq Require Import Lia List.
Import ListNotations.
Open Scope Z_scope.

(* ---- what is compared ------------------------------------------------------------------------------- *)
(* a connection with another identifier *)
Definition reid (i : str) (c : connst) : connst :=
  mkConn i (c_name c) (c_server c) (c_open c) (c_title c) (c_app_id c) (c_db c) (c_msgs c).

(* everything recorded for a connection except identifier, name and open flag *)
Definition conn_body (c : connst) := (c_server c, c_title c, c_app_id c, c_db c, c_msgs c).
Definition untimed_body (c : connst) := conn_body (retime_conn untime c).

Lemma untimed_body_reid i c : untimed_body (reid i c) = untimed_body c.
Proof. reflexivity. Qed.

Lemma body_of_view c c' : untimed (conn_view c) = untimed (conn_view c') ->
  untimed_body c = untimed_body c' /\ c_id c = c_id c' /\ c_open c = c_open c'.
Proof.
  rewrite !untimed_conn_view. unfold conn_view, untimed_body, conn_body. intros H.
  cbn [retime_conn c_id c_open c_server c_title c_app_id c_db c_msgs] in *.
  injection H as H1 H2 H3 H4 H5 H6 H7. rewrite H2, H4, H5, H6, H7. repeat split; assumption.
Qed.

Section WithP.
Variable P : pdb.

Lemma conn_step_reid i c rel m : conn_step P (reid i c) rel m = reid i (conn_step P c rel m).
Proof.
  unfold conn_step. cbn [reid c_db c_id c_name c_server c_open c_title c_app_id c_msgs].
  destruct (resolve_msg P (c_db c) rel m) as [[d' rm] err]. destruct err as [e|]; [reflexivity|].
  apply (title_update_nat (reid i)
           (mkConn (c_id c) (c_name c) (c_server c) (c_open c) (c_title c) (c_app_id c) d' (c_msgs c ++ [rm])) rm rm);
    reflexivity.
Qed.

Lemma play_reid b i ms : forall c0, play P b (reid i c0) ms = reid i (play P b c0 ms).
Proof.
  unfold play. induction ms as [|m ms IH]; intros c0; cbn [fold_left]; [reflexivity|].
  rewrite conn_step_reid. apply IH.
Qed.

Lemma set_open_true c : c_open c = true -> set_open true c = c.
Proof. intros H. rewrite <- H. apply set_open_same. Qed.

Lemma play_cons b c0 m ms : play P b c0 (m :: ms) = play P b (conn_step P c0 (p_time m - b) m) ms.
Proof. reflexivity. Qed.

(* ---- what log mode records of a message list: up to and including the first message whose
   resolution raises something other than RuntimeError ---------------------------------------------- *)
Fixpoint db_take (b : Z) (d : db) (ms : list pmsg) : list pmsg :=
  match ms with
  | [] => []
  | m :: r => if fatal (snd (resolve_msg P d (p_time m - b) m)) then [m]
              else m :: db_take b (fst (fst (resolve_msg P d (p_time m - b) m))) r
  end.
Fixpoint db_ok (b : Z) (d : db) (ms : list pmsg) : bool :=
  match ms with
  | [] => true
  | m :: r => negb (fatal (snd (resolve_msg P d (p_time m - b) m))) &&
              db_ok b (fst (fst (resolve_msg P d (p_time m - b) m))) r
  end.

Definition log_recorded (ms : list pmsg) : list pmsg :=
  match ms with [] => [] | m0 :: _ => db_take (p_time m0) db_init ms end.
Definition log_accepts (ms : list pmsg) : bool :=
  match ms with [] => true | m0 :: _ => db_ok (p_time m0) db_init ms end.

Lemma db_ok_take b : forall ms d, db_ok b d ms = true -> db_take b d ms = ms.
Proof.
  induction ms as [|m r IH]; intros d H; [reflexivity|]. cbn [db_ok db_take] in *.
  apply andb_true_iff in H. destruct H as [H1 H2]. apply negb_true_iff in H1. rewrite H1, IH by exact H2. reflexivity.
Qed.

Lemma log_accepts_recorded ms : log_accepts ms = true -> log_recorded ms = ms.
Proof. destruct ms as [|m0 r]; [reflexivity|]. apply db_ok_take. Qed.

Lemma wf_db_ok b : forall ms d, forallb wf_msg ms = true -> db_ok b d ms = true.
Proof.
  induction ms as [|m r IH]; intros d H; [reflexivity|]. cbn [forallb db_ok] in *.
  apply andb_true_iff in H. destruct H as [H1 H2].
  rewrite (wf_msg_not_fatal P d _ m H1), IH by exact H2. reflexivity.
Qed.

(* the shape condition of IsolationRuns implies that log mode records everything *)
Lemma wf_log_accepts ms : forallb wf_msg ms = true -> log_accepts ms = true.
Proof. destruct ms as [|m0 r]; [reflexivity|]. apply wf_db_ok. Qed.

(* ---- log mode, one identifier --------------------------------------------------------------------------- *)
Lemma log_off_run id : forall ms T, s_parse (t_sess T) = false ->
  t_sess (fst (run P T (map (EMsg id) ms))) = t_sess T.
Proof.
  induction ms as [|m ms IH]; intros T Hp; [reflexivity|]. cbn [map]. rewrite run_cons.
  destruct (step_msg P T id m) as [_ S].
  assert (E : t_sess (fst (step P T (EMsg id m))) = t_sess T) by (rewrite S, log_message_off by exact Hp; reflexivity).
  rewrite IH by (rewrite E; exact Hp). exact E.
Qed.

Lemma log_run_conn id b : forall ms T c,
  t_base T = Some b -> abs_of id (t_sess T) = (true, true, Some c) ->
  abs_of id (t_sess (fst (run P T (map (EMsg id) ms)))) =
  (db_ok b (c_db c) ms, true, Some (play P b c (db_take b (c_db c) ms))).
Proof.
  induction ms as [|m ms IH]; intros T c Hb Ha; [exact Ha|].
  cbn [map]. rewrite run_cons. destruct (step_msg P T id m) as [Bm Sm].
  rewrite Hb in Bm, Sm. cbn [rel_time fst snd] in Bm, Sm.
  set (T1 := fst (step P T (EMsg id m))) in *.
  assert (A1 : abs_of id (t_sess T1) =
               (negb (fatal (snd (resolve_msg P (c_db c) (p_time m - b) m))), true, Some (conn_step P c (p_time m - b) m))).
  { rewrite Sm, log_message_own, Ha. reflexivity. }
  destruct (conn_step_frame P c (p_time m - b) m) as (_ & _ & _ & _ & Hdb & _).
  cbn [db_ok db_take]. destruct (fatal (snd (resolve_msg P (c_db c) (p_time m - b) m))) eqn:Ef; cbn [negb andb] in *.
  - assert (Hp : s_parse (t_sess T1) = false) by (unfold abs_of in A1; congruence).
    rewrite (log_off_run id ms T1 Hp), A1. reflexivity.
  - rewrite (IH T1 _ Bm A1), Hdb, play_cons. reflexivity.
Qed.

Lemma abs_of_eq id s p k oc : abs_of id s = (p, k, oc) -> s_parse s = p /\ the_conn s id = oc.
Proof. unfold abs_of. intros H. injection H as H1 _ H3. split; assumption. Qed.

(* the connection log mode records for the lines of one identifier, from the initial state *)
Theorem log_single : forall d st c u g id m0 r,
  let ms := m0 :: r in
  abs_of id (t_sess (fst (run P (mkTop None (init_sess d st c u g)) (map (EMsg id) ms)))) =
  (log_accepts ms, true,
   Some (play P (p_time m0) (fresh_conn id (conn_name 0) (is_get_registry m0)) (log_recorded ms))).
Proof.
  intros d st c u g id m0 r ms. unfold ms. cbn [map]. rewrite run_cons.
  set (T0 := mkTop None (init_sess d st c u g)).
  destruct (step_msg P T0 id m0) as [Bm Sm]. cbn [T0 t_base t_sess rel_time fst snd] in Bm, Sm.
  set (T1 := fst (step P T0 (EMsg id m0))) in *.
  set (f0 := fresh_conn id (conn_name 0) (is_get_registry m0)).
  assert (A1 : abs_of id (t_sess T1) = (negb (fatal (snd (resolve_msg P db_init 0 m0))), true, Some (conn_step P f0 0 m0))).
  { rewrite Sm, log_message_own. reflexivity. }
  destruct (conn_step_frame P f0 0 m0) as (_ & _ & _ & _ & Hdb & _). cbn [f0 fresh_conn c_db] in Hdb. fold f0 in Hdb.
  unfold log_accepts, log_recorded. cbn [db_ok db_take]. rewrite Z.sub_diag.
  destruct (fatal (snd (resolve_msg P db_init 0 m0))) eqn:Ef; cbn [negb andb] in *.
  - assert (Hp : s_parse (t_sess T1) = false) by (unfold abs_of in A1; congruence).
    rewrite (log_off_run id (r) T1 Hp), A1. rewrite play_cons, Z.sub_diag. reflexivity.
  - rewrite (log_run_conn id (p_time m0) r T1 _ Bm A1), Hdb, play_cons, Z.sub_diag. reflexivity.
Qed.

(* ---- GDB mode, one address ------------------------------------------------------------------------------- *)
Lemma gdb_single : forall d st c u g a th m0 r,
  s_conns (t_sess (fst (run P (mkTop None (init_sess d st c u g)) (map (EGdbMsg a th) (m0 :: r))))) =
  [play P (p_time m0) (fresh_conn a (conn_name 0) (is_get_registry m0)) (m0 :: r)].
Proof.
  intros d st c u g a th m0 r.
  assert (Hl : forallb gdb_event (map (EGdbMsg a th) (m0 :: r)) = true).
  { pose proof (solo_events_gdb th (mkLt a true m0 r)) as H. unfold solo_events in H. cbn [lt_open] in H.
    rewrite app_nil_r in H. exact H. }
  assert (HL : lifetimes (map (EGdbMsg a th) (m0 :: r)) = [mkLt a true m0 r]).
  { pose proof (lifetimes_solo th (mkLt a true m0 r)) as H. unfold solo_events in H. cbn [lt_open] in H.
    rewrite app_nil_r in H. exact H. }
  rewrite (gdb_conns_exact P d st c u g None _ Hl), HL, named_conns_single.
  unfold spec_conn. cbn [lt_addr lt_open lt_msgs lt_first lt_rest lt_sv origin first_gdb_time map].
  destruct (play_frame P (p_time m0) (m0 :: r) (fresh_conn a (conn_name 0) (is_get_registry m0))) as (_ & _ & Ho & _).
  cbn [fresh_conn c_open] in Ho. rewrite <- Ho at 1. rewrite set_open_same. reflexivity.
Qed.

(* ---- ONE CONNECTION: the same record but for the identifier ------------------------------------------------ *)
(* in general: log mode records what GDB mode records for the prefix [log_recorded ms] *)
Theorem cross_mode_single_general : forall d st c u g g' a th id m0 r,
  let ms := m0 :: r in
  exists cg,
    s_conns (t_sess (fst (run P (mkTop None (init_sess d st c u g)) (map (EGdbMsg a th) (log_recorded ms))))) = [cg] /\
    the_conn (t_sess (fst (run P (mkTop None (init_sess d st c u g')) (map (EMsg id) ms)))) id = Some (reid id cg) /\
    s_parse (t_sess (fst (run P (mkTop None (init_sess d st c u g')) (map (EMsg id) ms)))) = log_accepts ms.
Proof.
  intros d st c u g g' a th id m0 r ms.
  pose proof (log_single d st c u g' id m0 r) as HL. cbn zeta in HL. fold ms in HL.
  assert (E : exists r', log_recorded ms = m0 :: r').
  { unfold ms, log_recorded. cbn [db_take]. destruct (fatal _); eexists; reflexivity. }
  destruct E as (r' & E). rewrite E in *.
  eexists. split; [apply gdb_single|]. destruct (abs_of_eq _ _ _ _ _ HL) as [H1 H3]. split; [|exact H1].
  rewrite H3. change (fresh_conn id (conn_name 0) (is_get_registry m0)) with (reid id (fresh_conn a (conn_name 0) (is_get_registry m0))).
  rewrite play_reid. reflexivity.
Qed.

(* when log mode accepts every message (no assertion of Message.resolve fails): the whole list *)
Theorem cross_mode_single : forall d st c u g g' a th id ms,
  ms <> [] -> log_accepts ms = true ->
  exists cg,
    s_conns (t_sess (fst (run P (mkTop None (init_sess d st c u g)) (map (EGdbMsg a th) ms)))) = [cg] /\
    the_conn (t_sess (fst (run P (mkTop None (init_sess d st c u g')) (map (EMsg id) ms)))) id = Some (reid id cg) /\
    c_id cg = a /\ c_open cg = true /\ c_name cg = conn_name 0 /\
    List.length (c_msgs cg) = List.length ms.
Proof.
  intros d st c u g g' a th id ms Hne Hacc. destruct ms as [|m0 r]; [contradiction|].
  destruct (cross_mode_single_general d st c u g g' a th id m0 r) as (cg & H1 & H2 & _). cbn zeta in H1, H2.
  rewrite (log_accepts_recorded _ Hacc) in H1. exists cg. split; [exact H1|]. split; [exact H2|].
  assert (E : cg = play P (p_time m0) (fresh_conn a (conn_name 0) (is_get_registry m0)) (m0 :: r))
    by (rewrite gdb_single in H1; congruence).
  rewrite E.
  destruct (play_frame P (p_time m0) (m0 :: r) (fresh_conn a (conn_name 0) (is_get_registry m0))) as (F1 & F2 & F3 & _ & F5).
  rewrite F1, F2, F3, F5. repeat split.
Qed.

Corollary cross_mode_single_wf : forall d st c u g g' a th id ms,
  ms <> [] -> forallb wf_msg ms = true ->
  exists cg,
    s_conns (t_sess (fst (run P (mkTop None (init_sess d st c u g)) (map (EGdbMsg a th) ms)))) = [cg] /\
    the_conn (t_sess (fst (run P (mkTop None (init_sess d st c u g')) (map (EMsg id) ms)))) id = Some (reid id cg).
Proof.
  intros d st c u g g' a th id ms Hne Hwf.
  destruct (cross_mode_single d st c u g g' a th id ms Hne (wf_log_accepts ms Hwf)) as (cg & H1 & H2 & _).
  exists cg. split; assumption.
Qed.

(* ---- SEVERAL CONNECTIONS ----------------------------------------------------------------------------------- *)
Lemma spec_conn_body b n l : untimed_body (spec_conn P b n l) = conn_body (lt_conn P l).
Proof. unfold untimed_body. rewrite spec_conn_untimed. reflexivity. Qed.

Theorem cross_mode_lifetime : forall d st c u gevs lev i l id,
  forallb gdb_event gevs = true ->
  nth_error (lifetimes gevs) i = Some l ->
  forallb log_event lev = true ->
  only id lev = map (EMsg id) (lt_msgs l) ->
  foreign_abort P id (top0 d st c u false) lev = false ->
  log_accepts (lt_msgs l) = true ->
  exists cg cl,
    nth_error (s_conns (t_sess (fst (run P (mkTop None (init_sess d st c u true)) gevs)))) i = Some cg /\
    the_conn (t_sess (fst (run P (top0 d st c u false) lev))) id = Some cl /\
    untimed_body cg = untimed_body cl /\
    c_id cg = lt_addr l /\ c_id cl = id /\
    c_open cg = lt_open l /\ c_open cl = true /\
    c_name cg = conn_name (N.of_nat i).
Proof.
  intros d st c u gevs lev i l id Hg Hi Hl Hon Hfa Hacc.
  pose proof (gdb_nth_conn P d st c u true None gevs i l Hg Hi) as HG.
  pose proof (merged_is_solo P d st c u false lev id Hl Hfa) as HM. rewrite Hon in HM.
  pose proof (log_single d st c u false id (lt_first l) (lt_rest l)) as HS. cbn zeta in HS.
  change (lt_first l :: lt_rest l) with (lt_msgs l) in HS. rewrite (log_accepts_recorded _ Hacc) in HS.
  destruct (abs_of_eq _ _ _ _ _ HS) as [_ HS']. unfold view_of, top0 in HM. rewrite HS' in HM.
  set (cl0 := play P (p_time (lt_first l)) (fresh_conn id (conn_name 0) (is_get_registry (lt_first l))) (lt_msgs l)) in *.
  destruct (the_conn (t_sess (fst (run P (mkTop None (init_sess d st c u false)) lev))) id) as [cl|] eqn:Ecl; [|discriminate].
  cbn [option_map] in HM.
  assert (HM' : untimed (conn_view cl) = untimed (conn_view cl0)) by congruence.
  destruct (body_of_view cl cl0 HM') as (B1 & B2 & B3).
  exists (spec_conn P (origin None gevs) (conn_name (N.of_nat i)) l), cl.
  split; [exact HG|]. split; [exact Ecl|].
  destruct (spec_conn_fields P (origin None gevs) (conn_name (N.of_nat i)) l) as (F1 & F2 & F3 & _).
  destruct (play_frame P (p_time (lt_first l)) (lt_msgs l) (fresh_conn id (conn_name 0) (is_get_registry (lt_first l))))
    as (G1 & _ & G3 & _).
  fold cl0 in G1, G3. cbn [fresh_conn c_id c_open] in G1, G3.
  split; [|repeat split; congruence].
  rewrite B1, spec_conn_body.
  (* the solo log connection is the open version of the lifetime, with the tag as identifier *)
  set (l' := mkLt (lt_addr l) true (lt_first l) (lt_rest l)).
  assert (E0 : cl0 = reid id (spec_conn P (p_time (lt_first l)) (conn_name 0) l')).
  { unfold cl0, spec_conn, l'. cbn [lt_addr lt_open lt_msgs lt_first lt_rest lt_sv].
    change (fresh_conn id (conn_name 0) (is_get_registry (lt_first l)))
      with (reid id (fresh_conn (lt_addr l) (conn_name 0) (is_get_registry (lt_first l)))).
    rewrite play_reid. f_equal.
    destruct (play_frame P (p_time (lt_first l)) (lt_first l :: lt_rest l)
                (fresh_conn (lt_addr l) (conn_name 0) (is_get_registry (lt_first l)))) as (_ & _ & Ho & _).
    cbn [fresh_conn c_open] in Ho. symmetry. apply set_open_true. exact Ho. }
  rewrite E0, untimed_body_reid, spec_conn_body. destruct l; reflexivity.
Qed.

Lemma forallb_filter {A} (f g : A -> bool) l : forallb f l = true -> forallb f (filter g l) = true.
Proof.
  induction l as [|x l IH]; intros H; [reflexivity|]. cbn [forallb filter] in *.
  apply andb_true_iff in H. destruct H as [H1 H2]. destruct (g x); cbn [forallb]; [rewrite H1|]; apply IH; exact H2.
Qed.

Lemma wf_event_msgs id ms : forallb wf_event (map (EMsg id) ms) = forallb wf_msg ms.
Proof. induction ms as [|m ms IH]; [reflexivity|]. cbn [map forallb wf_event]. rewrite IH. reflexivity. Qed.

(* the same with the shape condition on the log's messages instead of the two side conditions *)
Corollary cross_mode_lifetime_wf : forall d st c u gevs lev i l id,
  forallb gdb_event gevs = true ->
  nth_error (lifetimes gevs) i = Some l ->
  forallb log_event lev = true -> forallb wf_event lev = true ->
  only id lev = map (EMsg id) (lt_msgs l) ->
  exists cg cl,
    nth_error (s_conns (t_sess (fst (run P (mkTop None (init_sess d st c u true)) gevs)))) i = Some cg /\
    the_conn (t_sess (fst (run P (top0 d st c u false) lev))) id = Some cl /\
    untimed_body cg = untimed_body cl /\
    c_id cg = lt_addr l /\ c_id cl = id /\
    c_open cg = lt_open l /\ c_open cl = true /\
    c_name cg = conn_name (N.of_nat i).
Proof.
  intros d st c u gevs lev i l id Hg Hi Hl Hwf Hon.
  apply cross_mode_lifetime; try assumption.
  - apply parse_on_no_foreign_abort; [exact Hl|]. apply wf_run_parse_on; assumption.
  - apply wf_log_accepts. rewrite <- (wf_event_msgs id), <- Hon. apply forallb_filter. exact Hwf.
Qed.

End WithP.

Print Assumptions log_single.
Print Assumptions cross_mode_single_general.
Print Assumptions cross_mode_single.
Print Assumptions cross_mode_single_wf.
Print Assumptions cross_mode_lifetime.
Print Assumptions cross_mode_lifetime_wf.

(* ---- non-vacuity (empty protocol database) -------------------------------------------------------------------- *)
Module CrossExamples.
Import IsolationRuns.Examples.   (* m_gr, m_bind, m_del, m_bad, x, y *)

Definition a := s2l "0x5581a0".
Definition Gg : top := mkTop None (init_sess (MAlways true) (MAlways false) false true true).
Definition Gl : top := mkTop None (init_sess (MAlways true) (MAlways false) false true false).

(* first lifetime: object id 3 is created, deleted and re-used (two incarnations), and a delete_id of
   an id never created (refused with RuntimeError); second lifetime at the same address *)
Definition life1 : list pmsg :=
  [m_gr 100; m_bind 110 "wl_compositor"; m_del 115 3; m_bind 120 "wl_seat"; m_del 125 9].
Definition life2 : list pmsg := [m_gr 130; m_bind 140 "wl_shm"].

Definition gevs : list event :=
  map (EGdbMsg a 1) life1 ++ [EGdbDestroy a] ++ map (EGdbMsg a 2) life2.
(* the log: the same messages under two tags, interleaved differently, with a text line and a command *)
Definition lev : list event :=
  [EMsg y (m_gr 130); EMsg x (m_gr 100); EMsg x (m_bind 110 "wl_compositor"); EText (s2l "noise");
   EMsg y (m_bind 140 "wl_shm"); EMsg x (m_del 115 3); ECmd (s2l "connection"); EMsg x (m_bind 120 "wl_seat");
   EMsg x (m_del 125 9)].

Example ex_hypotheses :
  forallb gdb_event gevs = true /\ forallb log_event lev = true /\ forallb wf_event lev = true /\
  lifetimes gevs = [mkLt a false (m_gr 100) (tl life1); mkLt a true (m_gr 130) (tl life2)] /\
  only x lev = map (EMsg x) life1 /\ only y lev = map (EMsg y) life2 /\
  log_accepts [] life1 = true /\ log_accepts [] life2 = true /\
  foreign_abort [] x Gl lev = false /\ foreign_abort [] y Gl lev = false.
Proof. vm_compute. repeat split. Qed.

Definition objs (c : connst) := map (fun p => (fst p, map (fun o => (o_gen o, o_type o, o_alive o)) (snd p))) (c_db c).

(* one connection, both modes: equal records but for the identifier (time stamps included) *)
Example ex_single :
  s_conns (t_sess (fst (run [] Gg (map (EGdbMsg a 7) life1)))) =
    [reid a (hd (fresh_conn [] [] None) (s_conns (t_sess (fst (run [] Gl (map (EMsg x) life1))))))] /\
  the_conn (t_sess (fst (run [] Gl (map (EMsg x) life1)))) x =
    option_map (reid x) (hd_error (s_conns (t_sess (fst (run [] Gg (map (EGdbMsg a 7) life1)))))) /\
  map (fun c => (List.length (c_msgs c), objs c)) (s_conns (t_sess (fst (run [] Gg (map (EGdbMsg a 7) life1))))) =
    [(5%nat, [(1, [(0%N, Some (s2l "wl_display"), true)]); (2, [(0%N, Some (s2l "wl_registry"), true)]);
              (3, [(0%N, Some (s2l "wl_compositor"), false); (1%N, Some (s2l "wl_seat"), true)])])].
Proof. vm_compute. repeat split. Qed.

(* two lifetimes at one address against two log tags *)
Example ex_lifetimes_vs_tags :
  let cg := s_conns (t_sess (fst (run [] Gg gevs))) in
  let sl := t_sess (fst (run [] Gl lev)) in
  option_map untimed_body (nth_error cg 0) = option_map untimed_body (the_conn sl x) /\
  option_map untimed_body (nth_error cg 1) = option_map untimed_body (the_conn sl y) /\
  map (fun c => (c_id c, c_name c, c_open c)) cg = [(a, s2l "A", false); (a, s2l "B", true)] /\
  option_map (fun c => (c_id c, c_name c, c_open c)) (the_conn sl x) = Some (x, s2l "B", true) /\
  option_map (fun c => (c_id c, c_name c, c_open c)) (the_conn sl y) = Some (y, s2l "A", true) /\
  nth_error cg 0 <> None /\ nth_error cg 1 <> None.
Proof. vm_compute. repeat (split; [reflexivity|]). split; intros H; discriminate H. Qed.

(* THE DIFFERENCE between the modes: after an ill-typed delete_id (AssertionError) log mode stops
   decoding, GDB mode goes on.  Both record the offending message itself; log mode records the
   prefix [log_recorded], and equals the GDB run of that prefix. *)
Definition bad_ms : list pmsg := [m_gr 0; m_bad 5; m_bind 10 "wl_compositor"].

Example ex_switch_differs :
  log_accepts [] bad_ms = false /\ log_recorded [] bad_ms = [m_gr 0; m_bad 5] /\
  map (fun c => List.length (c_msgs c)) (s_conns (t_sess (fst (run [] Gg (map (EGdbMsg a 1) bad_ms))))) = [3%nat] /\
  option_map (fun c => List.length (c_msgs c)) (the_conn (t_sess (fst (run [] Gl (map (EMsg x) bad_ms)))) x) = Some 2%nat /\
  the_conn (t_sess (fst (run [] Gl (map (EMsg x) bad_ms)))) x =
    option_map (reid x) (hd_error (s_conns (t_sess (fst (run [] Gg (map (EGdbMsg a 1) (log_recorded [] bad_ms))))))) /\
  s_parse (t_sess (fst (run [] Gl (map (EMsg x) bad_ms)))) = false /\
  s_parse (t_sess (fst (run [] Gg (map (EGdbMsg a 1) bad_ms)))) = true.
Proof. vm_compute. repeat split. Qed.

End CrossExamples.
