(* StreamSpecA.v — C08 and C06 lifted to whole streams, part A: what ONE log line contributes.

   [arrival s id rel m] is what the per-connection step does with a decoded message line tagged
   [id] in state [s] (which connection, which resolved message, or which exception).
   [log_message_out]   : the complete output of the line, for ANY state.
   [live_view_step]    : C06 for one line, ANY state (any filter, any selection).
   [live_view_event], [live_view_stream] : C06 over whole runs, ANY starting state and ANY
                         events in between (commands are opaque: the filter and the selection in
                         force are read off the state the run has reached).
   [star_line_items]   : C08 for one line, under filter `*`, no selection, breakpoint `!`.

   Part B (StreamSpecB.v) replaces "the state the run has reached" by a closed-form reference
   resolver for streams that start in the initial state. *)
From WD Require Import Base Wire Protocol Conn Color LetterId Matcher MatcherParse Show Session.
From WD Require Import ProtocolProofs LetterIdProofs ControllerProofs SessionProofs ConnMgrProofs IsolationRuns.
From Coq Require Import Lia.
Open Scope Z_scope.

(* ---- items: what remains of an event's output once notices and separators are dropped -------- *)
(* a connection-opened notice, by shape: one text segment starting with "New " (possibly after the
   colour escape of good_color) *)
Definition is_open_notice (o : oline) : bool :=
  match o with
  | OOut [Txt s] => starts_with (s2l "New ") s || starts_with (csi (s2l "1;92") ++ s2l "New ") s
  | _ => false
  end.

(* a time-gap separator, certain (OOut) or rounding-dependent (OMaybe) *)
Definition is_gap_sep (o : oline) : bool :=
  match o with
  | OOut l => is_sep (OOut l)
  | OMaybe l => is_sep (OOut l)
  | _ => false
  end.

Definition is_item (o : oline) : bool := negb (is_open_notice o || is_gap_sep o).

(* the items of one event's output / of a whole run's output (aligned with the events) *)
Definition items1 (o : list oline) : list oline := filter is_item o.
Definition items (outs : list (list oline)) : list oline := flat_map items1 outs.

Lemma items1_app a b : items1 (a ++ b) = items1 a ++ items1 b.
Proof. apply filter_app. Qed.

(* the passthrough item for a text [t]: the line's own text behind the "       |  " gutter *)
Definition pass_item (on : bool) (t : str) : oline :=
  OOut [Txt (color on symbol_color (s2l "       |  " ++ t))].
Definition pass_items (on unprocessed : bool) (t : str) : list oline :=
  if unprocessed then [pass_item on t] else [].

(* the item of a message that was delivered to connection [ci] (named [cn], object table [d]
   after the message) as resolved message [rm] *)
Definition msg_item (on : bool) (ci : nat) (cn : str) (d : db) (rm : rmsg) : oline :=
  OMsg ci rm (show_msg on d cn rm).

(* the item of a line whose handling raised something other than RuntimeError: a traceback and
   an error line (texts not modelled) *)
Definition hard_items (on : bool) : list oline := [OOut [AnyText]; error_line on [AnyText]].

Lemma is_item_pass on t : is_item (pass_item on t) = true.
Proof. destruct on; reflexivity. Qed.
Lemma is_item_msg on ci cn d rm : is_item (msg_item on ci cn d rm) = true.
Proof. reflexivity. Qed.
Lemma is_item_hard on : items1 (hard_items on) = hard_items on.
Proof. reflexivity. Qed.
Lemma is_open_notice_new on sv name : is_open_notice (new_conn_line on sv name) = true.
Proof. destruct on; reflexivity. Qed.
Lemma is_gap_sep_sep on delta : is_gap_sep (OOut (sep_line on delta)) = true /\ is_gap_sep (OMaybe (sep_line on delta)) = true.
Proof. split; reflexivity. Qed.

Lemma unprocessed_line_pass s t : unprocessed_line s t = pass_items (s_color s) (s_unprocessed s) t.
Proof. reflexivity. Qed.

Lemma items1_pass on u t : items1 (pass_items on u t) = pass_items on u t.
Proof. destruct u; [|reflexivity]. unfold pass_items, items1. cbn [filter]. rewrite is_item_pass. reflexivity. Qed.

(* what show_message prints: the message item, behind at most a separator *)
Lemma items1_show_message on ci d cn last m :
  items1 (fst (show_message on ci d cn last m)) = [msg_item on ci cn d m].
Proof.
  unfold show_message. cbn [fst]. rewrite items1_app.
  destruct (1000000 <? _); [reflexivity|]. destruct (_ =? 1000000); reflexivity.
Qed.

Section WithP.
Variable P : pdb.

(* ---- the run, event by event ------------------------------------------------------------------- *)
Lemma run_snd_cons T e evs :
  snd (run P T (e :: evs)) = snd (step P T e) :: snd (run P (fst (step P T e)) evs).
Proof. cbn [run]. destruct (step P T e) as [T1 o]. cbn [fst snd]. destruct (run P T1 evs). reflexivity. Qed.

Lemma run_length evs : forall T, List.length (snd (run P T evs)) = List.length evs.
Proof.
  induction evs as [|e evs IH]; intros T; [reflexivity|].
  rewrite run_snd_cons. cbn [List.length]. rewrite IH. reflexivity.
Qed.

(* the k-th output is the output of the k-th event's step from the state reached after k events *)
Lemma run_nth evs : forall T k e, nth_error evs k = Some e ->
  nth_error (snd (run P T evs)) k = Some (snd (step P (fst (run P T (firstn k evs))) e)).
Proof.
  induction evs as [|e0 evs IH]; intros T [|k] e H; cbn [nth_error] in H; try discriminate.
  - injection H as ->. rewrite run_snd_cons. cbn [firstn run fst nth_error]. reflexivity.
  - rewrite run_snd_cons. cbn [nth_error firstn]. rewrite run_cons. apply IH. exact H.
Qed.

(* ---- what the per-connection step does with a message line ----------------------------------- *)
Inductive outcome :=
| AOff                                                    (* decoding was switched off earlier *)
| ADelivered (ci : nat) (cn : str) (d : db) (rm : rmsg)   (* resolved; connection index, name, table after *)
| ASoft (msg : str)                                       (* resolution raised RuntimeError msg *)
| AHard.                                                  (* any other exception (incl. no open connection) *)

Definition arrival (s : sess) (id : str) (rel : Z) (m : pmsg) : outcome :=
  if negb (s_parse s) then AOff else
  let s2 := pre_open s id rel m in
  match find_open s2 id with
  | None => AHard
  | Some i =>
      match nth_error (s_conns s2) i with
      | None => AHard
      | Some c =>
          let '(d', rm, err) := resolve_msg P (c_db c) rel m in
          match err with
          | None => ADelivered i (c_name c) d' rm
          | Some (RuntimeError, msg) => ASoft msg
          | Some _ => AHard
          end
      end
  end.

(* connection-opened notice (preceded by closed notices if an open connection had the identifier) *)
Definition notices (s : sess) (id : str) (rel : Z) (m : pmsg) : list oline :=
  if known s id then [] else snd (open_conn (set_last s rel) id (is_get_registry m)).

Definition body (s : sess) (a : outcome) : list oline :=
  match a with
  | AOff => []
  | ADelivered i cn d rm => snd (fst (ctrl_on_message (s_color s) (s_ctrl s) i d cn rm))
  | ASoft msg => unprocessed_line s msg
  | AHard => hard_items (s_color s)
  end.

Lemma close_conn_misc s id :
  let s' := fst (close_conn s id) in
  s_ctrl s' = s_ctrl s /\ s_color s' = s_color s /\ s_unprocessed s' = s_unprocessed s.
Proof.
  unfold close_conn. destruct (find_open s id) as [i|]; [|repeat split].
  destruct (nth_error (s_conns s) i); repeat split.
Qed.

Lemma open_conn_misc s id sv :
  let s' := fst (open_conn s id sv) in
  s_ctrl s' = s_ctrl s /\ s_color s' = s_color s /\ s_unprocessed s' = s_unprocessed s.
Proof.
  unfold open_conn. pose proof (close_conn_misc s id) as H.
  destruct (close_conn s id) as [s1 o1]. cbn [fst] in *. exact H.
Qed.

Lemma pre_open_misc s id rel m :
  let s2 := pre_open s id rel m in
  s_ctrl s2 = s_ctrl s /\ s_color s2 = s_color s /\ s_unprocessed s2 = s_unprocessed s.
Proof.
  unfold pre_open. destruct (known s id); [repeat split|].
  exact (open_conn_misc (set_last s rel) id (is_get_registry m)).
Qed.

Lemma conn_message_out s2 id rel m :
  let r := conn_message P s2 id rel m in
  let s3 := fst (fst (fst r)) in
  s_color s3 = s_color s2 /\ s_unprocessed s3 = s_unprocessed s2 /\
  match find_open s2 id with
  | None => snd (fst r) = Some (AssertionError, []) /\ snd (fst (fst r)) = []
  | Some i =>
      match nth_error (s_conns s2) i with
      | None => snd (fst r) = Some (AssertionError, []) /\ snd (fst (fst r)) = []
      | Some c =>
          snd (fst r) = snd (resolve_msg P (c_db c) rel m) /\
          snd (fst (fst r)) =
            match snd (resolve_msg P (c_db c) rel m) with
            | Some _ => []
            | None => snd (fst (ctrl_on_message (s_color s2) (s_ctrl s2) i
                             (fst (fst (resolve_msg P (c_db c) rel m))) (c_name c)
                             (snd (fst (resolve_msg P (c_db c) rel m)))))
            end
      end
  end.
Proof.
  unfold conn_message. destruct (find_open s2 id) as [i|]; [|repeat split].
  destruct (nth_error (s_conns s2) i) as [c|]; [|repeat split].
  destruct (resolve_msg P (c_db c) rel m) as [[d' rm] err]. cbn [fst snd].
  destruct err as [e|]; [repeat split|].
  destruct (ctrl_on_message (s_color s2) (s_ctrl s2) i d' (c_name c) rm) as [[k' outs] stop].
  destruct stop; repeat split.
Qed.

Lemma log_message_snd s id rel m : s_parse s = true ->
  snd (log_message P s id rel m) =
  let r := conn_message P (pre_open s id rel m) id rel m in
  notices s id rel m ++ snd (fst (fst r)) ++
  match snd (fst r) with
  | None => []
  | Some (RuntimeError, msg) => unprocessed_line (fst (fst (fst r))) msg
  | Some _ => hard_items (s_color (fst (fst (fst r))))
  end.
Proof.
  intros Hp. unfold log_message, notices, pre_open, known, set_last, hard_items. rewrite Hp. cbn [negb s_known].
  destruct (existsb (str_eqb id) (s_known s)).
  - destruct (conn_message P _ id rel m) as [[[s3 o2] err] st]. cbn [fst snd app].
    destruct err as [[[] msg]|]; cbn [snd]; rewrite ?app_nil_r; reflexivity.
  - destruct (open_conn _ id (is_get_registry m)) as [sa oa]. cbn [fst snd]. unfold add_known.
    destruct (conn_message P _ id rel m) as [[[s3 o2] err] st]. cbn [fst snd].
    destruct err as [[[] msg]|]; cbn [snd]; rewrite ?app_nil_r; reflexivity.
Qed.

(* THE COMPLETE OUTPUT OF ONE MESSAGE LINE, any state *)
Theorem log_message_out s id rel m :
  snd (log_message P s id rel m) =
  match arrival s id rel m with
  | AOff => []
  | a => notices s id rel m ++ body s a
  end.
Proof.
  unfold arrival. destruct (s_parse s) eqn:Hp; cbn [negb].
  2: { rewrite log_message_off by exact Hp. reflexivity. }
  rewrite log_message_snd by exact Hp. cbn zeta.
  destruct (pre_open_misc s id rel m) as (Hk & Hc & Hu). cbn zeta in Hk, Hc, Hu.
  set (s2 := pre_open s id rel m) in *.
  destruct (conn_message_out s2 id rel m) as (Hc3 & Hu3 & H). cbn zeta in Hc3, Hu3, H.
  destruct (find_open s2 id) as [i|].
  2: { destruct H as [-> ->]. cbn [app body]. rewrite Hc3, Hc. reflexivity. }
  destruct (nth_error (s_conns s2) i) as [c|].
  2: { destruct H as [-> ->]. cbn [app body]. rewrite Hc3, Hc. reflexivity. }
  destruct H as [-> ->].
  destruct (resolve_msg P (c_db c) rel m) as [[d' rm] err]. cbn [fst snd].
  destruct err as [[e msg]|].
  - destruct e; cbn [app body]; unfold unprocessed_line; rewrite ?Hc3, ?Hu3, ?Hc, ?Hu; reflexivity.
  - cbn [body]. rewrite app_nil_r, Hc, Hk. reflexivity.
Qed.

(* when each outcome happens, in terms of the connection the line is attributed to *)
Theorem arrival_cases s id rel m :
  s_parse s = true ->
  forall i c, find_open (pre_open s id rel m) id = Some i ->
              nth_error (s_conns (pre_open s id rel m)) i = Some c ->
  let '(d', rm, err) := resolve_msg P (c_db c) rel m in
  arrival s id rel m =
    match err with
    | None => ADelivered i (c_name c) d' rm
    | Some (RuntimeError, msg) => ASoft msg
    | Some _ => AHard
    end.
Proof.
  intros Hp i c Hf Hn. unfold arrival. rewrite Hp. cbn [negb]. rewrite Hf, Hn.
  destruct (resolve_msg P (c_db c) rel m) as [[d' rm] err]. reflexivity.
Qed.

(* a message of the shape [wf_msg] never takes the hard path once it has a connection *)
Theorem arrival_wf_not_hard s id rel m :
  wf_msg m = true -> find_open (pre_open s id rel m) id <> None -> arrival s id rel m <> AHard.
Proof.
  intros Hw Hf. unfold arrival. destruct (negb (s_parse s)); [discriminate|].
  destruct (find_open (pre_open s id rel m) id) as [i|] eqn:E; [|contradiction].
  destruct (find_open_spec _ _ _ E) as (c & Hn & _). rewrite Hn.
  pose proof (wf_msg_not_fatal P (c_db c) rel m Hw) as F.
  destruct (resolve_msg P (c_db c) rel m) as [[d' rm] err]. cbn [snd] in F.
  destruct err as [[[] msg]|]; try discriminate.
Qed.

(* ---- C06, one line, any state ---------------------------------------------------------------- *)
Lemma close_conn_no_msgs s id : shown_msgs (snd (close_conn s id)) = [].
Proof.
  unfold close_conn. destruct (find_open s id) as [i|]; [|reflexivity].
  destruct (nth_error (s_conns s) i); reflexivity.
Qed.

Lemma notices_no_msgs s id rel m : shown_msgs (notices s id rel m) = [].
Proof.
  unfold notices. destruct (known s id); [reflexivity|].
  destruct (open_conn_spec (set_last s rel) id (is_get_registry m)) as (_ & _ & ->).
  rewrite shown_msgs_app, close_conn_no_msgs. reflexivity.
Qed.

(* the live view's answer for a line, from the filter and the selection of controller state [k] *)
Definition live_spec (k : ctrl) (a : outcome) : list (nat * rmsg) :=
  match a with
  | ADelivered ci cn d rm =>
      if selected (k_current k) ci && matches (k_display k) (VM (view_msg d cn rm)) then [(ci, rm)] else []
  | _ => []
  end.

Theorem live_view_step s id rel m :
  shown_msgs (snd (log_message P s id rel m)) = live_spec (s_ctrl s) (arrival s id rel m).
Proof.
  rewrite log_message_out.
  destruct (arrival s id rel m) as [|ci cn d rm|msg|] eqn:Ea; [reflexivity| | |].
  - rewrite shown_msgs_app, notices_no_msgs. cbn [app body live_spec].
    destruct (ctrl_on_message (s_color s) (s_ctrl s) ci d cn rm) as [[k' outs] stop] eqn:E.
    destruct (ctrl_on_message_spec _ _ _ _ _ _ _ _ _ E) as (_ & _ & _ & _ & Hs & _). exact Hs.
  - rewrite shown_msgs_app, notices_no_msgs. cbn [app body live_spec].
    unfold unprocessed_line. destruct (s_unprocessed s); reflexivity.
  - rewrite shown_msgs_app, notices_no_msgs. reflexivity.
Qed.

(* ---- C06, whole runs --------------------------------------------------------------------------- *)
Definition arrival_top (T : top) (id : str) (m : pmsg) : outcome :=
  arrival (t_sess T) id (snd (rel_time (t_base T) (p_time m))) m.

Lemma step_msg_out T id m :
  snd (step P T (EMsg id m)) =
  snd (log_message P (t_sess T) id (snd (rel_time (t_base T) (p_time m))) m).
Proof.
  destruct T as [b0 s]. unfold step. cbn [t_base t_sess].
  destruct (rel_time b0 (p_time m)) as [b' rel]. cbn [fst snd].
  destruct (log_message P s id rel m) as [s1 o]. reflexivity.
Qed.

(* For every run, from any state, over any events: the message items printed by the k-th event,
   when it is a message line, are exactly the arriving (connection, message) pair if it matches
   the filter in force just before that event and its connection passes the selection in force
   just before that event — once — and nothing otherwise. *)
Theorem live_view_event T evs k id m :
  nth_error evs k = Some (EMsg id m) ->
  let Tk := fst (run P T (firstn k evs)) in
  exists o, nth_error (snd (run P T evs)) k = Some o /\
            shown_msgs o = live_spec (s_ctrl (t_sess Tk)) (arrival_top Tk id m).
Proof.
  intros H Tk. eexists. split; [apply run_nth; exact H|].
  fold Tk. rewrite step_msg_out. apply live_view_step.
Qed.

(* the same as an "if and only if" *)
Corollary live_view_iff T evs k id m o :
  nth_error evs k = Some (EMsg id m) -> nth_error (snd (run P T evs)) k = Some o ->
  let Tk := fst (run P T (firstn k evs)) in
  let kc := s_ctrl (t_sess Tk) in
  forall ci rm,
    In (ci, rm) (shown_msgs o) <->
    exists cn d, arrival_top Tk id m = ADelivered ci cn d rm /\
                 selected (k_current kc) ci = true /\
                 matches (k_display kc) (VM (view_msg d cn rm)) = true.
Proof.
  intros He Ho Tk kc ci rm.
  destruct (live_view_event T evs k id m He) as (o' & Ho' & Hs). fold Tk in Hs.
  rewrite Ho in Ho'. injection Ho' as <-. rewrite Hs. fold kc.
  destruct (arrival_top Tk id m) as [|ci' cn d rm'|msg|]; cbn [live_spec].
  - split; [intros []|intros (cn & d & E & _); discriminate].
  - destruct (selected (k_current kc) ci') eqn:Es, (matches (k_display kc) (VM (view_msg d cn rm'))) eqn:Em; cbn [andb].
    + split.
      * intros [E|[]]. injection E as <- <-. exists cn, d. repeat split; assumption.
      * intros (cn0 & d0 & E & _). injection E as <- _ _ <-. left. reflexivity.
    + split; [intros []|]. intros (cn0 & d0 & E & _ & Hm). injection E as _ <- <- <-. congruence.
    + split; [intros []|]. intros (cn0 & d0 & E & Hsel & _). injection E as <- _ _ _. congruence.
    + split; [intros []|]. intros (cn0 & d0 & E & Hsel & _). injection E as <- _ _ _. congruence.
  - split; [intros []|intros (cn & d & E & _); discriminate].
  - split; [intros []|intros (cn & d & E & _); discriminate].
Qed.

(* all message items of the live view, in output order: those printed by message-line events
   (the `list` command prints message items too; they are not part of the live view) *)
Fixpoint live_shown (evs : list event) (outs : list (list oline)) : list (nat * rmsg) :=
  match evs, outs with
  | e :: evs', o :: outs' =>
      (match e with EMsg _ _ => shown_msgs o | _ => [] end) ++ live_shown evs' outs'
  | _, _ => []
  end.

(* ... and what the property demands: walk the stream, ask filter and selection in force *)
Fixpoint live_expected (T : top) (evs : list event) : list (nat * rmsg) :=
  match evs with
  | [] => []
  | e :: evs' =>
      (match e with
       | EMsg id m => live_spec (s_ctrl (t_sess T)) (arrival_top T id m)
       | _ => []
       end) ++ live_expected (fst (step P T e)) evs'
  end.

Theorem live_view_stream evs : forall T,
  live_shown evs (snd (run P T evs)) = live_expected T evs.
Proof.
  induction evs as [|e evs IH]; intros T; [reflexivity|].
  rewrite run_snd_cons. cbn [live_shown live_expected]. rewrite IH. f_equal.
  destruct e as [id m| | | | | | | | | ]; try reflexivity.
  rewrite step_msg_out. apply live_view_step.
Qed.

(* ---- C08, one line, under filter `*`, no selection, breakpoint `!` ---------------------------- *)
Definition star_ctrl (k : ctrl) : Prop :=
  k_display k = MAlways true /\ k_stop k = MAlways false /\ k_current k = None.

Lemma ctrl_star_out on k ci d cn rm : star_ctrl k ->
  snd (fst (ctrl_on_message on k ci d cn rm)) = fst (show_message on ci d cn (k_last_shown k) rm).
Proof.
  intros (Hd & Hs & Hc). unfold ctrl_on_message. rewrite Hd, Hs, Hc. cbn [matches].
  destruct (show_message on ci d cn (k_last_shown k) rm) as [o1 l1]. cbn [fst snd]. apply app_nil_r.
Qed.

Lemma ctrl_on_message_keeps on k ci d cn rm :
  let k' := fst (fst (ctrl_on_message on k ci d cn rm)) in
  k_display k' = k_display k /\ k_stop k' = k_stop k /\ k_current k' = k_current k.
Proof.
  destruct (ctrl_on_message on k ci d cn rm) as [[k' outs] stop] eqn:E.
  destruct (ctrl_on_message_spec _ _ _ _ _ _ _ _ _ E) as (_ & H1 & H2 & H3 & _). repeat split; assumption.
Qed.

(* the item a message line must yield, from its outcome *)
Definition line_items (on unprocessed : bool) (a : outcome) : list oline :=
  match a with
  | AOff => []
  | ADelivered ci cn d rm => [msg_item on ci cn d rm]
  | ASoft msg => pass_items on unprocessed msg
  | AHard => hard_items on
  end.

Theorem star_line_items s id rel m :
  star_ctrl (s_ctrl s) -> Forall (fun o => is_open_notice o = true) (notices s id rel m) ->
  items1 (snd (log_message P s id rel m)) = line_items (s_color s) (s_unprocessed s) (arrival s id rel m).
Proof.
  intros Hstar Hn. rewrite log_message_out.
  assert (N : items1 (notices s id rel m) = []).
  { unfold items1. induction Hn as [|o l Ho _ IH]; [reflexivity|]. cbn [filter]. unfold is_item at 1.
    rewrite Ho. exact IH. }
  destruct (arrival s id rel m) as [|ci cn d rm|msg|]; [reflexivity| | |];
    rewrite items1_app, N; cbn [app body line_items].
  - rewrite ctrl_star_out by exact Hstar. apply items1_show_message.
  - rewrite unprocessed_line_pass. apply items1_pass.
  - reflexivity.
Qed.

End WithP.

Print Assumptions log_message_out.
Print Assumptions live_view_step.
Print Assumptions live_view_event.
Print Assumptions live_view_iff.
Print Assumptions live_view_stream.
Print Assumptions star_line_items.
