(* Proofs about protocol loading and lookups (C07). *)
From WD Require Import Base Protocol.
From Coq Require Import Lia Permutation.
Open Scope Z_scope.

Lemma str_eqb_eq a : forall b, str_eqb a b = true <-> a = b.
Proof.
  unfold str_eqb. induction a as [|x a IH]; intros [|y b]; cbn; split; intros H; try discriminate; try reflexivity.
  - apply andb_true_iff in H. destruct H as [H1 H2]. apply N.eqb_eq in H1. apply IH in H2. subst. reflexivity.
  - injection H as -> ->. rewrite N.eqb_refl. cbn. apply IH. reflexivity.
Qed.
Lemma str_eqb_refl a : str_eqb a a = true.
Proof. apply str_eqb_eq. reflexivity. Qed.
Lemma str_eqb_neq a b : str_eqb a b = false <-> a <> b.
Proof. split; intros H. - intros E. apply str_eqb_eq in E. congruence. - destruct (str_eqb a b) eqn:E; [apply str_eqb_eq in E; contradiction|reflexivity]. Qed.

(* ---- ordered dictionaries ---------------------------------------------------------------------- *)
Lemma od_get_set {A} (key : A -> str) d v k :
  od_get key (od_set key d v) k = if str_eqb (key v) k then Some v else od_get key d k.
Proof.
  induction d as [|x d IH]; cbn [od_set od_get].
  - reflexivity.
  - destruct (str_eqb (key x) (key v)) eqn:E1; cbn [od_get].
    + apply str_eqb_eq in E1. rewrite E1. destruct (str_eqb (key v) k); reflexivity.
    + destruct (str_eqb (key x) k) eqn:E2.
      * destruct (str_eqb (key v) k) eqn:E3; [|reflexivity].
        apply str_eqb_eq in E2, E3. apply str_eqb_neq in E1. congruence.
      * exact IH.
Qed.

(* ---- load(): the highest version wins, whatever the order ------------------------------------- *)
Definition best_step (name : str) (cur : option p_iface) (i : p_iface) : option p_iface :=
  if str_eqb (pi_name i) name then
    match cur with
    | None => Some i
    | Some ex => if pi_version ex <? pi_version i then Some i else Some ex
    end
  else cur.

Lemma load_iface_get db i name :
  od_get pi_name (load_iface db i) name = best_step name (od_get pi_name db name) i.
Proof.
  unfold load_iface, best_step.
  destruct (od_get pi_name db (pi_name i)) as [ex|] eqn:E.
  - destruct (pi_version ex <? pi_version i) eqn:Ev.
    + rewrite od_get_set. destruct (str_eqb (pi_name i) name) eqn:En; [|reflexivity].
      apply str_eqb_eq in En. subst name. rewrite E, Ev. reflexivity.
    + destruct (str_eqb (pi_name i) name) eqn:En; [|reflexivity].
      apply str_eqb_eq in En. subst name. rewrite E, Ev. reflexivity.
  - rewrite od_get_set. destruct (str_eqb (pi_name i) name) eqn:En; [|reflexivity].
    apply str_eqb_eq in En. subst name. rewrite E. reflexivity.
Qed.

Lemma load_fold_get l : forall db name,
  od_get pi_name (fold_left load_iface l db) name = fold_left (best_step name) l (od_get pi_name db name).
Proof.
  induction l as [|i l IH]; intros db name; cbn [fold_left]; [reflexivity|].
  rewrite IH, load_iface_get. reflexivity.
Qed.

(* all descriptions, in loading order *)
Definition all_descriptions (fs : list (list p_iface)) : list p_iface := flat_map norm_file fs.

Lemma load_files_flat fs : forall db, fold_left load_file fs db = fold_left load_iface (all_descriptions fs) db.
Proof.
  induction fs as [|f fs IH]; intros db; cbn [fold_left all_descriptions flat_map]; [reflexivity|].
  rewrite IH. unfold load_file. rewrite fold_left_app. reflexivity.
Qed.

Theorem load_lookup fs name :
  od_get pi_name (load_files fs) name = fold_left (best_step name) (all_descriptions fs) None.
Proof. unfold load_files. rewrite load_files_flat, load_fold_get. reflexivity. Qed.

Lemma best_fold_spec name l : forall cur r,
  (forall x, cur = Some x -> pi_name x = name) ->
  fold_left (best_step name) l cur = Some r ->
  (In r l \/ cur = Some r) /\ pi_name r = name /\
  (forall i, In i l -> pi_name i = name -> pi_version i <= pi_version r) /\
  (forall ex, cur = Some ex -> pi_version ex <= pi_version r).
Proof.
  induction l as [|i l IH]; intros cur r Hc H; cbn [fold_left] in H.
  - subst cur. split; [right; reflexivity|]. split; [apply Hc; reflexivity|].
    split; [intros i []|]. intros ex E. injection E as ->. lia.
  - assert (Hc' : forall x, best_step name cur i = Some x -> pi_name x = name).
    { intros x Hx. unfold best_step in Hx. destruct (str_eqb (pi_name i) name) eqn:En; [|apply Hc; exact Hx].
      apply str_eqb_eq in En. destruct cur as [ex|]; [destruct (pi_version ex <? pi_version i)|];
        injection Hx as <-; try exact En. apply Hc. reflexivity. }
    destruct (IH _ _ Hc' H) as (Hin & Hname & Hmax & Hcur). split; [|split; [exact Hname|split]].
    + destruct Hin as [Hin|E]; [left; right; exact Hin|].
      unfold best_step in E. destruct (str_eqb (pi_name i) name); [|right; exact E].
      destruct cur as [ex|]; [destruct (pi_version ex <? pi_version i)|].
      * injection E as <-. left. left. reflexivity.
      * right. exact E.
      * injection E as <-. left. left. reflexivity.
    + intros j [<-|Hj] Hn; [|apply Hmax; assumption].
      unfold best_step in Hcur. apply str_eqb_eq in Hn. rewrite Hn in Hcur.
      destruct cur as [ex|]; [destruct (pi_version ex <? pi_version i) eqn:Ev|].
      * apply Hcur. reflexivity.
      * specialize (Hcur ex eq_refl). lia.
      * apply Hcur. reflexivity.
    + intros ex E. subst cur. unfold best_step in Hcur.
      destruct (str_eqb (pi_name i) name); [|apply Hcur; reflexivity].
      destruct (pi_version ex <? pi_version i) eqn:Ev; [specialize (Hcur i eq_refl); lia|apply Hcur; reflexivity].
Qed.

(* the description looked up under [name] is one of the loaded descriptions of that name and no
   loaded description of that name has a greater version *)
Theorem load_max_version fs name r :
  od_get pi_name (load_files fs) name = Some r ->
  In r (all_descriptions fs) /\ pi_name r = name /\
  forall i, In i (all_descriptions fs) -> pi_name i = name -> pi_version i <= pi_version r.
Proof.
  rewrite load_lookup. intros H.
  destruct (best_fold_spec name (all_descriptions fs) None r) as (Hin & Hn & Hmax & _); [discriminate|exact H|].
  destruct Hin as [Hin|E]; [|discriminate]. repeat split; [exact Hin|exact Hn|exact Hmax].
Qed.

Lemma best_fold_none name l : fold_left (best_step name) l None = None -> forall i, In i l -> pi_name i <> name.
Proof.
  intros H i Hin En.
  assert (G : forall l c, (exists x, c = Some x) -> exists y, fold_left (best_step name) l c = Some y).
  { clear. induction l as [|j l IH]; intros c [x ->]; cbn; [eexists; reflexivity|].
    apply IH. unfold best_step. destruct (str_eqb (pi_name j) name); [destruct (pi_version x <? pi_version j)|]; eexists; reflexivity. }
  revert H. apply in_split in Hin. destruct Hin as (l1 & l2 & ->). rewrite fold_left_app. cbn [fold_left].
  intros H. destruct (G l2 (best_step name (fold_left (best_step name) l1 None) i)) as [y Hy].
  - unfold best_step. apply str_eqb_eq in En. rewrite En.
    destruct (fold_left _ l1 None) as [ex|]; [destruct (pi_version ex <? pi_version i)|]; eexists; reflexivity.
  - unfold best_step in *. congruence.
Qed.

(* whatever the order in which the same descriptions are loaded, the version that wins is the same *)
Theorem load_order_independent l1 l2 name :
  Permutation l1 l2 ->
  option_map pi_version (od_get pi_name (fold_left load_iface l1 []) name) =
  option_map pi_version (od_get pi_name (fold_left load_iface l2 []) name).
Proof.
  intros HP. rewrite !load_fold_get. cbn [od_get].
  destruct (fold_left (best_step name) l1 None) as [r1|] eqn:E1;
  destruct (fold_left (best_step name) l2 None) as [r2|] eqn:E2; cbn; try reflexivity.
  - destruct (best_fold_spec name l1 None r1) as ([H1|H1] & N1 & M1 & _); [discriminate|exact E1| |discriminate].
    destruct (best_fold_spec name l2 None r2) as ([H2|H2] & N2 & M2 & _); [discriminate|exact E2| |discriminate].
    f_equal.
    assert (pi_version r1 <= pi_version r2) by (apply M2; [eapply Permutation_in; eassumption|exact N1]).
    assert (pi_version r2 <= pi_version r1) by (apply M1; [eapply Permutation_in; [apply Permutation_sym|]; eassumption|exact N2]).
    lia.
  - exfalso. destruct (best_fold_spec name l1 None r1) as ([H1|H1] & N1 & _); [discriminate|exact E1| |discriminate].
    apply (best_fold_none _ _ E2 r1); [eapply Permutation_in; eassumption|exact N1].
  - exfalso. destruct (best_fold_spec name l2 None r2) as ([H2|H2] & N2 & _); [discriminate|exact E2| |discriminate].
    apply (best_fold_none _ _ E1 r2); [eapply Permutation_in; [apply Permutation_sym|]; eassumption|exact N2].
Qed.

(* ---- positional argument lookup ------------------------------------------------------------------ *)
Theorem get_arg_positional db iface mname idx i m :
  (str_eqb iface (s2l "wl_registry") && str_eqb mname (s2l "bind")) = false ->
  od_get pi_name db iface = Some i -> od_get pm_name (pi_msgs i) mname = Some m ->
  get_arg_name db iface mname idx =
    match nth_error (pm_args m) idx with
    | Some a => Ok (Some (pa_name a))
    | None => get_arg_name db iface mname idx   (* RuntimeError: fewer arguments described *)
    end /\
  (forall a, nth_error (pm_args m) idx = Some a ->
     look_up_interface db iface mname idx = Ok (pa_iface a)).
Proof.
  intros Hb Hi Hm. unfold get_arg_name, look_up_interface, get_arg. rewrite Hb, Hi, Hm.
  destruct (nth_error (pm_args m) idx) as [a|]; cbn; split; try reflexivity.
  - intros a0 E. injection E as <-. reflexivity.
  - intros a0 E. discriminate.
Qed.

Theorem bind_exempt db idx :
  get_arg db (s2l "wl_registry") (s2l "bind") idx = Ok None.
Proof. reflexivity. Qed.

(* messages on interfaces without a description are shown undecorated, never dropped *)
Theorem unknown_iface_undecorated db iface mname idx v :
  od_get pi_name db iface = None ->
  get_arg_name db iface mname idx = Ok None /\ look_up_interface db iface mname idx = Ok None /\
  look_up_enum db iface mname idx v = Ok [].
Proof.
  intros H. unfold get_arg_name, look_up_interface, look_up_enum, get_arg. rewrite H.
  destruct (str_eqb iface (s2l "wl_registry") && str_eqb mname (s2l "bind")); repeat split.
Qed.

(* ---- enum decoding -------------------------------------------------------------------------------- *)
Theorem enum_decode_exact db iface mname idx v a path en ls :
  get_arg db iface mname idx = Ok (Some a) -> pa_enum a = Some path -> get_enum db iface path = Some en ->
  look_up_enum db iface mname idx v = Ok ls ->
  let hits := filter (enum_entry_hits (pn_bitfield en) v) (pn_entries en) in
  (hits <> [] -> ls = map pe_name hits) /\
  (hits = [] -> ls = [if pn_bitfield en then s2l "(none)" else s2l "INVALID ENUM VALUE"]) /\
  (forall e, In e hits <-> In e (pn_entries en) /\
             (if pn_bitfield en then Z.land (pe_value e) v <> 0 else pe_value e = v)).
Proof.
  intros Ha Hp He H. unfold look_up_enum in H. rewrite Ha in H. cbn [bind] in H. rewrite Hp, He in H.
  cbn zeta. split; [|split].
  - intros Hne. destruct (filter _ _) as [|h hs] eqn:E; [contradiction|]. cbn [map] in H. injection H as <-. reflexivity.
  - intros E. rewrite E in H. cbn [map] in H. injection H as <-. reflexivity.
  - intros e. rewrite filter_In. unfold enum_entry_hits. destruct (pn_bitfield en); split; intros [A B]; split; try exact A.
    + apply negb_true_iff in B. lia.
    + apply negb_true_iff. lia.
    + lia.
    + lia.
Qed.

(* ---- enum value literals --------------------------------------------------------------------------- *)
Theorem int_base0_decimal s c :
  forallb is_digit (c :: s) = true -> c <> 48%N -> int_base0 (c :: s) = Some (Z.of_N (dec_value (c :: s))).
Proof.
  intros Hd Hc. unfold int_base0. rewrite Hd.
  destruct (N.eq_dec c 48) as [E|_]; [contradiction|].
  destruct c as [|p]; [reflexivity|].
  do 6 (destruct p as [p|p|]; try reflexivity); try (exfalso; apply Hc; reflexivity).
Qed.

Theorem int_base0_hex h : h <> [] -> int_base0 (48%N :: 120%N :: h) = option_map Z.of_N (base_value 16 0 h).
Proof. intros H. destruct h; [contradiction|reflexivity]. Qed.
