(* DecodeRoundTrip.v — C01, specification side: parsing a rendered line gives back what it denotes. *)
From WD Require Import Base Wire Decode Render LetterIdProofs DecodeBasics DecodeArgs DecodeSplit DecodeHeader.
From Coq Require Import Lia ZifyBool ZifyNat ZifyN.
Ltac Zify.zify_post_hook ::= Z.div_mod_to_equations.
Open Scope N_scope.

(* ---- search ---------------------------------------------------------------------------------------- *)
Lemma search_eq out s pos :
  search out s pos =
  match match_at out s with
  | Some h => Some (pos, h)
  | None => match s with [] => None | _ :: r => search out r (S pos) end
  end.
Proof. destruct s; reflexivity. Qed.

Lemma search_ge out s : forall pos p h, search out s pos = Some (p, h) -> (pos <= p)%nat.
Proof.
  induction s as [|c s IH]; intros pos p h H; rewrite search_eq in H; destruct (match_at out _).
  - inversion H. lia.
  - discriminate.
  - inversion H. lia.
  - apply IH in H. lia.
Qed.

Lemma search_none_gt out s pos p h :
  match_at out s = None -> search out s pos = Some (p, h) -> (S pos <= p)%nat.
Proof.
  intros Hn H. rewrite search_eq, Hn in H. destruct s as [|c s]; [discriminate|].
  apply search_ge in H. exact H.
Qed.

(* ---- message, once the header is known ------------------------------------------------------------------ *)
Definition body (raw : str) (sent : bool) (h : header) : res (str * pmsg) :=
  if negb (all_ascii (firstn (List.length raw - List.length (h_args h) - 1) raw)) then Raise OutOfModel [] else
  do t <- ts_micros (h_ts_int h) (h_ts_frac h);
  let id := Z.of_N (dec_value (h_id h)) in
  if (id =? 0)%Z then Raise AssertionError [] else
  do args <- mapM argument (split_args (h_args h));
  Ok (match h_conn h with Some c => c | None => s2l "PARSED" end,
      mkPmsg t (Some (h_type h)) id sent (h_name h) args).

Lemma message_out raw h : match_at true raw = Some h -> message raw = body raw true h.
Proof.
  intros H. unfold message. cbv zeta. rewrite (search_eq true), H.
  destruct (search false raw 0) as [[pi hi]|]; reflexivity.
Qed.

Lemma message_in raw h :
  match_at false raw = Some h -> match_at true raw = None -> message raw = body raw false h.
Proof.
  intros Hi Ho. unfold message. cbv zeta. rewrite (search_eq false), Hi.
  destruct (search true raw 0) as [[po ho]|] eqn:E; [|reflexivity].
  apply (search_none_gt _ _ _ _ _ Ho) in E. destruct po as [|po]; [lia|]. reflexivity.
Qed.

(* ---- the part of the line before the argument text -------------------------------------------------------- *)
Definition qtext m : str := match w_queue m with Some q => s2l " {" ++ q ++ [125] | None => [] end.
Definition ctext m : str := match w_conn m with Some c => s2l " <" ++ c ++ [62] | None => [] end.
Definition mtext m : str := if w_sent m then s2l "  -> " else [32].

Definition prefix d m : str :=
  render_ts d (w_time m) ++ qtext m ++ ctext m ++ mtext m
  ++ w_iface m ++ [sep_char d] ++ z_to_dec (w_id m) ++ [46] ++ w_name m ++ [40].

Lemma render_prefix d m : render d m = prefix d m ++ args_text d m ++ [41].
Proof. unfold render, prefix, qtext, ctext, mtext, args_text. repeat rewrite <- app_assoc. reflexivity. Qed.

Lemma firstn_prefix d m :
  firstn (List.length (render d m) - List.length (args_text d m) - 1) (render d m) = prefix d m.
Proof.
  rewrite render_prefix. rewrite !app_length. cbn [List.length].
  replace (List.length (prefix d m) + (List.length (args_text d m) + 1) - List.length (args_text d m) - 1)%nat
    with (List.length (prefix d m)) by lia.
  apply firstn_length_app.
Qed.

Lemma prefix_ascii d m : wf_parts m -> all_ascii (prefix d m) = true.
Proof.
  intros W. destruct W as [Wi Wn Hid _ Wq Wc _].
  apply is_word_str_spec in Wi. destruct Wi as [_ Wi].
  apply is_word_str_spec in Wn. destruct Wn as [_ Wn].
  destruct (pos_id_digits _ Hid) as [_ [Dd _]].
  assert (A1 : all_ascii (qtext m) = true).
  { unfold qtext. destruct (w_queue m) as [q|]; [|reflexivity]. rewrite !all_ascii_app.
    assert (Aq : all_ascii q = true).
    { revert Wq. apply forallb_impl. intros x Hx. apply andb_true_iff in Hx. tauto. }
    rewrite Aq. reflexivity. }
  assert (A2 : all_ascii (ctext m) = true).
  { unfold ctext. destruct (w_conn m) as [c|]; [|reflexivity]. rewrite !all_ascii_app.
    apply is_word_str_spec in Wc. destruct Wc as [_ Wc]. rewrite (word_all_ascii _ Wc). reflexivity. }
  assert (A3 : all_ascii (mtext m) = true) by (unfold mtext; destruct (w_sent m); reflexivity).
  assert (A4 : all_ascii [sep_char d] = true) by (unfold sep_char; destruct (d_hash d); reflexivity).
  unfold prefix. rewrite !all_ascii_app.
  rewrite render_ts_ascii, A1, A2, A3, A4, (word_all_ascii _ Wi), (word_all_ascii _ Wn), (digits_all_ascii _ Dd).
  reflexivity.
Qed.

(* ---- time stamp -------------------------------------------------------------------------------------------- *)
Lemma ts_micros_render t : t < 1000000000000000 ->
  ts_micros (n_to_dec (t / 1000)) (dec_pad 3 (t mod 1000)) = Ok (Z.of_N t).
Proof.
  intros Ht.
  assert (Hlo : t mod 1000 < 10 ^ N.of_nat 3) by (change (10 ^ N.of_nat 3) with 1000; lia).
  assert (Lf : List.length (dec_pad 3 (t mod 1000)) = 3%nat) by (apply dec_pad_length; [lia|exact Hlo]).
  assert (Li : (List.length (n_to_dec (t / 1000)) <= 12)%nat).
  { apply n_to_dec_len; [lia|]. change (10 ^ N.of_nat 12) with 1000000000000. lia. }
  unfold ts_micros. rewrite Lf. change (Nat.leb 3 3) with true. cbv beta iota zeta.
  change (repeat 48 (3 - 3)) with (@nil N). rewrite app_nil_r.
  assert (E : Nat.ltb 15 (List.length (drop_while (N.eqb 48) (n_to_dec (t / 1000) ++ dec_pad 3 (t mod 1000)))) = false).
  { apply Nat.ltb_ge. eapply Nat.le_trans; [apply drop_while_length_le|]. rewrite app_length. lia. }
  rewrite E. rewrite dec_value_hi_lo by (exact Hlo || lia).
  change (10 ^ N.of_nat 3) with 1000. f_equal. f_equal. lia.
Qed.

(* ---- the theorem ---------------------------------------------------------------------------------------------- *)
Theorem decode_render : forall d m, wf_wmsg m = true -> message (render d m) = Ok (denote d m).
Proof.
  intros d m Hwf.
  pose proof (match_at_render d m Hwf) as Hm.
  pose proof (wf_wmsg_parts m Hwf) as W.
  assert (Hb : message (render d m) = body (render d m) (w_sent m) (hdr d m)).
  { destruct (w_sent m) eqn:Es.
    - apply message_out. exact Hm.
    - apply message_in; [exact Hm|]. apply match_at_render_other; assumption. }
  rewrite Hb. unfold body, hdr. cbn [h_args h_ts_int h_ts_frac h_id h_conn h_type h_name].
  rewrite firstn_prefix, (prefix_ascii d m W). cbn [negb].
  rewrite (ts_micros_render _ (wp_time m W)). cbn [bind]. cbv zeta.
  destruct (pos_id_digits _ (wp_id m W)) as [_ [_ Vd]]. rewrite Vd.
  assert (Eid : Z.of_N (Z.to_N (w_id m)) = w_id m) by (pose proof (wp_id m W); lia).
  rewrite Eid.
  assert (Ez : (w_id m =? 0)%Z = false) by (pose proof (wp_id m W); lia).
  rewrite Ez. unfold args_text.
  rewrite (split_render d _ (wp_args m W)), (mapM_argument_render d _ (wp_args m W)).
  reflexivity.
Qed.

Print Assumptions decode_render.
