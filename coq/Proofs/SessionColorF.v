(* C17 lifted to the session, part F: a concrete session (non-vacuity). *)
From WD Require Import Base Wire Protocol Conn Color LetterId Matcher MatcherParse Show Session.
From WD Require Import ColorProofs ShowProofs SessionColorA SessionColorB SessionColorC SessionColorD SessionColorE.
Open Scope Z_scope.

Definition exP : pdb :=
  [mkPIface (s2l "wl_display") 1
     [mkPMsg (s2l "get_registry") [mkPArg (s2l "registry") (s2l "new_id") (Some (s2l "wl_registry")) None];
      mkPMsg (s2l "sync") [mkPArg (s2l "callback") (s2l "new_id") (Some (s2l "wl_callback")) None]] []].

Lemma exP_clean : pdb_clean exP.
Proof. repeat constructor. Qed.

Definition ex_events : list event :=
  [EMsg (s2l "x") (mkPmsg 1000 (Some (s2l "wl_display")) 1 true (s2l "get_registry") [PObj 2 (Some (s2l "wl_registry")) true]);
   EMsg (s2l "x") (mkPmsg 2500000 (Some (s2l "wl_display")) 1 true (s2l "sync") [PObj 3 (Some (s2l "wl_callback")) true]);
   EText (s2l "not a message");
   ECmd (s2l "filter wl_callback");
   ECmd (s2l "list");
   ECmd (s2l "connection");
   ECmd (s2l "bogus");
   EEof].

Lemma ex_events_ok : Forall ev_ok ex_events.
Proof. repeat constructor; try reflexivity; discriminate. Qed.

Definition exT (on : bool) : top := mkTop None (init_sess (MAlways true) (MAlways false) on true false).

Definition fmt0 (b : bool) (z : Z) : list N := z_to_dec z.
Definition render (o : oline) : option (list N) :=
  match o with
  | OOut l | OMsg _ _ l | OErr l | OMaybe l => Some (line_text fmt0 [] l)
  | _ => None
  end.
Definition has_esc (t : list N) : bool := existsb (N.eqb 27) t.
Definition renders (on : bool) : list (option (list N)) := map render (List.concat (snd (run exP (exT on) ex_events))).

(* two messages (with a time separator between them), a passed-through text line, filter, list,
   connection, an unknown command, end of input: 12 lines; the coloured ones stripped are the plain ones,
   every coloured line does contain escape sequences and no plain line does *)
Example session_color_ex :
  map (option_map no_color) (renders true) = renders false /\
  List.length (renders true) = 12%nat /\
  List.length (filter (fun r => match r with Some t => has_esc t | None => false end) (renders true)) = 12%nat /\
  forallb (fun r => match r with Some t => negb (has_esc t) | None => true end) (renders false) = true /\
  nth 0 (renders false) None = Some (s2l "New client connection A") /\
  nth 5 (renders false) None = Some (s2l "Only showing messages that match [wl_callback.*(*), *.*(*=wl_callback)]") /\
  nth 10 (renders false) None = Some (s2l "Error: Unknown command 'bogus'").
Proof. vm_compute. repeat split; reflexivity. Qed.

(* the same session through the theorems *)
Example session_color_ex_thm :
  Forall2 (Forall2 LineStrips) (snd (run exP (exT true) ex_events)) (snd (run exP (exT false) ex_events)).
Proof. apply session_color_invariant. Qed.

(* why the lines are related "after stripping both": a passed-through text line that itself contains
   an escape sequence keeps it in the plain output (it is not the tool's own), so the coloured
   output stripped is not the plain output, but it is the plain output stripped *)
Example echoed_escape_sequences :
  let t := [27; 91; 49; 109; 88]%N in                      (* ESC [ 1 m X *)
  let on := color true symbol_color (s2l "       |  " ++ t) in
  let off := color false symbol_color (s2l "       |  " ++ t) in
  no_color on = s2l "       |  X" /\ off = s2l "       |  " ++ t /\ no_color on <> off /\ no_color on = no_color off.
Proof. vm_compute. repeat split; try reflexivity. discriminate. Qed.

(* why barriers matter: an SGR sequence inserted between an unfinished "ESC [" and an "m" would not be
   invisible.  The tool never colours a text starting with a digit, ';', 'm' or '[' right after text
   it echoes: after every name printed inside a colour comes '@', '(', '=', '&', ',', ')' or a
   blank (CE_mshow, show_msg_LGC, CE_show_conn are proved for arbitrary names and texts). *)
Example barrier_needed :
  no_color ([27; 91]%N ++ reset ++ [109]%N) = [27; 91; 109]%N /\ no_color ([27; 91]%N ++ [109]%N) = [].
Proof. vm_compute. split; reflexivity. Qed.
