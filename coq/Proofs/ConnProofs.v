(* Proofs about the object table and Message.resolve (C02, C03). *)
From WD Require Import Base Wire Protocol Conn.
From Coq Require Import Lia ZifyBool ZifyNat ZifyN.
Open Scope Z_scope.

(* ---- association list ------------------------------------------------------------ *)
Lemma db_get_set d id l id' :
  db_get (db_set d id l) id' = if id =? id' then Some l else db_get d id'.
Proof.
  induction d as [|[k l0] d IH]; cbn [db_set db_get].
  - destruct (id =? id') eqn:E; reflexivity.
  - destruct (k =? id) eqn:E1; cbn [db_get].
    + destruct (k =? id') eqn:E2; destruct (id =? id') eqn:E3; try reflexivity; lia.
    + destruct (k =? id') eqn:E2.
      * destruct (id =? id') eqn:E3; [lia|reflexivity].
      * exact IH.
Qed.

(* ---- list helpers ------------------------------------------------------------------ *)
Lemma map_last_length {A} (f : A -> A) l : List.length (map_last f l) = List.length l.
Proof.
  induction l as [|x l IH]; [reflexivity|].
  destruct l as [|y l]; [reflexivity|]. cbn [map_last List.length] in *. rewrite IH. reflexivity.
Qed.

Lemma map_last_nth {A} (f : A -> A) l g :
  nth_error (map_last f l) g =
  if Nat.eqb (S g) (List.length l) then option_map f (nth_error l g) else nth_error l g.
Proof.
  revert g. induction l as [|x l IH]; intros g.
  - destruct g; reflexivity.
  - destruct l as [|y l].
    + destruct g as [|g]; cbn; [reflexivity|]. destruct g; reflexivity.
    + destruct g as [|g].
      * cbn. reflexivity.
      * change (map_last f (x :: y :: l)) with (x :: map_last f (y :: l)).
        cbn [nth_error]. rewrite IH. cbn [List.length]. reflexivity.
Qed.

Lemma last_nth {A} (l : list A) (dflt : A) :
  l <> [] -> nth_error l (List.length l - 1) = Some (last l dflt).
Proof.
  induction l as [|x l IH]; intros H; [contradiction|].
  destruct l as [|y l]; [reflexivity|].
  assert (Hne : y :: l <> []) by discriminate.
  specialize (IH Hne). cbn [List.length] in *.
  replace (S (S (List.length l)) - 1)%nat with (S (S (List.length l) - 1))%nat by lia.
  cbn [nth_error]. rewrite IH. reflexivity.
Qed.

Lemma rev_head_last {A} (l : list A) (o : A) r dflt :
  rev l = o :: r -> last l dflt = o /\ l <> [].
Proof.
  intros H. assert (l = rev r ++ [o]).
  { rewrite <- (rev_involutive l), H. reflexivity. }
  subst l. split; [apply last_last|]. destruct (rev r); discriminate.
Qed.

(* ---- the invariant of every reachable table (all histories, not only well-formed) ---- *)
Definition wf_list (id : Z) (l : list obj) : Prop :=
  l <> [] /\
  forall g o, nth_error l g = Some o ->
    o_id o = id /\ o_gen o = N.of_nat g /\ ((S g < List.length l)%nat -> o_alive o = false).

Definition Inv (d : db) : Prop := forall id l, db_get d id = Some l -> wf_list id l.

Lemma Inv_init : Inv db_init.
Proof.
  intros id l H. unfold db_init in H. cbn [db_get] in H. destruct (1 =? id) eqn:E; [|discriminate].
  injection H as <-. assert (id = 1) by lia. subst id. split; [discriminate|].
  intros g o Hn. destruct g as [|g]; cbn in Hn; [|destruct g; discriminate].
  injection Hn as <-. cbn. repeat split; try lia.
Qed.

Lemma kill_fields t o : o_id (kill t o) = o_id o /\ o_gen (kill t o) = o_gen o
  /\ o_type (kill t o) = o_type o /\ o_create (kill t o) = o_create o /\ o_alive (kill t o) = false.
Proof. repeat split. Qed.

Lemma wf_list_kill id l t : wf_list id l -> wf_list id (map_last (kill t) l).
Proof.
  intros [Hne H]. split.
  - intros E. apply (f_equal (@List.length obj)) in E. rewrite map_last_length in E.
    destruct l; [contradiction|discriminate].
  - intros g o Hn. rewrite map_last_nth in Hn. rewrite map_last_length.
    destruct (Nat.eqb (S g) (List.length l)) eqn:E.
    + destruct (nth_error l g) as [o0|] eqn:E0; [|discriminate]. injection Hn as <-.
      destruct (H g o0 E0) as (A & B & C). cbn. repeat split; try assumption.
    + apply H. exact Hn.
Qed.

(* appending a fresh incarnation after a list whose last element is dead *)
Lemma wf_list_append id l t ty :
  (l = [] \/ (wf_list id l /\ o_alive (last l display_obj) = false)) ->
  wf_list id (l ++ [mkObj id (N.of_nat (List.length l)) (Some ty) true t None]).
Proof.
  intros H. split; [destruct l; discriminate|].
  intros g o Hn. rewrite app_length. cbn [List.length].
  destruct (Nat.ltb g (List.length l)) eqn:E.
  - apply Nat.ltb_lt in E. rewrite nth_error_app1 in Hn by exact E.
    destruct H as [->|[[Hne H] Hdead]]; [cbn in E; lia|].
    destruct (H g o Hn) as (A & B & C). repeat split; try assumption.
    intros _. destruct (Nat.eq_dec (S g) (List.length l)) as [Eq|Ne].
    + assert (g = (List.length l - 1)%nat) by lia. subst g.
      rewrite (last_nth l display_obj Hne) in Hn. injection Hn as <-. exact Hdead.
    + apply C. lia.
  - apply Nat.ltb_ge in E. rewrite nth_error_app2 in Hn by exact E.
    destruct (g - List.length l)%nat as [|k] eqn:Ek; cbn in Hn; [|destruct k; discriminate].
    injection Hn as <-. cbn. repeat split; try lia.
Qed.

(* ---- create_object ---------------------------------------------------------------------- *)
(* what a successful creation does: exactly one new incarnation of [id], numbered by the
   number of earlier ones; at most the previous (server-owned, live) one is killed *)
Definition created (d d' : db) (id : Z) (t : Z) (ty : str) : Prop :=
  exists old old',
    (db_get d id = None /\ old = [] \/ db_get d id = Some old) /\
    db_get d' id = Some (old' ++ [mkObj id (N.of_nat (List.length old)) (Some ty) true t None]) /\
    (old' = old \/ (owned_by_server id = true /\ old' = map_last (kill t) old)) /\
    forall id', id' <> id -> db_get d' id' = db_get d id'.

Lemma create_object_spec d t id ty d' :
  create_object d t id ty = Ok d' -> 1 < id /\ created d d' id t ty.
Proof.
  unfold create_object. destruct (id <=? 1) eqn:E1; [discriminate|].
  assert (Hoth : forall l0 id', id' <> id -> db_get (db_set d id l0) id' = db_get d id').
  { intros l0 id' Hne. rewrite db_get_set. destruct (id =? id') eqn:E; [lia|reflexivity]. }
  destruct (db_get d id) as [l|] eqn:Eg.
  - destruct (o_alive (last l display_obj)) eqn:Ea.
    + destruct (str_eqb ty (s2l "wl_registry") && (id =? 2)); [discriminate|].
      destruct (owned_by_server id) eqn:Es; [|discriminate].
      intros H. injection H as <-. split; [lia|].
      exists l, (map_last (kill t) l).
      split; [right; exact Eg|]. split; [|split; [right; split; [exact Es|reflexivity]|apply Hoth]].
      rewrite db_get_set, Z.eqb_refl, map_last_length. reflexivity.
    + intros H. injection H as <-. split; [lia|].
      exists l, l.
      split; [right; exact Eg|]. split; [|split; [left; reflexivity|apply Hoth]].
      rewrite db_get_set, Z.eqb_refl. reflexivity.
  - intros H. injection H as <-. split; [lia|].
    exists [], [].
    split; [left; split; [exact Eg|reflexivity]|]. split; [|split; [left; reflexivity|apply Hoth]].
    rewrite db_get_set, Z.eqb_refl. reflexivity.
Qed.

(* when does creation succeed: fresh id, dead latest incarnation, or live server-owned id
   (other than a second wl_registry with id 2) *)
Lemma create_object_dead_ok d t id ty l :
  1 < id -> db_get d id = Some l -> o_alive (last l display_obj) = false ->
  exists d', create_object d t id ty = Ok d'.
Proof.
  intros H1 Hg Hd. unfold create_object. rewrite Hg, Hd.
  destruct (id <=? 1) eqn:E; [lia|]. eexists. reflexivity.
Qed.
Lemma create_object_fresh_ok d t id ty :
  1 < id -> db_get d id = None -> exists d', create_object d t id ty = Ok d'.
Proof.
  intros H1 Hg. unfold create_object. rewrite Hg.
  destruct (id <=? 1) eqn:E; [lia|]. eexists. reflexivity.
Qed.

Lemma create_object_inv d t id ty d' :
  Inv d -> create_object d t id ty = Ok d' -> Inv d'.
Proof.
  intros HI HC. pose proof HC as HC0. apply create_object_spec in HC. destruct HC as [_ (old & old' & Hold & Hnew & Hrel & Hother)].
  intros id' l Hg. destruct (Z.eq_dec id' id) as [->|Hne].
  - rewrite Hnew in Hg. injection Hg as <-.
    (* the list we append to has a dead last element *)
    unfold create_object in HC0. destruct (id <=? 1); [discriminate|].
    destruct Hold as [[Hn ->]|Hs].
    + destruct Hrel as [->|[_ ->]]; cbn [map_last]; apply wf_list_append; left; reflexivity.
    + rewrite Hs in HC0. pose proof (HI _ _ Hs) as Hwf.
      destruct (o_alive (last old display_obj)) eqn:Ea.
      * destruct (str_eqb ty (s2l "wl_registry") && (id =? 2)); [discriminate|].
        destruct (owned_by_server id); [|discriminate].
        injection HC0 as <-. rewrite db_get_set, Z.eqb_refl in Hnew. injection Hnew as Hnew.
        apply app_inj_tail in Hnew. destruct Hnew as [<- _].
        rewrite <- (map_last_length (kill t) old).
        apply wf_list_append. right. split; [apply wf_list_kill; exact Hwf|].
        destruct Hwf as [Hne _].
        assert (Hne' : map_last (kill t) old <> []).
        { intros E. apply (f_equal (@List.length obj)) in E. rewrite map_last_length in E.
          destruct old; [contradiction|discriminate]. }
        pose proof (last_nth (map_last (kill t) old) display_obj Hne') as Hl.
        rewrite map_last_nth, map_last_length in Hl.
        replace (Nat.eqb (S (List.length old - 1)) (List.length old)) with true in Hl
          by (symmetry; apply Nat.eqb_eq; destruct old; [contradiction|cbn; lia]).
        rewrite (last_nth old display_obj Hne) in Hl. cbn in Hl. injection Hl as Hl.
        rewrite <- Hl. reflexivity.
      * injection HC0 as <-. rewrite db_get_set, Z.eqb_refl in Hnew. injection Hnew as Hnew.
        apply app_inj_tail in Hnew. destruct Hnew as [<- _].
        apply wf_list_append. right. split; assumption.
  - rewrite (Hother _ Hne) in Hg. apply HI. exact Hg.
Qed.

(* ---- what never changes: identity, generation, type, creation time; death is permanent ---- *)
Definition preserved (d d' : db) : Prop :=
  forall id g o, lookup_obj d id g = Some o ->
    exists o', lookup_obj d' id g = Some o' /\
               o_id o' = o_id o /\ o_gen o' = o_gen o /\ o_type o' = o_type o /\
               o_create o' = o_create o /\ (o_alive o = false -> o_alive o' = false).

Lemma preserved_refl d : preserved d d.
Proof. intros id g o H. exists o. repeat split; auto. Qed.

Lemma preserved_trans a b c : preserved a b -> preserved b c -> preserved a c.
Proof.
  intros H1 H2 id g o H. destruct (H1 _ _ _ H) as (o1 & L1 & A1 & B1 & C1 & D1 & E1).
  destruct (H2 _ _ _ L1) as (o2 & L2 & A2 & B2 & C2 & D2 & E2).
  exists o2. repeat split; try congruence. intros Hd. apply E2, E1, Hd.
Qed.

Lemma lookup_kill_last d id l t id' g o :
  db_get d id = Some l ->
  lookup_obj d id' g = Some o ->
  exists o', lookup_obj (db_set d id (map_last (kill t) l)) id' g = Some o' /\
             o_id o' = o_id o /\ o_gen o' = o_gen o /\ o_type o' = o_type o /\
             o_create o' = o_create o /\ (o_alive o = false -> o_alive o' = false).
Proof.
  intros Hg Hl. unfold lookup_obj in *. rewrite db_get_set.
  destruct (id =? id') eqn:E.
  - assert (id' = id) by lia. subst id'. rewrite Hg in Hl.
    rewrite map_last_nth. destruct (Nat.eqb (S (N.to_nat g)) (List.length l)).
    + rewrite Hl. cbn. exists (kill t o). repeat split.
    + exists o. repeat split; auto.
  - exists o. repeat split; auto.
Qed.

Lemma create_object_preserved d t id ty d' :
  create_object d t id ty = Ok d' -> preserved d d'.
Proof.
  intros HC. apply create_object_spec in HC. destruct HC as [_ (old & old' & Hold & Hnew & Hrel & Hother)].
  intros id' g o Hl. destruct (Z.eq_dec id' id) as [->|Hne].
  - unfold lookup_obj in *. rewrite Hnew.
    destruct Hold as [[Hn ->]|Hs]; [rewrite Hn in Hl; discriminate|]. rewrite Hs in Hl.
    assert (Hlt : (N.to_nat g < List.length old)%nat) by (apply nth_error_Some; congruence).
    destruct Hrel as [->|[_ ->]].
    + rewrite nth_error_app1 by exact Hlt. exists o. repeat split; auto.
    + rewrite nth_error_app1 by (rewrite map_last_length; exact Hlt).
      rewrite map_last_nth. destruct (Nat.eqb (S (N.to_nat g)) (List.length old)).
      * rewrite Hl. cbn. exists (kill t o). repeat split.
      * exists o. repeat split; auto.
  - unfold lookup_obj in *. rewrite (Hother _ Hne). exists o. repeat split; auto.
Qed.

(* ---- arguments --------------------------------------------------------------------------- *)
Section WithP.
Variable P : pdb.

Definition is_new_typed (a : parg) : bool :=
  match a with PObj _ (Some _) true => true | _ => false end.

Lemma resolve_arg_inv d t tty mn idx a d' ra :
  Inv d -> resolve_arg P d t tty mn idx a = Ok (d', ra) -> Inv d' /\ preserved d d'.
Proof.
  intros HI H. unfold resolve_arg in H.
  destruct (base_name P tty mn idx) as [nm|]; cbn [bind] in H; [|discriminate].
  destruct a as [v|x|s|ty|id ty is_new|v|[vs|]|s].
  - destruct (enum_labels P tty mn idx v); cbn [bind] in H; [|discriminate]. injection H as <- _. split; [exact HI|apply preserved_refl].
  - injection H as <- _. split; [exact HI|apply preserved_refl].
  - injection H as <- _. split; [exact HI|apply preserved_refl].
  - destruct ty; [injection H as <- _; split; [exact HI|apply preserved_refl]|].
    destruct tty; [|injection H as <- _; split; [exact HI|apply preserved_refl]].
    destruct (look_up_interface P s mn idx); cbn [bind] in H; [|discriminate].
    injection H as <- _. split; [exact HI|apply preserved_refl].
  - injection H as <- _.
    destruct is_new; [|split; [exact HI|apply preserved_refl]].
    destruct ty as [ty|]; [|split; [exact HI|apply preserved_refl]].
    destruct (create_object d t id ty) as [d2|] eqn:EC; [|split; [exact HI|apply preserved_refl]].
    split; [eapply create_object_inv; eassumption|eapply create_object_preserved; eassumption].
  - injection H as <- _. split; [exact HI|apply preserved_refl].
  - destruct (mapM _ vs); cbn [bind] in H; [|discriminate]. injection H as <- _. split; [exact HI|apply preserved_refl].
  - injection H as <- _. split; [exact HI|apply preserved_refl].
  - injection H as <- _. split; [exact HI|apply preserved_refl].
Qed.

Lemma resolve_args_inv args : forall d t tty mn idx d' ras err,
  Inv d -> resolve_args P d t tty mn idx args = (d', ras, err) -> Inv d' /\ preserved d d'.
Proof.
  induction args as [|a rest IH]; intros d t tty mn idx d' ras err HI H; cbn [resolve_args] in H.
  - injection H as <- _ _. split; [exact HI|apply preserved_refl].
  - destruct (resolve_arg P d t tty mn idx a) as [[d1 ra]|e msg] eqn:EA.
    + destruct (resolve_args P d1 t tty mn (S idx) rest) as [[d2 ras2] err2] eqn:ER.
      injection H as <- _ _.
      destruct (resolve_arg_inv _ _ _ _ _ _ _ _ HI EA) as [HI1 HP1].
      destruct (IH _ _ _ _ _ _ _ _ HI1 ER) as [HI2 HP2].
      split; [exact HI2|eapply preserved_trans; eassumption].
    + injection H as <- _ _. split; [exact HI|apply preserved_refl].
Qed.

(* a message without typed new-id arguments creates nothing: same ids, same number of
   incarnations for every id *)
Definition same_shape (d d' : db) : Prop :=
  forall id, option_map (@List.length obj) (db_get d' id) = option_map (@List.length obj) (db_get d id).

Lemma resolve_args_no_new args : forall d t tty mn idx d' ras err,
  forallb (fun a => negb (is_new_typed a)) args = true ->
  resolve_args P d t tty mn idx args = (d', ras, err) -> d' = d.
Proof.
  induction args as [|a rest IH]; intros d t tty mn idx d' ras err Hn H; cbn [resolve_args] in H.
  - injection H as <- _ _. reflexivity.
  - cbn [forallb] in Hn. apply andb_true_iff in Hn. destruct Hn as [Ha Hr].
    destruct (resolve_arg P d t tty mn idx a) as [[d1 ra]|e msg] eqn:EA.
    + destruct (resolve_args P d1 t tty mn (S idx) rest) as [[d2 ras2] err2] eqn:ER.
      injection H as <- _ _.
      assert (d1 = d).
      { unfold resolve_arg in EA. destruct (base_name P tty mn idx); cbn [bind] in EA; [|discriminate].
        destruct a as [v|x|s|ty|id ty is_new|v|[vs|]|s]; cbn [is_new_typed negb] in Ha.
        - destruct (enum_labels P tty mn idx v); cbn [bind] in EA; [|discriminate]. injection EA as <- _. reflexivity.
        - injection EA as <- _. reflexivity.
        - injection EA as <- _. reflexivity.
        - destruct ty; [injection EA as <- _; reflexivity|]. destruct tty; [|injection EA as <- _; reflexivity].
          destruct (look_up_interface P s mn idx); cbn [bind] in EA; [|discriminate]. injection EA as <- _. reflexivity.
        - injection EA as <- _. destruct is_new; [|reflexivity]. destruct ty; [discriminate|reflexivity].
        - injection EA as <- _. reflexivity.
        - destruct (mapM _ vs); cbn [bind] in EA; [|discriminate]. injection EA as <- _. reflexivity.
        - injection EA as <- _. reflexivity.
        - injection EA as <- _. reflexivity. }
      subst d1. eapply IH; eassumption.
    + injection H as <- _ _. reflexivity.
Qed.

(* ---- whole messages --------------------------------------------------------------------------- *)
Lemma kill_last_inv d id l t : Inv d -> db_get d id = Some l -> Inv (db_set d id (map_last (kill t) l)).
Proof.
  intros HI Hg id' l' H. rewrite db_get_set in H. destruct (id =? id') eqn:E.
  - injection H as <-. assert (id' = id) by lia. subst. apply wf_list_kill. apply HI. exact Hg.
  - apply HI. exact H.
Qed.

Lemma kill_last_preserved d id l t : db_get d id = Some l -> preserved d (db_set d id (map_last (kill t) l)).
Proof. intros Hg id' g o Hl. eapply lookup_kill_last; eassumption. Qed.

Theorem resolve_msg_inv d t m d' rm err :
  Inv d -> resolve_msg P d t m = (d', rm, err) -> Inv d' /\ preserved d d'.
Proof.
  intros HI H. unfold resolve_msg in H.
  set (target := resolve_ref d (p_id m) (p_type m)) in *.
  set (tty := ref_type d target) in *.
  destruct (if match tty with Some t0 => str_eqb t0 (s2l "wl_registry") && str_eqb (p_name m) (s2l "bind") | None => false end
            then bind_typing (p_args m) else Ok (p_args m)) as [args|e msg] eqn:EB.
  2:{ injection H as <- _ _. split; [exact HI|apply preserved_refl]. }
  match type of H with
  | (match ?X with _ => _ end) = _ => destruct X as [[d1 destroyed]|e msg] eqn:ED
  end.
  2:{ injection H as <- _ _. split; [exact HI|apply preserved_refl]. }
  assert (H1 : Inv d1 /\ preserved d d1).
  { destruct (match target with Resolved 1 0%N => _ | _ => false end) eqn:Edel.
    - destruct args as [|[v| | | | | | |] rest]; try discriminate.
      destruct (retrieve_latest d v None) as [o|] eqn:ER; [|discriminate].
      destruct (db_get d v) as [l|] eqn:Eg; [|discriminate].
      injection ED as <- _. split; [apply kill_last_inv; assumption|apply kill_last_preserved; assumption].
    - injection ED as <- _. split; [exact HI|apply preserved_refl]. }
  destruct H1 as [HI1 HP1].
  destruct (resolve_args P d1 t tty (p_name m) 0 args) as [[d2 rargs] err2] eqn:ER.
  injection H as <- _ _.
  destruct (resolve_args_inv _ _ _ _ _ _ _ _ _ HI1 ER) as [HI2 HP2].
  split; [exact HI2|eapply preserved_trans; eassumption].
Qed.

(* ---- attribution: a mention resolves to the most recent incarnation of its id ----------------- *)
Theorem resolve_ref_latest d id ty id' g :
  Inv d -> resolve_ref d id ty = Resolved id' g ->
  id' = id /\ exists l, db_get d id = Some l /\ N.to_nat g = (List.length l - 1)%nat
                        /\ lookup_obj d id g = Some (last l display_obj).
Proof.
  intros HI H. unfold resolve_ref, retrieve_latest in H.
  destruct (db_get d id) as [l|] eqn:Eg; [|discriminate].
  destruct (rev l) as [|o r] eqn:Er; [discriminate|].
  destruct (rev_head_last l o r display_obj Er) as [Hlast Hne].
  assert (Ho : o_id o = id /\ o_gen o = N.of_nat (List.length l - 1)).
  { destruct (HI _ _ Eg) as [_ Hw]. pose proof (last_nth l display_obj Hne) as Hn. rewrite Hlast in Hn.
    destruct (Hw _ _ Hn) as (A & B & _). split; assumption. }
  destruct Ho as [Hid Hgen].
  assert (Hres : Resolved (o_id o) (o_gen o) = Resolved id' g).
  { destruct ty as [t0|]; [destruct (o_type o) as [ot|]|]; try exact H.
    destruct (str_match t0 ot); [exact H|discriminate]. }
  injection Hres as <- <-. split; [exact Hid|].
  exists l. repeat split.
  - rewrite Hgen. lia.
  - unfold lookup_obj. rewrite Eg, Hgen, Nat2N.id. apply last_nth. exact Hne.
Qed.

(* an unresolved mention means: no such id, or the printed interface contradicts the object's *)
Theorem resolve_ref_unresolved d id ty id' ty' :
  resolve_ref d id ty = Unresolved id' ty' ->
  id' = id /\ ty' = ty /\
  (db_get d id = None \/ (exists l t ot, db_get d id = Some l /\ ty = Some t /\
                                      o_type (last l display_obj) = Some ot /\ str_match t ot = false)
                       \/ db_get d id = Some []).
Proof.
  unfold resolve_ref, retrieve_latest. intros H.
  destruct (db_get d id) as [l|] eqn:Eg.
  - destruct (rev l) as [|o r] eqn:Er.
    + injection H as <- <-. split; [reflexivity|split; [reflexivity|]]. right. right.
      destruct l as [|x l]; [reflexivity|]. cbn [rev] in Er. destruct (rev l); discriminate.
    + destruct (rev_head_last l o r display_obj Er) as [Hlast _].
      destruct ty as [t0|]; [destruct (o_type o) as [ot|] eqn:Eo|]; try discriminate.
      destruct (str_match t0 ot) eqn:Em; [discriminate|]. injection H as <- <-.
      split; [reflexivity|split; [reflexivity|]].
      right. left. exists l, t0, ot. rewrite Hlast. repeat split; assumption.
  - injection H as <- <-. split; [reflexivity|split; [reflexivity|]]. left. reflexivity.
Qed.

(* ---- the destruction annotation ----------------------------------------------------------------- *)
(* the message carries destroyed = Some r  iff  it is delete_id(n, ...) on the connection's
   wl_display and n has an incarnation; r is then the latest incarnation of n, which is dead
   afterwards with destroy time = the message's time *)
Definition is_delete_on_display (d : db) (m : pmsg) : option Z :=
  match resolve_ref d (p_id m) (p_type m) with
  | Resolved 1 0%N =>
      if str_eqb (p_name m) (s2l "delete_id") then
        match p_args m with PInt v :: _ => Some v | _ => None end
      else None
  | _ => None
  end.


(* the arguments the resolver walks (bind typing applied) *)
Definition effective_args (d : db) (m : pmsg) : res (list parg) :=
  let target := resolve_ref d (p_id m) (p_type m) in
  match ref_type d target with
  | Some t => if str_eqb t (s2l "wl_registry") && str_eqb (p_name m) (s2l "bind")
              then bind_typing (p_args m) else Ok (p_args m)
  | None => Ok (p_args m)
  end.

(* C03: the annotation is present exactly on delete_id lines of the display, names the latest
   incarnation of the deleted id, and that incarnation is dead afterwards, its destroy time being
   the time of this message *)
Theorem destroyed_annotation_sound d t m d' rm err r :
  Inv d -> resolve_msg P d t m = (d', rm, err) -> m_destroyed rm = Some r ->
  exists v l, is_delete_on_display d m = Some v /\ db_get d v = Some l /\
              r = Resolved v (N.of_nat (List.length l - 1)) /\
              exists o', lookup_obj d' v (N.of_nat (List.length l - 1)) = Some o' /\
                         o_alive o' = false /\ m_time rm = t.
Proof.
  intros HI H Hd. unfold resolve_msg in H.
  set (target := resolve_ref d (p_id m) (p_type m)) in *.
  set (tty := ref_type d target) in *.
  destruct (if match tty with Some t0 => str_eqb t0 (s2l "wl_registry") && str_eqb (p_name m) (s2l "bind") | None => false end
            then bind_typing (p_args m) else Ok (p_args m)) as [args|e msg] eqn:EB.
  2:{ injection H as _ <- _. discriminate. }
  match type of H with
  | (match ?X with _ => _ end) = _ => destruct X as [[d1 destroyed]|e msg] eqn:ED
  end.
  2:{ injection H as _ <- _. discriminate. }
  destruct (resolve_args P d1 t tty (p_name m) 0 args) as [[d2 rargs] err2] eqn:ER.
  injection H as <- <- _. cbn [m_destroyed m_time] in *. subst destroyed.
  destruct (match target with Resolved 1 0%N => str_eqb (p_name m) (s2l "delete_id") && negb match args with [] => true | _ => false end | _ => false end) eqn:Edel.
  2:{ discriminate. }
  destruct args as [|[v| | | | | | |] rest]; try discriminate.
  destruct (retrieve_latest d v None) as [o|] eqn:ERl; [|discriminate].
  destruct (db_get d v) as [l|] eqn:Eg; [|discriminate].
  injection ED as <- <-.
  (* the retrieved object is the latest incarnation *)
  assert (Href : resolve_ref d v None = Resolved (o_id o) (o_gen o)) by (unfold resolve_ref; rewrite ERl; reflexivity).
  destruct (resolve_ref_latest _ _ _ _ _ HI Href) as (Hid & l' & Hl' & Hg & _).
  rewrite Eg in Hl'. injection Hl' as <-.
  exists v, l. split.
  - unfold is_delete_on_display. fold target. destruct target as [i g|]; [|discriminate].
    destruct i as [|[| |]|]; try discriminate. destruct g; [|discriminate].
    apply andb_true_iff in Edel. destruct Edel as [En _]. rewrite En.
    (* p_args m starts with PInt v: either untouched or bind-typed (impossible for delete_id with 1 int first) *)
    destruct tty as [t0|].
    + destruct (str_eqb t0 (s2l "wl_registry") && str_eqb (p_name m) (s2l "bind")).
      * unfold bind_typing in EB. destruct (p_args m) as [|a0 [|[ | |s| | | | |] [|a2 [|[ | | | |id0 ty0 n0| | |] [|]]]]]; try discriminate.
        destruct ty0; [destruct (str_eqb s s0)|]; try discriminate; inversion EB; subst; reflexivity.
      * injection EB as ->. reflexivity.
    + injection EB as ->. reflexivity.
  - split; [exact Eg|]. split.
    + f_equal; [exact Hid|]. rewrite <- Hg. symmetry. apply N2Nat.id.
    + (* dead in d1, hence in d2 *)
      destruct (HI _ _ Eg) as [Hne _].
      assert (L1 : exists o1, lookup_obj (db_set d v (map_last (kill t) l)) v (N.of_nat (List.length l - 1)) = Some o1 /\ o_alive o1 = false).
      { unfold lookup_obj. rewrite db_get_set, Z.eqb_refl, Nat2N.id, map_last_nth.
        replace (Nat.eqb (S (List.length l - 1)) (List.length l)) with true
          by (symmetry; apply Nat.eqb_eq; destruct l; [contradiction|cbn; lia]).
        rewrite (last_nth l display_obj Hne). cbn. eexists. split; reflexivity. }
      destruct L1 as (o1 & Lo1 & Ho1).
      assert (HI1 : Inv (db_set d v (map_last (kill t) l))) by (apply kill_last_inv; assumption).
      destruct (resolve_args_inv _ _ _ _ _ _ _ _ _ HI1 ER) as [_ HP].
      destruct (HP _ _ _ Lo1) as (o2 & Lo2 & _ & _ & _ & _ & Hdead).
      exists o2. split; [exact Lo2|]. split; [apply Hdead; exact Ho1|reflexivity].
Qed.

(* a message that is not such a delete_id carries no annotation *)
Theorem destroyed_annotation_only_delete d t m d' rm err :
  resolve_msg P d t m = (d', rm, err) -> is_delete_on_display d m = None -> m_destroyed rm = None.
Proof.
  intros H Hn. unfold resolve_msg in H.
  set (target := resolve_ref d (p_id m) (p_type m)) in *.
  set (tty := ref_type d target) in *.
  destruct (if match tty with Some t0 => str_eqb t0 (s2l "wl_registry") && str_eqb (p_name m) (s2l "bind") | None => false end
            then bind_typing (p_args m) else Ok (p_args m)) as [args|e msg] eqn:EB.
  2:{ injection H as _ <- _. reflexivity. }
  match type of H with
  | (match ?X with _ => _ end) = _ => destruct X as [[d1 destroyed]|e msg] eqn:ED
  end.
  2:{ injection H as _ <- _. reflexivity. }
  destruct (resolve_args P d1 t tty (p_name m) 0 args) as [[d2 rargs] err2] eqn:ER.
  injection H as _ <- _. cbn [m_destroyed].
  destruct (match target with Resolved 1 0%N => str_eqb (p_name m) (s2l "delete_id") && negb match args with [] => true | _ => false end | _ => false end) eqn:Edel.
  2:{ injection ED as _ <-. reflexivity. }
  exfalso. unfold is_delete_on_display in Hn. fold target in Hn.
  destruct target as [i g|]; [|discriminate].
  destruct i as [|[| |]|]; try discriminate. destruct g; [|discriminate].
  apply andb_true_iff in Edel. destruct Edel as [En Hargs]. rewrite En in Hn.
  destruct args as [|[v| | | | | | |] rest]; try discriminate.
  destruct tty as [t0|].
  - destruct (str_eqb t0 (s2l "wl_registry") && str_eqb (p_name m) (s2l "bind")).
    + unfold bind_typing in EB. destruct (p_args m) as [|a0 [|[ | |s| | | | |] [|a2 [|[ | | | |id0 ty0 n0| | |] [|]]]]]; try discriminate.
      destruct ty0; [destruct (str_eqb s s0)|]; try discriminate; inversion EB; subst; discriminate.
    + injection EB as E. rewrite E in Hn. discriminate.
  - injection EB as E. rewrite E in Hn. discriminate.
Qed.


(* ---- why an object stops being alive ------------------------------------------------------------ *)
Definition names_new (id : Z) (args : list parg) : bool :=
  existsb (fun a => match a with PObj i (Some _) true => i =? id | _ => false end) args.

Lemma resolve_arg_death d t tty mn idx a d' ra id g o o' :
  resolve_arg P d t tty mn idx a = Ok (d', ra) ->
  lookup_obj d id g = Some o -> o_alive o = true ->
  lookup_obj d' id g = Some o' -> o_alive o' = false ->
  owned_by_server id = true /\ names_new id [a] = true.
Proof.
  intros H L A L' D. unfold resolve_arg in H.
  destruct (base_name P tty mn idx) as [nm|]; cbn [bind] in H; [|discriminate].
  assert (Same : d' = d -> False) by (intros ->; rewrite L in L'; injection L' as <-; congruence).
  destruct a as [v|x|s|ty|i ty is_new|v|[vs|]|s].
  - destruct (enum_labels P tty mn idx v); cbn [bind] in H; [|discriminate]. injection H as <- _. exfalso; auto.
  - injection H as <- _. exfalso; auto.
  - injection H as <- _. exfalso; auto.
  - destruct ty; [injection H as <- _; exfalso; auto|].
    destruct tty; [|injection H as <- _; exfalso; auto].
    destruct (look_up_interface P s mn idx); cbn [bind] in H; [|discriminate]. injection H as <- _. exfalso; auto.
  - injection H as <- _.
    destruct is_new; [|exfalso; auto]. destruct ty as [ty|]; [|exfalso; auto].
    destruct (create_object d t i ty) as [d2|] eqn:EC; [|exfalso; auto].
    apply create_object_spec in EC. destruct EC as [_ (old & old' & Hold & Hnew & Hrel & Hother)].
    destruct (Z.eq_dec id i) as [->|Hne].
    + unfold names_new. cbn [existsb]. rewrite Z.eqb_refl. cbn.
      split; [|reflexivity].
      destruct Hrel as [->|[Hs _]]; [|exact Hs].
      exfalso. unfold lookup_obj in L, L'. rewrite Hnew in L'.
      destruct Hold as [[Hn _]|Hs]; [rewrite Hn in L; discriminate|]. rewrite Hs in L.
      assert (Hlt : (N.to_nat g < List.length old)%nat) by (apply nth_error_Some; congruence).
      rewrite nth_error_app1 in L' by exact Hlt. rewrite L in L'. injection L' as <-. congruence.
    + exfalso. unfold lookup_obj in L, L'. rewrite (Hother _ Hne) in L'. rewrite L in L'. injection L' as <-. congruence.
  - injection H as <- _. exfalso; auto.
  - destruct (mapM _ vs); cbn [bind] in H; [|discriminate]. injection H as <- _. exfalso; auto.
  - injection H as <- _. exfalso; auto.
  - injection H as <- _. exfalso; auto.
Qed.

Lemma names_new_cons id a rest : names_new id (a :: rest) = names_new id [a] || names_new id rest.
Proof. unfold names_new. cbn [existsb]. rewrite orb_false_r. reflexivity. Qed.

Lemma resolve_args_death args : forall d t tty mn idx d' ras err id g o o',
  Inv d -> resolve_args P d t tty mn idx args = (d', ras, err) ->
  lookup_obj d id g = Some o -> o_alive o = true ->
  lookup_obj d' id g = Some o' -> o_alive o' = false ->
  owned_by_server id = true /\ names_new id args = true.
Proof.
  induction args as [|a rest IH]; intros d t tty mn idx d' ras err id g o o' HI H L A L' D; cbn [resolve_args] in H.
  - injection H as <- _ _. rewrite L in L'. injection L' as <-. congruence.
  - destruct (resolve_arg P d t tty mn idx a) as [[d1 ra]|e msg] eqn:EA.
    + destruct (resolve_args P d1 t tty mn (S idx) rest) as [[d2 ras2] err2] eqn:ER.
      injection H as <- _ _.
      destruct (resolve_arg_inv _ _ _ _ _ _ _ _ HI EA) as [HI1 HP1].
      destruct (HP1 _ _ _ L) as (o1 & L1 & _ & _ & _ & _ & _).
      rewrite names_new_cons.
      destruct (o_alive o1) eqn:A1.
      * destruct (IH _ _ _ _ _ _ _ _ _ _ _ _ HI1 ER L1 A1 L' D) as [Hs Hn]. split; [exact Hs|].
        rewrite Hn. apply orb_true_r.
      * destruct (resolve_arg_death _ _ _ _ _ _ _ _ _ _ _ _ EA L A L1 A1) as [Hs Hn]. split; [exact Hs|].
        rewrite Hn. reflexivity.
    + injection H as <- _ _. rewrite L in L'. injection L' as <-. congruence.
Qed.

(* C03: between two consecutive table states an object stops being alive only because this
   message is the display's delete_id naming its id, or because its server-range id is handed
   out again by a typed new-id argument of this message *)
Theorem death_cause d t m d' rm err id g o o' :
  Inv d -> resolve_msg P d t m = (d', rm, err) ->
  lookup_obj d id g = Some o -> o_alive o = true ->
  lookup_obj d' id g = Some o' -> o_alive o' = false ->
  is_delete_on_display d m = Some id \/
  (owned_by_server id = true /\ exists args, effective_args d m = Ok args /\ names_new id args = true).
Proof.
  intros HI H L A L' D. pose proof H as H0. unfold resolve_msg in H.
  set (target := resolve_ref d (p_id m) (p_type m)) in *.
  set (tty := ref_type d target) in *.
  assert (Eff : effective_args d m =
                (if match tty with Some t0 => str_eqb t0 (s2l "wl_registry") && str_eqb (p_name m) (s2l "bind") | None => false end
                 then bind_typing (p_args m) else Ok (p_args m))).
  { unfold effective_args. fold target. fold tty. destruct tty; [|reflexivity]. reflexivity. }
  destruct (if match tty with Some t0 => str_eqb t0 (s2l "wl_registry") && str_eqb (p_name m) (s2l "bind") | None => false end
            then bind_typing (p_args m) else Ok (p_args m)) as [args|e msg] eqn:EB.
  2:{ injection H as <- _ _. rewrite L in L'. injection L' as <-. congruence. }
  match type of H with
  | (match ?X with _ => _ end) = _ => destruct X as [[d1 destroyed]|e msg] eqn:ED
  end.
  2:{ injection H as <- _ _. rewrite L in L'. injection L' as <-. congruence. }
  destruct (resolve_args P d1 t tty (p_name m) 0 args) as [[d2 rargs] err2] eqn:ER.
  injection H as <- Hrm _.
  assert (Hstep : (Inv d1 /\ preserved d d1) /\
                  (d1 = d \/ exists v l, is_delete_on_display d m = Some v /\ db_get d v = Some l /\
                                        d1 = db_set d v (map_last (kill t) l))).
  { destruct (match target with Resolved 1 0%N => str_eqb (p_name m) (s2l "delete_id") && negb match args with [] => true | _ => false end | _ => false end) eqn:Edel.
    - destruct args as [|[v| | | | | | |] rest]; try discriminate.
      destruct (retrieve_latest d v None) as [ob|] eqn:ERl; [|discriminate].
      destruct (db_get d v) as [l|] eqn:Eg; [|discriminate].
      injection ED as <- <-. split; [split; [apply kill_last_inv; assumption|apply kill_last_preserved; assumption]|].
      right. exists v, l. split; [|split; [exact Eg|reflexivity]].
      assert (Hd : m_destroyed rm = Some (Resolved (o_id ob) (o_gen ob))) by (rewrite <- Hrm; reflexivity).
      destruct (destroyed_annotation_sound _ _ _ _ _ _ _ HI H0 Hd) as (v' & l' & Hdel & Hg' & Hr & _).
      rewrite Hdel. f_equal.
      (* v' = v: both are the id of the retrieved object *)
      assert (Href : resolve_ref d v None = Resolved (o_id ob) (o_gen ob)) by (unfold resolve_ref; rewrite ERl; reflexivity).
      destruct (resolve_ref_latest _ _ _ _ _ HI Href) as (Hid & _).
      injection Hr as Hr _. congruence.
    - injection ED as <- _. split; [split; [exact HI|apply preserved_refl]|]. left. reflexivity. }
  destruct Hstep as [[HI1 HP1] Hd1].
  destruct (HP1 _ _ _ L) as (o1 & L1 & _ & _ & _ & _ & _).
  destruct (o_alive o1) eqn:A1.
  - right. destruct (resolve_args_death _ _ _ _ _ _ _ _ _ _ _ _ _ HI1 ER L1 A1 L' D) as [Hs Hn].
    split; [exact Hs|]. exists args. split; [rewrite Eff; reflexivity|exact Hn].
  - left. destruct Hd1 as [->|(v & l & Hdel & Hg & ->)].
    + rewrite L in L1. injection L1 as <-. congruence.
    + rewrite Hdel. f_equal. destruct (Z.eq_dec v id) as [E|Hne]; [exact E|].
      exfalso. unfold lookup_obj in L, L1. rewrite db_get_set in L1.
      destruct (v =? id) eqn:Ev; [lia|]. rewrite L in L1. injection L1 as <-. congruence.
Qed.

(* C02: a message without a typed new-id argument creates nothing *)
Theorem only_new_id_creates d t m d' rm err args :
  resolve_msg P d t m = (d', rm, err) -> effective_args d m = Ok args ->
  forallb (fun a => negb (is_new_typed a)) args = true -> same_shape d d'.
Proof.
  intros H E Hn. unfold resolve_msg in H. unfold effective_args in E.
  set (target := resolve_ref d (p_id m) (p_type m)) in *.
  set (tty := ref_type d target) in *.
  assert (EB : (if match tty with Some t0 => str_eqb t0 (s2l "wl_registry") && str_eqb (p_name m) (s2l "bind") | None => false end
                then bind_typing (p_args m) else Ok (p_args m)) = Ok args).
  { destruct tty; exact E. }
  rewrite EB in H.
  match type of H with
  | (match ?X with _ => _ end) = _ => destruct X as [[d1 destroyed]|e msg] eqn:ED
  end.
  2:{ injection H as <- _ _. intros id. reflexivity. }
  destruct (resolve_args P d1 t tty (p_name m) 0 args) as [[d2 rargs] err2] eqn:ER.
  injection H as <- _ _.
  rewrite (resolve_args_no_new _ _ _ _ _ _ _ _ _ Hn ER).
  destruct (match target with Resolved 1 0%N => str_eqb (p_name m) (s2l "delete_id") && negb match args with [] => true | _ => false end | _ => false end).
  - destruct args as [|[v| | | | | | |] rest]; try discriminate.
    destruct (retrieve_latest d v None); [|discriminate].
    destruct (db_get d v) as [l|] eqn:Eg; [|discriminate].
    injection ED as <- _. intros id. rewrite db_get_set. destruct (v =? id) eqn:Ev; [|reflexivity].
    assert (id = v) by lia. subst. rewrite Eg. cbn. rewrite map_last_length. reflexivity.
  - injection ED as <- _. intros id. reflexivity.
Qed.

(* ---- histories on one connection ------------------------------------------------------------------ *)
Fixpoint conn_run (d : db) (h : list (Z * pmsg)) : db * list rmsg :=
  match h with
  | [] => (d, [])
  | (t, m) :: h' =>
      let '(d1, rm, _) := resolve_msg P d t m in
      let '(d2, rms) := conn_run d1 h' in
      (d2, rm :: rms)
  end.

Theorem conn_run_inv h : forall d, Inv d -> Inv (fst (conn_run d h)) /\ preserved d (fst (conn_run d h)).
Proof.
  induction h as [|[t m] h IH]; intros d HI; cbn [conn_run].
  - split; [exact HI|apply preserved_refl].
  - destruct (resolve_msg P d t m) as [[d1 rm] err] eqn:ER.
    destruct (resolve_msg_inv _ _ _ _ _ _ HI ER) as [HI1 HP1].
    destruct (IH d1 HI1) as [HI2 HP2].
    destruct (conn_run d1 h) as [d2 rms]. cbn [fst] in *.
    split; [exact HI2|eapply preserved_trans; eassumption].
Qed.

(* every table reachable from a fresh connection satisfies the invariant *)
Corollary reachable_inv h : Inv (fst (conn_run db_init h)).
Proof. apply conn_run_inv. apply Inv_init. Qed.

(* at most one object per id is alive, at any time *)
Corollary at_most_one_alive h id g1 g2 o1 o2 :
  lookup_obj (fst (conn_run db_init h)) id g1 = Some o1 ->
  lookup_obj (fst (conn_run db_init h)) id g2 = Some o2 ->
  o_alive o1 = true -> o_alive o2 = true -> g1 = g2.
Proof.
  pose proof (reachable_inv h) as HI. unfold lookup_obj.
  destruct (db_get (fst (conn_run db_init h)) id) as [l|] eqn:Eg; [|discriminate].
  destruct (HI _ _ Eg) as [_ Hw]. intros L1 L2 A1 A2.
  destruct (Hw _ _ L1) as (_ & _ & C1). destruct (Hw _ _ L2) as (_ & _ & C2).
  assert (X1 : (N.to_nat g1 < List.length l)%nat) by (apply nth_error_Some; congruence).
  assert (X2 : (N.to_nat g2 < List.length l)%nat) by (apply nth_error_Some; congruence).
  assert (~ (S (N.to_nat g1) < List.length l)%nat) by (intros X; apply C1 in X; congruence).
  assert (~ (S (N.to_nat g2) < List.length l)%nat) by (intros X; apply C2 in X; congruence).
  lia.
Qed.

(* never resurrected, never retyped, never relabelled: across any later history *)
Corollary never_resurrected h1 h2 id g o :
  lookup_obj (fst (conn_run db_init h1)) id g = Some o ->
  exists o', lookup_obj (fst (conn_run (fst (conn_run db_init h1)) h2)) id g = Some o' /\
             o_id o' = o_id o /\ o_gen o' = o_gen o /\ o_type o' = o_type o /\ o_create o' = o_create o /\
             (o_alive o = false -> o_alive o' = false).
Proof.
  intros L. destruct (conn_run_inv h2 _ (reachable_inv h1)) as [_ HP]. apply HP. exact L.
Qed.

End WithP.
