(* C17 lifted to the whole session: summary of the final statements (proofs in SessionColorA..K). *)
From WD Require Import Base Wire Protocol Conn Color Matcher MatcherParse Show Session Shipped.
From WD Require Import ColorProofs ShowProofs ConnMgrProofs.
From WD Require Import SessionColorA SessionColorB SessionColorJ SessionColorC SessionColorD SessionColorE
                       SessionColorG SessionColorH SessionColorI SessionColorK.

(* 1. one step: every event constructor (log mode, gdb mode, sink interface), any protocol data *)
Theorem C17_step_color_sim : forall P T1 T0 ev, ColorRel T1 T0 -> names_ok (t_sess T1) ->
  ColorRel (fst (step P T1 ev)) (fst (step P T0 ev)) /\ Forall2 LineStrips (snd (step P T1 ev)) (snd (step P T0 ev)).
Proof. exact step_color_sim. Qed.

(* 2. event lists *)
Theorem C17_run_color_sim : forall P es T1 T0, ColorRel T1 T0 -> names_ok (t_sess T1) ->
  ColorRel (fst (run P T1 es)) (fst (run P T0 es)) /\ Forall2 (Forall2 LineStrips) (snd (run P T1 es)) (snd (run P T0 es)).
Proof. exact run_color_sim. Qed.

(* 3. the tool from start-up: no side condition whatsoever *)
Theorem C17_session_color_invariant : forall P display stop un ig es,
  Forall2 (Forall2 LineStrips)
    (snd (run P (mkTop None (init_sess display stop true un ig)) es))
    (snd (run P (mkTop None (init_sess display stop false un ig)) es)).
Proof. exact session_color_invariant. Qed.

(* 4. colour off: no ESC in the output unless the input brings it *)
Theorem C17_off_emits_no_escape : forall P, pdb_clean P -> forall es T, TOff T -> Forall ev_off_ok es ->
  TOff (fst (run P T es)) /\ Forall (Forall oline_clean) (snd (run P T es)).
Proof. exact off_emits_no_escape. Qed.

(* 5. both together, with the shipped protocol data: coloured line stripped = plain line, exactly *)
Theorem C17_session_color_exact_shipped : forall display stop un ig es,
  mclean display -> mclean stop -> Forall ev_off_ok es ->
  Forall2 (Forall2 LineExact)
    (snd (run shipped_db (mkTop None (init_sess display stop true un ig)) es))
    (snd (run shipped_db (mkTop None (init_sess display stop false un ig)) es)).
Proof. intros. apply session_color_exact; [exact shipped_clean|assumption..]. Qed.

(* start-up matchers given on the command line are parsed from text *)
Theorem C17_parsed_matchers_clean : forall t m, esc_free t -> parse t = Ok m -> mclean m /\ mclean (simplify m).
Proof. intros t m H E. pose proof (parse_clean t m H E) as G. split; [exact G|apply simplify_clean; exact G]. Qed.

Print Assumptions C17_step_color_sim.
Print Assumptions C17_run_color_sim.
Print Assumptions C17_session_color_invariant.
Print Assumptions C17_off_emits_no_escape.
Print Assumptions C17_session_color_exact_shipped.
Print Assumptions C17_parsed_matchers_clean.
