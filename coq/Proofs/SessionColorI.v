(* C17 lifted to the session, part I: with colour off the tool emits no ESC of its own.
   Second half: log-mode pipeline, commands, gdb plugin, step and run. *)
From WD Require Import Base Wire Protocol Conn Color LetterId Matcher MatcherParse Show Session.
From WD Require Import LetterIdProofs ColorProofs ShowProofs MatcherProofs SessionProofs ConnMgrProofs.
From WD Require Import SessionColorA SessionColorB SessionColorC SessionColorD SessionColorE SessionColorG SessionColorH.
From Coq Require Import Lia.
Open Scope Z_scope.

Ltac ef := repeat (first
  [ assumption | reflexivity
  | rewrite color_off
  | apply esc_free_app; split
  | apply z_to_dec_esc_free
  | apply esc_free_cons; split; [discriminate|] ]).
Ltac F1 := repeat first [apply Forall_nil | apply Forall_cons | apply Forall_app; split].

Lemma OffInv_color s : OffInv s -> s_color s = false.
Proof. intros H. apply H. Qed.

Lemma OffInv_frame' s s' : s_color s' = s_color s -> s_conns s' = s_conns s -> k_all (s_ctrl s') = k_all (s_ctrl s) ->
  k_display (s_ctrl s') = k_display (s_ctrl s) -> k_stop (s_ctrl s') = k_stop (s_ctrl s) -> OffInv s -> OffInv s'.
Proof.
  intros E1 E2 E3 E4 E5 (H1 & H2 & H3 & H4 & H5). unfold OffInv, Inv, titles_ok in *. rewrite E1, E2, E3, E4, E5.
  repeat split; try assumption; apply H2.
Qed.

Lemma unprocessed_line_off s t : s_color s = false -> esc_free t -> Forall oline_clean (unprocessed_line s t).
Proof.
  intros Hc Ht. unfold unprocessed_line. destruct (s_unprocessed s); F1. rewrite Hc. cbn [oline_clean]. apply line_clean_txt. ef.
Qed.

Section WithP.
Variable P : pdb.
Hypothesis HP : pdb_clean P.

(* ---- Parser ---------------------------------------------------------------------------------------------------------- *)
Lemma log_open_off s id m : OffInv s -> OffInv (fst (log_open s id m)) /\ Forall oline_clean (snd (log_open s id m)).
Proof.
  intros HO. unfold log_open. destruct (existsb (str_eqb id) (s_known s)); [split; [exact HO|constructor]|].
  destruct (open_conn_off s id (is_get_registry m) HO) as [G1 G2]. destruct (open_conn s id (is_get_registry m)) as [sa oa].
  cbn [fst snd] in *. split; [|exact G2]. revert G1. apply OffInv_frame; reflexivity.
Qed.

Lemma log_message_off s id rel m : OffInv s -> pmsg_off_ok m ->
  OffInv (fst (log_message P s id rel m)) /\ Forall oline_clean (snd (log_message P s id rel m)).
Proof.
  intros HO Hm. rewrite log_message_eq. destruct (s_parse s); cbn [negb]; [|split; [exact HO|constructor]].
  assert (HO' : OffInv (with_time s rel)) by (revert HO; apply OffInv_frame; reflexivity).
  destruct (log_open_off _ id m HO') as [G1 G2]. destruct (log_open (with_time s rel) id m) as [s2 o1]. cbn [fst snd] in *.
  destruct (conn_message_off P HP s2 id rel m G1 Hm) as (K1 & K2 & K3).
  destruct (conn_message P s2 id rel m) as [[[s3 o2] err] st]. cbn [fst snd] in *.
  destruct err as [[e msg]|]; [|cbn [fst snd]; split; [exact K1|F1; assumption]].
  assert (Hstop : OffInv (stop_parsing s3)) by (revert K1; apply OffInv_frame; reflexivity).
  assert (Herr : Forall oline_clean (o1 ++ o2 ++ [OOut [AnyText]; error_line (s_color s3) [AnyText]])).
  { F1; try assumption; [apply line_clean_any|]. rewrite (OffInv_color _ K1). apply error_line_clean, line_clean_any. }
  destruct e; cbn [fst snd]; try (split; [exact Hstop|exact Herr]).
  split; [exact K1|]. F1; try assumption. apply unprocessed_line_off; [apply (OffInv_color _ K1)|apply (K3 _ _ eq_refl)].
Qed.

Lemma log_eof_fold_off ids : forall s o, OffInv s -> Forall oline_clean o ->
  let r := fold_left (fun acc id => let '(s', o') := close_conn (fst acc) id in (s', snd acc ++ o')) ids (s, o) in
  OffInv (fst r) /\ Forall oline_clean (snd r).
Proof.
  induction ids as [|id ids IH]; intros s o HO Ho; cbn [fold_left fst snd]; [auto|].
  destruct (close_conn_off s id HO) as [G1 G2]. destruct (close_conn s id) as [s' c]. cbn [fst snd] in *.
  apply IH; [exact G1|F1; assumption].
Qed.

Lemma log_eof_off s : OffInv s -> OffInv (fst (log_eof s)) /\ Forall oline_clean (snd (log_eof s)).
Proof. intros HO. unfold log_eof. apply log_eof_fold_off; [exact HO|constructor]. Qed.

(* ---- gdb plugin ------------------------------------------------------------------------------------------------------- *)
Lemma gdb_open_off s id th m : OffInv s -> OffInv (fst (gdb_open s id th m)) /\ Forall oline_clean (snd (gdb_open s id th m)).
Proof.
  intros HO. unfold gdb_open. destruct (gdb_get (s_gdb s) id); [split; [exact HO|constructor]|].
  destruct (open_conn_off s id (is_get_registry m) HO) as [G1 G2]. destruct (open_conn s id (is_get_registry m)) as [sa oa].
  cbn [fst snd] in *. split; [|exact G2]. revert G1. apply OffInv_frame; reflexivity.
Qed.

Lemma gdb_warn_off s id th : s_color s = false -> Forall oline_clean (gdb_warn s id th).
Proof.
  intros Hc. unfold gdb_warn. rewrite Hc. destruct (gdb_get (s_gdb s) id) as [t|]; [|constructor].
  destruct (find_open s id) as [i|]; [|constructor]. destruct (nth_error (s_conns s) i) as [c|]; [|constructor].
  assert (G : Forall oline_clean (if t =? th then [] else [warn_line false [AnyText]])).
  { destruct (t =? th); F1. apply warn_line_clean, line_clean_any. }
  destruct (c_server c) as [[|]|]; [exact G|constructor|exact G].
Qed.

Lemma gdb_message_off s id th rel m : OffInv s -> pmsg_off_ok m ->
  OffInv (fst (gdb_message P s id th rel m)) /\ Forall oline_clean (snd (gdb_message P s id th rel m)).
Proof.
  intros HO Hm. rewrite gdb_message_eq.
  assert (HO' : OffInv (set_pause s false (s_quit s))) by (revert HO; apply OffInv_frame; reflexivity).
  destruct (gdb_open_off _ id th m HO') as [G1 G2]. destruct (gdb_open (set_pause s false (s_quit s)) id th m) as [s2 o1]. cbn [fst snd] in *.
  pose proof (gdb_warn_off s2 id th (OffInv_color _ G1)) as W.
  destruct (conn_message_off P HP s2 id rel m G1 Hm) as (K1 & K2 & K3).
  destruct (conn_message P s2 id rel m) as [[[s3 o2] err] st]. cbn [fst snd] in *.
  destruct err as [[e msg]|]; cbn [fst snd]; (split; [exact K1|F1; try assumption; exact I]).
Qed.

Lemma gdb_destroy_off s id : OffInv s -> OffInv (fst (gdb_destroy s id)) /\ Forall oline_clean (snd (gdb_destroy s id)).
Proof.
  intros HO. unfold gdb_destroy.
  assert (HO' : OffInv (set_gdb s (gdb_del (s_gdb s) id))) by (revert HO; apply OffInv_frame; reflexivity).
  destruct (close_conn_off _ id HO') as [G1 G2]. destruct (close_conn (set_gdb s _) id) as [s1 o]. cbn [fst snd] in *.
  split; [exact G1|F1; [exact G2|exact I]].
Qed.
End WithP.

(* ---- commands --------------------------------------------------------------------------------------------------------- *)
Lemma command_names_clean : Forall esc_free command_names.
Proof. repeat constructor. Qed.

Lemma get_command_off c : esc_free c -> Forall oline_clean (snd (get_command' false c)).
Proof.
  intros Hc. unfold get_command'.
  pose proof (Forall_filter esc_free (starts_with c) command_names command_names_clean) as Hf.
  destruct (filter (starts_with c) command_names) as [|x [|y l]]; cbn [snd]; F1.
  - apply error_line_clean, line_clean_txt. ef.
  - apply error_line_clean, line_clean_txt.
    assert (Hj : esc_free (comma_join (x :: y :: l))) by (apply esc_free_intercalate; [reflexivity|exact Hf]). ef.
Qed.

Lemma parse_and_join_off s text old m errs : s_color s = false -> esc_free text ->
  match old with Some o => mclean o | None => True end ->
  parse_and_join s text old = Ok (m, errs) -> mclean m /\ Forall oline_clean errs.
Proof.
  intros Hc Ht Ho. unfold parse_and_join. rewrite Hc. destruct (parse text) as [p|e msg] eqn:Ep.
  - intros E. injection E as <- <-. split; [|constructor]. pose proof (parse_clean _ _ Ht Ep) as Hp.
    destruct old as [o|]; apply simplify_clean; [apply join_clean; assumption|exact Hp].
  - destruct e; try discriminate. intros E. injection E as <- <-. split; [destruct old; [exact Ho|reflexivity]|].
    F1. apply error_line_clean. apply line_clean_cons; [ef|apply line_clean_any].
Qed.

Lemma show_fold_off cs matching :
  (forall p c, In p matching -> nth_error cs (fst p) = Some c -> esc_free (c_name c) /\ msg_clean (c_db c) (snd p)) ->
  forall a, Forall oline_clean (fst a) -> Forall oline_clean (fst (fold_left (show_fold false cs) matching a)).
Proof.
  induction matching as [|p l IH]; intros Hok a Hf; cbn [fold_left]; [exact Hf|].
  apply IH; [intros q c Hq; apply Hok; right; exact Hq|]. unfold show_fold.
  destruct (nth_error cs (fst p)) as [c|] eqn:E; [|exact Hf].
  destruct (Hok p c (or_introl eq_refl) E) as [Hn Hm].
  pose proof (show_message_clean (fst p) (c_db c) (c_name c) (snd a) (snd p) Hn Hm) as G.
  destruct (show_message false _ _ _ _ _) as [o l']. cbn [fst] in *. F1; assumption.
Qed.

Lemma count_clean good n : esc_free (count_color false good n).
Proof. unfold count_color. ef. Qed.

Lemma show_messages_off s m cap : OffInv s -> mclean m ->
  OffInv (fst (show_messages s m cap)) /\ Forall oline_clean (snd (show_messages s m cap)).
Proof.
  intros HO Hm. pose proof HO as (Hc & HI & Ht & Hd & Hs). rewrite show_messages_eq. cbv zeta. rewrite Hc.
  pose proof (scan_matching_Forall (fun p => rmsg_ok (snd p)) s m (cap_of cap) (rev (conn_messages_of s (k_current (s_ctrl s)))) [] O) as Hok.
  destruct (scan_matching s m (cap_of cap) _ [] O) as [[matching didnt] ns]. cbn [fst] in Hok.
  assert (Hok' : Forall (fun p => rmsg_ok (snd p)) matching).
  { apply Hok; [|constructor]. apply Forall_rev. apply conn_messages_ok. exact HI. }
  clear Hok. pose proof (mshow_clean m Hm) as Hms.
  assert (Hhead : oline_clean (header_line false m)) by (unfold header_line; cbn [oline_clean]; apply line_clean_txt; ef).
  destruct matching as [|p0 matching].
  - cbn [fst snd]. split; [exact HO|]. F1; [exact Hhead|]. unfold none_line. destruct (s_conns s); cbn [oline_clean]; apply line_clean_txt; ef.
  - assert (Hcc : forall p c, In p (p0 :: matching) -> nth_error (s_conns s) (fst p) = Some c -> esc_free (c_name c) /\ msg_clean (c_db c) (snd p)).
    { intros p c Hp E. destruct (Inv_conn s _ c HI E) as ([Hn _] & Hdb & _). split; [exact Hn|].
      apply msg_clean_of_ok; [exact Hdb|]. rewrite Forall_forall in Hok'. apply (Hok' p Hp). }
    pose proof (show_fold_off (s_conns s) (p0 :: matching) Hcc ([], None) (Forall_nil _)) as G.
    destruct (fold_left (show_fold false (s_conns s)) (p0 :: matching) ([], None)) as [outs l1]. cbn [fst snd] in *.
    split; [revert HO; apply OffInv_frame'; reflexivity|].
    F1; [exact Hhead|exact G|]. unfold counts_line. cbn [oline_clean]. apply line_clean_txt.
    pose proof (count_clean true (List.length (p0 :: matching))). pose proof (count_clean false didnt).
    destruct (Nat.eqb ns 0); ef.
Qed.

Lemma show_conn_clean c : esc_free (c_name c) -> oesc (c_title c) -> esc_free (show_conn false c).
Proof.
  intros Hn Ht. unfold show_conn.
  assert (H1 : esc_free (match c_server c with Some true => s2l "server" | Some false => s2l "client" | None => color false (Some (s2l "1;31")) (s2l "unknown type") end))
    by (destruct (c_server c) as [[|]|]; reflexivity).
  assert (H2 : esc_free (match c_title c with Some ((_ :: _) as t) => (match c_server c with Some true => s2l " to" | _ => [] end) ++ [32%N] ++ t | _ => [] end)).
  { destruct (c_title c) as [[|x t]|]; try reflexivity. cbn [oesc] in Ht. destruct (c_server c) as [[|]|]; ef. }
  assert (H3 : esc_free (if c_open c then [] else s2l ", " ++ color false (Some (s2l "1;31")) (s2l "closed"))) by (destruct (c_open c); reflexivity).
  ef.
Qed.

Lemma conn_lines_off cur cs : Forall conn_clean cs -> Forall (fun c => oesc (c_title c)) cs -> forall i, Forall oline_clean (conn_lines false cur i cs).
Proof.
  intros H. induction H as [|c cs Hc _ IH]; intros Ht i; cbn [conn_lines]; [constructor|]. inversion Ht as [|? ? Ht1 Ht2]; subst.
  constructor; [|apply IH; exact Ht2]. unfold conn_line. cbn [oline_clean]. apply line_clean_txt.
  destruct Hc as ([Hn _] & _). pose proof (show_conn_clean c Hn Ht1) as Hsc.
  assert (H1 : esc_free (if match cur with Some j => Nat.eqb i j | None => false end then s2l " => " else s2l "    ")) by (destruct (match cur with Some j => Nat.eqb i j | None => false end); reflexivity).
  assert (H2 : esc_free (if c_open c then color false good_color (s2l "open") else color false bad_color (s2l "closed"))) by (destruct (c_open c); reflexivity).
  ef.
Qed.

Lemma list_connections_off s : OffInv s -> Forall oline_clean (list_connections s).
Proof.
  intros (Hc & HI & Ht & _). rewrite list_connections_eq, Hc. apply conn_lines_off; [apply HI|exact Ht].
Qed.

Lemma cmd_help_off s arg : OffInv s -> esc_free arg -> OffInv (fst (cmd_help s arg)) /\ Forall oline_clean (snd (cmd_help s arg)).
Proof.
  intros HO Ha. unfold cmd_help. destruct arg as [|x arg]; [split; [exact HO|F1; exact I]|].
  destruct (str_eqb _ (s2l "matcher")); [split; [exact HO|F1; exact I]|]. rewrite (OffInv_color _ HO).
  assert (Hc : esc_free (if starts_with (s2l "wl") (x :: arg) then strip (skipn 2 (x :: arg)) else x :: arg)).
  { destruct (starts_with _ _); [apply esc_free_strip, esc_free_skipn; exact Ha|exact Ha]. }
  pose proof (get_command_off _ Hc) as G. destruct (get_command' false _) as [r e]. cbn [fst snd] in *.
  split; [exact HO|F1; [exact G|exact I]].
Qed.

Lemma split_char_acc_clean c s : forall cur, esc_free s -> esc_free cur -> Forall esc_free (split_char_acc c s cur).
Proof.
  induction s as [|d s IH]; intros cur Hs Hc; cbn [split_char_acc]; [constructor; [apply esc_free_rev; exact Hc|constructor]|].
  apply esc_free_cons in Hs. destruct Hs as [Hd Hs]. destruct (N.eqb c d).
  - constructor; [apply esc_free_rev; exact Hc|apply IH; [exact Hs|reflexivity]].
  - apply IH; [exact Hs|apply esc_free_cons; split; assumption].
Qed.

Lemma cmd_list_off s arg : OffInv s -> esc_free arg -> OffInv (fst (cmd_list s arg)) /\ Forall oline_clean (snd (cmd_list s arg)).
Proof.
  intros HO Ha. pose proof HO as (Hc & HI & Ht & Hd & Hs). unfold cmd_list. rewrite Hc.
  assert (Hparts : Forall esc_free (split_tilde arg)) by (apply split_char_acc_clean; [exact Ha|reflexivity]).
  match goal with |- context [match ?c with Ok _ => _ | Raise _ _ => _ end] => destruct c as [cap'|e msg] eqn:Ecap end.
  2:{ destruct e; cbn [fst snd]; (split; [exact HO|F1; try exact I]). apply error_line_clean, line_clean_txt.
      assert (Hm : esc_free msg).
      { destruct (split_tilde arg) as [|p0 [|p1 [|p2 l]]]; try discriminate. inversion Hparts as [|? ? _ H2]; subst. inversion H2; subst.
        destruct (py_int p1) as [z|e' m']; [discriminate|]. destruct e'; try discriminate; injection Ecap as <-; assumption. }
      ef. }
  match goal with |- context [parse_and_join s ?A None] =>
    assert (Ha0 : esc_free A) by (destruct Hparts; [reflexivity|assumption]); revert Ha0; destruct A as [|a0 a]; intros Ha0 end.
  - apply show_messages_off; assumption.
  - destruct (parse_and_join s (a0 :: a) None) as [[m errs]|x y] eqn:Ep; [|cbn [fst snd]; split; [exact HO|F1; exact I]].
    destruct (parse_and_join_off s (a0 :: a) None m errs Hc Ha0 I Ep) as [Hm He].
    destruct (show_messages_off s m cap' HO Hm) as [K1 K2]. destruct (show_messages s m cap') as [s1 o]. cbn [fst snd] in *.
    split; [exact K1|F1; assumption].
Qed.

Lemma OffInv_set_display s m : OffInv s -> mclean m ->
  OffInv (set_ctrl s (mkCtrl m (k_stop (s_ctrl s)) (k_current (s_ctrl s)) (k_all (s_ctrl s)) (k_last_shown (s_ctrl s)))).
Proof. intros (Hc & HI & Ht & Hd & Hs) Hm. repeat split; try assumption; apply HI. Qed.
Lemma OffInv_set_stop s m : OffInv s -> mclean m ->
  OffInv (set_ctrl s (mkCtrl (k_display (s_ctrl s)) m (k_current (s_ctrl s)) (k_all (s_ctrl s)) (k_last_shown (s_ctrl s)))).
Proof. intros (Hc & HI & Ht & Hd & Hs) Hm. repeat split; try assumption; apply HI. Qed.
Lemma OffInv_set_current s cur : OffInv s ->
  OffInv (set_ctrl s (mkCtrl (k_display (s_ctrl s)) (k_stop (s_ctrl s)) cur (k_all (s_ctrl s)) (k_last_shown (s_ctrl s)))).
Proof. intros (Hc & HI & Ht & Hd & Hs). repeat split; try assumption; apply HI. Qed.

Lemma matcher_line_off (pre : list N) m : esc_free pre -> mclean m -> oline_clean (OOut (txt (pre ++ mshow false m))).
Proof. intros Hp Hm. cbn [oline_clean]. apply line_clean_txt. pose proof (mshow_clean m Hm). ef. Qed.

Lemma cmd_filter_off s arg : OffInv s -> esc_free arg -> OffInv (fst (cmd_filter s arg)) /\ Forall oline_clean (snd (cmd_filter s arg)).
Proof.
  intros HO Ha. pose proof HO as (Hc & HI & Ht & Hd & Hs). unfold cmd_filter. rewrite Hc.
  destruct arg as [|x arg]; [cbn [fst snd]; split; [exact HO|F1; apply matcher_line_off; [reflexivity|exact Hd]]|].
  destruct (parse_and_join s (x :: arg) (Some (k_display (s_ctrl s)))) as [[m errs]|e y] eqn:Ep; [|cbn [fst snd]; split; [exact HO|F1; exact I]].
  destruct (parse_and_join_off s (x :: arg) (Some (k_display (s_ctrl s))) m errs Hc Ha Hd Ep) as [Hm He]. cbn [fst snd].
  split; [apply OffInv_set_display; assumption|F1; [exact He|apply matcher_line_off; [reflexivity|exact Hm]]].
Qed.

Lemma cmd_break_off s arg : OffInv s -> esc_free arg -> OffInv (fst (cmd_break s arg)) /\ Forall oline_clean (snd (cmd_break s arg)).
Proof.
  intros HO Ha. pose proof HO as (Hc & HI & Ht & Hd & Hs). unfold cmd_break. rewrite Hc.
  destruct arg as [|x arg]; [cbn [fst snd]; split; [exact HO|F1; apply matcher_line_off; [reflexivity|exact Hs]]|].
  destruct (parse_and_join s (x :: arg) (Some (k_stop (s_ctrl s)))) as [[m errs]|e y] eqn:Ep; [|cbn [fst snd]; split; [exact HO|F1; exact I]].
  destruct (parse_and_join_off s (x :: arg) (Some (k_stop (s_ctrl s))) m errs Hc Ha Hs Ep) as [Hm He]. cbn [fst snd].
  split; [apply OffInv_set_stop; assumption|F1; [exact He|apply matcher_line_off; [reflexivity|exact Hm]]].
Qed.

Lemma cmd_matcher_off s arg : OffInv s -> esc_free arg -> OffInv (fst (cmd_matcher s arg)) /\ Forall oline_clean (snd (cmd_matcher s arg)).
Proof.
  intros HO Ha. unfold cmd_matcher. rewrite (OffInv_color _ HO).
  destruct arg as [|x arg]; [cbn [fst snd]; split; [exact HO|F1; cbn [oline_clean]; apply line_clean_txt; reflexivity]|].
  assert (Hfail : oline_clean (error_line false [Txt (s2l "Failed to parse """ ++ (x :: arg) ++ [34; 58; 10; 32; 32; 32; 32]%N); AnyText])).
  { apply error_line_clean. apply line_clean_cons; [ef|apply line_clean_any]. }
  destruct (parse (x :: arg)) as [p|e msg] eqn:Ep.
  2:{ destruct e; cbn [fst snd]; (split; [exact HO|F1; try exact I]). exact Hfail. }
  pose proof (parse_clean _ _ Ha Ep) as Hp. pose proof (simplify_clean p Hp) as Hsp.
  destruct (parse (mshow false p)) as [p2|e msg] eqn:Ep2.
  - pose proof (parse_clean _ _ (mshow_clean p Hp) Ep2) as Hp2. cbn [fst snd]. split; [exact HO|].
    F1; apply matcher_line_off; try reflexivity; try assumption. apply simplify_clean; exact Hp2.
  - destruct e; cbn [fst snd]; (split; [exact HO|F1; try exact I; try (apply matcher_line_off; [reflexivity|assumption])]). exact Hfail.
Qed.

Lemma cmd_connection_off s arg : OffInv s -> esc_free arg ->
  OffInv (fst (cmd_connection s arg)) /\ Forall oline_clean (snd (cmd_connection s arg)).
Proof.
  intros HO Ha. pose proof HO as (Hc & HI & Ht & Hd & Hs). pose proof (list_connections_off s HO) as HL.
  unfold cmd_connection. rewrite Hc.
  destruct arg as [|x arg]; [cbn [fst snd]; split; [exact HO|exact HL]|].
  destruct (str_eqb (x :: arg) (s2l "all")); [cbn [fst snd]; split; [apply OffInv_set_current; exact HO|F1; cbn [oline_clean]; apply line_clean_txt; reflexivity]|].
  destruct (negb (all_ascii (x :: arg))); [cbn [fst snd]; split; [exact HO|F1; exact I]|].
  match goal with |- context [match ?f with Some _ => _ | None => _ end] => destruct f as [i|] end.
  - destruct (nth_error (s_conns s) i) as [c|] eqn:E; [|cbn [fst snd]; split; [exact HO|constructor]].
    cbn [fst snd]. split; [apply OffInv_set_current; exact HO|]. F1. cbn [oline_clean]. apply line_clean_txt.
    destruct (Inv_conn s i c HI E) as ([Hn _] & _). ef.
  - cbn [fst snd]. split; [exact HO|]. F1; [|exact HL]. apply error_line_clean, line_clean_txt. ef.
Qed.

Lemma run_command_off s name arg : OffInv s -> esc_free arg ->
  OffInv (fst (run_command s name arg)) /\ Forall oline_clean (snd (run_command s name arg)).
Proof.
  intros HO Ha. unfold run_command.
  destruct (str_eqb name (s2l "help")); [apply cmd_help_off; assumption|].
  destruct (str_eqb name (s2l "list")); [apply cmd_list_off; assumption|].
  destruct (str_eqb name (s2l "filter")); [apply cmd_filter_off; assumption|].
  destruct (str_eqb name (s2l "breakpoint")); [apply cmd_break_off; assumption|].
  destruct (str_eqb name (s2l "matcher")); [apply cmd_matcher_off; assumption|].
  destruct (str_eqb name (s2l "connection")); [apply cmd_connection_off; assumption|].
  destruct (str_eqb name (s2l "resume")); [cbn [fst snd]; split; [revert HO; apply OffInv_frame; reflexivity|constructor]|].
  destruct (str_eqb name (s2l "quit")); [cbn [fst snd]; split; [revert HO; apply OffInv_frame; reflexivity|constructor]|].
  split; [exact HO|constructor].
Qed.

Lemma split_first_space_clean l : esc_free l ->
  esc_free (fst (split_first_space l)) /\ match snd (split_first_space l) with Some r => esc_free r | None => True end.
Proof.
  intros H. unfold split_first_space.
  pose proof (esc_free_take_while (fun c => negb (is_space c)) l H) as H1.
  pose proof (esc_free_drop_while (fun c => negb (is_space c)) l H) as H2.
  destruct (drop_while _ l) as [|x r]; cbn [fst snd]; split; try assumption; try exact I.
  apply esc_free_cons in H2. apply H2.
Qed.

Lemma resolve_cmd_off fuel : forall input, esc_free input ->
  Forall oline_clean (fst (resolve_cmd fuel false input)) /\
  (forall name arg, snd (resolve_cmd fuel false input) = Some (name, arg) -> esc_free arg).
Proof.
  induction fuel as [|f IH]; intros input Hi; cbn [resolve_cmd]; [split; [F1; exact I|discriminate]|].
  destruct (split_first_space_clean (strip input) (esc_free_strip _ Hi)) as [H0 H1].
  destruct (split_first_space (strip input)) as [a0 a1]. cbn [fst snd] in *.
  assert (Hfirst : esc_free (strip (no_color a0))) by (rewrite (no_color_esc_free' a0 H0); apply esc_free_strip; exact H0).
  assert (Hsecond : esc_free (match a1 with Some r => strip (no_color r) | None => [] end)).
  { destruct a1 as [r|]; [|reflexivity]. rewrite (no_color_esc_free' r H1). apply esc_free_strip; exact H1. }
  set (first := strip (no_color a0)) in *. set (second := match a1 with Some r => strip (no_color r) | None => [] end) in *.
  assert (Hmain : forall first1 (pre : list oline), esc_free first1 -> Forall oline_clean pre ->
    Forall oline_clean (fst (if str_eqb first1 [119%N] || str_eqb first1 (s2l "wl")
         then let '(o, r) := resolve_cmd f false second in (pre ++ o, r)
         else let '(cmd, errs) := get_command' false (if starts_with (s2l "wl") first1 then skipn 2 first1 else first1) in
              match cmd with Some name => (pre ++ errs, Some (name, second)) | None => (pre ++ errs, None) end)) /\
    (forall name arg, snd (if str_eqb first1 [119%N] || str_eqb first1 (s2l "wl")
         then let '(o, r) := resolve_cmd f false second in (pre ++ o, r)
         else let '(cmd, errs) := get_command' false (if starts_with (s2l "wl") first1 then skipn 2 first1 else first1) in
              match cmd with Some name => (pre ++ errs, Some (name, second)) | None => (pre ++ errs, None) end) = Some (name, arg) -> esc_free arg)).
  { intros first1 pre Hf1 Hpre. destruct (_ || _).
    - destruct (IH second Hsecond) as [G1 G2]. destruct (resolve_cmd f false second) as [o r]. cbn [fst snd] in *.
      split; [F1; assumption|exact G2].
    - assert (Hf2 : esc_free (if starts_with (s2l "wl") first1 then skipn 2 first1 else first1)) by (destruct (starts_with _ _); [apply esc_free_skipn; exact Hf1|exact Hf1]).
      pose proof (get_command_off _ Hf2) as G. destruct (get_command' false _) as [c e]. cbn [fst snd] in *.
      destruct c; cbn [fst snd]; (split; [F1; assumption|]); [intros name arg E; injection E as _ <-; exact Hsecond|discriminate]. }
  destruct first as [|x first'].
  - destruct second as [|y second']; [|exact (IH _ Hsecond)].
    apply Hmain; [reflexivity|]. F1. apply error_line_clean, line_clean_txt. reflexivity.
  - apply Hmain; [exact Hfirst|constructor].
Qed.

Lemma process_command_off fuel s input : OffInv s -> esc_free input ->
  OffInv (fst (process_command fuel s input)) /\ Forall oline_clean (snd (process_command fuel s input)).
Proof.
  intros HO Hi. unfold process_command. rewrite (OffInv_color _ HO).
  destruct (resolve_cmd_off fuel input Hi) as [G1 G2]. destruct (resolve_cmd fuel false input) as [pre r]. cbn [fst snd] in *.
  destruct r as [[name arg]|]; [|split; assumption].
  destruct (run_command_off s name arg HO (G2 _ _ eq_refl)) as [K1 K2]. destruct (run_command s name arg) as [s1 o]. cbn [fst snd] in *.
  split; [exact K1|F1; assumption].
Qed.

Lemma gdb_command_off s cmd : OffInv s -> esc_free cmd -> OffInv (fst (gdb_command s cmd)) /\ Forall oline_clean (snd (gdb_command s cmd)).
Proof.
  intros HO Hi. unfold gdb_command.
  assert (HO' : OffInv (set_pause s true (s_quit s))) by (revert HO; apply OffInv_frame; reflexivity).
  destruct (process_command_off command_fuel _ cmd HO' Hi) as [G1 G2].
  destruct (process_command command_fuel (set_pause s true (s_quit s)) cmd) as [s1 o]. cbn [fst snd] in *.
  split; [exact G1|F1; [exact G2|]]. destruct (s_quit s1); [F1; exact I|]. destruct (negb (s_paused s1)); F1. exact I.
Qed.

(* ---- step and run ------------------------------------------------------------------------------------------------------ *)
(* what the plain run echoes must itself be free of ESC: names in decoded messages, the strings that
   become titles, passed-through text lines, typed commands.  String arguments in general need no
   hypothesis (they are printed through repr). *)
Definition ev_off_ok (e : event) : Prop :=
  match e with
  | EMsg _ m | EGdbMsg _ _ m | ESinkMsg _ m => pmsg_off_ok m
  | EText t | ECmd t | EGdbCmd t => esc_free t
  | _ => True
  end.

Definition TOff (T : top) : Prop := OffInv (t_sess T).

Section WithP2.
Variable P : pdb.
Hypothesis HP : pdb_clean P.

Theorem step_off T ev : TOff T -> ev_off_ok ev -> TOff (fst (step P T ev)) /\ Forall oline_clean (snd (step P T ev)).
Proof.
  unfold TOff. intros HO He. destruct T as [b s]. cbn [t_sess] in HO.
  destruct ev as [id m|t|c| |id th m|id|c|id sv|id|id m]; unfold step; cbn [t_base t_sess ev_off_ok] in *.
  - destruct (rel_time b (p_time m)) as [b' rel]. destruct (log_message_off P HP s id rel m HO He) as [G1 G2].
    destruct (log_message P s id rel m) as [s' o]. split; assumption.
  - cbn [fst snd t_sess]. split; [exact HO|apply unprocessed_line_off; [apply (OffInv_color _ HO)|exact He]].
  - destruct (process_command_off command_fuel s c HO He) as [G1 G2]. destruct (process_command command_fuel s c) as [s' o]. split; assumption.
  - destruct (log_eof_off s HO) as [G1 G2]. destruct (log_eof s) as [s' o]. split; assumption.
  - destruct (rel_time b (p_time m)) as [b' rel]. destruct (gdb_message_off P HP s id th rel m HO He) as [G1 G2].
    destruct (gdb_message P s id th rel m) as [s' o]. split; assumption.
  - destruct (gdb_destroy_off s id HO) as [G1 G2]. destruct (gdb_destroy s id) as [s' o]. split; assumption.
  - destruct (gdb_command_off s c HO He) as [G1 G2]. destruct (gdb_command s c) as [s' o]. split; assumption.
  - destruct id as [|x id]; [cbn [fst snd]; split; [exact HO|repeat constructor]|].
    destruct (open_conn_off s (x :: id) sv HO) as [G1 G2]. destruct (open_conn s (x :: id) sv) as [s' o]. split; assumption.
  - destruct (close_conn_off s id HO) as [G1 G2]. destruct (close_conn s id) as [s' o]. split; assumption.
  - destruct (rel_time b (p_time m)) as [b' rel]. destruct (conn_message_off P HP s id rel m HO He) as (G1 & G2 & _).
    destruct (conn_message P s id rel m) as [[[s' o] err] st]. cbn [fst snd] in *. split; [exact G1|].
    apply Forall_app. split; [exact G2|]. destruct err as [[e msg]|]; repeat constructor.
Qed.

(* C17, second sentence: with colour disabled the tool emits no escape sequence of its own *)
Theorem off_emits_no_escape es : forall T, TOff T -> Forall ev_off_ok es ->
  TOff (fst (run P T es)) /\ Forall (Forall oline_clean) (snd (run P T es)).
Proof.
  induction es as [|e es IH]; intros T HO He; cbn [run]; [split; [exact HO|constructor]|].
  inversion He as [|? ? He1 He2]; subst. destruct (step_off T e HO He1) as [G1 G2].
  destruct (step P T e) as [T1 o]. cbn [fst snd] in *. destruct (IH T1 G1 He2) as [K1 K2]. destruct (run P T1 es) as [T2 os].
  cbn [fst snd] in *. split; [exact K1|constructor; assumption].
Qed.

Lemma ev_off_ok_ev_ok e : ev_off_ok e -> ev_ok e.
Proof. destruct e; cbn; try exact (fun _ => I); intros [H _]; exact H. Qed.

(* both sentences together: for clean input, each coloured line stripped of escape sequences IS the plain line *)
Definition text_of (o : oline) : option line := match o with OOut l | OMsg _ _ l | OErr l | OMaybe l => Some l | _ => None end.
Definition LineExact (o1 o0 : oline) : Prop :=
  LineStrips o1 o0 /\
  match text_of o1, text_of o0 with
  | Some l1, Some l0 => forall fmt any, fmt_ok fmt -> esc_free any -> no_color (line_text fmt any l1) = line_text fmt any l0
  | None, None => True
  | _, _ => False
  end.

Lemma LineExact_intro o1 o0 : LineStrips o1 o0 -> oline_clean o0 -> LineExact o1 o0.
Proof.
  intros H Hc. split; [exact H|].
  destruct o1, o0; cbn [LineStrips text_of oline_clean] in *; try contradiction; try exact I;
    try (destruct H as (_ & _ & H)); intros fmt any Hf Ha; rewrite (TR_nc _ _ (H fmt any Hf)); apply no_color_esc_free'; apply Hc; assumption.
Qed.

Theorem run_color_exact es T1 T0 : ColorRel T1 T0 -> names_ok (t_sess T1) -> TOff T0 -> Forall ev_off_ok es ->
  Forall2 (Forall2 LineExact) (snd (run P T1 es)) (snd (run P T0 es)).
Proof.
  intros H HN HO He.
  destruct (run_color_sim P es T1 T0 H HN) as [_ G]. destruct (off_emits_no_escape es T0 HO He) as [_ K].
  induction G as [|o1 o0 os1 os0 Ho _ IH]; [constructor|].
  inversion K as [|? ? K1 K2]; subst. constructor; [|apply IH; exact K2].
  clear -Ho K1. induction Ho as [|a b la lb Hab _ IH]; [constructor|]. inversion K1 as [|? ? Ka Kb]; subst.
  constructor; [apply LineExact_intro; assumption|apply IH; exact Kb].
Qed.
End WithP2.

Lemma TOff_init display stop un ig : mclean display -> mclean stop -> TOff (mkTop None (init_sess display stop false un ig)).
Proof. intros Hd Hs. split; [reflexivity|]. split; [split; constructor|]. split; [constructor|]. split; assumption. Qed.

(* both sentences of C17 for the whole tool started with colour on / off: clean input, clean protocol data *)
Theorem session_color_exact P display stop un ig es : pdb_clean P -> mclean display -> mclean stop -> Forall ev_off_ok es ->
  Forall2 (Forall2 LineExact)
    (snd (run P (mkTop None (init_sess display stop true un ig)) es))
    (snd (run P (mkTop None (init_sess display stop false un ig)) es)).
Proof.
  intros HP Hd Hs He. apply run_color_exact; [exact HP|apply ColorRel_init|apply names_ok_init|apply TOff_init; assumption|exact He].
Qed.

Print Assumptions off_emits_no_escape.
Print Assumptions session_color_exact.
Print Assumptions run_color_exact.
