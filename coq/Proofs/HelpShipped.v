(* HelpShipped.v — the help screen of the SHIPPED matchers.md (Gen/ShippedHelp.v, regenerated from /repo on
   every run): `help matcher` produces a screen with both colour settings (no table line of the file fails the
   row pattern, the file is inside the model), and the coloured screen, stripped, is the plain screen. *)
From WD Require Import Base Color Help ColorProofs HelpProofs ShippedHelp.
Open Scope N_scope.

Definition shipped_help (on : bool) : res str :=
  match shipped_help_file with
  | Some t => help_text on t
  | None => Raise OutOfModel []
  end.

Definition shipped_help_facts : bool :=
  match shipped_help_file with
  | Some t => forallb (fun c => negb (N.eqb c 27)) t && is_ok (help_text true t) && is_ok (help_text false t)
  | None => false
  end.

Lemma shipped_help_facts_true : shipped_help_facts = true.
Proof. vm_compute. reflexivity. Qed.

Theorem shipped_help_screen :
  match shipped_help true, shipped_help false with
  | Ok a, Ok b => no_color a = b /\ esc_free b
  | _, _ => False
  end.
Proof.
  pose proof shipped_help_facts_true as H. unfold shipped_help_facts, shipped_help in *.
  destruct shipped_help_file as [t|]; [|discriminate].
  apply andb_true_iff in H. destruct H as [H H0]. apply andb_true_iff in H. destruct H as [He H1].
  pose proof (help_text_color_invariant t He) as Hinv.
  destruct (help_text true t) as [a|e m], (help_text false t) as [b|e' m']; try discriminate; exact Hinv.
Qed.

(* the coloured screen really is coloured (the statement is not about two equal texts) *)
Example shipped_help_is_coloured :
  match shipped_help true, shipped_help false with
  | Ok a, Ok b => negb (str_eqb a b)
  | _, _ => false
  end = true.
Proof. vm_compute. reflexivity. Qed.
