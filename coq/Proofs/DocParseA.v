(* DocParseA.v — T1 stage A: lexical lemmas about strip, find_close, split_on_go / split_on /
   split_pair on balanced text. *)
From WD Require Import Base Wire Conn Color LetterId Matcher MatcherParse Doc.
From WD Require Import ProtocolProofs.
From Coq Require Import Lia.
Open Scope N_scope.

(* [char] = N and [str] = list N are transparent aliases; terms coming from different files carry one
   or the other in implicit arguments and plain [rewrite] then fails to match.  [nn] normalises the
   goal, [rw] rewrites with a normalised copy of the lemma. *)
Ltac nn := unfold char, str in *.
Tactic Notation "rw" open_constr(L) :=
  let T := type of L in let T' := eval unfold char, str in T in
  let H := fresh "RW" in pose proof (L : T') as H; nn; rewrite H; clear H.
Tactic Notation "rw" open_constr(L) "in" hyp(K) :=
  let T := type of L in let T' := eval unfold char, str in T in
  let H := fresh "RW" in pose proof (L : T') as H; nn; rewrite H in K; clear H.

(* ---- generic scanners ---------------------------------------------------------------------------- *)
Lemma dp_drop_while_all {A} (p : A -> bool) a : forallb p a = true -> drop_while p a = [].
Proof.
  induction a as [|x a IH]; [reflexivity|]. cbn [forallb drop_while]. intros Ha.
  apply andb_true_iff in Ha. destruct Ha as [H1 H2]. rewrite H1. exact (IH H2).
Qed.

Lemma dp_drop_while_app_all {A} (p : A -> bool) a b :
  forallb p a = true -> drop_while p (a ++ b) = drop_while p b.
Proof.
  induction a as [|x a IH]; [reflexivity|]. cbn [forallb drop_while app]. intros Ha.
  apply andb_true_iff in Ha. destruct Ha as [H1 H2]. rewrite H1. exact (IH H2).
Qed.

Lemma dp_drop_while_app_notall {A} (p : A -> bool) a b :
  forallb p a = false -> drop_while p (a ++ b) = drop_while p a ++ b.
Proof.
  induction a as [|x a IH]; [discriminate|]. cbn [forallb drop_while app]. intros Ha.
  destruct (p x) eqn:E; [|reflexivity]. cbn [andb] in Ha. exact (IH Ha).
Qed.

Lemma dp_drop_while_split {A} (p : A -> bool) a :
  exists b, forallb p b = true /\ a = b ++ drop_while p a.
Proof.
  induction a as [|x a [b [Hb E]]].
  - exists []. split; reflexivity.
  - cbn [drop_while]. destruct (p x) eqn:Px.
    + exists (x :: b). split; [cbn [forallb]; rewrite Px, Hb; reflexivity|]. cbn [app]. rewrite <- E. reflexivity.
    + exists []. split; reflexivity.
Qed.

Lemma dp_forallb_rev {A} (p : A -> bool) l : forallb p (rev l) = forallb p l.
Proof.
  induction l as [|x l IH]; [reflexivity|]. cbn [rev]. rewrite forallb_app, IH. cbn [forallb].
  rewrite andb_true_r. apply andb_comm.
Qed.

(* ---- blanks and strip ------------------------------------------------------------------------------ *)
Definition blank (p : str) : Prop := forallb is_space p = true.

Lemma blank_app a b : blank a -> blank b -> blank (a ++ b).
Proof. unfold blank. intros Ha Hb. rewrite forallb_app, Ha, Hb. reflexivity. Qed.

Lemma blank_nil : blank [].
Proof. reflexivity. Qed.

Lemma blank_rev b : blank b -> blank (rev b).
Proof. unfold blank. rewrite dp_forallb_rev. auto. Qed.

Lemma blank_blanks n : blank (blanks n).
Proof.
  unfold blank, blanks. induction (Nat.modulo n 3) as [|k IH]; [reflexivity|].
  cbn [repeat forallb]. rewrite IH. reflexivity.
Qed.

Lemma lstrip_blank_app b s : blank b -> lstrip (b ++ s) = lstrip s.
Proof. intros Hb. unfold lstrip. apply dp_drop_while_app_all. exact Hb. Qed.

Lemma rstrip_app_blank s b : blank b -> rstrip (s ++ b) = rstrip s.
Proof.
  intros Hb. unfold rstrip. rewrite rev_app_distr, dp_drop_while_app_all; [reflexivity|].
  apply blank_rev. exact Hb.
Qed.

Lemma strip_blank_app b s : blank b -> strip (b ++ s) = strip s.
Proof. intros Hb. unfold strip. rewrite lstrip_blank_app by exact Hb. reflexivity. Qed.

Lemma strip_blank b : blank b -> strip b = [].
Proof. intros Hb. unfold strip, lstrip. rewrite dp_drop_while_all by exact Hb. reflexivity. Qed.

Lemma strip_app_blank s b : blank b -> strip (s ++ b) = strip s.
Proof.
  intros Hb. destruct (forallb is_space s) eqn:Es.
  - rewrite (strip_blank s Es). apply strip_blank. apply blank_app; assumption.
  - unfold strip, lstrip. rewrite dp_drop_while_app_notall by exact Es.
    apply rstrip_app_blank. exact Hb.
Qed.

Lemma strip_decomp t : exists b1 b2, blank b1 /\ blank b2 /\ t = b1 ++ strip t ++ b2.
Proof.
  destruct (dp_drop_while_split is_space t) as [b1 [H1 E1]].
  destruct (dp_drop_while_split is_space (rev (lstrip t))) as [b2 [H2 E2]].
  exists b1, (rev b2). split; [exact H1|]. split; [apply blank_rev; exact H2|].
  unfold strip, rstrip. rewrite <- rev_app_distr, <- E2, rev_involutive. exact E1.
Qed.

Lemma strip_idem t : strip (strip t) = strip t.
Proof.
  destruct (strip_decomp t) as [b1 [b2 [H1 [H2 E]]]].
  rewrite E at 2. rewrite strip_blank_app, strip_app_blank by assumption. reflexivity.
Qed.

Lemma lstrip_cons c s : is_space c = false -> lstrip (c :: s) = c :: s.
Proof. intros H. unfold lstrip. cbn [drop_while]. rewrite H. reflexivity. Qed.

Lemma rstrip_snoc s c : is_space c = false -> rstrip (s ++ [c]) = s ++ [c].
Proof.
  intros H. unfold rstrip. rewrite rev_app_distr. cbn [rev app drop_while]. rewrite H.
  cbn [rev]. rewrite rev_involutive. reflexivity.
Qed.

Definition nonblank_all (s : str) : bool := forallb (fun c => negb (is_space c)) s.

Lemma strip_nonblank_all s : nonblank_all s = true -> strip s = s.
Proof.
  unfold nonblank_all. intros H. destruct s as [|c s]; [reflexivity|].
  assert (Hc : is_space c = false).
  { cbn [forallb] in H. apply andb_true_iff in H. destruct H as [H _]. apply negb_true_iff in H. exact H. }
  unfold strip. rewrite lstrip_cons by exact Hc.
  destruct (exists_last (l := c :: s)) as [m [d E]]; [discriminate|]. rewrite E.
  apply rstrip_snoc. rewrite E in H. rewrite forallb_app in H. apply andb_true_iff in H.
  destruct H as [_ H]. cbn [forallb] in H. rewrite andb_true_r in H. apply negb_true_iff in H. exact H.
Qed.

Lemma strip_wrap c mid d : is_space c = false -> is_space d = false ->
  strip (c :: mid ++ [d]) = c :: mid ++ [d].
Proof.
  intros Hc Hd. unfold strip. rewrite lstrip_cons by exact Hc.
  change (c :: mid ++ [d]) with ((c :: mid) ++ [d]). apply rstrip_snoc. exact Hd.
Qed.

(* a stripped text that starts with a non-blank keeps its first character *)
Lemma strip_cons_nonblank c s : is_space c = false -> exists s', strip (c :: s) = c :: s'.
Proof.
  intros Hc. unfold strip. rewrite lstrip_cons by exact Hc. unfold rstrip.
  destruct (exists_last (l := c :: s)) as [m [d E]]; [discriminate|].
  destruct (dp_drop_while_split is_space (rev (c :: s))) as [b [Hb Eb]].
  assert (Hr : c :: s = rev (drop_while is_space (rev (c :: s))) ++ rev b).
  { rewrite <- rev_app_distr, <- Eb, rev_involutive. reflexivity. }
  destruct (rev (drop_while is_space (rev (c :: s)))) as [|x r] eqn:Ex.
  - cbn [app] in Hr. exfalso. assert (Hb' : blank (rev b)) by (apply blank_rev; exact Hb).
    rewrite <- Hr in Hb'. unfold blank in Hb'. cbn [forallb] in Hb'. rewrite Hc in Hb'. discriminate.
  - cbn [app] in Hr. injection Hr as Hx _. subst x. exists r. reflexivity.
Qed.

Lemma space_is c : is_space c = true -> forall k, is_space k = false -> c <> k.
Proof. intros H k Hk E. subst. congruence. Qed.

(* ---- find_close ------------------------------------------------------------------------------------- *)
Inductive Bal (op cl : char) : str -> Prop :=
| Bal_nil : Bal op cl []
| Bal_char c s : c <> op -> c <> cl -> Bal op cl s -> Bal op cl (c :: s)
| Bal_wrap a b : Bal op cl a -> Bal op cl b -> Bal op cl (op :: a ++ cl :: b).

Lemma Bal_app op cl a b : Bal op cl a -> Bal op cl b -> Bal op cl (a ++ b).
Proof.
  intros Ha Hb. induction Ha as [|c s H1 H2 Hs IH|x y Hx IHx Hy IHy]; cbn [app].
  - exact Hb.
  - apply Bal_char; assumption.
  - rewrite <- app_assoc. cbn [app]. apply Bal_wrap; assumption.
Qed.

Definition free_of (op cl : char) (s : str) : bool :=
  forallb (fun c => negb (N.eqb c op) && negb (N.eqb c cl)) s.

Lemma Bal_free op cl s : free_of op cl s = true -> Bal op cl s.
Proof.
  unfold free_of. induction s as [|c s IH]; intros H; [constructor|].
  cbn [forallb] in H. apply andb_true_iff in H. destruct H as [H1 H2].
  apply andb_true_iff in H1. destruct H1 as [Ha Hb].
  apply negb_true_iff in Ha, Hb. apply N.eqb_neq in Ha, Hb.
  apply Bal_char; auto.
Qed.

Lemma free_of_app op cl a b : free_of op cl (a ++ b) = free_of op cl a && free_of op cl b.
Proof. unfold free_of. apply forallb_app. Qed.

Lemma fc_bal op cl s : op <> cl -> Bal op cl s -> forall n rest,
  find_close op cl (s ++ rest) (S n) = option_map (Nat.add (List.length s)) (find_close op cl rest (S n)).
Proof.
  intros Hoc Hs. induction Hs as [|c s H1 H2 Hs IH|x y Hx IHx Hy IHy]; intros n rest.
  - cbn [app List.length]. destruct (find_close op cl rest (S n)); reflexivity.
  - cbn [app find_close List.length].
    apply N.eqb_neq in H1, H2. rewrite H1, H2. rewrite IH.
    destruct (find_close op cl rest (S n)); reflexivity.
  - cbn [app find_close]. assert (E : N.eqb op cl = false) by (apply N.eqb_neq; exact Hoc).
    rewrite E, N.eqb_refl. rewrite <- app_assoc. rewrite IHx. cbn [app find_close].
    rewrite N.eqb_refl. cbn [Nat.pred]. rewrite IHy.
    destruct (find_close op cl rest (S n)) as [k|]; cbn [option_map]; [|reflexivity].
    f_equal. cbn [List.length]. rewrite app_length. cbn [List.length]. lia.
Qed.

Lemma fc_bal_close op cl s rest : op <> cl -> Bal op cl s ->
  find_close op cl (s ++ cl :: rest) 1 = Some (S (List.length s)).
Proof.
  intros Hoc Hs. rewrite (fc_bal op cl s Hoc Hs). cbn [find_close]. rewrite N.eqb_refl.
  cbn [Nat.pred option_map]. f_equal. lia.
Qed.

Lemma fc_quote s rest : free_of 34 34 s = true ->
  find_close 34 34 (s ++ 34 :: rest) 1 = Some (S (List.length s)).
Proof.
  unfold free_of. induction s as [|c s IH]; intros H.
  - reflexivity.
  - cbn [forallb] in H. apply andb_true_iff in H. destruct H as [H1 H2].
    apply andb_true_iff in H1. destruct H1 as [Ha _]. apply negb_true_iff in Ha.
    cbn [app find_close List.length]. rewrite Ha. rewrite (IH H2). reflexivity.
Qed.

Lemma fc_blank_none op cl b n : is_space op = false -> is_space cl = false -> blank b ->
  find_close op cl b (S n) = None.
Proof.
  intros Ho Hc. induction b as [|c b IH]; intros Hb; [reflexivity|].
  unfold blank in Hb. cbn [forallb] in Hb. apply andb_true_iff in Hb. destruct Hb as [H1 H2].
  cbn [find_close].
  assert (E1 : N.eqb c cl = false) by (apply N.eqb_neq; apply (space_is c H1); exact Hc).
  assert (E2 : N.eqb c op = false) by (apply N.eqb_neq; apply (space_is c H1); exact Ho).
  rewrite E1, E2, (IH H2). reflexivity.
Qed.

Lemma fc_trail_blank op cl b : is_space op = false -> is_space cl = false -> blank b ->
  forall s n, find_close op cl (s ++ b) (S n) = find_close op cl s (S n).
Proof.
  intros Ho Hc Hb. induction s as [|c s IH]; intros n.
  - cbn [app]. apply fc_blank_none; assumption.
  - cbn [app find_close].
    destruct (if N.eqb c cl then Nat.pred (S n) else if N.eqb c op then S (S n) else S n) as [|k]; [reflexivity|].
    rewrite IH. reflexivity.
Qed.

(* ---- split_on_go ------------------------------------------------------------------------------------ *)
Lemma sog_skip d a : forall k rest cur acc,
  split_on_go d (a ++ rest) (List.length a + k) cur acc = split_on_go d rest k (rev a ++ cur) acc.
Proof.
  induction a as [|c a IH]; intros k rest cur acc; [reflexivity|].
  cbn [app List.length Nat.add split_on_go]. rewrite IH. cbn [rev]. rewrite <- app_assoc. reflexivity.
Qed.

Inductive Chunk (d : char) : str -> Prop :=
| Ch_nil : Chunk d []
| Ch_char c s : c <> d -> is_brace c = false -> Chunk d s -> Chunk d (c :: s)
| Ch_jump c inner s : c <> d -> is_brace c = true ->
    (forall rest, find_close c (closing_of c) (inner ++ closing_of c :: rest) 1 = Some (S (List.length inner))) ->
    Chunk d s -> Chunk d (c :: inner ++ closing_of c :: s).

Lemma Chunk_app d a b : Chunk d a -> Chunk d b -> Chunk d (a ++ b).
Proof.
  intros Ha Hb. induction Ha as [|c s H1 H2 Hs IH|c inner s H1 H2 H3 Hs IH]; cbn [app].
  - exact Hb.
  - apply Ch_char; assumption.
  - rewrite <- app_assoc. cbn [app]. apply Ch_jump; assumption.
Qed.

Definition plain_for (d : char) (s : str) : bool :=
  forallb (fun c => negb (N.eqb c d) && negb (is_brace c)) s.

Lemma Chunk_plain d s : plain_for d s = true -> Chunk d s.
Proof.
  unfold plain_for. induction s as [|c s IH]; intros H; [constructor|].
  cbn [forallb] in H. apply andb_true_iff in H. destruct H as [H1 H2].
  apply andb_true_iff in H1. destruct H1 as [Ha Hb].
  apply negb_true_iff in Ha, Hb. apply N.eqb_neq in Ha.
  apply Ch_char; auto.
Qed.

Lemma plain_for_app d a b : plain_for d (a ++ b) = plain_for d a && plain_for d b.
Proof. unfold plain_for. apply forallb_app. Qed.

Lemma blank_plain d b : is_space d = false -> blank b -> plain_for d b = true.
Proof.
  intros Hd. unfold blank, plain_for. induction b as [|c b IH]; intros H; [reflexivity|].
  cbn [forallb] in *. apply andb_true_iff in H. destruct H as [H1 H2]. rewrite (IH H2), andb_true_r.
  assert (E1 : N.eqb c d = false) by (apply N.eqb_neq; apply (space_is c H1); exact Hd).
  rewrite E1. unfold is_brace.
  assert (E2 : N.eqb c 40 = false) by (apply N.eqb_neq; apply (space_is c H1); reflexivity).
  assert (E3 : N.eqb c 91 = false) by (apply N.eqb_neq; apply (space_is c H1); reflexivity).
  assert (E4 : N.eqb c 34 = false) by (apply N.eqb_neq; apply (space_is c H1); reflexivity).
  rewrite E2, E3, E4. reflexivity.
Qed.

Lemma Chunk_blank d b : is_space d = false -> blank b -> Chunk d b.
Proof. intros Hd Hb. apply Chunk_plain. apply blank_plain; assumption. Qed.

Lemma Chunk_square d inner s : d <> 91 -> Bal 91 93 inner -> Chunk d s -> Chunk d (91 :: inner ++ 93 :: s).
Proof.
  intros Hd Hi Hs. change 93 with (closing_of 91). apply Ch_jump; auto.
  intros rest. change (closing_of 91) with 93. apply fc_bal_close; [discriminate|exact Hi].
Qed.

Lemma Chunk_paren d inner s : d <> 40 -> Bal 40 41 inner -> Chunk d s -> Chunk d (40 :: inner ++ 41 :: s).
Proof.
  intros Hd Hi Hs. change 41 with (closing_of 40). apply Ch_jump; auto.
  intros rest. change (closing_of 40) with 41. apply fc_bal_close; [discriminate|exact Hi].
Qed.

Lemma Chunk_quote d inner s : d <> 34 -> free_of 34 34 inner = true -> Chunk d s -> Chunk d (34 :: inner ++ 34 :: s).
Proof.
  intros Hd Hi Hs. change 34 with (closing_of 34) at 2. apply Ch_jump; auto.
  intros rest. change (closing_of 34) with 34. apply fc_quote. exact Hi.
Qed.

Lemma sog_chunk d s : Chunk d s -> forall rest cur acc,
  split_on_go d (s ++ rest) 0 cur acc = split_on_go d rest 0 (rev s ++ cur) acc.
Proof.
  intros Hs. induction Hs as [|c s H1 H2 Hs IH|c inner s H1 H2 H3 Hs IH]; intros rest cur acc.
  - reflexivity.
  - cbn [app split_on_go]. apply N.eqb_neq in H1. rewrite H1, H2, IH. cbn [rev]. rewrite <- app_assoc. reflexivity.
  - cbn [app split_on_go]. apply N.eqb_neq in H1. rewrite H1, H2.
    rewrite <- app_assoc. cbn [app]. rewrite H3.
    change (inner ++ closing_of c :: s ++ rest) with (inner ++ [closing_of c] ++ s ++ rest).
    rewrite app_assoc.
    replace (S (List.length inner)) with (List.length (inner ++ [closing_of c]) + 0)%nat
      by (rewrite app_length; cbn [List.length]; lia).
    rewrite sog_skip, IH. f_equal. cbn [rev]. rewrite !rev_app_distr. cbn [rev app].
    rewrite <- !app_assoc. cbn [app]. reflexivity.
Qed.

Lemma sog_delim d rest cur acc : is_brace d = false ->
  split_on_go d (d :: rest) 0 cur acc = split_on_go d rest 0 [] (strip (rev cur) :: acc).
Proof. intros H. cbn [split_on_go]. rewrite N.eqb_refl, H. reflexivity. Qed.

Definition flat (d : char) (segs : list str) : str := List.concat (map (cons d) segs).

Lemma sog_segments d : is_brace d = false -> forall more s1 cur acc,
  Chunk d s1 -> Forall (Chunk d) more ->
  split_on_go d (s1 ++ flat d more) 0 cur acc
  = Ok (rev acc ++ strip (rev cur ++ s1) :: map strip more).
Proof.
  intros Hd. induction more as [|s2 more IH]; intros s1 cur acc H1 Hm.
  - unfold flat. cbn [map List.concat]. rewrite sog_chunk by exact H1. cbn [split_on_go rev map].
    rewrite rev_app_distr, rev_involutive. reflexivity.
  - unfold flat. cbn [map List.concat]. rewrite sog_chunk by exact H1. cbn [app]. rewrite sog_delim by exact Hd.
    inversion Hm as [|x y Hx Hy]; subst. fold (flat d more). rewrite IH by assumption.
    cbn [rev app map]. rewrite <- app_assoc. cbn [app]. rewrite rev_app_distr, rev_involutive. reflexivity.
Qed.

(* blanks around the whole text do not matter *)
Lemma sog_blank_only d : is_space d = false -> forall b skip cur acc, blank b ->
  split_on_go d b skip cur acc = Ok (rev (strip (rev cur) :: acc)).
Proof.
  intros Hd. induction b as [|c b IH]; intros skip cur acc Hb; [reflexivity|].
  assert (Hp := blank_plain d _ Hd Hb). unfold plain_for in Hp. cbn [forallb] in Hp.
  apply andb_true_iff in Hp. destruct Hp as [Hp _]. apply andb_true_iff in Hp. destruct Hp as [P1 P2].
  apply negb_true_iff in P1, P2.
  unfold blank in Hb. cbn [forallb] in Hb. apply andb_true_iff in Hb. destruct Hb as [Hc Hb].
  assert (E : strip (rev (c :: cur)) = strip (rev cur)).
  { cbn [rev]. apply strip_app_blank. unfold blank. cbn [forallb]. rewrite Hc. reflexivity. }
  cbn [split_on_go]. destruct skip as [|k].
  - rewrite P1, P2. rewrite IH by exact Hb. rewrite E. reflexivity.
  - rewrite IH by exact Hb. rewrite E. reflexivity.
Qed.

Lemma brace_nonblank c : is_brace c = true -> is_space c = false /\ is_space (closing_of c) = false.
Proof.
  unfold is_brace, closing_of. intros H.
  destruct (N.eqb c 40) eqn:E1; [apply N.eqb_eq in E1; subst; split; reflexivity|].
  destruct (N.eqb c 91) eqn:E2; [apply N.eqb_eq in E2; subst; split; reflexivity|].
  destruct (N.eqb c 34) eqn:E3; [apply N.eqb_eq in E3; subst; split; reflexivity|].
  discriminate.
Qed.

Lemma sog_trail_blank d b : is_space d = false -> blank b -> forall t skip cur acc,
  split_on_go d (t ++ b) skip cur acc = split_on_go d t skip cur acc.
Proof.
  intros Hd Hb. induction t as [|c t IH]; intros skip cur acc.
  - cbn [app]. rewrite sog_blank_only by assumption. reflexivity.
  - cbn [app split_on_go]. destruct skip as [|k]; [|apply IH].
    destruct (is_brace c) eqn:Eb; [|apply IH].
    destruct (brace_nonblank c Eb) as [B1 B2].
    rewrite fc_trail_blank by assumption.
    destruct (find_close c (closing_of c) t 1); [apply IH|reflexivity].
Qed.

Lemma sog_lead_blank d b : blank b -> forall t skip cur acc,
  split_on_go d t skip (cur ++ rev b) acc = split_on_go d t skip cur acc.
Proof.
  intros Hb.
  assert (E : forall cur, strip (rev (cur ++ rev b)) = strip (rev cur)).
  { intros cur. rewrite rev_app_distr, rev_involutive. apply strip_blank_app. exact Hb. }
  induction t as [|c t IH]; intros skip cur acc.
  - cbn [split_on_go]. rewrite E. reflexivity.
  - cbn [split_on_go]. destruct skip as [|k]; [|apply (IH k (c :: cur))].
    rewrite E. destruct (N.eqb c d).
    + reflexivity.
    + destruct (is_brace c); [|apply (IH 0%nat (c :: cur))].
      destruct (find_close c (closing_of c) t 1); [apply (IH _ (c :: cur))|reflexivity].
Qed.

Lemma sog_strip d t : is_space d = false ->
  split_on_go d (strip t) 0 [] [] = split_on_go d t 0 [] [].
Proof.
  intros Hd. destruct (strip_decomp t) as [b1 [b2 [H1 [H2 E]]]].
  rewrite E at 2. rewrite app_assoc, sog_trail_blank by assumption.
  rewrite sog_chunk by (apply Chunk_blank; assumption).
  rewrite app_nil_r. symmetry. exact (sog_lead_blank d b1 H1 (strip t) 0%nat [] []).
Qed.

Lemma split_on_strip t d ae : is_space d = false -> split_on (strip t) d ae = split_on t d ae.
Proof.
  intros Hd. unfold split_on. rewrite strip_idem, sog_strip by exact Hd. reflexivity.
Qed.

Lemma split_on_false t d : split_on t d false = split_on_go d t 0 [] [].
Proof. unfold split_on. destruct (strip t); reflexivity. Qed.

Lemma split_pair_strip t d : is_space d = false -> split_pair (strip t) d = split_pair t d.
Proof. intros Hd. unfold split_pair. rewrite split_on_strip by exact Hd. reflexivity. Qed.

Lemma split_on_segs d s1 more : is_brace d = false -> Chunk d s1 -> Forall (Chunk d) more ->
  split_on (s1 ++ flat d more) d false = Ok (strip s1 :: map strip more).
Proof.
  intros Hd H1 Hm. rewrite split_on_false, sog_segments by assumption. reflexivity.
Qed.

Lemma split_pair_none d t : Chunk d t -> split_pair t d = Ok None.
Proof.
  intros Ht. unfold split_pair. rewrite split_on_false.
  rewrite <- (app_nil_r t). rewrite sog_chunk by exact Ht. reflexivity.
Qed.

Lemma split_pair_two d a b : is_brace d = false -> Chunk d a -> Chunk d b ->
  split_pair (a ++ d :: b) d = Ok (Some (strip a, strip b)).
Proof.
  intros Hd Ha Hb. unfold split_pair.
  replace (d :: b) with (flat d [b]) by (unfold flat; cbn [map List.concat]; rewrite app_nil_r; reflexivity).
  rewrite split_on_segs by auto. reflexivity.
Qed.

(* the split on `(`: the delimiter is itself a bracket, the jump covers the rest *)
Lemma split_peren_some a inner : Chunk 40 a -> Bal 40 41 inner ->
  split_peren_at_end (a ++ 40 :: inner ++ [41]) = Ok (Some (strip a, lstrip inner)).
Proof.
  intros Ha Hi. unfold split_peren_at_end, split_pair. rewrite split_on_false.
  rewrite sog_chunk by exact Ha. cbn [split_on_go]. cbn [N.eqb Pos.eqb is_brace orb].
  change (closing_of 40) with 41. rewrite fc_bal_close by (try discriminate; exact Hi).
  replace (S (List.length inner)) with (List.length (inner ++ [41%N]) + 0)%nat
    by (rewrite app_length; cbn [List.length]; lia).
  rewrite <- (app_nil_r (inner ++ [41])) at 1. rewrite sog_skip. cbn [split_on_go].
  rewrite !app_nil_r, !rev_involutive. cbn [rev app bind].
  assert (E : strip (inner ++ [41]) = lstrip inner ++ [41]).
  { unfold strip. destruct (forallb is_space inner) eqn:Ei.
    - rewrite (lstrip_blank_app inner [41] Ei).
      assert (E0 : lstrip inner = []) by (unfold lstrip; apply dp_drop_while_all; exact Ei).
      rewrite E0. reflexivity.
    - unfold lstrip. rewrite dp_drop_while_app_notall by exact Ei. apply rstrip_snoc. reflexivity. }
  rewrite E. unfold ends_with. rewrite rev_app_distr. cbn [rev app starts_with N.eqb Pos.eqb andb].
  rewrite removelast_last. reflexivity.
Qed.

Lemma split_peren_none t : Chunk 40 t -> split_peren_at_end t = Ok None.
Proof. intros Ht. unfold split_peren_at_end. rewrite split_pair_none by exact Ht. reflexivity. Qed.
