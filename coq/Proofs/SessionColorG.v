(* C17 lifted to the session, part G: matchers free of ESC.  A matcher parsed from text without ESC
   has no ESC in any of its texts; simplify and join keep that; such a matcher prints without ESC. *)
From WD Require Import Base Wire Conn Color LetterId Matcher MatcherParse.
From WD Require Import LetterIdProofs ColorProofs ShowProofs MatcherProofs.
From Coq Require Import Lia.
Open Scope N_scope.

Definition esc_free_b (s : list N) : bool := forallb (fun c => negb (N.eqb c 27)) s.

Fixpoint mclean_b (m : mt) : bool :=
  match m with
  | MAlways _ => true
  | MWild p => esc_free_b p
  | MEqS s => esc_free_b s
  | MEqZ _ t => esc_free_b t
  | MEqF _ => true
  | MPair a d b => mclean_b a && esc_free_b d && mclean_b b
  | MList pos neg => forallb mclean_b pos && forallb mclean_b neg
  | MArgsList pos neg => forallb mclean_b pos && forallb mclean_b neg
  | MWrap _ w => mclean_b w
  | MPattern c o n a _ _ => mclean_b c && mclean_b o && mclean_b n && mclean_b a
  end.
Definition mclean (m : mt) : Prop := mclean_b m = true.

Lemma forallb_Forall {A} (f : A -> bool) l : forallb f l = true <-> Forall (fun x => f x = true) l.
Proof. rewrite forallb_forall, Forall_forall. tauto. Qed.

(* ---- esc_free through the string helpers ------------------------------------------------------------------ *)
Lemma esc_free_nil : esc_free [].
Proof. reflexivity. Qed.
Lemma esc_free_cons c s : esc_free (c :: s) <-> c <> 27 /\ esc_free s.
Proof.
  unfold esc_free. cbn [forallb]. rewrite andb_true_iff, negb_true_iff, N.eqb_neq. tauto.
Qed.
Lemma esc_free_rev s : esc_free s -> esc_free (rev s).
Proof.
  unfold esc_free. rewrite !forallb_forall. intros H c Hc. apply H. apply in_rev. exact Hc.
Qed.
Lemma esc_free_drop_while f s : esc_free s -> esc_free (drop_while f s).
Proof.
  induction s as [|c s IH]; intros H; [exact H|]. cbn [drop_while]. destruct (f c); [|exact H].
  apply IH. apply esc_free_cons in H. apply H.
Qed.
Lemma esc_free_take_while f s : esc_free s -> esc_free (take_while f s).
Proof.
  induction s as [|c s IH]; intros H; [exact H|]. cbn [take_while]. apply esc_free_cons in H. destruct H as [Hc Hs].
  destruct (f c); [|reflexivity]. apply esc_free_cons. split; [exact Hc|apply IH; exact Hs].
Qed.
Lemma esc_free_strip s : esc_free s -> esc_free (strip s).
Proof. intros H. unfold strip, rstrip, lstrip. apply esc_free_rev, esc_free_drop_while, esc_free_rev, esc_free_drop_while, H. Qed.
Lemma esc_free_tl s : esc_free s -> esc_free (tl s).
Proof. destruct s; [exact (fun H => H)|]. intros H. apply esc_free_cons in H. apply H. Qed.
Lemma esc_free_removelast s : esc_free s -> esc_free (removelast s).
Proof.
  induction s as [|c s IH]; intros H; [exact H|]. cbn [removelast]. apply esc_free_cons in H. destruct H as [Hc Hs].
  destruct s; [reflexivity|]. apply esc_free_cons. split; [exact Hc|apply IH; exact Hs].
Qed.
Lemma esc_free_strip_ends s : esc_free s -> esc_free (strip_ends s).
Proof. intros H. unfold strip_ends. apply esc_free_removelast, esc_free_tl, H. Qed.
Lemma esc_free_skipn' n s : esc_free s -> esc_free (skipn n s).
Proof. apply esc_free_skipn. Qed.
Lemma no_color_esc_free_id s : esc_free s -> no_color s = s.
Proof. apply no_color_esc_free'. Qed.

Lemma esc_free_intercalate sep l : esc_free sep -> Forall esc_free l -> esc_free (intercalate sep l).
Proof.
  intros Hs H. induction H as [|x l Hx Hl IH]; [reflexivity|]. destruct l as [|y l]; [exact Hx|].
  cbn [intercalate] in *. apply esc_free_app. split; [exact Hx|]. apply esc_free_app. split; [exact Hs|exact IH].
Qed.

(* ---- printing ---------------------------------------------------------------------------------------------- *)
Lemma mclean_list l : forallb mclean_b l = true <-> Forall mclean l.
Proof. apply forallb_Forall. Qed.

Theorem mshow_clean m : mclean m -> esc_free (mshow false m).
Proof.
  unfold mclean.
  induction m as [b|p|s|z t|d|a d b IHa IHb|pos neg IHp IHn|pos neg IHp IHn|k w IHw|c o n a mn md IHc IHo IHn IHa]
    using mt_ind'; cbn [mclean_b mshow]; intros H.
  - destruct b; rewrite color_off; reflexivity.
  - exact H.
  - exact H.
  - exact H.
  - apply dec_to_str_esc_free.
  - apply andb_true_iff in H. destruct H as [H Hb]. apply andb_true_iff in H. destruct H as [Ha Hd].
    apply esc_free_app. split; [apply IHa; exact Ha|]. apply esc_free_app. split; [exact Hd|apply IHb; exact Hb].
  - apply andb_true_iff in H. destruct H as [Hp Hn]. apply mclean_list in Hp, Hn.
    assert (Jp : esc_free (comma_join (map (mshow false) pos))).
    { apply esc_free_intercalate; [reflexivity|]. rewrite Forall_forall in *. intros x Hx. apply in_map_iff in Hx.
      destruct Hx as (y & <- & Hy). apply (IHp y Hy). apply (Hp y Hy). }
    assert (Jn : esc_free (comma_join (map (mshow false) neg))).
    { apply esc_free_intercalate; [reflexivity|]. rewrite Forall_forall in *. intros x Hx. apply in_map_iff in Hx.
      destruct Hx as (y & <- & Hy). apply (IHn y Hy). apply (Hn y Hy). }
    assert (G1 : esc_free ([91] ++ comma_join (map (mshow false) pos) ++ [93])).
    { apply esc_free_app. split; [reflexivity|]. apply esc_free_app. split; [exact Jp|reflexivity]. }
    assert (G2 : esc_free ([91] ++ comma_join (map (mshow false) pos) ++ color false bad_color (s2l " ! ") ++ comma_join (map (mshow false) neg) ++ [93])).
    { apply esc_free_app. split; [reflexivity|]. apply esc_free_app. split; [exact Jp|]. apply esc_free_app. split; [reflexivity|].
      apply esc_free_app. split; [exact Jn|reflexivity]. }
    assert (G3 : esc_free ([91] ++ color false bad_color (s2l " ! ") ++ comma_join (map (mshow false) neg) ++ [93])).
    { apply esc_free_app. split; [reflexivity|]. apply esc_free_app. split; [reflexivity|]. apply esc_free_app. split; [exact Jn|reflexivity]. }
    destruct neg as [|n0 neg]; [exact G1|].
    destruct pos as [|p0 pos]; [exact G2|].
    destruct p0 as [[|]| | | | | | | | |]; try exact G2; destruct pos; first [exact G3|exact G2].
  - apply andb_true_iff in H. destruct H as [Hp Hn]. apply mclean_list in Hp, Hn.
    assert (Jp : esc_free (comma_join (map (mshow false) pos))).
    { apply esc_free_intercalate; [reflexivity|]. rewrite Forall_forall in *. intros x Hx. apply in_map_iff in Hx.
      destruct Hx as (y & <- & Hy). apply (IHp y Hy). apply (Hp y Hy). }
    assert (Jn : esc_free (comma_join (map (mshow false) neg))).
    { apply esc_free_intercalate; [reflexivity|]. rewrite Forall_forall in *. intros x Hx. apply in_map_iff in Hx.
      destruct Hx as (y & <- & Hy). apply (IHn y Hy). apply (Hn y Hy). }
    assert (G2 : esc_free (comma_join (map (mshow false) pos) ++ color false bad_color (s2l " ! ") ++ comma_join (map (mshow false) neg))).
    { apply esc_free_app. split; [exact Jp|]. apply esc_free_app. split; [reflexivity|exact Jn]. }
    assert (G3 : esc_free (color false bad_color (s2l " ! ") ++ comma_join (map (mshow false) neg))).
    { apply esc_free_app. split; [reflexivity|exact Jn]. }
    destruct neg as [|n0 neg]; [exact Jp|].
    destruct pos as [|p0 pos]; [exact G2|].
    destruct p0 as [[|]| | | | | | | | |]; try exact G2; destruct pos; first [exact G3|exact G2].
  - apply IHw. exact H.
  - apply andb_true_iff in H. destruct H as [H Ha]. apply andb_true_iff in H. destruct H as [H Hn].
    apply andb_true_iff in H. destruct H as [Hc Ho].
    apply esc_free_app. split; [destruct (is_always true c); [reflexivity|apply IHc; exact Hc]|].
    apply esc_free_app. split; [apply IHo; exact Ho|]. apply esc_free_app. split; [reflexivity|].
    apply esc_free_app. split; [apply IHn; exact Hn|]. apply esc_free_app. split; [reflexivity|].
    apply esc_free_app. split; [apply IHa; exact Ha|reflexivity].
Qed.

(* ---- simplify and join --------------------------------------------------------------------------------------- *)
Lemma mclean_always b : mclean (MAlways b).
Proof. reflexivity. Qed.

Lemma always_some m b : always m = Some b -> m = MAlways b.
Proof. destruct m; try discriminate. intros E. injection E as ->. reflexivity. Qed.

Lemma Forall_map_simplify l : Forall (fun m => mclean m -> mclean (simplify m)) l -> Forall mclean l -> Forall mclean (map simplify l).
Proof.
  intros H H'. induction H as [|x l Hx _ IH]; cbn [map]; [constructor|]. inversion H' as [|? ? Hx' Hl']; subst.
  constructor; [apply Hx; exact Hx'|apply IH; exact Hl'].
Qed.

Lemma last_such_Forall {A} (Q : A -> Prop) f l x : Forall Q l -> last_such f l = Some x -> Q x.
Proof. intros H E. apply last_such_some in E. rewrite Forall_forall in H. apply H. apply E. Qed.

Theorem simplify_clean m : mclean m -> mclean (simplify m).
Proof.
  induction m as [b|p|s|z t|d|a d b IHa IHb|pos neg IHp IHn|pos neg IHp IHn|k w IHw|c o n a mn md IHc IHo IHn IHa]
    using mt_ind'; intros H; try exact H.
  - (* MPair *) unfold mclean in H. cbn [mclean_b] in H. apply andb_true_iff in H. destruct H as [H Hb]. apply andb_true_iff in H. destruct H as [Ha Hd].
    specialize (IHa Ha). specialize (IHb Hb). cbn [simplify].
    assert (G : mclean (MPair (simplify a) d (simplify b))).
    { unfold mclean in *. cbn [mclean_b]. rewrite IHa, Hd, IHb. reflexivity. }
    destruct (always (simplify a)); [|exact G]. destruct (always (simplify b)); [|exact G]. destruct (Bool.eqb _ _); [reflexivity|exact G].
  - (* MList *) unfold mclean in H. cbn [mclean_b] in H. apply andb_true_iff in H. destruct H as [Hp Hn]. apply mclean_list in Hp, Hn.
    pose proof (Forall_map_simplify pos IHp Hp) as Gp. pose proof (Forall_map_simplify neg IHn Hn) as Gn.
    cbn [simplify]. destruct pos as [|p0 pos]; [reflexivity|].
    destruct (existsb (is_always true) (map simplify neg)); [reflexivity|].
    set (pos1 := map simplify (p0 :: pos)) in *. set (neg1 := map simplify neg) in *.
    assert (G2 : Forall mclean (match last_such (is_always true) pos1 with Some p => [p] | None => pos1 end)).
    { destruct (last_such (is_always true) pos1) as [p|] eqn:E; [|exact Gp]. constructor; [|constructor]. exact (last_such_Forall mclean (is_always true) pos1 p Gp E). }
    set (pos2 := match last_such (is_always true) pos1 with Some p => [p] | None => pos1 end) in *.
    pose proof (Forall_filter mclean (fun p => negb (is_always false p)) pos2 G2) as G3.
    pose proof (Forall_filter mclean (fun p => negb (is_always false p)) neg1 Gn) as G4.
    set (pos3 := filter _ pos2) in *. set (neg3 := filter _ neg1) in *.
    assert (GL : mclean (MList pos3 neg3)).
    { unfold mclean. cbn [mclean_b]. apply andb_true_iff. split; apply mclean_list; assumption. }
    destruct pos3 as [|q [|q2 pos3]]; [reflexivity| |exact GL]. destruct neg3; [|exact GL]. inversion G3; assumption.
  - (* MArgsList *) unfold mclean in H. cbn [mclean_b] in H. apply andb_true_iff in H. destruct H as [Hp Hn]. apply mclean_list in Hp, Hn.
    pose proof (Forall_map_simplify pos IHp Hp) as Gp. pose proof (Forall_map_simplify neg IHn Hn) as Gn.
    cbn [simplify]. destruct (existsb (is_always true) (map simplify neg)); [reflexivity|].
    destruct (existsb (is_always false) (map simplify pos)); [reflexivity|].
    pose proof (Forall_filter mclean (fun p => negb (is_always false p)) _ Gn) as G4.
    destruct (_ && _); [reflexivity|]. unfold mclean. cbn [mclean_b]. apply andb_true_iff. split; apply mclean_list; assumption.
  - (* MWrap *) cbn [simplify]. specialize (IHw H). destruct (always (simplify w)); [reflexivity|exact IHw].
  - (* MPattern *) unfold mclean in H. cbn [mclean_b] in H. apply andb_true_iff in H. destruct H as [H Ha]. apply andb_true_iff in H. destruct H as [H Hn].
    apply andb_true_iff in H. destruct H as [Hc Ho]. cbn [simplify].
    destruct (_ || _); [reflexivity|]. destruct (_ && _); [reflexivity|].
    unfold mclean in *. cbn [mclean_b]. rewrite (IHc Hc), (IHo Ho), (IHn Hn), (IHa Ha). reflexivity.
Qed.

Lemma as_list_clean m : mclean m -> Forall mclean (fst (as_list m)) /\ Forall mclean (snd (as_list m)).
Proof.
  intros H. destruct m; cbn [as_list fst snd]; try (split; [constructor; [exact H|constructor]|constructor]).
  unfold mclean in H. cbn [mclean_b] in H. apply andb_true_iff in H. destruct H as [Hp Hn]. split; apply mclean_list; assumption.
Qed.

Theorem join_clean new old : mclean new -> mclean old -> mclean (join new old).
Proof.
  intros Hn Ho. unfold join.
  assert (G : mclean (let '(op, on) := as_list old in let '(np, nn) := as_list new in
      let pos := filter (fun p => negb (is_always true p)) (np ++ op) in
      MList (match pos with [] => [MAlways true] | _ => pos end) (nn ++ on))).
  { destruct (as_list_clean old Ho) as [O1 O2]. destruct (as_list_clean new Hn) as [N1 N2].
    destruct (as_list old) as [op on]. destruct (as_list new) as [np nn]. cbn [fst snd] in *.
    unfold mclean. cbn [mclean_b]. apply andb_true_iff. split; apply mclean_list.
    - pose proof (Forall_filter mclean (fun p => negb (is_always true p)) (np ++ op)) as F.
      destruct (filter _ (np ++ op)); [constructor; [reflexivity|constructor]|]. apply F. apply Forall_app. split; assumption.
    - apply Forall_app. split; assumption. }
  destruct old; try exact Hn; destruct new; try exact Hn; exact G.
Qed.

(* ---- constructors ----------------------------------------------------------------------------------------------- *)
Lemma mclean_pair a d b : mclean a -> esc_free d -> mclean b -> mclean (MPair a d b).
Proof. unfold mclean, esc_free. cbn [mclean_b]. unfold esc_free_b. intros -> -> ->. reflexivity. Qed.
Lemma mclean_mlist p n : Forall mclean p -> Forall mclean n -> mclean (MList p n).
Proof. intros Hp Hn. unfold mclean. cbn [mclean_b]. apply andb_true_iff. split; apply mclean_list; assumption. Qed.
Lemma mclean_margs p n : Forall mclean p -> Forall mclean n -> mclean (MArgsList p n).
Proof. intros Hp Hn. unfold mclean. cbn [mclean_b]. apply andb_true_iff. split; apply mclean_list; assumption. Qed.
Lemma mclean_pattern c o n a mn md : mclean c -> mclean o -> mclean n -> mclean a -> mclean (MPattern c o n a mn md).
Proof. unfold mclean. cbn [mclean_b]. intros -> -> -> ->. reflexivity. Qed.
Lemma mclean_mk_pattern c o n a : mclean c -> mclean o -> mclean n -> mclean a -> mclean (mk_pattern c o n a).
Proof. apply mclean_pattern. Qed.

(* ---- splitting ---------------------------------------------------------------------------------------------------- *)
Lemma split_on_go_clean delim s : forall skip cur acc l, esc_free s -> esc_free cur -> Forall esc_free acc ->
  split_on_go delim s skip cur acc = Ok l -> Forall esc_free l.
Proof.
  induction s as [|c s IH]; intros skip cur acc l Hs Hcur Hacc; cbn [split_on_go].
  - intros E. injection E as <-. apply Forall_app. split; [apply Forall_rev; exact Hacc|].
    constructor; [apply esc_free_strip, esc_free_rev, Hcur|constructor].
  - apply esc_free_cons in Hs. destruct Hs as [Hc Hs].
    assert (Hcc : esc_free (c :: cur)) by (apply esc_free_cons; split; assumption).
    destruct skip as [|k]; [|apply IH; assumption].
    assert (Hcur' : esc_free (if N.eqb c delim then [] else c :: cur)) by (destruct (N.eqb c delim); [reflexivity|exact Hcc]).
    assert (Hacc' : Forall esc_free (if N.eqb c delim then strip (rev cur) :: acc else acc)).
    { destruct (N.eqb c delim); [|exact Hacc]. constructor; [apply esc_free_strip, esc_free_rev, Hcur|exact Hacc]. }
    destruct (is_brace c); [|apply IH; assumption].
    destruct (find_close c (closing_of c) s 1); [|discriminate]. apply IH; assumption.
Qed.

Lemma split_on_clean text delim ae l : esc_free text -> split_on text delim ae = Ok l -> Forall esc_free l.
Proof.
  intros H. unfold split_on.
  assert (G : split_on_go delim text 0 [] [] = Ok l -> Forall esc_free l).
  { apply split_on_go_clean; [exact H|reflexivity|constructor]. }
  destruct (strip text); [destruct ae; [intros E; injection E as <-; constructor|exact G]|exact G].
Qed.

Lemma split_pair_clean text delim a b : esc_free text -> split_pair text delim = Ok (Some (a, b)) -> esc_free a /\ esc_free b.
Proof.
  intros H. unfold split_pair. destruct (split_on text delim false) as [l|e msg] eqn:E; cbn [bind]; [|discriminate].
  apply (split_on_clean _ _ _ _ H) in E. destruct l as [|x [|y [|z l]]]; try discriminate.
  intros E'. injection E' as <- <-. inversion E as [|? ? Hx E2]; subst. inversion E2; subst. split; assumption.
Qed.

Lemma split_peren_clean text a b : esc_free text -> split_peren_at_end text = Ok (Some (a, b)) -> esc_free a /\ esc_free b.
Proof.
  intros H. unfold split_peren_at_end. destruct (split_pair text 40) as [[[x y]|]|e msg] eqn:E; cbn [bind]; try discriminate.
  destruct (split_pair_clean _ _ _ _ H E) as [Hx Hy]. destruct (ends_with [41] y); [|discriminate].
  intros E'. injection E' as <- <-. split; [exact Hx|apply esc_free_removelast; exact Hy].
Qed.

Lemma mapM_clean (f : str -> res mt) ts : (forall t m, esc_free t -> f t = Ok m -> mclean m) ->
  forall ms, Forall esc_free ts -> mapM f ts = Ok ms -> Forall mclean ms.
Proof.
  intros Hf. induction ts as [|t ts IH]; intros ms Ht; cbn [mapM]; [intros E; injection E as <-; constructor|].
  inversion Ht as [|? ? H1 H2]; subst. destruct (f t) as [m|e msg] eqn:E1; cbn [bind]; [|discriminate].
  destruct (mapM f ts) as [r|e msg]; cbn [bind]; [|discriminate]. intros E. injection E as <-.
  constructor; [apply (Hf t m H1 E1)|apply IH; [exact H2|reflexivity]].
Qed.

(* ---- leaf matchers -------------------------------------------------------------------------------------------------- *)
Lemma str_matcher_clean p : esc_free p -> mclean (str_matcher p).
Proof. intros H. unfold str_matcher. destruct (str_eqb p [42]); [reflexivity|]. destruct (mem_char 42 p); exact H. Qed.

Lemma identifier_matcher_clean p m : esc_free p -> identifier_matcher p = Ok m -> mclean m.
Proof. intros H. unfold identifier_matcher. destruct (forallb is_ident_char p); [|discriminate]. intros E. injection E as <-. apply str_matcher_clean, H. Qed.

Lemma parse_int_matcher_clean t m : parse_int_matcher t = Ok m -> mclean m.
Proof.
  unfold parse_int_matcher. destruct (_ || _); [intros E; injection E as <-; reflexivity|].
  destruct (py_int t) as [z|e msg]; [intros E; injection E as <-; apply z_to_dec_esc_free|destruct e; discriminate].
Qed.

Lemma parse_float_matcher_clean t m : parse_float_matcher t = Ok m -> mclean m.
Proof. unfold parse_float_matcher. destruct (py_float t) as [d|e msg]; [intros E; injection E as <-; reflexivity|destruct e; discriminate]. Qed.

Lemma parse_string_matcher_clean t m : esc_free t -> parse_string_matcher t = Ok m -> mclean m.
Proof. intros H. unfold parse_string_matcher. destruct (_ && _); [|discriminate]. intros E. injection E as <-. apply esc_free_strip_ends, H. Qed.

Lemma or_else_clean r k m : (r = Ok m -> mclean m) -> (k tt = Ok m -> mclean m) -> or_else r k = Ok m -> mclean m.
Proof. intros H1 H2. unfold or_else. destruct r as [x|e msg]; [exact H1|]. destruct e; try discriminate. exact H2. Qed.

Section Parser.
Variable rec : pkind -> str -> res mt.
Hypothesis Hrec : forall k t m, esc_free t -> rec k t = Ok m -> mclean m.

Lemma parse_text_matcher_clean t m : esc_free t -> parse_text_matcher rec t = Ok m -> mclean m.
Proof.
  intros H. unfold parse_text_matcher. destruct (bracketed t); [apply Hrec, esc_free_strip_ends, H|].
  destruct t; [intros E; injection E as <-; reflexivity|apply identifier_matcher_clean, H].
Qed.

Lemma parse_obj_id_matcher_clean t m : esc_free t -> parse_obj_id_matcher t = Ok m -> mclean m.
Proof.
  intros H. unfold parse_obj_id_matcher. destruct (str_eqb t (s2l "nil")); [intros E; injection E as <-; reflexivity|].
  unfold trailing_letters.
  assert (Hl : esc_free (rev (take_while is_letter (rev t)))) by (apply esc_free_rev, esc_free_take_while, esc_free_rev, H).
  destruct (rev (take_while is_letter (rev t))) as [|x letters].
  - destruct (parse_int_matcher t) as [a|e msg] eqn:E; cbn [bind]; [|discriminate]. intros E'. injection E' as <-.
    apply mclean_pair; [apply (parse_int_matcher_clean _ _ E)|reflexivity|reflexivity].
  - destruct (parse_int_matcher _) as [a|e msg] eqn:E; cbn [bind]; [|discriminate].
    destruct (letter_id_to_number (x :: letters)) as [g|e msg]; [|discriminate]. intros E'. injection E' as <-.
    apply mclean_pair; [apply (parse_int_matcher_clean _ _ E)|reflexivity|exact Hl].
Qed.

Lemma parse_obj_matcher_clean t m : esc_free t -> parse_obj_matcher rec t = Ok m -> mclean m.
Proof.
  intros H. unfold parse_obj_matcher. destruct (bracketed t); [apply Hrec, esc_free_strip_ends, H|].
  destruct (split_pair t 35) as [h|e msg] eqn:E1; cbn [bind]; [|discriminate].
  assert (Hh : match h with Some (a, b) => esc_free a /\ esc_free b | None => True end).
  { destruct h as [[a b]|]; [apply (split_pair_clean _ _ _ _ H E1)|exact I]. }
  destruct (match h with Some p => Ok (Some p) | None => split_pair t 64 end) as [at_split|e msg] eqn:E2; cbn [bind]; [|discriminate].
  assert (Ha : match at_split with Some (a, b) => esc_free a /\ esc_free b | None => True end).
  { destruct h as [[a b]|]; [injection E2 as <-; exact Hh|]. destruct at_split as [[a b]|]; [apply (split_pair_clean _ _ _ _ H E2)|exact I]. }
  match goal with |- (let '(_, _) := ?x in _) = _ -> _ => assert (Hp : esc_free (fst x) /\ esc_free (snd x)); [|destruct x as [name_text id_text]] end.
  { destruct at_split as [[a b]|]; [exact Ha|]. destruct (str_eqb t (s2l "nil")); [split; [reflexivity|exact H]|].
    destruct t as [|c t']; [split; [exact H|reflexivity]|]. destruct (is_digit c); split; first [exact H|reflexivity]. }
  cbn [fst snd] in Hp. destruct Hp as [Hn Hi].
  destruct name_text as [|x name_text]; destruct id_text as [|y id_text]; try discriminate.
  - intros E. injection E as <-. reflexivity.
  - destruct (parse_obj_id_matcher _) as [i|e msg] eqn:E; cbn [bind]; [|discriminate]. intros E'. injection E' as <-.
    apply (parse_obj_id_matcher_clean _ _ Hi E).
  - destruct (parse_text_matcher rec _) as [tm|e msg] eqn:E; cbn [bind]; [|discriminate]. intros E'. injection E' as <-.
    apply (parse_text_matcher_clean _ _ Hn E).
Qed.

Lemma parse_arg_value_matcher_clean t m : esc_free t -> parse_arg_value_matcher rec t = Ok m -> mclean m.
Proof.
  intros H. unfold parse_arg_value_matcher. destruct (bracketed t); [apply Hrec, esc_free_strip_ends, H|].
  apply or_else_clean.
  { destruct (parse_int_matcher t) as [x|e msg] eqn:E; cbn [bind]; [|discriminate]. intros E'. injection E' as <-. apply (parse_int_matcher_clean _ _ E). }
  apply or_else_clean.
  { destruct (parse_float_matcher t) as [x|e msg] eqn:E; cbn [bind]; [|discriminate]. intros E'. injection E' as <-. apply (parse_float_matcher_clean _ _ E). }
  apply or_else_clean.
  { destruct (parse_string_matcher t) as [x|e msg] eqn:E; cbn [bind]; [|discriminate]. intros E'. injection E' as <-. apply (parse_string_matcher_clean _ _ H E). }
  apply or_else_clean.
  { destruct (str_eqb t (s2l "nil")); [discriminate|].
    destruct (parse_text_matcher rec t) as [x|e msg] eqn:E; cbn [bind]; [|discriminate]. intros E'. injection E' as <-. apply (parse_text_matcher_clean _ _ H E). }
  apply or_else_clean; [|discriminate].
  destruct (parse_obj_matcher rec t) as [x|e msg] eqn:E; cbn [bind]; [|discriminate]. intros E'. injection E' as <-. apply (parse_obj_matcher_clean _ _ H E).
Qed.

Lemma arg_matcher_clean n v : mclean n -> mclean v -> mclean (arg_matcher n v).
Proof. intros Hn Hv. unfold arg_matcher. apply (mclean_pair n [61] v Hn); [reflexivity|exact Hv]. Qed.

Lemma parse_arg_matcher_clean t m : esc_free t -> parse_arg_matcher rec t = Ok m -> mclean m.
Proof.
  intros H. unfold parse_arg_matcher. destruct (bracketed t); [apply Hrec, esc_free_strip_ends, H|].
  destruct (split_pair t 61) as [[[n v]|]|e msg] eqn:E1; cbn [bind]; [| |discriminate].
  - destruct (split_pair_clean _ _ _ _ H E1) as [Hn Hv].
    destruct (parse_text_matcher rec n) as [nm|e msg] eqn:E2; cbn [bind]; [|discriminate].
    destruct (parse_arg_value_matcher rec v) as [vm|e msg] eqn:E3; cbn [bind]; [|discriminate].
    intros E. injection E as <-. apply arg_matcher_clean; [apply (parse_text_matcher_clean _ _ Hn E2)|apply (parse_arg_value_matcher_clean _ _ Hv E3)].
  - destruct (parse_arg_value_matcher rec t) as [vm|e msg] eqn:E3; cbn [bind]; [|discriminate].
    intros E. injection E as <-. apply arg_matcher_clean; [reflexivity|apply (parse_arg_value_matcher_clean _ _ H E3)].
Qed.

Lemma parse_args_list_clean t m : esc_free t -> parse_args_list rec t = Ok m -> mclean m.
Proof.
  intros H. unfold parse_args_list. destruct t as [|c0 t0]; [intros E; injection E as <-; reflexivity|].
  set (t := c0 :: t0) in *.
  destruct (split_pair t 33) as [[[a b]|]|e msg] eqn:E1; cbn [bind]; [| |discriminate].
  - destruct (split_pair_clean _ _ _ _ H E1) as [Ha Hb].
    assert (G : (do pt <- split_on a 44 true; do nt <- split_on b 44 true; do p <- mapM (parse_arg_matcher rec) pt;
                 do n <- mapM (parse_arg_matcher rec) nt; Ok (MArgsList p n)) = Ok m -> mclean m).
    { destruct (split_on a 44 true) as [pt|e msg] eqn:E2; cbn [bind]; [|discriminate].
      destruct (split_on b 44 true) as [nt|e msg] eqn:E3; cbn [bind]; [|discriminate].
      destruct (mapM (parse_arg_matcher rec) pt) as [p|e msg] eqn:E4; cbn [bind]; [|discriminate].
      destruct (mapM (parse_arg_matcher rec) nt) as [n|e msg] eqn:E5; cbn [bind]; [|discriminate].
      intros E. injection E as <-. apply mclean_margs.
      - apply (mapM_clean _ pt parse_arg_matcher_clean p (split_on_clean _ _ _ _ Ha E2) E4).
      - apply (mapM_clean _ nt parse_arg_matcher_clean n (split_on_clean _ _ _ _ Hb E3) E5). }
    destruct (strip a); [destruct (strip b); [intros E; injection E as <-; reflexivity|exact G]|exact G].
  - destruct (split_on t 44 true) as [pt|e msg] eqn:E2; cbn [bind]; [|discriminate].
    destruct (mapM (parse_arg_matcher rec) pt) as [p|e msg] eqn:E4; cbn [bind]; [|discriminate].
    intros E. injection E as <-. apply mclean_margs; [|constructor].
    apply (mapM_clean _ pt parse_arg_matcher_clean p (split_on_clean _ _ _ _ H E2) E4).
Qed.

Lemma parse_message_pattern_clean t m : esc_free t -> parse_message_pattern rec t = Ok m -> mclean m.
Proof.
  intros H. unfold parse_message_pattern. destruct t as [|c0 t0]; [intros E; injection E as <-; reflexivity|].
  set (t := c0 :: t0) in *.
  destruct (split_pair t 58) as [colon|e msg] eqn:E1; cbn [bind]; [|discriminate].
  match goal with |- (let '(_, _) := ?x in _) = _ -> _ => assert (Hp : esc_free (fst x) /\ esc_free (snd x)); [|destruct x as [conn_text message_text]] end.
  { destruct colon as [[c mm]|]; [apply (split_pair_clean _ _ _ _ H E1)|split; [reflexivity|exact H]]. }
  cbn [fst snd] in Hp. destruct Hp as [Hc Hm].
  destruct (split_pair message_text 46) as [dot|e msg] eqn:E2; cbn [bind]; [|discriminate].
  assert (Hfull : forall o n a, esc_free o -> esc_free n -> esc_free a ->
     (do c <- parse_text_matcher rec conn_text; do o' <- parse_obj_matcher rec o; do n' <- parse_text_matcher rec n;
      do a' <- parse_args_list rec a; Ok (mk_pattern (MWrap WConn c) o' n' a')) = Ok m -> mclean m).
  { intros o n a Ho Hn Ha.
    destruct (parse_text_matcher rec conn_text) as [c|e msg] eqn:F1; cbn [bind]; [|discriminate].
    destruct (parse_obj_matcher rec o) as [o'|e msg] eqn:F2; cbn [bind]; [|discriminate].
    destruct (parse_text_matcher rec n) as [n'|e msg] eqn:F3; cbn [bind]; [|discriminate].
    destruct (parse_args_list rec a) as [a'|e msg] eqn:F4; cbn [bind]; [|discriminate].
    intros E. injection E as <-. apply mclean_mk_pattern.
    - apply (parse_text_matcher_clean _ _ Hc F1).
    - apply (parse_obj_matcher_clean _ _ Ho F2).
    - apply (parse_text_matcher_clean _ _ Hn F3).
    - apply (parse_args_list_clean _ _ Ha F4). }
  destruct dot as [[obj_text name_and_arg]|].
  - destruct (split_pair_clean _ _ _ _ Hm E2) as [Ho Hna].
    destruct (split_peren_at_end name_and_arg) as [[[name_text arg_text]|]|e msg] eqn:E3; cbn [bind]; [| |discriminate].
    + destruct (split_peren_clean _ _ _ Hna E3) as [Hn Ha]. apply Hfull; assumption.
    + apply Hfull; [exact Ho|exact Hna|reflexivity].
  - destruct (split_peren_at_end message_text) as [[[obj_text arg_text]|]|e msg] eqn:E3; cbn [bind]; [| |discriminate].
    + destruct (split_peren_clean _ _ _ Hm E3) as [Ho Ha]. apply Hfull; [exact Ho|reflexivity|exact Ha].
    + destruct (parse_text_matcher rec conn_text) as [c|e msg] eqn:F1; cbn [bind]; [|discriminate].
      destruct (parse_obj_matcher rec message_text) as [o|e msg] eqn:F2; cbn [bind]; [|discriminate].
      intros E. injection E as <-.
      pose proof (parse_text_matcher_clean _ _ Hc F1) as Kc. pose proof (parse_obj_matcher_clean _ _ Hm F2) as Ko.
      apply mclean_mlist; [|constructor]. constructor; [|constructor; [|constructor]].
      * apply mclean_mk_pattern; [exact Kc|exact Ko|reflexivity|reflexivity].
      * apply mclean_mk_pattern; [exact Kc|reflexivity|reflexivity|].
        apply mclean_margs; [|constructor]. constructor; [|constructor]. apply arg_matcher_clean; [reflexivity|exact Ko].
Qed.

Lemma parse_item_clean k t m : esc_free t -> parse_item rec k t = Ok m -> mclean m.
Proof.
  intros H. destruct k; cbn [parse_item].
  - apply parse_message_pattern_clean, H.
  - apply parse_arg_matcher_clean, H.
  - apply parse_arg_value_matcher_clean, H.
  - apply parse_text_matcher_clean, H.
  - apply parse_obj_matcher_clean, H.
Qed.

Lemma parse_matcher_list_with_clean k t m : esc_free t -> parse_matcher_list_with rec k t = Ok m -> mclean m.
Proof.
  intros H. unfold parse_matcher_list_with.
  destruct (split_pair t 33) as [[[a b]|]|e msg] eqn:E1; cbn [bind]; [| |discriminate].
  - destruct (split_pair_clean _ _ _ _ H E1) as [Ha Hb].
    destruct (split_on a 44 false) as [pt|e msg] eqn:E2; cbn [bind]; [|discriminate].
    destruct (mapM (parse_item rec k) pt) as [p|e msg] eqn:E4; cbn [bind]; [|discriminate].
    destruct (split_on b 44 false) as [nt|e msg] eqn:E3; cbn [bind]; [|discriminate].
    destruct (mapM (parse_item rec k) nt) as [n|e msg] eqn:E5; cbn [bind]; [|discriminate].
    intros E. injection E as <-. apply mclean_mlist.
    + apply (mapM_clean _ pt (parse_item_clean k) p (split_on_clean _ _ _ _ Ha E2) E4).
    + apply (mapM_clean _ nt (parse_item_clean k) n (split_on_clean _ _ _ _ Hb E3) E5).
  - destruct (split_on t 44 false) as [pt|e msg] eqn:E2; cbn [bind]; [|discriminate].
    destruct (mapM (parse_item rec k) pt) as [p|e msg] eqn:E4; cbn [bind]; [|discriminate].
    pose proof (mapM_clean _ pt (parse_item_clean k) p (split_on_clean _ _ _ _ H E2) E4) as G.
    destruct p as [|x [|y p]]; intros E; injection E as <-.
    + apply mclean_mlist; constructor.
    + inversion G; assumption.
    + apply mclean_mlist; [exact G|constructor].
Qed.
End Parser.

Lemma parse_list_clean fuel : forall k t m, esc_free t -> parse_list fuel k t = Ok m -> mclean m.
Proof.
  induction fuel as [|f IH]; intros k t m H; cbn [parse_list]; [discriminate|].
  apply parse_matcher_list_with_clean; [exact IH|exact H].
Qed.

(* a matcher parsed from text without ESC has no ESC in any of its texts *)
Theorem parse_clean t m : esc_free t -> parse t = Ok m -> mclean m.
Proof.
  intros H. unfold parse. rewrite (no_color_esc_free' t H).
  pose proof (esc_free_strip t H) as Hs. destruct (strip t) as [|c s]; [discriminate|].
  destruct (Nat.ltb _ _); [discriminate|]. apply parse_list_clean. exact Hs.
Qed.
