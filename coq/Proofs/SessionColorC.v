(* C17 lifted to the session, part C: output lines, the relation between the coloured and the plain
   run, connection notices, message lines, the log-mode pipeline. *)
From WD Require Import Base Wire Protocol Conn Color LetterId Matcher MatcherParse Show Session.
From WD Require Import LetterIdProofs ColorProofs ShowProofs MatcherProofs SessionProofs ConnMgrProofs.
From WD Require Import SessionColorA SessionColorB SessionColorJ.
From Coq Require Import Lia.
Open Scope Z_scope.

(* ---- the text of an output line ------------------------------------------------------------------------ *)
(* [fmt] prints the numeric time fields, [any] stands for the text the model does not predict *)
Definition seg_text (fmt : bool -> Z -> list N) (any : list N) (s : seg) : list N :=
  match s with Txt t => t | Time7 z => fmt true z | Time0 z => fmt false z | AnyText => any end.
Definition line_text (fmt : bool -> Z -> list N) (any : list N) (l : line) : list N := flat_map (seg_text fmt any) l.
Definition fmt_ok (fmt : bool -> Z -> list N) : Prop := forall b z, esc_free (fmt b z).

Lemma line_text_app fmt any a b : line_text fmt any (a ++ b) = line_text fmt any a ++ line_text fmt any b.
Proof. unfold line_text. apply flat_map_app. Qed.
Lemma line_text_cons fmt any s l : line_text fmt any (s :: l) = seg_text fmt any s ++ line_text fmt any l.
Proof. reflexivity. Qed.
Lemma line_text_txt fmt any t : line_text fmt any (txt t) = t.
Proof. unfold txt, line_text. cbn [flat_map seg_text]. apply app_nil_r. Qed.

(* coloured line l1, plain line l0: equal once the escape sequences are removed (whatever follows) *)
Definition TextEq (l1 l0 : line) : Prop := forall fmt any, fmt_ok fmt -> TR (line_text fmt any l1) (line_text fmt any l0).

Definition LineStrips (a b : oline) : Prop :=
  match a, b with
  | OOut l1, OOut l0 => TextEq l1 l0
  | OMsg c1 m1 l1, OMsg c0 m0 l0 => c1 = c0 /\ m1 = m0 /\ TextEq l1 l0
  | OErr l1, OErr l0 => TextEq l1 l0
  | OMaybe l1, OMaybe l0 => TextEq l1 l0
  | OAnyLines, OAnyLines => True
  | OExec c1, OExec c0 => c1 = c0
  | OStop b1, OStop b0 => b1 = b0
  | ORaise e1, ORaise e0 => e1 = e0
  | OOM, OOM => True
  | _, _ => False
  end.

Lemma TextEq_refl l : TextEq l l.
Proof. intros fmt any _. apply TR_refl. Qed.
Lemma LineStrips_refl o : LineStrips o o.
Proof. destruct o; cbn; auto using TextEq_refl. Qed.
Lemma Forall2_LineStrips_refl o : Forall2 LineStrips o o.
Proof. induction o; constructor; [apply LineStrips_refl|assumption]. Qed.

Lemma TextEq_txt_TR a b : TR a b -> TextEq (txt a) (txt b).
Proof. intros H fmt any _. rewrite !line_text_txt. exact H. Qed.
Lemma TextEq_txt_Strips a b : Strips a b -> TextEq (txt a) (txt b).
Proof. intros H. apply TextEq_txt_TR, TR_of_Strips, H. Qed.
Lemma TextEq_cons_Strips a b l1 l0 : Strips a b -> TextEq l1 l0 -> TextEq (Txt a :: l1) (Txt b :: l0).
Proof. intros H H' fmt any Hf. rewrite !line_text_cons. cbn [seg_text]. apply TR_Strips_app; [exact H|apply H'; exact Hf]. Qed.

(* a line whose whole text is related by Strips for every way of printing the numbers *)
Lemma TextEq_of_line_str l1 l0 :
  (forall fmt, fmt_ok fmt -> Strips (line_str fmt l1) (line_str fmt l0)) ->
  (forall fmt any, line_text fmt any l1 = line_str fmt l1) -> (forall fmt any, line_text fmt any l0 = line_str fmt l0) ->
  TextEq l1 l0.
Proof. intros H E1 E0 fmt any Hf. rewrite E1, E0. apply TR_of_Strips, H, Hf. Qed.

Ltac F2 := repeat first [apply Forall2_nil | apply Forall2_cons | apply Forall2_app].

(* ---- the two runs -------------------------------------------------------------------------------------- *)
Definition recolor (on : bool) (s : sess) : sess :=
  mkSess (s_conns s) (s_next s) (s_ctrl s) (s_known s) (s_last_time s) (s_parse s) (s_paused s) (s_quit s)
         (s_gdb s) on (s_unprocessed s) (s_in_gdb s).
(* s1: colour on, s0: the same state with colour off *)
Definition SR (s1 s0 : sess) : Prop := s_color s1 = true /\ s0 = recolor false s1.
Definition ColorRel (T1 T0 : top) : Prop := t_base T1 = t_base T0 /\ SR (t_sess T1) (t_sess T0).

Ltac sr H s1 :=
  let Hc := fresh "Hc" in
  destruct H as [Hc ->];
  destruct s1 as [cs nx k kn lt pf pa qt gd col un ig];
  cbn [s_color] in Hc; subst col; unfold recolor;
  cbn [s_conns s_next s_ctrl s_known s_last_time s_parse s_paused s_quit s_gdb s_color s_unprocessed s_in_gdb].

(* ---- names -------------------------------------------------------------------------------------------- *)
Definition good_name (n : list N) : Prop := esc_free n /\ bstart n.

Lemma n2l_loop_range fuel base : forall v acc,
  Forall (fun c => (base <= c <= base + 25)%N) acc -> Forall (fun c => (base <= c <= base + 25)%N) (n2l_loop fuel base v acc).
Proof.
  induction fuel as [|f IH]; intros v acc H; cbn [n2l_loop]; [exact H|].
  destruct (v =? 0)%N; [exact H|]. apply IH. constructor; [|exact H].
  assert (((v - 1) mod 26 < 26)%N) by (apply N.mod_lt; lia). lia.
Qed.

Lemma conn_name_good k : good_name (conn_name k).
Proof.
  unfold conn_name.
  assert (R : Forall (fun c => (65 <= c <= 90)%N) (n2l true k)).
  { unfold n2l. cbn [letter_base]. apply (n2l_loop_range _ 65%N). constructor. }
  assert (Hne : n2l true k <> []).
  { intros E. pose proof (n2l_caps_lower k) as L. rewrite E in L. destruct (n2l_lower_spec k) as (_ & _ & Hn). apply Hn. rewrite <- L. reflexivity. }
  split.
  - unfold esc_free. rewrite forallb_forall. rewrite Forall_forall in R. intros c Hc. specialize (R c Hc).
    apply negb_true_iff. apply N.eqb_neq. lia.
  - destruct (n2l true k) as [|c r]; [congruence|]. inversion R as [|? ? Hc _]; subst. cbn [bstart].
    unfold barrier, is_sgr_body, is_digit, in_range. apply negb_true_iff.
    repeat (apply orb_false_iff; split); try (apply andb_false_iff); try (apply N.eqb_neq; lia).
    right. apply N.leb_gt. lia.
Qed.

(* ---- invariant: recorded names are free of ESC ------------------------------------------------------------ *)
Definition conn_clean (c : connst) : Prop := good_name (c_name c) /\ db_clean (c_db c) /\ Forall rmsg_ok (c_msgs c).
Definition Inv (s : sess) : Prop :=
  Forall conn_clean (s_conns s) /\ Forall (fun p => rmsg_ok (snd p)) (k_all (s_ctrl s)).

Lemma Inv_record s s' : record_of s' = record_of s -> Inv s -> Inv s'.
Proof. unfold record_of. intros E H. injection E as E1 _ E3 _ _. unfold Inv. rewrite E1, E3. exact H. Qed.

Lemma Inv_conn s i c : Inv s -> nth_error (s_conns s) i = Some c -> conn_clean c.
Proof. intros [H _] E. rewrite Forall_forall in H. apply H. eapply nth_error_In; eassumption. Qed.

(* the names the tool gives to connections (A, B, ..., in order: ConnMgrProofs.names_ok) are good *)
Lemma names_ok_good s i c : names_ok s -> nth_error (s_conns s) i = Some c -> good_name (c_name c).
Proof.
  intros [A _] Hk.
  assert (X : nth_error (map c_name (s_conns s)) i = Some (c_name c)) by (rewrite nth_error_map, Hk; reflexivity).
  rewrite A in X. unfold names_list in X. rewrite nth_error_map in X.
  destruct (nth_error (seq 0 (List.length (s_conns s))) i) as [j|]; [|discriminate]. cbn in X. injection X as <-. apply conn_name_good.
Qed.
Lemma names_ok_Forall s : names_ok s -> Forall (fun c => good_name (c_name c)) (s_conns s).
Proof.
  intros H. rewrite Forall_forall. intros c Hc. apply In_nth_error in Hc. destruct Hc as [i Hi]. apply (names_ok_good s i c H Hi).
Qed.

Lemma update_nth_Forall {A} (Q : A -> Prop) f l : forall n, Forall Q l -> (forall x, Q x -> Q (f x)) -> Forall Q (update_nth n f l).
Proof.
  induction l as [|x l IH]; intros n H Hf; [destruct n; constructor|].
  inversion H as [|? ? Hx Hl]; subst. destruct n; cbn [update_nth]; constructor; auto.
Qed.

Lemma update_nth_Forall_at {A} (Q : A -> Prop) f l : forall n x, Forall Q l -> nth_error l n = Some x -> Q (f x) -> Forall Q (update_nth n f l).
Proof.
  induction l as [|y l IH]; intros n x H E Hf; [destruct n; constructor|].
  inversion H as [|? ? Hy Hl]; subst. destruct n; cbn [update_nth nth_error] in *.
  - injection E as ->. constructor; assumption.
  - constructor; [exact Hy|]. eapply IH; eassumption.
Qed.

(* ---- notices ------------------------------------------------------------------------------------------ *)
Lemma Strips_conn_type sv : Strips (conn_type_str true sv) (conn_type_str false sv).
Proof. destruct sv as [[|]|]; cbn [conn_type_str]; [apply Strips_plain; reflexivity|apply Strips_plain; reflexivity|apply Strips_color_plain; reflexivity]. Qed.

Lemma new_conn_line_sim sv name : esc_free name -> LineStrips (new_conn_line true sv name) (new_conn_line false sv name).
Proof.
  intros Hn. unfold new_conn_line. cbn [LineStrips]. apply TextEq_txt_Strips. apply Strips_color; [reflexivity|].
  apply Strips_app; [apply Strips_plain; reflexivity|]. apply Strips_app; [apply Strips_conn_type|].
  apply Strips_app; [apply Strips_plain; reflexivity|apply Strips_plain; exact Hn].
Qed.

Lemma closed_conn_line_sim sv name : esc_free name -> LineStrips (closed_conn_line true sv name) (closed_conn_line false sv name).
Proof.
  intros Hn. unfold closed_conn_line. cbn [LineStrips]. apply TextEq_txt_Strips. apply Strips_color; [reflexivity|].
  apply Strips_app; [apply Strips_plain; reflexivity|]. apply Strips_app; [apply Strips_conn_type|].
  apply Strips_app; [apply Strips_plain; reflexivity|apply Strips_plain; exact Hn].
Qed.

Lemma error_line_sim l1 l0 : TextEq l1 l0 -> LineStrips (error_line true l1) (error_line false l0).
Proof. intros H. unfold error_line. cbn [LineStrips]. apply TextEq_cons_Strips; [apply Strips_color_plain; reflexivity|exact H]. Qed.
Lemma warn_line_sim l1 l0 : TextEq l1 l0 -> LineStrips (warn_line true l1) (warn_line false l0).
Proof. intros H. unfold warn_line. cbn [LineStrips]. apply TextEq_cons_Strips; [apply Strips_color_plain; reflexivity|exact H]. Qed.

(* ---- ConnectionManager --------------------------------------------------------------------------------- *)
Lemma close_conn_sim s1 s0 id : SR s1 s0 -> names_ok s1 ->
  SR (fst (close_conn s1 id)) (fst (close_conn s0 id)) /\ Forall2 LineStrips (snd (close_conn s1 id)) (snd (close_conn s0 id)).
Proof.
  intros H HI. pose proof (fun i c => names_ok_good s1 i c HI) as HC. sr H s1. unfold close_conn, find_open. cbn [s_conns s_color] in *.
  destruct (find_open_from 0 cs id) as [i|]; [|split; [split; reflexivity|constructor]].
  destruct (nth_error cs i) as [c|] eqn:E; [|split; [split; reflexivity|constructor]].
  cbn [fst snd]. split; [split; reflexivity|]. F2. apply closed_conn_line_sim. apply (HC i c E).
Qed.

Lemma close_conn_inv s id : Inv s -> Inv (fst (close_conn s id)).
Proof.
  intros [H1 H2]. unfold close_conn. destruct (find_open s id) as [i|]; [|split; assumption].
  destruct (nth_error (s_conns s) i) as [c|]; [|split; assumption]. cbn [fst]. split; [|exact H2].
  cbn [set_conns s_conns]. apply update_nth_Forall; [exact H1|]. intros x Hx. exact Hx.
Qed.

Lemma open_conn_sim s1 s0 id sv : SR s1 s0 -> names_ok s1 ->
  SR (fst (open_conn s1 id sv)) (fst (open_conn s0 id sv)) /\ Forall2 LineStrips (snd (open_conn s1 id sv)) (snd (open_conn s0 id sv)).
Proof.
  intros H HI. unfold open_conn. destruct (close_conn_sim s1 s0 id H HI) as [H1 H2].
  destruct (close_conn s1 id) as [s1' o1]. destruct (close_conn s0 id) as [s0' o0]. cbn [fst snd] in *.
  sr H1 s1'. cbn [fst snd]. split; [split; reflexivity|]. F2; [exact H2|]. apply new_conn_line_sim. apply conn_name_good.
Qed.

Lemma open_conn_inv s id sv : Inv s -> Inv (fst (open_conn s id sv)).
Proof.
  intros H. unfold open_conn. pose proof (close_conn_inv s id H) as G. destruct (close_conn s id) as [s1 o1]. cbn [fst] in *.
  destruct G as [G1 G2]. split; [|exact G2]. cbn [s_conns]. apply Forall_app. split; [exact G1|]. constructor; [|constructor].
  split; [apply conn_name_good|]. split; [apply db_clean_init|constructor].
Qed.

(* ---- message lines -------------------------------------------------------------------------------------- *)
Lemma line_text_no_any fmt any l : Forall (fun s => s <> AnyText) l -> line_text fmt any l = line_str fmt l.
Proof.
  induction 1 as [|s l Hs _ IH]; [reflexivity|]. unfold line_text, line_str in *. cbn [flat_map]. rewrite IH. f_equal.
  destruct s; try reflexivity. congruence.
Qed.

Lemma show_msg_body_no_any on d m : Forall (fun s => s <> AnyText) (show_msg_body on d m).
Proof.
  unfold show_msg_body. repeat (apply Forall_app; split); repeat constructor; try discriminate.
  destruct (m_destroyed m) as [r|]; [|constructor]. apply Forall_app; split; [repeat constructor; discriminate|].
  destruct (lifespan d r); repeat constructor; discriminate.
Qed.

Lemma show_msg_no_any on d cn m : Forall (fun s => s <> AnyText) (show_msg on d cn m).
Proof. unfold show_msg. apply Forall_app; split; [repeat constructor; discriminate|apply show_msg_body_no_any]. Qed.

Lemma TextEq_of_line_str_TR l1 l0 :
  (forall fmt, fmt_ok fmt -> TR (line_str fmt l1) (line_str fmt l0)) ->
  (forall fmt any, line_text fmt any l1 = line_str fmt l1) -> (forall fmt any, line_text fmt any l0 = line_str fmt l0) ->
  TextEq l1 l0.
Proof. intros H E1 E0 fmt any Hf. rewrite E1, E0. apply H, Hf. Qed.

(* message lines: no hypothesis at all on the message, the object table or the connection name *)
Lemma show_msg_sim d cn m : TextEq (show_msg true d cn m) (show_msg false d cn m).
Proof.
  apply TextEq_of_line_str_TR.
  - intros fmt Hf. apply show_msg_TR. exact Hf.
  - intros fmt any. apply line_text_no_any, show_msg_no_any.
  - intros fmt any. apply line_text_no_any, show_msg_no_any.
Qed.

Lemma show_msg_body_sim d m : TextEq (show_msg_body true d m) (show_msg_body false d m).
Proof.
  apply TextEq_of_line_str_TR.
  - intros fmt Hf. apply show_msg_body_TR. exact Hf.
  - intros fmt any. apply line_text_no_any, show_msg_body_no_any.
  - intros fmt any. apply line_text_no_any, show_msg_body_no_any.
Qed.

Lemma sep_line_sim delta : TextEq (sep_line true delta) (sep_line false delta).
Proof.
  intros fmt any Hf. apply TR_of_Strips. unfold sep_line, line_text. cbn [flat_map seg_text]. rewrite !app_nil_r, !app_nil_l.
  apply Strips_pre; [apply Strips_csi; reflexivity|].
  apply Strips_app; [apply Strips_plain; reflexivity|]. apply Strips_app; [apply Strips_plain; apply Hf|].
  apply Strips_post; [apply Strips_plain; reflexivity|apply Strips_csi; reflexivity].
Qed.

Lemma show_message_sim ci d cn last m :
  snd (show_message true ci d cn last m) = snd (show_message false ci d cn last m) /\
  Forall2 LineStrips (fst (show_message true ci d cn last m)) (fst (show_message false ci d cn last m)).
Proof.
  unfold show_message. cbn [fst snd]. split; [reflexivity|].
  F2; [|cbn [LineStrips]; repeat split; apply show_msg_sim].
  destruct (1000000 <? _); [F2; apply sep_line_sim|]. destruct (_ =? 1000000); F2. apply sep_line_sim.
Qed.

Lemma ctrl_on_message_sim k ci d cn m :
  fst (fst (ctrl_on_message true k ci d cn m)) = fst (fst (ctrl_on_message false k ci d cn m)) /\
  snd (ctrl_on_message true k ci d cn m) = snd (ctrl_on_message false k ci d cn m) /\
  Forall2 LineStrips (snd (fst (ctrl_on_message true k ci d cn m))) (snd (fst (ctrl_on_message false k ci d cn m))).
Proof.
  unfold ctrl_on_message.
  destruct (match k_current k with Some j => Nat.eqb j ci | None => true end); [|cbn [fst snd]; repeat split; constructor].
  assert (G : snd (if matches (k_display k) (VM (view_msg d cn m)) then show_message true ci d cn (k_last_shown k) m else ([], k_last_shown k))
            = snd (if matches (k_display k) (VM (view_msg d cn m)) then show_message false ci d cn (k_last_shown k) m else ([], k_last_shown k)) /\
           Forall2 LineStrips (fst (if matches (k_display k) (VM (view_msg d cn m)) then show_message true ci d cn (k_last_shown k) m else ([], k_last_shown k)))
            (fst (if matches (k_display k) (VM (view_msg d cn m)) then show_message false ci d cn (k_last_shown k) m else ([], k_last_shown k)))).
  { destruct (matches (k_display k) _); [apply show_message_sim|split; [reflexivity|constructor]]. }
  destruct (if matches (k_display k) (VM (view_msg d cn m)) then show_message true ci d cn (k_last_shown k) m else ([], k_last_shown k)) as [o1 l1].
  destruct (if matches (k_display k) (VM (view_msg d cn m)) then show_message false ci d cn (k_last_shown k) m else ([], k_last_shown k)) as [o0 l0].
  cbn [fst snd] in *. destruct G as [-> G]. repeat split. F2; [exact G|].
  destruct (matches (k_stop k) _); F2. cbn [LineStrips].
  apply TextEq_cons_Strips; [apply Strips_color_plain; reflexivity|apply show_msg_body_sim].
Qed.

Lemma ctrl_on_message_all on k ci d cn m : k_all (fst (fst (ctrl_on_message on k ci d cn m))) = k_all k ++ [(ci, m)].
Proof.
  unfold ctrl_on_message. destruct (match k_current k with Some j => Nat.eqb j ci | None => true end); [|reflexivity].
  destruct (if matches (k_display k) _ then _ else _). reflexivity.
Qed.

Lemma title_update_fields c m : c_name (title_update c m) = c_name c /\ c_db (title_update c m) = c_db c /\ c_msgs (title_update c m) = c_msgs c.
Proof.
  unfold title_update.
  repeat match goal with |- context [match ?x with _ => _ end] => destruct x end; repeat split; reflexivity.
Qed.

(* ---- ConnectionImpl.message --------------------------------------------------------------------------- *)
Section WithP.
Variable P : pdb.
Hypothesis HP : pdb_clean P.

Lemma conn_message_sim s1 s0 id rel m : SR s1 s0 ->
  SR (fst (fst (fst (conn_message P s1 id rel m)))) (fst (fst (fst (conn_message P s0 id rel m)))) /\
  Forall2 LineStrips (snd (fst (fst (conn_message P s1 id rel m)))) (snd (fst (fst (conn_message P s0 id rel m)))) /\
  snd (fst (conn_message P s1 id rel m)) = snd (fst (conn_message P s0 id rel m)) /\
  snd (conn_message P s1 id rel m) = snd (conn_message P s0 id rel m).
Proof.
  intros H. sr H s1.
  unfold conn_message, find_open. cbn [s_conns s_color s_ctrl] in *.
  destruct (find_open_from 0 cs id) as [i|]; [|cbn [fst snd]; repeat split; constructor].
  destruct (nth_error cs i) as [c|] eqn:E; [|cbn [fst snd]; repeat split; constructor].
  destruct (resolve_msg P (c_db c) rel m) as [[d' rm] err] eqn:Er.
  destruct err as [e|]; [cbn [fst snd]; repeat split; constructor|].
  destruct (ctrl_on_message_sim k i d' (c_name c) rm) as (G1 & G2 & G3).
  destruct (ctrl_on_message true k i d' (c_name c) rm) as [[k1 o1] st1].
  destruct (ctrl_on_message false k i d' (c_name c) rm) as [[k0 o0] st0].
  cbn [fst snd] in *. subst k0 st0.
  split; [split; destruct st1; reflexivity|]. split; [exact G3|]. split; reflexivity.
Qed.

Lemma conn_message_inv s id rel m : Inv s -> pmsg_ok m -> Inv (fst (fst (fst (conn_message P s id rel m)))).
Proof.
  intros HI Hm. pose proof (fun i c => Inv_conn s i c HI) as HC. destruct HI as [H1 H2].
  unfold conn_message. destruct (find_open s id) as [i|]; [|split; assumption].
  destruct (nth_error (s_conns s) i) as [c|] eqn:E; [|split; assumption].
  destruct (HC i c E) as (Hn & Hd & Hms).
  destruct (resolve_msg P (c_db c) rel m) as [[d' rm] err] eqn:Er.
  destruct (resolve_msg_clean _ _ _ _ _ _ _ HP Hd Hm Er) as [Hd' Hrm].
  assert (Hc1 : conn_clean (mkConn (c_id c) (c_name c) (c_server c) (c_open c) (c_title c) (c_app_id c) d' (c_msgs c ++ [rm]))).
  { split; [exact Hn|]. split; [exact Hd'|]. cbn [c_msgs]. apply Forall_app. split; [exact Hms|constructor; [exact Hrm|constructor]]. }
  destruct err as [e|].
  - cbn [fst]. split; [|exact H2]. cbn [set_conns s_conns]. eapply update_nth_Forall_at; eassumption.
  - pose proof (ctrl_on_message_all (s_color s) (s_ctrl s) i d' (c_name c) rm) as Ha.
    destruct (ctrl_on_message (s_color s) (s_ctrl s) i d' (c_name c) rm) as [[k' outs] stop]. cbn [fst snd] in *.
    assert (G : Inv (set_ctrl (set_conns s (update_nth i (fun _ => title_update (mkConn (c_id c) (c_name c) (c_server c) (c_open c) (c_title c) (c_app_id c) d' (c_msgs c ++ [rm])) rm) (s_conns s))) k')).
    { split; cbn [set_ctrl set_conns s_conns s_ctrl].
      - eapply update_nth_Forall_at; [exact H1|exact E|].
        destruct (title_update_fields (mkConn (c_id c) (c_name c) (c_server c) (c_open c) (c_title c) (c_app_id c) d' (c_msgs c ++ [rm])) rm) as (F1 & F2 & F3).
        unfold conn_clean. rewrite F1, F2, F3. exact Hc1.
      - rewrite Ha. apply Forall_app. split; [exact H2|constructor; [exact Hrm|constructor]]. }
    destruct stop; exact G.
Qed.

Ltac sr' H s1 :=
  let Hc := fresh "Hc" in let col := fresh "col" in
  let cs := fresh "cs" in let nx := fresh "nx" in let k := fresh "k" in let kn := fresh "kn" in let lt := fresh "lt" in
  let pf := fresh "pf" in let pa := fresh "pa" in let qt := fresh "qt" in let gd := fresh "gd" in
  let un := fresh "un" in let ig := fresh "ig" in
  destruct H as [Hc ->];
  destruct s1 as [cs nx k kn lt pf pa qt gd col un ig];
  cbn [s_color] in Hc; subst col; unfold recolor;
  cbn [s_conns s_next s_ctrl s_known s_last_time s_parse s_paused s_quit s_gdb s_color s_unprocessed s_in_gdb].

Lemma Inv_same s s' : s_conns s' = s_conns s -> s_ctrl s' = s_ctrl s -> Inv s -> Inv s'.
Proof. intros E1 E2 H. unfold Inv. rewrite E1, E2. exact H. Qed.

Lemma TR_color_none t : TR (color true symbol_color t) (color false symbol_color t).
Proof.
  rewrite color_off. destruct t as [|x t]; [apply TR_refl|]. unfold color, symbol_color. rewrite app_nil_r.
  apply (TR_Strips_app reset [] (x :: t) (x :: t)); [apply Strips_csi; reflexivity|apply TR_refl].
Qed.

Lemma unprocessed_line_sim s1 s0 t : SR s1 s0 -> Forall2 LineStrips (unprocessed_line s1 t) (unprocessed_line s0 t).
Proof.
  intros H. sr' H s1. unfold unprocessed_line. cbn [s_unprocessed s_color].
  match goal with |- context [if ?b then _ else _] => destruct b end; F2.
  cbn [LineStrips]. apply TextEq_txt_TR. apply TR_color_none.
Qed.


(* ---- Parser: one decoded line ----------------------------------------------------------------------------- *)
Definition with_time (s : sess) (rel : Z) : sess :=
  mkSess (s_conns s) (s_next s) (s_ctrl s) (s_known s) rel (s_parse s) (s_paused s) (s_quit s) (s_gdb s) (s_color s) (s_unprocessed s) (s_in_gdb s).
Definition log_open (s1 : sess) (id : str) (m : pmsg) : sess * list oline :=
  if existsb (str_eqb id) (s_known s1) then (s1, [])
  else
    let '(sa, oa) := open_conn s1 id (is_get_registry m) in
    (mkSess (s_conns sa) (s_next sa) (s_ctrl sa) (s_known sa ++ [id]) (s_last_time sa) (s_parse sa) (s_paused sa) (s_quit sa) (s_gdb sa) (s_color sa) (s_unprocessed sa) (s_in_gdb sa), oa).
Definition stop_parsing (s : sess) : sess :=
  mkSess (s_conns s) (s_next s) (s_ctrl s) (s_known s) (s_last_time s) false (s_paused s) (s_quit s) (s_gdb s) (s_color s) (s_unprocessed s) (s_in_gdb s).

Lemma log_message_eq s0 id rel m : log_message P s0 id rel m =
  if negb (s_parse s0) then (s0, []) else
  let '(s2, o1) := log_open (with_time s0 rel) id m in
  let '(s3, o2, err, _) := conn_message P s2 id rel m in
  match err with
  | None => (s3, o1 ++ o2)
  | Some (RuntimeError, msg) => (s3, o1 ++ o2 ++ unprocessed_line s3 msg)
  | Some (_, _) => (stop_parsing s3, o1 ++ o2 ++ [OOut [AnyText]; error_line (s_color s3) [AnyText]])
  end.
Proof. reflexivity. Qed.

Lemma log_open_names s id m : names_ok s -> names_ok (fst (log_open s id m)).
Proof.
  intros HI. unfold log_open. destruct (existsb (str_eqb id) (s_known s)); [exact HI|].
  pose proof (open_conn_names s id (is_get_registry m) HI) as G. destruct (open_conn s id (is_get_registry m)) as [sa oa].
  cbn [fst] in *. exact G.
Qed.

Lemma log_open_sim s1 s0 id m : SR s1 s0 -> names_ok s1 ->
  SR (fst (log_open s1 id m)) (fst (log_open s0 id m)) /\ Forall2 LineStrips (snd (log_open s1 id m)) (snd (log_open s0 id m)).
Proof.
  intros H HI. unfold log_open.
  assert (Hk : s_known s0 = s_known s1) by (destruct H as [_ ->]; reflexivity). rewrite Hk.
  destruct (existsb (str_eqb id) (s_known s1)); [split; [exact H|constructor]|].
  destruct (open_conn_sim s1 s0 id (is_get_registry m) H HI) as [G1 G2].
  destruct (open_conn s1 id (is_get_registry m)) as [sa1 oa1]. destruct (open_conn s0 id (is_get_registry m)) as [sa0 oa0].
  cbn [fst snd] in *. split; [|exact G2]. sr' G1 sa1. split; reflexivity.
Qed.

Lemma log_open_inv s id m : Inv s -> Inv (fst (log_open s id m)).
Proof.
  intros HI. unfold log_open. destruct (existsb (str_eqb id) (s_known s)); [exact HI|].
  pose proof (open_conn_inv s id (is_get_registry m) HI) as G. destruct (open_conn s id (is_get_registry m)) as [sa oa].
  cbn [fst] in *. exact G.
Qed.

Lemma log_message_sim s1 s0 id rel m : SR s1 s0 -> names_ok s1 ->
  SR (fst (log_message P s1 id rel m)) (fst (log_message P s0 id rel m)) /\
  Forall2 LineStrips (snd (log_message P s1 id rel m)) (snd (log_message P s0 id rel m)).
Proof.
  intros H HI. rewrite !log_message_eq.
  assert (Hp : s_parse s0 = s_parse s1) by (destruct H as [_ ->]; reflexivity). rewrite Hp.
  destruct (s_parse s1); cbn [negb]; [|split; [exact H|constructor]].
  assert (H' : SR (with_time s1 rel) (with_time s0 rel)) by (sr' H s1; split; reflexivity).
  assert (HI' : names_ok (with_time s1 rel)) by (exact HI).
  destruct (log_open_sim _ _ id m H' HI') as [G1 G2].
  destruct (log_open (with_time s1 rel) id m) as [s21 o11]. destruct (log_open (with_time s0 rel) id m) as [s20 o10].
  cbn [fst snd] in *.
  destruct (conn_message_sim s21 s20 id rel m G1) as (K1 & K2 & K3 & K4).
  destruct (conn_message P s21 id rel m) as [[[s31 o21] err1] st1]. destruct (conn_message P s20 id rel m) as [[[s30 o20] err0] st0].
  cbn [fst snd] in *. subst err0 st0.
  destruct err1 as [[e msg]|]; [|cbn [fst snd]; split; [exact K1|F2; assumption]].
  assert (Hstop : SR (stop_parsing s31) (stop_parsing s30)) by (sr' K1 s31; split; reflexivity).
  assert (Hcol : s_color s31 = true /\ s_color s30 = false) by (sr' K1 s31; split; reflexivity). destruct Hcol as [C1 C0].
  assert (Herr : Forall2 LineStrips (o11 ++ o21 ++ [OOut [AnyText]; error_line (s_color s31) [AnyText]])
                                    (o10 ++ o20 ++ [OOut [AnyText]; error_line (s_color s30) [AnyText]])).
  { rewrite C1, C0. F2; try assumption; [apply TextEq_refl|apply error_line_sim, TextEq_refl]. }
  destruct e; cbn [fst snd]; try (split; [exact Hstop|exact Herr]).
  split; [exact K1|]. F2; try assumption. apply unprocessed_line_sim. exact K1.
Qed.

Lemma log_message_inv s id rel m : Inv s -> pmsg_ok m -> Inv (fst (log_message P s id rel m)).
Proof.
  intros HI Hm. rewrite log_message_eq. destruct (s_parse s); cbn [negb]; [|exact HI].
  assert (HI' : Inv (with_time s rel)) by (exact HI).
  pose proof (log_open_inv _ id m HI') as G3. destruct (log_open (with_time s rel) id m) as [s2 o1]. cbn [fst] in G3.
  pose proof (conn_message_inv s2 id rel m G3 Hm) as G4. destruct (conn_message P s2 id rel m) as [[[s3 o2] err] st]. cbn [fst] in G4.
  destruct err as [[e msg]|]; [|exact G4]. destruct e; exact G4.
Qed.

(* ---- Parser.cleanup ---------------------------------------------------------------------------------------- *)
Lemma log_eof_fold_sim ids : forall s1 s0 o1 o0, SR s1 s0 -> names_ok s1 -> Forall2 LineStrips o1 o0 ->
  let r1 := fold_left (fun acc id => let '(s', o') := close_conn (fst acc) id in (s', snd acc ++ o')) ids (s1, o1) in
  let r0 := fold_left (fun acc id => let '(s', o') := close_conn (fst acc) id in (s', snd acc ++ o')) ids (s0, o0) in
  SR (fst r1) (fst r0) /\ names_ok (fst r1) /\ Forall2 LineStrips (snd r1) (snd r0).
Proof.
  induction ids as [|id ids IH]; intros s1 s0 o1 o0 H HI Ho; cbn [fold_left fst snd]; [auto|].
  destruct (close_conn_sim s1 s0 id H HI) as [G1 G2]. pose proof (close_conn_names s1 id HI) as G3.
  destruct (close_conn s1 id) as [s1' c1]. destruct (close_conn s0 id) as [s0' c0]. cbn [fst snd] in *.
  apply IH; [exact G1|exact G3|F2; assumption].
Qed.

Lemma log_eof_sim s1 s0 : SR s1 s0 -> names_ok s1 ->
  SR (fst (log_eof s1)) (fst (log_eof s0)) /\ Forall2 LineStrips (snd (log_eof s1)) (snd (log_eof s0)).
Proof.
  intros H HI. unfold log_eof.
  assert (Hk : s_known s0 = s_known s1) by (destruct H as [_ ->]; reflexivity). rewrite Hk.
  destruct (log_eof_fold_sim (s_known s1) s1 s0 [] [] H HI (Forall2_nil _)) as (G1 & _ & G2). split; assumption.
Qed.

Lemma log_eof_fold_inv ids : forall s o, Inv s ->
  Inv (fst (fold_left (fun acc id => let '(s', o') := close_conn (fst acc) id in (s', snd acc ++ o')) ids (s, o))).
Proof.
  induction ids as [|id ids IH]; intros s o HI; cbn [fold_left fst snd]; [exact HI|].
  pose proof (close_conn_inv s id HI) as G. destruct (close_conn s id) as [s' c]. cbn [fst] in G. apply IH. exact G.
Qed.

Lemma log_eof_inv s : Inv s -> Inv (fst (log_eof s)).
Proof. intros HI. unfold log_eof. apply log_eof_fold_inv. exact HI. Qed.

End WithP.
