(* DocSemLevels.v — the simplified elaborated matcher means what the documentation says, level by
   level: text, object, argument value, argument item (T2, lower levels; no side condition needed
   here).  The argument-list, pattern and top levels are in DocSemTop.v. *)
From WD Require Import Base Wire Conn Color LetterId Matcher MatcherParse Doc.
From WD Require Import MatcherProofs.
Open Scope Z_scope.

(* ---- small list facts ---------------------------------------------------------------------------- *)
Lemma ds_str_eqb_eq a : forall b, str_eqb a b = true <-> a = b.
Proof.
  unfold str_eqb. induction a as [|x a IH]; intros [|y b]; cbn; split; intros H; try discriminate; try reflexivity.
  - apply andb_true_iff in H. destruct H as [H1 H2]. apply N.eqb_eq in H1. apply IH in H2. subst. reflexivity.
  - injection H as -> ->. rewrite N.eqb_refl. cbn. apply IH. reflexivity.
Qed.

Lemma existsb_ext_in {A} (f g : A -> bool) l :
  (forall x, In x l -> f x = g x) -> existsb f l = existsb g l.
Proof.
  induction l as [|x l IH]; intros H; [reflexivity|]. cbn [existsb].
  rewrite (H x (or_introl eq_refl)), IH; [reflexivity|]. intros y Hy. apply H. right. exact Hy.
Qed.

Lemma forallb_ext_in {A} (f g : A -> bool) l :
  (forall x, In x l -> f x = g x) -> forallb f l = forallb g l.
Proof.
  induction l as [|x l IH]; intros H; [reflexivity|]. cbn [forallb].
  rewrite (H x (or_introl eq_refl)), IH; [reflexivity|]. intros y Hy. apply H. right. exact Hy.
Qed.

Lemma forallb_map {A B} (f : B -> bool) (g : A -> B) l : forallb f (map g l) = forallb (fun x => f (g x)) l.
Proof. induction l as [|x l IH]; [reflexivity|]. cbn. rewrite IH. reflexivity. Qed.

Lemma existsb_const_false {A} (f : A -> bool) l : (forall x, In x l -> f x = false) -> existsb f l = false.
Proof.
  induction l as [|x l IH]; intros H; [reflexivity|]. cbn [existsb].
  rewrite (H x (or_introl eq_refl)), IH; [reflexivity|]. intros y Hy. apply H. right. exact Hy.
Qed.

Lemma forallb_in {A} (f : A -> bool) l x : forallb f l = true -> In x l -> f x = true.
Proof. intros H Hin. rewrite forallb_forall in H. apply H. exact Hin. Qed.

(* ---- list_or_single: the bracketed list, before and after simplification ---------------------------- *)
Definition list_ne {A} (pos neg : list A) : bool := match pos, neg with [], [] => false | _, _ => true end.

Lemma list_or_single_sem ps ns v :
  list_ne ps ns = true ->
  matches (list_or_single ps ns) v =
  (match ps with [] => true | _ => existsb (fun p => matches p v) ps end)
  && negb (existsb (fun n => matches n v) ns).
Proof.
  intros Hne. unfold list_or_single. destruct ns as [|n ns].
  - destruct ps as [|x [|y ps]]; [discriminate| |].
    + cbn [existsb negb]. rewrite orb_false_r, andb_true_r. reflexivity.
    + reflexivity.
  - destruct ps as [|x ps]; reflexivity.
Qed.

Lemma list_or_single_simp_sem ps ns v :
  list_ne ps ns = true ->
  matches (simplify (list_or_single ps ns)) v =
  (match ps with [] => true | _ => existsb (fun p => matches (simplify p) v) ps end)
  && negb (existsb (fun n => matches (simplify n) v) ns).
Proof.
  intros Hne. unfold list_or_single. destruct ns as [|n ns].
  - destruct ps as [|x [|y ps]]; [discriminate| |].
    + cbn [existsb negb]. rewrite orb_false_r, andb_true_r. reflexivity.
    + apply simplify_list_sem.
  - rewrite simplify_list_sem. destruct ps as [|x ps]; reflexivity.
Qed.

(* the documented list meaning from the per-element meaning *)
Lemma den_list_simp_sem {A} (el : A -> mt) (den : A -> bool) v pos neg :
  list_ne pos neg = true ->
  (forall x, In x pos -> matches (simplify (el x)) v = den x) ->
  (forall x, In x neg -> matches (simplify (el x)) v = den x) ->
  matches (simplify (list_or_single (map el pos) (map el neg))) v = den_list den pos neg.
Proof.
  intros Hne HP HN. rewrite list_or_single_simp_sem.
  - unfold den_list. rewrite !existsb_map.
    rewrite (existsb_ext_in _ den pos HP), (existsb_ext_in _ den neg HN).
    destruct pos; reflexivity.
  - destruct pos, neg; try reflexivity; discriminate.
Qed.

Lemma den_list_sem {A} (el : A -> mt) (den : A -> bool) v pos neg :
  list_ne pos neg = true ->
  (forall x, In x pos -> matches (el x) v = den x) ->
  (forall x, In x neg -> matches (el x) v = den x) ->
  matches (list_or_single (map el pos) (map el neg)) v = den_list den pos neg.
Proof.
  intros Hne HP HN. rewrite list_or_single_sem.
  - unfold den_list. rewrite !existsb_map.
    rewrite (existsb_ext_in _ den pos HP), (existsb_ext_in _ den neg HN).
    destruct pos; reflexivity.
  - destruct pos, neg; try reflexivity; discriminate.
Qed.

(* well-formed lists: the three facts *)
Lemma wf_list_split {A} (wf : A -> bool) pos neg :
  forallb wf pos && forallb wf neg && match pos, neg with [], [] => false | _, _ => true end = true ->
  (forall x, In x pos -> wf x = true) /\ (forall x, In x neg -> wf x = true) /\ list_ne pos neg = true.
Proof.
  intros H. apply andb_true_iff in H. destruct H as [H H3]. apply andb_true_iff in H. destruct H as [H1 H2].
  split; [|split].
  - intros x Hx. exact (forallb_in _ _ _ H1 Hx).
  - intros x Hx. exact (forallb_in _ _ _ H2 Hx).
  - exact H3.
Qed.

(* ---- induction principles for the nested syntax ---------------------------------------------------- *)
Section DtextInd.
Variable Q : dtext -> Prop.
Hypothesis Hw : forall w, Q (TWord w).
Hypothesis Hl : forall pos neg, Forall Q pos -> Forall Q neg -> Q (TList pos neg).
Fixpoint dtext_ind' (t : dtext) : Q t :=
  match t with
  | TWord w => Hw w
  | TList pos neg =>
      Hl pos neg
        ((fix go (l : list dtext) : Forall Q l :=
            match l with [] => Forall_nil Q | x :: l' => Forall_cons x (dtext_ind' x) (go l') end) pos)
        ((fix go (l : list dtext) : Forall Q l :=
            match l with [] => Forall_nil Q | x :: l' => Forall_cons x (dtext_ind' x) (go l') end) neg)
  end.
End DtextInd.

Section DobjInd.
Variable Q : dobj -> Prop.
Hypothesis Hany : Q OAny.
Hypothesis Htype : forall w, Q (OType w).
Hypothesis Hid : forall a id l, Q (OId a id l).
Hypothesis Hnil : Q ONil.
Hypothesis Hl : forall pos neg, Forall Q pos -> Forall Q neg -> Q (OList pos neg).
Fixpoint dobj_ind' (t : dobj) : Q t :=
  match t with
  | OAny => Hany
  | OType w => Htype w
  | OId a id l => Hid a id l
  | ONil => Hnil
  | OList pos neg =>
      Hl pos neg
        ((fix go (l : list dobj) : Forall Q l :=
            match l with [] => Forall_nil Q | x :: l' => Forall_cons x (dobj_ind' x) (go l') end) pos)
        ((fix go (l : list dobj) : Forall Q l :=
            match l with [] => Forall_nil Q | x :: l' => Forall_cons x (dobj_ind' x) (go l') end) neg)
  end.
End DobjInd.

Section DvalInd.
Variable Q : dval -> Prop.
Hypothesis Hany : Q VAny.
Hypothesis Hint : forall z, Q (VInt z).
Hypothesis Hfloat : forall n ip fp, Q (VFloat n ip fp).
Hypothesis Hstr : forall s, Q (VStr s).
Hypothesis Hword : forall w, Q (VWord w).
Hypothesis Hobj : forall c id l, Q (VObj c id l).
Hypothesis Hnil : Q VNil.
Hypothesis Hl : forall pos neg, Forall Q pos -> Forall Q neg -> Q (VList pos neg).
Fixpoint dval_ind' (t : dval) : Q t :=
  match t with
  | VAny => Hany
  | VInt z => Hint z
  | VFloat n ip fp => Hfloat n ip fp
  | VStr s => Hstr s
  | VWord w => Hword w
  | VObj c id l => Hobj c id l
  | VNil => Hnil
  | VList pos neg =>
      Hl pos neg
        ((fix go (l : list dval) : Forall Q l :=
            match l with [] => Forall_nil Q | x :: l' => Forall_cons x (dval_ind' x) (go l') end) pos)
        ((fix go (l : list dval) : Forall Q l :=
            match l with [] => Forall_nil Q | x :: l' => Forall_cons x (dval_ind' x) (go l') end) neg)
  end.
End DvalInd.

Section DitemInd.
Variable Q : ditem -> Prop.
Hypothesis Hitem : forall name v, Q (IItem name v).
Hypothesis Hl : forall pos neg, Forall Q pos -> Forall Q neg -> Q (IList pos neg).
Fixpoint ditem_ind' (t : ditem) : Q t :=
  match t with
  | IItem name v => Hitem name v
  | IList pos neg =>
      Hl pos neg
        ((fix go (l : list ditem) : Forall Q l :=
            match l with [] => Forall_nil Q | x :: l' => Forall_cons x (ditem_ind' x) (go l') end) pos)
        ((fix go (l : list ditem) : Forall Q l :=
            match l with [] => Forall_nil Q | x :: l' => Forall_cons x (ditem_ind' x) (go l') end) neg)
  end.
End DitemInd.

(* ---- words ------------------------------------------------------------------------------------------ *)
Lemma str_matcher_sem w s : matches (str_matcher w) (VS s) = word_matches w s.
Proof.
  unfold str_matcher, word_matches.
  destruct (str_eqb w [42%N]); [reflexivity|]. destruct (mem_char 42%N w); reflexivity.
Qed.

Lemma str_matcher_simp w : simplify (str_matcher w) = str_matcher w.
Proof.
  unfold str_matcher. destruct (str_eqb w [42%N]); [reflexivity|]. destruct (mem_char 42%N w); reflexivity.
Qed.

Lemma wf_word_not_star w : wf_word w = true -> str_eqb w [42%N] = false.
Proof.
  intros H. destruct (str_eqb w [42%N]) eqn:E; [|reflexivity].
  apply ds_str_eqb_eq in E. subst w. vm_compute in H. discriminate.
Qed.

(* a glob word that is not `*` is never constant *)
Lemma str_matcher_not_const w : str_eqb w [42%N] = false -> always (str_matcher w) = None.
Proof. intros H. unfold str_matcher. rewrite H. destruct (mem_char 42%N w); reflexivity. Qed.

(* ---- text ------------------------------------------------------------------------------------------- *)
Theorem text_sem t : wf_text t = true -> forall s,
  matches (elab_text t) (VS s) = den_text t s /\ matches (simplify (elab_text t)) (VS s) = den_text t s.
Proof.
  induction t as [w|pos neg HP HN] using dtext_ind'; intros Hwf s.
  - cbn [elab_text den_text]. rewrite str_matcher_simp, str_matcher_sem. split; reflexivity.
  - cbn [wf_text] in Hwf. apply wf_list_split in Hwf. destruct Hwf as (WP & WN & Hne).
    rewrite Forall_forall in HP, HN. cbn [elab_text den_text]. split.
    + apply den_list_sem; [exact Hne| |]; intros x Hx.
      * apply (HP x Hx (WP x Hx)).
      * apply (HN x Hx (WN x Hx)).
    + apply den_list_simp_sem; [exact Hne| |]; intros x Hx.
      * apply (HP x Hx (WP x Hx)).
      * apply (HN x Hx (WN x Hx)).
Qed.

Corollary text_sem_raw t s : wf_text t = true -> matches (elab_text t) (VS s) = den_text t s.
Proof. intros H. apply (text_sem t H s). Qed.
Corollary text_sem_simp t s : wf_text t = true -> matches (simplify (elab_text t)) (VS s) = den_text t s.
Proof. intros H. apply (text_sem t H s). Qed.

(* ---- objects ---------------------------------------------------------------------------------------- *)
Lemma elab_id_simp id l : simplify (elab_id id l) = elab_id id l.
Proof. unfold elab_id. destruct l; reflexivity. Qed.

Lemma elab_id_sem id l o :
  matches (elab_id id l) (VO o) =
  (vo_id o =? id) && match l with [] => true | _ => gen_of o =? letters_value l end.
Proof.
  unfold elab_id. destruct l as [|c l]; cbn [matches]; rewrite (Z.eqb_sym id).
  - reflexivity.
  - unfold gen_of. rewrite (Z.eqb_sym (letters_value (c :: l))). reflexivity.
Qed.

Lemma nil_obj_sem o : matches (MWrap WObjId (MPair (MEqZ 0 [48%N]) [] (MAlways true))) (VO o) = (vo_id o =? 0).
Proof. cbn [matches]. rewrite andb_true_r. apply Z.eqb_sym. Qed.

Lemma type_sem w o : str_eqb w [42%N] = false ->
  matches (simplify (MWrap WObjName (str_matcher w))) (VO o) =
  match vo_type o with Some t => word_matches w t | None => false end.
Proof.
  intros H. cbn [simplify]. rewrite str_matcher_simp, (str_matcher_not_const w H). cbn [matches].
  destruct (vo_type o) as [t|]; [apply str_matcher_sem|reflexivity].
Qed.

Theorem obj_sem d : wf_obj d = true -> forall o, matches (simplify (elab_obj d)) (VO o) = den_obj d o.
Proof.
  induction d as [|w|a id l| |pos neg HP HN] using dobj_ind'; intros Hwf o.
  - reflexivity.
  - cbn [elab_obj den_obj]. apply type_sem. apply wf_word_not_star. exact Hwf.
  - cbn [elab_obj den_obj]. rewrite elab_id_simp. apply elab_id_sem.
  - cbn [elab_obj den_obj]. apply nil_obj_sem.
  - cbn [wf_obj] in Hwf. apply wf_list_split in Hwf. destruct Hwf as (WP & WN & Hne).
    rewrite Forall_forall in HP, HN. cbn [elab_obj den_obj].
    apply den_list_simp_sem; [exact Hne| |]; intros x Hx.
    + apply (HP x Hx (WP x Hx)).
    + apply (HN x Hx (WN x Hx)).
Qed.

(* ---- argument values ----------------------------------------------------------------------------------- *)
Theorem val_sem d : wf_val d = true -> forall a, matches (simplify (elab_val d)) (VA a) = den_val d a.
Proof.
  induction d as [|z|n ip fp|s|w|c id l| |pos neg HP HN] using dval_ind'; intros Hwf a.
  - reflexivity.
  - cbn [elab_val den_val simplify always matches].
    destruct (va_val a); try reflexivity; rewrite (Z.eqb_sym z); reflexivity.
  - cbn [elab_val den_val simplify always matches]. reflexivity.
  - cbn [elab_val den_val simplify always matches]. reflexivity.
  - cbn [elab_val den_val]. cbn [wf_val] in Hwf. apply wf_word_not_star in Hwf.
    cbn [simplify]. rewrite str_matcher_simp, (str_matcher_not_const w Hwf). cbn [matches].
    destruct (va_val a) as [v ls| | |ty|ob nw| |]; try reflexivity.
    + destruct ls as [ls|]; [|reflexivity]. apply existsb_ext_in. intros x _. apply str_matcher_sem.
    + destruct ty as [t|]; [apply str_matcher_sem|reflexivity].
    + destruct (vo_type ob) as [t|]; [apply str_matcher_sem|reflexivity].
  - cbn [elab_val den_val]. cbn [simplify]. rewrite elab_id_simp.
    assert (E : always (elab_id id l) = None) by (unfold elab_id; reflexivity). rewrite E.
    cbn [matches]. unfold arg_as_obj. cbn [den_obj].
    destruct (va_val a); try reflexivity; apply elab_id_sem.
  - cbn [elab_val den_val simplify always]. unfold arg_as_obj.
    change (matches (MWrap WObjArg ?w) (VA a)) with
      (match va_val a with
       | VAObj o _ => matches w (VO o)
       | VANull ty => matches w (VO (null_obj ty))
       | _ => false end).
    destruct (va_val a); try reflexivity; apply nil_obj_sem.
  - cbn [wf_val] in Hwf. apply wf_list_split in Hwf. destruct Hwf as (WP & WN & Hne).
    rewrite Forall_forall in HP, HN. cbn [elab_val den_val].
    apply den_list_simp_sem; [exact Hne| |]; intros x Hx.
    + apply (HP x Hx (WP x Hx)).
    + apply (HN x Hx (WN x Hx)).
Qed.

(* ---- argument items ------------------------------------------------------------------------------------ *)
Definition arg_name (a : varg) : str := match va_name a with Some n => n | None => [] end.

Lemma arg_matcher_simp_sem nm vm a :
  matches (simplify (arg_matcher nm vm)) (VA a) =
  matches (simplify nm) (VS (arg_name a)) && matches (simplify vm) (VA a).
Proof.
  unfold arg_matcher. rewrite simplify_wrap_sem.
  destruct (always (simplify (MPair nm [61%N] vm))) as [b|] eqn:E.
  - rewrite <- (simplify_pair_sem nm [61%N] vm). symmetry. apply always_matches. exact E.
  - cbn [matches]. apply simplify_pair_sem.
Qed.

Lemma name_sem name s : matches (simplify (match name with Some w => str_matcher w | None => MAlways true end)) (VS s)
  = match name with Some w => word_matches w s | None => true end.
Proof. destruct name as [w|]; [rewrite str_matcher_simp; apply str_matcher_sem|reflexivity]. Qed.

Theorem item_sem i : wf_item i = true -> forall a, matches (simplify (elab_item i)) (VA a) = den_item i a.
Proof.
  induction i as [name v|pos neg HP HN] using ditem_ind'; intros Hwf a.
  - cbn [elab_item den_item]. rewrite arg_matcher_simp_sem, name_sem. unfold arg_name. f_equal.
    destruct v as [d|]; [|reflexivity]. apply val_sem.
    cbn [wf_item] in Hwf. apply andb_true_iff in Hwf. destruct Hwf as [Hwf _].
    apply andb_true_iff in Hwf. apply Hwf.
  - cbn [wf_item] in Hwf. apply wf_list_split in Hwf. destruct Hwf as (WP & WN & Hne).
    rewrite Forall_forall in HP, HN. cbn [elab_item den_item].
    apply den_list_simp_sem; [exact Hne| |]; intros x Hx.
    + apply (HP x Hx (WP x Hx)).
    + apply (HN x Hx (WN x Hx)).
Qed.
