(* C17 lifted to the session, part H: with colour off the tool emits no ESC of its own.
   First half: texts, error messages, titles, the log-mode and gdb pipelines. *)
From WD Require Import Base Wire Protocol Conn Color LetterId Matcher MatcherParse Show Session.
From WD Require Import LetterIdProofs ColorProofs ShowProofs MatcherProofs SessionProofs.
From WD Require Import SessionColorA SessionColorB SessionColorC SessionColorG.
From Coq Require Import Lia.
Open Scope Z_scope.

Ltac ef := repeat (first
  [ assumption | reflexivity
  | rewrite color_off
  | apply esc_free_app; split
  | apply z_to_dec_esc_free
  | apply esc_free_cons; split; [discriminate|] ]).

(* ---- clean lines ---------------------------------------------------------------------------------------------- *)
(* the unpredicted text (tracebacks, the help text) is assumed free of ESC as well *)
Definition line_clean (l : line) : Prop := forall fmt any, fmt_ok fmt -> esc_free any -> esc_free (line_text fmt any l).
Definition oline_clean (o : oline) : Prop :=
  match o with OOut l | OMsg _ _ l | OErr l | OMaybe l => line_clean l | _ => True end.

Lemma line_clean_txt t : esc_free t -> line_clean (txt t).
Proof. intros H fmt any _ _. rewrite line_text_txt. exact H. Qed.
Lemma line_clean_cons t l : esc_free t -> line_clean l -> line_clean (Txt t :: l).
Proof. intros H Hl fmt any Hf Ha. rewrite line_text_cons. cbn [seg_text]. apply esc_free_app. split; [exact H|apply Hl; assumption]. Qed.
Lemma line_clean_any : line_clean [AnyText].
Proof. intros fmt any _ Ha. unfold line_text. cbn [flat_map seg_text]. rewrite app_nil_r. exact Ha. Qed.
Lemma line_clean_of_str l : (forall fmt, fmt_ok fmt -> esc_free (line_str fmt l)) -> Forall (fun s => s <> AnyText) l -> line_clean l.
Proof. intros H Hn fmt any Hf _. rewrite (line_text_no_any fmt any l Hn). apply H, Hf. Qed.

Lemma error_line_clean l : line_clean l -> oline_clean (error_line false l).
Proof. intros H. unfold error_line. cbn [oline_clean]. apply line_clean_cons; [ef|exact H]. Qed.
Lemma warn_line_clean l : line_clean l -> oline_clean (warn_line false l).
Proof. intros H. unfold warn_line. cbn [oline_clean]. apply line_clean_cons; [ef|exact H]. Qed.

Lemma conn_type_clean sv : esc_free (conn_type_str false sv).
Proof. destruct sv as [[|]|]; reflexivity. Qed.
Lemma new_conn_line_clean sv name : esc_free name -> oline_clean (new_conn_line false sv name).
Proof. intros H. unfold new_conn_line. cbn [oline_clean]. apply line_clean_txt. pose proof (conn_type_clean sv). ef. Qed.
Lemma closed_conn_line_clean sv name : esc_free name -> oline_clean (closed_conn_line false sv name).
Proof. intros H. unfold closed_conn_line. cbn [oline_clean]. apply line_clean_txt. pose proof (conn_type_clean sv). ef. Qed.

Lemma show_msg_clean d cn m : esc_free cn -> msg_clean d m -> line_clean (show_msg false d cn m).
Proof.
  intros Hcn Hm. apply line_clean_of_str; [|apply show_msg_no_any].
  intros fmt Hf. apply (proj1 (show_msg_strips fmt d cn m Hf Hcn Hm)).
Qed.
Lemma show_msg_body_clean d m : msg_clean d m -> line_clean (show_msg_body false d m).
Proof.
  intros Hm. apply line_clean_of_str; [|apply show_msg_body_no_any].
  intros fmt Hf. apply (proj1 (Strips_body fmt d m Hf Hm)).
Qed.
Lemma sep_line_clean delta : line_clean (sep_line false delta).
Proof.
  intros fmt any Hf _. unfold sep_line, line_text. cbn [flat_map seg_text]. rewrite !app_nil_r, !app_nil_l.
  apply esc_free_app. split; [reflexivity|]. apply esc_free_app. split; [apply Hf|reflexivity].
Qed.

(* ---- error messages of Message.resolve ------------------------------------------------------------------------- *)
Lemma get_arg_err P i mn idx e msg : esc_free i -> esc_free mn -> get_arg P i mn idx = Raise e msg -> esc_free msg.
Proof.
  intros Hi Hm. unfold get_arg. destruct (_ && _); [discriminate|].
  destruct (od_get pi_name P i) as [x|]; [|discriminate].
  destruct (od_get pm_name (pi_msgs x) mn) as [m|]; [|intros E; injection E as _ <-; ef].
  destruct (nth_error (pm_args m) idx); [discriminate|]. intros E. injection E as _ <-. ef.
Qed.

Lemma base_name_err P tty mn idx e msg : oesc tty -> esc_free mn -> base_name P tty mn idx = Raise e msg -> esc_free msg.
Proof.
  intros Ht Hm. unfold base_name. destruct tty as [t|]; [|discriminate]. unfold get_arg_name.
  destruct (get_arg P t mn idx) as [a|e' msg'] eqn:E; cbn [bind]; [discriminate|]. intros E'. injection E' as _ <-.
  apply (get_arg_err _ _ _ _ _ _ Ht Hm E).
Qed.

Lemma enum_labels_err P tty mn idx v e msg : oesc tty -> esc_free mn -> enum_labels P tty mn idx v = Raise e msg -> esc_free msg.
Proof.
  intros Ht Hm. unfold enum_labels. destruct tty as [t|]; [|discriminate]. unfold look_up_enum.
  destruct (get_arg P t mn idx) as [a|e' msg'] eqn:E; cbn [bind].
  - destruct a as [a|]; [|discriminate]. destruct (pa_enum a); [|discriminate]. destruct (get_enum P t _); [|discriminate].
    destruct (map pe_name _); discriminate.
  - intros E'. injection E' as _ <-. apply (get_arg_err _ _ _ _ _ _ Ht Hm E).
Qed.

Lemma mapM_labels_err P tty mn idx vs e msg : oesc tty -> esc_free mn ->
  mapM (fun v => do l <- enum_labels P tty mn idx v; Ok (v, l)) vs = Raise e msg -> esc_free msg.
Proof.
  intros Ht Hm. induction vs as [|v vs IH]; cbn [mapM]; [discriminate|].
  destruct (enum_labels P tty mn idx v) as [l|e' msg'] eqn:E; cbn [bind].
  - destruct (mapM _ vs) as [r|e' msg']; cbn [bind]; [discriminate|]. intros E'. injection E' as -> ->. apply IH. reflexivity.
  - intros E'. injection E' as _ <-. apply (enum_labels_err _ _ _ _ _ _ _ Ht Hm E).
Qed.

Lemma resolve_arg_err P d t tty mn idx a e msg : oesc tty -> esc_free mn -> resolve_arg P d t tty mn idx a = Raise e msg -> esc_free msg.
Proof.
  intros Ht Hm. unfold resolve_arg. destruct (base_name P tty mn idx) as [nm|e' msg'] eqn:En; cbn [bind].
  2:{ intros E. injection E as _ <-. apply (base_name_err _ _ _ _ _ _ Ht Hm En). }
  destruct a as [v|x|s|ty|id ty n|v|[vs|]|s]; try discriminate.
  - destruct (enum_labels P tty mn idx v) as [l|e' msg'] eqn:El; cbn [bind]; [discriminate|].
    intros E. injection E as _ <-. apply (enum_labels_err _ _ _ _ _ _ _ Ht Hm El).
  - destruct ty; [discriminate|]. destruct tty as [tt|]; [|discriminate]. unfold look_up_interface.
    destruct (get_arg P tt mn idx) as [a|e' msg'] eqn:E; cbn [bind]; [discriminate|].
    intros E'. injection E' as _ <-. apply (get_arg_err _ _ _ _ _ _ Ht Hm E).
  - destruct (mapM _ vs) as [ls|e' msg'] eqn:Em; cbn [bind]; [discriminate|].
    intros E. injection E as _ <-. apply (mapM_labels_err _ _ _ _ _ _ _ Ht Hm Em).
Qed.

Lemma resolve_args_err P args : forall d t tty mn idx d' ras e msg, oesc tty -> esc_free mn ->
  resolve_args P d t tty mn idx args = (d', ras, Some (e, msg)) -> esc_free msg.
Proof.
  induction args as [|a rest IH]; intros d t tty mn idx d' ras e msg Ht Hm; cbn [resolve_args]; [discriminate|].
  destruct (resolve_arg P d t tty mn idx a) as [[d1 ra]|e' msg'] eqn:Er.
  - destruct (resolve_args P d1 t tty mn (S idx) rest) as [[d2 ras'] err'] eqn:Es. intros E. injection E as _ _ ->.
    apply (IH _ _ _ _ _ _ _ _ _ Ht Hm Es).
  - intros E. injection E as _ _ _ <-. apply (resolve_arg_err _ _ _ _ _ _ _ _ _ Ht Hm Er).
Qed.

Lemma retrieve_latest_err d id ty e msg : retrieve_latest d id ty = Raise e msg -> esc_free msg.
Proof.
  unfold retrieve_latest. destruct (db_get d id) as [l|]; [|intros E; injection E as _ <-; ef].
  destruct (rev l) as [|o r]; [intros E; injection E as _ <-; reflexivity|].
  destruct ty as [t|]; [|discriminate]. destruct (o_type o) as [ot|]; [|discriminate]. destruct (str_match t ot); [discriminate|].
  intros E. injection E as _ <-. reflexivity.
Qed.

Lemma bind_typing_err args e msg : bind_typing args = Raise e msg -> msg = [].
Proof.
  unfold bind_typing. intros E.
  repeat match type of E with context [match ?x with _ => _ end] => destruct x; try discriminate E end;
    injection E as _ <-; reflexivity.
Qed.

Lemma resolve_msg_err P d t m d' rm e msg : db_clean d -> pmsg_ok m ->
  resolve_msg P d t m = (d', rm, Some (e, msg)) -> esc_free msg.
Proof.
  intros Hd (Hty & Hname & _ & _). unfold resolve_msg.
  set (target := resolve_ref d (p_id m) (p_type m)).
  assert (Htt : oesc (ref_type d target)).
  { pose proof (ref_clean_of_ok d target Hd (resolve_ref_ok d (p_id m) (p_type m) Hty)) as G. destruct target; exact G. }
  set (tty := ref_type d target) in *.
  match goal with |- context [if ?b then bind_typing (p_args m) else _] => set (is_bind := b) end.
  destruct (if is_bind then bind_typing (p_args m) else Ok (p_args m)) as [args|e' msg'] eqn:Eb.
  2:{ intros E. injection E as _ _ _ <-. destruct is_bind; [|discriminate]. rewrite (bind_typing_err _ _ _ Eb). reflexivity. }
  match goal with |- context [match ?x with Ok _ => _ | Raise _ _ => _ end] => destruct x as [[d1 ds]|e' msg'] eqn:Ed end.
  2:{ intros E. injection E as _ _ _ <-.
      match type of Ed with (if ?c then _ else _) = _ => destruct c end; [|discriminate].
      destruct args as [|[v| | | | | | |] args0]; try (injection Ed as _ <-; reflexivity).
      destruct (retrieve_latest d v None) as [o|e2 s2] eqn:Er.
      - destruct (db_get d v); [discriminate|]. injection Ed as _ <-. reflexivity.
      - injection Ed as _ <-. apply (retrieve_latest_err _ _ _ _ _ Er). }
  destruct (resolve_args P d1 t tty (p_name m) 0 args) as [[d2 rargs] err2] eqn:Er.
  intros E. injection E as _ _ ->. apply (resolve_args_err _ _ _ _ _ _ _ _ _ _ _ Htt Hname Er).
Qed.

(* ---- titles --------------------------------------------------------------------------------------------------------- *)
Definition pstr_ok (a : parg) : Prop := match a with PStr s => esc_free s | _ => True end.
Definition rstr_ok (a : rarg) : Prop := match a_val a with RStr s => esc_free s | _ => True end.
Definition is_title_msg (n : str) : bool :=
  str_eqb n (s2l "set_app_id") || str_eqb n (s2l "set_title") || str_eqb n (s2l "get_layer_surface").
(* the three requests whose string argument becomes the connection's title, shown as it is *)
Definition title_src_ok (m : pmsg) : Prop := is_title_msg (p_name m) = true -> Forall pstr_ok (p_args m).

Lemma unresolved_rstr a : pstr_ok a -> rstr_ok (unresolved_arg a).
Proof. destruct a as [v|x|s|ty|id ty n|v|[vs|]|s]; intros H; try exact I. exact H. Qed.

Lemma resolve_arg_rstr P d t tty mn idx a d' ra : pstr_ok a -> resolve_arg P d t tty mn idx a = Ok (d', ra) -> rstr_ok ra.
Proof.
  intros Ha. unfold resolve_arg. destruct (base_name P tty mn idx) as [nm|e msg]; cbn [bind]; [|discriminate].
  destruct a as [v|x|s|ty|id ty n|v|[vs|]|s]; try (intros E; injection E as _ <-; first [exact I|exact Ha]).
  - destruct (enum_labels P tty mn idx v); cbn [bind]; [|discriminate]. intros E. injection E as _ <-. exact I.
  - destruct ty; [intros E; injection E as _ <-; exact I|]. destruct tty; [|intros E; injection E as _ <-; exact I].
    destruct (look_up_interface P _ mn idx); cbn [bind]; [|discriminate]. intros E. injection E as _ <-. exact I.
  - destruct (mapM _ vs); cbn [bind]; [|discriminate]. intros E. injection E as _ <-. exact I.
Qed.

Lemma resolve_args_rstr P args : forall d t tty mn idx d' ras err, Forall pstr_ok args ->
  resolve_args P d t tty mn idx args = (d', ras, err) -> Forall rstr_ok ras.
Proof.
  induction args as [|a rest IH]; intros d t tty mn idx d' ras err Ha; cbn [resolve_args].
  - intros E. injection E as _ <- _. constructor.
  - inversion Ha as [|? ? Ha1 Ha2]; subst. destruct (resolve_arg P d t tty mn idx a) as [[d1 ra]|e msg] eqn:Er.
    + destruct (resolve_args P d1 t tty mn (S idx) rest) as [[d2 ras'] err'] eqn:Es. intros E. injection E as _ <- _.
      constructor; [apply (resolve_arg_rstr _ _ _ _ _ _ _ _ _ Ha1 Er)|apply (IH _ _ _ _ _ _ _ _ Ha2 Es)].
    + intros E. injection E as _ <- _. change (Forall rstr_ok (map unresolved_arg (a :: rest))).
      clear -Ha. induction Ha as [|x l Hx _ IH']; cbn [map]; constructor; [apply unresolved_rstr; exact Hx|exact IH'].
Qed.

Lemma bind_typing_pstr args args' : Forall pstr_ok args -> bind_typing args = Ok args' -> Forall pstr_ok args'.
Proof.
  intros Ha. unfold bind_typing. intros E.
  repeat match type of E with context [match ?x with _ => _ end] => destruct x; try discriminate E end.
  - injection E as <-. exact Ha.
  - injection E as <-.
    inversion Ha as [|? ? H0 Ha']; subst. inversion Ha' as [|? ? H1 Ha'']; subst. inversion Ha'' as [|? ? H2 Ha3]; subst.
    repeat constructor; try assumption.
Qed.

Lemma resolve_msg_rstr P d t m d' rm err : Forall pstr_ok (p_args m) -> resolve_msg P d t m = (d', rm, err) ->
  m_name rm = p_name m /\ Forall rstr_ok (m_args rm).
Proof.
  intros Ha. unfold resolve_msg.
  assert (Hbase : Forall rstr_ok (map unresolved_arg (p_args m))).
  { clear -Ha. induction Ha as [|x l Hx _ IH']; cbn [map]; constructor; [apply unresolved_rstr; exact Hx|exact IH']. }
  match goal with |- context [if ?b then bind_typing (p_args m) else _] => set (is_bind := b) end.
  destruct (if is_bind then bind_typing (p_args m) else Ok (p_args m)) as [args|e' msg'] eqn:Eb.
  2:{ intros E. injection E as _ <- _. split; [reflexivity|exact Hbase]. }
  assert (Ha' : Forall pstr_ok args).
  { destruct is_bind; [apply (bind_typing_pstr _ _ Ha Eb)|injection Eb as <-; exact Ha]. }
  match goal with |- context [match ?x with Ok _ => _ | Raise _ _ => _ end] => destruct x as [[d1 ds]|e' msg'] end.
  2:{ intros E. injection E as _ <- _. split; [reflexivity|exact Hbase]. }
  destruct (resolve_args P d1 t _ (p_name m) 0 args) as [[d2 rargs] err2] eqn:Er.
  intros E. injection E as _ <- _. split; [reflexivity|]. apply (resolve_args_rstr _ _ _ _ _ _ _ _ _ _ Ha' Er).
Qed.

Lemma resolve_msg_name P d t m d' rm err : resolve_msg P d t m = (d', rm, err) -> m_name rm = p_name m.
Proof.
  unfold resolve_msg.
  match goal with |- context [if ?b then bind_typing (p_args m) else _] => destruct (if b then bind_typing (p_args m) else Ok (p_args m)) end.
  2:{ intros E. injection E as _ <- _. reflexivity. }
  match goal with |- context [match ?x with Ok _ => _ | Raise _ _ => _ end] => destruct x as [[d1 ds]|e' msg'] end.
  2:{ intros E. injection E as _ <- _. reflexivity. }
  destruct (resolve_args P d1 t _ (p_name m) 0 a) as [[d2 rargs] err2]. intros E. injection E as _ <- _. reflexivity.
Qed.

Lemma after_last_dot_clean s : esc_free s -> esc_free (after_last_dot s).
Proof. intros H. unfold after_last_dot. apply esc_free_rev, esc_free_take_while, esc_free_rev, H. Qed.

Lemma title_update_title c m : oesc (c_title c) -> (is_title_msg (m_name m) = true -> Forall rstr_ok (m_args m)) ->
  oesc (c_title (title_update c m)).
Proof.
  intros Hc Hm. unfold title_update, is_title_msg in *.
  assert (Harg : forall n s, is_title_msg (m_name m) = true ->
            match nth_error (m_args m) n with Some a => match a_val a with RStr s => Some s | _ => None end | None => None end = Some s -> esc_free s).
  { intros n s Ht. specialize (Hm Ht). destruct (nth_error (m_args m) n) as [a|] eqn:E; [|discriminate].
    apply nth_error_In in E. rewrite Forall_forall in Hm. specialize (Hm a E). unfold rstr_ok in Hm.
    destruct (a_val a); try discriminate. intros E'. injection E' as <-. exact Hm. }
  unfold is_title_msg in Harg.
  destruct (str_eqb (m_name m) (s2l "set_app_id")) eqn:E1.
  - destruct (match nth_error (m_args m) 0 with Some a => _ | None => None end) as [[|x app]|] eqn:Ea; try exact Hc.
    pose proof (Harg 0%nat _ eq_refl Ea) as Happ.
    pose proof (after_last_dot_clean _ Happ) as Hd. destruct (after_last_dot (x :: app)); [exact Hc|exact Hd].
  - destruct (str_eqb (m_name m) (s2l "set_title")) eqn:E2; cbn [andb].
    + destruct (match c_title c with Some (_ :: _) => false | _ => true end).
      * destruct (match nth_error (m_args m) 0 with Some a => _ | None => None end) as [[|x tt]|] eqn:Ea; try exact Hc.
        apply (Harg 0%nat _ eq_refl Ea).
      * destruct (str_eqb (m_name m) (s2l "get_layer_surface")) eqn:E3; [|exact Hc].
        destruct (match nth_error (m_args m) 4 with Some a => _ | None => None end) as [[|x tt]|] eqn:Ea; try exact Hc.
        apply (Harg 4%nat _ eq_refl Ea).
    + destruct (str_eqb (m_name m) (s2l "get_layer_surface")) eqn:E3; [|exact Hc].
      destruct (match nth_error (m_args m) 4 with Some a => _ | None => None end) as [[|x tt]|] eqn:Ea; try exact Hc.
      apply (Harg 4%nat _ eq_refl Ea).
Qed.

(* ---- invariant of the plain run -------------------------------------------------------------------------------------- *)
Definition titles_ok (s : sess) : Prop := Forall (fun c => oesc (c_title c)) (s_conns s).
Definition OffInv (s : sess) : Prop :=
  s_color s = false /\ Inv s /\ titles_ok s /\ mclean (k_display (s_ctrl s)) /\ mclean (k_stop (s_ctrl s)).

Lemma OffInv_frame s s' : s_color s' = s_color s -> s_conns s' = s_conns s -> s_ctrl s' = s_ctrl s -> OffInv s -> OffInv s'.
Proof. intros E1 E2 E3 (H1 & H2 & H3 & H4 & H5). unfold OffInv, Inv, titles_ok in *. rewrite E1, E2, E3. repeat split; try assumption; apply H2. Qed.

Ltac F1 := repeat first [apply Forall_nil | apply Forall_cons | apply Forall_app; split].

Lemma close_conn_off s id : OffInv s -> OffInv (fst (close_conn s id)) /\ Forall oline_clean (snd (close_conn s id)).
Proof.
  intros HO. pose proof HO as (Hc & HI & Ht & Hd & Hs). pose proof (close_conn_inv s id HI) as G.
  unfold close_conn in *. destruct (find_open s id) as [i|]; [|split; [exact HO|constructor]].
  destruct (nth_error (s_conns s) i) as [c|] eqn:E; [|split; [exact HO|constructor]]. cbn [fst snd] in *. split.
  - repeat split; try assumption; try apply G. unfold titles_ok. cbn [set_conns s_conns]. apply update_nth_Forall; [exact Ht|]. intros x Hx. exact Hx.
  - F1. rewrite Hc. apply closed_conn_line_clean. destruct (Inv_conn s i c HI E) as ([Hn _] & _). exact Hn.
Qed.

Lemma open_conn_off s id sv : OffInv s -> OffInv (fst (open_conn s id sv)) /\ Forall oline_clean (snd (open_conn s id sv)).
Proof.
  intros HO. unfold open_conn. destruct (close_conn_off s id HO) as [G1 G2]. destruct (close_conn s id) as [s1 o1]. cbn [fst snd] in *.
  destruct G1 as (Hc & HI & Ht & Hd & Hs). split.
  - pose proof (open_conn_inv s id sv (proj1 (proj2 HO))) as K. unfold open_conn in K.
    assert (HI' : Inv (mkSess (s_conns s1 ++ [mkConn id (conn_name (s_next s1)) sv true None None db_init []]) (s_next s1 + 1)%N (s_ctrl s1) (s_known s1)
              (s_last_time s1) (s_parse s1) (s_paused s1) (s_quit s1) (s_gdb s1) (s_color s1) (s_unprocessed s1) (s_in_gdb s1))).
    { destruct HI as [I1 I2]. split; [|exact I2]. cbn [s_conns]. apply Forall_app. split; [exact I1|]. constructor; [|constructor].
      split; [apply conn_name_good|]. split; [apply db_clean_init|constructor]. }
    repeat split; try assumption; try apply HI'. unfold titles_ok. cbn [s_conns]. apply Forall_app. split; [exact Ht|]. constructor; [exact I|constructor].
  - F1; [exact G2|]. rewrite Hc. apply new_conn_line_clean. apply conn_name_good.
Qed.

Lemma show_message_clean ci d cn last m : esc_free cn -> msg_clean d m -> Forall oline_clean (fst (show_message false ci d cn last m)).
Proof.
  intros Hcn Hm. unfold show_message. cbn [fst]. F1; [|cbn [oline_clean]; apply show_msg_clean; assumption].
  destruct (1000000 <? _); [F1; apply sep_line_clean|]. destruct (_ =? 1000000); F1. apply sep_line_clean.
Qed.

Lemma ctrl_on_message_off k ci d cn m : esc_free cn -> msg_clean d m ->
  Forall oline_clean (snd (fst (ctrl_on_message false k ci d cn m))) /\
  k_display (fst (fst (ctrl_on_message false k ci d cn m))) = k_display k /\
  k_stop (fst (fst (ctrl_on_message false k ci d cn m))) = k_stop k.
Proof.
  intros Hcn Hm. unfold ctrl_on_message.
  destruct (match k_current k with Some j => Nat.eqb j ci | None => true end); [|cbn [fst snd]; repeat split; constructor].
  assert (G : Forall oline_clean (fst (if matches (k_display k) (VM (view_msg d cn m)) then show_message false ci d cn (k_last_shown k) m else ([], k_last_shown k)))).
  { destruct (matches (k_display k) _); [apply show_message_clean; assumption|constructor]. }
  destruct (if matches (k_display k) (VM (view_msg d cn m)) then show_message false ci d cn (k_last_shown k) m else ([], k_last_shown k)) as [o1 l1].
  cbn [fst snd] in *. repeat split. F1; [exact G|]. destruct (matches (k_stop k) _); F1. cbn [oline_clean].
  apply line_clean_cons; [ef|apply show_msg_body_clean; exact Hm].
Qed.

Section WithP.
Variable P : pdb.
Hypothesis HP : pdb_clean P.

Definition pmsg_off_ok (m : pmsg) : Prop := pmsg_ok m /\ title_src_ok m.

Lemma conn_message_off s id rel m : OffInv s -> pmsg_off_ok m ->
  OffInv (fst (fst (fst (conn_message P s id rel m)))) /\
  Forall oline_clean (snd (fst (fst (conn_message P s id rel m)))) /\
  (forall e msg, snd (fst (conn_message P s id rel m)) = Some (e, msg) -> esc_free msg).
Proof.
  intros HO [Hm Htm]. pose proof HO as (Hc & HI & Ht & Hd & Hs). pose proof (conn_message_inv P HP s id rel m HI Hm) as G.
  pose proof (fun i c => Inv_conn s i c HI) as HC.
  unfold conn_message in *. destruct (find_open s id) as [i|]; [|cbn [fst snd]; split; [exact HO|split; [constructor|intros e msg E; injection E as _ <-; reflexivity]]].
  destruct (nth_error (s_conns s) i) as [c|] eqn:E; [|cbn [fst snd]; split; [exact HO|split; [constructor|intros e msg E'; injection E' as _ <-; reflexivity]]].
  destruct (HC i c E) as ([Hn _] & Hdb & _).
  assert (Htc : oesc (c_title c)). { unfold titles_ok in Ht. rewrite Forall_forall in Ht. apply Ht. eapply nth_error_In; exact E. }
  destruct (resolve_msg P (c_db c) rel m) as [[d' rm] err] eqn:Er.
  destruct (resolve_msg_clean _ _ _ _ _ _ _ HP Hdb Hm Er) as [Hd' Hrm].
  destruct err as [[e msg]|].
  - cbn [fst snd] in *. split; [|split; [constructor|]].
    + repeat split; try assumption; try apply G. unfold titles_ok. cbn [set_conns s_conns].
      eapply update_nth_Forall_at; [exact Ht|exact E|exact Htc].
    + intros e' msg' E'. injection E' as _ <-. apply (resolve_msg_err _ _ _ _ _ _ _ _ Hdb Hm Er).
  - rewrite Hc in *.
    destruct (ctrl_on_message_off (s_ctrl s) i d' (c_name c) rm Hn (msg_clean_of_ok _ _ Hd' Hrm)) as (K1 & K2 & K3).
    destruct (ctrl_on_message false (s_ctrl s) i d' (c_name c) rm) as [[k' outs] stop]. cbn [fst snd] in *.
    split; [|split; [exact K1|discriminate]].
    assert (Htitle : oesc (c_title (title_update (mkConn (c_id c) (c_name c) (c_server c) (c_open c) (c_title c) (c_app_id c) d' (c_msgs c ++ [rm])) rm))).
    { apply title_update_title; [exact Htc|]. intros Hn'.
      assert (Hnm : m_name rm = p_name m) by (apply (resolve_msg_name _ _ _ _ _ _ _ Er)). rewrite Hnm in Hn'.
      destruct (resolve_msg_rstr _ _ _ _ _ _ _ (Htm Hn') Er) as [_ R]. exact R. }
    assert (GO : forall b q, OffInv (set_pause (set_ctrl (set_conns s (update_nth i (fun _ => title_update (mkConn (c_id c) (c_name c) (c_server c) (c_open c) (c_title c) (c_app_id c) d' (c_msgs c ++ [rm])) rm) (s_conns s))) k') b q)).
    { intros b q. destruct stop; (split; [exact Hc|]; split; [exact G|]; split; [|cbn [set_pause set_ctrl s_ctrl]; rewrite K2, K3; split; assumption]);
        unfold titles_ok; cbn [set_pause set_ctrl set_conns s_conns]; (eapply update_nth_Forall_at; [exact Ht|exact E|exact Htitle]). }
    destruct stop; [apply GO|]. specialize (GO (s_paused s) (s_quit s)). exact GO.
Qed.
End WithP.
