(* ListRuns.v - C11 (`list`) lifted to whole sessions.

   "`list` shows exactly the recorded messages - of the selected connection, or of all connections
    when none is selected - that match the given matcher (or the current filter when none is given),
    oldest first; with `~ N` (N >= 1) exactly the last N of them; the matched / didn't match / not
    checked counts add up to the number of messages recorded.  Listing never changes the filter, the
    breakpoints, the selected connection or what is recorded."

   Any start state [T] (side condition [idx_ok]: every recorded message names an existing
   connection - true initially, preserved by every log-mode event, needed: [corner_idx_ok_needed]),
   any list of log-mode events (EMsg, EText, ECmd).

   [record_is_delivered]    1. k_all after the run = k_all before ++ the (connection, message) pairs
                            delivered by the EMsg events ([arrival_top] = ADelivered), in order.  Text
                            lines and commands add nothing; a refused line (RuntimeError: ASoft, or
                            worse: AHard) and a line arriving while decoding is off add nothing.
   [own_list_is_attempted]  the connection's OWN list (c_msgs, what `list` reads when that connection
                            is selected) = its list before ++ EVERY line attributed to it ([attempt]),
                            accepted or refused: a refused message is kept there, partially resolved.
   [list_event]             2. the k-th event is a command resolving to `list` with argument [a]:
                            the state after differs from the state before at most in the separator
                            memory ([same_view]); the output is [list_query]: a bad cap -> one error
                            line; otherwise a [listing] for the parsed-and-simplified matcher (the
                            current filter when the matcher text is empty; "nothing matches" behind a
                            "Failed to parse" line when it does not parse) and the cap.
   [listing]                header; then either "None of the <size of scope> messages so far", or the
                            items - exactly [lastn_opt cap (filter matches scope)], rendered through
                            the connection's current table, with separators only in between - and the
                            counts line, matched + didn't + not checked = size of the scope.
   [list_shows_delivered]   3. = 1 + 2: scope = start record ++ deliveries BEFORE k (no selection),
                            or the selected connection's start list ++ its attempts BEFORE k.
   [selected_scope_is_restriction]  the two scopes agree on a connection when nothing was refused on it
                            (given a coherent start); [corner_refused_listed] shows them disagree.
   [repeated_list]          4. the same `list` again with only text lines and commands other than
                            `filter` / `connection` in between prints exactly the same lines.
   [ListExamples]           5. two connections, `connection B`, `list`, `list wl_registry ~ 1`,
                            `list (`, cap > matches, and the corners: `~ 0` = no cap, `~ -2` = cap 1,
                            `~ 1 ~ 2` = no cap (silently), `~ x` = error only, refused message listed
                            under its connection but not under "all". *)
From WD Require Import Base Wire Protocol Conn Color LetterId Matcher MatcherParse Show Session.
From WD Require Import ProtocolProofs LetterIdProofs ControllerProofs SessionProofs ConnMgrProofs IsolationRuns.
From WD Require Import StreamSpecA SeparatorRuns SessionColorD.
From Coq Require Import Lia List.
Import ListNotations.
Open Scope Z_scope.

(* ---- what one message line adds to the records ------------------------------------------------ *)
Definition delivered_of (a : outcome) : list (nat * rmsg) :=
  match a with ADelivered ci _ _ rm => [(ci, rm)] | _ => [] end.

(* the messages of connection number [i] (its own list; [] while it does not exist) *)
Definition msgs_at (s : sess) (i : nat) : list rmsg :=
  match nth_error (s_conns s) i with Some c => c_msgs c | None => [] end.

Section WithP.
Variable P : pdb.

(* the (connection, message) a message line is appended to in the connection's OWN list: every
   line that reaches a connection, whether its resolution succeeds or is refused *)
Definition attempt (s : sess) (id : str) (rel : Z) (m : pmsg) : option (nat * rmsg) :=
  if negb (s_parse s) then None else
  let s2 := pre_open s id rel m in
  match find_open s2 id with
  | None => None
  | Some i =>
      match nth_error (s_conns s2) i with
      | None => None
      | Some c => Some (i, snd (fst (resolve_msg P (c_db c) rel m)))
      end
  end.

Lemma finish_ctrl r : s_ctrl (finish r) = s_ctrl (fst (fst (fst r))) /\ s_conns (finish r) = s_conns (fst (fst (fst r))).
Proof. unfold finish. destruct (fatal (snd (fst r))); split; reflexivity. Qed.

Lemma log_message_all s id rel m :
  k_all (s_ctrl (fst (log_message P s id rel m))) = k_all (s_ctrl s) ++ delivered_of (arrival P s id rel m).
Proof.
  unfold arrival. destruct (s_parse s) eqn:Hp; cbn [negb].
  2: { rewrite log_message_off by exact Hp. cbn [fst delivered_of]. symmetry. apply app_nil_r. }
  rewrite log_message_eq by exact Hp. destruct (finish_ctrl (conn_message P (pre_open s id rel m) id rel m)) as [-> _].
  destruct (pre_open_misc s id rel m) as (Hk & _ & _). cbn zeta in Hk. rewrite <- Hk.
  set (s2 := pre_open s id rel m). unfold conn_message.
  destruct (find_open s2 id) as [i|]; [|cbn [fst delivered_of]; symmetry; apply app_nil_r].
  destruct (nth_error (s_conns s2) i) as [c|]; [|cbn [fst delivered_of]; symmetry; apply app_nil_r].
  destruct (resolve_msg P (c_db c) rel m) as [[d' rm] err].
  destruct err as [[e msg]|].
  - cbn [fst set_conns s_ctrl]. destruct e; cbn [delivered_of]; symmetry; apply app_nil_r.
  - destruct (ctrl_on_message (s_color s2) (s_ctrl s2) i d' (c_name c) rm) as [[k' outs] stop] eqn:E.
    destruct (ctrl_on_message_spec _ _ _ _ _ _ _ _ _ E) as (Hall & _).
    cbn [fst delivered_of]. destruct stop; cbn [set_pause set_ctrl s_ctrl]; exact Hall.
Qed.

Lemma msgs_at_update s i (f : connst -> connst) j :
  (forall c, c_msgs (f c) = c_msgs c) ->
  msgs_at (set_conns s (update_nth i f (s_conns s))) j = msgs_at s j.
Proof.
  intros Hf. unfold msgs_at. cbn [set_conns s_conns].
  destruct (Nat.eq_dec j i) as [->|Hne].
  - destruct (nth_error (s_conns s) i) as [c|] eqn:E.
    + rewrite (update_nth_same _ _ _ _ E). apply Hf.
    + assert (H : nth_error (update_nth i f (s_conns s)) i = None).
      { apply nth_error_None. rewrite update_nth_length. apply nth_error_None. exact E. }
      rewrite H. reflexivity.
  - rewrite update_nth_other by exact Hne. reflexivity.
Qed.

Lemma close_conn_msgs s id j : msgs_at (fst (close_conn s id)) j = msgs_at s j.
Proof.
  unfold close_conn. destruct (find_open s id) as [i|]; [|reflexivity].
  destruct (nth_error (s_conns s) i); [|reflexivity]. cbn [fst].
  apply msgs_at_update. reflexivity.
Qed.

Lemma open_conn_msgs s id sv j : msgs_at (fst (open_conn s id sv)) j = msgs_at s j.
Proof.
  destruct (open_conn_spec s id sv) as (Hc & _). unfold msgs_at at 1. rewrite Hc.
  pose proof (close_conn_msgs s id j) as Hm. unfold msgs_at at 1 in Hm.
  destruct (Nat.lt_ge_cases j (List.length (s_conns (fst (close_conn s id))))) as [Hlt|Hge].
  - rewrite nth_error_app1 by exact Hlt. exact Hm.
  - rewrite nth_error_app2 by exact Hge.
    assert (Hn : nth_error (s_conns (fst (close_conn s id))) j = None) by (apply nth_error_None; exact Hge).
    rewrite Hn in Hm. rewrite <- Hm.
    destruct (j - List.length (s_conns (fst (close_conn s id))))%nat as [|[|n]]; reflexivity.
Qed.

Lemma pre_open_msgs s id rel m j : msgs_at (pre_open s id rel m) j = msgs_at s j.
Proof.
  unfold pre_open. destruct (known s id); [reflexivity|].
  exact (open_conn_msgs (set_last s rel) id (is_get_registry m) j).
Qed.

Lemma title_update_msgs c m : c_msgs (title_update c m) = c_msgs c.
Proof.
  unfold title_update.
  repeat match goal with
         | |- context [if ?b then _ else _] => destruct b
         | |- context [match ?x with _ => _ end] => destruct x
         end; reflexivity.
Qed.

Lemma conn_step_msgs c rel m :
  c_msgs (conn_step P c rel m) = c_msgs c ++ [snd (fst (resolve_msg P (c_db c) rel m))].
Proof.
  unfold conn_step. destruct (resolve_msg P (c_db c) rel m) as [[d' rm] err]. cbn [fst snd].
  destruct err; [reflexivity|]. rewrite title_update_msgs. reflexivity.
Qed.

Definition own_of (a : option (nat * rmsg)) (j : nat) : list rmsg :=
  match a with Some (i, rm) => if Nat.eqb i j then [rm] else [] | None => [] end.

(* every line that reaches a connection is appended to that connection's own list *)
Lemma log_message_own_list s id rel m j :
  msgs_at (fst (log_message P s id rel m)) j = msgs_at s j ++ own_of (attempt s id rel m) j.
Proof.
  unfold attempt. destruct (s_parse s) eqn:Hp; cbn [negb].
  2: { rewrite log_message_off by exact Hp. cbn [fst own_of]. symmetry. apply app_nil_r. }
  rewrite log_message_eq by exact Hp.
  rewrite <- (pre_open_msgs s id rel m j). set (s2 := pre_open s id rel m).
  unfold msgs_at at 1. destruct (finish_ctrl (conn_message P s2 id rel m)) as [_ ->].
  pose proof (conn_message_cases P s2 id rel m) as H.
  destruct (find_open s2 id) as [i|].
  - destruct H as (c & Hi & _ & Hc & _). cbn zeta in Hc. rewrite Hc, Hi. cbn [own_of].
    destruct (Nat.eqb i j) eqn:Eij.
    + apply Nat.eqb_eq in Eij. subst j. rewrite (update_nth_same _ _ _ _ Hi).
      unfold msgs_at. rewrite Hi. apply conn_step_msgs.
    + apply Nat.eqb_neq in Eij. rewrite update_nth_other by congruence.
      rewrite app_nil_r. reflexivity.
  - rewrite H. cbn [fst own_of]. rewrite app_nil_r. reflexivity.
Qed.

(* every recorded message names an existing connection *)
Definition idx_ok (s : sess) : Prop :=
  Forall (fun p => (fst p < List.length (s_conns s))%nat) (k_all (s_ctrl s)).

Lemma close_conn_len s id : List.length (s_conns (fst (close_conn s id))) = List.length (s_conns s).
Proof.
  unfold close_conn. destruct (find_open s id) as [i|]; [|reflexivity].
  destruct (nth_error (s_conns s) i); [|reflexivity]. cbn [fst set_conns s_conns]. apply update_nth_length.
Qed.

Lemma pre_open_len s id rel m : (List.length (s_conns s) <= List.length (s_conns (pre_open s id rel m)))%nat.
Proof.
  unfold pre_open. destruct (known s id); [apply Nat.le_refl|]. cbn [add_known s_conns].
  destruct (open_conn_spec (set_last s rel) id (is_get_registry m)) as (Hc & _). rewrite Hc.
  rewrite app_length, close_conn_len. cbn [set_last s_conns List.length]. lia.
Qed.

Lemma log_message_len s id rel m :
  let s' := fst (log_message P s id rel m) in
  (List.length (s_conns s) <= List.length (s_conns s'))%nat /\
  Forall (fun p => (fst p < List.length (s_conns s'))%nat) (delivered_of (arrival P s id rel m)).
Proof.
  cbn zeta. unfold arrival. destruct (s_parse s) eqn:Hp; cbn [negb].
  2: { rewrite log_message_off by exact Hp. cbn [fst delivered_of]. split; [apply Nat.le_refl|constructor]. }
  rewrite log_message_eq by exact Hp.
  pose proof (pre_open_len s id rel m) as Hl. set (s2 := pre_open s id rel m) in *.
  destruct (finish_ctrl (conn_message P s2 id rel m)) as [_ ->].
  pose proof (conn_message_cases P s2 id rel m) as H.
  destruct (find_open s2 id) as [i|].
  - destruct H as (c & Hi & _ & Hc & _). cbn zeta in Hc. rewrite Hc, Hi, update_nth_length.
    split; [exact Hl|].
    destruct (resolve_msg P (c_db c) rel m) as [[d' rm] err].
    destruct err as [[[] msg]|]; cbn [delivered_of]; try constructor; [|constructor].
    cbn [fst]. apply nth_error_Some. congruence.
  - rewrite H. cbn [fst delivered_of]. split; [exact Hl|constructor].
Qed.

Lemma log_message_idx s id rel m : idx_ok s -> idx_ok (fst (log_message P s id rel m)).
Proof.
  unfold idx_ok. intros H. rewrite log_message_all. destruct (log_message_len s id rel m) as [Hl Hd].
  cbn zeta in Hl, Hd. apply Forall_app. split; [|exact Hd].
  eapply Forall_impl; [|exact H]. cbn beta. intros p Hp. lia.
Qed.

(* the accepted attempts are the deliveries *)
Lemma attempt_arrival s id rel m :
  match arrival P s id rel m with
  | ADelivered ci _ _ rm => attempt s id rel m = Some (ci, rm)
  | AOff => attempt s id rel m = None
  | _ => True
  end.
Proof.
  unfold arrival, attempt. destruct (negb (s_parse s)); [reflexivity|].
  destruct (find_open _ id) as [i|]; [|exact I]. destruct (nth_error _ i) as [c|]; [|exact I].
  destruct (resolve_msg P (c_db c) rel m) as [[d' rm] err]. cbn [fst snd].
  destruct err as [[[] msg]|]; try exact I. reflexivity.
Qed.

End WithP.

(* ---- 1. whole runs: what is recorded is what was delivered -------------------------------------- *)
Section Record.
Variable P : pdb.

Definition kall (T : top) : list (nat * rmsg) := k_all (s_ctrl (t_sess T)).

(* what the event delivers: the (connection, message) of a message line that is resolved and
   accepted, in the state [T] the run has reached; nothing for text lines and commands, nothing
   for a line that is refused (RuntimeError or worse) or arrives while decoding is off *)
Definition delivered1 (T : top) (e : event) : list (nat * rmsg) :=
  match e with EMsg id m => delivered_of (arrival_top P T id m) | _ => [] end.

Fixpoint delivered (T : top) (evs : list event) : list (nat * rmsg) :=
  match evs with
  | [] => []
  | e :: evs' => delivered1 T e ++ delivered (fst (step P T e)) evs'
  end.

(* what the event appends to connection number [j]'s own list: accepted or refused alike *)
Definition attempt_top (T : top) (id : str) (m : pmsg) : option (nat * rmsg) :=
  attempt P (t_sess T) id (snd (rel_time (t_base T) (p_time m))) m.
Definition own1 (T : top) (e : event) (j : nat) : list rmsg :=
  match e with EMsg id m => own_of (attempt_top T id m) j | _ => [] end.
Fixpoint own (T : top) (evs : list event) (j : nat) : list rmsg :=
  match evs with
  | [] => []
  | e :: evs' => own1 T e j ++ own (fst (step P T e)) evs' j
  end.

Lemma record_fields s s' : record_of s' = record_of s ->
  s_conns s' = s_conns s /\ k_all (s_ctrl s') = k_all (s_ctrl s).
Proof.
  unfold record_of. intros R. split.
  - exact (f_equal (fun x => fst (fst (fst (fst x)))) R).
  - exact (f_equal (fun x => snd (fst (fst x))) R).
Qed.

Lemma step_records T e : log_event e = true ->
  let T1 := fst (step P T e) in
  kall T1 = kall T ++ delivered1 T e /\
  (forall j, msgs_at (t_sess T1) j = msgs_at (t_sess T) j ++ own1 T e j) /\
  (idx_ok (t_sess T) -> idx_ok (t_sess T1)).
Proof.
  intros Hl. cbn zeta. destruct e as [id m|t|c| | | | | | | ]; try discriminate.
  - destruct (step_msg P T id m) as [_ Hs]. unfold kall. rewrite Hs. cbn [delivered1 own1].
    unfold arrival_top, attempt_top.
    split; [apply log_message_all|]. split; [intros j; apply log_message_own_list|apply log_message_idx].
  - destruct (step_nonmsg P T (EText t) eq_refl) as [_ R]; [intros; discriminate|].
    destruct (record_fields _ _ R) as [Rc Ra]. unfold kall, msgs_at, idx_ok. rewrite Rc, Ra.
    cbn [delivered1 own1]. split; [symmetry; apply app_nil_r|]. split; [intros j; symmetry; apply app_nil_r|tauto].
  - destruct (step_nonmsg P T (ECmd c) eq_refl) as [_ R]; [intros; discriminate|].
    destruct (record_fields _ _ R) as [Rc Ra]. unfold kall, msgs_at, idx_ok. rewrite Rc, Ra.
    cbn [delivered1 own1]. split; [symmetry; apply app_nil_r|]. split; [intros j; symmetry; apply app_nil_r|tauto].
Qed.

(* THEOREM 1.  From any state, over any log-mode events: the record after the run is the record
   before it followed by exactly the delivered messages, in order of arrival *)
Theorem record_is_delivered evs : forall T, forallb log_event evs = true ->
  kall (fst (run P T evs)) = kall T ++ delivered T evs.
Proof.
  induction evs as [|e evs IH]; intros T Hl.
  - cbn [run fst delivered]. symmetry. apply app_nil_r.
  - cbn [forallb] in Hl. apply andb_true_iff in Hl. destruct Hl as [He Hl].
    rewrite run_cons, IH by exact Hl. destruct (step_records T e He) as (H1 & _). cbn zeta in H1.
    rewrite H1. cbn [delivered]. rewrite app_assoc. reflexivity.
Qed.

(* the same for each connection's own list, which also keeps the refused messages *)
Theorem own_list_is_attempted evs : forall T j, forallb log_event evs = true ->
  msgs_at (t_sess (fst (run P T evs))) j = msgs_at (t_sess T) j ++ own T evs j.
Proof.
  induction evs as [|e evs IH]; intros T j Hl.
  - cbn [run fst own]. symmetry. apply app_nil_r.
  - cbn [forallb] in Hl. apply andb_true_iff in Hl. destruct Hl as [He Hl].
    rewrite run_cons, IH by exact Hl. destruct (step_records T e He) as (_ & H2 & _). cbn zeta in H2.
    rewrite H2. cbn [own]. rewrite app_assoc. reflexivity.
Qed.

Theorem idx_ok_run evs : forall T, forallb log_event evs = true ->
  idx_ok (t_sess T) -> idx_ok (t_sess (fst (run P T evs))).
Proof.
  induction evs as [|e evs IH]; intros T Hl H; [exact H|].
  cbn [forallb] in Hl. apply andb_true_iff in Hl. destruct Hl as [He Hl].
  rewrite run_cons. apply IH; [exact Hl|]. destruct (step_records T e He) as (_ & _ & H3). exact (H3 H).
Qed.

Lemma idx_ok_top0 d st c u g : idx_ok (t_sess (top0 d st c u g)).
Proof. constructor. Qed.

(* the delivered messages of a connection are among those of its own list: a delivery is an
   accepted attempt *)
Lemma delivered1_own1 T e j :
  map snd (filter (fun p => Nat.eqb (fst p) j) (delivered1 T e)) = own1 T e j \/
  (delivered1 T e = [] /\ exists rm, own1 T e j = [rm]) .
Proof.
  destruct e as [id m|t|c| | | | | | | ]; try (left; reflexivity).
  cbn [delivered1 own1]. unfold arrival_top, attempt_top.
  pose proof (attempt_arrival P (t_sess T) id (snd (rel_time (t_base T) (p_time m))) m) as H.
  destruct (arrival P _ id _ m) as [|ci cn d rm|msg|]; cbn [delivered_of].
  - rewrite H. left. reflexivity.
  - rewrite H. left. cbn [filter fst own_of]. destruct (Nat.eqb ci j); reflexivity.
  - destruct (attempt P _ id _ m) as [[i rm]|]; cbn [own_of]; [|left; reflexivity].
    destruct (Nat.eqb i j); [right; split; [reflexivity|eexists; reflexivity]|left; reflexivity].
  - destruct (attempt P _ id _ m) as [[i rm]|]; cbn [own_of]; [|left; reflexivity].
    destruct (Nat.eqb i j); [right; split; [reflexivity|eexists; reflexivity]|left; reflexivity].
Qed.

End Record.

(* ---- 2. one `list` command, any state -------------------------------------------------------------- *)
Definition lastn_opt {A} (cap : option nat) (l : list A) : list A :=
  match cap with Some c => lastn c l | None => l end.

(* the scope of a listing: the selected connection's own messages, or everything recorded *)
Definition scope_of (s : sess) : list (nat * rmsg) := conn_messages_of s (k_current (s_ctrl s)).

Lemma scope_of_eq s :
  scope_of s = match k_current (s_ctrl s) with
               | None => k_all (s_ctrl s)
               | Some i => map (fun m => (i, m)) (msgs_at s i)
               end.
Proof.
  unfold scope_of, conn_messages_of, msgs_at. destruct (k_current (s_ctrl s)) as [i|]; [|reflexivity].
  destruct (nth_error (s_conns s) i); reflexivity.
Qed.

Definition list_matching (s : sess) (mm : mt) : list (nat * rmsg) :=
  filter (fun x => matches mm (msg_view s x)) (scope_of s).
Definition list_shown (s : sess) (mm : mt) (cap : option Z) : list (nat * rmsg) :=
  lastn_opt (cap_of cap) (list_matching s mm).

(* the line a listing prints for a message: rendered with the connection's CURRENT object table *)
Definition list_item (s : sess) (p : nat * rmsg) : oline :=
  match nth_error (s_conns s) (fst p) with
  | Some c => OMsg (fst p) (snd p) (show_msg (s_color s) (c_db c) (c_name c) (snd p))
  | None => OOM
  end.

Lemma cap_of_some cap : match cap_of cap with Some c => (0 < c)%nat | None => True end.
Proof.
  destruct cap as [[|p|p]|]; cbn [cap_of]; try exact I.
  - change (Z.pos p <? 0) with false. cbn iota. lia.
  - change (Z.neg p <? 0) with true. cbn iota. lia.
Qed.

(* N >= 1: the cap is N; 0: no cap at all; negative: the cap is 1 *)
Lemma cap_of_cases z :
  (0 < z -> cap_of (Some z) = Some (Z.to_nat z)) /\ cap_of (Some 0) = None /\ (z < 0 -> cap_of (Some z) = Some 1%nat).
Proof. destruct z as [|p|p]; repeat split; intros; try reflexivity; lia. Qed.

(* "not checked" is positive only when the cap was reached *)
Lemma scan_ns s m cap r : forall acc d res dd ns,
  scan_matching s m cap r acc d = (res, dd, ns) ->
  ns = 0%nat \/ exists c, cap = Some c /\ (c <= List.length res)%nat.
Proof.
  induction r as [|x r IH]; intros acc d res dd ns H; cbn [scan_matching] in H.
  - injection H as _ _ <-. left. reflexivity.
  - destruct (matches m (msg_view s x)); [|exact (IH _ _ _ _ _ H)].
    destruct cap as [c|]; [|exact (IH _ _ _ _ _ H)].
    destruct (Nat.leb c (List.length (x :: acc))) eqn:El; [|exact (IH _ _ _ _ _ H)].
    injection H as <- _ _. right. exists c. split; [reflexivity|apply Nat.leb_le; exact El].
Qed.

Lemma lastn_opt_Forall {A} (Q : A -> Prop) cap (f : A -> bool) l :
  Forall Q l -> Forall Q (lastn_opt cap (filter f l)).
Proof.
  intros H. assert (Hf : Forall Q (filter f l)).
  { rewrite Forall_forall in *. intros x Hx. apply filter_In in Hx. apply H. exact (proj1 Hx). }
  destruct cap as [c|]; [|exact Hf]. cbn [lastn_opt]. unfold lastn.
  rewrite Forall_forall in *. intros x Hx. apply in_rev in Hx. apply Hf, in_rev.
  rewrite <- (firstn_skipn c (rev (filter f l))). apply in_or_app. left. exact Hx.
Qed.

Lemma scope_valid s : idx_ok s -> Forall (fun p => (fst p < List.length (s_conns s))%nat) (scope_of s).
Proof.
  intros H. unfold scope_of, conn_messages_of. destruct (k_current (s_ctrl s)) as [i|]; [|exact H].
  destruct (nth_error (s_conns s) i) as [c|] eqn:E; [|constructor].
  rewrite Forall_forall. intros p Hp. apply in_map_iff in Hp. destruct Hp as (x & <- & _). cbn [fst].
  apply nth_error_Some. congruence.
Qed.

Lemma fold_show_strip on cs : forall matching acc,
  Forall (fun p => (fst p < List.length cs)%nat) matching ->
  SeparatorRuns.strip (fst (fold_left (show_fold on cs) matching acc)) =
  SeparatorRuns.strip (fst acc) ++
  map (fun p => match nth_error cs (fst p) with
                | Some c => OMsg (fst p) (snd p) (show_msg on (c_db c) (c_name c) (snd p))
                | None => OOM end) matching.
Proof.
  induction matching as [|p l IH]; intros acc Hv; cbn [fold_left map]; [symmetry; apply app_nil_r|].
  inversion Hv as [|? ? Hp Hl]; subst. rewrite IH by exact Hl. unfold show_fold.
  destruct (nth_error cs (fst p)) as [c|] eqn:E.
  2: { exfalso. apply nth_error_None in E. lia. }
  rewrite show_message_eq. cbn [fst]. rewrite !strip_app, strip_sep_for. cbn [app].
  rewrite <- app_assoc. reflexivity.
Qed.

(* what a listing is, for the matcher [mm] and the cap [cap], in state [s]; [s'] the state after *)
Definition listing (s : sess) (mm : mt) (cap : option Z) (s' : sess) (o : list oline) : Prop :=
  let shown := list_shown s mm cap in
  let k := s_ctrl s in
  exists didnt ns : nat,
    (List.length shown + didnt + ns = List.length (scope_of s))%nat /\
    (ns = 0%nat \/ exists c, cap_of cap = Some c /\ (c <= List.length shown)%nat) /\
    match shown with
    | [] => s' = s /\ o = [header_line (s_color s) mm; none_line (s_color s) (s_conns s) didnt]
    | _ => s' = set_ctrl s (mkCtrl (k_display k) (k_stop k) (k_current k) (k_all k) None) /\
           exists outs, o = [header_line (s_color s) mm] ++ outs ++
                            [counts_line (s_color s) (List.length shown) didnt ns] /\
                        SeparatorRuns.strip outs = map (list_item s) shown
    end.

Lemma show_messages_listing s mm cap : idx_ok s ->
  listing s mm cap (fst (show_messages s mm cap)) (snd (show_messages s mm cap)).
Proof.
  intros Hok. unfold listing. cbn zeta. rewrite show_messages_eq. cbn zeta. fold (scope_of s).
  destruct (scan_matching s mm (cap_of cap) (rev (scope_of s)) [] 0) as [[res d] ns] eqn:E.
  destruct (list_exact s mm (cap_of cap) (scope_of s) res d ns (cap_of_some cap) E) as [R1 R2].
  cbn zeta in R1. fold (list_matching s mm) in R1. fold (lastn_opt (cap_of cap) (list_matching s mm)) in R1.
  fold (list_shown s mm cap) in R1.
  pose proof (scan_ns _ _ _ _ _ _ _ _ _ E) as Hns. subst res.
  exists d, ns. split; [exact R2|]. split; [exact Hns|].
  assert (Hv : Forall (fun p => (fst p < List.length (s_conns s))%nat) (list_shown s mm cap)).
  { unfold list_shown, list_matching. apply lastn_opt_Forall. apply scope_valid. exact Hok. }
  destruct (list_shown s mm cap) as [|x l] eqn:Es; cbn [fst snd]; [split; reflexivity|].
  pose proof (fold_show_strip (s_color s) (s_conns s) (x :: l) ([], None) Hv) as F.
  destruct (fold_left (show_fold (s_color s) (s_conns s)) (x :: l) ([], None)) as [outs lst]. cbn [fst snd] in *.
  split; [reflexivity|]. exists outs. split; [reflexivity|exact F].
Qed.

(* consequences of [listing] *)
Lemma shown_msgs_cons x l : shown_msgs (x :: l) = shown_msgs [x] ++ shown_msgs l.
Proof. exact (shown_msgs_app [x] l). Qed.

Lemma shown_msgs_strip o : shown_msgs (SeparatorRuns.strip o) = shown_msgs o.
Proof.
  induction o as [|x o IH]; [reflexivity|]. unfold SeparatorRuns.strip. cbn [filter].
  fold (SeparatorRuns.strip o). destruct (not_sep x) eqn:E.
  - rewrite (shown_msgs_cons x o), shown_msgs_cons, IH. reflexivity.
  - rewrite IH, (shown_msgs_cons x o). destruct x; try reflexivity; discriminate E.
Qed.

Lemma shown_msgs_items s l :
  Forall (fun p => (fst p < List.length (s_conns s))%nat) l -> shown_msgs (map (list_item s) l) = l.
Proof.
  induction l as [|p l IH]; intros Hv; [reflexivity|]. inversion Hv as [|? ? Hp Hl]; subst.
  cbn [map]. rewrite shown_msgs_cons, IH by exact Hl. unfold list_item. destruct (nth_error (s_conns s) (fst p)) eqn:E.
  - destruct p; reflexivity.
  - exfalso. apply nth_error_None in E. lia.
Qed.

Lemma header_no_msg on mm : shown_msgs [header_line on mm] = [].
Proof. reflexivity. Qed.
Lemma counts_no_msg on a b c : shown_msgs [counts_line on a b c] = [].
Proof. reflexivity. Qed.
Lemma none_no_msg on cs d : shown_msgs [none_line on cs d] = [].
Proof. destruct cs; reflexivity. Qed.

Theorem listing_shown s mm cap s' o : idx_ok s -> listing s mm cap s' o ->
  shown_msgs o = list_shown s mm cap.
Proof.
  intros Hok (d & ns & _ & _ & H). cbn zeta in H.
  assert (Hv : Forall (fun p => (fst p < List.length (s_conns s))%nat) (list_shown s mm cap)).
  { unfold list_shown, list_matching. apply lastn_opt_Forall. apply scope_valid. exact Hok. }
  destruct (list_shown s mm cap) as [|x l] eqn:Es.
  - destruct H as [_ ->]. rewrite shown_msgs_cons, none_no_msg. reflexivity.
  - destruct H as (_ & outs & -> & Hs). rewrite !shown_msgs_app, header_no_msg, counts_no_msg, app_nil_r. cbn [app].
    rewrite <- shown_msgs_strip, Hs. apply shown_msgs_items. exact Hv.
Qed.

(* everything a listing reads ... *)
Definition list_view (s s' : sess) : Prop :=
  s_conns s' = s_conns s /\ k_all (s_ctrl s') = k_all (s_ctrl s) /\
  k_display (s_ctrl s') = k_display (s_ctrl s) /\
  k_current (s_ctrl s') = k_current (s_ctrl s) /\ s_color s' = s_color s.
(* ... and the breakpoint matcher *)
Definition same_view (s s' : sess) : Prop := list_view s s' /\ k_stop (s_ctrl s') = k_stop (s_ctrl s).

Lemma list_view_refl s : list_view s s.
Proof. repeat split. Qed.
Lemma list_view_trans a b c : list_view a b -> list_view b c -> list_view a c.
Proof. intros (A1 & A2 & A3 & A4 & A5) (B1 & B2 & B3 & B4 & B5). repeat split; congruence. Qed.

Theorem listing_readonly s mm cap s' o : listing s mm cap s' o -> same_view s s'.
Proof.
  intros (d & ns & _ & _ & H). cbn zeta in H. destruct (list_shown s mm cap).
  - destruct H as [-> _]. repeat split.
  - destruct H as [-> _]. repeat split.
Qed.

(* a listing that shows nothing reports the size of its scope *)
Theorem listing_none s mm cap s' o : listing s mm cap s' o -> list_shown s mm cap = [] ->
  s' = s /\ o = [header_line (s_color s) mm; none_line (s_color s) (s_conns s) (List.length (scope_of s))].
Proof.
  intros (d & ns & Hsum & Hns & H) E. cbn zeta in H. rewrite E in *. cbn [List.length] in *.
  destruct H as [-> ->]. split; [reflexivity|].
  assert (ns = 0%nat) as ->.
  { destruct Hns as [->|(c & Hc & Hle)]; [reflexivity|]. pose proof (cap_of_some cap) as Hp. rewrite Hc in Hp. lia. }
  replace d with (List.length (scope_of s)) by lia. reflexivity.
Qed.

(* ---- the `list` command: its argument ------------------------------------------------------------ *)
Definition list_cap (a : str) : res (option Z) :=
  match split_tilde a with
  | [_; c] => match py_int c with
              | Ok z => Ok (Some z)
              | Raise ValueError _ => Raise ValueError c
              | Raise e m => Raise e m
              end
  | _ => Ok None
  end.
Definition list_mtext (a : str) : str := match split_tilde a with x :: _ => x | [] => [] end.
Definition parse_fail_line (on : bool) (text : str) : oline :=
  error_line on [Txt (s2l "Failed to parse """ ++ text ++ [34; 58; 10; 32; 32; 32; 32]%N); AnyText].
Definition bad_cap_line (on : bool) (c : str) : oline :=
  error_line on (txt (s2l "Expected number after '~', got '" ++ c ++ [39%N])).

Inductive lquery :=
| QList (errs : list oline) (mm : mt) (cap : option Z)   (* a listing for [mm], [cap], behind [errs] *)
| QFail (o : list oline).                                (* no listing: just these lines *)

Definition list_query (s : sess) (a : str) : lquery :=
  match list_cap a with
  | Raise ValueError c => QFail [bad_cap_line (s_color s) c]
  | Raise _ _ => QFail [OOM]
  | Ok cap =>
      match list_mtext a with
      | [] => QList [] (k_display (s_ctrl s)) cap
      | t => match parse t with
             | Ok p => QList [] (simplify p) cap
             | Raise RuntimeError _ => QList [parse_fail_line (s_color s) t] (MAlways false) cap
             | Raise _ _ => QFail [OOM]
             end
      end
  end.

Lemma cmd_list_eq s a :
  cmd_list s a = match list_query s a with
                 | QList errs mm cap => (fst (show_messages s mm cap), errs ++ snd (show_messages s mm cap))
                 | QFail o => (s, o)
                 end.
Proof.
  unfold cmd_list, list_query, list_cap, list_mtext, parse_and_join, bad_cap_line, parse_fail_line.
  cbv zeta.
  repeat match goal with
         | |- context [match ?x with _ => _ end] =>
             lazymatch x with
             | context [match _ with _ => _ end] => fail
             | _ => destruct x
             end
         end;
  try match goal with |- context [show_messages ?a ?b ?c] => destruct (show_messages a b c) end; reflexivity.
Qed.

(* ---- from the typed line to the command ------------------------------------------------------------- *)
Lemma get_command_some on c x errs : get_command' on c = (Some x, errs) -> errs = [] /\ In x command_names.
Proof.
  unfold get_command'. intros H.
  destruct (filter (starts_with c) command_names) as [|y [|z l]] eqn:E; try discriminate H.
  injection H as <- <-. split; [reflexivity|].
  assert (Hin : In y (filter (starts_with c) command_names)) by (rewrite E; left; reflexivity).
  apply filter_In in Hin. exact (proj1 Hin).
Qed.

(* a line that resolves to anything but `help` prints nothing before the command runs *)
Lemma resolve_pre_nil fuel : forall on input pre name a,
  resolve_cmd fuel on input = (pre, Some (name, a)) -> name = s2l "help" \/ pre = [].
Proof.
  induction fuel as [|f IH]; intros on input pre name a H; [discriminate H|].
  cbn [resolve_cmd] in H.
  destruct (split_first_space (Base.strip input)) as [a0 a1].
  set (second := match a1 with Some r => Base.strip (no_color r) | None => [] end) in *.
  destruct (Base.strip (no_color a0)) as [|f0 fr].
  - destruct second as [|s0 sr]; [|exact (IH _ _ _ _ _ H)].
    change (str_eqb (s2l "help") [119%N] || str_eqb (s2l "help") (s2l "wl")) with false in H.
    cbv beta iota in H.
    change (get_command' on (if starts_with (s2l "wl") (s2l "help") then skipn 2 (s2l "help") else s2l "help"))
      with (Some (s2l "help"), @nil oline) in H.
    cbv beta iota in H. injection H as _ <- _. left. reflexivity.
  - assert (H' : (if str_eqb (f0 :: fr) [119%N] || str_eqb (f0 :: fr) (s2l "wl")
                  then let '(o, r) := resolve_cmd f on second in ([] ++ o, r)
                  else let '(cmd, errs) := get_command' on (if starts_with (s2l "wl") (f0 :: fr) then skipn 2 (f0 :: fr) else f0 :: fr) in
                       match cmd with Some name => ([] ++ errs, Some (name, second)) | None => ([] ++ errs, None) end)
                 = (pre, Some (name, a))).
    { destruct second; exact H. }
    clear H. destruct (str_eqb (f0 :: fr) [119%N] || str_eqb (f0 :: fr) (s2l "wl")).
    + destruct (resolve_cmd f on second) as [o r] eqn:E. injection H' as <- ->. exact (IH _ _ _ _ _ E).
    + destruct (get_command' on _) as [[x|] errs] eqn:E; [|discriminate H'].
      injection H' as <- _ _. destruct (get_command_some _ _ _ _ E) as [-> _]. right. reflexivity.
Qed.

(* which command (and argument text) a typed line resolves to: abbreviations, `w` / `wl` prefixes,
   colour sequences stripped; it does not depend on the colour switch
   (a notation, so that no proof ever has to unfold anything next to [command_fuel]) *)
Notation resolved c := (snd (resolve_cmd command_fuel false c)).

Lemma resolved_any fuel on c : snd (resolve_cmd fuel on c) = snd (resolve_cmd fuel false c).
Proof. destruct on; [apply (resolve_cmd_sim fuel c)|reflexivity]. Qed.

Lemma list_not_help : s2l "list" <> s2l "help".
Proof. intros H. apply str_eqb_eq in H. discriminate H. Qed.

Lemma process_list fuel s c a : snd (resolve_cmd fuel false c) = Some (s2l "list", a) ->
  process_command fuel s c = cmd_list s a.
Proof.
  intros H. rewrite <- (resolved_any fuel (s_color s) c) in H.
  unfold process_command. destruct (resolve_cmd fuel (s_color s) c) as [pre r] eqn:E. cbn [snd] in H. subst r.
  destruct (resolve_pre_nil _ _ _ _ _ _ E) as [Hh| ->]; [exfalso; exact (list_not_help Hh)|].
  change (run_command s (s2l "list") a) with (cmd_list s a). destruct (cmd_list s a); reflexivity.
Qed.

(* one `list` command, any state whose record names existing connections *)
Theorem cmd_list_spec s a : idx_ok s ->
  let s' := fst (cmd_list s a) in
  let o := snd (cmd_list s a) in
  same_view s s' /\
  match list_query s a with
  | QFail e => o = e /\ s' = s
  | QList errs mm cap => exists o', o = errs ++ o' /\ listing s mm cap s' o'
  end.
Proof.
  intros Hok. cbn zeta. rewrite cmd_list_eq. destruct (list_query s a) as [errs mm cap|e]; cbn [fst snd].
  - pose proof (show_messages_listing s mm cap Hok) as L. split; [exact (listing_readonly _ _ _ _ _ L)|].
    eexists. split; [reflexivity|exact L].
  - split; [repeat split|split; reflexivity].
Qed.

(* ---- 2/3. the `list` command inside a run ------------------------------------------------------------ *)
Lemma firstn_S_nth {A} (l : list A) : forall k e, nth_error l k = Some e -> firstn (S k) l = firstn k l ++ [e].
Proof.
  induction l as [|x l IH]; intros [|k] e H; cbn [nth_error] in H; try discriminate.
  - injection H as ->. reflexivity.
  - cbn [firstn app]. f_equal. apply IH. exact H.
Qed.

Lemma forallb_firstn_log (l : list event) : forall n, forallb log_event l = true -> forallb log_event (firstn n l) = true.
Proof.
  induction l as [|x l IH]; intros [|n] H; try reflexivity. cbn [forallb firstn] in *.
  apply andb_true_iff in H. destruct H as [Hx Hl]. rewrite Hx, (IH n Hl). reflexivity.
Qed.

Section ListEvents.
Variable P : pdb.

Lemma step_cmd_list T c a : resolved c = Some (s2l "list", a) ->
  t_sess (fst (step P T (ECmd c))) = fst (cmd_list (t_sess T) a) /\
  snd (step P T (ECmd c)) = snd (cmd_list (t_sess T) a).
Proof.
  intros Hr. destruct T as [b s]. unfold step. cbn [t_sess t_base].
  rewrite (process_list command_fuel s c a Hr). destruct (cmd_list s a) as [s1 o]. split; reflexivity.
Qed.

(* the state after the first k+1 events is one step from the state after the first k *)
Lemma run_firstn_S T evs k e : nth_error evs k = Some e ->
  fst (run P T (firstn (S k) evs)) = fst (step P (fst (run P T (firstn k evs))) e).
Proof.
  intros H. rewrite (firstn_S_nth _ _ _ H), run_app.
  destruct (run P T (firstn k evs)) as [T1 o1]. cbn [run fst].
  destruct (step P T1 e) as [T2 o2]. reflexivity.
Qed.

(* the state reached after the first k events *)
Definition at_ (T : top) (evs : list event) (k : nat) : sess := t_sess (fst (run P T (firstn k evs))).

(* THEOREM 2.  From any state (whose record names existing connections), over any log-mode events:
   if the k-th event is a command that resolves to `list` with argument text [a], then - with [s]
   the state reached just before it and [s'] the state just after -
   - filter, breakpoint matcher, selection, connections and record are the same in [s'] and [s];
   - if the cap text is not a number: one error line, nothing else;
   - otherwise the output is a listing for the parsed-and-simplified matcher of the argument
     (the current filter when no matcher text is given; "matches nothing" behind an error line when
     the text does not parse) and the cap. *)
Theorem list_event T evs k c a :
  forallb log_event evs = true -> idx_ok (t_sess T) ->
  nth_error evs k = Some (ECmd c) -> resolved c = Some (s2l "list", a) ->
  let s := at_ T evs k in
  let s' := at_ T evs (S k) in
  exists o, nth_error (snd (run P T evs)) k = Some o /\
    same_view s s' /\
    match list_query s a with
    | QFail e => o = e /\ s' = s
    | QList errs mm cap => exists o', o = errs ++ o' /\ listing s mm cap s' o'
    end.
Proof.
  intros Hl Hok Hk Hr. cbn zeta. unfold at_. rewrite (run_firstn_S T evs k _ Hk).
  eexists. split; [apply run_nth; exact Hk|].
  pose proof (idx_ok_run P (firstn k evs) T (forallb_firstn_log evs k Hl) Hok) as Hok'.
  set (Tk := fst (run P T (firstn k evs))) in *.
  destruct (step_cmd_list Tk c a Hr) as [-> ->].
  exact (cmd_list_spec (t_sess Tk) a Hok').
Qed.

(* the scope in terms of the run: the start state's record and what the events delivered since *)
Definition scope_run (T : top) (evs : list event) (sel : option nat) : list (nat * rmsg) :=
  match sel with
  | None => kall T ++ delivered P T evs
  | Some i => map (fun m => (i, m)) (msgs_at (t_sess T) i ++ own P T evs i)
  end.

Lemma scope_of_run T evs : forallb log_event evs = true ->
  let s := t_sess (fst (run P T evs)) in
  scope_of s = scope_run T evs (k_current (s_ctrl s)).
Proof.
  intros Hl. cbn zeta. rewrite scope_of_eq. unfold scope_run.
  destruct (k_current _) as [i|].
  - rewrite own_list_is_attempted by exact Hl. reflexivity.
  - exact (record_is_delivered P evs T Hl).
Qed.

(* THEOREM 3.  The message items of the listing at event k are exactly - in order, oldest first -
   the messages that match, among the start state's record followed by what the message events
   BEFORE k delivered (no selection) / among the selected connection's own messages: those of the
   start state followed by every message line attributed to it BEFORE k (selection);
   with a cap, the last N of them.  The counts add up to the size of that scope. *)
Theorem list_shows_delivered T evs k c a errs mm cap :
  forallb log_event evs = true -> idx_ok (t_sess T) ->
  nth_error evs k = Some (ECmd c) -> resolved c = Some (s2l "list", a) ->
  let s := at_ T evs k in
  list_query s a = QList errs mm cap ->
  let scope := scope_run T (firstn k evs) (k_current (s_ctrl s)) in
  let shown := lastn_opt (cap_of cap) (filter (fun x => matches mm (msg_view s x)) scope) in
  exists o, nth_error (snd (run P T evs)) k = Some o /\
    shown_msgs o = shown /\
    (shown = [] ->
       o = errs ++ [header_line (s_color s) mm; none_line (s_color s) (s_conns s) (List.length scope)]) /\
    (shown <> [] -> exists outs didnt ns,
       o = errs ++ [header_line (s_color s) mm] ++ outs ++ [counts_line (s_color s) (List.length shown) didnt ns] /\
       SeparatorRuns.strip outs = map (list_item s) shown /\
       (List.length shown + didnt + ns = List.length scope)%nat /\
       (ns = 0%nat \/ exists n, cap_of cap = Some n /\ (n <= List.length shown)%nat)).
Proof.
  intros Hl Hok Hk Hr s Hq. cbn zeta.
  destruct (list_event T evs k c a Hl Hok Hk Hr) as (o & Ho & _ & H). cbn zeta in H. fold s in H.
  rewrite Hq in H. destruct H as (o' & -> & L).
  assert (Hoks : idx_ok s) by (exact (idx_ok_run P (firstn k evs) T (forallb_firstn_log evs k Hl) Hok)).
  pose proof (scope_of_run T (firstn k evs) (forallb_firstn_log evs k Hl)) as Hsc. cbn zeta in Hsc.
  fold (at_ T evs k) in Hsc. fold s in Hsc. rewrite <- Hsc.
  change (lastn_opt (cap_of cap) (filter (fun x => matches mm (msg_view s x)) (scope_of s))) with (list_shown s mm cap).
  exists (errs ++ o'). split; [exact Ho|].
  assert (He : shown_msgs errs = []).
  { unfold list_query in Hq. destruct (list_cap a) as [cp|[] msg]; try discriminate Hq.
    destruct (list_mtext a) as [|t0 t]; [injection Hq as <- _ _; reflexivity|].
    destruct (parse (t0 :: t)) as [p|[] msg]; try discriminate Hq; injection Hq as <- _ _; reflexivity. }
  split; [rewrite shown_msgs_app, He; exact (listing_shown _ _ _ _ _ Hoks L)|].
  split.
  - intros E. destruct (listing_none _ _ _ _ _ L E) as [_ ->]. reflexivity.
  - intros Hne. destruct L as (d & ns & Hsum & Hns & H). cbn zeta in H.
    destruct (list_shown s mm cap) as [|x l] eqn:Es; [contradiction|].
    destruct H as (_ & outs & -> & Hst). exists outs, d, ns. repeat split; assumption.
Qed.

End ListEvents.

(* ---- 3'. the selected connection's own list versus the record ------------------------------------- *)
Section Restriction.
Variable P : pdb.

Definition on_conn (j : nat) (l : list (nat * rmsg)) : list (nat * rmsg) := filter (fun p => Nat.eqb (fst p) j) l.

(* no message line attributed to connection [j] is refused during the run *)
Fixpoint none_refused (T : top) (evs : list event) (j : nat) : Prop :=
  match evs with
  | [] => True
  | e :: evs' => map snd (on_conn j (delivered1 P T e)) = own1 P T e j /\ none_refused (fst (step P T e)) evs' j
  end.

Lemma own_delivered evs : forall T j, none_refused T evs j ->
  own P T evs j = map snd (on_conn j (delivered P T evs)).
Proof.
  induction evs as [|e evs IH]; intros T j H; [reflexivity|]. destruct H as [H1 H2].
  cbn [own delivered]. unfold on_conn in *. rewrite filter_app, map_app, <- H1, (IH _ _ H2). reflexivity.
Qed.

Lemma pair_on_conn j l : map (fun m => (j, m)) (map snd (on_conn j l)) = on_conn j l.
Proof.
  induction l as [|[i m] l IH]; [reflexivity|]. unfold on_conn in *. cbn [filter fst].
  destruct (Nat.eqb i j) eqn:E; [|exact IH]. apply Nat.eqb_eq in E. subst i. cbn [map snd]. rewrite IH. reflexivity.
Qed.

(* if the start state's list of connection [j] is the record restricted to [j], and no line for
   [j] is refused, the scope of a listing with [j] selected is the record restricted to [j] *)
Theorem selected_scope_is_restriction T evs j :
  msgs_at (t_sess T) j = map snd (on_conn j (kall T)) -> none_refused T evs j ->
  scope_run P T evs (Some j) = on_conn j (scope_run P T evs None).
Proof.
  intros H0 Hn. unfold scope_run. rewrite H0, (own_delivered evs T j Hn), <- map_app.
  unfold on_conn. rewrite <- filter_app. apply pair_on_conn.
Qed.

End Restriction.

(* ---- 4. the same command again -------------------------------------------------------------------- *)
Lemma show_messages_view s s' mm cap : list_view s s' ->
  snd (show_messages s' mm cap) = snd (show_messages s mm cap).
Proof.
  intros (Hc & Ha & Hd & Hcur & Hcol). rewrite !show_messages_eq. cbn zeta.
  assert (Hs : conn_messages_of s' (k_current (s_ctrl s')) = conn_messages_of s (k_current (s_ctrl s))).
  { unfold conn_messages_of. rewrite Hcur, Ha, Hc. reflexivity. }
  rewrite Hs, (scan_matching_conns s' s mm (cap_of cap) _ Hc), Hcol, Hc.
  destruct (scan_matching s mm (cap_of cap) _ [] 0) as [[res d] ns].
  destruct res; [reflexivity|]. destruct (fold_left _ _ _). reflexivity.
Qed.

Lemma list_query_view s s' a : list_view s s' -> list_query s' a = list_query s a.
Proof. intros (_ & _ & Hd & _ & Hcol). unfold list_query. rewrite Hd, Hcol. reflexivity. Qed.

(* the output of `list` is a function of what [list_view] compares *)
Lemma cmd_list_view s s' a : list_view s s' -> snd (cmd_list s' a) = snd (cmd_list s a).
Proof.
  intros H. rewrite !cmd_list_eq, (list_query_view s s' a H).
  destruct (list_query s a) as [errs mm cap|e]; [|reflexivity]. cbn [snd].
  rewrite (show_messages_view s s' mm cap H). reflexivity.
Qed.

Lemma show_messages_keeps s mm cap : list_view s (fst (show_messages s mm cap)).
Proof.
  unfold show_messages. destruct (scan_matching _ _ _ _ _ _) as [[res d] ns].
  destruct res; [repeat split|]. destruct (fold_left _ _ _). repeat split.
Qed.

Ltac keepv :=
  repeat match goal with
         | |- context [if ?b then _ else _] => destruct b
         | |- context [match ?x with _ => _ end] => destruct x
         end; repeat split.

(* every command but `filter` and `connection` leaves what a listing reads alone *)
Lemma run_command_keeps s name arg : name <> s2l "filter" -> name <> s2l "connection" ->
  list_view s (fst (run_command s name arg)).
Proof.
  intros Hf Hc. unfold run_command.
  destruct (str_eqb name (s2l "help")). { unfold cmd_help. keepv. }
  destruct (str_eqb name (s2l "list")).
  { rewrite cmd_list_eq. destruct (list_query s arg); [apply show_messages_keeps|repeat split]. }
  destruct (str_eqb name (s2l "filter")) eqn:E1. { apply str_eqb_eq in E1. contradiction. }
  destruct (str_eqb name (s2l "breakpoint")). { unfold cmd_break. keepv. }
  destruct (str_eqb name (s2l "matcher")). { unfold cmd_matcher. keepv. }
  destruct (str_eqb name (s2l "connection")) eqn:E2. { apply str_eqb_eq in E2. contradiction. }
  destruct (str_eqb name (s2l "resume")); [repeat split|]. destruct (str_eqb name (s2l "quit")); repeat split.
Qed.

Definition keeps_name (r : option (str * str)) : Prop :=
  match r with Some (n, _) => n <> s2l "filter" /\ n <> s2l "connection" | None => True end.

Lemma process_command_keeps fuel s c : keeps_name (snd (resolve_cmd fuel false c)) ->
  list_view s (fst (process_command fuel s c)).
Proof.
  intros H. rewrite <- (resolved_any fuel (s_color s) c) in H. unfold process_command.
  destruct (resolve_cmd fuel (s_color s) c) as [pre [[name arg]|]]; [|repeat split]. cbn [snd keeps_name] in H.
  pose proof (run_command_keeps s name arg (proj1 H) (proj2 H)) as K.
  destruct (run_command s name arg). exact K.
Qed.

(* the events that cannot change what a listing reads: text lines, and commands that do not
   resolve to `filter` or `connection` (among them `list` itself) *)
Definition keeps_event (e : event) : Prop :=
  match e with
  | EText _ => True
  | ECmd c => keeps_name (resolved c)
  | _ => False
  end.

Section Repeat.
Variable P : pdb.

Lemma step_keeps T e : keeps_event e -> list_view (t_sess T) (t_sess (fst (step P T e))).
Proof.
  destruct e as [id m|t|c| | | | | | | ]; cbn [keeps_event]; try contradiction; intros H.
  - rewrite text_passthrough. apply list_view_refl.
  - destruct T as [b s]. unfold step. cbn [t_sess t_base].
    pose proof (process_command_keeps command_fuel s c H) as K. revert K.
    generalize (process_command command_fuel s c). intros [s1 o] K. exact K.
Qed.

Lemma segment_keeps T evs j : forall n,
  (forall i, (j <= i < j + n)%nat -> exists e, nth_error evs i = Some e /\ keeps_event e) ->
  list_view (at_ P T evs j) (at_ P T evs (j + n)).
Proof.
  induction n as [|n IH]; intros H.
  - rewrite Nat.add_0_r. apply list_view_refl.
  - eapply list_view_trans; [apply IH; intros i Hi; apply H; lia|].
    destruct (H (j + n)%nat) as (e & He & Hk); [lia|].
    replace (j + S n)%nat with (S (j + n)) by lia. unfold at_. rewrite (run_firstn_S P T evs _ _ He).
    apply step_keeps. exact Hk.
Qed.

(* THEOREM 4.  The same `list` command typed again, with nothing in between but text lines and
   commands other than `filter` and `connection`, prints exactly the same lines: items, counts,
   header, separators. *)
Theorem repeated_list T evs k k' c a :
  nth_error evs k = Some (ECmd c) -> nth_error evs k' = Some (ECmd c) -> (k < k')%nat ->
  resolved c = Some (s2l "list", a) ->
  (forall i, (k < i < k')%nat -> exists e, nth_error evs i = Some e /\ keeps_event e) ->
  exists o, nth_error (snd (run P T evs)) k = Some o /\ nth_error (snd (run P T evs)) k' = Some o.
Proof.
  intros Hk Hk' Hlt Hr Hb.
  rewrite (run_nth P evs T k _ Hk), (run_nth P evs T k' _ Hk').
  destruct (step_cmd_list P (fst (run P T (firstn k evs))) c a Hr) as [_ ->].
  destruct (step_cmd_list P (fst (run P T (firstn k' evs))) c a Hr) as [_ ->].
  eexists. split; [reflexivity|]. f_equal.
  assert (V : list_view (at_ P T evs k) (at_ P T evs k')).
  { replace k' with (k + (k' - k))%nat by lia. apply segment_keeps. intros i Hi.
    destruct (Nat.eq_dec i k) as [->|Hne].
    - exists (ECmd c). split; [exact Hk|]. cbn [keeps_event]. rewrite Hr. cbn [keeps_name].
      split; intros E; apply str_eqb_eq in E; discriminate E.
    - apply Hb. lia. }
  exact (cmd_list_view _ _ a V).
Qed.

End Repeat.

Print Assumptions record_is_delivered.
Print Assumptions own_list_is_attempted.
Print Assumptions list_event.
Print Assumptions list_shows_delivered.
Print Assumptions selected_scope_is_restriction.
Print Assumptions repeated_list.

(* ---- 5. non-vacuity and corners (empty protocol database) ----------------------------------------- *)
Module ListExamples.
Import SepExamples.

Definition gr2 (t : Z) : pmsg :=
  mkPmsg t (Some (s2l "wl_display")) 1 true (s2l "get_registry") [PObj 2 (Some (s2l "wl_registry")) true].
Definition bind (t : Z) (iface : string) : pmsg :=
  mkPmsg t (Some (s2l "wl_registry")) 2 true (s2l "bind") [PInt 1; PStr (s2l iface); PInt 1; PObj 3 None true].
(* wl_display.delete_id of an identifier that was never created: resolution raises RuntimeError *)
Definition del (t : Z) (v : Z) : pmsg :=
  mkPmsg t (Some (s2l "wl_display")) 1 false (s2l "delete_id") [PInt v].

(* two connections (A = x, B = y), five messages, then commands *)
Definition evs : list event :=
  [EMsg x (gr2 1000000); EMsg y (gr2 1100000); EMsg x (bind 1200000 "wl_compositor"); EMsg y (sy 1300000);
   EMsg y (bind 1400000 "wl_shm");
   (* 5 *) ECmd (s2l "list"); ECmd (s2l "connection B"); ECmd (s2l "list");
   (* 8 *) ECmd (s2l "list wl_registry ~ 1"); ECmd (s2l "list ("); ECmd (s2l "l wl_registry ~ 5");
   (* 11 *) ECmd (s2l "list ~ 0"); ECmd (s2l "list ~ -2"); ECmd (s2l "wl list ~ x"); ECmd (s2l "wlli ~ 1 ~ 2");
   (* 15 *) EText (s2l "noise"); ECmd (s2l "list");
   (* 17 *) EMsg y (del 1500000 77); ECmd (s2l "list"); ECmd (s2l "connection all"); ECmd (s2l "list")].
Definition T0 := top0 (MAlways true) (MAlways false) false true false.
Definition outs := snd (run [] T0 evs).

Definition ascii (s : str) : str := filter (fun c => (32 <=? c)%N && (c <? 128)%N) s.
Definition show2 (o : oline) : str :=
  match o with
  | OErr (_ :: Txt s :: _) => s2l "ERR " ++ ascii s
  | OOM => s2l "OOM"
  | _ => ascii (show1 o)
  end.

Example ex_log : forallb log_event evs = true.
Proof. reflexivity. Qed.

Example ex_resolved :
  map (fun e => match e with ECmd c => resolved c | _ => None end) (firstn 15 (skipn 5 evs)) =
  map (fun p => Some (s2l (fst p), s2l (snd p)))
      [("list", ""); ("connection", "B"); ("list", ""); ("list", "wl_registry ~ 1"); ("list", "(");
       ("list", "wl_registry ~ 5"); ("list", "~ 0"); ("list", "~ -2"); ("list", "~ x"); ("list", "~ 1 ~ 2")]%string
  ++ [None; Some (s2l "list", []); None; Some (s2l "list", []); Some (s2l "connection", s2l "all")].
Proof. vm_compute. reflexivity. Qed.

(* `list` with no selection: all five, oldest first; `connection B` then `list`: B's three;
   `list wl_registry ~ 1`: the last one of B's two matches, one message not checked;
   `list (`: an error line and no item; cap 5 > 2 matches: both, nothing "not checked";
   CORNERS: `~ 0` is "no cap" (all three), `~ -2` is cap 1, `~ x` is an error and nothing else,
   `~ 1 ~ 2` is silently "no cap" *)
Example ex_outputs :
  map (map show2) (firstn 12 (skipn 5 outs)) =
  map (map s2l)
  [["Messages that match *:"; "msg 0"; "msg 100000"; "msg 200000"; "msg 300000"; "msg 400000"; "(5 matched, 0 didn't)"];
   ["Switched to connection B"];
   ["Messages that match *:"; "msg 100000"; "msg 300000"; "msg 400000"; "(3 matched, 0 didn't)"];
   ["Messages that match [wl_registry.*(*), *.*(*=wl_registry)]:"; "msg 400000"; "(1 matched, 0 didn't, 2 not checked)"];
   ["ERR Failed to parse ""("":    "; "Messages that match !:"; "  None of the 3 messages so far"];
   ["Messages that match [wl_registry.*(*), *.*(*=wl_registry)]:"; "msg 100000"; "msg 400000"; "(2 matched, 1 didn't)"];
   ["Messages that match *:"; "msg 100000"; "msg 300000"; "msg 400000"; "(3 matched, 0 didn't)"];
   ["Messages that match *:"; "msg 400000"; "(1 matched, 0 didn't, 2 not checked)"];
   ["ERR Expected number after '~', got ' x'"];
   ["Messages that match *:"; "msg 100000"; "msg 300000"; "msg 400000"; "(3 matched, 0 didn't)"];
   ["       |  noise"];
   ["Messages that match *:"; "msg 100000"; "msg 300000"; "msg 400000"; "(3 matched, 0 didn't)"]]%string.
Proof. vm_compute. reflexivity. Qed.

Definition brief (l : list (nat * rmsg)) : list (nat * Z * str) := map (fun p => (fst p, m_time (snd p), m_name (snd p))) l.

(* Theorem 1 on this run: the record at the end is exactly the five deliveries - the refused
   delete_id (event 17) is not in it - and by computation *)
Example ex_record_instance : kall (fst (run [] T0 evs)) = kall T0 ++ delivered [] T0 evs.
Proof. exact (record_is_delivered [] evs T0 ex_log). Qed.
Example ex_record_computed :
  brief (delivered [] T0 evs) =
  [(0%nat, 0, s2l "get_registry"); (1%nat, 100000, s2l "get_registry"); (0%nat, 200000, s2l "bind");
   (1%nat, 300000, s2l "sync"); (1%nat, 400000, s2l "bind")] /\
  brief (kall (fst (run [] T0 evs))) = brief (delivered [] T0 evs) /\
  arrival_top [] (fst (run [] T0 (firstn 17 evs))) y (del 1500000 77) = ASoft (s2l "Id 77 not in object database").
Proof. vm_compute. repeat split. Qed.

(* Theorem 3 at event 8 (`list wl_registry ~ 1`, B selected), as an instance of the theorem ... *)
Example ex_list_instance :
  let s := at_ [] T0 evs 8 in
  let mm := flt "wl_registry" in
  exists o, nth_error (snd (run [] T0 evs)) 8 = Some o /\
    shown_msgs o = lastn_opt (cap_of (Some 1)) (filter (fun p => matches mm (msg_view s p))
                                                       (scope_run [] T0 (firstn 8 evs) (k_current (s_ctrl s)))).
Proof.
  cbn zeta.
  assert (Hk : nth_error evs 8 = Some (ECmd (s2l "list wl_registry ~ 1"))) by (vm_compute; reflexivity).
  assert (Hr : resolved (s2l "list wl_registry ~ 1") = Some (s2l "list", s2l "wl_registry ~ 1")) by (vm_compute; reflexivity).
  assert (Hq : list_query (at_ [] T0 evs 8) (s2l "wl_registry ~ 1") = QList [] (flt "wl_registry") (Some 1))
    by (vm_compute; reflexivity).
  destruct (list_shows_delivered [] T0 evs 8 _ _ _ _ _ ex_log (idx_ok_top0 _ _ _ _ _) Hk Hr Hq) as (o & Ho & Hs & _).
  exists o. split; [exact Ho|exact Hs].
Qed.
(* ... whose right-hand side is: scope = B's three messages, two match, the last one is shown *)
Example ex_list_computed :
  let s := at_ [] T0 evs 8 in
  let mm := flt "wl_registry" in
  k_current (s_ctrl s) = Some 1%nat /\
  brief (scope_run [] T0 (firstn 8 evs) (Some 1%nat)) = [(1%nat, 100000, s2l "get_registry"); (1%nat, 300000, s2l "sync"); (1%nat, 400000, s2l "bind")] /\
  brief (filter (fun p => matches mm (msg_view s p)) (scope_run [] T0 (firstn 8 evs) (Some 1%nat))) =
    [(1%nat, 100000, s2l "get_registry"); (1%nat, 400000, s2l "bind")] /\
  option_map (fun o => brief (shown_msgs o)) (nth_error outs 8) = Some [(1%nat, 400000, s2l "bind")].
Proof. vm_compute. repeat split. Qed.

(* Theorem 4 on this run: `list` at 7 and again at 16, with eight `list` variants and a text line
   in between *)
Example ex_repeated_instance : exists o, nth_error outs 7 = Some o /\ nth_error outs 16 = Some o.
Proof.
  unfold outs.
  apply (repeated_list [] T0 evs 7 16 (s2l "list") []); [vm_compute; reflexivity|vm_compute; reflexivity|lia|vm_compute; reflexivity|].
  intros i Hi.
  assert (Hc : (i = 8 \/ i = 9 \/ i = 10 \/ i = 11 \/ i = 12 \/ i = 13 \/ i = 14 \/ i = 15)%nat) by lia.
  repeat (destruct Hc as [->|Hc]); try subst i;
    (eexists; split; [vm_compute; reflexivity|]; vm_compute; first [exact I|split; discriminate]).
Qed.
(* ... while with `connection B` in between the same command prints something else *)
Example ex_not_repeated : nth_error outs 5 <> nth_error outs 7.
Proof. vm_compute. discriminate. Qed.

(* CORNER: a refused message is in the connection's own list but not in the record.  After the
   refused delete_id (event 17), `list` with B selected shows FOUR messages, the refused one among
   them; `connection all` then `list` shows FIVE, not six: the listing of the selected connection
   is not the listing of everything restricted to that connection. *)
Example corner_refused_listed :
  map (map show2) (skipn 17 outs) =
  map (map s2l)
  [["       |  Id 77 not in object database"];
   ["Messages that match *:"; "msg 100000"; "msg 300000"; "msg 400000"; "msg 500000"; "(4 matched, 0 didn't)"];
   ["Showing messages from all connections"];
   ["Messages that match *:"; "msg 0"; "msg 100000"; "msg 200000"; "msg 300000"; "msg 400000"; "(5 matched, 0 didn't)"]]%string /\
  brief (scope_run [] T0 (firstn 18 evs) (Some 1%nat)) <> brief (on_conn 1 (scope_run [] T0 (firstn 18 evs) None)) /\
  ~ none_refused [] T0 (firstn 18 evs) 1.
Proof.
  split; [vm_compute; reflexivity|]. split; [vm_compute; discriminate|].
  intros H. apply (own_delivered [] _ T0 1%nat) in H. vm_compute in H. discriminate H.
Qed.

(* CORNER: why the side condition [idx_ok]: in a (unreachable) state whose record names a
   connection that does not exist, `list` counts the message but prints no item *)
Example corner_idx_ok_needed :
  let s := set_ctrl (init_sess (MAlways true) (MAlways false) false true false)
                    (mkCtrl (MAlways true) (MAlways false) None [(5%nat, mkRmsg 0 (Resolved 1 0) true (s2l "sync") [] None)] None) in
  map show2 (snd (cmd_list s [])) = map s2l ["Messages that match *:"; "(1 matched, 0 didn't)"]%string.
Proof. vm_compute. reflexivity. Qed.

(* the cap: N >= 1 is N; 0 is no cap; negative is 1 *)
Example ex_caps : cap_of (Some 3) = Some 3%nat /\ cap_of (Some 0) = None /\ cap_of (Some (-2)) = Some 1%nat /\ cap_of None = None.
Proof. repeat split. Qed.

End ListExamples.
