(* Utf8ProofsA.v - the text decoded from a byte stream does not depend on how the bytes were cut
   into reads (part of C13): the incremental decoder of Model/Utf8.v, fed any pieces, produces exactly
   what decoding the whole byte string at once produces - for ALL byte strings, well-formed or not. *)
From WD Require Import Base Runner Utf8.
From Coq Require Import Lia ZifyBool ZifyN.
Open Scope N_scope.

(* ---- induction on the length -------------------------------------------------------------------- *)
Lemma list_len_ind {A} (P : list A -> Prop) :
  (forall l, (forall l', (List.length l' < List.length l)%nat -> P l') -> P l) -> forall l, P l.
Proof.
  intros Hstep l.
  assert (Hall : forall n l', (List.length l' < n)%nat -> P l').
  { induction n as [|n IHn]; intros l' Hlt; [lia|].
    apply Hstep. intros l'' Hlt'. apply IHn. lia. }
  apply (Hall (S (List.length l))). lia.
Qed.

Lemma surrogate_wait_cons b0 b1 b2 r2 : surrogate_wait b0 b1 (b2 :: r2) = false.
Proof. unfold surrogate_wait. apply andb_false_r. Qed.

Lemma surrogate_wait_never b0 b1 r : surrogate_wait b0 b1 [] = false -> surrogate_wait b0 b1 r = false.
Proof. unfold surrogate_wait. rewrite andb_true_r. intros ->. reflexivity. Qed.

(* ---- the heart: decoding a ++ b = what the scanner decides on a, then decoding (pending ++ b) ---- *)
Lemma decode_app_scan a :
  forall b, decode_utf8 (a ++ b) = fst (scan a) ++ decode_utf8 (snd (scan a) ++ b).
Proof.
  induction a as [a IH] using list_len_ind. intros b.
  assert (FIN : forall c r, (List.length r < List.length a)%nat ->
            c :: decode_utf8 (r ++ b)
            = fst (emit c (scan r)) ++ decode_utf8 (snd (emit c (scan r)) ++ b)).
  { intros c r Hlen. cbn [emit fst snd app]. rewrite <- (IH r Hlen b). reflexivity. }
  destruct a as [|b0 r0]; [reflexivity|].
  cbn [scan decode_utf8 app].
  destruct (b0 <? 128) eqn:E0; [apply FIN; cbn [List.length]; lia|].
  destruct (bad_lead b0) eqn:E1; [apply FIN; cbn [List.length]; lia|].
  destruct r0 as [|b1 r1].
  { cbn [app fst snd decode_utf8]. rewrite E0, E1. reflexivity. }
  cbn [app].
  destruct (negb (second_ok b0 b1)) eqn:E2.
  { destruct r1 as [|b2 r2].
    - destruct (surrogate_wait b0 b1 []) eqn:E3.
      + cbn [app fst snd decode_utf8]. rewrite E0, E1, E2. reflexivity.
      + apply (FIN replacement [b1]). cbn [List.length]; lia.
    - rewrite surrogate_wait_cons. apply (FIN replacement (b1 :: b2 :: r2)). cbn [List.length]; lia. }
  destruct (b0 <? 224) eqn:E3; [apply FIN; cbn [List.length]; lia|].
  destruct r1 as [|b2 r2].
  { cbn [app fst snd decode_utf8]. rewrite E0, E1, E2, E3. reflexivity. }
  cbn [app].
  destruct (negb (is_cont b2)) eqn:E4; [apply (FIN replacement (b2 :: r2)); cbn [List.length]; lia|].
  destruct (b0 <? 240) eqn:E5; [apply FIN; cbn [List.length]; lia|].
  destruct r2 as [|b3 r3].
  { cbn [app fst snd decode_utf8]. rewrite E0, E1, E2, E3, E4, E5. reflexivity. }
  cbn [app].
  destruct (negb (is_cont b3)) eqn:E6.
  - apply (FIN replacement (b3 :: r3)). cbn [List.length]; lia.
  - apply FIN. cbn [List.length]; lia.
Qed.

(* the same for the scanner itself: scanning a ++ b = scanning a, then scanning (pending ++ b) *)
Lemma scan_app a :
  forall b, scan (a ++ b)
            = (fst (scan a) ++ fst (scan (snd (scan a) ++ b)), snd (scan (snd (scan a) ++ b))).
Proof.
  induction a as [a IH] using list_len_ind. intros b.
  assert (FIN : forall c r, (List.length r < List.length a)%nat ->
            emit c (scan (r ++ b))
            = (fst (emit c (scan r)) ++ fst (scan (snd (emit c (scan r)) ++ b)),
               snd (scan (snd (emit c (scan r)) ++ b)))).
  { intros c r Hlen. rewrite (IH r Hlen b). reflexivity. }
  destruct a as [|b0 r0]; [cbn [scan app fst snd]; apply surjective_pairing|].
  cbn [scan app].
  destruct (b0 <? 128) eqn:E0; [apply FIN; cbn [List.length]; lia|].
  destruct (bad_lead b0) eqn:E1; [apply FIN; cbn [List.length]; lia|].
  destruct r0 as [|b1 r1].
  { cbn [app fst snd scan]. rewrite E0, E1. apply surjective_pairing. }
  cbn [app].
  destruct (negb (second_ok b0 b1)) eqn:E2.
  { destruct r1 as [|b2 r2].
    - destruct (surrogate_wait b0 b1 []) eqn:E3.
      + cbn [app fst snd scan]. rewrite E0, E1, E2. apply surjective_pairing.
      + cbn [app]. rewrite (surrogate_wait_never b0 b1 b E3).
        apply (FIN replacement [b1]). cbn [List.length]; lia.
    - cbn [app]. rewrite !surrogate_wait_cons.
      apply (FIN replacement (b1 :: b2 :: r2)). cbn [List.length]; lia. }
  destruct (b0 <? 224) eqn:E3; [apply FIN; cbn [List.length]; lia|].
  destruct r1 as [|b2 r2].
  { cbn [app fst snd scan]. rewrite E0, E1, E2, E3. apply surjective_pairing. }
  cbn [app].
  destruct (negb (is_cont b2)) eqn:E4; [apply (FIN replacement (b2 :: r2)); cbn [List.length]; lia|].
  destruct (b0 <? 240) eqn:E5; [apply FIN; cbn [List.length]; lia|].
  destruct r2 as [|b3 r3].
  { cbn [app fst snd scan]. rewrite E0, E1, E2, E3, E4, E5. apply surjective_pairing. }
  cbn [app].
  destruct (negb (is_cont b3)) eqn:E6.
  - apply (FIN replacement (b3 :: r3)). cbn [List.length]; lia.
  - apply FIN. cbn [List.length]; lia.
Qed.

(* ---- what stays pending --------------------------------------------------------------------------- *)
(* the pending bytes are at most 3, and scanning them again decides nothing more *)
Lemma scan_pending a :
  (List.length (snd (scan a)) <= 3)%nat /\ scan (snd (scan a)) = ([], snd (scan a)).
Proof.
  induction a as [a IH] using list_len_ind.
  destruct a as [|b0 r0]; [cbn; split; [lia|reflexivity]|].
  cbn [scan].
  destruct (b0 <? 128) eqn:E0; [cbn [emit snd]; apply IH; cbn [List.length]; lia|].
  destruct (bad_lead b0) eqn:E1; [cbn [emit snd]; apply IH; cbn [List.length]; lia|].
  destruct r0 as [|b1 r1].
  { cbn [snd scan List.length]. rewrite E0, E1. split; [lia|reflexivity]. }
  destruct (negb (second_ok b0 b1)) eqn:E2.
  { destruct r1 as [|b2 r2].
    - destruct (surrogate_wait b0 b1 []) eqn:E3.
      + cbn [snd scan List.length]. rewrite E0, E1, E2, E3. split; [lia|reflexivity].
      + cbn [emit snd]; apply IH; cbn [List.length]; lia.
    - rewrite surrogate_wait_cons. cbn [emit snd]; apply IH; cbn [List.length]; lia. }
  destruct (b0 <? 224) eqn:E3; [cbn [emit snd]; apply IH; cbn [List.length]; lia|].
  destruct r1 as [|b2 r2].
  { cbn [snd scan List.length]. rewrite E0, E1, E2, E3. split; [lia|reflexivity]. }
  destruct (negb (is_cont b2)) eqn:E4; [cbn [emit snd]; apply IH; cbn [List.length]; lia|].
  destruct (b0 <? 240) eqn:E5; [cbn [emit snd]; apply IH; cbn [List.length]; lia|].
  destruct r2 as [|b3 r3].
  { cbn [snd scan List.length]. rewrite E0, E1, E2, E3, E4, E5. split; [lia|reflexivity]. }
  destruct (negb (is_cont b3)) eqn:E6; cbn [emit snd]; apply IH; cbn [List.length]; lia.
Qed.

Theorem pending_at_most_3 st chunk : (List.length (fst (feed st chunk)) <= 3)%nat.
Proof. unfold feed. cbn [fst]. apply scan_pending. Qed.

(* state composition: feeding a ++ b is feeding a, then feeding b to the state reached *)
Theorem feed_app st a b :
  feed st (a ++ b)
  = (fst (feed (fst (feed st a)) b), snd (feed st a) ++ snd (feed (fst (feed st a)) b)).
Proof. unfold feed. cbn [fst snd]. rewrite app_assoc, scan_app. reflexivity. Qed.

(* an empty read changes nothing *)
Theorem feed_nil st chunk : feed (fst (feed st chunk)) [] = (fst (feed st chunk), []).
Proof.
  unfold feed. cbn [fst snd]. rewrite app_nil_r.
  destruct (scan_pending (st ++ chunk)) as [_ Hs]. rewrite Hs. reflexivity.
Qed.

(* ---- chunking is irrelevant ------------------------------------------------------------------------ *)
Lemma feed_all_spec chunks : forall st, feed_all st chunks = decode_utf8 (st ++ List.concat chunks).
Proof.
  induction chunks as [|c cs IH]; intros st; cbn [feed_all List.concat].
  - unfold finish. rewrite app_nil_r. reflexivity.
  - unfold feed. cbn [fst snd]. rewrite IH, app_assoc. symmetry. apply decode_app_scan.
Qed.

(* MAIN: whatever the pieces, the incremental decoder yields the decoding of the whole byte string *)
Theorem decode_chunks_concat chunks : decode_chunks chunks = decode_utf8 (List.concat chunks).
Proof. unfold decode_chunks, dstate0. rewrite feed_all_spec. reflexivity. Qed.

Theorem decode_chunking_irrelevant c1 c2 :
  List.concat c1 = List.concat c2 -> decode_chunks c1 = decode_chunks c2.
Proof. intros Heq. rewrite !decode_chunks_concat, Heq. reflexivity. Qed.

(* feed_trace (used by the correspondence test) is the same computation as decode_chunks *)
Lemma feed_trace_total chunks : forall st,
  List.concat (map fst (fst (feed_trace st chunks))) ++ snd (feed_trace st chunks) = feed_all st chunks.
Proof.
  induction chunks as [|c cs IH]; intros st; cbn [feed_trace feed_all fst snd map List.concat].
  - reflexivity.
  - rewrite <- app_assoc, IH. reflexivity.
Qed.

(* ... and so are the lines read (Runner.lines_of cuts the decoded text at newlines) *)
Theorem lines_of_decode_chunks chunks :
  lines_of (decode_chunks chunks) = lines_of (decode_utf8 (List.concat chunks)).
Proof. rewrite decode_chunks_concat. reflexivity. Qed.

Theorem lines_chunking_irrelevant c1 c2 :
  List.concat c1 = List.concat c2 -> lines_of (decode_chunks c1) = lines_of (decode_chunks c2).
Proof. intros Heq. rewrite (decode_chunking_irrelevant c1 c2 Heq). reflexivity. Qed.

(* in particular: one character (or anything else) cut in two anywhere *)
Corollary split_anywhere pre x y post :
  decode_chunks [pre ++ x; y ++ post] = decode_utf8 (pre ++ (x ++ y) ++ post).
Proof.
  rewrite decode_chunks_concat. cbn [List.concat]. rewrite app_nil_r, <- !app_assoc. reflexivity.
Qed.

(* ---- ASCII is untouched ----------------------------------------------------------------------------- *)
Theorem decode_ascii bs : Forall (fun b => b < 128) bs -> decode_utf8 bs = bs.
Proof.
  induction 1 as [|b r Hb _ IH]; [reflexivity|].
  cbn [decode_utf8]. replace (b <? 128) with true by lia. rewrite IH. reflexivity.
Qed.

(* ---- well-formed sequences ---------------------------------------------------------------------------- *)
Lemma decode_seq2 b0 b1 rest :
  194 <= b0 -> b0 < 224 -> is_cont b1 = true ->
  decode_utf8 (b0 :: b1 :: rest) = cp2 b0 b1 :: decode_utf8 rest.
Proof.
  intros H1 H2 H3. cbn [decode_utf8].
  replace (b0 <? 128) with false by lia.
  replace (bad_lead b0) with false by (unfold bad_lead; lia).
  assert (Hs : second_ok b0 b1 = true).
  { unfold second_ok.
    replace (b0 =? 224) with false by lia. replace (b0 =? 237) with false by lia.
    replace (b0 =? 240) with false by lia. replace (b0 =? 244) with false by lia. exact H3. }
  rewrite Hs. cbn [negb]. replace (b0 <? 224) with true by lia. reflexivity.
Qed.

Lemma decode_seq3 b0 b1 b2 rest :
  224 <= b0 -> b0 < 240 -> second_ok b0 b1 = true -> is_cont b2 = true ->
  decode_utf8 (b0 :: b1 :: b2 :: rest) = cp3 b0 b1 b2 :: decode_utf8 rest.
Proof.
  intros H1 H2 H3 H4. cbn [decode_utf8].
  replace (b0 <? 128) with false by lia.
  replace (bad_lead b0) with false by (unfold bad_lead; lia).
  rewrite H3, H4. cbn [negb].
  replace (b0 <? 224) with false by lia. replace (b0 <? 240) with true by lia. reflexivity.
Qed.

Lemma decode_seq4 b0 b1 b2 b3 rest :
  240 <= b0 -> b0 <= 244 -> second_ok b0 b1 = true -> is_cont b2 = true -> is_cont b3 = true ->
  decode_utf8 (b0 :: b1 :: b2 :: b3 :: rest) = cp4 b0 b1 b2 b3 :: decode_utf8 rest.
Proof.
  intros H1 H2 H3 H4 H5. cbn [decode_utf8].
  replace (b0 <? 128) with false by lia.
  replace (bad_lead b0) with false by (unfold bad_lead; lia).
  rewrite H3, H4, H5. cbn [negb].
  replace (b0 <? 224) with false by lia. replace (b0 <? 240) with false by lia. reflexivity.
Qed.
