"""Factory for session-based property modules."""
import random

import cmdgen
import common
import sessioncheck


def make(pid, own, proof_files, assumptions, theorem, gen, nontrivial, rule, n_quick=300, n_thorough=8000, extra=None):
    info = {'proof_files': proof_files, 'assumptions': assumptions}

    def owns(cat):
        return any(cat == o or cat.startswith(o + ':') or (o.endswith('*') and cat.startswith(o[:-1])) for o in own)

    def run(res):
        rnd = random.Random(res.seed * 7919 + int(pid[1:]) * 31)
        n = n_quick if res.tier == 'quick' else n_thorough
        cases = [gen(rnd) for _ in range(n)]
        sessioncheck.run_cases(res, cases, owns, pid, theorem=theorem, nontrivial=nontrivial,
                               kernel_sample=12 if res.tier == 'quick' else 80)
        res.rule = rule
        if extra:
            extra(res, rnd, cases)

    def replay(dis):
        c = dis.get('input')
        if isinstance(c, dict) and 'config' in c and 'events' in c and 'impl_events' not in c and any(e and e[0] in ('gmsg', 'gdestroy', 'gcmd', 'gsub') for e in c['events']):
            import gdbcheck
            m = common.model_eval('session', [[sessioncheck.mcfg(c['config']), gdbcheck.model_events(c['events'])]], shards=1)[0]
            r = gdbcheck.compare_case(c, m)
            print('differences:', r)
            print('REPRODUCED' if r and r != 'oom' else 'not reproduced on the current tree')
            return 1 if r and r != 'oom' else 0
        if not (isinstance(c, dict) and 'config' in c and 'events' in c and 'impl_events' in c):
            # a metamorphic / direct check on /repo: the stored input and both sides are in the replay file
            print('what :', dis.get('what'))
            print('input:', str(c)[:3000])
            print('model/expected:', str(dis.get('model'))[:1500])
            print('impl :', str(dis.get('impl'))[:1500])
            return 0
        m = common.model_eval('session', [[sessioncheck.mcfg(c['config']), c['events']]], shards=1)[0]
        r = sessioncheck.compare_case(c, m)
        print('differences:', r)
        print('REPRODUCED' if r and r != 'oom' else 'not reproduced on the current tree')
        return 1 if r and r != 'oom' else 0
    return info, run, replay
