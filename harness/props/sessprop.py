"""Factory for session-based property modules."""
import random

import cmdgen
import common
import sessioncheck


def make(pid, own, proof_files, assumptions, theorem, gen, nontrivial, rule, n_quick=300, n_thorough=8000, extra=None):
    info = {'proof_files': proof_files, 'assumptions': assumptions}

    def owns(cat):
        return any(cat == o or cat.startswith(o + ':') or (o.endswith('*') and cat.startswith(o[:-1])) for o in own)

    def run(res):
        rnd = random.Random(res.seed * 7919 + int(pid[1:]) * 31)
        n = n_quick if res.tier == 'quick' else n_thorough
        cases = [gen(rnd) for _ in range(n)]
        sessioncheck.run_cases(res, cases, owns, pid, theorem=theorem, nontrivial=nontrivial,
                               kernel_sample=12 if res.tier == 'quick' else 80)
        res.rule = rule
        if extra:
            extra(res, rnd, cases)

    def replay(dis):
        c = dis['input']
        m = common.model_eval('session', [[sessioncheck.mcfg(c['config']), c['events']]], shards=1)[0]
        print('differences:', sessioncheck.compare_case(c, m))
        return 0
    return info, run, replay
