"""C17 — colour is presentation only."""
import random
import re

import cmdgen
import common
import helpcorr
import implenv
import matchgen
import sessioncheck
import universe

INFO = {
    'proof_files': ['Proofs/ColorProofs.v', 'Proofs/ShowProofs.v'] + ['Proofs/SessionColor%s.v' % c for c in 'ABJCDEFGHIKL'] + ['Proofs/PastedCommands.v', 'Proofs/CommandFuel.v', 'Proofs/HelpProofs.v', 'Proofs/HelpShipped.v'],
    'assumptions': [
        'theorems are about WD.Color (color/no_color) and WD.Show (message lines); tied to core/util.py and every __str__/notice by (1) the property\'s own relation checked directly on /repo: each generated session (all argument kinds, labels, destroyed annotations, unresolved objects, passthrough lines, list/filter/breakpoint/matcher/connection/help commands, errors) is run with --color and with --no-color and compared line by line after stripping, (2) the model\'s coloured output compared with /repo\'s, (3) coloured text pasted back as matcher / command',
        'the whole-session statement is proved for the model (C17_session: every event, every command, both modes, no hypothesis; C17_off_no_escape; C17_session_exact over the regenerated shipped protocol data); the model is tied to /repo by the three explorations above',
    ],
}

SGR = re.compile(r'\x1b\[[\d;]*m')


def gen(rnd, color):
    cfg = [matchgen.matcher(rnd, 1).strip() if rnd.random() < 0.3 else None,
           matchgen.matcher(rnd, 1).strip() if rnd.random() < 0.3 else None, color, 1, 0]
    case = sessioncheck.build_case(rnd, n_events=rnd.choice([10, 25]), config=cfg, chatter=0.15,
                                   cmds=lambda r: cmdgen.mixed(r, (2, 2, 3, 2, 4)), cmd_rate=0.3)
    if rnd.random() < 0.15:
        # an ill-typed line at the very end: the blanket handler prints a traceback and `Error: ` with an EMPTY message text
        bad = rnd.choice(['[9999999.000] wl_display@1.delete_id("x")', '[9999999.000] wl_registry@2.bind(1)'])
        k = len(case['impl_events']) - 1
        while k > 0 and case['impl_events'][k][0] not in ('eof', 'intr'):
            k -= 1
        case['impl_events'].insert(k, ('line', bad))
        case['events'].insert(k, ['text', bad])      # the model side of this case is not compared (see run): only the on/off relation on /repo
        case['hard_error_tail'] = True
    return case


def run(res):
    rnd = random.Random(res.seed * 1013 + 17)
    n = 250 if res.tier == 'quick' else 8000
    cases = [gen(rnd, 1) for _ in range(n)]
    # (1) the relation itself, on the implementation
    for c in cases:
        c_off = dict(c, config=c['config'][:2] + [0] + c['config'][3:])
        try:
            on, _, _ = sessioncheck.run_impl(c)
            off, _, _ = sessioncheck.run_impl(c_off)
        except Exception as e:
            res.disagree('session raised', c['impl_events'], None, repr(e), sig={'category': 'exception'})
            continue
        res.evaluations += 1
        bad = None
        if len(on) != len(off):
            bad = 'different number of events'
        else:
            for k, (a, b) in enumerate(zip(on, off)):
                ev = c['events'][k]
                if ev[0] in ('eof', 'intr'):
                    a = sorted(a, key=lambda x: (x[0], SGR.sub('', x[1])))
                    b = sorted(b, key=lambda x: (x[0], SGR.sub('', x[1])))
                if [s for s, _ in a] != [s for s, _ in b] or [SGR.sub('', t) for _, t in a] != [t if ev[0] != 'text' else SGR.sub('', t) for _, t in b]:
                    bad = 'event %d %r: coloured %r uncoloured %r' % (k, c['impl_events'][k], a, b)
                    break
                for s, t in b:
                    if '\x1b' in t and not (ev[0] in ('text', 'cmd') and any('\x1b' in x for x in c['impl_events'][k] if isinstance(x, str))):
                        bad = 'event %d: escape sequence in uncoloured output %r' % (k, t)
                        break
                if bad:
                    break
        if bad:
            res.disagree('coloured output, stripped, differs from uncoloured output', c['impl_events'], None, bad[:2500],
                         sig={'category': 'colour-metamorphic', 'detail': bad[:300]}, theorem='C17_message_lines / C17_strip_color')
        else:
            res.nontriv(c['impl_events'])
    # (2) the model's coloured output
    sessioncheck.run_cases(res, [c for c in cases[: n // 2] if not c.get('hard_error_tail')], lambda cat: cat.startswith('out.'), 'C17 (model colour)', theorem='model of color()/__str__',
                           nontrivial=lambda c, m: False, kernel_sample=6)
    # (3) pasted back
    pasted_back(res, rnd)
    colour_switch(res, rnd)
    # (4) the help screen: Model/Help.v (which takes the FILE TEXT of matchers.md) against core/matcher.py help_text on the shipped file and
    # on generated files, evaluated inside the Coq kernel; the colour relation on the implementation alone
    try:
        helpcorr.run(res, 150 if res.tier == 'quick' else 3000)
    except RuntimeError as e:
        res.disagree('help-screen correspondence could not be evaluated', None, None, str(e)[-800:], sig={'category': 'help-model-build', 'entry': 'help'}, theorem='C17_help_screen')
    res.rule = ('generated sessions with chatter (incl. lines carrying their own escape sequences), all argument kinds, and commands of every kind, each run under --color and --no-color; '
                'coloured matcher / command text pasted back; the help screen of the shipped matchers.md and of generated help files under both settings, model evaluated in the Coq kernel; non-trivial = session whose stripped coloured output equals its uncoloured output; distinct by input')


def colour_switch(res, rnd):
    """which of the two settings a command line selects: --no-color / -C always wins (also next to --color, in any order and
    spelling), --color alone enables, neither: off unless a terminal / gdb; and with colour off a real run emits no escape sequence"""
    import contextlib
    import io
    import itertools
    import subprocess
    import sys
    import common
    from frontends.tui import arguments
    flags = ['-C', '--no-color', '--color', '--no-col', '--col']
    combos = [[]] + [[f] for f in flags] + [list(p) for p in itertools.permutations(flags, 2)] + [['-C', '--color', '-C'], ['--color', '--color', '--no-color']]
    for combo in combos:
        argv = ['main.py', '-p'] + combo
        want = False if any(f in ('-C', '--no-color', '--no-col') for f in combo) else bool(combo)
        try:
            with contextlib.redirect_stdout(io.StringIO()), contextlib.redirect_stderr(io.StringIO()):
                got = bool(arguments.parse_args(argv).show_color)
        except BaseException as e:
            got = repr(e)
        res.evaluations += 1
        if got != want:
            res.disagree('the colour options select the wrong setting', argv, want, got, sig={'category': 'colour-switch', 'flags': ' '.join(combo)})
    log = '[1.000]  -> wl_display@1.get_registry(new id wl_registry@2)\nchatter\n[1.100] wl_registry@2.global(1, "wl_shm", 1)\n'
    for combo in (['-C', '--color'], ['--color', '--no-color'], ['-C']):
        r = subprocess.run([sys.executable, '-B', __import__('os').path.join(common.REPO, 'main.py'), '-p'] + combo, input=log, capture_output=True, text=True,
                           env=dict(__import__('os').environ, PYTHONPATH=common.REPO), timeout=120)
        res.evaluations += 1
        if '\x1b' in r.stdout or '\x1b' in r.stderr or r.returncode != 0:
            res.disagree('with colour disabled on the command line the tool emits escape sequences of its own', ['main.py', '-p'] + combo, 'no ESC',
                         [r.returncode, (r.stdout + r.stderr)[:300]], sig={'category': 'colour-switch', 'flags': ' '.join(combo), 'entry': 'process'}, theorem='C17_off_no_escape')


def pasted_back(res, rnd):
    from core import matcher
    from core.util import set_color_output, no_color
    uni = universe.build_universe(rnd, 40)
    imsgs = [universe.impl_msg(m) for m in uni]
    n = 400 if res.tier == 'quick' else 10000
    for _ in range(n):
        t = matchgen.matcher(rnd, 2)
        try:
            set_color_output(False)
            m0 = matcher.parse(t)
            plain = str(m0)
            set_color_output(True)
            coloured = str(matcher.parse(t))
            set_color_output(False)
            m2 = matcher.parse(plain)
        except RuntimeError:
            set_color_output(False)
            continue
        finally:
            set_color_output(False)
        res.evaluations += 1
        # the plain text is accepted: the coloured text must be too, by matcher.parse and on the command line (-f / -b)
        try:
            m1 = matcher.parse(coloured)
            import implsession
            f1, b1, _c, _u = implsession.startup([coloured, coloured, 0, 1, 0])
            f2, b2, _c, _u = implsession.startup([plain, plain, 0, 1, 0])
            set_color_output(False)
            if (str(f1), str(b1)) != (str(f2), str(b2)):
                res.disagree('coloured matcher given with -f / -b is understood differently', t, [str(f2), str(b2)], [str(f1), str(b1)],
                             sig={'category': 'pasted-matcher', 'entry': 'command line'}, theorem='C17_parse_ignores_colour')
                continue
        except Exception as e:
            set_color_output(False)
            res.disagree('coloured matcher text is rejected although its plain text is accepted', [t, coloured], 'accepted', repr(e)[:300],
                         sig={'category': 'pasted-matcher', 'exception': type(e).__name__}, theorem='C17_parse_ignores_colour')
            continue
        if no_color(coloured) != plain:
            res.disagree('coloured matcher text, stripped, differs from plain text', t, plain, coloured, sig={'category': 'matcher-str'})
            continue
        a = [m1.simplify().matches(x) for x in imsgs] if True else None
        b = [m2.simplify().matches(x) for x in imsgs]
        if a != b or str(m1) != str(m2):
            res.disagree('coloured matcher pasted back is understood differently', t, b, a, sig={'category': 'pasted-matcher'}, theorem='C17_parse_ignores_colour')
        else:
            res.nontriv(('paste', t))
    # coloured command words
    import implsession
    for _ in range(60 if res.tier == 'quick' else 1500):
        cmd = cmdgen.mixed(rnd, (2, 2, 3, 2, 2)).strip()
        if not cmd or '\x1b' in cmd:
            continue
        w = cmd.split(None, 1)
        col = '\x1b[93m' + w[0] + '\x1b[0m' + (' ' + '\x1b[1;96m' + w[1] + '\x1b[0m' if len(w) > 1 else '')
        # other places a terminal selection puts sequences: a reset before the first word (D13: a sequence followed by a blank
        # used to trip an assertion), after the last one, inside a word
        v = rnd.random()
        if v < 0.2:
            col = '\x1b[0m ' + col
        elif v < 0.3:
            col = '\x1b[0m \x1b[1m  ' + cmd + ' \x1b[0m'
        elif v < 0.4:
            col = cmd[:1] + '\x1b[2;37m' + cmd[1:] + '\x1b[0m'
        outs = []
        for text in (cmd, col):
            case = dict(config=[None, None, 0, 1, 0], impl_events=[('cmd', text), ('eof',)], events=[['cmd', text], ['eof']], dialect='old')
            try:
                o, f, _ = sessioncheck.run_impl(case)
                outs.append(o)
            except Exception as e:
                outs.append(repr(e))
        res.evaluations += 1
        if outs[0] != outs[1]:
            # the echo of the argument inside an error message legitimately carries the pasted sequences
            a = [[(s, SGR.sub('', t)) for s, t in ev] for ev in outs[0]] if isinstance(outs[0], list) else outs[0]
            b = [[(s, SGR.sub('', t)) for s, t in ev] for ev in outs[1]] if isinstance(outs[1], list) else outs[1]
            if a != b:
                res.disagree('coloured command pasted back is understood differently', [cmd, col], outs[0], outs[1], sig={'category': 'pasted-command'})


def replay(dis):
    print(dis.get('impl'))
    return 0
