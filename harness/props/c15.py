"""C15 — GDB mode follows libwayland's connections as they come and go."""
import random

import cmdgen
import gdbcheck

INFO = {
    'proof_files': ['Proofs/GdbProofs.v', 'Proofs/ConnMgrProofs.v', 'Proofs/GdbRunsA.v', 'Proofs/GdbRunsB.v'],
    'assumptions': [
        'theorems are about WD.Session (gdb_message / gdb_destroy / open_conn / close_conn); tied to plugin.py (Plugin.connections, open/close_connection, process_message, WlConnectionDestroyBreakpoint.stop) and ConnectionManager by event sequences (messages on several addresses from several threads, destruction of known / already closed / never seen connections, address reuse) run through the REAL plugin under harness/fakegdb; compared: notices, X: prefixes, warnings, exceptions escaping stop(), final connections and their tables',
    ],
}
OWN = ('out.gmsg', 'out.gdestroy', 'final.conns', 'final.conn.meta', 'final.conn.count', 'final.conn.objects.ident', 'final.conn.objects.life',
       'final.conn.msgs.refs', 'final.conn.msgs')


def owns(cat):
    return cat in OWN


def run(res):
    rnd = random.Random(res.seed * 7919 + 15)
    n = 300 if res.tier == 'quick' else 10000
    cases = [gdbcheck.build_case(rnd, cmds=lambda r: cmdgen.conn_cmd(r), cmd_rate=0.05) for _ in range(n)]
    gdbcheck.run_cases(res, cases, owns, 'C15', theorem='C15_destroy_tolerated / C15_others_undisturbed / C15_reopen_is_fresh',
                       nontrivial=lambda c, m: any(e[0] == 'gdestroy' for e in c['events']))
    res.rule = ('gdb event sequences over 1-3 connection addresses with 1-3 consecutive lifetimes per address (address reuse), destruction of known, already closed '
                'and never-seen addresses, messages from the owning and from a foreign thread; non-trivial = contains a destruction; distinct by event list')


def replay(dis):
    import common
    import sessioncheck
    c = dis['input']
    m = common.model_eval('session', [[sessioncheck.mcfg(c['config']), gdbcheck.model_events(c['events'])]], shards=1)[0]
    r = gdbcheck.compare_case(c, m)
    print('differences:', r)
    print('REPRODUCED' if r and r != 'oom' else 'not reproduced on the current tree')
    return 1 if r and r != 'oom' else 0
