"""C14 — labels are unambiguous and work as matchers.
Correspondence: number_to_letter_id / letter_id_to_number vs the model, exhaustive through
3 (quick) / 4 (thorough) letters, sampled far beyond; label<->matcher part via props.session."""
import random

import common
import implenv
from implenv import res as ires

INFO = {
    'proof_files': ['Proofs/LetterIdProofs.v', 'Proofs/LabelMatcher.v', 'Proofs/DocSemTop.v', 'Proofs/DocParseE.v', 'Proofs/DocParseF.v'],
    'assumptions': [
        'theorems are about WD.LetterId (n2l / letter_id_to_number / id_label), tied to core/letter_id_generator.py by the exhaustive+sampled correspondence below',
        'non-ASCII input to letter_id_to_number is out of model (str.lower of e.g. U+212A yields an ASCII letter); counted, not compared',
    ],
}


def run(res):
    from core.letter_id_generator import number_to_letter_id, letter_id_to_number, LetterIdGenerator
    rnd = random.Random(res.seed)
    letters = 3 if res.tier == 'quick' else 4
    top = sum(26 ** k for k in range(1, letters + 1))
    n2l_cases = []
    for n in range(top + 30):
        n2l_cases.append([n, 0])
    for n in range(0, top + 30, 7 if res.tier == 'quick' else 3):
        n2l_cases.append([n, 1])
    for _ in range(5000 if res.tier == 'quick' else 100000):
        e = rnd.choice([6, 9, 12, 18, 30, 60])
        n2l_cases.append([rnd.randrange(10 ** e), rnd.randrange(2)])
    for n in (-1, -2, -10 ** 20):
        n2l_cases.append([n, 0])
    model = common.model_eval('n2l', n2l_cases)
    seen = set()
    prev = None
    for k, (c, m) in enumerate(zip(n2l_cases, model)):
        i = ires(number_to_letter_id, c[0], bool(c[1]))
        res.evaluations += 1
        if i != m:
            res.disagree('number_to_letter_id differs from model', c, m, i,
                         sig={'entry': 'n2l', 'n': c[0]}, theorem='C14_l2n_n2l / C14_succ')
        elif i[0] == 'ok':
            res.nontriv(('n2l', c[0], c[1]))
            # the property itself on impl: no repeats among the exhaustive range
            if k < top + 30:
                if i[1] in seen:
                    res.disagree('label repeated', c, m, i, sig={'entry': 'n2l-repeat'})
                seen.add(i[1])
    res.sample({'entry': 'n2l', 'case': n2l_cases[27], 'model': model[27]})
    res.count('n2l_exhaustive_through_letters', letters)
    res.count('n2l_cases', len(n2l_cases))
    # generator object: k-th next() is n2l true k
    g = LetterIdGenerator()
    names = [g.next() for _ in range(800)]
    mnames = common.model_eval('n2l', [[k, 1] for k in range(800)])
    for k, (a, b) in enumerate(zip(names, mnames)):
        res.evaluations += 1
        if ['ok', a] != b:
            res.disagree('LetterIdGenerator.next differs', k, b, a, sig={'entry': 'gen'})
    # l2n: round trip of every produced label + random words
    l2n_cases = [m[1] for m in model if m[0] == 'ok'][: (top + 5000)]
    alphabet = 'abcxyzABCXYZ019 _-'
    for _ in range(3000 if res.tier == 'quick' else 50000):
        k = rnd.choice([0, 1, 1, 2, 3, 5, 9, 14])
        l2n_cases.append(''.join(rnd.choice(alphabet[:12] if rnd.random() < 0.7 else alphabet) for _ in range(k)))
    model2 = common.model_eval('l2n', l2n_cases)
    oom = 0
    for c, m in zip(l2n_cases, model2):
        if m == ['raise', 99]:
            oom += 1
            continue
        i = ires(letter_id_to_number, c)
        res.evaluations += 1
        if i != m:
            res.disagree('letter_id_to_number differs from model', c, m, i,
                         sig={'entry': 'l2n', 'text': c}, theorem='C14_n2l_l2n')
        else:
            res.nontriv(('l2n', c))
    res.out_of_model += oom
    res.sample({'entry': 'l2n', 'case': l2n_cases[30], 'model': model2[30]})
    res.count('l2n_cases', len(l2n_cases))
    res.exhaustive = True
    res.rule = ('n2l: every index 0..%d (all words of <= %d letters) plus sampled indexes up to 1e60, both cases, negatives; '
                'l2n: every produced label fed back plus random words over letters/digits/blank; distinct = distinct (entry,input), '
                'non-trivial = agreeing non-error case' % (top + 29, letters))
    n, ok, out = common.kernel_replay(res.pid, 'n2l', n2l_cases, model, 150)
    res.kernel_replays += n
    if not ok:
        res.disagree('in-kernel replay differs from extracted model', None, None, out[-500:], sig={'entry': 'kernel-replay'})
    synthetic_labels(res, rnd)
    from props import session_labels
    session_labels.run(res)
    reused_addresses(res, rnd)


def synthetic_labels(res, rnd):
    """C14_label_as_matcher on /repo, far beyond the incarnations a generated session reaches: for sampled
    (connection ordinal, id, generation) the label text `NAME: IDletters` must select exactly the messages of that
    connection that are on / create / destroy / mention that incarnation, and `NAME:` exactly that connection's."""
    import universe
    from core import matcher
    from core.letter_id_generator import number_to_letter_id
    gens = list(range(0, 60)) + [675, 676, 700, 701, 702, 703, 17575, 18277, 18278] + [rnd.randrange(10 ** 6) for _ in range(40 if res.tier == 'quick' else 2000)]
    ords = [0, 1, 2, 24, 25, 26, 27, 51, 52, 675, 701, 702] + [rnd.randrange(20000) for _ in range(10)]
    cases = []
    for g in gens:
        oid = rnd.choice([3, 7, 12, 4278190080])
        cn = number_to_letter_id(rnd.choice(ords), True)
        other = number_to_letter_id(rnd.choice(ords), True)
        if other == cn:
            other = cn + 'A'
        ob = (oid, g, 'wl_surface')
        near = [(oid, g + 1, 'wl_surface'), (oid, max(g - 1, 0), 'wl_surface'), (oid + 1, g, 'wl_surface'), (oid, g + 26, 'wl_surface')]
        msgs = [dict(conn=cn, obj=ob, name='commit', args=[], destroyed=None),
                dict(conn=other, obj=ob, name='commit', args=[], destroyed=None),
                # the like-labelled object of ANOTHER connection being mentioned, created and destroyed there
                dict(conn=other, obj=(5, 0, 'wl_pointer'), name='enter', args=[('serial', 'int', 1, None), ('surface', 'obj', ob, False)], destroyed=None),
                dict(conn=other, obj=(2, 0, 'wl_compositor'), name='create_surface', args=[('id', 'obj', ob, True)], destroyed=None),
                dict(conn=other, obj=(1, 0, 'wl_display'), name='delete_id', args=[('id', 'int', oid, None)], destroyed=ob),
                dict(conn=cn, obj=(1, 0, 'wl_display'), name='delete_id', args=[('id', 'int', oid, None)], destroyed=ob),
                dict(conn=cn, obj=(2, 0, 'wl_compositor'), name='create_surface', args=[('id', 'obj', ob, True)], destroyed=None),
                dict(conn=cn, obj=(5, 0, 'wl_pointer'), name='enter', args=[('serial', 'int', 1, None), ('surface', 'obj', ob, False)], destroyed=None)]
        for nb in near:
            msgs.append(dict(conn=cn, obj=nb, name='commit', args=[], destroyed=None))
            msgs.append(dict(conn=cn, obj=(5, 0, 'wl_pointer'), name='enter', args=[('surface', 'obj', nb, False)], destroyed=None))
        want = [1 if (m['conn'] == cn and (m['obj'] == ob or m['destroyed'] == ob or any(a[1] == 'obj' and a[2] == ob for a in m['args']))) else 0 for m in msgs]
        want_conn = [1 if m['conn'] == cn else 0 for m in msgs]
        letters = number_to_letter_id(g, False)
        sep = rnd.choice([': ', ':', ' : ', ':  '])
        cases.append((cn + sep + str(oid) + letters, msgs, want))
        cases.append((cn + ':', msgs, want_conn))
    model = common.model_eval('meval', [[t, [universe.sx_msg(m) for m in msgs]] for t, msgs, _ in cases])
    for (t, msgs, want), mr in zip(cases, model):
        res.evaluations += 1
        try:
            sm = matcher.parse(t).simplify()
            got = [1 if sm.matches(universe.impl_msg(m)) else 0 for m in msgs]
        except Exception as e:
            got = repr(e)
        if got != want:
            res.disagree('a displayed label used as a matcher does not select exactly the messages involving that object / connection', t, want, got,
                         sig={'entry': 'label-synthetic', 'category': 'label-as-matcher', 'text': t}, theorem='C14_label_as_matcher / C14_conn_as_matcher')
        elif mr != ['raise', 99] and (mr[0] != 'ok' or mr[1][0] != want):
            res.disagree('model disagrees with its own theorem on a label (harness or model defect)', t, want, mr, sig={'entry': 'label-synthetic', 'category': 'model'})
        else:
            res.nontriv(('label', t))
    res.count('synthetic_labels', len(cases))


def reused_addresses(res, rnd):
    """connection names in GDB mode, where an address is closed and used again by an unrelated connection: every connection
    (closed ones stay listed) has its own name, and `list X:` returns that connection's messages only"""
    import gdbcheck
    import implgdb
    n = 50 if res.tier == 'quick' else 2000
    cases = [gdbcheck.build_case(rnd, n_addr=rnd.choice([1, 1, 2, 3])) for _ in range(n)]
    gdbcheck.run_cases(res, cases, lambda cat: cat.startswith('final.conn') or cat in ('out.gmsg', 'out.gdestroy'), 'C14 (connection names when addresses are used again)',
                       theorem='C14_conn_names_distinct / C15_conns_are_lifetimes', nontrivial=lambda c, m: False, kernel_sample=3)
    for c in cases[: (25 if res.tier == 'quick' else 600)]:
        try:
            r = implgdb.GdbRunner(c['config'], c['events'])
            r.run()
        except Exception:
            continue                      # reported by the differential run above
        conns = list(r.cm.connection_list)
        names = [x.name() for x in conns]
        res.evaluations += 1
        if len(set(names)) != len(names):
            res.disagree('two connections share a name', dict(config=c['config'], events=c['events']), 'distinct', names,
                         sig={'category': 'label-conn-unique', 'entry': 'gdb'}, theorem='C14_conn_names_distinct')
            continue
        for x in conns:
            st = len(r.log)
            r.ctrl.process_command('list %s:' % x.name())
            lines = [t for s_, t in r.log[st:] if __import__('re').match(r'\s*-?\d+\.\d{4} ', t)]
            want = [m for m in r.ctrl.all_messages if getattr(m.obj, 'connection', None) is x]
            if len(lines) != len(want):
                res.disagree('`list X:` does not select exactly the messages of connection X', dict(config=c['config'], events=c['events'], conn=x.name()),
                             len(want), len(lines), sig={'category': 'conn-as-matcher', 'entry': 'gdb'}, theorem='C14_conn_as_matcher')


def replay(dis):
    from core.letter_id_generator import number_to_letter_id, letter_id_to_number
    c = dis['input']
    if isinstance(c, dict) and 'events' in c and 'impl_events' not in c:
        import gdbcheck
        import sessioncheck
        m = common.model_eval('session', [[sessioncheck.mcfg(c['config']), gdbcheck.model_events(c['events'])]], shards=1)[0]
        r = gdbcheck.compare_case(c, m)
        print('differences:', r)
        print('REPRODUCED' if r and r != 'oom' else 'not reproduced on the current tree')
        return 1 if r and r != 'oom' else 0
    if not isinstance(c, list):
        print(dis.get('what'), str(c)[:2000], dis.get('model'), dis.get('impl'))
        return 0
    if dis['sig'].get('entry') == 'l2n':
        print('impl :', ires(letter_id_to_number, c))
        print('model:', common.model_eval('l2n', [c])[0])
    else:
        print('impl :', ires(number_to_letter_id, c[0], bool(c[1])))
        print('model:', common.model_eval('n2l', [c])[0])
    return 0
