"""C08 — no input line is lost, reordered or altered; output keeps pace with input."""
import sessioncheck
from props import sessprop


def gen(rnd):
    import world
    cfg = [None, None, 0, rnd.randrange(2), 0]
    d, items = world.gen_history(rnd, n_events=rnd.choice([10, 25, 40]), chatter=0.3, esc_chatter=True)
    if rnd.random() < 0.08:
        # very long lines (a data: URL as a title, a binary blob on stderr): one line in, one item out, whatever the length
        msgs = [it for it in items if it[0] == 'msg']
        big = rnd.choice([4090, 4200, 65530, 66000, 70000])
        at = rnd.randrange(len(items) + 1)
        if msgs and rnd.random() < 0.6:
            base = msgs[0][2]
            prev = [it for it in items[:at] if it[0] == 'msg']
            t = prev[-1][2]['time_us'] if prev else base['time_us']
            if not prev:
                at = items.index(msgs[0]) + 1
            items.insert(at, ('msg', msgs[0][1], dict(base, time_us=t, sent=True, iface='my_widget', id=4100, name='poke', args=[('str', 'u' * big)])))
        else:
            items.insert(at, ('text', 'b' * big))
    return sessioncheck.case_from_items(rnd, d, items, config=cfg)


def nontriv(c, m):
    kinds = set(e[0] for e in c['events'])
    return 'text' in kinds and 'msg' in kinds


def extra(res, rnd, cases):
    """truncation on the implementation: input cut after n lines gives the first n output items of
    the full run followed only by connection-closed notices; a partial last line without newline is a line"""
    n = 0
    for c in cases[: (40 if res.tier == 'quick' else 800)]:
        try:
            full, _, _ = sessioncheck.run_impl(c)
        except Exception:
            continue
        lines = len(c['impl_events']) - 1
        cuts = range(lines + 1) if lines <= 12 else sorted(set(rnd.randrange(lines + 1) for _ in range(8)))
        for cut in cuts:
            c2 = dict(c, impl_events=c['impl_events'][:cut] + [('eof',)], events=c['events'][:cut] + [['eof']])
            try:
                part, _, _ = sessioncheck.run_impl(c2)
            except Exception as e:
                res.disagree('truncated run raised', c2['impl_events'], None, repr(e), sig={'category': 'truncation-exception'})
                continue
            n += 1
            res.evaluations += 1
            ok = part[:cut] == full[:cut] and all(s == 'out' and t.startswith('Closed ') for s, t in part[cut])
            if not ok:
                res.disagree('truncated input does not give a prefix of the full output + close notices',
                             dict(cut=cut, impl_events=c['impl_events']), None, {'part': part[max(0, cut - 2):], 'full': full[max(0, cut - 2):cut]},
                             sig={'category': 'truncation-metamorphic'}, theorem='C08_truncation')
    res.extra['truncations_checked'] = n


INFO, run, replay = sessprop.make(
    'C08', ['out.msg', 'out.text', 'out.eof', 'final.conn.count', 'final.ctrl.all'],
    ['Proofs/SessionProofs.v', 'Proofs/ControllerProofs.v', 'Proofs/StreamSpecA.v', 'Proofs/StreamSpecB.v'],
    ['theorems are about WD.Session.run / step; tied to Parser.parse_all/cleanup and Output.show/unprocessed by streams with 30% non-message lines (chatter, blank lines, look-alikes) under both --supress settings: the implementation reads from a fake file whose readline() marks the output position, so the items attributed to each input line (and therefore produced before the next read) are compared with the model line by line; plus truncation at every line (short inputs) / 8 random lines (long inputs) on the implementation',
     'what the model cannot exhibit: CPython/OS buffering of the real stdout when it is a pipe (covered by C13 process-level runs)'],
    'C08_prefix_closed / C08_truncation / C08_text_passthrough / C08_message_item', gen, nontriv,
    'generated streams (10-40 lines) with 30% non-message lines, both --supress settings; non-trivial = stream containing both message and non-message lines; distinct by input',
    extra=extra)
