"""C19 — everything after -r/-g is forwarded verbatim; everything before is ours."""
import contextlib
import io
import os
import random
import subprocess
import sys

import common
import implenv
import matchgen
from implenv import res as ires

INFO = {
    'proof_files': ['Proofs/ArgsProofs.v', 'Proofs/ArgsProofsB.v'],
    'assumptions': [
        'theorems are about WD.Args (split_command / classify / select_mode / quote_word / py_eval_literal); tied to frontends/tui/arguments.py (_split_command, parse_args) and backends/gdb_plugin/runner.py (run_gdb) by generated argument vectors: the splitter directly, parse_args in-process (mode, filter, forwarded words), run_gdb with subprocess.Popen intercepted (argv handed to gdb; the `python ...` command is then executed by a real Python interpreter to read back sys.argv), and main.py -r with a helper program that prints its argv',
        'argparse (Python 3.12, allow_abbrev) is modelled for this option table: exact spellings, unique-prefix abbreviations, --opt=value, flag clusters and attached values, option-like values, --, repeated options, unknown options / stray words / ambiguity = usage error (exit 2); out of model (counted): the help actions and dash-initial words containing non-ASCII characters',
        'Python string-literal evaluation is modelled for the literals repr() produces on ASCII text',
    ],
}

WORDS = ['prog', './a.out', '--help', '-x', 'a b', '', '"', "'", '\\', 'a\\b', 'a"b', "it's", 'x\\', '\\n', 'tab\there', '$HOME', '`id`', ';', '*',
         '-r', '--run', '-g', '--gdb', '-rg', '-Cr', '-l', '-f', 'wl_surface', '--', '-', '--supress', 'é', 'a\nb', '%s', '{0}', "'\"", 'x' * 40,
         '100%', '%', '%%', '%d%s', 'a%sb', '%(x)s', '{', '}', '{}', '\\\\', '\\n', 'a\rb', '\x1b[0m',
         '\U0001F600', 'x\U00010300y', '\uffff', '\u2028']
FLAGS = ['-p', '--pipe', '-C', '--no-color', '--color', '--supress', '--verbose']
VALUED = ['-l', '--load', '-f', '--filter', '-b', '--break']
MARKERS = ['-r', '--run', '-g', '--gdb', '-Cr', '-Cg', '-rC', '-gC', '-pr', '-Cpg', '-rg', '-gr', '--r', '-run', '--gdbx', '-R', 'r', '-rr', '-gg']


def gen_argv(rnd):
    argv = [rnd.choice(['main.py', '/repo/main.py', './main.py'])]
    for _ in range(rnd.choice([0, 0, 1, 2, 3])):
        r = rnd.random()
        if r < 0.5:
            argv.append(rnd.choice(FLAGS))
        elif r < 0.9:
            o = rnd.choice(VALUED)
            if o in ('-l', '--load'):
                v = rnd.choice(['/tmp/x.log', 'file', 'a b', '/opt/\U00010300/lib', 'p\U0001F600.log', 'caf\u00e9/\uffff'])   # also beyond the BMP
            else:
                v = matchgen.matcher(rnd, 1).strip() if rnd.random() < 0.7 else matchgen.mutate(rnd, matchgen.matcher(rnd, 1)).strip()
                if rnd.random() < 0.25:
                    v = '(x="' + rnd.choice(WORDS).replace('"', '') + '")' if rnd.random() < 0.6 else rnd.choice(WORDS)
            argv += [o, v]
        else:
            argv.append(rnd.choice(['--fil', '-Cp', '--load=/x', '-fwl_surface', 'stray', '--libwayland', '/x']))
    if rnd.random() < 0.85:
        argv.append(rnd.choice(MARKERS))
        for _ in range(rnd.choice([0, 1, 1, 2, 3, 5])):
            argv.append(rnd.choice(WORDS + MARKERS + FLAGS))
    return argv


def impl_parse(argv):
    """parse_args in-process -> the model's shape"""
    from frontends.tui import arguments
    out = io.StringIO()
    err = io.StringIO()
    try:
        with contextlib.redirect_stdout(out), contextlib.redirect_stderr(err):
            a = arguments.parse_args(list(argv))
    except SystemExit as e:
        if e.code == 0 and 'usage:' in out.getvalue():
            return ['ok', ['usage']]
        if e.code == 2 and 'usage:' in err.getvalue():
            return ['ok', ['exit2']]          # argparse's own error exit
        return ['exit', e.code, (out.getvalue() + err.getvalue())[-200:]]
    except RuntimeError as e:
        msg = str(e)
        if msg.startswith('invalid filter matcher') or msg.startswith('invalid break matcher'):
            return ['ok', ['bad-matcher']]
        if 'option must be last' in msg:
            return ['ok', ['split-error']]
        return ['raise', 1, msg]
    except Exception as e:
        return ['raise', implenv.exn_code(e), repr(e)]
    gdb_argv = []
    if a.mode.value == 'gdb-runner':
        gdb_argv = run_gdb_capture(a)
    return ['ok', ['ok', a.mode.value, a.load_path, str(a.filter_matcher), str(a.stop_matcher), 1 if a.show_unprocessed_output else 0,
                   list(a.wayland_debug_args), list(a.command_args), gdb_argv]]


class FakePopen:
    captured = None

    def __init__(self, args, env=None, **k):
        FakePopen.captured = list(args)
        self.returncode = 0

    def wait(self):
        return 0


def run_gdb_capture(a):
    from backends.gdb_plugin import runner
    a.wayland_lib_dir = None
    real = runner.subprocess

    class Shim:
        Popen = FakePopen
        run = staticmethod(real.run)
    runner.subprocess = Shim
    FakePopen.captured = None
    try:
        with contextlib.redirect_stdout(io.StringIO()):
            runner.run_gdb(a, True)
    finally:
        runner.subprocess = real
    return FakePopen.captured


def eval_python_command(cmd):
    """what GDB's Python does with `python import sys; sys.argv = [...]; exec(open(path).read())`:
    run in a child interpreter whose open() is stubbed, print the resulting sys.argv"""
    assert cmd.startswith('python ')
    code = cmd[len('python '):]
    prog = ('import builtins, io, sys, json\n'
            'builtins.open = lambda *a, **k: io.StringIO("")\n'
            'code = sys.stdin.read()\n'
            'try:\n'
            '    exec(code, {"__name__": "__gdb__"})\n'
            '    print(ascii(["ok", sys.argv]))\n'           # not JSON: it would merge two lone surrogates back into one character
            'except BaseException as e:\n'
            '    print(ascii(["error", repr(e)]))\n')
    p = subprocess.run([sys.executable, '-c', prog], input=code, capture_output=True, text=True, timeout=60)
    import ast
    try:
        return ast.literal_eval(p.stdout.strip().split('\n')[-1])
    except Exception:
        return ['error', p.stdout[-200:] + p.stderr[-200:]]


def run(res):
    from frontends.tui import arguments
    rnd = random.Random(res.seed * 6007 + 19)
    n = 4000 if res.tier == 'quick' else 200000
    argvs = CORPUS + [gen_argv(rnd) for _ in range(n)]
    # 1. the splitter
    msplit = common.model_eval('splitcmd', argvs)
    for av, m in zip(argvs, msplit):
        res.evaluations += 1
        r = ires(lambda: (lambda t: [list(t[0]), t[1], list(t[2])])(arguments._split_command(list(av), [['-g', '--gdb'], ['-r', '--run']])))
        if r != m:
            res.disagree('_split_command differs from model', av, m, r, sig={'entry': 'splitcmd', 'argv': av}, theorem='C19_first_marker_exact / C19_first_marker_cluster')
    # 2. parse_args
    mres = common.model_eval('argv', argvs)
    n_gdb = 0
    for av, m in zip(argvs, mres):
        res.evaluations += 1
        if m[0] == 'raise' and m[1] in (99, 98):
            res.out_of_model += 1
            continue
        r = impl_parse(av)

        def strip_cmd(x):
            # the literal text of the `python ...` command is an implementation detail: it is judged by evaluating it (below)
            if x[0] == 'ok' and x[1][0] == 'ok':
                return ['ok', x[1][:8]]
            return x
        if strip_cmd(r) != strip_cmd(m):
            res.disagree('parse_args differs from model', av, m, r, sig={'entry': 'argv', 'argv': av}, theorem='C19_exactly_one_mode / split theorems')
            continue
        res.count('result:' + (m[1][0] if m[0] == 'ok' else 'raise'))
        if m[0] == 'ok' and m[1][0] == 'ok':
            res.nontriv(tuple(av))
            if m[1][1] == 'gdb-runner' and n_gdb < (150 if res.tier == 'quick' else 3000):
                # 3. the instance inside GDB must see exactly our words; gdb gets the forwarded words verbatim
                n_gdb += 1
                gargv = r[1][8]
                ours, fwd = m[1][6], m[1][7]
                res.evaluations += 1
                if gargv[:2] != ['gdb', '-ex'] or gargv[3:] != fwd:
                    res.disagree('words forwarded to gdb are not verbatim', av, ['gdb', '-ex', '...'] + fwd, gargv, sig={'entry': 'gdb-forward', 'argv': av})
                    continue
                ev = eval_python_command(gargv[2])
                if ev != ['ok', ours]:
                    res.disagree('sys.argv re-created inside GDB differs from our words', av, ['ok', ours], ev,
                                 sig={'entry': 'gdb-inner-argv', 'argv': av, 'has_backslash': any('\\' in w for w in ours)}, theorem='C19_gdb_argv_roundtrip')
    # 3b. the same for words outside the model's ASCII domain (accents, beyond the BMP, line separators): judged on /repo alone —
    #     the words before the marker must come back verbatim as sys.argv inside GDB, the words after it go to gdb verbatim
    uni = ['caf\u00e9', '\U0001F600', 'x\U00010300y', '\uffff', '\u2028', '/opt/\U00010300/lib', '\u65e5\u672c', 'a\u0301']
    n_uni = 0
    for _ in range(40 if res.tier == 'quick' else 1500):
        pre = ['main.py']
        for _k in range(rnd.choice([1, 2, 3])):
            r0 = rnd.random()
            if r0 < 0.4:
                pre += ['--libwayland', rnd.choice(uni)]        # (-l/--load and -p are modes of their own: with -g they would conflict)
            elif r0 < 0.7:
                pre += [rnd.choice(['-f', '-b']), '(x="' + rnd.choice(uni) + '")']
            else:
                pre.append(rnd.choice(['-C', '--no-color', '--color', '--supress', '--verbose']))
        fwd = ['prog'] + [rnd.choice(uni + WORDS) for _k in range(rnd.choice([0, 1, 3]))]
        av = pre + [rnd.choice(['-g', '--gdb'])] + fwd
        r = impl_parse(av)
        res.evaluations += 1
        if r[0] != 'ok' or r[1][0] != 'ok':
            if r != ['ok', ['bad-matcher']]:
                res.disagree('a vector with non-ASCII words before -g is not accepted', av, 'accepted', r, sig={'entry': 'gdb-unicode', 'argv': av})
            continue
        n_uni += 1
        gargv = r[1][8]
        if r[1][6] != pre or r[1][7] != fwd or gargv[:2] != ['gdb', '-ex'] or gargv[3:] != fwd:
            res.disagree('words are not split / forwarded verbatim', av, [pre, fwd], [r[1][6], r[1][7], gargv[3:]], sig={'entry': 'gdb-unicode-split', 'argv': av})
            continue
        ev = eval_python_command(gargv[2])
        if ev != ['ok', pre]:
            res.disagree('sys.argv re-created inside GDB differs from our words', av, ['ok', pre], ev,
                         sig={'entry': 'gdb-inner-argv', 'argv': av, 'non_ascii': True}, theorem='C19_gdb_argv_roundtrip (ASCII); exploration beyond')
    res.extra['gdb_inner_argv_evaluations'] = n_gdb
    res.extra['gdb_inner_argv_non_ascii'] = n_uni
    res.sample({'argv': argvs[len(CORPUS)], 'model': mres[len(CORPUS)]})
    res.sample({'argv': argvs[len(CORPUS) + 1], 'model': mres[len(CORPUS) + 1]})
    run_mode_argv(res, rnd)
    k_n, ok, out = common.kernel_replay(res.pid, 'argv', argvs[:300], mres[:300], 150)
    res.kernel_replays += k_n
    if not ok:
        res.disagree('in-kernel replay differs from extracted model', None, None, out[-500:], sig={'entry': 'kernel-replay'})
    res.rule = ('argument vectors built from our flags, valued options (values: generated matchers, malformed matchers, arbitrary printable words incl. quotes and backslashes), '
                'a run/gdb marker in 19 spellings (exact, clusters, near-misses) at any position and arbitrary following words incl. further markers; '
                'for gdb mode the python command handed to gdb is executed by a real interpreter; non-trivial = accepted vector; distinct by vector')


def run_mode_argv(res, rnd):
    """main.py -r PROG ...: PROG must see the forwarded words verbatim"""
    n = 30 if res.tier == 'quick' else 300
    helper = os.path.join(common.BUILD, 'argv_helper.py')
    with open(helper, 'w') as f:
        f.write('import sys, json, os\nopen(os.environ["WDV_OUT"], "w").write(json.dumps(sys.argv[1:]))\n')
    outp = os.path.join(common.BUILD, 'argv_helper.out')
    for _ in range(n):
        words = [rnd.choice(WORDS + MARKERS + FLAGS) for _ in range(rnd.choice([0, 1, 2, 4]))]
        if rnd.random() < 0.3:
            words.insert(rnd.randrange(len(words) + 1), '--')       # a `--` that belongs to the program
        words = [w for w in words if '\x00' not in w]
        env = dict(os.environ, WDV_OUT=outp, PYTHONPATH=common.REPO)
        if os.path.exists(outp):
            os.remove(outp)
        marker = rnd.choice(['-r', '--run', '-Cr'])
        p = subprocess.run([sys.executable, '-B', os.path.join(common.REPO, 'main.py'), marker, sys.executable, helper] + words,
                           stdin=subprocess.DEVNULL, capture_output=True, text=True, env=env, timeout=60)
        res.evaluations += 1
        import json
        got = json.load(open(outp)) if os.path.exists(outp) else None
        if got != words:
            res.disagree('program started with -r does not see the forwarded words verbatim', [marker] + words, words, got,
                         sig={'entry': 'run-argv'}, theorem='C19_first_marker_exact')
        else:
            res.nontriv(('run', tuple(words)))
    # the program word itself is forwarded verbatim too: a bare name found through PATH stays that name (it is the program's argv[0])
    import shutil
    for prog, script in (('sh', 'printf %s "$0" > "$WDV_OUT"'), ('sh', 'printf "%s|%s" "$0" "$1" > "$WDV_OUT"')):
        if not shutil.which(prog):
            continue
        if os.path.exists(outp):
            os.remove(outp)
        words = ['-c', script] + (['-r'] if '$1' in script else [])
        p = subprocess.run([sys.executable, '-B', os.path.join(common.REPO, 'main.py'), rnd.choice(['-r', '--run', '-Cr']), prog] + words,
                           stdin=subprocess.DEVNULL, capture_output=True, text=True, env=dict(os.environ, WDV_OUT=outp, PYTHONPATH=common.REPO), timeout=60)
        res.evaluations += 1
        got = open(outp).read() if os.path.exists(outp) else None
        # `sh -c script [name]`: $0 is the name given after the script if any, otherwise the name sh itself was started under
        want = '-r|' if '$1' in script else prog
        if got != want:
            res.disagree('the program word after -r is not handed on verbatim (the program sees another argv[0])', [prog] + words, want, [got, p.stderr[-200:]],
                         sig={'entry': 'run-argv0'}, theorem='C13_spawn_transparent / C19_first_marker_exact')
    for f in (helper, outp):
        if os.path.exists(f):
            os.remove(f)


CORPUS = [['main.py', '-g', 'prog'], ['main.py', '-Cr', 'prog', '-g'], ['main.py', '-f', 'wl_surface', '--gdb', '--args', 'a b', '-r'],
          ['main.py', '-f', '(x="a\\b")', '-g', 'prog'], ['main.py', '-f', "(x=\"it's\")", '-g'], ['main\\.py', '-g'], ['main.py', '-b', 'x\\', '-g', 'p'],
          ['main.py'], ['main.py', '-p', '-l', 'x'], ['main.py', '-rC', 'p'], ['main.py', '-f', '(', '-r', 'p'], ['main.py', '-l', 'f.log'], ['main.py', '-p'],
          ['main.py', '-f', '', '-p'], ['-r', 'x'], ['main.py', '--run'], ['main.py', '-r', '-r', '-g'],
          ['main.py', '-f', '(x="50%% done")', '-g', 'prog'], ['main.py', '-b', 'xdg_toplevel.set_title("100%")', '-g', '--args', 'prog'],
          ['main.py', '-f', '(x="%s")', '-Cg', 'prog', '%s'], ['main.py', '-f', '(x="{0}")', '-g', 'prog', '{}'], ['main.py', '-Cr', 'prog', '-r'], ['main.py', '-Cg', '-r']]


def replay(dis):
    av = dis['input']
    i = impl_parse(av)
    m = common.model_eval('argv', [av], shards=1)[0]
    print('impl :', i)
    print('model:', m)
    print('REPRODUCED' if i != m else 'not reproduced on the current tree')
    return 1 if i != m else 0
