"""C05 — a matcher selects exactly the messages its documented meaning says.
Tie: matcher.parse(text).simplify().matches(msg) (and the unsimplified matcher, and both str()) vs
the model's parse / simplify / matches / mshow on grammar-generated expressions x a message universe."""
import random

import common
import docgen
import implenv
import matchgen
import universe

INFO = {
    'proof_files': ['Proofs/MatcherProofs.v', 'Proofs/DocSemLevels.v', 'Proofs/DocSemTop.v', 'Proofs/DocParseA.v', 'Proofs/DocParseB.v',
                    'Proofs/DocParseC.v', 'Proofs/DocParseD.v', 'Proofs/DocParseE.v', 'Proofs/DocParseF.v',
                    'Proofs/DocLayA.v', 'Proofs/DocLayB.v', 'Proofs/DocLayC.v', 'Proofs/DocLayD.v'],
    'assumptions': [
        'theorems are about WD.Matcher / WD.MatcherParse (the matcher classes, simplify, join, parse transcribed rule for rule); tied to core/matcher.py by evaluating generated expressions (documented grammar, all atom kinds, lists, brackets, white space) on a universe of messages on both sides, simplified and unsimplified, plus the printed forms',
        'the documented language itself is WD.Doc (syntax tree, denote = matchers.md and the property text read compositionally, render = its text with any white space); C05_main: text rendered from a well-formed tree parses, and the simplified matcher selects exactly denote, except on the D11 family (side_ok); the harness checks the same statement directly on /repo: matcher.parse(render e).simplify().matches(m) == denote e m for generated trees x universe, every difference must lie where the model says side_ok is false AND have the recorded shape',
        'floats in matcher text other than plain decimals (exponents, inf, nan, underscores) and non-ASCII text are out of model (counted)',
    ],
}


def evaluate_impl(t, imsgs):
    from core import matcher
    try:
        m = matcher.parse(t)
        us = str(m)
        un = [1 if m.matches(x) else 0 for x in imsgs]
        s = m.simplify()
        return ['ok', [[1 if s.matches(x) else 0 for x in imsgs], un]], ['ok', [us, str(s)]]
    except Exception as e:
        c = implenv.exn_code(e)
        return ['raise', c], ['raise', c]


def run(res):
    rnd = random.Random(res.seed * 104729 + 5)
    n = 2500 if res.tier == 'quick' else 120000
    uni = universe.build_universe(rnd, 60)
    imsgs = [universe.impl_msg(m) for m in uni]
    smsgs = [universe.sx_msg(m) for m in uni]
    texts = []
    for _ in range(n):
        texts.append(matchgen.matcher(rnd, rnd.choice([0, 1, 2, 2, 3])))
    texts += [matchgen.mutate(rnd, t) for t in texts[: n // 4]]
    # corpus first
    texts = CORPUS + texts
    for lo in range(0, len(texts), 4000):
        chunk = texts[lo:lo + 4000]
        mres = common.model_eval('meval', [[t, smsgs] for t in chunk])
        pres = common.model_eval('mparse', chunk)
        for t, mr, pr in zip(chunk, mres, pres):
            res.evaluations += 1
            if mr == ['raise', 99] or pr == ['raise', 99]:
                res.out_of_model += 1
                continue
            ir, ip = evaluate_impl(t, imsgs)
            if ir != mr:
                detail = ''
                if ir[0] == 'ok' and mr[0] == 'ok':
                    for k in (0, 1):
                        for i, (a, b) in enumerate(zip(mr[1][k], ir[1][k])):
                            if a != b:
                                detail = '%s matcher on message %r: model %s impl %s' % ('simplified' if k == 0 else 'unsimplified', uni[i], a, b)
                                break
                        if detail:
                            break
                res.disagree('matcher selection differs from model', t, mr if mr[0] != 'ok' else detail, ir if ir[0] != 'ok' else detail,
                             sig={'entry': 'meval', 'text': t, 'detail': detail}, theorem='C05 (model of parse/simplify/matches)')
            elif ip != pr:
                res.disagree('printed matcher differs from model', t, pr, ip, sig={'entry': 'mparse', 'text': t})
            else:
                res.count('accepted' if mr[0] == 'ok' else 'rejected')
                if mr[0] == 'ok' and any(c in t for c in ',!(['):
                    res.nontriv(t)
        if lo == 0:
            n_k, ok, out = common.kernel_replay(res.pid, 'meval', [[t, smsgs[:12]] for t in chunk[:40]],
                                                common.model_eval('meval', [[t, smsgs[:12]] for t in chunk[:40]]), 40)
            res.kernel_replays += n_k
            if not ok:
                res.disagree('in-kernel replay differs from extracted model', None, None, out[-500:], sig={'entry': 'kernel-replay'})
    res.sample({'expr': texts[len(CORPUS) + 1], 'universe_size': len(uni)})
    res.sample({'expr': texts[len(CORPUS) + 2]})
    res.rule = ('expressions derived from the documented grammar (depth 0-3, all atom kinds, comma/! lists, brackets, connection prefix, white space) '
                'plus mutated (malformed) text, each evaluated on %d messages simplified and unsimplified and printed; '
                'non-trivial = accepted expression containing a list, exclusion, bracket or argument part; distinct by text' % len(uni))
    doc_check(res, rnd, uni, imsgs, smsgs)
    session_filters(res, rnd)
    known_findings(res, uni, imsgs)


CORPUS = ['*', '!', 'wl_surface', '5', '4b', '.commit', 'wl_surface.commit', 'B: .commit', 'wl_pointer(pressed)', 'wl_pointer(buffer=)',
          '.(nil)', '.new', 'wl_surface.new', '.destroyed', '10.destroyed', 'wl_pointer, .commit', 'wl_pointer, wl_touch ! .motion ',
          'xdg_* ! xdg_popup, .get_popup', '(x=0, y=0)', '55a.[motion, axis]', '[wl_pointer ! 55, 62].motion', '([x=0, y=0])',
          '(*)', '(* ! 5)', '.commit(*)', '.commit()', '.commit( )', '.new(!*)', 'A: 3b', 'A:', '@3a', '#3', 'wl_surface@', '3a.new', '(!)',
          '( ! )', '[', ']', '[]', '()', 'a(b)(c)', 'a.b.c', '"', '(")', '("a,b")', '(x="[")', '1_0', '(1_0)', '( 5 )', '(5.)', '(.5)',
          '(name=wl_seat)', '(wl_seat)', '(nil)', '(@3)', '(3)', '(3a)', '(3.0)', '(x=)', '(=5)', '(=)', 'wl_*.new(', ' , ', ',', '!,']


SHAPES = {1: 'all-star positives, no exclusion, zero-argument message',
          2: 'exclusion accepting everything, no positives, zero-argument message',
          3: 'all-star positives, no exclusion, zero-argument message'}


def doc_check(res, rnd, uni, imsgs, smsgs):
    """The property itself on /repo: documented tree -> text (0/1/2 blanks everywhere, and an independent 0-3 blanks at every strippable position) -> matcher.parse().simplify().matches()
    against the documented meaning computed by the model (Doc.denote)."""
    from core import matcher
    n = 700 if res.tier == 'quick' else 30000
    exprs = [docgen.dtop(rnd, rnd.choice([0, 1, 2, 3])) for _ in range(n)]
    seen_shapes = set()
    for lo in range(0, n, 1500):
        chunk = exprs[lo:lo + 1500]
        mres = common.model_eval('doc', [[e, smsgs, [rnd.randrange(8) for _ in range(rnd.choice([0, 40, 400]))]] for e in chunk])
        for e, r in zip(chunk, mres):
            res.evaluations += 1
            if r == ['bad-case'] or len(r) != 7:
                res.disagree('doc entry rejected a generated tree', e, None, r, sig={'entry': 'doc', 'category': 'harness'})
                continue
            wf, texts, den, parsed, elabm, strs, side = r
            if not wf:
                res.count('doc:not-wf')
                continue
            ok = True
            for k, (t, pm) in enumerate(zip(texts, parsed)):
                if pm[0] != 'ok':
                    if pm == ['raise', 99]:
                        res.out_of_model += 1
                    else:
                        res.disagree('documented text rejected by the model parser', t, 'Ok', pm, sig={'entry': 'doc', 'category': 'T1-reject', 'text': t},
                                     theorem='C05_parse_render')
                    ok = False
                    continue
                try:
                    sm = matcher.parse(t).simplify()
                    im = [1 if sm.matches(x) else 0 for x in imsgs]
                except Exception as ex:
                    res.disagree('documented text rejected by the implementation', t, 'accepted', repr(ex), sig={'entry': 'doc', 'category': 'impl-reject', 'text': t},
                                 theorem='C05_parse_render')
                    ok = False
                    continue
                if im != pm[1]:
                    i = [a != b for a, b in zip(im, pm[1])].index(True)
                    res.disagree('matcher selection differs from model (documented text)', t, pm[1][i], im[i],
                                 sig={'entry': 'doc', 'category': 'impl-vs-model', 'text': t, 'detail': repr(uni[i])}, theorem='C05 (model of parse/simplify/matches)')
                    ok = False
                    continue
                if pm[1] != elabm or strs[k][0] != 'ok' or strs[k][1][0] != strs[k][1][1]:
                    res.disagree('parsed text and elaborated tree differ although C05_parse_render says they agree', t, elabm, pm[1],
                                 sig={'entry': 'doc', 'category': 'T1', 'text': t}, theorem='C05_parse_render')
                    ok = False
                    continue
                # the property: what /repo selects is what the documentation says
                for i, (a, d) in enumerate(zip(im, den)):
                    if a == d:
                        continue
                    ok = False
                    sok, shapes = side[i]
                    # impl == model has been established above for this text; C05_simplified_means_doc says model == denote wherever
                    # side_ok holds, so a difference there contradicts the theorem (harness/model defect) and a difference where side_ok
                    # is false is the recorded D11 family: an argument list with an all-accepting item evaluated on NO arguments -
                    # a message without arguments, or the argument-less `.new` / `.destroyed` pseudo-message
                    if sok or not shapes:
                        res.disagree('the matcher selects a message its documented meaning does not (or the reverse)', {'text': t, 'tree': e, 'message': uni[i]},
                                     d, a, sig={'entry': 'doc', 'category': 'T2', 'text': t, 'side_ok': sok},
                                     theorem='C05_simplified_means_doc / C05_main')
                    else:
                        seen_shapes.add(max(shapes))
                    break
            if ok:
                res.nontriv(('doc', repr(e)))
                res.count('doc:agree')
    for sh in sorted(seen_shapes):
        # one report per recorded shape (matched against known_findings.json); anything else above is a violation
        ex = {1: '(*)', 2: '(!*)', 3: '(*)'}[sh]
        res.disagree('documented meaning and tool differ on a zero-argument message: %s' % SHAPES[sh], ex, 'Doc.denote', 'matcher.parse(..).simplify().matches',
                     sig={'call_site': 'ArgsMatcherList.simplify', 'shape': SHAPES[sh]}, theorem='C05_args_star_refuted_doc / C05_args_excl_star_refuted')


def session_filters(res, rnd):
    """The matcher as the user gets it inside a session: filters with connection names and quoted strings given as -f and typed
    as commands, colour on and off (the connection part is compared with the connection's name as the tool holds it)."""
    import cmdgen
    import sessioncheck
    n = 60 if res.tier == 'quick' else 2000
    cases = []
    for _ in range(n):
        cfg = [rnd.choice(['A: ', 'B:', 'A: wl_registry', '.bind ! B:', 'B: .get_registry, A: .sync', '("My  App")', '.set_title("My  App")', None]),
               None, rnd.choice([0, 1]), 1, 0]
        cases.append(sessioncheck.build_case(rnd, n_events=rnd.choice([20, 40]), config=cfg, chatter=0.02, n_conns=rnd.choice([2, 3]),
                                             cmds=lambda r: r.choice(['list A:', 'list ("My  App")', 'filter B: ', 'list .set_title("My  App") ~ 3',
                                                                      'filter ! ("My  App")', 'list (title="tab\there")', cmdgen.mixed(r, (3, 1, 3, 1, 0))]),
                                             cmd_rate=0.2))
    sessioncheck.run_cases(res, cases, lambda cat: cat.startswith('out.') or cat.startswith('final.ctrl'), 'C05 (matchers inside a session)',
                           theorem='C05_main_any_layout (model of the session)', nontrivial=lambda c, m: False, kernel_sample=4)


def known_findings(res, uni, imsgs):
    """D11: an argument list whose items are all `*` and which has no exclusion is folded to `always` and
    then also selects messages with zero arguments, although no argument satisfies the `*` item
    (with an exclusion present the same list requires an argument).  Replayed on the implementation:
    reported as KNOWN-FINDING while it behaves this way."""
    from core import matcher
    zero = [m for m in imsgs if len(m.args) == 0]
    if not zero:
        return
    try:
        a = matcher.parse('(*)').simplify().matches(zero[0])
        b = matcher.parse('(* ! 12345)').simplify().matches(zero[0])
    except Exception:
        return
    if a and not b:
        res.disagree('(*) selects a message with no arguments although (* ! 12345) does not', '(*) vs (* ! 12345) on a zero-argument message',
                     'Doc: every item must be satisfied by some argument', {'(*)': a, '(* ! 12345)': b},
                     sig={'call_site': 'ArgsMatcherList.simplify', 'shape': 'all-star positives, no exclusion, zero-argument message'},
                     theorem='C05_args_star_refuted')


def replay(dis):
    rnd = random.Random(1)
    uni = universe.build_universe(rnd, 60)
    t = dis['input']
    print('impl :', evaluate_impl(t, [universe.impl_msg(m) for m in uni]))
    print('model:', common.model_eval('meval', [[t, [universe.sx_msg(m) for m in uni]]])[0])
    return 0
