"""C05 — a matcher selects exactly the messages its documented meaning says.
Tie: matcher.parse(text).simplify().matches(msg) (and the unsimplified matcher, and both str()) vs
the model's parse / simplify / matches / mshow on grammar-generated expressions x a message universe."""
import random

import common
import implenv
import matchgen
import universe

INFO = {
    'proof_files': ['Proofs/MatcherProofs.v'],
    'assumptions': [
        'theorems are about WD.Matcher / WD.MatcherParse (the matcher classes, simplify, join, parse transcribed rule for rule); tied to core/matcher.py by evaluating generated expressions (documented grammar, all atom kinds, lists, brackets, white space) on a universe of messages on both sides, simplified and unsimplified, plus the printed forms',
        'floats in matcher text other than plain decimals (exponents, inf, nan, underscores) and non-ASCII text are out of model (counted)',
    ],
}


def evaluate_impl(t, imsgs):
    from core import matcher
    try:
        m = matcher.parse(t)
        us = str(m)
        un = [1 if m.matches(x) else 0 for x in imsgs]
        s = m.simplify()
        return ['ok', [[1 if s.matches(x) else 0 for x in imsgs], un]], ['ok', [us, str(s)]]
    except Exception as e:
        c = implenv.exn_code(e)
        return ['raise', c], ['raise', c]


def run(res):
    rnd = random.Random(res.seed * 104729 + 5)
    n = 2500 if res.tier == 'quick' else 120000
    uni = universe.build_universe(rnd, 60)
    imsgs = [universe.impl_msg(m) for m in uni]
    smsgs = [universe.sx_msg(m) for m in uni]
    texts = []
    for _ in range(n):
        texts.append(matchgen.matcher(rnd, rnd.choice([0, 1, 2, 2, 3])))
    texts += [matchgen.mutate(rnd, t) for t in texts[: n // 4]]
    # corpus first
    texts = CORPUS + texts
    for lo in range(0, len(texts), 4000):
        chunk = texts[lo:lo + 4000]
        mres = common.model_eval('meval', [[t, smsgs] for t in chunk])
        pres = common.model_eval('mparse', chunk)
        for t, mr, pr in zip(chunk, mres, pres):
            res.evaluations += 1
            if mr == ['raise', 99] or pr == ['raise', 99]:
                res.out_of_model += 1
                continue
            ir, ip = evaluate_impl(t, imsgs)
            if ir != mr:
                detail = ''
                if ir[0] == 'ok' and mr[0] == 'ok':
                    for k in (0, 1):
                        for i, (a, b) in enumerate(zip(mr[1][k], ir[1][k])):
                            if a != b:
                                detail = '%s matcher on message %r: model %s impl %s' % ('simplified' if k == 0 else 'unsimplified', uni[i], a, b)
                                break
                        if detail:
                            break
                res.disagree('matcher selection differs from model', t, mr if mr[0] != 'ok' else detail, ir if ir[0] != 'ok' else detail,
                             sig={'entry': 'meval', 'text': t, 'detail': detail}, theorem='C05 (model of parse/simplify/matches)')
            elif ip != pr:
                res.disagree('printed matcher differs from model', t, pr, ip, sig={'entry': 'mparse', 'text': t})
            else:
                res.count('accepted' if mr[0] == 'ok' else 'rejected')
                if mr[0] == 'ok' and any(c in t for c in ',!(['):
                    res.nontriv(t)
        if lo == 0:
            n_k, ok, out = common.kernel_replay(res.pid, 'meval', [[t, smsgs[:12]] for t in chunk[:40]],
                                                common.model_eval('meval', [[t, smsgs[:12]] for t in chunk[:40]]), 40)
            res.kernel_replays += n_k
            if not ok:
                res.disagree('in-kernel replay differs from extracted model', None, None, out[-500:], sig={'entry': 'kernel-replay'})
    res.sample({'expr': texts[len(CORPUS) + 1], 'universe_size': len(uni)})
    res.sample({'expr': texts[len(CORPUS) + 2]})
    res.rule = ('expressions derived from the documented grammar (depth 0-3, all atom kinds, comma/! lists, brackets, connection prefix, white space) '
                'plus mutated (malformed) text, each evaluated on %d messages simplified and unsimplified and printed; '
                'non-trivial = accepted expression containing a list, exclusion, bracket or argument part; distinct by text' % len(uni))
    known_findings(res, uni, imsgs)


CORPUS = ['*', '!', 'wl_surface', '5', '4b', '.commit', 'wl_surface.commit', 'B: .commit', 'wl_pointer(pressed)', 'wl_pointer(buffer=)',
          '.(nil)', '.new', 'wl_surface.new', '.destroyed', '10.destroyed', 'wl_pointer, .commit', 'wl_pointer, wl_touch ! .motion ',
          'xdg_* ! xdg_popup, .get_popup', '(x=0, y=0)', '55a.[motion, axis]', '[wl_pointer ! 55, 62].motion', '([x=0, y=0])',
          '(*)', '(* ! 5)', '.commit(*)', '.commit()', '.commit( )', '.new(!*)', 'A: 3b', 'A:', '@3a', '#3', 'wl_surface@', '3a.new', '(!)',
          '( ! )', '[', ']', '[]', '()', 'a(b)(c)', 'a.b.c', '"', '(")', '("a,b")', '(x="[")', '1_0', '(1_0)', '( 5 )', '(5.)', '(.5)',
          '(name=wl_seat)', '(wl_seat)', '(nil)', '(@3)', '(3)', '(3a)', '(3.0)', '(x=)', '(=5)', '(=)', 'wl_*.new(', ' , ', ',', '!,']


def known_findings(res, uni, imsgs):
    """D11: an argument list whose items are all `*` and which has no exclusion is folded to `always` and
    then also selects messages with zero arguments, although no argument satisfies the `*` item
    (with an exclusion present the same list requires an argument).  Replayed on the implementation:
    reported as KNOWN-FINDING while it behaves this way."""
    from core import matcher
    zero = [m for m in imsgs if len(m.args) == 0]
    if not zero:
        return
    try:
        a = matcher.parse('(*)').simplify().matches(zero[0])
        b = matcher.parse('(* ! 12345)').simplify().matches(zero[0])
    except Exception:
        return
    if a and not b:
        res.disagree('(*) selects a message with no arguments although (* ! 12345) does not', '(*) vs (* ! 12345) on a zero-argument message',
                     'Doc: every item must be satisfied by some argument', {'(*)': a, '(* ! 12345)': b},
                     sig={'call_site': 'ArgsMatcherList.simplify', 'shape': 'all-star positives, no exclusion, zero-argument message'},
                     theorem='C05_args_star_refuted')


def replay(dis):
    rnd = random.Random(1)
    uni = universe.build_universe(rnd, 60)
    t = dis['input']
    print('impl :', evaluate_impl(t, [universe.impl_msg(m) for m in uni]))
    print('model:', common.model_eval('meval', [[t, [universe.sx_msg(m) for m in uni]]])[0])
    return 0
