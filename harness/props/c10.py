"""C10 — GDB halts the program at a message iff it matches the breakpoint matcher."""
import random

import cmdgen
import common
import gdbcheck
import sessioncheck
import matchgen

INFO = {
    'proof_files': ['Proofs/GdbProofs.v', 'Proofs/ControllerProofs.v', 'Proofs/HaltRuns.v'],
    'assumptions': [
        'theorems are about WD.Session (gdb_message / gdb_command / run_command / ui_loop); tied to backends/gdb_plugin/plugin.py, PersistentUIState, Controller and TerminalUI by driving the REAL Plugin under harness/fakegdb (the breakpoints\' own stop() methods are called; only the message extractor is scripted) and comparing the value returned by stop(), the `continue`/`quit` executed after each command, the Stopped notices, and the prompt count of TerminalUI.run_until_stopped',
        'GDB\'s Python API is replaced by harness/fakegdb (Breakpoint/Command registries, execute, selected_thread)',
    ],
}
OWN = ('out.gmsg', 'out.gcmd', 'out.gsub', 'final.ctrl.pause', 'final.ctrl.matchers', 'final.ctrl.current')


def owns(cat):
    return cat in OWN


def gen(rnd):
    cfg = [None, matchgen.matcher(rnd, 1).strip() if rnd.random() < 0.6 else None, 0, 1, 1]
    return gdbcheck.build_case(rnd, cmds=lambda r: cmdgen.mixed(r, (1, 4, 0.5, 2, 4)), cmd_rate=0.25, config=cfg)


def run(res):
    rnd = random.Random(res.seed * 7919 + 10)
    n = 300 if res.tier == 'quick' else 10000
    cases = [gen(rnd) for _ in range(n)]
    gdbcheck.run_cases(res, cases, owns, 'C10', theorem='C10_stop_iff / C10_after_command',
                       nontrivial=lambda c, m: c['config'][1] is not None or any(e[0] != 'gmsg' for e in c['events']))
    shared_app_id_sessions(res, rnd)
    prompt_loop(res, rnd)
    res.rule = ('gdb event sequences over 1-3 connection addresses: messages (matching and not), breakpoint/connection/resume/quit/other commands via `wl CMD` and `wlCMD`, '
                'address reuse; plus TerminalUI.run_until_stopped on command scripts; non-trivial = has a breakpoint matcher or a command; distinct by event list')


def shared_app_id_sessions(res, rnd):
    """two or three connections announce the SAME app id (two windows of one application); `connection <app id>` selects the
    first of them, and the program halts at matching messages of that connection only"""
    n = 40 if res.tier == 'quick' else 1500
    cases = []
    for _ in range(n):
        k = rnd.choice([2, 2, 3])
        addrs = ['gdb_conn:0x%x' % (0x55550000 + 0x100 * i) for i in range(k)]
        app = rnd.choice(['org.example.App', 'Terminal', 'foo', 'com.vendor.thing'])
        lanes = {a: gdbcheck.gen_lifetime(rnd, rnd.choice([4, 8])) for a in addrs}
        t = 1000000
        ev = []

        def msg(a, pm):
            nonlocal t
            t += rnd.choice([10, 1000, 400000])
            pm = list(pm)
            pm[0] = t
            ev.append(['gmsg', a, 1, pm])
        for a in addrs:
            if lanes[a]:
                msg(a, lanes[a].pop(0))
        for a in addrs:
            if rnd.random() < 0.9:
                msg(a, [0, ['my_widget'], 3000 + rnd.randrange(20), 1, 'set_app_id', [['str', app]]])
        ev.append(['gcmd', rnd.choice(['connection ' + app, 'c ' + app.upper(), 'conn ' + app])])
        ev.append(['gcmd', rnd.choice(['breakpoint *', 'b *', 'b wl_display, wl_registry, *'])])
        while any(lanes.values()):
            a = rnd.choice([x for x in addrs if lanes[x]])
            msg(a, lanes[a].pop(0))
            if rnd.random() < 0.3:
                ev.append(['gcmd', rnd.choice(['resume', 'connection', 'r'])])
        cases.append(dict(config=[None, None, 0, 1, 1], events=ev))
    gdbcheck.run_cases(res, cases, owns, 'C10 (connections sharing an app id)', theorem='C10_halt_event', nontrivial=lambda c, m: True, kernel_sample=3)


def prompt_loop(res, rnd):
    """TerminalUI.run_until_stopped on scripted input: number of prompts"""
    from core import ConnectionManager, matcher
    from core.output import Output
    import core.output.stream as stream
    from frontends.tui import Controller, TerminalUI
    n = 300 if res.tier == 'quick' else 5000
    cases = []
    for _ in range(n):
        k = rnd.choice([1, 2, 3, 5, 8])
        cmds = [cmdgen.mixed(rnd, (1, 1, 1, 1, 6)) for _ in range(k)]
        if rnd.random() < 0.8:
            cmds.append(rnd.choice(['resume', 'r', 'quit', 'q', 'wl resume', 'w q', 'res', 'RESUME', 'qu']))
        cases.append(cmds)
    margs = [[[[], [], 0, 1, 0], [['ui', c]]] for c in cases]
    mres = common.model_eval('uiloop', [c for c in cases])
    for cmds, m in zip(cases, mres):
        out = Output(False, True, stream.Null(), stream.Null())
        cm = ConnectionManager()
        ctrl = Controller(out, cm, matcher.always, matcher.never)
        it = iter(cmds)
        prompts = [0]

        hit_eof = [0]

        def inp(prompt):
            prompts[0] += 1
            try:
                return next(it)
            except StopIteration:
                hit_eof[0] = 1
                raise EOFError()
        ui = TerminalUI(ctrl, ctrl, inp)
        try:
            ui.run_until_stopped()
        except EOFError:
            pass
        eof = hit_eof[0]
        res.evaluations += 1
        got = [prompts[0], eof]
        if m == ['oom']:
            res.out_of_model += 1
            continue
        if got != m:
            res.disagree('number of prompts differs from model', cmds, m, got, sig={'entry': 'uiloop'}, theorem='C10_prompt_loop')
        else:
            res.nontriv(('ui', tuple(cmds)))


def replay(dis):
    c = dis.get('input')
    if isinstance(c, dict) and 'events' in c and 'config' in c:
        m = common.model_eval('session', [[sessioncheck.mcfg(c['config']), gdbcheck.model_events(c['events'])]], shards=1)[0]
        r = gdbcheck.compare_case(c, m)
        print('differences:', r)
        print('REPRODUCED' if r and r != 'oom' else 'not reproduced on the current tree')
        return 1 if r and r != 'oom' else 0
    print(dis)
    return 0
