"""C06 — the live view shows exactly the messages matching the current filter."""
import cmdgen
import matchgen
import sessioncheck
from props import sessprop


def gen(rnd):
    cfg = [matchgen.matcher(rnd, 2).strip() if rnd.random() < 0.5 else None,
           matchgen.matcher(rnd, 1).strip() if rnd.random() < 0.3 else None, rnd.choice([0, 0, 1]), rnd.randrange(2), 0]
    if rnd.random() < 0.2:
        cfg[0] = rnd.choice(['A: ', 'B:', 'A: wl_registry', '.bind ! B:', 'B: .get_registry, A: .sync'])      # connection names in the filter
    return sessioncheck.build_case(rnd, n_events=rnd.choice([20, 35, 50]), config=cfg, chatter=0.05,
                                   cmds=lambda r: cmdgen.mixed(r, (4, 1, 1, 3, 1)), cmd_rate=0.15)


def nontriv(c, m):
    evs = c['events']
    return any(e[0] == 'cmd' and e[1].split()[:1] and e[1].split()[0][0] in 'fc' for e in evs) or c['config'][0] is not None


INFO, run, replay = sessprop.make(
    'C06', ['out.msg', 'out.cmd*', 'final.ctrl.all', 'final.conn.count', 'final.ctrl.matchers', 'final.ctrl.current', 'final.conns'],
    ['Proofs/ControllerProofs.v', 'Proofs/SessionProofs.v', 'Proofs/StreamSpecA.v'],
    ['theorems are about WD.Session.ctrl_on_message / crun (controller-level events) and process_command; tied to frontends/tui/controller.py by sessions with -f filters, `filter`/`connection` commands injected between lines, comparing per input line exactly which message lines appear and the final all_messages / Connection.messages() records'],
    'C06_shown_exact / C06_commands_keep_record', gen, nontriv,
    'generated multi-connection sessions (20-50 lines) with a -f filter in half of them and filter/connection/list/breakpoint commands injected between lines; non-trivial = session with a filter or a filter/connection command; distinct by input')
