"""C07 — argument names, nil types and enum labels come from the protocol descriptions.
Exhaustive (not sampled) comparison of the loaded database and of every lookup, plus load-order
permutations of synthetic multi-version descriptions through protocol.load."""
import itertools
import os
import random
import shutil

import common
import implenv
import implsession
from implenv import res as ires

INFO = {
    'proof_files': ['Proofs/ProtocolProofs.v'],
    'assumptions': [
        'generic theorems are about WD.Protocol (load / get_arg / look_up_enum); finite theorems (C07_shipped_db_wf) are about coq/Gen/ShippedDB.v, regenerated on every run from resources/protocols/**/*.xml and from the ast of load_all()\'s tag block by harness/translate_protocols.py (independent of core.wl.protocol; fail-closed on unknown constructs)',
        'tied to core/wl/protocol.py by comparing the whole loaded dictionary (every interface, version, message, argument name/type/interface/enum, enum, entry value) and every lookup (get_arg_name, look_up_interface, look_up_enum over all entry values, bitfield unions, 0, max+1, -1, one index beyond the end, unknown interface/message) exhaustively',
        'xml.etree / minidom and int(x, 0) are trusted',
    ],
}


def impl_dump():
    from core.wl import protocol
    out = []
    for name, i in protocol.interfaces.items():
        out.append([i.name, i.version,
                    [[m.name, [[a.name, a.type, common.opt(a.interface), common.opt(a.enum)] for a in m.args.values()]]
                     for m in i.messages.values()],
                    [[e.name, 1 if e.bitfield else 0, [[x.name, x.value] for x in e.entries.values()]] for e in i.enums.values()]])
    return out


def opt_res(r):
    """impl result -> model shape: Optional -> [] / [x]"""
    if r[0] == 'ok':
        return ['ok', common.opt(r[1]) if not isinstance(r[1], list) else r[1]]
    return r


def run(res):
    from core.wl import protocol
    implsession.load_protocols()
    # 1. the whole database
    mdump = common.model_eval('proto', [['dump']], shards=1)[0]
    idump = impl_dump()
    res.evaluations += 1
    mi = {i[0]: i for i in mdump}
    ii = {i[0]: i for i in idump}
    for name in sorted(set(mi) | set(ii)):
        if mi.get(name) != ii.get(name):
            res.disagree('loaded description differs', name, mi.get(name), ii.get(name), sig={'entry': 'dump', 'iface': name},
                         theorem='translation (regenerated Gen/ShippedDB.v + model load_all) vs protocol.load_all')
            break
    res.count('interfaces', len(ii))
    # 2. every lookup
    cases = []
    n_msgs = n_args = n_enum_args = 0
    for iname, i in ii.items():
        for m in i[2]:
            n_msgs += 1
            for k in range(len(m[1]) + 1):
                cases.append(['name', iname, m[0], k, 0])
                cases.append(['iface', iname, m[0], k, 0])
                if k < len(m[1]):
                    n_args += 1
                a = m[1][k] if k < len(m[1]) else None
                vals = [0, 1, -1]
                if a is not None and a[3]:
                    n_enum_args += 1
                    en = protocol.get_enum(iname, a[3][0])
                    if en is None:
                        # the property itself on /repo (what C07_shipped_db_wf states of the regenerated data): an argument declared
                        # with an enum that does not exist can never be annotated with its entries
                        res.disagree('an argument is tagged with an enum that does not exist', [iname, m[0], a[0], a[3][0]], 'an existing enum',
                                     'protocol.get_enum(%r, %r) is None' % (iname, a[3][0]),
                                     sig={'entry': 'dangling-enum', 'iface': iname, 'message': m[0], 'arg': a[0]}, theorem='C07_shipped_db_wf')
                    if en is not None:
                        ev = [e.value for e in en.entries.values()]
                        vals += ev + [max(ev) + 1 if ev else 5]
                        if en.bitfield:
                            if len(ev) <= 10 and res.tier != 'quick':
                                for r in range(2, len(ev) + 1):
                                    for comb in itertools.combinations(ev, r):
                                        v = 0
                                        for c in comb:
                                            v |= c
                                        vals.append(v)
                            else:
                                for x, y in itertools.combinations(ev, 2):
                                    vals.append(x | y)
                                tot = 0
                                for c in ev:
                                    tot |= c
                                vals.append(tot)
                for v in sorted(set(vals)):
                    cases.append(['enum', iname, m[0], k, v])
        cases.append(['name', iname, 'no_such_message', 0, 0])
        cases.append(['enum', iname, 'no_such_message', 0, 0])
    for k in range(5):
        cases.append(['name', 'no_such_interface', 'foo', k, 0])
        cases.append(['iface', 'no_such_interface', 'foo', k, 0])
        cases.append(['enum', 'no_such_interface', 'foo', k, 3])
        cases.append(['name', 'wl_registry', 'bind', k, 0])
        cases.append(['enum', 'wl_registry', 'bind', k, 1])
    mres = common.model_eval('proto', cases)
    fn = {'name': protocol.get_arg_name, 'iface': protocol.look_up_interface}
    for c, m in zip(cases, mres):
        res.evaluations += 1
        if c[0] == 'enum':
            r = ires(protocol.look_up_enum, c[1], c[2], c[3], c[4])
        else:
            r = opt_res(ires(fn[c[0]], c[1], c[2], c[3]))
        if r != m:
            res.disagree('lookup differs from model', c, m, r, sig={'entry': 'proto', 'op': c[0], 'iface': c[1], 'msg': c[2], 'idx': c[3], 'value': c[4]},
                         theorem='C07_positional / C07_enum_decode_exact')
        elif m[0] == 'ok' and m[1]:
            res.nontriv(tuple(c))
    res.count('messages', n_msgs)
    res.count('argument_positions', n_args)
    res.count('enum_typed_arguments', n_enum_args)
    res.count('lookups', len(cases))
    res.sample({'lookup': cases[10], 'model': mres[10]})
    res.exhaustive = True
    session_labels(res)
    n, ok, out = common.kernel_replay(res.pid, 'proto', cases, mres, 150 if res.tier == 'quick' else 1500)
    res.kernel_replays += n
    if not ok:
        res.disagree('in-kernel replay differs from extracted model', None, None, out[-500:], sig={'entry': 'kernel-replay'})
    load_orders(res)
    enum_literals(res)
    res.rule = ('EXHAUSTIVE over the shipped data: every interface description compared field by field; every (interface, message, index 0..n) for '
                'get_arg_name / look_up_interface; every enum-typed argument x {each entry value, pairs/unions of bitfield entries, full union, 0, 1, -1, max+1}; '
                'unknown interfaces/messages, wl_registry.bind; plus %s load orders of synthetic multi-version descriptions and enum literal spellings; '
                'non-trivial = lookup with a non-empty answer; distinct by query' % ('200' if res.tier == 'quick' else '2000'))


XML = '''<?xml version="1.0" encoding="UTF-8"?>
<protocol name="p%d">
%s
</protocol>
'''


def xml_iface(i):
    name, ver, msgs, enums = i
    s = '  <interface name="%s" version="%d">\n' % (name, ver)
    for m in msgs:
        s += '    <%s name="%s">\n' % (m[2], m[0])
        for a in m[1]:
            s += '      <arg name="%s" type="%s"%s%s/>\n' % (a[0], a[1], ' interface="%s"' % a[2] if a[2] else '', ' enum="%s"' % a[3] if a[3] else '')
        s += '    </%s>\n' % m[2]
    for e in enums:
        s += '    <enum name="%s"%s>\n' % (e[0], ' bitfield="true"' if e[1] else '')
        for x in e[2]:
            s += '      <entry name="%s" value="%s"/>\n' % (x[0], x[1].replace('<', '&lt;'))
        s += '    </enum>\n'
    return s + '  </interface>\n'


def load_orders(res):
    """synthetic multi-version descriptions through protocol.load in many orders"""
    from core.wl import protocol
    from core.output import Output
    import core.output.stream as stream
    rnd = random.Random(res.seed + 77)
    tmp = os.path.join(common.BUILD, 'c07xml')
    shutil.rmtree(tmp, ignore_errors=True)
    os.makedirs(tmp)
    out = Output(False, False, stream.Null(), stream.Null())
    n_orders = 200 if res.tier == 'quick' else 2000
    names = ['if_a', 'if_b', 'if_c']
    try:
        for trial in range(n_orders // 10):
            files = []
            for k in range(rnd.choice([2, 3, 4, 5])):
                ifs = []
                for name in rnd.sample(names, rnd.choice([1, 2, 3])):
                    ver = rnd.choice([1, 1, 2, 3, 3, 7])
                    nm = rnd.choice([1, 2, 3])
                    msgs = []
                    for j in range(nm):
                        mname = rnd.choice(['m0', 'm1', 'm2', 'm0'])
                        args = [('a%d' % rnd.randrange(3), rnd.choice(['int', 'uint', 'object', 'string']),
                                 rnd.choice([None, 'if_a']), rnd.choice([None, 'e0', 'if_b.e0'])) for _ in range(rnd.choice([0, 1, 2, 3]))]
                        msgs.append((mname, args, rnd.choice(['request', 'event'])))
                    enums = [('e0', rnd.random() < 0.5, [('x%d_v%d' % (q, ver), rnd.choice(['1', '2', '0x4', '1 << 3', '3'])) for q in range(rnd.choice([1, 2, 3]))])]
                    ifs.append((name, ver, msgs, enums))
                if rnd.random() < 0.2 and ifs:
                    ifs.append(ifs[0])        # the same interface twice in one file
                files.append(ifs)
            paths = []
            for k, ifs in enumerate(files):
                p = os.path.join(tmp, 'f%d_%d.xml' % (trial, k))
                with open(p, 'w') as f:
                    f.write(XML % (k, ''.join(xml_iface(i) for i in ifs)))
                paths.append(p)
            orders = list(itertools.permutations(range(len(files))))
            rnd.shuffle(orders)
            for order in orders[:10]:
                protocol.dump_all()
                for k in order:
                    protocol.load(paths[k], out)
                idump = {i[0]: i for i in impl_dump()}
                sx_files = [[[i[0], i[1], [[m[0], [[a[0], a[1], common.opt(a[2]), common.opt(a[3])] for a in m[1]]] for m in i[2]],
                              [[e[0], 1 if e[1] else 0, [[x[0], int(x[1], 0) if '<<' not in x[1] else (int(x[1].split('<<')[0], 0) << int(x[1].split('<<')[1], 0))] for x in e[2]]] for e in i[3]]]
                             for i in files[k]] for k in order]
                lookups = []
                for n in names:
                    i = idump.get(n)
                    if not i:
                        continue
                    for msg in i[2]:
                        for k, a in enumerate(msg[1]):
                            if a[3]:
                                for v in (0, 1, 2, 3, 4, 8, 12):
                                    lookups.append(['enum', n, msg[0], k, v])
                both = common.model_eval('load', [[sx_files, names, lookups]], shards=1)[0]
                m, mlook = both[0], both[1]
                for lk, ml in zip(lookups, mlook):
                    il = ires(protocol.look_up_enum, lk[1], lk[2], lk[3], lk[4])
                    res.evaluations += 1
                    if il != ml and ml != ['raise', 99]:
                        res.disagree('enum lookup on a synthetic description differs from model', dict(lookup=lk, files=[open(paths[k]).read() for k in order]),
                                     ml, il, sig={'entry': 'load-lookup', 'lookup': lk}, theorem='C07_enum_decode_exact')
                        break
                res.evaluations += 1
                got = [common.opt(idump.get(n)) for n in names]
                if got != m:
                    res.disagree('protocol.load result differs from model for a load order', dict(order=list(order), files=[open(paths[k]).read() for k in order]),
                                 m, got, sig={'entry': 'load', 'order': list(order)}, theorem='C07_load_max_version / C07_load_order_independent')
                else:
                    res.nontriv(('load', trial, order))
            res.count('load_order_trials')
    finally:
        protocol.dump_all()
        implsession._loaded = False
        shutil.rmtree(tmp, ignore_errors=True)


def enum_literals(res):
    from core.wl import protocol
    cases = ['0', '7', '10', '0x10', '0X1f', '1 << 4', '3<<2', '0x1 << 0x4', '007', '00', '0b101', '0o17', 'abc', '', '1 <<', '<< 2', '1 < < 2',
             '12a', '0x', '4294967295', '0x80000000', '1<<31', ' 5', '5 ', '1  <<  2', '-1', '1_0']
    mres = common.model_eval('enumval', cases, shards=1)
    for c, m in zip(cases, mres):
        if m == ['raise', 99]:
            res.out_of_model += 1
            continue
        r = ires(protocol.parse_enum_value, c)
        res.evaluations += 1
        if r != m:
            res.disagree('parse_enum_value differs from model', c, m, r, sig={'entry': 'enumval', 'text': c}, theorem='C07_literal_decimal / C07_literal_hex')


def session_labels(res):
    """names, nil types and enum labels as they come out of whole sessions (state carried from message to message)"""
    import random
    import sessioncheck
    rnd = random.Random(res.seed * 977 + 7)
    n = 60 if res.tier == 'quick' else 2000
    cases = [sessioncheck.build_case(rnd, n_events=rnd.choice([30, 60]), chatter=0.0, n_conns=rnd.choice([1, 2]), known_bias=0.95) for _ in range(n)]
    sessioncheck.run_cases(res, cases, lambda cat: cat.startswith('out.msg') or cat == 'final.ctrl.all', 'C07 (labels inside a session)',
                           theorem='C07_positional / C07_enum_decode_exact (model of the session)', nontrivial=lambda c, m: False, kernel_sample=4)


def replay(dis):
    from core.wl import protocol
    implsession.load_protocols()
    c = dis['input']
    if dis['sig'].get('entry') == 'proto':
        print('model:', common.model_eval('proto', [c], shards=1)[0])
        if c[0] == 'enum':
            print('impl :', ires(protocol.look_up_enum, c[1], c[2], c[3], c[4]))
        else:
            print('impl :', ires({'name': protocol.get_arg_name, 'iface': protocol.look_up_interface}[c[0]], c[1], c[2], c[3]))
    else:
        print(dis)
    return 0
