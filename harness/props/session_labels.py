"""C14, second half: a displayed label used as a matcher (`B: 7c`, `B:`) selects exactly the
messages that are on, mention, create or destroy that object / belong to that connection.
Checked on /repo against an oracle computed from the recorded message objects themselves."""
import random
import re

import implsession
import sessioncheck

LABEL = re.compile(r'(\w+)@(\d+)([a-z]+)')


def run(res):
    from core.util import no_color
    rnd = random.Random(res.seed * 3331 + 14)
    n = 120 if res.tier == 'quick' else 4000
    checked = 0
    for _ in range(n):
        # some sessions select connections while the messages are still arriving (live use: gdb mode, run mode with breakpoints);
        # what a label selects afterwards must not depend on which connection was selected when a message arrived
        live = rnd.random() < 0.4
        import cmdgen
        case = sessioncheck.build_case(rnd, n_events=rnd.choice([30, 60]), chatter=0.02, n_conns=rnd.choice([1, 2, 3]),
                                       cmds=(lambda r_: cmdgen.conn_cmd(r_)) if live else None, cmd_rate=0.08 if live else 0.0)
        cfg = case['config']
        if rnd.random() < 0.3:
            cfg[0] = rnd.choice(['wl_display', '.get_registry', 'wl_registry ! .bind'])     # a filter in force must not leak into `list LABEL`
        r = implsession.LogRunner(cfg, [(e[0], e[1]) if len(e) > 1 else (e[0],) for e in case['impl_events']], lambda e: e[1])
        outs, final = r.run()
        conns = list(r.cm.connection_list)
        r.ctrl.process_command('connection all')
        # distinct objects of a connection never share a displayed label (every object of the table, not only the sampled ones)
        for conn in conns:
            seen = {}
            for l in conn.db.values():
                for o in l:
                    lab = no_color(o.id_str())
                    if lab in seen and seen[lab] is not o:
                        res.disagree('two objects of one connection share a displayed label', case['impl_events'], 'distinct', [conn.name(), lab],
                                     sig={'category': 'label-shared'}, theorem='C14_label_inj')
                    seen[lab] = o
        names = [c.name() for c in conns]
        if len(set(names)) != len(names):
            res.disagree('two connections share a name', case['impl_events'], 'distinct', names, sig={'category': 'label-conn-unique'}, theorem='C14_conn_names_distinct')
        # labels as displayed
        labels = set()
        for ev in outs:
            for s, t in ev:
                m = re.match(r'\s*-?\d+\.\d{4} (\w*): ', t)
                if not m:
                    continue
                for (ty, oid, letters) in LABEL.findall(t):
                    if m.group(1):
                        labels.add((m.group(1), int(oid), letters))
        labels = sorted(labels)
        rnd.shuffle(labels)
        for (cname, oid, letters) in labels[:12]:
            conn = [c for c in conns if c.name() == cname]
            if len(conn) != 1:
                res.disagree('connection name is not unique', case['impl_events'], None, cname, sig={'category': 'label-conn-unique'}, theorem='C14_conn_names_distinct')
                continue
            conn = conn[0]
            # the objects this label can denote: must be exactly one
            objs = [o for l in conn.db.values() for o in l if o.id == oid and o.id_str().endswith(str(oid) + letters)]
            if len(objs) != 1:
                res.disagree('displayed label does not denote exactly one object', case['impl_events'], 1, [cname, oid, letters, len(objs)],
                             sig={'category': 'label-unique'}, theorem='C14_label_inj')
                continue
            obj = objs[0]

            def same(o):
                # the tool gives an UNRESOLVED mention (shown as `@8?`: an id the log never saw created) generation 0, so the label
                # `8a` of a later first incarnation also selects it (O8, ill-formed / mid-session logs only; core/matcher.py:312)
                return o is obj or (o is not None and getattr(o, 'generation', 0) is None and o.id == obj.id and obj.generation == 0)

            def involves(msg):
                if same(msg.obj) or same(msg.destroyed_obj):
                    return True
                return any(same(getattr(a, 'obj', None)) for a in msg.args)
            # the label carries the connection name: a message whose own target is unresolved has no connection (O7) and is not selected
            # (the oracle reads what the connection delivered, observed by the harness, not the controller's own merged list)
            want = [m for (dc, m) in r.delivered if dc is conn and getattr(m.obj, 'connection', None) is conn and involves(m)]
            text = '%s: %d%s' % (cname, oid, letters)
            if rnd.random() < 0.3:
                # the same label text used in other commands first: what `list LABEL` returns afterwards depends on the label alone
                r.ctrl.process_command(rnd.choice(['filter wl_region', 'breakpoint wl_display', 'filter wl_registry, wl_compositor', 'filter ! .done']))
                r.ctrl.process_command(rnd.choice(['filter ', 'breakpoint ', 'matcher ']) + text)
            st = len(r.log)
            r.ctrl.process_command('list ' + text)
            lines = [t for s, t in r.log[st:] if re.match(r'\s*-?\d+\.\d{4} ', t)]
            got_n = len(lines)
            res.evaluations += 1
            checked += 1
            # compare the listed lines with the oracle's lines (each message's own rendering)
            want_lines = []
            for m in want:
                buf = []

                class O:
                    def show(self, *a):
                        buf.append(' '.join(str(x) for x in a))
                m.show(O())
                want_lines.append(buf[0])
            if lines != want_lines:
                res.disagree('`list <label>` does not select exactly the messages involving that object', dict(label=text, impl_events=case['impl_events']),
                             want_lines[:8], lines[:8], sig={'category': 'label-as-matcher', 'label': text}, theorem='C14 label as matcher (exploration on /repo) + C11')
            else:
                res.nontriv(('label', text, tuple(case['impl_events'][:3])))
        # connection names as matchers
        for c in conns:
            st = len(r.log)
            r.ctrl.process_command('list %s:' % c.name())
            lines = [t for s, t in r.log[st:] if re.match(r'\s*-?\d+\.\d{4} ', t)]
            # a message whose TARGET could not be resolved (an id this log never saw created) carries no connection in the tool:
            # it is shown with an empty connection column and `X:` does not select it (O7, ill-formed histories only)
            want = [m for (dc, m) in r.delivered if dc is c and getattr(m.obj, 'connection', None) is c]
            res.evaluations += 1
            if len(lines) != len(want):
                res.disagree('`list X:` does not select exactly the messages of connection X', dict(conn=c.name(), impl_events=case['impl_events']),
                             len(want), len(lines), sig={'category': 'conn-as-matcher'}, theorem='C14 connection name as matcher')
    res.extra['labels_fed_back_as_matchers'] = checked
