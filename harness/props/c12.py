"""C12 — filter/breakpoint commands accumulate alternatives and exclusions."""
import cmdgen
import matchgen
import sessioncheck
from props import sessprop


def gen(rnd):
    cfg = [matchgen.matcher(rnd, 1).strip() if rnd.random() < 0.3 else None,
           matchgen.matcher(rnd, 1).strip() if rnd.random() < 0.3 else None, 0, 1, 0]
    if rnd.random() < 0.15:
        # start-up matchers that are not literally `*` / `!` but fold to them: the first command must REPLACE them
        cfg[0] = rnd.choice(['*.*', '*.*()', '*, *', '[*]'])
    if rnd.random() < 0.1:
        cfg[1] = rnd.choice(['!', '* ! *', '.x ! *'])
    return sessioncheck.build_case(rnd, n_events=rnd.choice([15, 30]), config=cfg, chatter=0.02,
                                   cmds=lambda r: cmdgen.mixed(r, (5, 4, 1, 0.5, 0.5)), cmd_rate=0.3)


def nontriv(c, m):
    return sum(1 for e in c['events'] if e[0] == 'cmd' and e[1].strip()[:1] in ('f', 'b')) >= 3


INFO, run, replay = sessprop.make(
    'C12', ['out.cmd*', 'out.msg', 'final.ctrl.matchers'],
    ['Proofs/MatcherProofs.v', 'Proofs/JoinSteps.v'],
    ['theorems are about WD.Matcher.join / simplify; tied to core.matcher.join and Controller.parse_and_join by sessions in which filter/breakpoint commands (alternatives, exclusions, both, `*`, `!`, malformed) are chained and every later message line / Stopped notice / printed matcher is compared'],
    'C12_run_exact / C12_run_selects / C12_join_replaces', gen, nontriv,
    'generated sessions with chained filter/breakpoint commands (30% rate between lines; 10% malformed matchers) followed by more traffic; non-trivial = at least three filter/breakpoint commands; distinct by input')
