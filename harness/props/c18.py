"""C18 — no input makes the tool fail with an unhandled error."""
import os
import random
import subprocess
import sys

import cmdgen
import common
import implenv
import implsession
import matchgen
import sessioncheck
import universe
import world

INFO = {
    'proof_files': ['Proofs/TotalityProofs.v', 'Proofs/EofCloses.v', 'Proofs/NoRaiseA.v', 'Proofs/NoRaiseB.v'],
    'assumptions': [
        'PARTIAL: the theorem side covers the exception sources the model contains (matcher.parse raises nothing but RuntimeError; the log pipeline handles every exception of decoding/resolving; every connection opened by the log backend is closed at end of input); an exception source that is not in the model is not covered by it',
        'that gap is what the malformed-stream exploration looks for: arbitrary bytes (mutated valid logs, truncation, undecodable bytes, huge numbers, id 0, lone ESC) through the same open()/into_sink path main.py uses and through main.py as a process in file, pipe and run mode; arbitrary matcher text (grammar, mutations, arbitrary Unicode) parsed, simplified, evaluated on a message universe and printed; arbitrary printable command lines against random session states',
    ],
}


def garbage_log(rnd):
    d, items = world.gen_history(rnd, n_events=rnd.choice([5, 15, 30]), chatter=0.2)
    lines = []
    for it in items:
        t = world.render_line(it[2], d) if it[0] == 'msg' else it[1]
        r = rnd.random()
        if r < 0.35:
            from props.c01 import mutate
            t = mutate(rnd, t)
        elif r < 0.4:
            t = t.replace('1', '1' * 400, 1)
        elif r < 0.45:
            import re as _re
            # an object id that IS zero (target, object argument or new id), not merely a leading zero
            t = _re.sub(r'([@#])\d+', lambda m: m.group(1) + rnd.choice(['0', '00', '0']), t, count=rnd.choice([1, 1, 2, 5]))
        elif r < 0.5:
            t = rnd.choice(['[1.0] wl_display@1.delete_id("x")', '[1.0] wl_display@1.delete_id(0)', '[1.0] wl_registry@2.bind(1)', '[1.0] a@1.b(1e999, "x", 1)',
                            '[1.0] wl_registry@2.bind(1, "x", 1, new id wl_y@3)', '[1.0] wl_surface@3.no_such_message(1)', '[1.0] wl_display@1.sync(1, 2, 3, 4)',
                            '[1.0] x@99999999999999999999.y()', '[1.0] wl_surface@0.commit()', '[1.0] a@3.attach(wl_buffer@0, 0, 0)', '[1.0] a@3.b(new id wl_callback@0)', '[1.0] a@3.b(nil@0)', '%%%[[[ 7,5 ] {q} <c> x#0.y(]]])', '[99999999999999999999999.0] x@1.y()', '\x1b[31m', '\x1b', '[1.0] x@1.set_app_id()', '[1.0] x@1.set_title(5)'])
        lines.append(t)
    data = '\n'.join(lines).encode('utf-8', 'surrogatepass' if False else 'replace')
    r = rnd.random()
    if r < 0.3:
        # undecodable bytes
        pos = rnd.randrange(len(data) + 1)
        data = data[:pos] + rnd.choice([b'\xff', b'\xc3', b'\xe2\x82', b'\x80\x80', b'\xfe\xff']) + data[pos:]
    elif r < 0.4:
        data = bytes(rnd.randrange(256) for _ in range(rnd.choice([1, 10, 200])))
    elif r < 0.5:
        data = data[:rnd.randrange(len(data) + 1)]
    if rnd.random() < 0.5:
        data += b'\n'
    return data


def run_log_inprocess(data, path):
    """the path main.file_input_main takes: open(path) then parse.into_sink"""
    from core import matcher, ConnectionManager
    from core.output import Output
    import core.output.stream as stream
    from frontends.tui import Controller
    from backends.libwayland_debug_output import parse
    from core.wl import message as wlmsg
    implsession.load_protocols()
    wlmsg.Message.base_time = None
    with open(path, 'wb') as f:
        f.write(data)
    out = Output(False, True, stream.Null(), stream.Null())
    cm = ConnectionManager()
    Controller(out, cm, matcher.always, matcher.never)
    input_file = None
    try:
        input_file = main_open(path)
        parse.into_sink(input_file, out, cm)
    finally:
        if input_file is not None:
            input_file.close()
    return [c.name() for c in cm.connection_list if c.is_open()]


def main_open(path):
    """open the file exactly as main.file_input_main does (read from its source so that a change of
    the open() call there is followed)"""
    import ast
    import inspect
    import importlib.util
    if 'wd_repo_main' not in sys.modules:
        spec = importlib.util.spec_from_file_location('wd_repo_main', os.path.join(common.REPO, 'main.py'))
        mod = importlib.util.module_from_spec(spec)
        sys.modules['wd_repo_main'] = mod
        spec.loader.exec_module(mod)
        import logging
        logging.disable(logging.CRITICAL)
    main_mod = sys.modules['wd_repo_main']
    src = inspect.getsource(main_mod.file_input_main)
    tree = ast.parse(src)
    for node in ast.walk(tree):
        if isinstance(node, ast.Call) and isinstance(node.func, ast.Name) and node.func.id == 'open':
            kwargs = {k.arg: ast.literal_eval(k.value) for k in node.keywords}
            extra = [ast.literal_eval(a) for a in node.args[1:]]
            return open(path, *extra, **kwargs)
    raise RuntimeError('main.file_input_main no longer calls open(); harness needs updating')


def run(res):
    rnd = random.Random(res.seed * 911 + 18)
    work = os.path.join(common.BUILD, 'c18')
    os.makedirs(work, exist_ok=True)
    path = os.path.join(work, 'garbage.log')
    # 1. arbitrary bytes as a log (in-process, the file path of main.py)
    n = 1500 if res.tier == 'quick' else 60000
    for k in range(n):
        data = garbage_log(rnd)
        res.evaluations += 1
        try:
            still_open = run_log_inprocess(data, path)
        except Exception as e:
            undec = False
            try:
                data.decode('utf-8')
            except UnicodeDecodeError:
                undec = True
            res.disagree('a log aborts the tool with an unhandled error', dict(bytes=repr(data[:400])), 'consumed to the end', repr(e)[:300],
                         sig={'entry': 'log', 'exception': type(e).__name__, 'undecodable_bytes': undec}, theorem='C18 (exploration part)')
            continue
        if still_open:
            res.disagree('connections left open at end of input', dict(bytes=repr(data[:400])), [], still_open, sig={'entry': 'log-open'},
                         theorem='C18_all_opened_are_closed')
            continue
        res.count('log_ok')
        if k < 3:
            res.sample({'log_bytes': repr(data[:160])})
        res.nontriv(data)
    # 2. arbitrary matcher text
    from core import matcher
    uni = universe.build_universe(rnd, 40)
    imsgs = [universe.impl_msg(m) for m in uni]
    # a float argument that is not finite (libwayland never prints one; a mutated log can)
    from core import wl
    inf_msg = universe.impl_msg(uni[0])
    inf_msg.args = (wl.Arg.Float(float('inf')), wl.Arg.Float(float('nan')))
    imsgs.append(inf_msg)
    n2 = 4000 if res.tier == 'quick' else 300000
    for k in range(n2):
        r = rnd.random()
        if r < 0.4:
            t = matchgen.matcher(rnd, rnd.choice([1, 2, 3]))
        elif r < 0.8:
            t = matchgen.mutate(rnd, matchgen.mutate(rnd, matchgen.matcher(rnd, 2)))
        elif r < 0.85:
            t = ''.join(rnd.choice('()[]"!,.:=@#*~ -_abc019\t\x1b\\é→１') for _ in range(rnd.choice([1, 3, 8, 30])))
        elif r < 0.9:
            # characters whose case mapping, digit value or width is unusual, in the places where the parser classifies characters
            odd = rnd.choice(['İ', 'ı', 'K', 'ſ', 'ß', 'ǅ', 'ﬁ', '²', '٣', '１', 'Ⅷ', 'ª', 'µ', '\u0345', '\u200b', '\ud800', '\uffff', '𝟓', 'ａ'])
            base = rnd.choice(['5%s', '@3%s', '#7%s', '%s5', '3a%s', '%s', 'A%s: 3', 'x.configure(3%s)', '(x=%s)', '(%s=1)', 'wl_%s', '[4%s, wl_surface]',
                               '.%s', '3%sb', '(1.%s)', '(-%s)', '"%s"'])
            t = base % odd
        else:
            t = ''.join(chr(rnd.choice([rnd.randrange(32, 127), rnd.randrange(0x80, 0x3000), rnd.randrange(0x1F300, 0x1F600)])) for _ in range(rnd.choice([1, 5, 20])))
        res.evaluations += 1
        try:
            try:
                m = matcher.parse(t)
            except RuntimeError:
                res.count('matcher_rejected')
                continue
            s0 = str(m)
            repr(m)
            for x in imsgs:
                m.matches(x)
            s = m.simplify()
            str(s)
            for x in imsgs:
                s.matches(x)
            res.count('matcher_accepted')
            res.nontriv(('m', t))
        except Exception as e:
            res.disagree('matcher text causes an unhandled error', t, 'accepted or RuntimeError', repr(e)[:300],
                         sig={'entry': 'matcher', 'exception': type(e).__name__, 'text': t[:120],
                              'nonfinite_float_argument': isinstance(e, (OverflowError, ValueError))}, theorem='C18_parse_raises_only_runtime_error')
    # deep nesting and long command chains (CPython's recursion limit)
    for depth in (50, 120, 400):
        t = '[' * depth + 'x' + ']' * depth
        res.evaluations += 1
        try:
            try:
                matcher.parse(t).simplify()
            except RuntimeError:
                pass
        except Exception as e:
            res.disagree('deeply nested matcher causes an unhandled error', 'brackets nested %d deep' % depth, 'accepted or RuntimeError', repr(e)[:200],
                         sig={'entry': 'matcher-depth', 'exception': type(e).__name__, 'depth': depth})
    # 3. arbitrary command lines against session states
    n3 = 150 if res.tier == 'quick' else 6000
    for k in range(n3):
        case = sessioncheck.build_case(rnd, n_events=rnd.choice([0, 5, 15]), chatter=0.1,
                                       cmds=lambda r: weird_cmd(r), cmd_rate=0.4)
        res.evaluations += 1
        try:
            sessioncheck.run_impl(case)
            res.nontriv(case['impl_events'])
        except Exception as e:
            last = [e_ for e_ in case['impl_events'] if e_[0] == 'cmd']
            res.disagree('a command line causes an unhandled error', case['impl_events'], 'output or an error line', repr(e)[:300],
                         sig={'entry': 'command', 'exception': type(e).__name__, 'escape_then_blank': any(c[1].lstrip().startswith('\x1b') for c in last)})
    # ill-typed title / app-id / namespace arguments in the log, THEN commands that print or look up connection names
    for odd in ('xdg_toplevel@8.set_title(42)', 'xdg_toplevel@8.set_app_id(7.5)', 'xdg_toplevel@8.set_title(nil)', 'xdg_toplevel@8.set_app_id(fd 3)',
                'zwlr_layer_shell_v1@9.get_layer_surface(new id zwlr_layer_surface_v1@10, wl_surface@5, nil, 2, fd 12)', 'xdg_toplevel@8.set_title()',
                'xdg_toplevel@8.set_app_id(array[4])', 'xdg_toplevel@8.set_title(wl_surface@5)'):
        lines = ['[1.000]  -> wl_display@1.get_registry(new id wl_registry@2)', '[1.100]  -> ' + odd, '[1.200]  -> wl_display@1.sync(new id wl_callback@3)']
        cmds = ['connection', 'connection a', 'c 42', 'connection 7.5', 'list', 'c all', 'connection']
        case = dict(config=[None, None, 0, 1, 0], impl_events=[('line', l) for l in lines] + [('eof',)] + [('cmd', c) for c in cmds],
                    events=[['text', l] for l in lines] + [['eof']] + [['cmd', c] for c in cmds], dialect='old')
        res.evaluations += 1
        try:
            sessioncheck.run_impl(case)
            res.nontriv(('odd-title', odd))
        except Exception as e:
            res.disagree('a command fails with an unhandled error after an ill-typed title / app-id line in the log', case['impl_events'], 'output or an error line',
                         repr(e)[:300], sig={'entry': 'command-after-odd-line', 'exception': type(e).__name__, 'line': odd})
    for count in (50, 2000):
        res.evaluations += 1
        case = dict(config=[None, None, 0, 1, 0], impl_events=[('cmd', 'w ' * count + 'help'), ('eof',)], events=[['cmd', 'x'], ['eof']], dialect='old')
        try:
            sessioncheck.run_impl(case)
        except Exception as e:
            res.disagree('a long chain of `w` prefixes causes an unhandled error', '`w ` x %d + help' % count, 'output or an error line', repr(e)[:200],
                         sig={'entry': 'command-depth', 'exception': type(e).__name__, 'count': count})
    # deeply nested matcher text, as matcher and as command argument (recursion depth of the parser)
    from core import matcher as _matcher
    for depth in (100, 600, 3000):
        for shape in ('[' * depth + 'wl_surface' + ']' * depth, '(' + '[' * depth + '5' + ']' * depth + ')',
                      '[' * depth + 'a, b ! c' + ']' * depth, 'x.' + '[' * depth + 'y' + ']' * depth):
            res.evaluations += 2
            try:
                try:
                    m = _matcher.parse(shape)
                    str(m.simplify())
                except RuntimeError:
                    pass
                case = dict(config=[None, None, 0, 1, 0], impl_events=[('cmd', 'filter ' + shape), ('cmd', 'list ' + shape), ('eof',)],
                            events=[['cmd', 'x'], ['cmd', 'x'], ['eof']], dialect='old')
                sessioncheck.run_impl(case)
                res.nontriv(('deep', depth, shape[:3]))
            except Exception as e:
                res.disagree('deeply nested matcher text causes an unhandled error', '%d levels: %s...' % (depth, shape[depth - 1:depth + 12]), 'accepted or RuntimeError',
                             repr(e)[:200], sig={'entry': 'matcher-depth', 'exception': type(e).__name__, 'depth': depth})
    # 4. main.py as a process in the three input modes
    process_level(res, rnd, work)
    res.rule = ('logs: generated valid logs with 35% mutated lines, pathological lines (id 0, non-int delete_id, short bind, 1e999, huge numbers, lone ESC), undecodable bytes, random bytes, truncation; '
                'matchers: grammar-generated, doubly mutated, punctuation soup, arbitrary Unicode, deep nesting; commands: generated + mutated + control characters against random session states; '
                'non-trivial = input consumed without an unhandled error; distinct by input')
    for f in os.listdir(work):
        try:
            os.remove(os.path.join(work, f))
        except OSError:
            pass


def weird_cmd(rnd):
    r = rnd.random()
    if r < 0.06:
        # numbers at and beyond what int() converts (Python refuses more than 4300 digits), other spellings of a count
        return rnd.choice(['list ~ ' + '9' * 5000, 'l ~ -' + '1' * 4400, 'wl list wl_display ~ ' + '0' * 6000, 'list ~ +5', 'list ~ 1_0', 'list ~ 0x10',
                           'list ~ 1e3', 'list ~ \u0663', 'list ~ \uff15', 'list ~ 5 ~ 6', 'list ~', 'connection ' + 'A' * 5000, 'help ' + 'x' * 5000,
                           'filter ' + 'a' * 20000, 'breakpoint (' + '1' * 5000 + ')', 'list (' + '1' * 4400 + '.' + '5' * 10 + ')'])
    if r < 0.12:
        # escape sequences as a terminal selection carries them: before the first word (D13: followed by a blank it tripped an assertion), alone, broken
        return rnd.choice(['\x1b[0m list', '\x1b[0m \x1b[1m  ', '\x1b[93mlist\x1b[0m \x1b[1;96mwl_surface\x1b[0m', '\x1b', '\x1b[ list', ' \x1b[0m',
                           '\x1b[0m w \x1b[0m help', '\x1b[0m\tfilter wl_surface', '\x1b[0m \x1b[0m \x1b[0m q q', 'w \x1b[0m', '\x1b[1;37mA\x1b[0m'])
    if r < 0.5:
        return cmdgen.mixed(rnd)
    if r < 0.8:
        return matchgen.mutate(rnd, cmdgen.mixed(rnd))
    return ''.join(rnd.choice('lfbcmhrqw ~!*()[]"0123456789-.:=@#\t') for _ in range(rnd.choice([1, 2, 5, 12])))


def process_level(res, rnd, work):
    n = 8 if res.tier == 'quick' else 150
    main = os.path.join(common.REPO, 'main.py')
    env = dict(os.environ, PYTHONPATH=common.REPO)
    helper = os.path.join(work, 'emit.py')
    open(helper, 'w').write('import os, sys\nos.write(2, open(sys.argv[1], "rb").read())\n')
    for k in range(n):
        data = garbage_log(rnd)
        p = os.path.join(work, 'g.log')
        open(p, 'wb').write(data)
        for mode in ('load', 'pipe', 'run'):
            if mode == 'load':
                r = subprocess.run([sys.executable, '-B', main, '-C', '-l', p], input=b'q\n', capture_output=True, env=env, timeout=120)
            elif mode == 'pipe':
                r = subprocess.run([sys.executable, '-B', main, '-C', '-p'], input=data, capture_output=True, env=env, timeout=120)
            else:
                r = subprocess.run([sys.executable, '-B', main, '-C', '-r', sys.executable, helper, p], input=b'q\n', capture_output=True, env=env, timeout=120)
            res.evaluations += 1
            err = r.stderr.decode('utf-8', 'replace')
            if r.returncode != 0 or 'Traceback (most recent call last)' in err:
                undec = False
                try:
                    data.decode('utf-8')
                except UnicodeDecodeError:
                    undec = True
                exc = [l for l in err.split('\n') if 'Error' in l][-1:] or ['?']
                res.disagree('main.py aborts on a log', dict(mode=mode, bytes=repr(data[:300])), 'exit status 0, no traceback', [r.returncode, err[-300:]],
                             sig={'entry': 'process', 'mode': mode, 'exception': exc[0].split(':')[0].strip(), 'undecodable_bytes': undec})
            else:
                res.nontriv((mode, data))


def replay(dis):
    print(dis.get('impl'))
    return 0
