"""C16 — displayed times are the log's times relative to the first message."""
import re

import cmdgen
import implsession
import matchgen
import sessioncheck
from props import sessprop


def gen(rnd):
    cfg = [matchgen.matcher(rnd, 1).strip() if rnd.random() < 0.5 else None, None, 0, 1, 0]
    case = sessioncheck.build_case(rnd, n_events=rnd.choice([15, 30]), config=cfg, chatter=0.05,
                                   cmds=lambda r: cmdgen.mixed(r, (1, 0, 3, 1, 0)), cmd_rate=0.1)
    if rnd.random() < 0.3:
        # the live view stops early (filter = an early message's name), then a listing whose first hit is much later:
        # the listing must not inherit the live view's last shown time (no separator under the header)
        msgs = [e[2] for e in case['events'] if e[0] == 'msg']
        if len(msgs) >= 4:
            early = msgs[rnd.randrange(0, 2)]
            late = msgs[-rnd.randrange(1, 3)]
            flt = '%s.%s' % (early[1][0], early[4])
            if sessioncheck.valid_matcher(flt):
                case['config'][0] = flt
                for cmd in ('list %s.%s' % (late[1][0], late[4]), 'list .%s' % late[4], 'list'):
                    case['events'].append(['cmd', cmd])
                    case['impl_events'].append(('cmd', cmd))
    return case


def nontriv(c, m):
    return True


TS = re.compile(r'^\[\s*(\d+)([.,])(\d{3})\]')
TS_ANY = re.compile(r'\[\s*(\d+)([.,])(\d+)\]')


TAIL = re.compile(r'( \{[^}]*\})?( <\w+>)?(  -> | )\w+[@#]\d+\.\w+\(')


def shift_line(line, c_us):
    # the time stamp of the MESSAGE: the leftmost one that is followed by a message (program output glued in front of the
    # message may itself contain something that looks like a time stamp)
    for m in TS_ANY.finditer(line):
        if TAIL.match(line, m.end()):
            # any number of digits after the mark (`[1000.0]`, `[1000.2500]`): the fraction is read as a decimal fraction of a
            # millisecond, in units of 10^-k ms with k = max(3, digits), so that the shift (whole microseconds) stays exact
            fr = m.group(3)
            k = max(3, len(fr))
            units = int(m.group(1)) * 10 ** k + int(fr.ljust(k, '0')) + c_us * 10 ** (k - 3)
            body = '%d%s%0*d' % (units // 10 ** k, m.group(2), k, units % 10 ** k)
            return line[:m.start()] + '[%s]' % body.rjust(10) + line[m.end():]
    return line


def extra(res, rnd, cases):
    """metamorphic on the implementation itself: shift every time stamp by a constant"""
    n = 0
    for c in cases[: (60 if res.tier == 'quick' else 1500)]:
        shift = rnd.choice([1, 999, 1000, 123456, 10 ** 9, 10 ** 12, 86400000000])
        c2 = dict(c, impl_events=[(e[0], shift_line(e[1], shift)) if (e[0] == 'line' and me[0] == 'msg') else e
                                   for e, me in zip(c['impl_events'], c['events'])])
        try:
            o1, f1, _ = sessioncheck.run_impl(c)
            o2, f2, _ = sessioncheck.run_impl(c2)
        except Exception as e:
            continue
        n += 1
        res.evaluations += 1
        if not same_modulo_last_digit(o1, o2):
            res.disagree('shifting all log times changes the output', dict(shift_us=shift, impl_events=c['impl_events']), None,
                         {'unshifted': o1[:6], 'shifted': o2[:6]}, sig={'category': 'shift-metamorphic'}, theorem='C16_shift_invariant')
    res.extra['shift_metamorphic_runs'] = n


NUM = re.compile(r'-?\d+\.\d{4}')


def same_modulo_last_digit(o1, o2):
    if len(o1) != len(o2):
        return False
    for a, b in zip(o1, o2):
        # separators at exactly 1 s may appear/disappear: drop separator lines whose gap is 1.0000
        a = [x for x in a if not ('───┤ 1.0000s' in x[1] or '───┤ 1.0001s' in x[1])]
        b = [x for x in b if not ('───┤ 1.0000s' in x[1] or '───┤ 1.0001s' in x[1])]
        if len(a) != len(b):
            return False
        for (s1, t1), (s2, t2) in zip(a, b):
            if s1 != s2 or NUM.sub('#', t1) != NUM.sub('#', t2):
                return False
            for x, y in zip(NUM.findall(t1), NUM.findall(t2)):
                if abs(float(x) - float(y)) > 0.00011:
                    return False
    return True


INFO, run, replay = sessprop.make(
    'C16', ['out.msg', 'out.cmd*', 'final.conn.msgs.time', 'final.conn.objects.life'],
    ['Proofs/ControllerProofs.v', 'Proofs/SessionProofs.v', 'Proofs/SeparatorRuns.v'],
    ['times are exact decimals (microseconds) in the model; binary64 rounding of the implementation is outside it: displayed times are compared with half-a-unit-in-the-last-digit latitude and a separator at a gap of exactly 1 s may or may not appear',
     'tied to core/wl/message.py, parse.message and Controller._show_message by comparing the time column and separator lines of every shown message (live and in listings, under filters), both decimal marks, plus the shift metamorphic check on the implementation'],
    'C16_shift_invariant / C16_separator_iff', gen, nontriv,
    'generated sessions with gaps clustered around 1 s (0, 1us, 999.999ms, 1s, 1.000001s, 1.001s, ...), filters, list commands; plus each of the first sessions re-run with all times shifted by a constant up to 1e12 us; distinct by input',
    extra=extra)
